(* C20 — lemmas about the model of the separation helpers *)
From V Require Import Common.NumFacts C20.Model.
Open Scope Q_scope.

(* ================================================================ list / vector infrastructure *)

Lemma nthq_cons0 x (l : vec) : nthq (x :: l) 0 = x.
Proof. reflexivity. Qed.
Lemma nthq_consS x (l : vec) i : nthq (x :: l) (S i) = nthq l i.
Proof. reflexivity. Qed.

Lemma nthq_overflow (l : vec) i : (length l <= i)%nat -> nthq l i = 0.
Proof. intros H. unfold nthq. apply nth_overflow. exact H. Qed.

Lemma nthq_upd (l : vec) i j x :
  nthq (upd l i x) j = if (Nat.eqb i j && Nat.ltb i (length l))%bool then x else nthq l j.
Proof.
  unfold nthq.
  revert i j; induction l as [|h t IH]; intros [|i] [|j]; cbn [upd length nth Nat.eqb andb]; try reflexivity.
  - destruct (Nat.eqb i j); reflexivity.
  - rewrite IH.
    replace (Nat.ltb (S i) (S (length t))) with (Nat.ltb i (length t)).
    + reflexivity.
    + destruct (Nat.ltb_spec i (length t)), (Nat.ltb_spec (S i) (S (length t))); auto; lia.
Qed.

Lemma nthq_upd_same_lt (l : vec) i x : (i < length l)%nat -> nthq (upd l i x) i = x.
Proof.
  intros H. rewrite nthq_upd, Nat.eqb_refl. destruct (Nat.ltb_spec i (length l)); [reflexivity|lia].
Qed.

Lemma nthq_upd_other (l : vec) i j x : i <> j -> nthq (upd l i x) j = nthq l j.
Proof.
  intros H. rewrite nthq_upd. destruct (Nat.eqb_spec i j); [contradiction|reflexivity].
Qed.

Lemma scatter_length v idx vals : length (scatter v idx vals) = length v.
Proof.
  revert v vals; induction idx as [|i idx IH]; intros v [|x vals]; simpl; auto.
  rewrite IH. apply upd_length.
Qed.

Lemma scatter_c_length v idx c : length (scatter_c v idx c) = length v.
Proof.
  revert v; induction idx as [|i idx IH]; intros v; simpl; auto.
  rewrite IH. apply upd_length.
Qed.

Lemma gather_length v idx : length (gather v idx) = length idx.
Proof. apply map_length. Qed.

Lemma nthq_gather v idx k : (k < length idx)%nat -> nthq (gather v idx) k = nthq v (nth k idx 0%nat).
Proof.
  revert k; induction idx as [|i idx IH]; intros [|k] H; simpl in *; try lia; try reflexivity.
  rewrite nthq_consS. apply IH. lia.
Qed.

Lemma scatter_other v idx vals j : ~ In j idx -> nthq (scatter v idx vals) j = nthq v j.
Proof.
  revert v vals; induction idx as [|i idx IH]; intros v [|x vals] H; simpl; auto.
  rewrite IH.
  - apply nthq_upd_other. intros E; apply H; left; exact E.
  - intros E; apply H; right; exact E.
Qed.

Lemma scatter_c_other v idx c j : ~ In j idx -> nthq (scatter_c v idx c) j = nthq v j.
Proof.
  revert v; induction idx as [|i idx IH]; intros v H; simpl; auto.
  rewrite IH.
  - apply nthq_upd_other. intros E; apply H; left; exact E.
  - intros E; apply H; right; exact E.
Qed.

Lemma scatter_nth v idx vals k :
  NoDup idx -> length vals = length idx -> (forall i, In i idx -> (i < length v)%nat) ->
  (k < length idx)%nat ->
  nthq (scatter v idx vals) (nth k idx 0%nat) = nthq vals k.
Proof.
  revert v vals k; induction idx as [|i idx IH]; intros v [|x vals] k ND L B Hk; simpl in *; try lia.
  inversion ND as [|? ? Hni ND']; subst.
  destruct k as [|k].
  - rewrite scatter_other by exact Hni.
    rewrite nthq_upd_same_lt; [reflexivity | apply B; left; reflexivity].
  - rewrite nthq_consS. apply IH; auto; try lia.
    intros j Hj. rewrite upd_length. apply B; right; exact Hj.
Qed.

Lemma scatter_c_in v idx c j :
  In j idx -> (j < length v)%nat -> nthq (scatter_c v idx c) j = c.
Proof.
  revert v; induction idx as [|i idx IH]; intros v H B; simpl in *; [contradiction|].
  destruct (in_dec Nat.eq_dec j idx) as [Hin|Hnin].
  - apply IH; auto. rewrite upd_length; exact B.
  - destruct H as [E|H]; [subst i|contradiction].
    rewrite scatter_c_other by exact Hnin. apply nthq_upd_same_lt; exact B.
Qed.

Lemma nthq_vzero n i : nthq (vzero n) i = 0.
Proof.
  unfold nthq, vzero. revert i; induction n as [|n IH]; intros [|i]; simpl; auto.
Qed.

Lemma vzero_length n : length (vzero n) = n.
Proof. apply repeat_length. Qed.

Lemma vsub_length a b : length a = length b -> length (vsub a b) = length a.
Proof. apply map2_length. Qed.
Lemma vmul_length a b : length a = length b -> length (vmul a b) = length a.
Proof. apply map2_length. Qed.

(* column sums of a list of vectors *)
Fixpoint colsum (vs : list vec) (i : nat) : Q :=
  match vs with [] => 0 | v :: r => nthq v i + colsum r i end.

Lemma vsum_length n vs : (forall v, In v vs -> length v = n) -> length (vsum n vs) = n.
Proof.
  induction vs as [|v r IH]; intros H; simpl.
  - apply vzero_length.
  - rewrite vadd_length.
    + apply H; left; reflexivity.
    + rewrite IH; [apply H; left; reflexivity|]. intros u Hu; apply H; right; exact Hu.
Qed.

Lemma nthq_vsum n vs i : (forall v, In v vs -> length v = n) -> nthq (vsum n vs) i == colsum vs i.
Proof.
  induction vs as [|v r IH]; intros H; simpl.
  - rewrite nthq_vzero. lra.
  - rewrite nthq_vadd.
    + rewrite IH; [lra|]. intros u Hu; apply H; right; exact Hu.
    + rewrite vsum_length; [apply H; left; reflexivity|]. intros u Hu; apply H; right; exact Hu.
Qed.

Lemma colsum_nonneg vs i : (forall v, In v vs -> forall j, 0 <= nthq v j) -> 0 <= colsum vs i.
Proof.
  induction vs as [|v r IH]; intros H; simpl; [lra|].
  assert (0 <= nthq v i) by (apply H; left; reflexivity).
  assert (0 <= colsum r i) by (apply IH; intros u Hu; apply H; right; exact Hu).
  lra.
Qed.

(* dot products *)
Lemma vdot_nil_l m : vdot [] m = 0.
Proof. reflexivity. Qed.
Lemma vdot_cons a x m y : vdot (x :: a) (y :: m) = x * y + vdot a m.
Proof. reflexivity. Qed.

Lemma vdot_vadd a o m : length a = length o -> length a = length m ->
  vdot (vadd a o) m == vdot a m + vdot o m.
Proof.
  revert o m; induction a as [|x a IH]; intros [|y o] [|z m] H1 H2; simpl in *; try discriminate.
  - unfold vdot; simpl; lra.
  - unfold vadd; simpl. fold (vadd a o). rewrite !vdot_cons. rewrite IH by lia. lra.
Qed.

Lemma vdot_upd a m w x : length a = length m -> (w < length a)%nat ->
  vdot (upd a w x) m == vdot a m + (x - nthq a w) * nthq m w.
Proof.
  revert m w; induction a as [|y a IH]; intros [|z m] w H1 H2; simpl in *; try discriminate; try lia.
  destruct w as [|w]; simpl.
  - rewrite !vdot_cons, !nthq_cons0. lra.
  - rewrite !vdot_cons, !nthq_consS. rewrite IH by lia. lra.
Qed.

Lemma vdot_nonneg a m : length a = length m ->
  (forall i, 0 <= nthq a i) -> (forall i, 0 <= nthq m i) -> 0 <= vdot a m.
Proof.
  revert m; induction a as [|u a IHa]; intros [|v m] H At Mt; cbn [length] in *;
    try (exfalso; discriminate H).
  - rewrite vdot_nil_l. lra.
  - rewrite vdot_cons.
    assert (U : 0 <= u) by exact (At 0%nat). assert (V : 0 <= v) by exact (Mt 0%nat).
    assert (T : 0 <= vdot a m).
    { apply IHa; [lia | intros i; exact (At (S i)) | intros i; exact (Mt (S i))]. }
    nra.
Qed.

Lemma vdot_ge_term a m w : length a = length m ->
  (forall i, 0 <= nthq a i) -> (forall i, 0 <= nthq m i) -> nthq a w * nthq m w <= vdot a m.
Proof.
  revert m w; induction a as [|y a IH]; intros [|z m] w H Ha Hm; cbn [length] in *;
    try (exfalso; discriminate H).
  - rewrite vdot_nil_l, nthq_nil. lra.
  - rewrite vdot_cons.
    assert (A0 : 0 <= y) by exact (Ha 0%nat).
    assert (M0 : 0 <= z) by exact (Hm 0%nat).
    assert (At : forall i, 0 <= nthq a i) by (intros i; exact (Ha (S i))).
    assert (Mt : forall i, 0 <= nthq m i) by (intros i; exact (Hm (S i))).
    assert (T : 0 <= vdot a m) by (apply vdot_nonneg; auto; lia).
    destruct w as [|w].
    + rewrite !nthq_cons0. nra.
    + rewrite !nthq_consS. specialize (IH m w ltac:(lia) At Mt). nra.
Qed.

(* ================================================================ mix_and_split *)

Lemma mix_split_conserves_lemma n ins split :
  (forall v, In v ins -> length v = n) -> length split = n ->
  forall i, nthq (fst (mix_and_split n ins split)) i + nthq (snd (mix_and_split n ins split)) i
            == colsum ins i.
Proof.
  intros Hl Hs i. unfold mix_and_split, split_to; simpl.
  assert (L : length (vsum n ins) = n) by (apply vsum_length; exact Hl).
  rewrite nthq_vsub by (rewrite vmul_length; lia).
  rewrite nthq_vsum by exact Hl. lra.
Qed.

Lemma mix_split_value_lemma n ins split :
  (forall v, In v ins -> length v = n) -> length split = n ->
  forall i, nthq (fst (mix_and_split n ins split)) i == nthq split i * colsum ins i.
Proof.
  intros Hl Hs i. unfold mix_and_split, split_to; simpl.
  assert (L : length (vsum n ins) = n) by (apply vsum_length; exact Hl).
  rewrite nthq_vmul by lia. rewrite nthq_vsum by exact Hl. lra.
Qed.

Lemma mix_split_nonneg_lemma n ins split :
  (forall v, In v ins -> length v = n) -> length split = n ->
  (forall v, In v ins -> forall j, 0 <= nthq v j) ->
  (forall j, 0 <= nthq split j <= 1) ->
  forall i, 0 <= nthq (fst (mix_and_split n ins split)) i /\ 0 <= nthq (snd (mix_and_split n ins split)) i.
Proof.
  intros Hl Hs Hn Hsp i.
  pose proof (mix_split_conserves_lemma n ins split Hl Hs i) as C.
  pose proof (mix_split_value_lemma n ins split Hl Hs i) as V.
  pose proof (colsum_nonneg ins i Hn) as S. specialize (Hsp i).
  split; nra.
Qed.

(* ================================================================ handle_infeasible_flow_rates *)

Lemma qltb_true a b : qltb a b = true <-> a < b.
Proof.
  unfold qltb. rewrite negb_true_iff. split; intros H.
  - destruct (Qlt_le_dec a b) as [L|L]; auto. apply Qle_bool_iff in L. congruence.
  - destruct (Qle_bool b a) eqn:E; auto. apply Qle_bool_iff in E. lra.
Qed.
Lemma qltb_false a b : qltb a b = false <-> b <= a.
Proof.
  unfold qltb. rewrite negb_false_iff. apply Qle_bool_iff.
Qed.
Lemma qleb_true a b : qleb a b = true <-> a <= b.
Proof. unfold qleb. apply Qle_bool_iff. Qed.
Lemma qleb_false a b : qleb a b = false <-> b < a.
Proof.
  unfold qleb. split; intros H.
  - destruct (Qlt_le_dec b a) as [L|L]; auto. apply Qle_bool_iff in L. congruence.
  - destruct (Qle_bool a b) eqn:E; auto. apply Qle_bool_iff in E. lra.
Qed.

Definition clip1 (x : Q) : Q := if qltb x 0 then 0 else x.
Definition clip2 (x m : Q) : Q := if qltb m x then m else x.

Lemma clip_arr_nth mol maxmol k :
  (forall j, 0 <= nthq maxmol j) ->
  0 <= nthq (map2 clip2 (map clip1 mol) maxmol) k <= nthq maxmol k.
Proof.
  intros Hm. revert maxmol k Hm; induction mol as [|x mol IH]; intros [|m mx] k Hm; simpl.
  - rewrite !nthq_nil. lra.
  - rewrite nthq_nil. specialize (Hm k). lra.
  - rewrite nthq_nil. lra.
  - destruct k as [|k].
    + rewrite !nthq_cons0. pose proof (Hm 0%nat) as M; rewrite nthq_cons0 in M.
      unfold clip2, clip1.
      destruct (qltb x 0) eqn:E1.
      * destruct (qltb m 0) eqn:E2; [apply qltb_true in E2|]; lra.
      * apply qltb_false in E1.
        destruct (qltb m x) eqn:E2; [lra|apply qltb_false in E2; lra].
    + rewrite !nthq_consS. apply IH. intros j. exact (Hm (S j)).
Qed.

Lemma clip_range_lemma mol maxmol strict :
  (forall j, 0 <= nthq maxmol j) ->
  c_err (handle_infeasible mol maxmol strict) = None ->
  forall k, 0 <= nthq (c_arr (handle_infeasible mol maxmol strict)) k <= nthq maxmol k.
Proof.
  intros Hm. unfold handle_infeasible.
  destruct (existsb (fun x => qltb x 0) mol && strict)%bool eqn:E1; simpl; [discriminate|].
  match goal with |- context [if (?o && strict)%bool then _ else _] => destruct (o && strict)%bool eqn:E2 end;
    simpl; [discriminate|].
  intros _ k. apply (clip_arr_nth mol maxmol k Hm).
Qed.

Lemma clip_upper_lemma mol maxmol strict :
  c_err (handle_infeasible mol maxmol strict) = None ->
  forall k, (k < length (c_arr (handle_infeasible mol maxmol strict)))%nat ->
       nthq (c_arr (handle_infeasible mol maxmol strict)) k <= nthq maxmol k.
Proof.
  unfold handle_infeasible.
  destruct (existsb (fun x => qltb x 0) mol && strict)%bool eqn:E1; simpl; [discriminate|].
  match goal with |- context [if (?o && strict)%bool then _ else _] => destruct (o && strict)%bool eqn:E2 end;
    simpl; [discriminate|].
  intros _. clear E1 E2.
  generalize (map (fun x => if qltb x 0 then 0 else x) mol) as l.
  intros l; revert maxmol; induction l as [|x l IH]; intros [|m mx] k Hk; simpl in *; try lia.
  destruct k as [|k].
  - rewrite !nthq_cons0. destruct (qltb m x) eqn:E; [lra|apply qltb_false in E; lra].
  - rewrite !nthq_consS. apply IH. lia.
Qed.

Lemma existsb_qltb_false mol : (forall k, 0 <= nthq mol k) -> existsb (fun x => qltb x 0) mol = false.
Proof.
  induction mol as [|x mol IH]; intros H; simpl; auto.
  pose proof (H 0%nat) as H0; rewrite nthq_cons0 in H0.
  destruct (qltb x 0) eqn:E; [apply qltb_true in E; lra|]. simpl.
  apply IH. intros k. exact (H (S k)).
Qed.

Lemma map_clip1_id mol : (forall k, 0 <= nthq mol k) -> map (fun x => if qltb x 0 then 0 else x) mol = mol.
Proof.
  induction mol as [|x mol IH]; intros H; simpl; auto.
  pose proof (H 0%nat) as H0; rewrite nthq_cons0 in H0.
  destruct (qltb x 0) eqn:E; [apply qltb_true in E; lra|].
  f_equal. apply IH. intros k. exact (H (S k)).
Qed.

Lemma over_false mol maxmol : length mol = length maxmol -> (forall k, nthq mol k <= nthq maxmol k) ->
  existsb (fun b : bool => b) (map2 (fun x m => qltb m x) mol maxmol) = false
  /\ map2 (fun x m => if qltb m x then m else x) mol maxmol = mol.
Proof.
  revert maxmol; induction mol as [|x mol IH]; intros [|m mx] L H; simpl in *; try discriminate; auto.
  pose proof (H 0%nat) as H0; rewrite !nthq_cons0 in H0.
  destruct (qltb m x) eqn:E; [apply qltb_true in E; lra|]. simpl.
  destruct (IH mx ltac:(lia) (fun k => H (S k))) as [A B]. split; [exact A|f_equal; exact B].
Qed.

Lemma clip_feasible_id_lemma mol maxmol strict :
  length mol = length maxmol -> (forall k, 0 <= nthq mol k <= nthq maxmol k) ->
  handle_infeasible mol maxmol strict = mkClip mol None 0.
Proof.
  intros L H. unfold handle_infeasible.
  rewrite existsb_qltb_false by (intros k; apply H). simpl.
  rewrite map_clip1_id by (intros k; apply H).
  destruct (over_false mol maxmol L (fun k => proj2 (H k))) as [A B].
  rewrite A, B. simpl. reflexivity.
Qed.

Lemma existsb_qltb_true mol : existsb (fun x => qltb x 0) mol = true -> exists k, nthq mol k < 0.
Proof.
  induction mol as [|x mol IH]; simpl; [discriminate|].
  destruct (qltb x 0) eqn:E; simpl.
  - intros _. exists 0%nat. rewrite nthq_cons0. apply qltb_true; exact E.
  - intros H. destruct (IH H) as [k Hk]. exists (S k). rewrite nthq_consS; exact Hk.
Qed.

Lemma over_true l maxmol :
  existsb (fun b : bool => b) (map2 (fun x m => qltb m x) l maxmol) = true ->
  exists k, nthq maxmol k < nthq l k.
Proof.
  revert maxmol; induction l as [|x l IH]; intros [|m mx]; simpl; try discriminate.
  destruct (qltb m x) eqn:E; simpl.
  - intros _. exists 0%nat. rewrite !nthq_cons0. apply qltb_true; exact E.
  - intros H. destruct (IH mx H) as [k Hk]. exists (S k). rewrite !nthq_consS; exact Hk.
Qed.

(* strict mode returns normally only when nothing had to be changed *)
Lemma clip_strict_reports_lemma mol maxmol :
  length mol = length maxmol ->
  c_err (handle_infeasible mol maxmol true) = None ->
  c_arr (handle_infeasible mol maxmol true) = mol /\ forall k, 0 <= nthq mol k <= nthq maxmol k.
Proof.
  intros L. unfold handle_infeasible. rewrite !andb_true_r.
  destruct (existsb (fun x => qltb x 0) mol) eqn:E1; simpl; [discriminate|].
  assert (NN : forall k, 0 <= nthq mol k).
  { intros k. destruct (Qlt_le_dec (nthq mol k) 0) as [Hlt|]; auto. exfalso.
    assert (existsb (fun x => qltb x 0) mol = true); [|congruence].
    apply existsb_exists. exists (nthq mol k). split.
    - unfold nthq. destruct (Nat.lt_ge_cases k (length mol)) as [Hk|Hk].
      + apply nth_In; exact Hk.
      + rewrite nthq_overflow in Hlt by exact Hk. lra.
    - apply qltb_true; exact Hlt. }
  rewrite map_clip1_id by exact NN.
  destruct (existsb (fun b : bool => b) (map2 (fun x m => qltb m x) mol maxmol)) eqn:E2; simpl; [discriminate|].
  intros _.
  assert (UP : forall k, nthq mol k <= nthq maxmol k).
  { clear E1 NN. revert maxmol L E2; induction mol as [|x mol IH]; intros [|m mx] L E2 k; simpl in *; try discriminate.
    - rewrite !nthq_nil; lra.
    - destruct (qltb m x) eqn:E; simpl in E2; [discriminate|]. apply qltb_false in E.
      destruct k as [|k]; [rewrite !nthq_cons0; exact E|rewrite !nthq_consS; apply IH; [lia|exact E2]]. }
  split.
  - apply (over_false mol maxmol L UP).
  - intros k; split; [apply NN|apply UP].
Qed.

Lemma clip_nonstrict_never_raises_lemma mol maxmol :
  c_err (handle_infeasible mol maxmol false) = None.
Proof. unfold handle_infeasible. rewrite !andb_false_r. reflexivity. Qed.

(* a strict raise always means an infeasible entry *)
Lemma clip_raise_sound_lemma mol maxmol strict e :
  c_err (handle_infeasible mol maxmol strict) = Some e ->
  e = EInfeasible /\ strict = true /\
  ((exists k, nthq mol k < 0) \/ (exists k, nthq maxmol k < nthq (map clip1 mol) k)).
Proof.
  unfold handle_infeasible.
  destruct (existsb (fun x => qltb x 0) mol) eqn:E1; destruct strict; simpl;
    try (intros H; inversion H; subst; split; [reflexivity|split; [reflexivity|left; apply existsb_qltb_true; exact E1]]).
  - match goal with |- context [existsb ?f ?l] => destruct (existsb f l) end; simpl; discriminate.
  - match goal with |- context [existsb ?f (map2 ?g ?a ?b)] => destruct (existsb f (map2 g a b)) eqn:E2 end; simpl;
      [|discriminate].
    intros H; inversion H; subst. split; [reflexivity|split; [reflexivity|right]].
    apply over_true. exact E2.
  - match goal with |- context [existsb ?f ?l] => destruct (existsb f l) end; simpl; discriminate.
Qed.

(* ================================================================ adjust_moisture_content *)

Definition wf_strm (n : nat) (s : strm) : Prop := length (liq s) = n /\ length (oth s) = n.

Lemma wf_set_liq n s w x : wf_strm n s -> wf_strm n (set_liq s w x).
Proof. intros [A B]. split; simpl; [rewrite upd_length|]; assumption. Qed.

Lemma total_nth n s i : wf_strm n s -> nthq (total s) i == nthq (liq s) i + nthq (oth s) i.
Proof. intros [A B]. unfold total. apply nthq_vadd. congruence. Qed.

Lemma liq_set_liq s w x : liq (set_liq s w x) = upd (liq s) w x.
Proof. reflexivity. Qed.
Lemma oth_set_liq s w x : oth (set_liq s w x) = oth s.
Proof. reflexivity. Qed.

Lemma fmass_set_liq n mws s w x : wf_strm n s -> length mws = n -> (w < n)%nat ->
  fmass mws (set_liq s w x) == fmass mws s + (x - nthq (liq s) w) * nthq mws w.
Proof.
  intros [A B] M W. unfold fmass, total. simpl.
  rewrite !vdot_vadd by (rewrite ?upd_length; congruence).
  rewrite vdot_upd by congruence. lra.
Qed.

(* the value of the moisture chemical's liquid-row flow after the call, and the rest *)
Ltac moist_cases :=
  unfold adjust_moisture, moisture_shift;
  repeat match goal with
  | |- context [if ?b then _ else _] => let E := fresh "E" in destruct b eqn:E
  | |- context [match ?s with None => _ | Some _ => _ end] => destruct s
  end; cbn [m_ret m_perm m_err].

Lemma moisture_frame_lemma mws R P w mc by_mass mwc strict :
  let m := adjust_moisture mws R P w mc by_mass mwc strict in
  oth (m_ret m) = oth R /\ oth (m_perm m) = oth P /\
  forall i, i <> w -> nthq (liq (m_ret m)) i = nthq (liq R) i /\ nthq (liq (m_perm m)) i = nthq (liq P) i.
Proof.
  cbv zeta. moist_cases; (split; [reflexivity|split; [reflexivity|]]); intros i Hi;
    rewrite ?liq_set_liq, ?nthq_upd_other by auto; split; reflexivity.
Qed.

Lemma moisture_wf_lemma n mws R P w mc by_mass mwc strict :
  wf_strm n R -> wf_strm n P ->
  let m := adjust_moisture mws R P w mc by_mass mwc strict in
  wf_strm n (m_ret m) /\ wf_strm n (m_perm m).
Proof.
  intros WR WP. cbv zeta. moist_cases; split; repeat apply wf_set_liq; assumption.
Qed.

(* the two flows of the moisture chemical always add up to what they were *)
Lemma moisture_w_lemma mws R P w mc by_mass mwc strict :
  (by_mass = true -> ~ nthq mws w == 0) ->
  (w < length (liq R))%nat -> (w < length (liq P))%nat ->
  let m := adjust_moisture mws R P w mc by_mass mwc strict in
  nthq (liq (m_ret m)) w + nthq (liq (m_perm m)) w == nthq (liq R) w + nthq (liq P) w.
Proof.
  intros MW WR WP. cbv zeta.
  moist_cases; rewrite ?liq_set_liq;
    rewrite ?nthq_upd_same_lt by (rewrite ?upd_length; assumption);
    try lra;
    try (match goal with H : qzerob (1 - mc) = false |- _ => apply qzerob_false in H end;
         field; repeat split; first [assumption | apply MW; reflexivity]).
Qed.

Lemma moisture_conserves_lemma n mws R P w mc by_mass mwc strict :
  wf_strm n R -> wf_strm n P -> (w < n)%nat ->
  (by_mass = true -> ~ nthq mws w == 0) ->
  let m := adjust_moisture mws R P w mc by_mass mwc strict in
  forall i, nthq (total (m_ret m)) i + nthq (total (m_perm m)) i == nthq (total R) i + nthq (total P) i.
Proof.
  intros WR WP W MW m i.
  destruct (moisture_wf_lemma n mws R P w mc by_mass mwc strict WR WP) as [WR' WP'].
  destruct (moisture_frame_lemma mws R P w mc by_mass mwc strict) as (OR & OP & FR).
  fold m in WR', WP', OR, OP, FR.
  rewrite (total_nth n (m_ret m)), (total_nth n (m_perm m)), (total_nth n R), (total_nth n P) by assumption.
  rewrite OR, OP.
  destruct (Nat.eq_dec i w) as [->|Hi].
  - pose proof (moisture_w_lemma mws R P w mc by_mass mwc strict MW) as H.
    destruct WR as [WR1 _], WP as [WP1 _]. rewrite WR1, WP1 in H. specialize (H W W).
    cbv zeta in H. fold m in H. lra.
  - destruct (FR i Hi) as [A B]. rewrite A, B. lra.
Qed.

Definition water_target (mws : vec) (R : strm) (w : nat) (mc mw : Q) : Q :=
  (fmass mws R - mw * nthq (total R) w) * mc / (1 - mc) / mw.

(* flows of the moisture chemical after the transfer *)
Lemma moisture_shift_values n mws R P w mc (by_mass : bool) mwc :
  wf_strm n R -> wf_strm n P -> (w < n)%nat -> ~ 1 - mc == 0 ->
  let mw := if by_mass then nthq mws w else mwc in
  ~ mw == 0 ->
  let change := water_target mws R w mc mw - nthq (total R) w in
  let RP := moisture_shift mws R P w mc by_mass mwc in
  nthq (liq (fst RP)) w == nthq (liq R) w + change /\
  nthq (liq (snd RP)) w == nthq (liq P) w - change /\
  fst RP = set_liq R w (nthq (liq (fst RP)) w) /\ snd RP = set_liq P w (nthq (liq (snd RP)) w).
Proof.
  intros [WR1 WR2] [WP1 WP2] W MC mw MW change RP.
  unfold RP, moisture_shift, change, water_target, mw in *. clear RP change.
  destruct by_mass; cbn [fst snd]; rewrite !liq_set_liq;
    rewrite !nthq_upd_same_lt by (rewrite ?upd_length; lia).
  - repeat split; try reflexivity; field; split; assumption.
  - repeat split; try reflexivity; field; split; assumption.
Qed.

Lemma moisture_reached_lemma n mws R P w mc (by_mass : bool) mwc strict :
  wf_strm n R -> wf_strm n P -> length mws = n -> (w < n)%nat ->
  ~ 1 - mc == 0 ->
  let mw := if by_mass then nthq mws w else mwc in
  0 < mw -> nthq mws w == mw ->
  let target := water_target mws R w mc mw in
  target - nthq (total R) w <= nthq (liq P) w ->
  let m := adjust_moisture mws R P w mc by_mass mwc strict in
  m_err m = None /\
  nthq (total (m_ret m)) w == target /\
  nthq (total (m_ret m)) w * mw == mc * fmass mws (m_ret m).
Proof.
  intros WR WP LM W MC mw MWpos MWeq target ENOUGH m.
  assert (MW0 : ~ mw == 0) by lra.
  destruct (moisture_shift_values n mws R P w mc by_mass mwc WR WP W MC MW0) as (VR & VP & SR & SP).
  fold mw in VR, VP. fold target in VR, VP.
  unfold m, adjust_moisture.
  destruct (qzerob (1 - mc)) eqn:E; [apply qzerob_true in E; contradiction|].
  destruct (moisture_shift mws R P w mc by_mass mwc) as [R1 P1] eqn:ES. cbn [fst snd] in *.
  destruct (qltb (nthq (liq P1) w) 0) eqn:E1; [apply qltb_true in E1; lra|].
  cbn [m_err m_ret]. split; [reflexivity|].
  assert (T : nthq (total R1) w == target).
  { rewrite SR. rewrite (total_nth n) by (apply wf_set_liq; exact WR).
    rewrite liq_set_liq, oth_set_liq. destruct WR as [WR1 WR2].
    rewrite nthq_upd_same_lt by lia. rewrite VR.
    rewrite (total_nth n R) by (split; assumption). lra. }
  split; [exact T|].
  rewrite SR at 2. rewrite (fmass_set_liq n) by assumption.
  rewrite T, VR, MWeq. unfold target, water_target. field. split; assumption.
Qed.
