(* C20 — lemmas about the model of the separation helpers *)
From V Require Import Common.NumFacts C20.Model.
Open Scope Q_scope.

(* ================================================================ list / vector infrastructure *)

Lemma nthq_cons0 x (l : vec) : nthq (x :: l) 0 = x.
Proof. reflexivity. Qed.
Lemma nthq_consS x (l : vec) i : nthq (x :: l) (S i) = nthq l i.
Proof. reflexivity. Qed.

Lemma nthq_overflow (l : vec) i : (length l <= i)%nat -> nthq l i = 0.
Proof. intros H. unfold nthq. apply nth_overflow. exact H. Qed.

Lemma nthq_upd (l : vec) i j x :
  nthq (upd l i x) j = if (Nat.eqb i j && Nat.ltb i (length l))%bool then x else nthq l j.
Proof.
  unfold nthq.
  revert i j; induction l as [|h t IH]; intros [|i] [|j]; cbn [upd length nth Nat.eqb andb]; try reflexivity.
  - destruct (Nat.eqb i j); reflexivity.
  - rewrite IH.
    replace (Nat.ltb (S i) (S (length t))) with (Nat.ltb i (length t)).
    + reflexivity.
    + destruct (Nat.ltb_spec i (length t)), (Nat.ltb_spec (S i) (S (length t))); auto; lia.
Qed.

Lemma nthq_upd_same_lt (l : vec) i x : (i < length l)%nat -> nthq (upd l i x) i = x.
Proof.
  intros H. rewrite nthq_upd, Nat.eqb_refl. destruct (Nat.ltb_spec i (length l)); [reflexivity|lia].
Qed.

Lemma nthq_upd_other (l : vec) i j x : i <> j -> nthq (upd l i x) j = nthq l j.
Proof.
  intros H. rewrite nthq_upd. destruct (Nat.eqb_spec i j); [contradiction|reflexivity].
Qed.

Lemma scatter_length v idx vals : length (scatter v idx vals) = length v.
Proof.
  revert v vals; induction idx as [|i idx IH]; intros v [|x vals]; simpl; auto.
  rewrite IH. apply upd_length.
Qed.

Lemma scatter_c_length v idx c : length (scatter_c v idx c) = length v.
Proof.
  revert v; induction idx as [|i idx IH]; intros v; simpl; auto.
  rewrite IH. apply upd_length.
Qed.

Lemma gather_length v idx : length (gather v idx) = length idx.
Proof. apply map_length. Qed.

Lemma nthq_gather v idx k : (k < length idx)%nat -> nthq (gather v idx) k = nthq v (nth k idx 0%nat).
Proof.
  revert k; induction idx as [|i idx IH]; intros [|k] H; simpl in *; try lia; try reflexivity.
  rewrite nthq_consS. apply IH. lia.
Qed.

Lemma scatter_other v idx vals j : ~ In j idx -> nthq (scatter v idx vals) j = nthq v j.
Proof.
  revert v vals; induction idx as [|i idx IH]; intros v [|x vals] H; simpl; auto.
  rewrite IH.
  - apply nthq_upd_other. intros E; apply H; left; exact E.
  - intros E; apply H; right; exact E.
Qed.

Lemma scatter_c_other v idx c j : ~ In j idx -> nthq (scatter_c v idx c) j = nthq v j.
Proof.
  revert v; induction idx as [|i idx IH]; intros v H; simpl; auto.
  rewrite IH.
  - apply nthq_upd_other. intros E; apply H; left; exact E.
  - intros E; apply H; right; exact E.
Qed.

Lemma scatter_nth v idx vals k :
  NoDup idx -> length vals = length idx -> (forall i, In i idx -> (i < length v)%nat) ->
  (k < length idx)%nat ->
  nthq (scatter v idx vals) (nth k idx 0%nat) = nthq vals k.
Proof.
  revert v vals k; induction idx as [|i idx IH]; intros v [|x vals] k ND L B Hk; simpl in *; try lia.
  inversion ND as [|? ? Hni ND']; subst.
  destruct k as [|k].
  - rewrite scatter_other by exact Hni.
    rewrite nthq_upd_same_lt; [reflexivity | apply B; left; reflexivity].
  - rewrite nthq_consS. apply IH; auto; try lia.
    intros j Hj. rewrite upd_length. apply B; right; exact Hj.
Qed.

Lemma scatter_c_in v idx c j :
  In j idx -> (j < length v)%nat -> nthq (scatter_c v idx c) j = c.
Proof.
  revert v; induction idx as [|i idx IH]; intros v H B; simpl in *; [contradiction|].
  destruct (in_dec Nat.eq_dec j idx) as [Hin|Hnin].
  - apply IH; auto. rewrite upd_length; exact B.
  - destruct H as [E|H]; [subst i|contradiction].
    rewrite scatter_c_other by exact Hnin. apply nthq_upd_same_lt; exact B.
Qed.

Lemma nthq_vzero n i : nthq (vzero n) i = 0.
Proof.
  unfold nthq, vzero. revert i; induction n as [|n IH]; intros [|i]; simpl; auto.
Qed.

Lemma vzero_length n : length (vzero n) = n.
Proof. apply repeat_length. Qed.

Lemma vsub_length a b : length a = length b -> length (vsub a b) = length a.
Proof. apply map2_length. Qed.
Lemma vmul_length a b : length a = length b -> length (vmul a b) = length a.
Proof. apply map2_length. Qed.

(* column sums of a list of vectors *)
Fixpoint colsum (vs : list vec) (i : nat) : Q :=
  match vs with [] => 0 | v :: r => nthq v i + colsum r i end.

Lemma vsum_length n vs : (forall v, In v vs -> length v = n) -> length (vsum n vs) = n.
Proof.
  induction vs as [|v r IH]; intros H; simpl.
  - apply vzero_length.
  - rewrite vadd_length.
    + apply H; left; reflexivity.
    + rewrite IH; [apply H; left; reflexivity|]. intros u Hu; apply H; right; exact Hu.
Qed.

Lemma nthq_vsum n vs i : (forall v, In v vs -> length v = n) -> nthq (vsum n vs) i == colsum vs i.
Proof.
  induction vs as [|v r IH]; intros H; simpl.
  - rewrite nthq_vzero. lra.
  - rewrite nthq_vadd.
    + rewrite IH; [lra|]. intros u Hu; apply H; right; exact Hu.
    + rewrite vsum_length; [apply H; left; reflexivity|]. intros u Hu; apply H; right; exact Hu.
Qed.

Lemma colsum_nonneg vs i : (forall v, In v vs -> forall j, 0 <= nthq v j) -> 0 <= colsum vs i.
Proof.
  induction vs as [|v r IH]; intros H; simpl; [lra|].
  assert (0 <= nthq v i) by (apply H; left; reflexivity).
  assert (0 <= colsum r i) by (apply IH; intros u Hu; apply H; right; exact Hu).
  lra.
Qed.

(* dot products *)
Lemma vdot_nil_l m : vdot [] m = 0.
Proof. reflexivity. Qed.
Lemma vdot_cons a x m y : vdot (x :: a) (y :: m) = x * y + vdot a m.
Proof. reflexivity. Qed.

Lemma vdot_vadd a o m : length a = length o -> length a = length m ->
  vdot (vadd a o) m == vdot a m + vdot o m.
Proof.
  revert o m; induction a as [|x a IH]; intros [|y o] [|z m] H1 H2; simpl in *; try discriminate.
  - unfold vdot; simpl; lra.
  - unfold vadd; simpl. fold (vadd a o). rewrite !vdot_cons. rewrite IH by lia. lra.
Qed.

Lemma vdot_upd a m w x : length a = length m -> (w < length a)%nat ->
  vdot (upd a w x) m == vdot a m + (x - nthq a w) * nthq m w.
Proof.
  revert m w; induction a as [|y a IH]; intros [|z m] w H1 H2; simpl in *; try discriminate; try lia.
  destruct w as [|w]; simpl.
  - rewrite !vdot_cons, !nthq_cons0. lra.
  - rewrite !vdot_cons, !nthq_consS. rewrite IH by lia. lra.
Qed.

Lemma vdot_nonneg a m : length a = length m ->
  (forall i, 0 <= nthq a i) -> (forall i, 0 <= nthq m i) -> 0 <= vdot a m.
Proof.
  revert m; induction a as [|u a IHa]; intros [|v m] H At Mt; cbn [length] in *;
    try (exfalso; discriminate H).
  - rewrite vdot_nil_l. lra.
  - rewrite vdot_cons.
    assert (U : 0 <= u) by exact (At 0%nat). assert (V : 0 <= v) by exact (Mt 0%nat).
    assert (T : 0 <= vdot a m).
    { apply IHa; [lia | intros i; exact (At (S i)) | intros i; exact (Mt (S i))]. }
    nra.
Qed.

Lemma vdot_ge_term a m w : length a = length m ->
  (forall i, 0 <= nthq a i) -> (forall i, 0 <= nthq m i) -> nthq a w * nthq m w <= vdot a m.
Proof.
  revert m w; induction a as [|y a IH]; intros [|z m] w H Ha Hm; cbn [length] in *;
    try (exfalso; discriminate H).
  - rewrite vdot_nil_l, nthq_nil. lra.
  - rewrite vdot_cons.
    assert (A0 : 0 <= y) by exact (Ha 0%nat).
    assert (M0 : 0 <= z) by exact (Hm 0%nat).
    assert (At : forall i, 0 <= nthq a i) by (intros i; exact (Ha (S i))).
    assert (Mt : forall i, 0 <= nthq m i) by (intros i; exact (Hm (S i))).
    assert (T : 0 <= vdot a m) by (apply vdot_nonneg; auto; lia).
    destruct w as [|w].
    + rewrite !nthq_cons0. nra.
    + rewrite !nthq_consS. specialize (IH m w ltac:(lia) At Mt). nra.
Qed.

(* ================================================================ mix_and_split *)

Lemma mix_split_conserves_lemma n ins split :
  (forall v, In v ins -> length v = n) -> length split = n ->
  forall i, nthq (fst (mix_and_split n ins split)) i + nthq (snd (mix_and_split n ins split)) i
            == colsum ins i.
Proof.
  intros Hl Hs i. unfold mix_and_split, split_to; simpl.
  assert (L : length (vsum n ins) = n) by (apply vsum_length; exact Hl).
  rewrite nthq_vsub by (rewrite vmul_length; lia).
  rewrite nthq_vsum by exact Hl. lra.
Qed.

Lemma mix_split_value_lemma n ins split :
  (forall v, In v ins -> length v = n) -> length split = n ->
  forall i, nthq (fst (mix_and_split n ins split)) i == nthq split i * colsum ins i.
Proof.
  intros Hl Hs i. unfold mix_and_split, split_to; simpl.
  assert (L : length (vsum n ins) = n) by (apply vsum_length; exact Hl).
  rewrite nthq_vmul by lia. rewrite nthq_vsum by exact Hl. lra.
Qed.

Lemma mix_split_nonneg_lemma n ins split :
  (forall v, In v ins -> length v = n) -> length split = n ->
  (forall v, In v ins -> forall j, 0 <= nthq v j) ->
  (forall j, 0 <= nthq split j <= 1) ->
  forall i, 0 <= nthq (fst (mix_and_split n ins split)) i /\ 0 <= nthq (snd (mix_and_split n ins split)) i.
Proof.
  intros Hl Hs Hn Hsp i.
  pose proof (mix_split_conserves_lemma n ins split Hl Hs i) as C.
  pose proof (mix_split_value_lemma n ins split Hl Hs i) as V.
  pose proof (colsum_nonneg ins i Hn) as S. specialize (Hsp i).
  split; nra.
Qed.

(* ================================================================ handle_infeasible_flow_rates *)

Lemma qltb_true a b : qltb a b = true <-> a < b.
Proof.
  unfold qltb. rewrite negb_true_iff. split; intros H.
  - destruct (Qlt_le_dec a b) as [L|L]; auto. apply Qle_bool_iff in L. congruence.
  - destruct (Qle_bool b a) eqn:E; auto. apply Qle_bool_iff in E. lra.
Qed.
Lemma qltb_false a b : qltb a b = false <-> b <= a.
Proof.
  unfold qltb. rewrite negb_false_iff. apply Qle_bool_iff.
Qed.
Lemma qleb_true a b : qleb a b = true <-> a <= b.
Proof. unfold qleb. apply Qle_bool_iff. Qed.
Lemma qleb_false a b : qleb a b = false <-> b < a.
Proof.
  unfold qleb. split; intros H.
  - destruct (Qlt_le_dec b a) as [L|L]; auto. apply Qle_bool_iff in L. congruence.
  - destruct (Qle_bool a b) eqn:E; auto. apply Qle_bool_iff in E. lra.
Qed.

Definition clip1 (x : Q) : Q := if qltb x 0 then 0 else x.
Definition clip2 (x m : Q) : Q := if qltb m x then m else x.

Lemma clip_arr_nth mol maxmol k :
  (forall j, 0 <= nthq maxmol j) ->
  0 <= nthq (map2 clip2 (map clip1 mol) maxmol) k <= nthq maxmol k.
Proof.
  intros Hm. revert maxmol k Hm; induction mol as [|x mol IH]; intros [|m mx] k Hm; simpl.
  - rewrite !nthq_nil. lra.
  - rewrite nthq_nil. specialize (Hm k). lra.
  - rewrite nthq_nil. lra.
  - destruct k as [|k].
    + rewrite !nthq_cons0. pose proof (Hm 0%nat) as M; rewrite nthq_cons0 in M.
      unfold clip2, clip1.
      destruct (qltb x 0) eqn:E1.
      * destruct (qltb m 0) eqn:E2; [apply qltb_true in E2|]; lra.
      * apply qltb_false in E1.
        destruct (qltb m x) eqn:E2; [lra|apply qltb_false in E2; lra].
    + rewrite !nthq_consS. apply IH. intros j. exact (Hm (S j)).
Qed.

Lemma clip_range_lemma mol maxmol strict :
  (forall j, 0 <= nthq maxmol j) ->
  c_err (handle_infeasible mol maxmol strict) = None ->
  forall k, 0 <= nthq (c_arr (handle_infeasible mol maxmol strict)) k <= nthq maxmol k.
Proof.
  intros Hm. unfold handle_infeasible.
  destruct (existsb (fun x => qltb x 0) mol && strict)%bool eqn:E1; simpl; [discriminate|].
  match goal with |- context [if (?o && strict)%bool then _ else _] => destruct (o && strict)%bool eqn:E2 end;
    simpl; [discriminate|].
  intros _ k. apply (clip_arr_nth mol maxmol k Hm).
Qed.

Lemma clip_upper_lemma mol maxmol strict :
  c_err (handle_infeasible mol maxmol strict) = None ->
  forall k, (k < length (c_arr (handle_infeasible mol maxmol strict)))%nat ->
       nthq (c_arr (handle_infeasible mol maxmol strict)) k <= nthq maxmol k.
Proof.
  unfold handle_infeasible.
  destruct (existsb (fun x => qltb x 0) mol && strict)%bool eqn:E1; simpl; [discriminate|].
  match goal with |- context [if (?o && strict)%bool then _ else _] => destruct (o && strict)%bool eqn:E2 end;
    simpl; [discriminate|].
  intros _. clear E1 E2.
  generalize (map (fun x => if qltb x 0 then 0 else x) mol) as l.
  intros l; revert maxmol; induction l as [|x l IH]; intros [|m mx] k Hk; simpl in *; try lia.
  destruct k as [|k].
  - rewrite !nthq_cons0. destruct (qltb m x) eqn:E; [lra|apply qltb_false in E; lra].
  - rewrite !nthq_consS. apply IH. lia.
Qed.

Lemma existsb_qltb_false mol : (forall k, 0 <= nthq mol k) -> existsb (fun x => qltb x 0) mol = false.
Proof.
  induction mol as [|x mol IH]; intros H; simpl; auto.
  pose proof (H 0%nat) as H0; rewrite nthq_cons0 in H0.
  destruct (qltb x 0) eqn:E; [apply qltb_true in E; lra|]. simpl.
  apply IH. intros k. exact (H (S k)).
Qed.

Lemma map_clip1_id mol : (forall k, 0 <= nthq mol k) -> map (fun x => if qltb x 0 then 0 else x) mol = mol.
Proof.
  induction mol as [|x mol IH]; intros H; simpl; auto.
  pose proof (H 0%nat) as H0; rewrite nthq_cons0 in H0.
  destruct (qltb x 0) eqn:E; [apply qltb_true in E; lra|].
  f_equal. apply IH. intros k. exact (H (S k)).
Qed.

Lemma over_false mol maxmol : length mol = length maxmol -> (forall k, nthq mol k <= nthq maxmol k) ->
  existsb (fun b : bool => b) (map2 (fun x m => qltb m x) mol maxmol) = false
  /\ map2 (fun x m => if qltb m x then m else x) mol maxmol = mol.
Proof.
  revert maxmol; induction mol as [|x mol IH]; intros [|m mx] L H; simpl in *; try discriminate; auto.
  pose proof (H 0%nat) as H0; rewrite !nthq_cons0 in H0.
  destruct (qltb m x) eqn:E; [apply qltb_true in E; lra|]. simpl.
  destruct (IH mx ltac:(lia) (fun k => H (S k))) as [A B]. split; [exact A|f_equal; exact B].
Qed.

Lemma clip_feasible_id_lemma mol maxmol strict :
  length mol = length maxmol -> (forall k, 0 <= nthq mol k <= nthq maxmol k) ->
  handle_infeasible mol maxmol strict = mkClip mol None 0.
Proof.
  intros L H. unfold handle_infeasible.
  rewrite existsb_qltb_false by (intros k; apply H). simpl.
  rewrite map_clip1_id by (intros k; apply H).
  destruct (over_false mol maxmol L (fun k => proj2 (H k))) as [A B].
  rewrite A, B. simpl. reflexivity.
Qed.

Lemma existsb_qltb_true mol : existsb (fun x => qltb x 0) mol = true -> exists k, nthq mol k < 0.
Proof.
  induction mol as [|x mol IH]; simpl; [discriminate|].
  destruct (qltb x 0) eqn:E; simpl.
  - intros _. exists 0%nat. rewrite nthq_cons0. apply qltb_true; exact E.
  - intros H. destruct (IH H) as [k Hk]. exists (S k). rewrite nthq_consS; exact Hk.
Qed.

Lemma over_true l maxmol :
  existsb (fun b : bool => b) (map2 (fun x m => qltb m x) l maxmol) = true ->
  exists k, nthq maxmol k < nthq l k.
Proof.
  revert maxmol; induction l as [|x l IH]; intros [|m mx]; simpl; try discriminate.
  destruct (qltb m x) eqn:E; simpl.
  - intros _. exists 0%nat. rewrite !nthq_cons0. apply qltb_true; exact E.
  - intros H. destruct (IH mx H) as [k Hk]. exists (S k). rewrite !nthq_consS; exact Hk.
Qed.

(* strict mode returns normally only when nothing had to be changed *)
Lemma clip_strict_reports_lemma mol maxmol :
  length mol = length maxmol ->
  c_err (handle_infeasible mol maxmol true) = None ->
  c_arr (handle_infeasible mol maxmol true) = mol /\ forall k, 0 <= nthq mol k <= nthq maxmol k.
Proof.
  intros L. unfold handle_infeasible. rewrite !andb_true_r.
  destruct (existsb (fun x => qltb x 0) mol) eqn:E1; simpl; [discriminate|].
  assert (NN : forall k, 0 <= nthq mol k).
  { intros k. destruct (Qlt_le_dec (nthq mol k) 0) as [Hlt|]; auto. exfalso.
    assert (existsb (fun x => qltb x 0) mol = true); [|congruence].
    apply existsb_exists. exists (nthq mol k). split.
    - unfold nthq. destruct (Nat.lt_ge_cases k (length mol)) as [Hk|Hk].
      + apply nth_In; exact Hk.
      + rewrite nthq_overflow in Hlt by exact Hk. lra.
    - apply qltb_true; exact Hlt. }
  rewrite map_clip1_id by exact NN.
  destruct (existsb (fun b : bool => b) (map2 (fun x m => qltb m x) mol maxmol)) eqn:E2; simpl; [discriminate|].
  intros _.
  assert (UP : forall k, nthq mol k <= nthq maxmol k).
  { clear E1 NN. revert maxmol L E2; induction mol as [|x mol IH]; intros [|m mx] L E2 k; simpl in *; try discriminate.
    - rewrite !nthq_nil; lra.
    - destruct (qltb m x) eqn:E; simpl in E2; [discriminate|]. apply qltb_false in E.
      destruct k as [|k]; [rewrite !nthq_cons0; exact E|rewrite !nthq_consS; apply IH; [lia|exact E2]]. }
  split.
  - apply (over_false mol maxmol L UP).
  - intros k; split; [apply NN|apply UP].
Qed.

Lemma clip_nonstrict_never_raises_lemma mol maxmol :
  c_err (handle_infeasible mol maxmol false) = None.
Proof. unfold handle_infeasible. rewrite !andb_false_r. reflexivity. Qed.

(* a strict raise always means an infeasible entry *)
Lemma clip_raise_sound_lemma mol maxmol strict e :
  c_err (handle_infeasible mol maxmol strict) = Some e ->
  e = EInfeasible /\ strict = true /\
  ((exists k, nthq mol k < 0) \/ (exists k, nthq maxmol k < nthq (map clip1 mol) k)).
Proof.
  unfold handle_infeasible.
  destruct (existsb (fun x => qltb x 0) mol) eqn:E1; destruct strict; simpl;
    try (intros H; inversion H; subst; split; [reflexivity|split; [reflexivity|left; apply existsb_qltb_true; exact E1]]).
  - match goal with |- context [existsb ?f ?l] => destruct (existsb f l) end; simpl; discriminate.
  - match goal with |- context [existsb ?f (map2 ?g ?a ?b)] => destruct (existsb f (map2 g a b)) eqn:E2 end; simpl;
      [|discriminate].
    intros H; inversion H; subst. split; [reflexivity|split; [reflexivity|right]].
    apply over_true. exact E2.
  - match goal with |- context [existsb ?f ?l] => destruct (existsb f l) end; simpl; discriminate.
Qed.

(* ================================================================ adjust_moisture_content *)

Definition wf_strm (n : nat) (s : strm) : Prop := length (liq s) = n /\ length (oth s) = n.

Lemma wf_set_liq n s w x : wf_strm n s -> wf_strm n (set_liq s w x).
Proof. intros [A B]. split; simpl; [rewrite upd_length|]; assumption. Qed.

Lemma total_nth n s i : wf_strm n s -> nthq (total s) i == nthq (liq s) i + nthq (oth s) i.
Proof. intros [A B]. unfold total. apply nthq_vadd. congruence. Qed.

Lemma liq_set_liq s w x : liq (set_liq s w x) = upd (liq s) w x.
Proof. reflexivity. Qed.
Lemma oth_set_liq s w x : oth (set_liq s w x) = oth s.
Proof. reflexivity. Qed.

Lemma fmass_set_liq n mws s w x : wf_strm n s -> length mws = n -> (w < n)%nat ->
  fmass mws (set_liq s w x) == fmass mws s + (x - nthq (liq s) w) * nthq mws w.
Proof.
  intros [A B] M W. unfold fmass, total. simpl.
  rewrite !vdot_vadd by (rewrite ?upd_length; congruence).
  rewrite vdot_upd by congruence. lra.
Qed.

(* the value of the moisture chemical's liquid-row flow after the call, and the rest *)
Ltac moist_cases :=
  unfold adjust_moisture, moisture_shift;
  repeat match goal with
  | |- context [if ?b then _ else _] => let E := fresh "E" in destruct b eqn:E
  | |- context [match ?s with None => _ | Some _ => _ end] => destruct s
  end; cbn [m_ret m_perm m_err].

Lemma moisture_frame_lemma mws R P w mc by_mass mwc strict :
  let m := adjust_moisture mws R P w mc by_mass mwc strict in
  oth (m_ret m) = oth R /\ oth (m_perm m) = oth P /\
  forall i, i <> w -> nthq (liq (m_ret m)) i = nthq (liq R) i /\ nthq (liq (m_perm m)) i = nthq (liq P) i.
Proof.
  cbv zeta. moist_cases; (split; [reflexivity|split; [reflexivity|]]); intros i Hi;
    rewrite ?liq_set_liq, ?nthq_upd_other by auto; split; reflexivity.
Qed.

Lemma moisture_wf_lemma n n' mws R P w mc by_mass mwc strict :
  wf_strm n R -> wf_strm n' P ->
  let m := adjust_moisture mws R P w mc by_mass mwc strict in
  wf_strm n (m_ret m) /\ wf_strm n' (m_perm m).
Proof.
  intros WR WP. cbv zeta. moist_cases; split; repeat apply wf_set_liq; assumption.
Qed.

(* the two flows of the moisture chemical always add up to what they were *)
Lemma moisture_w_lemma mws R P w mc by_mass mwc strict :
  (by_mass = true -> ~ nthq mws w == 0) ->
  (w < length (liq R))%nat -> (w < length (liq P))%nat ->
  let m := adjust_moisture mws R P w mc by_mass mwc strict in
  nthq (liq (m_ret m)) w + nthq (liq (m_perm m)) w == nthq (liq R) w + nthq (liq P) w.
Proof.
  intros MW WR WP. cbv zeta.
  moist_cases; rewrite ?liq_set_liq;
    rewrite ?nthq_upd_same_lt by (rewrite ?upd_length; assumption);
    try lra;
    try (match goal with H : qzerob (1 - mc) = false |- _ => apply qzerob_false in H end;
         field; repeat split; first [assumption | apply MW; reflexivity]).
Qed.

Lemma moisture_conserves_lemma n n' mws R P w mc by_mass mwc strict :
  wf_strm n R -> wf_strm n' P -> (w < n)%nat -> (w < n')%nat ->
  (by_mass = true -> ~ nthq mws w == 0) ->
  let m := adjust_moisture mws R P w mc by_mass mwc strict in
  forall i, nthq (total (m_ret m)) i + nthq (total (m_perm m)) i == nthq (total R) i + nthq (total P) i.
Proof.
  intros WR WP W W' MW m i.
  destruct (moisture_wf_lemma n n' mws R P w mc by_mass mwc strict WR WP) as [WR' WP'].
  destruct (moisture_frame_lemma mws R P w mc by_mass mwc strict) as (OR & OP & FR).
  fold m in WR', WP', OR, OP, FR.
  rewrite (total_nth n (m_ret m)), (total_nth n' (m_perm m)), (total_nth n R), (total_nth n' P) by assumption.
  rewrite OR, OP.
  destruct (Nat.eq_dec i w) as [->|Hi].
  - pose proof (moisture_w_lemma mws R P w mc by_mass mwc strict MW) as H.
    destruct WR as [WR1 _], WP as [WP1 _]. rewrite WR1, WP1 in H. specialize (H W W').
    cbv zeta in H. fold m in H. lra.
  - destruct (FR i Hi) as [A B]. rewrite A, B. lra.
Qed.

Definition water_target (mws : vec) (R : strm) (w : nat) (mc mw : Q) : Q :=
  (fmass mws R - mw * nthq (total R) w) * mc / (1 - mc) / mw.

(* flows of the moisture chemical after the transfer *)
Lemma moisture_shift_values n n' mws R P w mc (by_mass : bool) mwc :
  wf_strm n R -> wf_strm n' P -> (w < n)%nat -> (w < n')%nat -> ~ 1 - mc == 0 ->
  let mw := if by_mass then nthq mws w else mwc in
  ~ mw == 0 ->
  let change := water_target mws R w mc mw - nthq (total R) w in
  let RP := moisture_shift mws R P w mc by_mass mwc in
  nthq (liq (fst RP)) w == nthq (liq R) w + change /\
  nthq (liq (snd RP)) w == nthq (liq P) w - change /\
  fst RP = set_liq R w (nthq (liq (fst RP)) w) /\ snd RP = set_liq P w (nthq (liq (snd RP)) w).
Proof.
  intros [WR1 WR2] [WP1 WP2] W W' MC mw MW change RP.
  unfold RP, moisture_shift, change, water_target, mw in *. clear RP change.
  destruct by_mass; cbn [fst snd]; rewrite !liq_set_liq;
    rewrite !nthq_upd_same_lt by (rewrite ?upd_length; lia).
  - repeat split; try reflexivity; field; split; assumption.
  - repeat split; try reflexivity; field; split; assumption.
Qed.

Lemma moisture_reached_lemma n n' mws R P w mc (by_mass : bool) mwc strict :
  wf_strm n R -> wf_strm n' P -> length mws = n -> (w < n)%nat -> (w < n')%nat ->
  ~ 1 - mc == 0 ->
  let mw := if by_mass then nthq mws w else mwc in
  0 < mw -> nthq mws w == mw ->
  let target := water_target mws R w mc mw in
  target - nthq (total R) w <= nthq (liq P) w ->
  let m := adjust_moisture mws R P w mc by_mass mwc strict in
  m_err m = None /\
  nthq (total (m_ret m)) w == target /\
  nthq (total (m_ret m)) w * mw == mc * fmass mws (m_ret m).
Proof.
  intros WR WP LM W W' MC mw MWpos MWeq target ENOUGH m.
  assert (MW0 : ~ mw == 0) by lra.
  destruct (moisture_shift_values n n' mws R P w mc by_mass mwc WR WP W W' MC MW0) as (VR & VP & SR & SP).
  fold mw in VR, VP. fold target in VR, VP.
  unfold m, adjust_moisture.
  destruct (qzerob (1 - mc)) eqn:E; [apply qzerob_true in E; contradiction|].
  destruct (moisture_shift mws R P w mc by_mass mwc) as [R1 P1] eqn:ES. cbn [fst snd] in *.
  destruct (qltb (nthq (liq P1) w) 0) eqn:E1; [apply qltb_true in E1; lra|].
  cbn [m_err m_ret]. split; [reflexivity|].
  assert (T : nthq (total R1) w == target).
  { rewrite SR. rewrite (total_nth n) by (apply wf_set_liq; exact WR).
    rewrite liq_set_liq, oth_set_liq. destruct WR as [WR1 WR2].
    rewrite nthq_upd_same_lt by lia. rewrite VR.
    rewrite (total_nth n R) by (split; assumption). lra. }
  split; [exact T|].
  rewrite SR at 2. rewrite (fmass_set_liq n) by assumption.
  rewrite T, VR, MWeq. unfold target, water_target. field. split; assumption.
Qed.

Lemma water_target_nonneg n mws R w mc mw :
  wf_strm n R -> length mws = n ->
  0 <= mc < 1 -> 0 < mw -> nthq mws w == mw ->
  (forall i, 0 <= nthq (liq R) i) -> (forall i, 0 <= nthq (oth R) i) -> (forall i, 0 <= nthq mws i) ->
  0 <= water_target mws R w mc mw.
Proof.
  intros WR LM MC MW MWeq NL NO NM.
  assert (TN : forall i, 0 <= nthq (total R) i).
  { intros i. rewrite (total_nth n) by exact WR. specialize (NL i). specialize (NO i). lra. }
  assert (D : 0 <= fmass mws R - mw * nthq (total R) w).
  { unfold fmass. destruct WR as [A B].
    pose proof (vdot_ge_term (total R) mws w) as G.
    assert (LT : length (total R) = length mws).
    { unfold total. rewrite vadd_length; congruence. }
    specialize (G LT TN NM). rewrite MWeq in G. lra. }
  unfold water_target.
  set (d := fmass mws R - mw * nthq (total R) w) in *.
  assert (E : d * mc / (1 - mc) / mw == d * mc * / (1 - mc) * / mw) by (field; split; lra).
  rewrite E.
  assert (I1 : 0 <= / (1 - mc)) by (apply Qinv_le_0_compat; lra).
  assert (I2 : 0 <= / mw) by (apply Qinv_le_0_compat; lra).
  assert (DM : 0 <= d * mc) by (apply Qmult_le_0_compat; lra).
  apply Qmult_le_0_compat; [apply Qmult_le_0_compat|]; assumption.
Qed.

Lemma moisture_nonneg_lemma n n' mws R P w mc (by_mass : bool) mwc strict :
  wf_strm n R -> wf_strm n' P -> length mws = n -> (w < n)%nat -> (w < n')%nat ->
  0 <= mc < 1 ->
  let mw := if by_mass then nthq mws w else mwc in
  0 < mw -> nthq mws w == mw ->
  (forall i, 0 <= nthq (liq R) i) -> (forall i, 0 <= nthq (oth R) i) -> nthq (oth R) w == 0 ->
  (forall i, 0 <= nthq (liq P) i) -> (forall i, 0 <= nthq mws i) ->
  let m := adjust_moisture mws R P w mc by_mass mwc strict in
  m_err m = None ->
  forall i, 0 <= nthq (liq (m_ret m)) i /\ 0 <= nthq (liq (m_perm m)) i.
Proof.
  intros WR WP LM W W' MC mw MWpos MWeq NL NO OW NP NM m OK i.
  destruct (Nat.eq_dec i w) as [->|Hi].
  2:{ destruct (moisture_frame_lemma mws R P w mc by_mass mwc strict) as (_ & _ & FR).
      destruct (FR i Hi) as [A B]. fold m in A, B. rewrite A, B. split; [apply NL|apply NP]. }
  assert (MC0 : ~ 1 - mc == 0) by lra.
  assert (MW0 : ~ mw == 0) by lra.
  destruct (moisture_shift_values n n' mws R P w mc by_mass mwc WR WP W W' MC0 MW0) as (VR & VP & SR & SP).
  fold mw in VR, VP.
  pose proof (water_target_nonneg n mws R w mc mw WR LM MC MWpos MWeq NL NO NM) as TG.
  assert (TW : nthq (total R) w == nthq (liq R) w).
  { rewrite (total_nth n) by exact WR. lra. }
  revert OK. unfold m, adjust_moisture.
  destruct (qzerob (1 - mc)) eqn:E; [apply qzerob_true in E; contradiction|].
  destruct (moisture_shift mws R P w mc by_mass mwc) as [R1 P1] eqn:ES. cbn [fst snd] in *.
  destruct WR as [WR1 WR2], WP as [WP1 WP2].
  assert (L1 : length (liq R1) = n) by (rewrite SR, liq_set_liq, upd_length; exact WR1).
  assert (L2 : length (liq P1) = n') by (rewrite SP, liq_set_liq, upd_length; exact WP1).
  destruct (qltb (nthq (liq P1) w) 0) eqn:E1.
  - destruct (match strict with Some b => b | None => true end); cbn [m_err m_ret m_perm]; [discriminate|].
    intros _. rewrite !liq_set_liq. rewrite !nthq_upd_same_lt by lia.
    specialize (NL w). specialize (NP w). split; lra.
  - apply qltb_false in E1. cbn [m_err m_ret m_perm]. intros _. split; [|exact E1].
    rewrite VR, TW. lra.
Qed.

Lemma wf_single n v : length v = n -> wf_strm n (single v).
Proof. intros H. split; simpl; [exact H|rewrite vzero_length; exact H]. Qed.

Lemma total_single v i : nthq (total (single v)) i == nthq v i.
Proof.
  rewrite (total_nth (length v)) by (apply wf_single; reflexivity).
  simpl. rewrite nthq_vzero. lra.
Qed.

Lemma mix_split_lengths n ins split :
  (forall v, In v ins -> length v = n) -> length split = n ->
  length (fst (mix_and_split n ins split)) = n /\ length (snd (mix_and_split n ins split)) = n.
Proof.
  intros Hl Hs. unfold mix_and_split, split_to; simpl.
  assert (L : length (vsum n ins) = n) by (apply vsum_length; exact Hl).
  split; [rewrite vmul_length; lia | rewrite vsub_length; [lia | rewrite vmul_length; lia]].
Qed.

Lemma mix_moisture_conserves_lemma n mws ins split w mc by_mass mwc strict :
  (forall v, In v ins -> length v = n) -> length split = n -> (w < n)%nat ->
  (by_mass = true -> ~ nthq mws w == 0) ->
  let m := mix_and_split_with_moisture n mws ins split w mc by_mass mwc strict in
  forall i, nthq (total (m_ret m)) i + nthq (total (m_perm m)) i == colsum ins i.
Proof.
  intros Hl Hs W MW m i. unfold m, mix_and_split_with_moisture.
  pose proof (mix_split_conserves_lemma n ins split Hl Hs i) as C.
  destruct (mix_split_lengths n ins split Hl Hs) as [L1 L2].
  destruct (mix_and_split n ins split) as [top bottom]. cbn [fst snd] in *.
  rewrite (moisture_conserves_lemma n n mws (single top) (single bottom) w mc by_mass mwc strict
             (wf_single n top L1) (wf_single n bottom L2) W W MW i).
  rewrite !total_single. exact C.
Qed.

(* ================================================================ phase_split, chemical_splits *)

Lemma map2_fst_id {A B} (a : list A) (b : list B) : length b = length a -> map2 (fun r _ => r) a b = a.
Proof.
  revert b; induction a as [|x a IH]; intros [|y b] H; simpl in *; try discriminate; auto.
  f_equal. apply IH. lia.
Qed.

Lemma phase_split_routes_lemma rows outs0 outs :
  phase_split rows outs0 = Ok outs -> outs = rows /\ length outs0 = length rows.
Proof.
  unfold phase_split. destruct (Nat.eqb_spec (length outs0) (length rows)) as [E|E]; [|discriminate].
  intros H; inversion H; subst. split; [apply map2_fst_id; exact E|exact E].
Qed.

Lemma phase_split_err_lemma rows outs0 e :
  phase_split rows outs0 = Err e -> e = ERuntime /\ length outs0 <> length rows.
Proof.
  unfold phase_split. destruct (Nat.eqb_spec (length outs0) (length rows)) as [E|E]; [discriminate|].
  intros H; inversion H; auto.
Qed.

Lemma splits_map2_nth (a m : vec) i : length a = length m ->
  ~ nthq m i == 0 ->
  nthq (map2 (fun x y => if qzerob x || qzerob y then 0 else x / y) a m) i * nthq m i == nthq a i.
Proof.
  intros L NZ. revert m i L NZ; induction a as [|x a IH]; intros [|y m] i L NZ; simpl in *; try discriminate.
  - rewrite !nthq_nil. lra.
  - destruct i as [|i].
    + rewrite !nthq_cons0 in *.
      destruct (qzerob x) eqn:E1; simpl.
      * apply qzerob_true in E1. lra.
      * destruct (qzerob y) eqn:E2; [apply qzerob_true in E2; contradiction|].
        apply qzerob_false in E2. field. exact E2.
    + rewrite !nthq_consS in *. apply IH; [lia|exact NZ].
Qed.

Definition mixed_of (a : vec) (b mixed : option vec) : option vec :=
  match mixed with Some m => Some m | None => match b with Some b => Some (vadd a b) | None => None end end.

Lemma chemical_splits_value_lemma heur a b mixed s m :
  chemical_splits heur a b mixed = Ok s -> mixed_of a b mixed = Some m -> length a = length m ->
  forall i, ~ nthq m i == 0 -> nthq s i * nthq m i == nthq a i.
Proof.
  unfold chemical_splits, mixed_of.
  destruct mixed as [m'|]; [|destruct b as [b'|]]; intros H M L i NZ; try discriminate;
    inversion M; subst m; clear M.
  - destruct (if heur then _ else _); [discriminate|]. inversion H; subst s.
    apply splits_map2_nth; auto.
  - destruct (if heur then _ else _); [discriminate|]. inversion H; subst s.
    apply splits_map2_nth; auto.
Qed.

(* with b given and both streams non-negative the mixed flow is zero only where a is *)
Lemma chemical_splits_zero_lemma heur a b mixed s :
  chemical_splits heur a b mixed = Ok s -> forall i, nthq a i == 0 -> nthq s i == 0.
Proof.
  unfold chemical_splits.
  assert (G : forall (a m : vec) i, nthq a i == 0 ->
             nthq (map2 (fun x y => if qzerob x || qzerob y then 0 else x / y) a m) i == 0).
  { clear. induction a as [|x a IH]; intros [|y m] i H; simpl; rewrite ?nthq_nil; try lra.
    destruct i as [|i].
    - rewrite nthq_cons0 in *. apply qzerob_true in H. rewrite H. simpl. lra.
    - rewrite nthq_consS in *. apply IH; exact H. }
  destruct mixed as [m'|]; [|destruct b as [b'|]]; intros H i Z; try discriminate.
  - destruct (if heur then _ else _); [discriminate|]. inversion H; subst s. apply G; exact Z.
  - destruct (if heur then _ else _); [discriminate|]. inversion H; subst s. apply G; exact Z.
Qed.

(* ================================================================ partition *)

Definition nonneg (v : vec) : Prop := forall i, 0 <= nthq v i.
Definition bounded (feed v : vec) : Prop := forall i, 0 <= nthq v i <= nthq feed i.

Lemma bounded_upd feed v i x : bounded feed v -> 0 <= x <= nthq feed i -> bounded feed (upd v i x).
Proof.
  intros B X j. rewrite nthq_upd.
  destruct (Nat.eqb_spec i j) as [->|N]; simpl; [|apply B].
  destruct (Nat.ltb j (length v)); [exact X|apply B].
Qed.

Lemma scatter_bounded feed v idx vals :
  bounded feed v ->
  (forall k, (k < length idx)%nat -> (k < length vals)%nat -> 0 <= nthq vals k <= nthq feed (nth k idx 0%nat)) ->
  bounded feed (scatter v idx vals).
Proof.
  revert v vals; induction idx as [|i idx IH]; intros v [|x vals] B H; simpl; auto.
  apply IH.
  - apply bounded_upd; [exact B|]. specialize (H 0%nat). simpl in H. rewrite nthq_cons0 in H. apply H; lia.
  - intros k K1 K2. specialize (H (S k)). simpl in H. rewrite nthq_consS in H. apply H; lia.
Qed.

Lemma scatter_c_bounded feed v idx : bounded feed v -> nonneg feed -> bounded feed (scatter_c v idx 0).
Proof.
  revert v; induction idx as [|i idx IH]; intros v B N; simpl; auto.
  apply IH; [|exact N]. apply bounded_upd; [exact B|]. specialize (N i). lra.
Qed.

Lemma scatter_gather_bounded feed v idx : bounded feed v -> nonneg feed -> bounded feed (scatter v idx (gather feed idx)).
Proof.
  intros B N. apply scatter_bounded; [exact B|].
  intros k K1 K2. rewrite nthq_gather by exact K1. specialize (N (nth k idx 0%nat)). lra.
Qed.

Lemma scatter_gather_in feed v idx j :
  In j idx -> (j < length v)%nat -> nthq (scatter v idx (gather feed idx)) j = nthq feed j.
Proof.
  revert v; induction idx as [|i idx IH]; intros v H B; simpl in *; [contradiction|].
  destruct (in_dec Nat.eq_dec j idx) as [Hin|Hnin].
  - apply IH; auto. rewrite upd_length; exact B.
  - destruct H as [E|H]; [subst i|contradiction].
    rewrite scatter_other by exact Hnin. apply nthq_upd_same_lt; exact B.
Qed.

Lemma forced_spec feed dst other idx d' o' F :
  forced feed dst other idx = (d', o', F) ->
  length d' = length dst /\ length o' = length other /\
  (bounded feed dst -> nonneg feed -> bounded feed d') /\
  (bounded feed other -> nonneg feed -> bounded feed o') /\
  F = forced_sum feed idx /\
  (forall j, ~ In j idx -> nthq d' j = nthq dst j /\ nthq o' j = nthq other j) /\
  (forall j, In j idx -> (j < length dst)%nat -> (j < length other)%nat ->
             nthq d' j = nthq feed j /\ nthq o' j = 0).
Proof.
  unfold forced, forced_sum. destruct idx as [|i idx].
  - intros H; inversion H; subst. split; [reflexivity|]. split; [reflexivity|]. split; [auto|]. split; [auto|].
    split; [reflexivity|]. split; [intros j _; split; reflexivity | intros j []].
  - remember (i :: idx) as I eqn:EI. clear EI. intros H. injection H as <- <- <-.
    split; [apply scatter_length|]. split; [apply scatter_c_length|].
    split; [apply scatter_gather_bounded|]. split; [apply scatter_c_bounded|].
    split; [reflexivity|]. split.
    + intros j Hj. split; [apply scatter_other|apply scatter_c_other]; exact Hj.
    + intros j Hj B1 B2. split; [apply scatter_gather_in|apply scatter_c_in]; assumption.
Qed.

Lemma nthq_map (f : Q -> Q) l k : (k < length l)%nat -> nthq (map f l) k = f (nthq l k).
Proof.
  revert k; induction l as [|x l IH]; intros [|k] H; simpl in *; try lia; try reflexivity.
  rewrite !nthq_consS. apply IH. lia.
Qed.

Lemma nthq_bottom_flows z K phi F k : length z = length K -> (k < length z)%nat ->
  nthq (bottom_flows z K phi F) k = nthq z k / (phi * nthq K k + (1 - phi)) * (1 - phi) * F.
Proof.
  unfold bottom_flows.
  revert K k; induction z as [|x z IH]; intros [|y K] k L H; simpl in *; try lia.
  destruct k as [|k].
  - rewrite !nthq_cons0. reflexivity.
  - rewrite !nthq_consS. apply IH; lia.
Qed.

Lemma bottom_flows_length z K phi F : length z = length K -> length (bottom_flows z K phi F) = length z.
Proof.
  intros L. unfold bottom_flows. rewrite map_length.
  rewrite map2_length; [reflexivity|]. rewrite map_length. exact L.
Qed.

Lemma qsum_gather_nonneg feed idx : nonneg feed -> 0 <= qsum (gather feed idx).
Proof.
  intros N. induction idx as [|i idx IH]; simpl; [lra|]. specialize (N i). lra.
Qed.

Lemma gather_nonneg feed idx : nonneg feed -> nonneg (gather feed idx).
Proof.
  intros N k. destruct (Nat.lt_ge_cases k (length idx)) as [H|H].
  - rewrite nthq_gather by exact H. apply N.
  - rewrite nthq_overflow by (rewrite gather_length; exact H). lra.
Qed.

Section Partition.
Variable pf : vec -> vec -> Q -> Q -> Q.

(* every normal return has top = feed - bottom, computed on vectors of the feed's length *)
Lemma partition_ok_shape feed top0 bot0 ids K topc botc strict phi :
  let r := partition pf feed top0 bot0 ids K topc botc strict in
  p_phi r = Ok phi ->
  p_top r = vsub feed (p_bot r) /\ length (p_bot r) = length bot0 /\ 0 <= phi <= 1.
Proof.
  cbv zeta. unfold partition.
  destruct (forced feed top0 bot0 topc) as [[top1 bot1] Fa] eqn:F1.
  destruct (forced feed bot1 top1 botc) as [[bot2 top2] Fb] eqn:F2.
  destruct (forced_spec _ _ _ _ _ _ _ F1) as (_ & L1 & _).
  destruct (forced_spec _ _ _ _ _ _ _ F2) as (L2 & _).
  destruct (qzerob _); cbn [p_phi p_top p_bot]; [discriminate|].
  destruct (qleb _ 0) eqn:E1; cbn [p_phi p_top p_bot].
  - intros H; inversion H; subst. rewrite scatter_length. repeat split; try lra; congruence.
  - destruct (qltb _ 1) eqn:E2.
    + destruct (existsb qzerob _); cbn [p_phi]; [discriminate|].
      destruct (c_err _); cbn [p_phi p_top p_bot]; [discriminate|].
      intros H; inversion H; subst. rewrite scatter_length.
      apply qleb_false in E1. apply qltb_true in E2. repeat split; try lra; congruence.
    + cbn [p_phi p_top p_bot]. intros H; inversion H; subst. rewrite scatter_c_length.
      repeat split; try lra; congruence.
Qed.

Lemma partition_conserves_lemma feed top0 bot0 ids K topc botc strict phi :
  length feed = length bot0 ->
  let r := partition pf feed top0 bot0 ids K topc botc strict in
  p_phi r = Ok phi ->
  forall i, nthq (p_top r) i + nthq (p_bot r) i == nthq feed i.
Proof.
  intros L r H i.
  destruct (partition_ok_shape feed top0 bot0 ids K topc botc strict phi H) as (T & LB & _).
  fold r in T, LB. rewrite T. rewrite nthq_vsub by congruence. lra.
Qed.

Lemma partition_bounded_lemma feed top0 bot0 ids K topc botc strict phi :
  nonneg feed -> bounded feed bot0 ->
  let r := partition pf feed top0 bot0 ids K topc botc strict in
  p_phi r = Ok phi -> bounded feed (p_bot r).
Proof.
  intros N B. cbv zeta. unfold partition.
  destruct (forced feed top0 bot0 topc) as [[top1 bot1] Fa] eqn:F1.
  destruct (forced feed bot1 top1 botc) as [[bot2 top2] Fb] eqn:F2.
  destruct (forced_spec _ _ _ _ _ _ _ F1) as (_ & _ & _ & B1 & _).
  destruct (forced_spec _ _ _ _ _ _ _ F2) as (_ & _ & B2 & _).
  specialize (B2 (B1 B N) N).
  destruct (qzerob _); cbn [p_phi p_bot]; [discriminate|].
  destruct (qleb _ 0); cbn [p_phi p_bot].
  - intros _. apply scatter_gather_bounded; assumption.
  - destruct (qltb _ 1).
    + destruct (existsb qzerob _); cbn [p_phi]; [discriminate|].
      match goal with |- context [handle_infeasible ?bm ?mol strict] =>
        pose proof (clip_range_lemma bm mol strict (gather_nonneg feed ids N)) as CR;
        destruct (c_err (handle_infeasible bm mol strict)) eqn:EC end;
        cbn [p_phi p_bot]; [discriminate|].
      intros _. specialize (CR eq_refl). apply scatter_bounded; [exact B2|].
      intros k K1 K2. specialize (CR k). rewrite nthq_gather in CR by exact K1. exact CR.
    + cbn [p_phi p_bot]. intros _. apply scatter_c_bounded; assumption.
Qed.

Lemma partition_nonneg_lemma feed top0 bot0 ids K topc botc strict phi :
  length feed = length bot0 -> nonneg feed -> bounded feed bot0 ->
  let r := partition pf feed top0 bot0 ids K topc botc strict in
  p_phi r = Ok phi ->
  forall i, 0 <= nthq (p_top r) i /\ 0 <= nthq (p_bot r) i <= nthq feed i.
Proof.
  intros L N B r H i.
  pose proof (partition_bounded_lemma feed top0 bot0 ids K topc botc strict phi N B H i) as BB.
  pose proof (partition_conserves_lemma feed top0 bot0 ids K topc botc strict phi L H i) as C.
  fold r in BB, C. lra.
Qed.
End Partition.

Section PartitionK.
Variable pf : vec -> vec -> Q -> Q -> Q.

(* with non-negative K and feed nothing is clipped *)
Lemma bottom_flows_feasible feed ids K phi F :
  nonneg feed -> length K = length ids -> (forall k, 0 <= nthq K k) ->
  0 < phi < 1 -> ~ F == 0 ->
  forall k, 0 <= nthq (bottom_flows (vdivs (gather feed ids) F) K phi F) k <= nthq (gather feed ids) k.
Proof.
  intros N LK NK PH F0 k.
  destruct (Nat.lt_ge_cases k (length ids)) as [H|H].
  - rewrite nthq_bottom_flows by (rewrite vdivs_length, gather_length; lia).
    rewrite nthq_vdivs.
    set (m := nthq (gather feed ids) k).
    assert (M : 0 <= m) by (apply gather_nonneg; exact N).
    set (d := phi * nthq K k + (1 - phi)).
    assert (D : 1 - phi <= d) by (unfold d; specialize (NK k); nra).
    assert (E : m / F / d * (1 - phi) * F == m * ((1 - phi) / d)) by (field; split; lra).
    rewrite E.
    assert (Q0 : 0 <= (1 - phi) / d) by (apply Qle_shift_div_l; lra).
    assert (Q1 : (1 - phi) / d <= 1) by (apply Qle_shift_div_r; lra).
    split; nra.
  - rewrite !nthq_overflow; try lra.
    + rewrite gather_length; exact H.
    + rewrite bottom_flows_length; rewrite vdivs_length, gather_length; lia.
Qed.

Lemma partition_K_cross_lemma feed top0 bot0 ids K topc botc strict phi :
  length feed = length bot0 -> nonneg feed ->
  NoDup ids -> (forall i, In i ids -> (i < length bot0)%nat) ->
  length K = length ids -> (forall k, 0 <= nthq K k) ->
  let r := partition pf feed top0 bot0 ids K topc botc strict in
  p_phi r = Ok phi -> 0 < phi < 1 ->
  p_warns r = 0%nat /\
  forall k, (k < length ids)%nat ->
    (1 - phi) * nthq (p_top r) (nth k ids 0%nat) == phi * nthq K k * nthq (p_bot r) (nth k ids 0%nat).
Proof.
  intros L N ND IB LK NK r H PH.
  pose proof (partition_conserves_lemma pf feed top0 bot0 ids K topc botc strict phi L H) as C.
  fold r in C. revert H C. unfold r, partition. clear r.
  destruct (forced feed top0 bot0 topc) as [[top1 bot1] Fa] eqn:F1.
  destruct (forced feed bot1 top1 botc) as [[bot2 top2] Fb] eqn:F2.
  destruct (forced_spec _ _ _ _ _ _ _ F1) as (_ & L1 & _).
  destruct (forced_spec _ _ _ _ _ _ _ F2) as (L2 & _).
  set (F := qsum (gather feed ids) + (Fa + Fb)).
  destruct (qzerob F) eqn:EF; cbn [p_phi]; [discriminate|]. apply qzerob_false in EF.
  set (ph := pf (vdivs (gather feed ids) F) K (Fa / F) (Fb / F)).
  destruct (qleb ph 0) eqn:E1; cbn [p_phi].
  { intros H; inversion H; subst; lra. }
  destruct (qltb ph 1) eqn:E2; cbn [p_phi].
  2:{ intros H; inversion H; subst; lra. }
  destruct (existsb qzerob _); cbn [p_phi]; [discriminate|].
  apply qleb_false in E1. apply qltb_true in E2.
  pose proof (bottom_flows_feasible feed ids K ph F N LK NK (conj E1 E2) EF) as FE.
  rewrite (clip_feasible_id_lemma _ (gather feed ids) strict) by
      (try exact FE; rewrite bottom_flows_length; rewrite vdivs_length, gather_length; lia).
  cbn [c_err c_arr c_warns p_phi p_top p_bot p_warns].
  intros H C. inversion H; subst phi. split; [reflexivity|].
  intros k Hk. specialize (C (nth k ids 0%nat)).
  set (bm := bottom_flows (vdivs (gather feed ids) F) K ph F) in *.
  assert (BK : nthq (scatter bot2 ids bm) (nth k ids 0%nat) = nthq bm k).
  { apply scatter_nth; auto.
    - unfold bm. rewrite bottom_flows_length; rewrite vdivs_length, gather_length; lia.
    - intros i Hi. rewrite L2, L1. apply IB; exact Hi. }
  rewrite BK in *.
  assert (BV : nthq bm k == nthq feed (nth k ids 0%nat) * (1 - ph) / (ph * nthq K k + (1 - ph))).
  { unfold bm. rewrite nthq_bottom_flows by (rewrite vdivs_length, gather_length; lia).
    rewrite nthq_vdivs, nthq_gather by exact Hk.
    assert (0 <= nthq K k) by apply NK. field. split; [nra|exact EF]. }
  assert (T : nthq (vsub feed (scatter bot2 ids bm)) (nth k ids 0%nat) == nthq feed (nth k ids 0%nat) - nthq bm k) by lra.
  rewrite T, BV. assert (0 <= nthq K k) by apply NK. field. nra.
Qed.

Lemma ratio_alg t b K phi T B :
  (1 - phi) * t == phi * K * b -> ~ b == 0 -> ~ T == 0 -> ~ B == 0 -> ~ 1 - phi == 0 ->
  (t / T) / (b / B) == K * (phi * B / ((1 - phi) * T)).
Proof.
  intros H Hb HT HB Hp.
  assert (E : t == phi * K * b / (1 - phi)).
  { apply (Qmult_inj_r _ _ (1 - phi)); [exact Hp|].
    transitivity (phi * K * b); [rewrite <- H; ring | field; exact Hp]. }
  rewrite E. field. repeat split; assumption.
Qed.

(* mole fractions over the equilibrium chemicals: y_k / x_k = K_k * c with one common factor c *)
Lemma partition_K_lemma feed top0 bot0 ids K topc botc strict phi :
  length feed = length bot0 -> nonneg feed ->
  NoDup ids -> (forall i, In i ids -> (i < length bot0)%nat) ->
  length K = length ids -> (forall k, 0 <= nthq K k) ->
  let r := partition pf feed top0 bot0 ids K topc botc strict in
  p_phi r = Ok phi -> 0 < phi < 1 ->
  let T := qsum (gather (p_top r) ids) in
  let B := qsum (gather (p_bot r) ids) in
  ~ T == 0 -> ~ B == 0 ->
  forall k, (k < length ids)%nat -> ~ nthq (p_bot r) (nth k ids 0%nat) == 0 ->
    (nthq (p_top r) (nth k ids 0%nat) / T) / (nthq (p_bot r) (nth k ids 0%nat) / B)
    == nthq K k * (phi * B / ((1 - phi) * T)).
Proof.
  intros L N ND IB LK NK r H PH T B HT HB k Hk Hb.
  destruct (partition_K_cross_lemma feed top0 bot0 ids K topc botc strict phi L N ND IB LK NK H PH) as [_ X].
  fold r in X. apply ratio_alg; auto. lra.
Qed.
End PartitionK.

(* ================================================================ Rachford-Rice root => exact K *)

Definition St (z K : vec) (phi : Q) : Q := qsum (map2 (fun z k => z * k / (phi * k + (1 - phi))) z K).
Definition Sb (z K : vec) (phi : Q) : Q := qsum (map2 (fun z k => z / (phi * k + (1 - phi))) z K).

Lemma nonneg_Forall (l : vec) : (forall k, 0 <= nthq l k) -> Forall (fun x => 0 <= x) l.
Proof.
  induction l as [|x l IH]; intros H; constructor.
  - exact (H 0%nat).
  - apply IH. intros k. exact (H (S k)).
Qed.

Lemma St_Sb_identity z K phi : length z = length K -> 0 < phi < 1 -> Forall (fun x => 0 <= x) K ->
  phi * St z K phi + (1 - phi) * Sb z K phi == qsum z.
Proof.
  unfold St, Sb. revert K; induction z as [|x z IH]; intros [|k K] L PH FK; simpl in *; try (exfalso; discriminate L).
  - lra.
  - inversion FK as [|? ? K0 FK']; subst.
    specialize (IH K ltac:(lia) PH FK').
    assert (D : 0 < phi * k + (1 - phi)) by nra.
    set (a := qsum (map2 (fun z k => z * k / (phi * k + (1 - phi))) z K)) in *.
    set (b := qsum (map2 (fun z k => z / (phi * k + (1 - phi))) z K)) in *.
    assert (E : phi * (x * k / (phi * k + (1 - phi)) + a) + (1 - phi) * (x / (phi * k + (1 - phi)) + b)
                == x + (phi * a + (1 - phi) * b)) by (field; lra).
    rewrite E, IH. lra.
Qed.

Lemma rr_sum_alt z K phi : length z = length K -> 0 < phi < 1 -> Forall (fun x => 0 <= x) K ->
  qsum (map2 Qdiv (map2 (fun z km => - z * km) z (map (fun k => k - 1) K))
                  (map (fun km => 1 + phi * km) (map (fun k => k - 1) K)))
  == - (St z K phi - Sb z K phi).
Proof.
  unfold St, Sb. revert K; induction z as [|x z IH]; intros [|k K] L PH FK; simpl in *; try (exfalso; discriminate L).
  - lra.
  - inversion FK as [|? ? K0 FK']; subst.
    specialize (IH K ltac:(lia) PH FK').
    assert (D : 0 < phi * k + (1 - phi)) by nra.
    rewrite IH.
    set (a := qsum (map2 (fun z k => z * k / (phi * k + (1 - phi))) z K)).
    set (b := qsum (map2 (fun z k => z / (phi * k + (1 - phi))) z K)).
    field; repeat split; lra.
Qed.

Lemma rr_objective_alt z K phi za zb : length z = length K -> 0 < phi < 1 -> Forall (fun x => 0 <= x) K ->
  0 <= za -> 0 <= zb ->
  rr_objective phi z K za zb == - (St z K phi - Sb z K phi) - za / phi + zb / (1 - phi).
Proof.
  intros L PH FK ZA ZB. unfold rr_objective. rewrite rr_sum_alt by assumption.
  assert (A : (if qltb 0 za then za / phi else 0) == za / phi).
  { destruct (qltb 0 za) eqn:E; [reflexivity|]. apply qltb_false in E.
    assert (Z : za == 0) by lra. rewrite Z. field. lra. }
  assert (B : (if qltb 0 zb then zb / (1 - phi) else 0) == zb / (1 - phi)).
  { destruct (qltb 0 zb) eqn:E; [reflexivity|]. apply qltb_false in E.
    assert (Z : zb == 0) by lra. rewrite Z. field. lra. }
  rewrite A, B. reflexivity.
Qed.

Lemma qsum_vdivs v F : ~ F == 0 -> qsum (vdivs v F) == qsum v / F.
Proof.
  intros H. unfold vdivs. induction v as [|x v IH]; simpl.
  - field. exact H.
  - rewrite IH. field. exact H.
Qed.

Lemma qsum_bottom_flows z K phi F : length z = length K -> 0 < phi < 1 -> Forall (fun x => 0 <= x) K ->
  qsum (bottom_flows z K phi F) == (1 - phi) * F * Sb z K phi.
Proof.
  unfold bottom_flows, Sb. revert K; induction z as [|x z IH]; intros [|k K] L PH FK; simpl in *;
    try (exfalso; discriminate L).
  - lra.
  - inversion FK as [|? ? K0 FK']; subst.
    specialize (IH K ltac:(lia) PH FK'). rewrite IH.
    assert (D : 0 < phi * k + (1 - phi)) by nra.
    set (b := qsum (map2 (fun z k => z / (phi * k + (1 - phi))) z K)).
    field. lra.
Qed.

Lemma qsum_ext (a b : vec) : length a = length b -> (forall k, (k < length a)%nat -> nthq a k == nthq b k) ->
  qsum a == qsum b.
Proof.
  revert b; induction a as [|x a IH]; intros [|y b] L H; simpl in *; try (exfalso; discriminate L).
  - lra.
  - pose proof (H 0%nat ltac:(lia)) as H0. rewrite !nthq_cons0 in H0.
    rewrite (IH b); [lra|lia|]. intros k Hk. specialize (H (S k) ltac:(lia)). rewrite !nthq_consS in H. exact H.
Qed.

Lemma qsum_gather_add (a b c : vec) idx : (forall i, nthq a i + nthq b i == nthq c i) ->
  qsum (gather a idx) + qsum (gather b idx) == qsum (gather c idx).
Proof.
  intros H. induction idx as [|i idx IH]; simpl; [lra|]. specialize (H i). lra.
Qed.

Section PartitionRoot.
Variable pf : vec -> vec -> Q -> Q -> Q.

(* If the value returned by the solver is a root of the Rachford-Rice residual, the phase totals over the
   equilibrium + forced chemicals are phi F and (1 - phi) F. *)
Lemma partition_root_totals feed top0 bot0 ids K topc botc strict phi :
  length feed = length bot0 -> nonneg feed ->
  NoDup ids -> (forall i, In i ids -> (i < length bot0)%nat) ->
  length K = length ids -> (forall k, 0 <= nthq K k) ->
  let r := partition pf feed top0 bot0 ids K topc botc strict in
  p_phi r = Ok phi -> 0 < phi < 1 ->
  let Fa := forced_sum feed topc in
  let Fb := forced_sum feed botc in
  let F := qsum (gather feed ids) + (Fa + Fb) in
  rr_objective phi (vdivs (gather feed ids) F) K (Fa / F) (Fb / F) == 0 ->
  qsum (gather (p_top r) ids) + Fa == phi * F /\
  qsum (gather (p_bot r) ids) + Fb == (1 - phi) * F.
Proof.
  intros L N ND IB LK NK r H PH Fa Fb F RR.
  pose proof (partition_conserves_lemma pf feed top0 bot0 ids K topc botc strict phi L H) as C.
  fold r in C.
  pose proof (qsum_gather_add (p_top r) (p_bot r) feed ids C) as SUM.
  assert (FK : Forall (fun x => 0 <= x) K) by (apply nonneg_Forall; exact NK).
  assert (FA : 0 <= Fa) by (apply qsum_gather_nonneg; exact N).
  assert (FB : 0 <= Fb) by (apply qsum_gather_nonneg; exact N).
  assert (F0 : 0 <= qsum (gather feed ids)) by (apply qsum_gather_nonneg; exact N).
  (* the bottom flows of the equilibrium chemicals *)
  assert (BOT : qsum (gather (p_bot r) ids) == (1 - phi) * F * Sb (vdivs (gather feed ids) F) K phi /\ ~ F == 0).
  { revert H. unfold r, partition.
    destruct (forced feed top0 bot0 topc) as [[top1 bot1] Fa'] eqn:F1.
    destruct (forced feed bot1 top1 botc) as [[bot2 top2] Fb'] eqn:F2.
    destruct (forced_spec _ _ _ _ _ _ _ F1) as (_ & L1 & _ & _ & EA & _).
    destruct (forced_spec _ _ _ _ _ _ _ F2) as (L2 & _ & _ & _ & EB & _).
    subst Fa' Fb'. fold Fa Fb F.
    destruct (qzerob F) eqn:EF; cbn [p_phi]; [discriminate|]. apply qzerob_false in EF.
    set (ph := pf (vdivs (gather feed ids) F) K (Fa / F) (Fb / F)).
    destruct (qleb ph 0) eqn:E1; cbn [p_phi].
    { intros H; inversion H; subst; lra. }
    destruct (qltb ph 1) eqn:E2; cbn [p_phi].
    2:{ intros H; inversion H; subst; lra. }
    destruct (existsb qzerob _); cbn [p_phi]; [discriminate|].
    apply qleb_false in E1. apply qltb_true in E2.
    pose proof (bottom_flows_feasible feed ids K ph F N LK NK (conj E1 E2) EF) as FE.
    rewrite (clip_feasible_id_lemma _ (gather feed ids) strict) by
        (try exact FE; rewrite bottom_flows_length; rewrite vdivs_length, gather_length; lia).
    cbn [c_err c_arr c_warns p_phi p_top p_bot p_warns].
    intros H. inversion H; subst phi. split; [|exact EF].
    set (bm := bottom_flows (vdivs (gather feed ids) F) K ph F).
    assert (LB : length bm = length ids).
    { unfold bm. rewrite bottom_flows_length; rewrite vdivs_length, gather_length; lia. }
    rewrite (qsum_ext (gather (scatter bot2 ids bm) ids) bm).
    - unfold bm. apply qsum_bottom_flows; auto. rewrite vdivs_length, gather_length; lia.
    - rewrite gather_length; lia.
    - intros k Hk. rewrite gather_length in Hk. rewrite nthq_gather by exact Hk.
      rewrite scatter_nth; auto; try reflexivity.
      intros i Hi. rewrite L2, L1. apply IB; exact Hi. }
  destruct BOT as [BOT FNZ].
  assert (FP : 0 < F) by (unfold F in *; lra).
  set (z := vdivs (gather feed ids) F) in *.
  assert (LZ : length z = length K) by (unfold z; rewrite vdivs_length, gather_length; lia).
  rewrite (rr_objective_alt z K phi (Fa / F) (Fb / F) LZ PH FK) in RR
    by (apply Qle_shift_div_l; lra).
  pose proof (St_Sb_identity z K phi LZ PH FK) as ID.
  assert (SZ : qsum z == qsum (gather feed ids) / F) by (unfold z; apply qsum_vdivs; exact FNZ).
  set (st := St z K phi) in *. set (sb := Sb z K phi) in *.
  (* sb = 1 - zb/(1-phi) *)
  assert (SBV : (1 - phi) * F * sb == (1 - phi) * F - Fb).
  { assert (E1 : qsum z == 1 - Fa / F - Fb / F).
    { rewrite SZ. unfold F. field. exact FNZ. }
    assert (E2 : st == sb - Fa / F / phi + Fb / F / (1 - phi)).
    { set (u := Fa / F / phi) in *. set (v := Fb / F / (1 - phi)) in *. lra. }
    rewrite E2 in ID.
    assert (E3 : phi * (sb - Fa / F / phi + Fb / F / (1 - phi)) + (1 - phi) * sb
                 == sb - Fa / F + phi * (Fb / F / (1 - phi))) by (field; repeat split; lra).
    rewrite E3, E1 in ID.
    assert (E4 : sb == 1 - Fb / F / (1 - phi)).
    { assert (Y : phi * (Fb / F / (1 - phi)) == Fb / F / (1 - phi) - Fb / F) by (field; repeat split; lra).
      rewrite Y in ID.
      set (a := Fa / F) in *. set (b := Fb / F) in *. set (c := b / (1 - phi)) in *. lra. }
    rewrite E4. field. split; lra. }
  split.
  - assert (G : qsum (gather feed ids) == F - Fa - Fb) by (unfold F; lra).
    lra.
  - lra.
Qed.
End PartitionRoot.

Section PartitionExact.
Variable pf : vec -> vec -> Q -> Q -> Q.

(* root of the Rachford-Rice residual: mole fractions over equilibrium + forced chemicals give K exactly *)
Lemma partition_K_exact_lemma feed top0 bot0 ids K topc botc strict phi :
  length feed = length bot0 -> nonneg feed ->
  NoDup ids -> (forall i, In i ids -> (i < length bot0)%nat) ->
  length K = length ids -> (forall k, 0 <= nthq K k) ->
  let r := partition pf feed top0 bot0 ids K topc botc strict in
  p_phi r = Ok phi -> 0 < phi < 1 ->
  let Fa := forced_sum feed topc in
  let Fb := forced_sum feed botc in
  let F := qsum (gather feed ids) + (Fa + Fb) in
  rr_objective phi (vdivs (gather feed ids) F) K (Fa / F) (Fb / F) == 0 ->
  let T := qsum (gather (p_top r) ids) + Fa in
  let B := qsum (gather (p_bot r) ids) + Fb in
  T == phi * F /\ B == (1 - phi) * F /\
  forall k, (k < length ids)%nat -> ~ nthq (p_bot r) (nth k ids 0%nat) == 0 ->
    (nthq (p_top r) (nth k ids 0%nat) / T) / (nthq (p_bot r) (nth k ids 0%nat) / B) == nthq K k.
Proof.
  intros L N ND IB LK NK r H PH Fa Fb F RR T B.
  destruct (partition_root_totals pf feed top0 bot0 ids K topc botc strict phi L N ND IB LK NK H PH RR) as [TT BB].
  fold r Fa Fb F in TT, BB. fold T in TT. fold B in BB.
  split; [exact TT|]. split; [exact BB|].
  intros k Hk Hb.
  destruct (partition_K_cross_lemma pf feed top0 bot0 ids K topc botc strict phi L N ND IB LK NK H PH) as [_ X].
  fold r in X. specialize (X k Hk).
  assert (FNZ : ~ F == 0).
  { revert H. unfold r, partition.
    destruct (forced feed top0 bot0 topc) as [[top1 bot1] Fa'] eqn:F1.
    destruct (forced feed bot1 top1 botc) as [[bot2 top2] Fb'] eqn:F2.
    destruct (forced_spec _ _ _ _ _ _ _ F1) as (_ & _ & _ & _ & EA & _).
    destruct (forced_spec _ _ _ _ _ _ _ F2) as (_ & _ & _ & _ & EB & _).
    subst Fa' Fb'. fold Fa Fb F.
    destruct (qzerob F) eqn:EF; cbn [p_phi]; [discriminate|]. intros _. apply qzerob_false; exact EF. }
  rewrite (ratio_alg _ _ (nthq K k) phi T B X Hb).
  - rewrite TT, BB. field. repeat split; lra.
  - rewrite TT. intros E. apply FNZ. nra.
  - rewrite BB. intros E. apply FNZ. nra.
  - lra.
Qed.

(* forced chemicals end up where they were sent; untouched chemicals of the bottom are left alone *)
Lemma partition_forced_lemma feed top0 bot0 ids K topc botc strict phi :
  length feed = length bot0 -> length top0 = length bot0 ->
  let r := partition pf feed top0 bot0 ids K topc botc strict in
  p_phi r = Ok phi ->
  (forall j, In j botc -> ~ In j ids -> (j < length bot0)%nat ->
     nthq (p_bot r) j == nthq feed j /\ nthq (p_top r) j == 0) /\
  (forall j, In j topc -> ~ In j botc -> ~ In j ids -> (j < length bot0)%nat ->
     nthq (p_bot r) j == 0 /\ nthq (p_top r) j == nthq feed j) /\
  (forall j, ~ In j topc -> ~ In j botc -> ~ In j ids ->
     nthq (p_bot r) j == nthq bot0 j /\ nthq (p_top r) j == nthq feed j - nthq bot0 j).
Proof.
  intros L LT r H.
  pose proof (partition_conserves_lemma pf feed top0 bot0 ids K topc botc strict phi L H) as C. fold r in C.
  assert (G : forall j, ~ In j ids ->
     (In j botc -> (j < length bot0)%nat -> nthq (p_bot r) j = nthq feed j) /\
     (In j topc -> ~ In j botc -> (j < length bot0)%nat -> nthq (p_bot r) j = 0) /\
     (~ In j topc -> ~ In j botc -> nthq (p_bot r) j = nthq bot0 j)).
  { intros j NI. revert H. unfold r, partition.
    destruct (forced feed top0 bot0 topc) as [[top1 bot1] Fa] eqn:F1.
    destruct (forced feed bot1 top1 botc) as [[bot2 top2] Fb] eqn:F2.
    destruct (forced_spec _ _ _ _ _ _ _ F1) as (L1a & L1 & _ & _ & _ & O1 & I1).
    destruct (forced_spec _ _ _ _ _ _ _ F2) as (L2 & _ & _ & _ & _ & O2 & I2).
    assert (B2 : (In j botc -> (j < length bot0)%nat -> nthq bot2 j = nthq feed j) /\
                 (In j topc -> ~ In j botc -> (j < length bot0)%nat -> nthq bot2 j = 0) /\
                 (~ In j topc -> ~ In j botc -> nthq bot2 j = nthq bot0 j)).
    { split; [|split].
      - intros Hb Hj. apply I2; [exact Hb| |]; congruence.
      - intros Ht Hnb Hj. destruct (O2 j Hnb) as [E _]. rewrite E. apply I1; [exact Ht| |]; congruence.
      - intros Hnt Hnb. destruct (O2 j Hnb) as [E _]. rewrite E. apply O1; exact Hnt. }
    destruct (qzerob _); cbn [p_phi p_bot]; [discriminate|].
    destruct (qleb _ 0); cbn [p_phi p_bot].
    - intros _. rewrite scatter_other by exact NI. exact B2.
    - destruct (qltb _ 1).
      + destruct (existsb qzerob _); cbn [p_phi]; [discriminate|].
        destruct (c_err _); cbn [p_phi p_bot]; [discriminate|].
        intros _. rewrite scatter_other by exact NI. exact B2.
      + cbn [p_phi p_bot]. intros _. rewrite scatter_c_other by exact NI. exact B2. }
  split; [|split].
  - intros j Hb NI Hj. destruct (G j NI) as (A & _ & _). specialize (C j). rewrite (A Hb Hj) in *. split; lra.
  - intros j Ht Hnb NI Hj. destruct (G j NI) as (_ & A & _). specialize (C j). rewrite (A Ht Hnb Hj) in *. split; lra.
  - intros j Hnt Hnb NI. destruct (G j NI) as (_ & _ & A). specialize (C j). rewrite (A Hnt Hnb) in *. split; lra.
Qed.

(* separations.phase_fraction returns what partition returns *)
Lemma phase_fraction_agrees_lemma feed top0 bot0 ids K topc botc strict :
  fst (phase_fraction pf feed ids K topc botc strict) = p_phi (partition pf feed top0 bot0 ids K topc botc strict)
  /\ snd (phase_fraction pf feed ids K topc botc strict) = p_warns (partition pf feed top0 bot0 ids K topc botc strict).
Proof.
  unfold phase_fraction, partition.
  destruct (forced feed top0 bot0 topc) as [[top1 bot1] Fa] eqn:F1.
  destruct (forced feed bot1 top1 botc) as [[bot2 top2] Fb] eqn:F2.
  destruct (forced_spec _ _ _ _ _ _ _ F1) as (_ & _ & _ & _ & EA & _).
  destruct (forced_spec _ _ _ _ _ _ _ F2) as (_ & _ & _ & _ & EB & _).
  subst Fa Fb.
  destruct (qzerob _); [split; reflexivity|].
  destruct (qleb _ 0); [split; reflexivity|].
  destruct (qltb _ 1); [|split; reflexivity].
  destruct (existsb qzerob _); [split; reflexivity|].
  destruct (c_err _); split; reflexivity.
Qed.
End PartitionExact.

(* ================================================================ lle / vle wrappers *)

Lemma eff_mix_lemma rho eq extra feed top0 bot0 topchem eff rowL rowl :
  eq feed = (rowL, rowl) -> length rowL = length feed -> length rowl = length feed ->
  let r := lle_wrap rho eq extra feed top0 bot0 topchem eff in
  e_err r = None ->
  forall i, nthq (e_top r) i + nthq (e_bot r) i ==
            if qltb eff 1 then eff * (nthq rowL i + nthq rowl i) + (1 - eff) * nthq feed i
            else nthq rowL i + nthq rowl i.
Proof.
  intros E LL Ll. cbv zeta. unfold lle_wrap. rewrite E.
  destruct (negb (Nat.eqb extra 0)); cbn [e_err]; [discriminate|].
  intros _ i.
  destruct (top_is_l rho rowL rowl topchem); destruct (qltb eff 1); cbn [e_top e_bot];
    rewrite ?nthq_vadd by (rewrite !vscale_length; congruence); rewrite ?nthq_vscale; try lra; field.
Qed.

Lemma lle_conserves_lemma rho eq extra feed top0 bot0 topchem eff rowL rowl :
  eq feed = (rowL, rowl) -> length rowL = length feed -> length rowl = length feed ->
  (forall i, nthq rowL i + nthq rowl i == nthq feed i) ->
  let r := lle_wrap rho eq extra feed top0 bot0 topchem eff in
  e_err r = None ->
  forall i, nthq (e_top r) i + nthq (e_bot r) i == nthq feed i.
Proof.
  intros E LL Ll C r OK i.
  pose proof (eff_mix_lemma rho eq extra feed top0 bot0 topchem eff rowL rowl E LL Ll OK i) as X.
  cbv zeta in X. fold r in X. rewrite X.
  specialize (C i). destruct (qltb eff 1); [rewrite C; ring|exact C].
Qed.

Lemma lle_nonneg_lemma rho eq extra feed top0 bot0 topchem eff rowL rowl :
  eq feed = (rowL, rowl) -> length rowL = length feed -> length rowl = length feed ->
  (forall i, 0 <= nthq rowL i) -> (forall i, 0 <= nthq rowl i) -> (forall i, 0 <= nthq feed i) ->
  0 <= eff ->
  let r := lle_wrap rho eq extra feed top0 bot0 topchem eff in
  e_err r = None ->
  forall i, 0 <= nthq (e_top r) i /\ 0 <= nthq (e_bot r) i.
Proof.
  intros E LL Ll NL Nl NF EF. cbv zeta. unfold lle_wrap. rewrite E.
  destruct (negb (Nat.eqb extra 0)); cbn [e_err]; [discriminate|].
  intros _ i. specialize (NL i). specialize (Nl i). specialize (NF i).
  destruct (top_is_l rho rowL rowl topchem); destruct (qltb eff 1) eqn:E1; cbn [e_top e_bot];
    try (split; assumption);
    apply qltb_true in E1;
    rewrite !nthq_vadd by (rewrite !vscale_length; congruence); rewrite !nthq_vscale;
    (assert (H2 : 0 <= (1 - eff) / 2) by (apply Qle_shift_div_l; lra)); split; nra.
Qed.

(* without mixing each outlet is one of the two phases, the other outlet the other phase *)
Lemma lle_routes_lemma rho eq extra feed top0 bot0 topchem eff rowL rowl :
  eq feed = (rowL, rowl) -> 1 <= eff ->
  let r := lle_wrap rho eq extra feed top0 bot0 topchem eff in
  e_err r = None ->
  (e_top r = rowL /\ e_bot r = rowl) \/ (e_top r = rowl /\ e_bot r = rowL).
Proof.
  intros E EF. cbv zeta. unfold lle_wrap. rewrite E.
  destruct (negb (Nat.eqb extra 0)); cbn [e_err]; [discriminate|].
  destruct (qltb eff 1) eqn:E1; [apply qltb_true in E1; lra|].
  intros _. destruct (top_is_l rho rowL rowl topchem); cbn [e_top e_bot]; auto.
Qed.

Lemma vle_routes_lemma eq feed rowg rowl :
  eq feed = (rowg, rowl) -> vle_wrap eq feed = (rowg, rowl).
Proof. intros E. unfold vle_wrap. rewrite E. reflexivity. Qed.

(* ================================================================ material_balance *)

Lemma colsum_scale_zip x vin i : length x = length vin ->
  colsum (scale_zip x vin) i == vdot (map (fun s => nthq s i) vin) x.
Proof.
  revert vin; induction x as [|f x IH]; intros [|s vin] L; simpl in *; try (exfalso; discriminate L).
  - unfold vdot; simpl; lra.
  - rewrite vdot_cons, nthq_vscale, IH by lia. lra.
Qed.

Lemma nthq_matvec_row ids vin x k : (k < length ids)%nat ->
  nthq (matvec (mb_matrix ids vin) x) k = vdot (map (fun s => nthq s (nth k ids 0%nat)) vin) x.
Proof.
  unfold matvec, mb_matrix. revert k; induction ids as [|i ids IH]; intros [|k] H; simpl in *; try lia.
  - reflexivity.
  - rewrite nthq_consS. apply IH. lia.
Qed.

Lemma colsum_gather ids (cin : list vec) k : (k < length ids)%nat ->
  nthq (vsum (length ids) (map (fun s => gather s ids) cin)) k == colsum cin (nth k ids 0%nat).
Proof.
  intros H. rewrite nthq_vsum.
  - induction cin as [|s cin IH]; simpl; [lra|]. rewrite nthq_gather by exact H. rewrite IH. lra.
  - intros v Hv. apply in_map_iff in Hv. destruct Hv as (s & <- & _). apply gather_length.
Qed.

Lemma balance_flow_lemma solve n ids vin cin cout bal x vin' :
  (forall v, In v cout -> length v = n) ->
  material_balance solve n ids vin cin cout bal = Ok vin' ->
  solve (mb_matrix ids vin) (mb_rhs n ids cin cout) = Ok x ->
  length x = length vin ->
  (forall k, nthq (matvec (mb_matrix ids vin) x) k == nthq (mb_rhs n ids cin cout) k) ->   (* A x = b *)
  vin' = scale_zip x vin /\
  forall k, (k < length ids)%nat ->
    colsum vin' (nth k ids 0%nat) + colsum cin (nth k ids 0%nat) - colsum cout (nth k ids 0%nat) == 0.
Proof.
  intros LO H S LX AX. unfold material_balance in H.
  destruct vin as [|s0 vin0] eqn:EV; [discriminate|]. rewrite <- EV in *.
  destruct cout as [|o0 cout0] eqn:EO; [discriminate|]. rewrite <- EO in *.
  destruct (negb bal); [discriminate|]. rewrite S in H. simpl in H. inversion H; subst vin'. clear H.
  split; [reflexivity|]. intros k Hk. specialize (AX k).
  rewrite nthq_matvec_row in AX by exact Hk.
  rewrite colsum_scale_zip by exact LX. rewrite AX.
  unfold mb_rhs. rewrite nthq_vsub.
  - rewrite nthq_gather by exact Hk. rewrite nthq_vsum by exact LO. rewrite colsum_gather by exact Hk. lra.
  - rewrite gather_length. rewrite vsum_length; [reflexivity|].
    intros v Hv. apply in_map_iff in Hv. destruct Hv as (s & <- & _). apply gather_length.
Qed.

Lemma scale_zip_nth x vin j : length x = length vin -> (j < length vin)%nat ->
  nth j (scale_zip x vin) [] = vscale (nthq x j) (nth j vin []).
Proof.
  revert vin j; induction x as [|f x IH]; intros [|s vin] j L H; simpl in *; try lia.
  destruct j as [|j]; [reflexivity|]. rewrite nthq_consS. apply IH; lia.
Qed.

(* ================================================================ binary_phase_fraction closed form *)

Lemma as_valid_fraction_range x : 0 <= as_valid_fraction x <= 1.
Proof.
  unfold as_valid_fraction. destruct (qltb x 0) eqn:E1; [lra|]. apply qltb_false in E1.
  destruct (qltb 1 x) eqn:E2; [lra|]. apply qltb_false in E2. lra.
Qed.

(* the two-component closed form is the root of the Rachford-Rice equation *)
Lemma rr2_root_lemma z1 z2 K1 K2 :
  ~ (z1 + z2) * (K1 - 1) * (K2 - 1) == 0 ->
  let phi := compute_phase_fraction_2N z1 z2 K1 K2 in
  ~ 1 + phi * (K1 - 1) == 0 -> ~ 1 + phi * (K2 - 1) == 0 ->
  rr_objective phi [z1; z2] [K1; K2] 0 0 == 0.
Proof.
  intros D phi D1 D2. unfold rr_objective. simpl.
  assert (A1 : ~ z1 + z2 == 0) by (intros E; apply D; rewrite E; ring).
  assert (A2 : ~ K1 - 1 == 0) by (intros E; apply D; rewrite E; ring).
  assert (A3 : ~ K2 - 1 == 0) by (intros E; apply D; rewrite E; ring).
  assert (P : phi == - (z1 * (K1 - 1) + z2 * (K2 - 1)) / ((z1 + z2) * (K1 - 1) * (K2 - 1))).
  { unfold phi, compute_phase_fraction_2N. field.
    repeat split; first [assumption | (intros E; apply D; rewrite <- E; ring)]. }
  assert (X : z1 * (K1 - 1) * (1 + phi * (K2 - 1)) + z2 * (K2 - 1) * (1 + phi * (K1 - 1)) == 0).
  { rewrite P. field. repeat split; assumption. }
  assert (G : - z1 * (K1 - 1) / (1 + phi * (K1 - 1)) + (- z2 * (K2 - 1) / (1 + phi * (K2 - 1)) + 0) - 0 + 0
              == - (z1 * (K1 - 1) * (1 + phi * (K2 - 1)) + z2 * (K2 - 1) * (1 + phi * (K1 - 1)))
                 / ((1 + phi * (K1 - 1)) * (1 + phi * (K2 - 1)))).
  { field. split; assumption. }
  rewrite G, X. field. split; assumption.
Qed.

(* ================================================================ partition: stale outlet contents *)

Lemma scatter_in_exists v idx vals i :
  In i idx -> length vals = length idx -> (i < length v)%nat ->
  exists k, (k < length idx)%nat /\ nth k idx 0%nat = i /\ nthq (scatter v idx vals) i = nthq vals k.
Proof.
  revert v vals; induction idx as [|j idx IH]; intros v [|x vals] H L B; simpl in *; try contradiction; try discriminate.
  destruct (in_dec Nat.eq_dec i idx) as [Hin|Hnin].
  - destruct (IH (upd v j x) vals Hin ltac:(lia) ltac:(rewrite upd_length; exact B)) as (k & K1 & K2 & K3).
    exists (S k). split; [lia|]. split; [exact K2|]. rewrite nthq_consS. exact K3.
  - destruct H as [E|H]; [subst j|contradiction].
    exists 0%nat. split; [lia|]. split; [reflexivity|].
    rewrite scatter_other by exact Hnin. rewrite nthq_cons0. apply nthq_upd_same_lt; exact B.
Qed.

Lemma map2_length_eq {A B C} (f : A -> B -> C) a b : length a = length b -> length (map2 f a b) = length a.
Proof. apply map2_length. Qed.

Lemma clip_length mol maxmol strict :
  length mol = length maxmol ->
  c_err (handle_infeasible mol maxmol strict) = None ->
  length (c_arr (handle_infeasible mol maxmol strict)) = length mol.
Proof.
  intros L. unfold handle_infeasible.
  destruct (existsb (fun x => qltb x 0) mol && strict)%bool; simpl; [discriminate|].
  match goal with |- context [if (?o && strict)%bool then _ else _] => destruct (o && strict)%bool end;
    simpl; [discriminate|].
  intros _. rewrite map2_length; rewrite map_length; [reflexivity|exact L].
Qed.

Section PartitionStale.
Variable pf : vec -> vec -> Q -> Q -> Q.

(* Stale flows of the equilibrium and forced chemicals in the outlets are harmless: every one of them is
   overwritten on each normal return.  Only chemicals that partition never writes must be fresh
   (not above the feed) in the bottom outlet. *)
Lemma partition_nonneg_stale_lemma feed top0 bot0 ids K topc botc strict phi :
  length feed = length bot0 -> length top0 = length bot0 -> nonneg feed ->
  length K = length ids ->
  (forall i, In i ids \/ In i topc \/ In i botc -> (i < length bot0)%nat) ->
  (forall i, ~ In i ids -> ~ In i topc -> ~ In i botc -> 0 <= nthq bot0 i <= nthq feed i) ->
  let r := partition pf feed top0 bot0 ids K topc botc strict in
  p_phi r = Ok phi ->
  forall i, 0 <= nthq (p_top r) i /\ 0 <= nthq (p_bot r) i <= nthq feed i.
Proof.
  intros L LT N LK RNG FRESH r H i.
  pose proof (partition_conserves_lemma pf feed top0 bot0 ids K topc botc strict phi L H i) as C. fold r in C.
  assert (BB : 0 <= nthq (p_bot r) i <= nthq feed i); [|lra].
  clear C. revert H. unfold r, partition. clear r.
  destruct (forced feed top0 bot0 topc) as [[top1 bot1] Fa] eqn:F1.
  destruct (forced feed bot1 top1 botc) as [[bot2 top2] Fb] eqn:F2.
  destruct (forced_spec _ _ _ _ _ _ _ F1) as (L1a & L1 & _ & _ & _ & O1 & I1).
  destruct (forced_spec _ _ _ _ _ _ _ F2) as (L2 & _ & _ & _ & _ & O2 & I2).
  assert (NI : ~ In i ids -> 0 <= nthq bot2 i <= nthq feed i).
  { intros Hn. destruct (in_dec Nat.eq_dec i botc) as [Hb|Hb].
    - destruct (I2 i Hb) as [E _]; [rewrite L1; apply RNG; auto | rewrite L1a, LT; apply RNG; auto|].
      rewrite E. specialize (N i). lra.
    - destruct (O2 i Hb) as [E _]. rewrite E.
      destruct (in_dec Nat.eq_dec i topc) as [Ht|Ht].
      + destruct (I1 i Ht) as [_ E1]; [rewrite LT; apply RNG; auto | apply RNG; auto|].
        rewrite E1. specialize (N i). lra.
      + destruct (O1 i Ht) as [_ E1]. rewrite E1. apply FRESH; assumption. }
  assert (LB2 : length bot2 = length bot0) by congruence.
  destruct (qzerob _); cbn [p_phi p_bot]; [discriminate|].
  destruct (in_dec Nat.eq_dec i ids) as [Hi|Hi].
  2:{ destruct (qleb _ 0); cbn [p_phi p_bot]; [intros _; rewrite scatter_other by exact Hi; apply NI; exact Hi|].
      destruct (qltb _ 1).
      - destruct (existsb qzerob _); cbn [p_phi]; [discriminate|].
        destruct (c_err _); cbn [p_phi p_bot]; [discriminate|].
        intros _. rewrite scatter_other by exact Hi. apply NI; exact Hi.
      - cbn [p_phi p_bot]. intros _. rewrite scatter_c_other by exact Hi. apply NI; exact Hi. }
  assert (IB : (i < length bot2)%nat) by (rewrite LB2; apply RNG; auto).
  destruct (qleb _ 0); cbn [p_phi p_bot].
  - intros _.
    destruct (scatter_in_exists bot2 ids (gather feed ids) i Hi (gather_length _ _) IB) as (k & K1 & K2 & K3).
    rewrite K3, nthq_gather, K2 by exact K1. specialize (N i). lra.
  - destruct (qltb _ 1).
    + destruct (existsb qzerob _); cbn [p_phi]; [discriminate|].
      match goal with |- context [handle_infeasible ?bm ?mol strict] =>
        pose proof (clip_range_lemma bm mol strict (gather_nonneg feed ids N)) as CR;
        pose proof (clip_length bm mol strict) as CL;
        destruct (c_err (handle_infeasible bm mol strict)) eqn:EC end;
        cbn [p_phi p_bot]; [discriminate|].
      intros _. specialize (CR eq_refl).
      rewrite bottom_flows_length, vdivs_length, !gather_length in CL by (rewrite vdivs_length, gather_length; lia).
      specialize (CL eq_refl eq_refl).
      match goal with |- context [scatter bot2 ids ?vals] =>
        destruct (scatter_in_exists bot2 ids vals i Hi CL IB) as (k & K1 & K2 & K3) end.
      rewrite K3. specialize (CR k). rewrite nthq_gather, K2 in CR by exact K1. exact CR.
    + cbn [p_phi p_bot]. intros _. rewrite scatter_c_in by assumption. specialize (N i). lra.
Qed.
End PartitionStale.

(* ================================================================ split_to into an outlet of another package *)

Definition pos_inj (pos : list (option nat)) : Prop :=
  forall k1 k2 j, nth_error pos k1 = Some (Some j) -> nth_error pos k2 = Some (Some j) -> k1 = k2.

Lemma pos_inj_tail p pos : pos_inj (p :: pos) -> pos_inj pos.
Proof. intros H k1 k2 j A B. specialize (H (S k1) (S k2) j A B). lia. Qed.

Lemma other_put_length v pos vals : length (other_put v pos vals) = length v.
Proof.
  revert v vals; induction pos as [|p pos IH]; intros v [|x vals]; simpl; auto.
  destruct p as [j|]; rewrite IH; auto. destruct (qzerob x); auto. apply upd_length.
Qed.

Lemma other_put_untouched v pos vals j :
  (forall k, nth_error pos k <> Some (Some j)) -> nthq (other_put v pos vals) j = nthq v j.
Proof.
  revert v vals; induction pos as [|p pos IH]; intros v [|x vals] H; simpl; auto.
  assert (T : forall k, nth_error pos k <> Some (Some j)) by (intros k; exact (H (S k))).
  destruct p as [j0|]; rewrite IH by exact T; auto.
  destruct (qzerob x); auto. apply nthq_upd_other. intros E; subst j0. apply (H 0%nat). reflexivity.
Qed.

Lemma other_put_at v pos vals k j :
  pos_inj pos -> nth_error pos k = Some (Some j) -> (k < length vals)%nat -> (j < length v)%nat ->
  nthq (other_put v pos vals) j = if qzerob (nthq vals k) then nthq v j else nthq vals k.
Proof.
  revert v vals k; induction pos as [|p pos IH]; intros v [|x vals] k INJ E K J; simpl in *;
    try lia; try (destruct k; discriminate).
  destruct k as [|k]; simpl in E.
  - inversion E; subst p. rewrite nthq_cons0.
    rewrite other_put_untouched.
    + destruct (qzerob x); [reflexivity|apply nthq_upd_same_lt; exact J].
    + intros k' E'. specialize (INJ 0%nat (S k') j eq_refl E'). discriminate.
  - rewrite nthq_consS. destruct p as [j0|].
    + rewrite (IH _ vals k (pos_inj_tail _ _ INJ) E) by (try lia; destruct (qzerob x); rewrite ?upd_length; exact J).
      destruct (qzerob (nthq vals k)); [|reflexivity].
      destruct (qzerob x); [reflexivity|]. apply nthq_upd_other.
      intros E0; subst j0. specialize (INJ 0%nat (S k) j eq_refl E). discriminate.
    + apply (IH v vals k (pos_inj_tail _ _ INJ) E); [lia|exact J].
Qed.

Lemma other_lookup_none pos vals k :
  other_lookup pos vals = true -> nth_error pos k = Some None -> (k < length vals)%nat -> nthq vals k == 0.
Proof.
  revert vals k; induction pos as [|p pos IH]; intros [|x vals] k H E K; simpl in *; try lia;
    try (destruct k; discriminate).
  apply andb_true_iff in H. destruct H as [H1 H2].
  destruct k as [|k]; simpl in E.
  - inversion E; subst p. rewrite nthq_cons0. rewrite orb_false_r in H1. apply qzerob_true; exact H1.
  - rewrite nthq_consS. apply IH; auto. lia.
Qed.

(* mix_and_split with the bottom outlet on another package: whatever that outlet held before, afterwards it holds
   exactly the bottom share of each chemical at that chemical's place and nothing anywhere else *)
Lemma mix_split_other_lemma n ins split m pos :
  (forall v, In v ins -> length v = n) -> length split = n -> length pos = n -> pos_inj pos ->
  (forall k j, nth_error pos k = Some (Some j) -> (j < m)%nat) ->
  let o := mix_and_split_other n ins split m pos in
  o_err o = None ->
  (forall i, nthq (o_top o) i == nthq split i * colsum ins i) /\
  (forall i j, nth_error pos i = Some (Some j) -> nthq (o_top o) i + nthq (o_bot o) j == colsum ins i) /\
  (forall i, nth_error pos i = Some None -> nthq (o_top o) i == colsum ins i) /\
  (forall j, (forall k, nth_error pos k <> Some (Some j)) -> nthq (o_bot o) j == 0) /\
  length (o_bot o) = m.
Proof.
  intros Hl Hs Hp INJ RNG. cbv zeta. unfold mix_and_split_other.
  pose proof (mix_split_conserves_lemma n ins split Hl Hs) as C.
  pose proof (mix_split_value_lemma n ins split Hl Hs) as V.
  destruct (mix_split_lengths n ins split Hl Hs) as [L1 L2].
  unfold mix_and_split in *. destruct (split_to (vsum n ins) split) as [values dummy]. cbn [fst snd] in *.
  destruct (other_lookup pos dummy) eqn:LK; cbn [o_err o_top o_bot]; [|discriminate].
  intros _. split; [exact V|]. split; [|split; [|split]].
  - intros i j E.
    assert (Hi : (i < n)%nat) by (rewrite <- Hp; apply nth_error_Some; congruence).
    rewrite (other_put_at (vzero m) pos dummy i j INJ E) by (rewrite ?vzero_length; try lia; eapply RNG; exact E).
    rewrite nthq_vzero. specialize (C i).
    destruct (qzerob (nthq dummy i)) eqn:Z; [apply qzerob_true in Z; lra|lra].
  - intros i E.
    assert (Hi : (i < n)%nat) by (rewrite <- Hp; apply nth_error_Some; congruence).
    pose proof (other_lookup_none pos dummy i LK E ltac:(lia)) as Z. specialize (C i). lra.
  - intros j H. rewrite other_put_untouched by exact H. rewrite nthq_vzero. lra.
  - rewrite other_put_length. apply vzero_length.
Qed.

Lemma colsum_overflow n ins i : (forall v, In v ins -> length v = n) -> (n <= i)%nat -> colsum ins i == 0.
Proof.
  intros Hl Hi. induction ins as [|v ins IH]; simpl; [lra|].
  rewrite nthq_overflow by (rewrite (Hl v) by (left; reflexivity); exact Hi).
  rewrite IH; [lra|]. intros u Hu; apply Hl; right; exact Hu.
Qed.

(* identity-prefix package (the outlet's package appends chemicals): the same indices on both sides *)
Lemma mix_moisture_other_conserves_lemma n mws ins split m pos w mc by_mass mwc strict :
  (forall v, In v ins -> length v = n) -> length split = n -> length pos = n -> (n <= m)%nat ->
  (forall i, (i < n)%nat -> nth_error pos i = Some (Some i)) -> (w < n)%nat ->
  (by_mass = true -> ~ nthq mws w == 0) ->
  let r := mix_and_split_with_moisture_other n mws ins split m pos w mc by_mass mwc strict in
  m_err r <> Some EKey ->
  forall i, nthq (total (m_ret r)) i + nthq (total (m_perm r)) i == colsum ins i.
Proof.
  intros Hl Hs Hp NM ID W MW. cbv zeta. unfold mix_and_split_with_moisture_other.
  assert (INJ : pos_inj pos).
  { intros k1 k2 j A B.
    assert (K1 : (k1 < n)%nat) by (rewrite <- Hp; apply nth_error_Some; congruence).
    assert (K2 : (k2 < n)%nat) by (rewrite <- Hp; apply nth_error_Some; congruence).
    rewrite (ID k1 K1) in A. rewrite (ID k2 K2) in B. congruence. }
  assert (RNG : forall k j, nth_error pos k = Some (Some j) -> (j < m)%nat).
  { intros k j A. assert (K1 : (k < n)%nat) by (rewrite <- Hp; apply nth_error_Some; congruence).
    rewrite (ID k K1) in A. inversion A; subst. lia. }
  pose proof (mix_split_other_lemma n ins split m pos Hl Hs Hp INJ RNG) as SP. cbv zeta in SP.
  destruct (mix_split_lengths n ins split Hl Hs) as [LT _].
  assert (LTOP : length (o_top (mix_and_split_other n ins split m pos)) = n).
  { unfold mix_and_split_other. unfold mix_and_split in LT.
    destruct (split_to (vsum n ins) split) as [values dummy]. cbn [fst] in LT.
    destruct (other_lookup pos dummy); exact LT. }
  destruct (o_err (mix_and_split_other n ins split m pos)) as [e|] eqn:EO.
  - cbn [m_err]. intros NE. exfalso. apply NE. f_equal.
    revert EO. unfold mix_and_split_other. destruct (split_to (vsum n ins) split) as [values dummy].
    destruct (other_lookup pos dummy); cbn [o_err]; intros H; inversion H; reflexivity.
  - intros _ i. destruct (SP eq_refl) as (_ & S2 & _ & S4 & LB).
    set (o := mix_and_split_other n ins split m pos) in *.
    rewrite (moisture_conserves_lemma n m mws (single (o_top o)) (single (o_bot o)) w mc by_mass mwc strict
               (wf_single n _ LTOP) (wf_single m _ LB) W ltac:(lia) MW i).
    rewrite !total_single.
    destruct (Nat.lt_ge_cases i n) as [Hi|Hi].
    + apply S2. apply ID. exact Hi.
    + rewrite (nthq_overflow (o_top o)) by lia.
      rewrite S4.
      * rewrite colsum_overflow with (n := n); [lra|exact Hl|exact Hi].
      * intros k E. assert (K1 : (k < n)%nat) by (rewrite <- Hp; apply nth_error_Some; congruence).
        rewrite (ID k K1) in E. injection E as E'. lia.
Qed.

(* ================================================================ the in-repository part of the Rachford-Rice solver *)

Lemma rr_solve_cases root zs Ks za zb :
  rr_solve root zs Ks za zb = 0 \/ rr_solve root zs Ks za zb = 1 \/ rr_solve root zs Ks za zb = root.
Proof.
  unfold rr_solve.
  repeat match goal with |- context [if ?b then _ else _] => destruct b end; auto.
Qed.

(* which early exit fired *)
Lemma rr_solve_exit0 root zs Ks za zb :
  all_le Ks one_plus = true -> za == 0 -> rr_solve root zs Ks za zb = 0.
Proof.
  intros A Z. unfold rr_solve. rewrite A. apply qzerob_true in Z. rewrite Z. reflexivity.
Qed.

Lemma rr_solve_exit1 root zs Ks za zb :
  (all_le Ks one_plus && qzerob za)%bool = false -> all_ge Ks one_minus = true -> zb == 0 ->
  rr_solve root zs Ks za zb = 1.
Proof.
  intros N A Z. unfold rr_solve. rewrite N, A. apply qzerob_true in Z. rewrite Z. reflexivity.
Qed.

(* the numeric root finder decides whenever no exit on the range of K applies and the residual does not have the
   same strict sign at both ends of the bracket.  In particular a chemical forced to the bottom (zb <> 0) disables
   the "every K >= 1 -> phi = 1" exit, one forced to the top the "every K <= 1 -> phi = 0" exit. *)
Lemma sign_exits_none (y0 y1 r : Q) : (y0 <= 0 <= y1 \/ y1 <= 0 <= y0) ->
  (if (qltb y1 y0 && qltb 0 y1)%bool then 1 else
   if (qltb y0 y1 && qltb 0 y0)%bool then 0 else
   if (qltb y0 y1 && qltb y1 0)%bool then 1 else
   if (qltb y1 y0 && qltb y0 0)%bool then 0 else r) = r.
Proof.
  intros S.
  destruct (qltb y1 y0) eqn:A; destruct (qltb 0 y1) eqn:B; destruct (qltb y0 y1) eqn:C;
    destruct (qltb 0 y0) eqn:D; destruct (qltb y1 0) eqn:E; destruct (qltb y0 0) eqn:G; cbn [andb];
    try reflexivity; exfalso;
    try apply qltb_true in A; try apply qltb_true in B; try apply qltb_true in C;
    try apply qltb_true in D; try apply qltb_true in E; try apply qltb_true in G;
    destruct S as [S|S]; lra.
Qed.

Lemma rr_solve_bracket_lemma root zs Ks za zb :
  (all_le Ks one_plus && qzerob za)%bool = false ->
  (all_ge Ks one_minus && qzerob zb)%bool = false ->
  let y0 := rr_objective (if qzerob za then 0 else x_lo) zs Ks za zb in
  let y1 := rr_objective (if qzerob zb then 1 else x_hi) zs Ks za zb in
  (y0 <= 0 <= y1 \/ y1 <= 0 <= y0) ->
  rr_solve root zs Ks za zb = root.
Proof.
  intros N0 N1 y0 y1 S. unfold rr_solve. rewrite N0, N1. cbv zeta.
  apply sign_exits_none. exact S.
Qed.

Lemma forced_bottom_disables_exit Ks zb : ~ zb == 0 -> (all_ge Ks one_minus && qzerob zb)%bool = false.
Proof. intros H. apply qzerob_false in H. rewrite H. apply andb_false_r. Qed.
Lemma forced_top_disables_exit Ks za : ~ za == 0 -> (all_le Ks one_plus && qzerob za)%bool = false.
Proof. intros H. apply qzerob_false in H. rewrite H. apply andb_false_r. Qed.

(* the exits are right when they do fire: with every K <= 1 and nothing forced to the top the residual is
   non-negative on (0, 1) (no top phase can form), with every K >= 1 and nothing forced to the bottom non-positive *)
Lemma rr_exit0_sound_lemma phi zs Ks za zb :
  length zs = length Ks -> 0 < phi < 1 ->
  Forall (fun z => 0 <= z) zs -> Forall (fun k => 0 <= k <= 1) Ks -> za == 0 -> 0 <= zb ->
  0 <= rr_objective phi zs Ks za zb.
Proof.
  intros L PH FZ FK ZA ZB. unfold rr_objective.
  assert (A : (if qltb 0 za then za / phi else 0) == 0).
  { destruct (qltb 0 za) eqn:E; [apply qltb_true in E; lra|reflexivity]. }
  assert (B : 0 <= (if qltb 0 zb then zb / (1 - phi) else 0)).
  { destruct (qltb 0 zb); [apply Qle_shift_div_l; lra|lra]. }
  assert (S : 0 <= qsum (map2 Qdiv (map2 (fun z km => - z * km) zs (map (fun k => k - 1) Ks))
                                   (map (fun km => 1 + phi * km) (map (fun k => k - 1) Ks)))).
  { clear A B ZA ZB. revert Ks L FK; induction zs as [|z zs IH]; intros [|k Ks] L FK; simpl in *;
      try (exfalso; discriminate L); try lra.
    inversion FZ as [|? ? Z0 FZ']; subst. inversion FK as [|? ? K0 FK']; subst.
    specialize (IH FZ' Ks ltac:(lia) FK').
    assert (D : 0 < 1 + phi * (k - 1)) by nra.
    assert (T : 0 <= - z * (k - 1) / (1 + phi * (k - 1))) by (apply Qle_shift_div_l; nra).
    lra. }
  rewrite A. lra.
Qed.

Lemma rr_exit1_sound_lemma phi zs Ks za zb :
  length zs = length Ks -> 0 < phi < 1 ->
  Forall (fun z => 0 <= z) zs -> Forall (fun k => 1 <= k) Ks -> zb == 0 -> 0 <= za ->
  rr_objective phi zs Ks za zb <= 0.
Proof.
  intros L PH FZ FK ZB ZA. unfold rr_objective.
  assert (B : (if qltb 0 zb then zb / (1 - phi) else 0) == 0).
  { destruct (qltb 0 zb) eqn:E; [apply qltb_true in E; lra|reflexivity]. }
  assert (A : 0 <= (if qltb 0 za then za / phi else 0)).
  { destruct (qltb 0 za); [apply Qle_shift_div_l; lra|lra]. }
  assert (S : qsum (map2 Qdiv (map2 (fun z km => - z * km) zs (map (fun k => k - 1) Ks))
                              (map (fun km => 1 + phi * km) (map (fun k => k - 1) Ks))) <= 0).
  { clear A B ZA ZB. revert Ks L FK; induction zs as [|z zs IH]; intros [|k Ks] L FK; simpl in *;
      try (exfalso; discriminate L); try lra.
    inversion FZ as [|? ? Z0 FZ']; subst. inversion FK as [|? ? K0 FK']; subst.
    specialize (IH FZ' Ks ltac:(lia) FK').
    assert (D : 0 < 1 + phi * (k - 1)) by nra.
    assert (T : - z * (k - 1) / (1 + phi * (k - 1)) <= 0).
    { assert (T' : 0 <= z * (k - 1) / (1 + phi * (k - 1))) by (apply Qle_shift_div_l; nra).
      assert (E : - z * (k - 1) / (1 + phi * (k - 1)) == - (z * (k - 1) / (1 + phi * (k - 1)))) by (field; lra).
      rewrite E. lra. }
    lra. }
  rewrite B. lra.
Qed.

Lemma as_valid_fraction_interior v : 0 < as_valid_fraction v < 1 -> as_valid_fraction v = v.
Proof.
  unfold as_valid_fraction. destruct (qltb v 0); [lra|]. destruct (qltb 1 v); [lra|]. reflexivity.
Qed.

Section PartitionReal.
Variable rootf : vec -> vec -> Q -> Q -> Q.
(* contract of flx.find_bracket + flx.IQ_interpolation: an interior value they return is a root of the residual *)
Hypothesis rootf_root : forall zs Ks za zb,
  0 < rootf zs Ks za zb < 1 -> rr_objective (rootf zs Ks za zb) zs Ks za zb == 0.

Lemma pf_real_interior_root zs Ks za zb :
  (negb (qzerob za) || negb (qzerob zb) || Nat.ltb 2 (length zs))%bool = true ->
  0 < pf_real rootf zs Ks za zb < 1 ->
  rr_objective (pf_real rootf zs Ks za zb) zs Ks za zb == 0.
Proof.
  unfold pf_real, binary_phase_fraction. intros P. rewrite P. intros I.
  pose proof (as_valid_fraction_interior _ I) as AV. rewrite AV in I |- *. clear AV.
  destruct (rr_solve_cases (rootf zs Ks za zb) zs Ks za zb) as [E|[E|E]]; rewrite E in I |- *; try lra.
  apply rootf_root. exact I.
Qed.

(* partition driven by the real wrapper: an interior phase fraction is a root of the residual for exactly the
   arguments partition hands over, so C20_partition_K_root applies *)
Lemma partition_real_root_lemma feed top0 bot0 ids K topc botc strict phi :
  let r := partition (pf_real rootf) feed top0 bot0 ids K topc botc strict in
  p_phi r = Ok phi -> 0 < phi < 1 ->
  let Fa := forced_sum feed topc in
  let Fb := forced_sum feed botc in
  let F := qsum (gather feed ids) + (Fa + Fb) in
  ((2 < length ids)%nat \/ ~ Fa == 0 \/ ~ Fb == 0) ->
  rr_objective phi (vdivs (gather feed ids) F) K (Fa / F) (Fb / F) == 0.
Proof.
  cbv zeta. unfold partition.
  destruct (forced feed top0 bot0 topc) as [[top1 bot1] Fa'] eqn:F1.
  destruct (forced feed bot1 top1 botc) as [[bot2 top2] Fb'] eqn:F2.
  destruct (forced_spec _ _ _ _ _ _ _ F1) as (_ & _ & _ & _ & EA & _).
  destruct (forced_spec _ _ _ _ _ _ _ F2) as (_ & _ & _ & _ & EB & _).
  subst Fa' Fb'.
  set (Fa := forced_sum feed topc). set (Fb := forced_sum feed botc).
  set (F := qsum (gather feed ids) + (Fa + Fb)).
  destruct (qzerob F) eqn:EF; cbn [p_phi]; [discriminate|]. apply qzerob_false in EF.
  set (z := vdivs (gather feed ids) F).
  destruct (qleb (pf_real rootf z K (Fa / F) (Fb / F)) 0) eqn:E1; cbn [p_phi].
  { intros H; inversion H; subst; lra. }
  destruct (qltb (pf_real rootf z K (Fa / F) (Fb / F)) 1) eqn:E2; cbn [p_phi].
  2:{ intros H; inversion H; subst; lra. }
  destruct (existsb qzerob _); cbn [p_phi]; [discriminate|].
  destruct (c_err _); cbn [p_phi]; [discriminate|].
  intros H PH COND. inversion H; subst phi.
  apply pf_real_interior_root; [|exact PH].
  assert (NZ : forall x, ~ x == 0 -> qzerob (x / F) = false).
  { intros x Hx. apply qzerob_false. intros E. apply Hx.
    assert (X : x == x / F * F) by (field; exact EF). rewrite X, E. ring. }
  destruct COND as [C|[C|C]].
  - unfold z. rewrite vdivs_length, gather_length.
    destruct (Nat.ltb_spec 2 (length ids)); [apply orb_true_r|lia].
  - rewrite (NZ _ C). reflexivity.
  - rewrite (NZ _ C). simpl. apply orb_true_r || (rewrite orb_true_r; reflexivity).
Qed.
End PartitionReal.

(* ================================================================ state kept between calls *)

(* ---- the caller's multi_stream *)
Lemma ms_after_copy_forgets (ms0 ms0' : list vec) k feed :
  length ms0 = length ms0' -> ms_after_copy ms0 k feed = ms_after_copy ms0' k feed.
Proof.
  intros L. unfold ms_after_copy. f_equal.
  revert ms0' L; induction ms0 as [|a ms0 IH]; intros [|b ms0'] L; simpl in *; try discriminate; auto.
  f_equal. apply IH. lia.
Qed.

Lemma colsum_zero_rows (ms0 : list vec) n i : colsum (map (fun _ : vec => vzero n) ms0) i == 0.
Proof. induction ms0 as [|a l IH]; simpl; [lra|]. rewrite nthq_vzero, IH. lra. Qed.

Lemma colsum_upd (l : list vec) k v i : (k < length l)%nat ->
  colsum (upd l k v) i == colsum l i - nthq (nth k l []) i + nthq v i.
Proof.
  revert k; induction l as [|a l IH]; intros [|k] H; simpl in *; try lia.
  - lra.
  - rewrite IH by lia. lra.
Qed.

Lemma nth_zero_rows (ms0 : list vec) n k i : nthq (nth k (map (fun _ : vec => vzero n) ms0) []) i == 0.
Proof.
  revert k; induction ms0 as [|a l IH]; intros [|k]; simpl; rewrite ?nthq_nil, ?nthq_vzero; try lra. apply IH.
Qed.

Lemma ms_after_copy_total ms0 k feed i : (k < length ms0)%nat ->
  colsum (ms_after_copy ms0 k feed) i == nthq feed i.
Proof.
  intros H. unfold ms_after_copy. rewrite colsum_upd by (rewrite map_length; exact H).
  rewrite colsum_zero_rows, nth_zero_rows. lra.
Qed.

Lemma In_upd {A} (l : list A) k v x : In x (upd l k v) -> x = v \/ In x l.
Proof.
  revert k; induction l as [|a l IH]; intros [|k] H; simpl in *; auto.
  - destruct H as [H|H]; auto.
  - destruct H as [H|H]; auto. destruct (IH k H); auto.
Qed.

Lemma ms_after_copy_lengths ms0 k feed v : In v (ms_after_copy ms0 k feed) -> length v = length feed.
Proof.
  unfold ms_after_copy. intros H. apply In_upd in H. destruct H as [->|H]; [reflexivity|].
  apply in_map_iff in H. destruct H as (x & <- & _). apply vzero_length.
Qed.

Lemma lle_ms_history_independent rho eqr extra (ms0 ms0' : list vec) k feed top0 bot0 topchem eff :
  length ms0 = length ms0' ->
  lle_ms rho eqr extra ms0 k feed top0 bot0 topchem eff = lle_ms rho eqr extra ms0' k feed top0 bot0 topchem eff.
Proof.
  intros L. unfold lle_ms, lle_wrap. rewrite (ms_after_copy_forgets ms0 ms0' k feed L). reflexivity.
Qed.

Lemma vle_ms_history_independent eqr (ms0 ms0' : list vec) k feed :
  length ms0 = length ms0' -> vle_ms eqr ms0 k feed = vle_ms eqr ms0' k feed.
Proof.
  intros L. unfold vle_ms, vle_wrap. rewrite (ms_after_copy_forgets ms0 ms0' k feed L). reflexivity.
Qed.

(* contract of a conserving equilibrium call: the two rows it leaves add up to the material the stream held *)
Definition eq_conserves (n : nat) (eqr : list vec -> vec * vec) : Prop :=
  forall rows, (forall v, In v rows -> length v = n) ->
    length (fst (eqr rows)) = n /\ length (snd (eqr rows)) = n /\
    forall i, nthq (fst (eqr rows)) i + nthq (snd (eqr rows)) i == colsum rows i.

Lemma lle_ms_conserves_lemma rho eqr extra ms0 k feed top0 bot0 topchem eff :
  eq_conserves (length feed) eqr -> (k < length ms0)%nat ->
  let r := lle_ms rho eqr extra ms0 k feed top0 bot0 topchem eff in
  e_err r = None ->
  forall i, nthq (e_top r) i + nthq (e_bot r) i == nthq feed i.
Proof.
  intros C K r OK i.
  destruct (C (ms_after_copy ms0 k feed) (ms_after_copy_lengths ms0 k feed)) as (L1 & L2 & S).
  unfold r, lle_ms in *.
  apply (lle_conserves_lemma rho (fun f => eqr (ms_after_copy ms0 k f)) extra feed top0 bot0 topchem eff
           (fst (eqr (ms_after_copy ms0 k feed))) (snd (eqr (ms_after_copy ms0 k feed)))); auto.
  - apply surjective_pairing.
  - intros j. rewrite S. apply ms_after_copy_total. exact K.
Qed.

Lemma vle_ms_conserves_lemma eqr ms0 k feed :
  eq_conserves (length feed) eqr -> (k < length ms0)%nat ->
  forall i, nthq (fst (vle_ms eqr ms0 k feed)) i + nthq (snd (vle_ms eqr ms0 k feed)) i == nthq feed i.
Proof.
  intros C K i.
  destruct (C (ms_after_copy ms0 k feed) (ms_after_copy_lengths ms0 k feed)) as (_ & _ & S).
  unfold vle_ms, vle_wrap. destruct (eqr (ms_after_copy ms0 k feed)) as [g l] eqn:E. cbn [fst snd] in *.
  rewrite S. apply ms_after_copy_total. exact K.
Qed.

(* the relative stub of the harness is such a conserving call *)
Lemma eq_rel_conserves n s : length s = n -> eq_conserves n (eq_rel n s).
Proof.
  intros Ls rows Hl. unfold eq_rel. cbn [fst snd].
  assert (LT : length (vsum n rows) = n) by (apply vsum_length; exact Hl).
  split; [rewrite vmul_length; lia|]. split; [rewrite vsub_length; [lia|rewrite vmul_length; lia]|].
  intros i. rewrite nthq_vsub by (rewrite vmul_length; lia). rewrite nthq_vsum by exact Hl. lra.
Qed.

(* ---- cached per-phase views of a MultiStream *)
Definition views_ok (s : mstate) : Prop :=
  Forall (fun v : option nat => v = None \/ v = Some (ms_gen s)) (ms_views s).

Lemma Forall_upd {A} (P : A -> Prop) (l : list A) k x : Forall P l -> P x -> Forall P (upd l k x).
Proof.
  intros F Px. revert k; induction F as [|a l Pa F IH]; intros [|k]; simpl; constructor; auto.
Qed.

Lemma Forall_map2 {A B C} (P : C -> Prop) (f : A -> B -> C) a b :
  (forall x y, In x a -> P (f x y)) -> Forall P (map2 f a b).
Proof.
  revert b; induction a as [|x a IH]; intros [|y b] H; simpl; constructor.
  - apply H. left; reflexivity.
  - apply IH. intros x' y' Hx. apply H. right; exact Hx.
Qed.

Lemma views_ok_init present rows : views_ok (minit present rows).
Proof. unfold views_ok, minit; simpl. repeat constructor. Qed.

Lemma mstep_views_ok n s o s' : views_ok s -> mstep n s o = Ok s' -> views_ok s'.
Proof.
  unfold views_ok. intros V H. destruct o as [p|p v|np|]; unfold mstep in H.
  - destruct (nthb (ms_present s) p); [|discriminate]. inversion H; subst s'; simpl.
    apply Forall_upd; [exact V|]. destruct (nth p (ms_views s) None) as [g|] eqn:E; simpl; auto.
    assert (X : nth p (ms_views s) None = None \/ nth p (ms_views s) None = Some (ms_gen s)).
    { destruct (nth_in_or_default p (ms_views s) None) as [I|D]; [|left; exact D].
      rewrite Forall_forall in V. apply V; exact I. }
    rewrite E in X. destruct X as [X|X]; [discriminate|]. right; exact X.
  - destruct (nthb (ms_present s) p); [|discriminate]. inversion H; subst s'; simpl. exact V.
  - destruct (blist_eqb np (ms_present s)); [inversion H; subst; exact V|].
    destruct (regroup n np all_phases (ms_present s) (ms_rows s) (repeat (vzero n) 4)) as [rows'|e]; unfold bind in H;
      [|discriminate H].
    inversion H; subst s'; simpl. apply Forall_map2.
    intros x y _. destruct y; [destruct x|]; auto.
  - inversion H; subst s'; simpl. apply Forall_map2.
    intros x y Hx. rewrite Forall_forall in V. specialize (V x Hx).
    destruct y; [|exact V]. destruct x; simpl; auto.
Qed.


Lemma mrun_views_ok n s ops s' : views_ok s -> mrun n s ops = Ok s' -> views_ok s'.
Proof.
  revert s; induction ops as [|o ops IH]; intros s V H; simpl in H.
  - inversion H; subst; exact V.
  - destruct (mstep n s o) as [s1|e] eqn:E; simpl in H; [|discriminate].
    apply (IH s1); [eapply mstep_views_ok; eauto|exact H].
Qed.

Lemma view_read_current s p : views_ok s -> view_read s p = nthv (ms_rows s) p.
Proof.
  unfold views_ok, view_read. intros V.
  destruct (nth p (ms_views s) None) as [g|] eqn:E; [|reflexivity].
  assert (X : nth p (ms_views s) None = None \/ nth p (ms_views s) None = Some (ms_gen s)).
  { destruct (nth_in_or_default p (ms_views s) None) as [I|D]; [|left; exact D].
    rewrite Forall_forall in V. apply V; exact I. }
  rewrite E in X. destruct X as [X|X]; [discriminate|]. inversion X; subst. rewrite Nat.eqb_refl. reflexivity.
Qed.

(* for EVERY history of view accesses, earlier splits, flow assignments and phase-set changes: each outlet receives
   the current flows of its phase of the feed (what feed.imol shows), never an older indexer's *)
Lemma phase_split_hist_lemma n present rows ops outs0 outs current :
  phase_split_hist n present rows ops outs0 = Ok (outs, current) ->
  outs = current /\ exists s, mrun n (minit present rows) ops = Ok s /\
     current = map (nthv (ms_rows s)) (present_phases s) /\ length outs0 = length (present_phases s).
Proof.
  unfold phase_split_hist. destruct (mrun n (minit present rows) ops) as [s|e] eqn:R; simpl; [|discriminate].
  destruct (phase_split (map (view_read s) (present_phases s)) outs0) as [o|e] eqn:P; simpl; [|discriminate].
  intros H; inversion H; subst outs current. clear H.
  destruct (phase_split_routes_lemma _ _ _ P) as [EQ LEN].
  pose proof (mrun_views_ok n _ ops s (views_ok_init present rows) R) as V.
  assert (M : map (view_read s) (present_phases s) = map (nthv (ms_rows s)) (present_phases s)).
  { apply map_ext. intros p. apply view_read_current. exact V. }
  split; [rewrite EQ; exact M|]. exists s. split; [reflexivity|]. split; [reflexivity|].
  rewrite LEN, map_length. reflexivity.
Qed.

(* ================================================================ mix_and_split with a MultiStream top outlet *)

Lemma row_of_lt phases p : (p < 4)%nat -> (row_of phases p < 4)%nat.
Proof.
  intros H. unfold row_of. destruct (nthb phases p); [exact H|].
  destruct p as [|[|[|[|p]]]]; simpl; lia.
Qed.

Lemma mix_rows_spec n phases inl acc :
  length acc = 4%nat -> (forall r, In r acc -> length r = n) ->
  (forall i, In i inl -> (fst i < 4)%nat /\ length (snd i) = n) ->
  length (mix_rows phases inl acc) = 4%nat /\
  (forall r, In r (mix_rows phases inl acc) -> length r = n) /\
  forall j, colsum (mix_rows phases inl acc) j == colsum acc j + colsum (map snd inl) j.
Proof.
  revert acc; induction inl as [|[p v] inl IH]; intros acc L4 LR HI; simpl.
  - split; [exact L4|]. split; [exact LR|]. intros j; simpl; lra.
  - destruct (HI (p, v) (or_introl eq_refl)) as [P4 Lv]. simpl in P4, Lv.
    set (r := row_of phases p).
    assert (R4 : (r < 4)%nat) by (apply row_of_lt; exact P4).
    assert (Lr : length (nthv acc r) = n).
    { apply LR. unfold nthv. apply nth_In. exact (eq_ind_r (fun k => (r < k)%nat) R4 L4). }
    destruct (IH (upd acc r (vadd (nthv acc r) v))) as (A & B & C).
    + rewrite upd_length; exact L4.
    + intros x Hx. apply In_upd in Hx. destruct Hx as [->|Hx]; [|apply LR; exact Hx].
      rewrite vadd_length; congruence.
    + intros i Hi. apply HI. right; exact Hi.
    + split; [exact A|]. split; [exact B|]. intros j. rewrite C.
      assert (RL : (r < length acc)%nat) by exact (eq_ind_r (fun k => (r < k)%nat) R4 L4).
      pose proof (colsum_upd acc r (vadd (nthv acc r) v) j RL) as U.
      pose proof (nthq_vadd (nthv acc r) v j ltac:(congruence)) as W.
      unfold nthv, vec in *. rewrite U, W. lra.
Qed.

Lemma empty_inlet_zero (v : vec) j : existsb (fun x => negb (qzerob x)) v = false -> nthq v j == 0.
Proof.
  revert j; induction v as [|x v IH]; intros j H; simpl in H.
  - rewrite nthq_nil; lra.
  - apply orb_false_iff in H. destruct H as [H1 H2]. apply negb_false_iff in H1.
    destruct j as [|j]; [rewrite nthq_cons0; apply qzerob_true; exact H1 | rewrite nthq_consS; apply IH; exact H2].
Qed.

Lemma colsum_filter_nonempty (inl : list (nat * vec)) j :
  colsum (map snd (filter inlet_nonempty inl)) j == colsum (map snd inl) j.
Proof.
  induction inl as [|[p v] inl IH]; simpl; [lra|].
  unfold inlet_nonempty at 1. simpl. destruct (existsb (fun x => negb (qzerob x)) v) eqn:E; simpl.
  - rewrite IH. lra.
  - rewrite IH. rewrite (empty_inlet_zero v j E). lra.
Qed.

Lemma colsum_zero4 n j : colsum (repeat (vzero n) 4) j == 0.
Proof. simpl. rewrite !nthq_vzero. lra. Qed.

Lemma colsum_split_rows n (rows : list vec) split j :
  (forall r, In r rows -> length r = n) -> length split = n ->
  colsum (map (fun r => fst (split_to r split)) rows) j == nthq split j * colsum rows j /\
  colsum (map (fun r => fst (split_to r split)) rows) j + colsum (map (fun r => snd (split_to r split)) rows) j
    == colsum rows j.
Proof.
  intros LR Ls. unfold split_to; cbn [fst snd]. induction rows as [|r rows IH]; simpl; [split; lra|].
  destruct IH as [A B]; [intros x Hx; apply LR; right; exact Hx|].
  assert (Lr : length r = n) by (apply LR; left; reflexivity).
  rewrite nthq_vsub by (rewrite vmul_length; lia). rewrite nthq_vmul by lia.
  split; [rewrite A; ring|].
  set (t := nthq r j * nthq split j) in *. lra.
Qed.

(* all phases together, per chemical: top + bottom = sum of ALL inlets (whatever their phases and whether or not
   the top owned those phases before), and the top holds split * mixed; what the outlets held before is gone *)
Lemma mix_split_multi_lemma n present inl split :
  (forall i, In i inl -> (fst i < 4)%nat /\ length (snd i) = n) -> length split = n ->
  let x := mix_and_split_multi n present inl split in
  forall j, colsum (x_top x) j + colsum (x_bot x) j == colsum (map snd inl) j /\
            colsum (x_top x) j == nthq split j * colsum (map snd inl) j.
Proof.
  intros HI Ls x j. unfold x, mix_and_split_multi. cbn [x_top x_bot].
  destruct (mix_rows_spec n (grow_phases present (filter inlet_nonempty inl)) (filter inlet_nonempty inl)
              (repeat (vzero n) 4)) as (_ & LR & S).
  - reflexivity.
  - intros r Hr. apply repeat_spec in Hr. subst r. apply vzero_length.
  - intros i Hi. apply HI. apply filter_In in Hi. apply Hi.
  - destruct (colsum_split_rows n _ split j LR Ls) as [A B].
    pose proof (S j) as Sj. rewrite colsum_zero4, colsum_filter_nonempty in Sj.
    split.
    + rewrite B. transitivity (0 + colsum (map snd inl) j); [exact Sj | ring].
    + rewrite A. apply Qmult_comp; [reflexivity|]. transitivity (0 + colsum (map snd inl) j); [exact Sj | ring].
Qed.

(* the phase set only grows, and every non-empty inlet finds a row: its own phase or its other-case twin *)
Lemma nth_map_all_phases (f : nat -> bool) p : (p < 4)%nat -> nthb (map f all_phases) p = f p.
Proof. intros H. destruct p as [|[|[|[|p]]]]; try reflexivity; lia. Qed.

Lemma grow_phases_lemma present inl p :
  (p < 4)%nat -> length present = 4%nat ->
  (nthb present p = true -> nthb (grow_phases present inl) p = true) /\
  (forall v, In (p, v) inl -> nthb (grow_phases present inl) (row_of (grow_phases present inl) p) = true).
Proof.
  intros P4 L4. unfold grow_phases.
  destruct (existsb (fun i => negb (in_indexer present (fst i))) inl) eqn:E.
  - split.
    + intros H. rewrite nth_map_all_phases by exact P4. rewrite H. reflexivity.
    + intros v Hin. unfold row_of.
      assert (G : nthb (map (fun q => nthb present q || existsb (fun i => Nat.eqb (fst i) q) inl) all_phases) p = true).
      { rewrite nth_map_all_phases by exact P4. apply orb_true_iff. right.
        apply existsb_exists. exists (p, v). split; [exact Hin|apply Nat.eqb_refl]. }
      rewrite G. exact G.
  - split; [auto|]. intros v Hin.
    assert (I : in_indexer present p = true).
    { destruct (in_indexer present p) eqn:I; auto. exfalso.
      assert (X : existsb (fun i => negb (in_indexer present (fst i))) inl = true).
      { apply existsb_exists. exists (p, v). split; [exact Hin|simpl; rewrite I; reflexivity]. }
      congruence. }
    unfold row_of. destruct (nthb present p) eqn:N; [exact N|].
    unfold in_indexer in I. rewrite N in I. simpl in I.
    destruct (swap_case p) as [q|]; [exact I|discriminate].
Qed.

(* ================================================================ index_overlap and its cache (state between inlets / calls) *)

Lemma list_eqb_nat_eq (a b : list nat) : list_eqb Nat.eqb a b = true -> a = b.
Proof.
  revert b; induction a as [|x a IH]; intros [|y b] H; simpl in H; try discriminate; auto.
  apply andb_true_iff in H. destruct H as [H1 H2]. apply Nat.eqb_eq in H1. subst. f_equal. apply IH; exact H2.
Qed.

(* every cached entry is what a fresh computation would give *)
Definition cache_ok (rk : list nat) (c : icache) : Prop :=
  forall key li, In (key, li) c -> left_indices rk key = Ok li.

Lemma cache_ok_nil rk : cache_ok rk [].
Proof. intros key li []. Qed.

(* dropping entries (the "more than 100 keys: pop the oldest" eviction, other users of the dict) keeps it valid *)
Lemma cache_ok_incl rk c c' : incl c' c -> cache_ok rk c -> cache_ok rk c'.
Proof. intros I H key li Hin. apply H. apply I. exact Hin. Qed.

Lemma icache_find_ok rk c key li : cache_ok rk c -> icache_find c key = Some li -> left_indices rk key = Ok li.
Proof.
  induction c as [|[k l] c IH]; intros H F; simpl in F; [discriminate|].
  destruct (list_eqb Nat.eqb k key) eqn:E.
  - inversion F; subst. apply list_eqb_nat_eq in E. subst. apply H. left; reflexivity.
  - apply IH; [|exact F]. intros k' l' Hin. apply H. right; exact Hin.
Qed.

Lemma index_overlap_ok rk c key :
  cache_ok rk c ->
  fst (index_overlap rk c key) = left_indices rk key /\ cache_ok rk (snd (index_overlap rk c key)).
Proof.
  intros H. unfold index_overlap. destruct (icache_find c key) as [li|] eqn:F; simpl.
  - split; [symmetry; eapply icache_find_ok; eauto|exact H].
  - destruct (left_indices rk key) as [li|e] eqn:L; simpl; split; auto.
    intros k l [E|Hin]; [inversion E; subst; exact L|apply H; exact Hin].
Qed.

(* the cache-free specification of the first loop of mix_from *)
Fixpoint overlaps0 (rk : list nat) (ins : list finlet) : res (list (option (list nat))) :=
  match ins with
  | [] => Ok []
  | i :: t =>
    match fi_pk i with
    | None => do l <- overlaps0 rk t; Ok (None :: l)
    | Some pk =>
      match left_indices rk (map (fun k => nth k pk 0%nat) (fi_order i)) with
      | Err e => Err e
      | Ok li => do l <- overlaps0 rk t; Ok (Some li :: l)
      end
    end
  end.

Lemma overlaps_ok rk c ins :
  cache_ok rk c -> fst (overlaps rk c ins) = overlaps0 rk ins /\ cache_ok rk (snd (overlaps rk c ins)).
Proof.
  revert c; induction ins as [|i t IH]; intros c H; simpl; [split; auto|].
  destruct (fi_pk i) as [pk|].
  - destruct (index_overlap_ok rk c (map (fun k => nth k pk 0%nat) (fi_order i)) H) as [A B].
    destruct (index_overlap rk c (map (fun k => nth k pk 0%nat) (fi_order i))) as [r c'] eqn:E. simpl in A, B.
    rewrite <- A. destruct r as [li|e]; simpl; [|split; auto].
    destruct (IH c' B) as [A' B']. destruct (overlaps rk c' t) as [r' c''] eqn:E'. simpl in *.
    rewrite A'. split; auto.
  - destruct (IH c H) as [A' B']. destruct (overlaps rk c t) as [r' c''] eqn:E'. simpl in *.
    rewrite A'. split; auto.
Qed.

Definition pk_view (x : pkstate * option err) : vec * vec * option err := (pk_top (fst x), pk_bot (fst x), snd x).

(* one call: the outlets and the outcome do not depend on what the cache holds, and the cache stays valid *)
Lemma mix_pk_cache_independent n rk s ins split :
  cache_ok rk (pk_cache s) ->
  pk_view (mix_and_split_pk n rk s ins split)
    = pk_view (mix_and_split_pk n rk (mkPK (pk_top s) (pk_bot s) []) ins split) /\
  cache_ok rk (pk_cache (fst (mix_and_split_pk n rk s ins split))).
Proof.
  intros H. unfold mix_and_split_pk. cbn [pk_cache pk_top pk_bot].
  destruct (overlaps_ok rk (pk_cache s) (filter finlet_nonempty ins) H) as [A B].
  destruct (overlaps_ok rk [] (filter finlet_nonempty ins) (cache_ok_nil rk)) as [A0 _].
  destruct (overlaps rk (pk_cache s) (filter finlet_nonempty ins)) as [r c'] eqn:E.
  destruct (overlaps rk [] (filter finlet_nonempty ins)) as [r0 c0] eqn:E0.
  simpl in A, B, A0. subst r r0.
  destruct (overlaps0 rk (filter finlet_nonempty ins)) as [lis|e]; simpl.
  - destruct (split_to (apply_inlets (vzero n) (filter finlet_nonempty ins) lis) split) as [values dummy].
    simpl. split; [reflexivity|exact B].
  - split; [reflexivity|exact B].
Qed.

(* the same history with the cache wiped before every call *)
Fixpoint run_calls_nocache (n : nat) (rk : list nat) (top bot : vec) (calls : list (list finlet * vec))
  : list (vec * vec * option err) :=
  match calls with
  | [] => []
  | (ins, split) :: t =>
    let '(s', e) := mix_and_split_pk n rk (mkPK top bot []) ins split in
    (pk_top s', pk_bot s', e) :: run_calls_nocache n rk (pk_top s') (pk_bot s') t
  end.

(* over every history of calls on the same outlets and package: the cache never changes a result *)
Lemma run_calls_cache_independent n rk s calls :
  cache_ok rk (pk_cache s) ->
  run_calls n rk s calls = run_calls_nocache n rk (pk_top s) (pk_bot s) calls.
Proof.
  revert s; induction calls as [|[ins split] t IH]; intros s H; simpl; [reflexivity|].
  destruct (mix_pk_cache_independent n rk s ins split H) as [V C].
  destruct (mix_and_split_pk n rk s ins split) as [s1 e1] eqn:E1.
  destruct (mix_and_split_pk n rk (mkPK (pk_top s) (pk_bot s) []) ins split) as [s2 e2] eqn:E2.
  unfold pk_view in V. simpl in V, C. inversion V as [[T B Ee]]. subst e2.
  rewrite (IH s1 C). rewrite T, B. reflexivity.
Qed.

(* ---- what a cache-free lookup gives: the receiver's position of the same chemical *)
Lemma find_pos_spec pk g j : find_pos pk g = Some j -> (j < length pk)%nat /\ nth j pk 0%nat = g.
Proof.
  revert j; induction pk as [|h t IH]; intros j H; simpl in H; [discriminate|].
  destruct (Nat.eqb_spec h g) as [->|N].
  - inversion H; subst. simpl. split; [lia|reflexivity].
  - destruct (find_pos t g) as [j'|] eqn:F; [|discriminate]. inversion H; subst.
    destruct (IH j' eq_refl) as [A B]. simpl. split; [lia|exact B].
Qed.

Lemma left_indices_spec rk key li : left_indices rk key = Ok li ->
  length li = length key /\
  forall k, (k < length key)%nat -> (nth k li 0%nat < length rk)%nat /\ nth (nth k li 0%nat) rk 0%nat = nth k key 0%nat.
Proof.
  revert li; induction key as [|g t IH]; intros li H; simpl in H.
  - inversion H; subst. split; [reflexivity|]. intros k Hk; simpl in Hk; lia.
  - destruct (find_pos rk g) as [j|] eqn:F; [|discriminate].
    destruct (left_indices rk t) as [r|e] eqn:L; simpl in H; [|discriminate]. inversion H; subst.
    destruct (IH r eq_refl) as [A B]. destruct (find_pos_spec rk g j F) as [J1 J2].
    split; [simpl; lia|]. intros [|k] Hk; simpl in *; [split; assumption|apply B; lia].
Qed.

Lemma left_indices_NoDup rk key li : left_indices rk key = Ok li -> NoDup key -> NoDup li.
Proof.
  revert li; induction key as [|g t IH]; intros li H ND; simpl in H.
  - inversion H; constructor.
  - destruct (find_pos rk g) as [j|] eqn:F; [|discriminate].
    destruct (left_indices rk t) as [r|e] eqn:L; simpl in H; [|discriminate]. inversion H; subst.
    inversion ND as [|? ? NI ND']; subst. constructor; [|apply IH; auto].
    intros Hin. apply NI.
    destruct (left_indices_spec rk t r L) as [LEN SP].
    apply In_nth with (d := 0%nat) in Hin. destruct Hin as (k & Hk & Ek).
    rewrite LEN in Hk. destruct (SP k Hk) as [_ S2]. rewrite Ek in S2.
    destruct (find_pos_spec rk g j F) as [_ J2]. rewrite J2 in S2. rewrite S2. apply nth_In. exact Hk.
Qed.

(* ---- data[left_index] += values *)
Lemma add_at_length v idx vals : length (add_at v idx vals) = length v.
Proof.
  revert v vals; induction idx as [|i idx IH]; intros v [|x vals]; simpl; auto. rewrite IH. apply upd_length.
Qed.

Lemma add_at_other v idx vals j : ~ In j idx -> nthq (add_at v idx vals) j = nthq v j.
Proof.
  revert v vals; induction idx as [|i idx IH]; intros v [|x vals] H; simpl; auto.
  rewrite IH by (intros E; apply H; right; exact E).
  apply nthq_upd_other. intros E; apply H; left; exact E.
Qed.

Lemma add_at_nth v idx vals k :
  NoDup idx -> length vals = length idx -> (forall i, In i idx -> (i < length v)%nat) -> (k < length idx)%nat ->
  nthq (add_at v idx vals) (nth k idx 0%nat) == nthq v (nth k idx 0%nat) + nthq vals k.
Proof.
  revert v vals k; induction idx as [|i idx IH]; intros v [|x vals] k ND L B Hk; simpl in *; try lia.
  inversion ND as [|? ? Hni ND']; subst.
  destruct k as [|k].
  - rewrite add_at_other by exact Hni. rewrite nthq_upd_same_lt by (apply B; left; reflexivity).
    rewrite nthq_cons0. lra.
  - rewrite nthq_consS. rewrite IH; auto; try lia.
    + rewrite nthq_upd_other; [lra|]. intros E. apply Hni. rewrite E. apply nth_In. lia.
    + intros j Hj. rewrite upd_length. apply B; right; exact Hj.
Qed.

(* moving the flows of an inlet of another package: flow k of the insertion order lands on the receiver's position of
   the SAME chemical, every other position of the receiver is untouched *)
Lemma foreign_transfer_lemma rk pk acc flows order li :
  left_indices rk (map (fun k => nth k pk 0%nat) order) = Ok li ->
  NoDup (map (fun k => nth k pk 0%nat) order) -> length acc = length rk ->
  let acc' := add_at acc li (gather flows order) in
  (forall k, (k < length order)%nat ->
     nth (nth k li 0%nat) rk 0%nat = nth (nth k order 0%nat) pk 0%nat /\
     nthq acc' (nth k li 0%nat) == nthq acc (nth k li 0%nat) + nthq flows (nth k order 0%nat)) /\
  (forall j, ~ In j li -> nthq acc' j = nthq acc j) /\ length acc' = length acc.
Proof.
  intros L ND LA acc'.
  destruct (left_indices_spec _ _ _ L) as [LEN SP]. rewrite map_length in LEN, SP.
  pose proof (left_indices_NoDup _ _ _ L ND) as NDl.
  split; [|split; [intros j Hj; apply add_at_other; exact Hj|apply add_at_length]].
  intros k Hk. destruct (SP k Hk) as [S1 S2]. split.
  - rewrite S2. rewrite nth_indep with (d' := nth 0 pk 0%nat) by (rewrite map_length; exact Hk).
    change (nth 0 pk 0%nat) with ((fun k0 => nth k0 pk 0%nat) 0%nat). rewrite map_nth. reflexivity.
  - unfold acc'. rewrite add_at_nth; auto.
    + rewrite nthq_gather by exact Hk. reflexivity.
    + rewrite gather_length; lia.
    + intros i Hi. apply In_nth with (d := 0%nat) in Hi. destruct Hi as (k' & Hk' & <-).
      rewrite LA. apply SP. lia.
    + lia.
Qed.
