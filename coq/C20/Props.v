From V Require Import Common.NumFacts C20.Model C20.Proofs.
