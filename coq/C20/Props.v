(* C20 — property theorems only.  Each is closed by [exact <lemma>] and followed by Print Assumptions.
   Vectors have one entry per chemical and any length; [colsum ins i] is the sum over the inlets of
   chemical i; [nonneg v] / [bounded feed v] mean 0 <= v_i (<= feed_i) for every i. *)
From V Require Import Common.NumFacts C20.Model C20.Proofs C20.ProofsDeep C20.ProofsRound2 C20.ProofsRound3.
Open Scope Q_scope.

(* ------------------------------------------------------------------ mix_and_split *)
(* top + bottom = sum of all inlets, chemical by chemical, whatever the outlets held before *)
Theorem C20_mix_split_conserves : forall n ins split,
  (forall v, In v ins -> length v = n) -> length split = n ->
  forall i, nthq (fst (mix_and_split n ins split)) i + nthq (snd (mix_and_split n ins split)) i == colsum ins i.
Proof. exact mix_split_conserves_lemma. Qed.
Print Assumptions C20_mix_split_conserves.

(* the top outlet receives split_i of the mixed flow of chemical i *)
Theorem C20_mix_split_value : forall n ins split,
  (forall v, In v ins -> length v = n) -> length split = n ->
  forall i, nthq (fst (mix_and_split n ins split)) i == nthq split i * colsum ins i.
Proof. exact mix_split_value_lemma. Qed.
Print Assumptions C20_mix_split_value.

Theorem C20_mix_split_nonneg : forall n ins split,
  (forall v, In v ins -> length v = n) -> length split = n ->
  (forall v, In v ins -> forall j, 0 <= nthq v j) -> (forall j, 0 <= nthq split j <= 1) ->
  forall i, 0 <= nthq (fst (mix_and_split n ins split)) i /\ 0 <= nthq (snd (mix_and_split n ins split)) i.
Proof. exact mix_split_nonneg_lemma. Qed.
Print Assumptions C20_mix_split_nonneg.

(* bottom outlet defined on ANOTHER property package (pos_i = Some j: chemical i of the feed's package is chemical j of
   the outlet's): per chemical top + bottom = inlets; what the outlet held before is gone (every other entry is 0,
   also when the outlet receives nothing); a share that has no place in the outlet's package is an error, not a loss *)
Theorem C20_mix_split_other_package : forall n ins split m pos,
  (forall v, In v ins -> length v = n) -> length split = n -> length pos = n -> pos_inj pos ->
  (forall k j, nth_error pos k = Some (Some j) -> (j < m)%nat) ->
  let o := mix_and_split_other n ins split m pos in
  o_err o = None ->
  (forall i, nthq (o_top o) i == nthq split i * colsum ins i) /\
  (forall i j, nth_error pos i = Some (Some j) -> nthq (o_top o) i + nthq (o_bot o) j == colsum ins i) /\
  (forall i, nth_error pos i = Some None -> nthq (o_top o) i == colsum ins i) /\
  (forall j, (forall k, nth_error pos k <> Some (Some j)) -> nthq (o_bot o) j == 0) /\
  length (o_bot o) = m.
Proof. exact mix_split_other_lemma. Qed.
Print Assumptions C20_mix_split_other_package.

(* MultiStream top outlet; inlets in any of the phases L, g, l, s (codes 0..3), on any property package: summed over all
   phases, top + bottom = sum of ALL inlets per chemical and the top holds split * mixed -- whether an inlet's phase is
   owned by the top, is the other-case twin of an owned phase, or is new; previous outlet contents are gone *)
Theorem C20_mix_split_multi_conserves : forall n present inl split,
  (forall i, In i inl -> (fst i < 4)%nat /\ length (snd i) = n) -> length split = n ->
  let x := mix_and_split_multi n present inl split in
  forall j, colsum (x_top x) j + colsum (x_bot x) j == colsum (map snd inl) j /\
            colsum (x_top x) j == nthq split j * colsum (map snd inl) j.
Proof. exact mix_split_multi_lemma. Qed.
Print Assumptions C20_mix_split_multi_conserves.

(* the phase set of the receiver only grows and every inlet phase has a row: its own or its other-case twin *)
Theorem C20_mix_phases_grow : forall present inl p,
  (p < 4)%nat -> length present = 4%nat ->
  (nthb present p = true -> nthb (grow_phases present inl) p = true) /\
  (forall v, In (p, v) inl -> nthb (grow_phases present inl) (row_of (grow_phases present inl) p) = true).
Proof. exact grow_phases_lemma. Qed.
Print Assumptions C20_mix_phases_grow.

(* ---- inlets of another property package: index_overlap and the receiver's index cache (state kept between inlets
   and between calls; keys are the chemicals of the non-zero flows IN THE ORDER they were entered) *)
(* invariant: every cached entry equals a fresh computation; lookups preserve it, evictions too *)
Theorem C20_index_cache_invariant : forall rk c key,
  cache_ok rk c ->
  fst (index_overlap rk c key) = left_indices rk key /\ cache_ok rk (snd (index_overlap rk c key)).
Proof. exact index_overlap_ok. Qed.
Print Assumptions C20_index_cache_invariant.
Theorem C20_index_cache_eviction_safe : forall rk c c', incl c' c -> cache_ok rk c -> cache_ok rk c'.
Proof. exact cache_ok_incl. Qed.
Print Assumptions C20_index_cache_eviction_safe.

(* over EVERY history of mix_and_split calls on the same outlets and package (any inlets, packages, entry orders):
   the results are those of the same history with the cache wiped before every call *)
Theorem C20_mix_history_cache_independent : forall n rk s calls,
  cache_ok rk (pk_cache s) ->
  run_calls n rk s calls = run_calls_nocache n rk (pk_top s) (pk_bot s) calls.
Proof. exact run_calls_cache_independent. Qed.
Print Assumptions C20_mix_history_cache_independent.

(* what a (cache-free) transfer does: flow k of the inlet's entry order lands on the receiver's position of the same
   chemical, all other positions of the receiver keep their value *)
Theorem C20_foreign_transfer : forall rk pk acc flows order li,
  left_indices rk (map (fun k => nth k pk 0%nat) order) = Ok li ->
  NoDup (map (fun k => nth k pk 0%nat) order) -> length acc = length rk ->
  let acc' := add_at acc li (gather flows order) in
  (forall k, (k < length order)%nat ->
     nth (nth k li 0%nat) rk 0%nat = nth (nth k order 0%nat) pk 0%nat /\
     nthq acc' (nth k li 0%nat) == nthq acc (nth k li 0%nat) + nthq flows (nth k order 0%nat)) /\
  (forall j, ~ In j li -> nthq acc' j = nthq acc j) /\ length acc' = length acc.
Proof. exact foreign_transfer_lemma. Qed.
Print Assumptions C20_foreign_transfer.

(* ------------------------------------------------------------------ handle_infeasible_flow_rates *)
(* a normal return leaves every entry in [0, maxmol] *)
Theorem C20_clip_range : forall mol maxmol strict,
  (forall j, 0 <= nthq maxmol j) ->
  c_err (handle_infeasible mol maxmol strict) = None ->
  forall k, 0 <= nthq (c_arr (handle_infeasible mol maxmol strict)) k <= nthq maxmol k.
Proof. exact clip_range_lemma. Qed.
Print Assumptions C20_clip_range.

(* strict mode returns normally only if nothing had to be changed: no silent clipping *)
Theorem C20_clip_strict_reports : forall mol maxmol,
  length mol = length maxmol ->
  c_err (handle_infeasible mol maxmol true) = None ->
  c_arr (handle_infeasible mol maxmol true) = mol /\ forall k, 0 <= nthq mol k <= nthq maxmol k.
Proof. exact clip_strict_reports_lemma. Qed.
Print Assumptions C20_clip_strict_reports.

(* a raise is InfeasibleRegion, only in strict mode, and only for an infeasible array *)
Theorem C20_clip_raise_sound : forall mol maxmol strict e,
  c_err (handle_infeasible mol maxmol strict) = Some e ->
  e = EInfeasible /\ strict = true /\
  ((exists k, nthq mol k < 0) \/ (exists k, nthq maxmol k < nthq (map clip1 mol) k)).
Proof. exact clip_raise_sound_lemma. Qed.
Print Assumptions C20_clip_raise_sound.

(* a feasible array is returned untouched, without warning *)
Theorem C20_clip_feasible_id : forall mol maxmol strict,
  length mol = length maxmol -> (forall k, 0 <= nthq mol k <= nthq maxmol k) ->
  handle_infeasible mol maxmol strict = mkClip mol None 0.
Proof. exact clip_feasible_id_lemma. Qed.
Print Assumptions C20_clip_feasible_id.

(* ------------------------------------------------------------------ adjust_moisture_content *)
(* retentate + permeate is unchanged for every chemical and every outcome (normal return, clamp with
   strict = False, InfeasibleRegion), for Stream and MultiStream arguments, also when the two streams are on
   packages of different size (n, n') that give the moisture chemical the same index *)
Theorem C20_moisture_conserves : forall n n' mws R P w mc by_mass mwc strict,
  wf_strm n R -> wf_strm n' P -> (w < n)%nat -> (w < n')%nat ->
  (by_mass = true -> ~ nthq mws w == 0) ->
  let m := adjust_moisture mws R P w mc by_mass mwc strict in
  forall i, nthq (total (m_ret m)) i + nthq (total (m_perm m)) i == nthq (total R) i + nthq (total P) i.
Proof. exact moisture_conserves_lemma. Qed.
Print Assumptions C20_moisture_conserves.

(* only the liquid-row flow of the moisture chemical changes *)
Theorem C20_moisture_frame : forall mws R P w mc by_mass mwc strict,
  let m := adjust_moisture mws R P w mc by_mass mwc strict in
  oth (m_ret m) = oth R /\ oth (m_perm m) = oth P /\
  forall i, i <> w -> nthq (liq (m_ret m)) i = nthq (liq R) i /\ nthq (liq (m_perm m)) i = nthq (liq P) i.
Proof. exact moisture_frame_lemma. Qed.
Print Assumptions C20_moisture_frame.

(* with enough water in the permeate the call returns normally and the retentate reaches the requested
   moisture fraction: water mass = mc * total mass  (mw: the molecular weight the branch uses; the ID=None
   branch hard-codes 18.01528, so the chemical's own MW must agree with it) *)
Theorem C20_moisture_reached : forall n n' mws R P w mc (by_mass : bool) mwc strict,
  wf_strm n R -> wf_strm n' P -> length mws = n -> (w < n)%nat -> (w < n')%nat ->
  ~ 1 - mc == 0 ->
  let mw := if by_mass then nthq mws w else mwc in
  0 < mw -> nthq mws w == mw ->
  let target := water_target mws R w mc mw in
  target - nthq (total R) w <= nthq (liq P) w ->
  let m := adjust_moisture mws R P w mc by_mass mwc strict in
  m_err m = None /\
  nthq (total (m_ret m)) w == target /\
  nthq (total (m_ret m)) w * mw == mc * fmass mws (m_ret m).
Proof. exact moisture_reached_lemma. Qed.
Print Assumptions C20_moisture_reached.

(* no negative flow after a normal return (including the strict = False clamp) *)
Theorem C20_moisture_nonneg : forall n n' mws R P w mc (by_mass : bool) mwc strict,
  wf_strm n R -> wf_strm n' P -> length mws = n -> (w < n)%nat -> (w < n')%nat ->
  0 <= mc < 1 ->
  let mw := if by_mass then nthq mws w else mwc in
  0 < mw -> nthq mws w == mw ->
  (forall i, 0 <= nthq (liq R) i) -> (forall i, 0 <= nthq (oth R) i) -> nthq (oth R) w == 0 ->
  (forall i, 0 <= nthq (liq P) i) -> (forall i, 0 <= nthq mws i) ->
  let m := adjust_moisture mws R P w mc by_mass mwc strict in
  m_err m = None ->
  forall i, 0 <= nthq (liq (m_ret m)) i /\ 0 <= nthq (liq (m_perm m)) i.
Proof. exact moisture_nonneg_lemma. Qed.
Print Assumptions C20_moisture_nonneg.

(* mix_and_split_with_moisture_content: outlets add up to the inlets *)
Theorem C20_mix_moisture_conserves : forall n mws ins split w mc by_mass mwc strict,
  (forall v, In v ins -> length v = n) -> length split = n -> (w < n)%nat ->
  (by_mass = true -> ~ nthq mws w == 0) ->
  let m := mix_and_split_with_moisture n mws ins split w mc by_mass mwc strict in
  forall i, nthq (total (m_ret m)) i + nthq (total (m_perm m)) i == colsum ins i.
Proof. exact mix_moisture_conserves_lemma. Qed.
Print Assumptions C20_mix_moisture_conserves.

(* ... also with the permeate on a package that appends chemicals to the retentate's (reused outlets included) *)
Theorem C20_mix_moisture_other_package_conserves : forall n mws ins split m pos w mc by_mass mwc strict,
  (forall v, In v ins -> length v = n) -> length split = n -> length pos = n -> (n <= m)%nat ->
  (forall i, (i < n)%nat -> nth_error pos i = Some (Some i)) -> (w < n)%nat ->
  (by_mass = true -> ~ nthq mws w == 0) ->
  let r := mix_and_split_with_moisture_other n mws ins split m pos w mc by_mass mwc strict in
  m_err r <> Some EKey ->
  forall i, nthq (total (m_ret r)) i + nthq (total (m_perm r)) i == colsum ins i.
Proof. exact mix_moisture_other_conserves_lemma. Qed.
Print Assumptions C20_mix_moisture_other_package_conserves.

(* ------------------------------------------------------------------ partition *)
(* top + bottom = feed on every normal return, for every solver output, K, forced chemicals and
   previous content of the outlets; the returned fraction is in [0, 1] *)
Theorem C20_partition_conserves : forall pf feed top0 bot0 ids K topc botc strict phi,
  length feed = length bot0 ->
  let r := partition pf feed top0 bot0 ids K topc botc strict in
  p_phi r = Ok phi ->
  forall i, nthq (p_top r) i + nthq (p_bot r) i == nthq feed i.
Proof. exact partition_conserves_lemma. Qed.
Print Assumptions C20_partition_conserves.

Theorem C20_partition_phi_range : forall pf feed top0 bot0 ids K topc botc strict phi,
  let r := partition pf feed top0 bot0 ids K topc botc strict in
  p_phi r = Ok phi ->
  p_top r = vsub feed (p_bot r) /\ length (p_bot r) = length bot0 /\ 0 <= phi <= 1.
Proof. exact partition_ok_shape. Qed.
Print Assumptions C20_partition_phi_range.

(* no negative flow on a normal return: any K (also malformed), any solver output; the bottom may hold stale
   flows as long as they do not exceed the feed (fresh outlets: all zero) *)
Theorem C20_partition_nonneg : forall pf feed top0 bot0 ids K topc botc strict phi,
  length feed = length bot0 -> nonneg feed -> bounded feed bot0 ->
  let r := partition pf feed top0 bot0 ids K topc botc strict in
  p_phi r = Ok phi ->
  forall i, 0 <= nthq (p_top r) i /\ 0 <= nthq (p_bot r) i <= nthq feed i.
Proof. exact partition_nonneg_lemma. Qed.
Print Assumptions C20_partition_nonneg.

(* stronger: stale flows of the equilibrium and forced chemicals in the outlets (left by an earlier call) are
   harmless because every normal return overwrites them -- in all three branches phi <= 0, 0 < phi < 1, phi >= 1;
   only chemicals partition never writes must not exceed the feed in the bottom outlet *)
Theorem C20_partition_nonneg_stale : forall pf feed top0 bot0 ids K topc botc strict phi,
  length feed = length bot0 -> length top0 = length bot0 -> nonneg feed ->
  length K = length ids ->
  (forall i, In i ids \/ In i topc \/ In i botc -> (i < length bot0)%nat) ->
  (forall i, ~ In i ids -> ~ In i topc -> ~ In i botc -> 0 <= nthq bot0 i <= nthq feed i) ->
  let r := partition pf feed top0 bot0 ids K topc botc strict in
  p_phi r = Ok phi ->
  forall i, 0 <= nthq (p_top r) i /\ 0 <= nthq (p_bot r) i <= nthq feed i.
Proof. exact partition_nonneg_stale_lemma. Qed.
Print Assumptions C20_partition_nonneg_stale.

(* 0 < phi < 1, K >= 0: nothing is clipped and (1 - phi) top_k = phi K_k bottom_k for every equilibrium chemical *)
Theorem C20_partition_K_cross : forall pf feed top0 bot0 ids K topc botc strict phi,
  length feed = length bot0 -> nonneg feed ->
  NoDup ids -> (forall i, In i ids -> (i < length bot0)%nat) ->
  length K = length ids -> (forall k, 0 <= nthq K k) ->
  let r := partition pf feed top0 bot0 ids K topc botc strict in
  p_phi r = Ok phi -> 0 < phi < 1 ->
  p_warns r = 0%nat /\
  forall k, (k < length ids)%nat ->
    (1 - phi) * nthq (p_top r) (nth k ids 0%nat) == phi * nthq K k * nthq (p_bot r) (nth k ids 0%nat).
Proof. exact partition_K_cross_lemma. Qed.
Print Assumptions C20_partition_K_cross.

(* y_k / x_k = K_k * c with mole fractions over the equilibrium chemicals (what partition_coefficients computes)
   and the common factor c = phi B / ((1 - phi) T) *)
Theorem C20_partition_K : forall pf feed top0 bot0 ids K topc botc strict phi,
  length feed = length bot0 -> nonneg feed ->
  NoDup ids -> (forall i, In i ids -> (i < length bot0)%nat) ->
  length K = length ids -> (forall k, 0 <= nthq K k) ->
  let r := partition pf feed top0 bot0 ids K topc botc strict in
  p_phi r = Ok phi -> 0 < phi < 1 ->
  let T := qsum (gather (p_top r) ids) in
  let B := qsum (gather (p_bot r) ids) in
  ~ T == 0 -> ~ B == 0 ->
  forall k, (k < length ids)%nat -> ~ nthq (p_bot r) (nth k ids 0%nat) == 0 ->
    (nthq (p_top r) (nth k ids 0%nat) / T) / (nthq (p_bot r) (nth k ids 0%nat) / B)
    == nthq K k * (phi * B / ((1 - phi) * T)).
Proof. exact partition_K_lemma. Qed.
Print Assumptions C20_partition_K.

(* if the solver returned a root of the Rachford-Rice residual (the function it is given in
   binary_phase_fraction.py), the phase totals over equilibrium + forced chemicals are phi F and (1 - phi) F and
   the mole fractions over those chemicals reproduce K exactly; the factor c above is then
   phi ((1 - phi) F - Fb) / ((1 - phi) (phi F - Fa)), i.e. 1 without forced chemicals *)
Theorem C20_partition_K_root : forall pf feed top0 bot0 ids K topc botc strict phi,
  length feed = length bot0 -> nonneg feed ->
  NoDup ids -> (forall i, In i ids -> (i < length bot0)%nat) ->
  length K = length ids -> (forall k, 0 <= nthq K k) ->
  let r := partition pf feed top0 bot0 ids K topc botc strict in
  p_phi r = Ok phi -> 0 < phi < 1 ->
  let Fa := forced_sum feed topc in
  let Fb := forced_sum feed botc in
  let F := qsum (gather feed ids) + (Fa + Fb) in
  rr_objective phi (vdivs (gather feed ids) F) K (Fa / F) (Fb / F) == 0 ->
  let T := qsum (gather (p_top r) ids) + Fa in
  let B := qsum (gather (p_bot r) ids) + Fb in
  T == phi * F /\ B == (1 - phi) * F /\
  forall k, (k < length ids)%nat -> ~ nthq (p_bot r) (nth k ids 0%nat) == 0 ->
    (nthq (p_top r) (nth k ids 0%nat) / T) / (nthq (p_bot r) (nth k ids 0%nat) / B) == nthq K k.
Proof. exact partition_K_exact_lemma. Qed.
Print Assumptions C20_partition_K_root.

(* forced chemicals end in their outlet; chemicals outside IDs and the forced sets: the bottom keeps what it had,
   the top gets the rest of the feed *)
Theorem C20_partition_forced : forall pf feed top0 bot0 ids K topc botc strict phi,
  length feed = length bot0 -> length top0 = length bot0 ->
  let r := partition pf feed top0 bot0 ids K topc botc strict in
  p_phi r = Ok phi ->
  (forall j, In j botc -> ~ In j ids -> (j < length bot0)%nat ->
     nthq (p_bot r) j == nthq feed j /\ nthq (p_top r) j == 0) /\
  (forall j, In j topc -> ~ In j botc -> ~ In j ids -> (j < length bot0)%nat ->
     nthq (p_bot r) j == 0 /\ nthq (p_top r) j == nthq feed j) /\
  (forall j, ~ In j topc -> ~ In j botc -> ~ In j ids ->
     nthq (p_bot r) j == nthq bot0 j /\ nthq (p_top r) j == nthq feed j - nthq bot0 j).
Proof. exact partition_forced_lemma. Qed.
Print Assumptions C20_partition_forced.

(* separations.phase_fraction returns the phase fraction (or error) partition returns *)
Theorem C20_phase_fraction_agrees : forall pf feed top0 bot0 ids K topc botc strict,
  fst (phase_fraction pf feed ids K topc botc strict) = p_phi (partition pf feed top0 bot0 ids K topc botc strict)
  /\ snd (phase_fraction pf feed ids K topc botc strict) = p_warns (partition pf feed top0 bot0 ids K topc botc strict).
Proof. exact phase_fraction_agrees_lemma. Qed.
Print Assumptions C20_phase_fraction_agrees.

(* ---- the in-repository part of solve_phase_fraction_Rashford_Rice (the numeric root finder is the oracle [root]) *)
(* it returns 0, 1 or what the root finder returned *)
Theorem C20_rr_solve_cases : forall root zs Ks za zb,
  rr_solve root zs Ks za zb = 0 \/ rr_solve root zs Ks za zb = 1 \/ rr_solve root zs Ks za zb = root.
Proof. exact rr_solve_cases. Qed.
Print Assumptions C20_rr_solve_cases.

(* the root finder decides whenever no exit on the range of K applies and the residual does not have the same strict
   sign at both ends of the bracket *)
Theorem C20_rr_solve_bracket : forall root zs Ks za zb,
  (all_le Ks one_plus && qzerob za)%bool = false ->
  (all_ge Ks one_minus && qzerob zb)%bool = false ->
  let y0 := rr_objective (if qzerob za then 0 else x_lo) zs Ks za zb in
  let y1 := rr_objective (if qzerob zb then 1 else x_hi) zs Ks za zb in
  (y0 <= 0 <= y1 \/ y1 <= 0 <= y0) ->
  rr_solve root zs Ks za zb = root.
Proof. exact rr_solve_bracket_lemma. Qed.
Print Assumptions C20_rr_solve_bracket.

(* a chemical forced to the bottom switches off the exit "every K >= 1 => phi = 1", one forced to the top the exit
   "every K <= 1 => phi = 0" *)
Theorem C20_forced_bottom_disables_exit : forall Ks zb,
  ~ zb == 0 -> (all_ge Ks one_minus && qzerob zb)%bool = false.
Proof. exact forced_bottom_disables_exit. Qed.
Print Assumptions C20_forced_bottom_disables_exit.
Theorem C20_forced_top_disables_exit : forall Ks za,
  ~ za == 0 -> (all_le Ks one_plus && qzerob za)%bool = false.
Proof. exact forced_top_disables_exit. Qed.
Print Assumptions C20_forced_top_disables_exit.

(* and the exits are right where they fire: every K <= 1 and nothing forced to the top: the residual is >= 0 on (0,1)
   (no top phase); every K >= 1 and nothing forced to the bottom: <= 0 (no bottom phase) *)
Theorem C20_rr_exit0_sound : forall phi zs Ks za zb,
  length zs = length Ks -> 0 < phi < 1 ->
  Forall (fun z => 0 <= z) zs -> Forall (fun k => 0 <= k <= 1) Ks -> za == 0 -> 0 <= zb ->
  0 <= rr_objective phi zs Ks za zb.
Proof. exact rr_exit0_sound_lemma. Qed.
Print Assumptions C20_rr_exit0_sound.
Theorem C20_rr_exit1_sound : forall phi zs Ks za zb,
  length zs = length Ks -> 0 < phi < 1 ->
  Forall (fun z => 0 <= z) zs -> Forall (fun k => 1 <= k) Ks -> zb == 0 -> 0 <= za ->
  rr_objective phi zs Ks za zb <= 0.
Proof. exact rr_exit1_sound_lemma. Qed.
Print Assumptions C20_rr_exit1_sound.

(* partition driven by the repository's own wrapper around a root finder with the contract "an interior value it
   returns is a root of the residual": an interior phase fraction is a root for exactly the arguments partition
   passes, i.e. the hypothesis of C20_partition_K_root holds (Rachford-Rice path: more than two equilibrium
   chemicals or a forced chemical with flow) *)
Theorem C20_partition_real_root : forall rootf,
  (forall zs Ks za zb, 0 < rootf zs Ks za zb < 1 -> rr_objective (rootf zs Ks za zb) zs Ks za zb == 0) ->
  forall feed top0 bot0 ids K topc botc strict phi,
  let r := partition (pf_real rootf) feed top0 bot0 ids K topc botc strict in
  p_phi r = Ok phi -> 0 < phi < 1 ->
  let Fa := forced_sum feed topc in
  let Fb := forced_sum feed botc in
  let F := qsum (gather feed ids) + (Fa + Fb) in
  ((2 < length ids)%nat \/ ~ Fa == 0 \/ ~ Fb == 0) ->
  rr_objective phi (vdivs (gather feed ids) F) K (Fa / F) (Fb / F) == 0.
Proof. exact partition_real_root_lemma. Qed.
Print Assumptions C20_partition_real_root.

(* closed form for two components is the root of the residual; as_valid_fraction clamps into [0, 1] *)
Theorem C20_rr2_root : forall z1 z2 K1 K2,
  ~ (z1 + z2) * (K1 - 1) * (K2 - 1) == 0 ->
  let phi := compute_phase_fraction_2N z1 z2 K1 K2 in
  ~ 1 + phi * (K1 - 1) == 0 -> ~ 1 + phi * (K2 - 1) == 0 ->
  rr_objective phi [z1; z2] [K1; K2] 0 0 == 0.
Proof. exact rr2_root_lemma. Qed.
Print Assumptions C20_rr2_root.

Theorem C20_valid_fraction_range : forall x, 0 <= as_valid_fraction x <= 1.
Proof. exact as_valid_fraction_range. Qed.
Print Assumptions C20_valid_fraction_range.

(* ------------------------------------------------------------------ lle / vle wrappers *)
(* for EVERY output (rowL, rowl) of the equilibrium call and every efficiency:
   top' + bottom' = eff (rowL + rowl) + (1 - eff) feed   (eff < 1),   rowL + rowl   (eff >= 1) *)
Theorem C20_eff_mix : forall rho eq extra feed top0 bot0 topchem eff rowL rowl,
  eq feed = (rowL, rowl) -> length rowL = length feed -> length rowl = length feed ->
  let r := lle_wrap rho eq extra feed top0 bot0 topchem eff in
  e_err r = None ->
  forall i, nthq (e_top r) i + nthq (e_bot r) i ==
            if qltb eff 1 then eff * (nthq rowL i + nthq rowl i) + (1 - eff) * nthq feed i
            else nthq rowL i + nthq rowl i.
Proof. exact eff_mix_lemma. Qed.
Print Assumptions C20_eff_mix.

(* contract rowL + rowl = feed  =>  top' + bottom' = feed for every efficiency, density function, top_chemical *)
Theorem C20_lle_conserves : forall rho eq extra feed top0 bot0 topchem eff rowL rowl,
  eq feed = (rowL, rowl) -> length rowL = length feed -> length rowl = length feed ->
  (forall i, nthq rowL i + nthq rowl i == nthq feed i) ->
  let r := lle_wrap rho eq extra feed top0 bot0 topchem eff in
  e_err r = None ->
  forall i, nthq (e_top r) i + nthq (e_bot r) i == nthq feed i.
Proof. exact lle_conserves_lemma. Qed.
Print Assumptions C20_lle_conserves.

Theorem C20_lle_nonneg : forall rho eq extra feed top0 bot0 topchem eff rowL rowl,
  eq feed = (rowL, rowl) -> length rowL = length feed -> length rowl = length feed ->
  (forall i, 0 <= nthq rowL i) -> (forall i, 0 <= nthq rowl i) -> (forall i, 0 <= nthq feed i) ->
  0 <= eff ->
  let r := lle_wrap rho eq extra feed top0 bot0 topchem eff in
  e_err r = None ->
  forall i, 0 <= nthq (e_top r) i /\ 0 <= nthq (e_bot r) i.
Proof. exact lle_nonneg_lemma. Qed.
Print Assumptions C20_lle_nonneg.

(* without mixing the two outlets are exactly the two phases *)
Theorem C20_lle_routes : forall rho eq extra feed top0 bot0 topchem eff rowL rowl,
  eq feed = (rowL, rowl) -> 1 <= eff ->
  let r := lle_wrap rho eq extra feed top0 bot0 topchem eff in
  e_err r = None ->
  (e_top r = rowL /\ e_bot r = rowl) \/ (e_top r = rowl /\ e_bot r = rowL).
Proof. exact lle_routes_lemma. Qed.
Print Assumptions C20_lle_routes.

(* vle: the vapour outlet is the g row and the liquid outlet the l row of the flash *)
Theorem C20_vle_routes : forall eq feed rowg rowl,
  eq feed = (rowg, rowl) -> vle_wrap eq feed = (rowg, rowl).
Proof. exact vle_routes_lemma. Qed.
Print Assumptions C20_vle_routes.

(* ---- state kept between calls: a caller-owned multi_stream that is reused *)
(* whatever the multi_stream held before the call (ms0), the wrappers behave as with an empty one *)
Theorem C20_lle_multi_stream_history_independent : forall rho eqr extra (ms0 ms0' : list vec) k feed top0 bot0 topchem eff,
  length ms0 = length ms0' ->
  lle_ms rho eqr extra ms0 k feed top0 bot0 topchem eff = lle_ms rho eqr extra ms0' k feed top0 bot0 topchem eff.
Proof. exact lle_ms_history_independent. Qed.
Print Assumptions C20_lle_multi_stream_history_independent.
Theorem C20_vle_multi_stream_history_independent : forall eqr (ms0 ms0' : list vec) k feed,
  length ms0 = length ms0' -> vle_ms eqr ms0 k feed = vle_ms eqr ms0' k feed.
Proof. exact vle_ms_history_independent. Qed.
Print Assumptions C20_vle_multi_stream_history_independent.

(* the equilibrium call is handed exactly the feed: the rows it sees add up to the feed *)
Theorem C20_multi_stream_holds_feed : forall ms0 k feed i, (k < length ms0)%nat ->
  colsum (ms_after_copy ms0 k feed) i == nthq feed i.
Proof. exact ms_after_copy_total. Qed.
Print Assumptions C20_multi_stream_holds_feed.

(* hence with ANY equilibrium call that conserves the material it is given, the outlets add up to the feed, for every
   previous content of the multi_stream, efficiency, density function and top_chemical *)
Theorem C20_lle_multi_stream_conserves : forall rho eqr extra ms0 k feed top0 bot0 topchem eff,
  eq_conserves (length feed) eqr -> (k < length ms0)%nat ->
  let r := lle_ms rho eqr extra ms0 k feed top0 bot0 topchem eff in
  e_err r = None ->
  forall i, nthq (e_top r) i + nthq (e_bot r) i == nthq feed i.
Proof. exact lle_ms_conserves_lemma. Qed.
Print Assumptions C20_lle_multi_stream_conserves.
Theorem C20_vle_multi_stream_conserves : forall eqr ms0 k feed,
  eq_conserves (length feed) eqr -> (k < length ms0)%nat ->
  forall i, nthq (fst (vle_ms eqr ms0 k feed)) i + nthq (snd (vle_ms eqr ms0 k feed)) i == nthq feed i.
Proof. exact vle_ms_conserves_lemma. Qed.
Print Assumptions C20_vle_multi_stream_conserves.
(* the contract is satisfiable: the harness' relative stub is such a call *)
Theorem C20_eq_rel_conserves : forall n s, length s = n -> eq_conserves n (eq_rel n s).
Proof. exact eq_rel_conserves. Qed.
Print Assumptions C20_eq_rel_conserves.

(* ------------------------------------------------------------------ phase_split *)
(* each phase goes to its own outlet, unchanged (hence the outlets add up to the feed); a wrong number of
   outlets is a RuntimeError *)
Theorem C20_phase_split_routes : forall rows outs0 outs,
  phase_split rows outs0 = Ok outs -> outs = rows /\ length outs0 = length rows.
Proof. exact phase_split_routes_lemma. Qed.
Print Assumptions C20_phase_split_routes.

Theorem C20_phase_split_error : forall rows outs0 e,
  phase_split rows outs0 = Err e -> e = ERuntime /\ length outs0 <> length rows.
Proof. exact phase_split_err_lemma. Qed.
Print Assumptions C20_phase_split_error.

(* over histories of the feed object (per-phase views fetched and cached, earlier splits, flows rewritten through
   feed.imol, phase set changed): every cached view points at the current indexer (invariant views_ok), so each outlet
   receives the CURRENT flows of its phase, and the outlets are exactly the rows feed.imol shows *)
Theorem C20_views_current_after_any_history : forall n present rows ops s,
  mrun n (minit present rows) ops = Ok s -> views_ok s /\ forall p, view_read s p = nthv (ms_rows s) p.
Proof.
  intros n present rows ops s R.
  pose proof (mrun_views_ok n _ ops s (views_ok_init present rows) R) as V.
  split; [exact V|]. intros p. apply view_read_current. exact V.
Qed.
Print Assumptions C20_views_current_after_any_history.

Theorem C20_phase_split_after_history : forall n present rows ops outs0 outs current,
  phase_split_hist n present rows ops outs0 = Ok (outs, current) ->
  outs = current /\ exists s, mrun n (minit present rows) ops = Ok s /\
     current = map (nthv (ms_rows s)) (present_phases s) /\ length outs0 = length (present_phases s).
Proof. exact phase_split_hist_lemma. Qed.
Print Assumptions C20_phase_split_after_history.

(* ------------------------------------------------------------------ chemical_splits *)
(* split * mixed = first stream wherever mixed is not zero, under both division rules *)
Theorem C20_chemical_splits_value : forall heur a b mixed s m,
  chemical_splits heur a b mixed = Ok s -> mixed_of a b mixed = Some m -> length a = length m ->
  forall i, ~ nthq m i == 0 -> nthq s i * nthq m i == nthq a i.
Proof. exact chemical_splits_value_lemma. Qed.
Print Assumptions C20_chemical_splits_value.

Theorem C20_chemical_splits_zero : forall heur a b mixed s,
  chemical_splits heur a b mixed = Ok s -> forall i, nthq a i == 0 -> nthq s i == 0.
Proof. exact chemical_splits_zero_lemma. Qed.
Print Assumptions C20_chemical_splits_zero.

(* ------------------------------------------------------------------ material_balance (flow) *)
(* solver contract A x = b  =>  every variable inlet is scaled by its factor and
   inlets - outlets vanishes for each chosen chemical *)
Theorem C20_balance_flow : forall solve n ids vin cin cout bal x vin',
  (forall v, In v cout -> length v = n) ->
  material_balance solve n ids vin cin cout bal = Ok vin' ->
  solve (mb_matrix ids vin) (mb_rhs n ids cin cout) = Ok x ->
  length x = length vin ->
  (forall k, nthq (matvec (mb_matrix ids vin) x) k == nthq (mb_rhs n ids cin cout) k) ->
  vin' = scale_zip x vin /\
  forall k, (k < length ids)%nat ->
    colsum vin' (nth k ids 0%nat) + colsum cin (nth k ids 0%nat) - colsum cout (nth k ids 0%nat) == 0.
Proof. exact balance_flow_lemma. Qed.
Print Assumptions C20_balance_flow.

(* ------------------------------------------------------------------ non-vacuity *)
Ltac qc := vm_compute; repeat split; try reflexivity; try discriminate; try (let H := fresh in intro H; discriminate H).

(* partition, interior phase fraction with a forced top and a forced bottom chemical *)
Definition ex_feed : vec := [4; 2; 1; 1; 3].
Definition ex_part := partition (fun _ _ _ _ => 1 # 2) ex_feed [0; 0; 0; 0; 0] [0; 0; 0; 0; 0] [0; 1]%nat [2; 1 # 2] [2]%nat [3]%nat true.
Example C20_ex_partition :
  p_phi ex_part = Ok (1 # 2) /\ p_warns ex_part = 0%nat /\
  vapproxb (p_top ex_part) [8 # 3; 2 # 3; 1; 0; 3] = true /\ vapproxb (p_bot ex_part) [4 # 3; 4 # 3; 0; 1; 0] = true /\
  NoDup [0; 1]%nat /\ nonneg ex_feed /\ bounded ex_feed [0; 0; 0; 0; 0].
Proof.
  split; [reflexivity|]. split; [reflexivity|]. split; [reflexivity|]. split; [reflexivity|].
  split; [repeat constructor; simpl; intuition lia|].
  split; intros i; do 6 (destruct i as [|i]; [qc|]); qc.
Qed.

(* stale bottom from an earlier call and phi >= 1: everything goes to the top, nothing is negative *)
Example C20_ex_partition_stale :
  let r := partition (fun _ _ _ _ => 1) [4; 2; 1] [7; 7; 7] [1; 4; 0] [0; 1]%nat [2; 1 # 2] [] [] false in
  p_phi r = Ok 1 /\ vapproxb (p_top r) [4; 2; 1] = true /\ vapproxb (p_bot r) [0; 0; 0] = true.
Proof. qc. Qed.

(* a Rachford-Rice root with forced chemicals: one equilibrium chemical with K = 1, Fa = Fb = 1, phi = 1/2 *)
Example C20_ex_root_forced :
  let feed := [2; 1; 1] in
  let Fa := forced_sum feed [1]%nat in let Fb := forced_sum feed [2]%nat in
  let F := qsum (gather feed [0]%nat) + (Fa + Fb) in
  rr_objective (1 # 2) (vdivs (gather feed [0]%nat) F) [1] (Fa / F) (Fb / F) == 0 /\
  p_phi (partition (fun _ _ _ _ => 1 # 2) feed [0; 0; 0] [0; 0; 0] [0]%nat [1] [1]%nat [2]%nat false) = Ok (1 # 2).
Proof. qc. Qed.

(* ... and without: equimolar binary feed, K = (2, 1/2), phi = 1/2 is the root and is what the closed form gives *)
Example C20_ex_root_binary :
  rr_objective (1 # 2) [1 # 2; 1 # 2] [2; 1 # 2] 0 0 == 0 /\
  compute_phase_fraction_2N (1 # 2) (1 # 2) 2 (1 # 2) == 1 # 2 /\
  binary_phase_fraction_2 (1 # 2) (1 # 2) 2 (1 # 2) = Ok (compute_phase_fraction_2N (1 # 2) (1 # 2) 2 (1 # 2)).
Proof. qc. Qed.

(* every K > 1 with a chemical forced to the bottom: the wrapper must not take the "phi = 1" exit; the residual is
   negative at 0 and positive at the upper end, so the root finder decides (here its value 1/3 is handed through) *)
Example C20_ex_forced_bottom_all_K_above_one :
  let zs := [1 # 2; 1 # 4] in let Ks := [4; 2] in
  rr_solve (1 # 3) zs Ks 0 (1 # 4) = 1 # 3 /\
  (all_ge Ks one_minus && qzerob (1 # 4))%bool = false /\
  rr_objective 0 zs Ks 0 (1 # 4) <= 0 /\ 0 <= rr_objective x_hi zs Ks 0 (1 # 4) /\
  rr_solve (1 # 3) zs Ks 0 0 = 1.
Proof. qc. Qed.

(* reused bottom outlet on a reordered superset package that receives nothing: it ends up empty *)
Example C20_ex_other_package :
  let o := mix_and_split_other 3 [[0; 10; 2]] [1; 1; 1] 4 [Some 2; Some 0; Some 3]%nat in
  o_err o = None /\ vapproxb (o_top o) [0; 10; 2] = true /\ vapproxb (o_bot o) [0; 0; 0; 0] = true /\
  o_err (mix_and_split_other 3 [[0; 10; 2]] [1; 1; 1 # 2] 4 [Some 2; Some 0; None]%nat) = Some EKey /\
  vapproxb (o_bot (mix_and_split_other 3 [[0; 10; 2]] [1; 1 # 2; 1 # 2] 4 [Some 2; Some 0; Some 3]%nat)) [5; 0; 0; 1] = true /\
  pos_inj [Some 2; Some 0; Some 3]%nat.
Proof.
  qc. intros k1 k2 j A B.
  destruct k1 as [|[|[|k1]]]; destruct k2 as [|[|[|k2]]]; simpl in *; try congruence;
    try (destruct k1; discriminate); try (destruct k2; discriminate).
Qed.

(* ('g','l') MultiStream top, an 'l' inlet and an 'L' inlet: the 'L' flows land in the 'l' row, nothing is lost *)
Example C20_ex_mix_split_multi :
  xsplit_eqb (mix_and_split_multi 2 [false; true; true; false] [(2%nat, [1; 2]); (0%nat, [0; 4])] [1 # 2; 1 # 2])
             [false; true; true; false] [[0; 0]; [0; 0]; [1 # 2; 3]; [0; 0]] [[0; 0]; [0; 0]; [1 # 2; 3]; [0; 0]] = true.
Proof. reflexivity. Qed.

(* two calls; receiver package [0;1;2], inlet package [2;0;1] (chemical 2 first).  The first inlet enters chemical 0 then
   chemical 1, the second chemical 1 then chemical 0: same set, other order; each flow reaches its own chemical *)
Example C20_ex_foreign_orders :
  list_eqb call_eqb
    (run_calls 3 [0; 1; 2]%nat (mkPK [0; 0; 0] [0; 0; 0] [])
       [([mkFI (Some [2; 0; 1]%nat) [0; 5; 7] [1; 2]%nat], [1; 1; 1]);
        ([mkFI (Some [2; 0; 1]%nat) [0; 11; 13] [2; 1]%nat], [1; 1 # 2; 1])])
    [([5; 7; 0], [0; 0; 0], None); ([11; 13 # 2; 0], [0; 13 # 2; 0], None)] = true.
Proof. reflexivity. Qed.

(* clipping: negative K makes a bottom flow negative; strict raises, non-strict clips with a warning *)
Example C20_ex_partition_infeasible :
  p_phi (partition (fun _ _ _ _ => 1 # 2) [4; 2] [0; 0] [0; 0] [0; 1]%nat [-4; 1 # 2] [] [] true) = Err EInfeasible /\
  let r := partition (fun _ _ _ _ => 1 # 2) [4; 2] [0; 0] [0; 0] [0; 1]%nat [-4; 1 # 2] [] [] false in
  p_phi r = Ok (1 # 2) /\ p_warns r = 1%nat /\ nthq (p_bot r) 0 == 0 /\ nthq (p_top r) 0 == 4.
Proof. qc. Qed.

Example C20_ex_clip :
  handle_infeasible [-1; 1 # 2; 3] [1; 1; 1] false = mkClip [0; 1 # 2; 1] None 2 /\
  c_err (handle_infeasible [-1; 1 # 2; 3] [1; 1; 1] true) = Some EInfeasible /\
  c_err (handle_infeasible [0; 1 # 2; 1] [1; 1; 1] true) = None.
Proof. qc. Qed.

(* moisture: enough water (target reached), and too little water with strict = False (clamp) and strict = None (raise) *)
Definition ex_mws : vec := [16; 8].
Example C20_ex_moisture_reached :
  let R := mkS [0; 2] [0; 0] in let P := mkS [8; 1] [0; 0] in
  let m := adjust_moisture ex_mws R P 0 (1 # 2) true 16 None in
  wf_strm 2 R /\ wf_strm 2 P /\ water_target ex_mws R 0 (1 # 2) 16 - nthq (total R) 0 <= nthq (liq P) 0 /\
  m_err m = None /\ nthq (liq (m_ret m)) 0 == 1 /\ nthq (liq (m_perm m)) 0 == 7.
Proof. qc. Qed.

Example C20_ex_moisture_clamp :
  let R := mkS [1 # 2; 2] [1 # 4; 0] in let P := mkS [1 # 8; 1] [0; 0] in
  let m := adjust_moisture ex_mws R P 0 (3 # 4) true 16 (Some false) in
  m_err m = None /\ nthq (liq (m_perm m)) 0 == 0 /\ nthq (liq (m_ret m)) 0 == 5 # 8 /\
  m_err (adjust_moisture ex_mws R P 0 (3 # 4) true 16 None) = Some EInfeasible.
Proof. qc. Qed.

Example C20_ex_mix_split :
  pair_approxb (mix_and_split 3 [[1; 2; 0]; [3; 0; 4]] [1 # 2; 1; 1 # 4]) [2; 2; 1] [2; 0; 3] = true.
Proof. reflexivity. Qed.

(* lle wrapper: non-conserving oracle output is passed on, conserving one is conserved for eff = 1/2 *)
Example C20_ex_lle :
  let rho := rho_stub [16; 32] [1 # 32; 1 # 64] in
  let r := lle_wrap rho (fun _ => ([1; 1], [1; 3])) 0 [2; 4] [0; 0] [9; 9] false (1 # 2) in
  e_err r = None /\ vapproxb (e_top r) [1; 3 # 2] = true /\ vapproxb (e_bot r) [1; 5 # 2] = true /\
  e_err (lle_wrap rho (fun _ => ([1; 1], [1; 3])) 1 [2; 4] [0; 0] [9; 9] false (1 # 2)) = Some EValue.
Proof. qc. Qed.

(* view of 'l' cached, phases 'gl' -> 'Lgl', new flows written to 'l': the split sees the new flows *)
Example C20_ex_phase_split_history :
  pairvl_approxb
    (phase_split_hist 2 [false; true; true; false] [[0; 0]; [1; 0]; [0; 2]; [0; 0]]
       [MView 2; MPhases [true; true; true; false]; MSet 2 [3; 1]] [[9; 9]; [9; 9]; [9; 9]])
    (Ok ([[0; 0]; [1; 0]; [3; 1]], [[0; 0]; [1; 0]; [3; 1]])) = true.
Proof. reflexivity. Qed.

(* reused multi_stream (it still holds [5;5] and [7;0]) with a conserving equilibrium: outlets add up to the feed *)
Example C20_ex_multi_stream_reused :
  let r := vle_ms (eq_rel 2 [1 # 2; 1 # 4]) [[5; 5]; [7; 0]] 1 [2; 4] in
  pair_approxb r [1; 1] [1; 3] = true /\ (1 < length [[5; 5]; [7; 0]])%nat.
Proof. split; [reflexivity|simpl; lia]. Qed.

Example C20_ex_phase_split :
  phase_split [[1; 0]; [0; 2]] [[5; 5]; [6; 6]] = Ok [[1; 0]; [0; 2]] /\
  phase_split [[1; 0]; [0; 2]] [[5; 5]] = Err ERuntime.
Proof. qc. Qed.

Example C20_ex_chemical_splits :
  resv_approxb (chemical_splits true [1; 0; 2] (Some [3; 1; 0]) None) (Ok [1 # 4; 0; 1]) = true /\
  resv_approxb (chemical_splits true [1; 0; 2] None (Some [0; 1; 2])) (Ok [0; 0; 1]) = true /\
  chemical_splits false [1; 0; 2] None (Some [0; 1; 2]) = Err EZeroDiv.
Proof. qc. Qed.

(* material balance: the doctest-like system, exact solution x = (12, 0) *)
Example C20_ex_balance :
  let solve := fun (_ : list vec) (_ : vec) => Ok [12; 0] in
  let vin := [[1; 1; 0]; [0; 1; 2]] in let cin := [[4; 0; 0]] in let cout := [[16; 8; 2]; [0; 4; 0]] in
  resvl_approxb (material_balance solve 3 [0; 1]%nat vin cin cout true) (Ok [[12; 12; 0]; [0; 0; 0]]) = true /\
  veqb (matvec (mb_matrix [0; 1]%nat vin) [12; 0]) (mb_rhs 3 [0; 1]%nat cin cout) = true.
Proof. qc. Qed.

(* ================================================================== deepening: other-package inlets end to end *)
(* [flow_of pk v g]: flow of the chemical with identity g in a vector laid out on package pk (0 if pk lacks it);
   [inlets_flow rk ins g]: sum over the inlets of their flow of g, each read on its own package;
   [wf_inlet]: own-package inlets have the receiver's length; an inlet of another package lists distinct positions of
   its package in its entry order, lists every non-zero flow, and every listed chemical is known to the receiver *)

(* one call, per chemical IDENTITY: top + bottom = sum of all inlets, for inlets on any packages (permutations, sub- and
   supersets), any entry orders and any valid cache content; the call does not fail and the top holds split * mixed *)
Theorem C20_mix_other_packages_conserves : forall n rk s ins split,
  NoDup rk -> length rk = n -> length split = n -> cache_ok rk (pk_cache s) ->
  Forall (wf_inlet n rk) ins ->
  let r := mix_and_split_pk n rk s ins split in
  snd r = None /\ cache_ok rk (pk_cache (fst r)) /\
  forall g, flow_of rk (pk_top (fst r)) g + flow_of rk (pk_bot (fst r)) g == inlets_flow rk ins g /\
            flow_of rk (pk_top (fst r)) g == flow_of rk split g * inlets_flow rk ins g.
Proof. exact mix_pk_conserves_lemma. Qed.
Print Assumptions C20_mix_other_packages_conserves.

(* the same over every history of calls on the same outlets: each call conserves every chemical of its own inlets *)
Theorem C20_mix_history_conserves : forall n rk s calls,
  NoDup rk -> length rk = n -> cache_ok rk (pk_cache s) ->
  Forall (fun c => Forall (wf_inlet n rk) (fst c) /\ length (snd c) = n) calls ->
  calls_conserve rk calls (run_calls n rk s calls).
Proof. exact run_calls_conserve_lemma. Qed.
Print Assumptions C20_mix_history_conserves.

(* the error branch: a non-empty inlet carries a chemical the receiver's package lacks -> UndefinedChemicalAlias, bottom
   untouched, top untouched unless it was the only non-empty inlet (then emptied), cache still valid *)
Theorem C20_mix_unknown_chemical_state : forall n rk s ins split,
  cache_ok rk (pk_cache s) -> has_unknown rk (filter finlet_nonempty ins) ->
  let r := mix_and_split_pk n rk s ins split in
  snd r = Some EKey /\ pk_bot (fst r) = pk_bot s /\
  pk_top (fst r) = (if Nat.eqb (length (filter finlet_nonempty ins)) 1 then vzero n else pk_top s) /\
  cache_ok rk (pk_cache (fst r)).
Proof. exact mix_pk_unknown_lemma. Qed.
Print Assumptions C20_mix_unknown_chemical_state.

(* histories mixing good and failing calls: every call either conserves all chemicals or reports the unknown chemical
   and leaves the documented state; a failure never spoils a later call *)
Theorem C20_mix_history_outcomes : forall n rk s calls,
  NoDup rk -> length rk = n -> cache_ok rk (pk_cache s) ->
  Forall (fun c => (Forall (wf_inlet n rk) (fst c) /\ length (snd c) = n) \/
                   has_unknown rk (filter finlet_nonempty (fst c))) calls ->
  calls_outcome n rk (pk_top s) (pk_bot s) calls (run_calls n rk s calls).
Proof. exact run_calls_outcome_lemma. Qed.
Print Assumptions C20_mix_history_outcomes.

(* non-negative inlets on any packages, splits in [0, 1]: no negative outlet flow *)
Theorem C20_mix_other_packages_nonneg : forall n rk s ins split,
  NoDup rk -> length rk = n -> length split = n -> cache_ok rk (pk_cache s) ->
  Forall (wf_inlet n rk) ins ->
  (forall i, In i ins -> forall k, 0 <= nthq (fi_flows i) k) -> (forall k, 0 <= nthq split k <= 1) ->
  let r := mix_and_split_pk n rk s ins split in
  forall j, (j < n)%nat -> 0 <= nthq (pk_top (fst r)) j /\ 0 <= nthq (pk_bot (fst r)) j.
Proof. exact mix_pk_nonneg_lemma. Qed.
Print Assumptions C20_mix_other_packages_nonneg.

(* ================================================================== deepening: partition with the repository's solver *)
(* all paths of binary_phase_fraction.phase_fraction (closed form for two chemicals without forced ones, Rachford-Rice
   wrapper otherwise), single contract "an interior value of the numeric root finder is a root": whenever both phases
   form, the phase totals are phi F and (1 - phi) F and the mole fractions over equilibrium + forced chemicals
   reproduce K exactly *)
Theorem C20_partition_real_K_exact : forall rootf,
  (forall zs Ks za zb, 0 < rootf zs Ks za zb < 1 -> rr_objective (rootf zs Ks za zb) zs Ks za zb == 0) ->
  forall feed top0 bot0 ids K topc botc strict phi,
  length feed = length bot0 -> nonneg feed ->
  NoDup ids -> (forall i, In i ids -> (i < length bot0)%nat) ->
  (2 <= length ids)%nat -> length K = length ids -> (forall k, 0 <= nthq K k) ->
  let r := partition (pf_real rootf) feed top0 bot0 ids K topc botc strict in
  p_phi r = Ok phi -> 0 < phi < 1 ->
  let Fa := forced_sum feed topc in
  let Fb := forced_sum feed botc in
  let F := qsum (gather feed ids) + (Fa + Fb) in
  let T := qsum (gather (p_top r) ids) + Fa in
  let B := qsum (gather (p_bot r) ids) + Fb in
  T == phi * F /\ B == (1 - phi) * F /\
  forall k, (k < length ids)%nat -> ~ nthq (p_bot r) (nth k ids 0%nat) == 0 ->
    (nthq (p_top r) (nth k ids 0%nat) / T) / (nthq (p_bot r) (nth k ids 0%nat) / B) == nthq K k.
Proof. exact partition_real_K_exact. Qed.
Print Assumptions C20_partition_real_K_exact.

(* ---- non-vacuity of the deepening theorems *)
(* receiver package [0;1;2]; one inlet on the package [2;0;1] entering chemical 1 then chemical 0, one own-package inlet *)
Definition exd_in1 := mkFI (Some [2; 0; 1]%nat) [0; 5; 7] [2; 1]%nat.
Definition exd_in2 := mkFI None [1; 0; 4] [].
Example C20_ex_mix_other_packages :
  Forall (wf_inlet 3 [0; 1; 2]%nat) [exd_in1; exd_in2] /\ NoDup [0; 1; 2]%nat /\ cache_ok [0; 1; 2]%nat [] /\
  inlets_flow [0; 1; 2]%nat [exd_in1; exd_in2] 0%nat == 6 /\ inlets_flow [0; 1; 2]%nat [exd_in1; exd_in2] 1%nat == 7 /\
  inlets_flow [0; 1; 2]%nat [exd_in1; exd_in2] 2%nat == 4 /\
  call_eqb (let r := mix_and_split_pk 3 [0; 1; 2]%nat (mkPK [9; 9; 9] [9; 9; 9] []) [exd_in1; exd_in2] [1 # 2; 1; 0] in
            (pk_top (fst r), pk_bot (fst r), snd r)) ([3; 7; 0], [3; 0; 4], None) = true.
Proof.
  assert (W1 : wf_inlet 3 [0; 1; 2]%nat exd_in1).
  { unfold wf_inlet, exd_in1; cbn [fi_pk fi_order fi_flows].
    split; [repeat constructor; simpl; intuition lia|].
    split; [repeat constructor; simpl; intuition lia|].
    split; [intros k [<-|[<-|[]]]; simpl; lia|].
    split.
    - intros k Hk NZ. destruct k as [|[|[|k]]]; simpl in *; try lia. exfalso; apply NZ; reflexivity.
    - intros k [<-|[<-|[]]]; simpl; discriminate. }
  assert (W2 : wf_inlet 3 [0; 1; 2]%nat exd_in2) by reflexivity.
  split; [exact (Forall_cons _ W1 (Forall_cons _ W2 (Forall_nil _)))|].
  split; [repeat constructor; simpl; intuition lia|]. split; [apply cache_ok_nil|].
  vm_compute. repeat split; reflexivity.
Qed.

(* a two-call history whose inlets are all well-formed (hypothesis of C20_mix_history_conserves) *)
Example C20_ex_mix_history_wf :
  Forall (fun c : list finlet * vec => Forall (wf_inlet 3 [0; 1; 2]%nat) (fst c) /\ length (snd c) = 3%nat)
         [([exd_in1], [1; 1; 1]); ([exd_in2; exd_in1], [1 # 2; 1; 0])].
Proof.
  destruct C20_ex_mix_other_packages as [W _].
  inversion W as [|? ? W1 W']; subst. inversion W' as [|? ? W2 _]; subst.
  apply Forall_cons; [split; [exact (Forall_cons _ W1 (Forall_nil _))|reflexivity]|].
  apply Forall_cons; [split; [exact (Forall_cons _ W2 (Forall_cons _ W1 (Forall_nil _)))|reflexivity]|].
  apply Forall_nil.
Qed.

(* a history: good call, call with a chemical (identity 7) the receiver lacks, good call again *)
Definition exd_bad := mkFI (Some [7; 0]%nat) [2; 3] [0; 1]%nat.
Example C20_ex_mix_history_outcomes :
  has_unknown [0; 1; 2]%nat (filter finlet_nonempty [exd_bad]) /\
  list_eqb call_eqb
    (run_calls 3 [0; 1; 2]%nat (mkPK [0; 0; 0] [0; 0; 0] [])
       [([exd_in1], [1; 1; 1]); ([exd_bad], [1; 1; 1]); ([exd_in2; exd_bad], [1; 1; 1]); ([exd_in2], [0; 0; 0])])
    [([5; 7; 0], [0; 0; 0], None); ([0; 0; 0], [0; 0; 0], Some EKey); ([0; 0; 0], [0; 0; 0], Some EKey);
     ([0; 0; 0], [1; 0; 4], None)] = true.
Proof.
  split; [|reflexivity].
  exists exd_bad. split; [left; reflexivity|]. exists [7; 0]%nat. split; [reflexivity|].
  exists 0%nat. split; [left; reflexivity|reflexivity].
Qed.

(* the solver's closed-form path: equimolar binary feed, K = (2, 1/2): partition returns 1/2 and K is reproduced *)
Example C20_ex_partition_real :
  let r := partition (pf_real (fun _ _ _ _ => -7)) [1; 1] [0; 0] [0; 0] [0; 1]%nat [2; 1 # 2] [] [] true in
  p_phi r = Ok (compute_phase_fraction_2N (1 # 2) (1 # 2) 2 (1 # 2)) /\
  compute_phase_fraction_2N (1 # 2) (1 # 2) 2 (1 # 2) == 1 # 2 /\
  (nthq (p_top r) 0 / (qsum (gather (p_top r) [0; 1]%nat) + 0)) / (nthq (p_bot r) 0 / (qsum (gather (p_bot r) [0; 1]%nat) + 0)) == 2.
Proof. vm_compute. repeat split; reflexivity. Qed.

(* ================================================================== deepening 2: an outlet IS the feed object *)
(* partition(feed, top = feed, bottom): feed_mol is a live reference, so the last statement top = feed_mol - bottom reads
   what the call itself wrote.  Per chemical on every normal return: top + bottom = feed, EXCEPT the chemicals forced to
   the bottom, for which top + bottom = 0 (bottom holds the flow, the top minus the flow) *)
Theorem C20_partition_top_is_feed : forall pf feed o0 ids K topc botc strict phi,
  length feed = length o0 ->
  let r := partition_alias pf false feed o0 ids K topc botc strict in
  p_phi r = Ok phi ->
  (forall i, ~ In i botc -> nthq (p_top r) i + nthq (p_bot r) i == nthq feed i) /\
  (forall i, In i botc -> (i < length feed)%nat -> nthq (p_top r) i + nthq (p_bot r) i == 0).
Proof. exact partition_top_is_feed_lemma. Qed.
Print Assumptions C20_partition_top_is_feed.

(* so the in-place call conserves every chemical exactly when the forced-bottom chemicals carry no flow ... *)
Theorem C20_partition_top_is_feed_conserves : forall pf feed o0 ids K topc botc strict phi,
  length feed = length o0 -> (forall i, In i botc -> nthq feed i == 0) ->
  let r := partition_alias pf false feed o0 ids K topc botc strict in
  p_phi r = Ok phi ->
  forall i, nthq (p_top r) i + nthq (p_bot r) i == nthq feed i.
Proof. exact partition_top_is_feed_conserves. Qed.
Print Assumptions C20_partition_top_is_feed_conserves.

(* ... and without forced-bottom chemicals it returns the same bottom, fraction and warnings as the call with a
   separate top outlet, with no negative flow *)
Theorem C20_partition_top_is_feed_same : forall pf feed o0 ids K topc strict,
  let ra := partition_alias pf false feed o0 ids K topc [] strict in
  let r := partition pf feed feed o0 ids K topc [] strict in
  p_bot ra = p_bot r /\ p_phi ra = p_phi r /\ p_warns ra = p_warns r.
Proof. exact partition_top_is_feed_same. Qed.
Print Assumptions C20_partition_top_is_feed_same.

Theorem C20_partition_top_is_feed_nonneg : forall pf feed o0 ids K topc strict phi,
  length feed = length o0 -> nonneg feed -> bounded feed o0 ->
  let r := partition_alias pf false feed o0 ids K topc [] strict in
  p_phi r = Ok phi ->
  forall i, 0 <= nthq (p_top r) i /\ 0 <= nthq (p_bot r) i <= nthq feed i.
Proof. exact partition_top_is_feed_nonneg. Qed.
Print Assumptions C20_partition_top_is_feed_nonneg.

(* partition(feed, top, bottom = feed): feed_mol and bottom.mol are one vector when top = feed_mol - bottom runs: the
   top outlet is EMPTY after every normal return *)
Theorem C20_partition_bottom_is_feed_empties_top : forall pf feed o0 ids K topc botc strict phi,
  length feed = length o0 ->
  let r := partition_alias pf true feed o0 ids K topc botc strict in
  p_phi r = Ok phi -> forall i, nthq (p_top r) i == 0.
Proof. exact partition_bottom_is_feed_lemma. Qed.
Print Assumptions C20_partition_bottom_is_feed_empties_top.

(* the full statement for in-place calls (conservation and no negative flow for valid inputs) and its refutation by the
   faithful model, for both kinds of aliasing *)
Definition C20_partition_outlet_is_feed_statement := partition_alias_conserves_statement.
Theorem C20_partition_top_is_feed_refuted : ~ C20_partition_outlet_is_feed_statement false.
Proof. exact partition_top_is_feed_refuted. Qed.
Print Assumptions C20_partition_top_is_feed_refuted.
Theorem C20_partition_bottom_is_feed_refuted : ~ C20_partition_outlet_is_feed_statement true.
Proof. exact partition_bottom_is_feed_refuted. Qed.
Print Assumptions C20_partition_bottom_is_feed_refuted.

(* lle with top or bottom = feed: the equilibrium runs on a copy; without mixing (efficiency >= 1) the result is that of
   the call with separate outlets, hence conserving under the contract of the equilibrium call *)
Theorem C20_lle_outlet_is_feed_same : forall rho eq extra b feed o0 top0 bot0 topchem eff,
  1 <= eff ->
  let ra := lle_wrap_alias rho eq extra b feed o0 topchem eff in
  let r := lle_wrap rho eq extra feed top0 bot0 topchem eff in
  e_err ra = e_err r /\ (e_err r = None -> e_top ra = e_top r /\ e_bot ra = e_bot r).
Proof. exact lle_alias_same. Qed.
Print Assumptions C20_lle_outlet_is_feed_same.

Theorem C20_lle_outlet_is_feed_conserves : forall rho eq extra b feed o0 topchem eff rowL rowl,
  eq feed = (rowL, rowl) -> length rowL = length feed -> length rowl = length feed ->
  (forall i, nthq rowL i + nthq rowl i == nthq feed i) -> 1 <= eff ->
  let r := lle_wrap_alias rho eq extra b feed o0 topchem eff in
  e_err r = None ->
  forall i, nthq (e_top r) i + nthq (e_bot r) i == nthq feed i.
Proof. exact lle_alias_conserves_lemma. Qed.
Print Assumptions C20_lle_outlet_is_feed_conserves.

(* with mixing, mixing = (1 - eff)/2 * feed.mol reads the outlet that was just scaled, not the feed *)
Theorem C20_lle_outlet_is_feed_mixing : forall rho eq extra b feed o0 topchem eff rowL rowl,
  eq feed = (rowL, rowl) -> length rowL = length feed -> length rowl = length feed -> eff < 1 ->
  let r := lle_wrap_alias rho eq extra b feed o0 topchem eff in
  e_err r = None ->
  exists row_alias, (row_alias = rowL \/ row_alias = rowl) /\
  forall i, nthq (e_top r) i + nthq (e_bot r) i ==
            eff * (nthq rowL i + nthq rowl i) + (1 - eff) * eff * nthq row_alias i.
Proof. exact lle_alias_mix_lemma. Qed.
Print Assumptions C20_lle_outlet_is_feed_mixing.

Definition C20_lle_outlet_is_feed_statement := lle_alias_conserves_statement.
Theorem C20_lle_outlet_is_feed_refuted : ~ C20_lle_outlet_is_feed_statement.
Proof. exact lle_alias_refuted. Qed.
Print Assumptions C20_lle_outlet_is_feed_refuted.

(* ================================================================== deepening 2: ONE equilibrium chemical *)
(* binary_phase_fraction.phase_fraction with a single chemical and no forced fractions returns 0 or 1 *)
Theorem C20_solver_single_chemical : forall rootf z K za zb, za == 0 -> zb == 0 ->
  pf_real rootf [z] [K] za zb = 0 \/ pf_real rootf [z] [K] za zb = 1.
Proof. exact pf_real_single. Qed.
Print Assumptions C20_solver_single_chemical.

(* so partition sends a lone equilibrium chemical to one outlet as a whole *)
Theorem C20_partition_real_single_not_interior : forall rootf feed top0 bot0 i K1 topc botc strict phi,
  forced_sum feed topc == 0 -> forced_sum feed botc == 0 ->
  let r := partition (pf_real rootf) feed top0 bot0 [i] [K1] topc botc strict in
  p_phi r = Ok phi -> ~ 0 < phi < 1.
Proof. exact partition_real_single_not_interior. Qed.
Print Assumptions C20_partition_real_single_not_interior.

(* C20_partition_real_K_exact for ANY number (>= 1) of equilibrium chemicals: with one chemical an interior fraction
   only arises through the Rachford-Rice path with a forced chemical *)
Theorem C20_partition_real_K_exact_any : forall rootf,
  (forall zs Ks za zb, 0 < rootf zs Ks za zb < 1 -> rr_objective (rootf zs Ks za zb) zs Ks za zb == 0) ->
  forall feed top0 bot0 ids K topc botc strict phi,
  length feed = length bot0 -> nonneg feed ->
  NoDup ids -> (forall i, In i ids -> (i < length bot0)%nat) ->
  (1 <= length ids)%nat -> length K = length ids -> (forall k, 0 <= nthq K k) ->
  let r := partition (pf_real rootf) feed top0 bot0 ids K topc botc strict in
  p_phi r = Ok phi -> 0 < phi < 1 ->
  let Fa := forced_sum feed topc in
  let Fb := forced_sum feed botc in
  let F := qsum (gather feed ids) + (Fa + Fb) in
  let T := qsum (gather (p_top r) ids) + Fa in
  let B := qsum (gather (p_bot r) ids) + Fb in
  T == phi * F /\ B == (1 - phi) * F /\
  forall k, (k < length ids)%nat -> ~ nthq (p_bot r) (nth k ids 0%nat) == 0 ->
    (nthq (p_top r) (nth k ids 0%nat) / T) / (nthq (p_bot r) (nth k ids 0%nat) / B) == nthq K k.
Proof. exact partition_real_K_exact_any. Qed.
Print Assumptions C20_partition_real_K_exact_any.

(* ================================================================== deepening 2: material_balance(composition) *)
(* the while loop (any number of passes, any answers of the linear solver that honour A x = b): the inlets are scaled by
   the last answer x (shifted by its most negative entry if it has one, so no factor is negative), whose change against
   the previous iterate xprev passed the 1e-6 test; and if x needed no shift then, per chosen chemical,
      inlet flow - (total inlet flow) * (outlet fraction)  =  (total(xprev) - total(x)) * (outlet fraction):
   the net inlet composition meets the outlet composition up to the last change of the total, exactly at a fixed point *)
Theorem C20_balance_composition : forall solve n ids vin cin cout fuel vin' bs,
  (forall v, In v cin -> length v = n) ->
  (forall kk b x, solve kk (mb_matrix ids vin) b = Ok x ->
     length x = length vin /\ forall k, nthq (matvec (mb_matrix ids vin) x) k == nthq b k) ->
  material_balance_comp solve n ids vin cin cout fuel = Ok (vin', bs) ->
  exists xprev x,
    vin' = scale_zip (shift_feasible x) vin /\
    conv_measure (shift_feasible x) xprev <= conv_tol /\
    (forall a, In a (shift_feasible x) -> 0 <= a) /\
    ((forall a, In a x -> 0 <= a) ->
     forall k, (k < length ids)%nat ->
       colsum vin' (nth k ids 0%nat) + colsum cin (nth k ids 0%nat)
         - (mix_total vin x + qsum (vsum n cin)) * nthq (comp_f n ids cout) k
       == (mix_total vin xprev - mix_total vin x) * nthq (comp_f n ids cout) k).
Proof. exact balance_composition_lemma. Qed.
Print Assumptions C20_balance_composition.

(* the quantities in it: f is the outlet's mole fraction of the chosen chemical, mix_total the molar flow of the scaled
   variable inlets *)
Theorem C20_balance_composition_fraction : forall n ids cout k,
  (forall v, In v cout -> length v = n) -> (k < length ids)%nat -> ~ qsum (vsum n cout) == 0 ->
  nthq (comp_f n ids cout) k == colsum cout (nth k ids 0%nat) / qsum (vsum n cout).
Proof. exact comp_f_fraction. Qed.
Print Assumptions C20_balance_composition_fraction.
Theorem C20_balance_composition_total : forall n vin x,
  (forall v, In v vin -> length v = n) -> length x = length vin ->
  mix_total vin x == qsum (vsum n (scale_zip x vin)).
Proof. exact mix_total_is_total. Qed.
Print Assumptions C20_balance_composition_total.

(* a normal return needs variable inlets, constant inlets (sum([]) = 0 cannot be indexed: TypeError) and outlets *)
Theorem C20_balance_composition_needs : forall solve n ids vin cin cout fuel vin' bs,
  material_balance_comp solve n ids vin cin cout fuel = Ok (vin', bs) ->
  length vin = length ids /\ cin <> [] /\ cout <> [].
Proof. intros. destruct (comp_result_lemma _ _ _ _ _ _ _ _ _ H) as (A & B & C & _). auto. Qed.
Print Assumptions C20_balance_composition_needs.

(* ---- non-vacuity of the deepening-2 theorems *)
(* in-place partition (top is the feed) with a forced top chemical: same flows as with a separate top *)
Example C20_ex_partition_top_is_feed :
  let r := partition_alias (fun _ _ _ _ => 1 # 2) false ex_feed [0; 0; 0; 0; 0] [0; 1]%nat [2; 1 # 2] [2]%nat [] true in
  p_phi r = Ok (1 # 2) /\ vapproxb (p_top r) [8 # 3; 2 # 3; 1; 1; 3] = true /\ vapproxb (p_bot r) [4 # 3; 4 # 3; 0; 0; 0] = true /\
  (* with the forced bottom chemical of C20_ex_partition the top ends with -1 of it *)
  vapproxb (p_top (partition_alias (fun _ _ _ _ => 1 # 2) false ex_feed [0; 0; 0; 0; 0] [0; 1]%nat [2; 1 # 2] [2]%nat [3]%nat true))
           [8 # 3; 2 # 3; 1; -1; 3] = true /\
  (* bottom is the feed: the top is emptied, the top share is gone *)
  pres_eqb (partition_alias (fun _ _ _ _ => 1 # 2) true ex_feed [0; 0; 0; 0; 0] [0; 1]%nat [2; 1 # 2] [] [] true)
           [0; 0; 0; 0; 0] [4 # 3; 4 # 3; 1; 1; 3] (Ok (1 # 2)) 0 = true.
Proof. vm_compute. repeat split; reflexivity. Qed.

Example C20_ex_lle_outlet_is_feed :
  let rho := rho_stub [16; 32] [1 # 32; 1 # 64] in
  eqres_eqb (lle_wrap_alias rho (fun _ => ([1; 1], [1; 3])) 0 false [2; 4] [9; 9] true 1) [1; 1] [1; 3] None = true /\
  eqres_eqb (lle_wrap_alias rho (fun _ => ([1; 1], [1; 3])) 0 false [2; 4] [9; 9] true (1 # 2)) [5 # 8; 5 # 8] [5 # 8; 13 # 8] None = true.
Proof. vm_compute. repeat split; reflexivity. Qed.

(* one equilibrium chemical with a forced top and a forced bottom chemical: the Rachford-Rice wrapper hands the root
   finder's value (1/2, a root) through; without forced chemicals the answer is 0 or 1 *)
Example C20_ex_single_chemical :
  let r := partition (pf_real (fun _ _ _ _ => 1 # 2)) [2; 1; 1] [0; 0; 0] [0; 0; 0] [0]%nat [1] [1]%nat [2]%nat false in
  p_phi r = Ok (1 # 2) /\ rr_objective (1 # 2) [1 # 2] [1] (1 # 4) (1 # 4) == 0 /\
  p_phi (partition (pf_real (fun _ _ _ _ => 1 # 2)) [2; 1; 1] [0; 0; 0] [0; 0; 0] [0]%nat [2] [] [] false) = Ok 0 /\
  p_phi (partition (pf_real (fun _ _ _ _ => 1 # 2)) [2; 1; 1] [0; 0; 0] [0; 0; 0] [0]%nat [1 # 2] [] [] false) = Ok 1.
Proof. vm_compute. repeat split; reflexivity. Qed.

(* composition balance, identity inlet matrix (the solver returns b): two passes, fixed point x = (0, 2); the net inlets
   (2, 2) have the outlet's composition (1/2, 1/2) *)
Example C20_ex_balance_composition :
  let solve := fun (_ : nat) (_ : list vec) (b : vec) => Ok b in
  let vin := [[1; 0]; [0; 1]] in let cin := [[2; 0]] in let cout := [[2; 2]] in
  comp_res_eqb (material_balance_comp solve 2 [0; 1]%nat vin cin cout 5) [[0; 0]; [0; 2]] [[0; 2]; [0; 2]] = true /\
  veqb (matvec (mb_matrix [0; 1]%nat vin) [0; 2]) (comp_b 2 [0; 1]%nat vin cin cout [0; 2]) = true /\
  comp_err_eqb (material_balance_comp solve 2 [0; 1]%nat vin [] cout 5) EType = true /\
  comp_err_eqb (material_balance_comp solve 2 [0; 1]%nat vin cin cout 1) ERuntime = true.
Proof. vm_compute. repeat split; reflexivity. Qed.

(* ------------------------------------------------------------------ round 6: state read through caches between calls *)
(* adjust_moisture_content after ANY history of imass reads, pass-through partners linked with the stream and unlink()
   calls on the retentate and on the permeate: the mass view the ID branch works through always wraps the stream's own
   flow vector, so the call is the plain adjust_moisture and every moisture theorem above holds after every history *)
Theorem C20_moisture_after_link_history : forall mws R P opsR opsP w mc by_mass mwc strict,
  adjust_moisture_hist mws R P opsR opsP w mc by_mass mwc strict = Some (adjust_moisture mws R P w mc by_mass mwc strict).
Proof. exact adjust_moisture_hist_is_adjust. Qed.
Print Assumptions C20_moisture_after_link_history.

Theorem C20_mix_moisture_after_link_history : forall n mws ins split opsR opsP w mc by_mass mwc strict,
  mix_and_split_with_moisture_hist n mws ins split opsR opsP w mc by_mass mwc strict
  = Some (mix_and_split_with_moisture n mws ins split w mc by_mass mwc strict).
Proof. exact mix_and_split_with_moisture_hist_is. Qed.
Print Assumptions C20_mix_moisture_after_link_history.

(* the invariant behind it, for every history: the cached mass view is a view of the stream's current flow vector *)
Theorem C20_mass_view_follows_unlink : forall ops, view_target (lrun linit ops) = ls_data (lrun linit ops).
Proof. intros ops. apply PeanoNat.Nat.eqb_eq. exact (lrun_view_ok ops linit linit_view_ok). Qed.
Print Assumptions C20_mass_view_follows_unlink.

(* separations.vle handed one multi_stream over ANY history of calls (feeds: Streams of any phase, MultiStreams of any
   phase set, so the holder's phase tuple grows and its rows are re-sorted), starting from ANY valid content of the
   class-level index caches: every call hands the flash the rows after copy_like and returns exactly the g row and the
   l row the flash wrote, never a row of another phase *)
Theorem C20_vle_reused_multi_stream : forall n present rows caches cs,
  length present = 4%nat -> nthb present 1 = true -> nthb present 2 = true -> caches_valid caches ->
  vhist_wf n (vinit present rows caches) cs ->
  vhist_spec n (vinit present rows caches) cs (vle_hist n (vinit present rows caches) cs).
Proof. intros. apply vle_hist_spec; auto. apply vinit_wf; auto. Qed.
Print Assumptions C20_vle_reused_multi_stream.

(* one call in any reachable state: under the flash contract (g + l = total) vapour + liquid = total *)
Theorem C20_vle_reused_multi_stream_conserves : forall n s c s' top bot seen total,
  vle_call n s c = (Ok (top, bot), seen, s') -> vs_wf s -> vcall_wf n s c ->
  (forall rows, let '(g, l) := vc_eq c rows in veq (vadd g l) total) ->
  veq (vadd top bot) total.
Proof. exact vle_call_conserves. Qed.
Print Assumptions C20_vle_reused_multi_stream_conserves.

(* the reachable states keep the invariant: the indexer points at the cache of its own phase tuple and every cached
   row number is the position the phase indexer computes *)
Theorem C20_vle_index_cache_valid : forall n s c,
  vs_wf s -> vcall_wf n s c -> exists s', snd (vle_call n s c) = s' /\ vs_wf s'.
Proof.
  intros n s c Hwf Hc. destruct (vle_call_spec n s c Hwf Hc) as (s' & E & Hwf'). exists s'. rewrite E. auto.
Qed.
Print Assumptions C20_vle_index_cache_valid.

(* non-vacuity: a holder ('g','l') whose cache already maps g -> row 0, l -> row 1; the second feed carries phase 'L'
   (empty) and 'l': the holder grows to ('L','g','l'), rows shift by one, the outlets are still the g and l rows *)
Example C20_ex_vle_reused_multi_stream :
  let caches := [([false; true; true; false], [(1%nat, 0%nat); (2%nat, 1%nat)])] in
  let cs := [mkVC (FStream 2 [20; 20]) (eq_rel 2%nat [1 # 2; 1 # 2]) false;
             mkVC (FMulti [true; false; true; false] [[0; 0]; [0; 0]; [30; 10]; [0; 0]]) (eq_rel 2%nat [1 # 2; 1 # 2]) false] in
  caches_valid caches /\ vhist_wf 2 (vinit [false; true; true; false] (zero_rows 2) caches) cs /\
  map fst (vle_hist 2 (vinit [false; true; true; false] (zero_rows 2) caches) cs)
  = [Ok ([20 # 2; 20 # 2], [20 # 2; 20 # 2]); Ok ([30 # 2; 10 # 2], [30 # 2; 10 # 2])].
Proof.
  cbv zeta. split; [|split].
  - intros key p r. cbn [caches_get].
    destruct (blist_eqb [false; true; true; false] key) eqn:E.
    + apply blist_eqb_eq in E. subst key. destruct p as [|[|[|p]]]; cbn; intros H; try discriminate H; injection H as H; subst r; reflexivity.
    + intros H. discriminate H.
  - cbn. repeat split; intros H; discriminate H.
  - vm_compute. reflexivity.
Qed.

Example C20_ex_moisture_after_link_history :
  view_okb (lrun linit [LMass; LLink; LUnlink; LMass]) = true /\
  ls_data (lrun linit [LMass; LLink; LUnlink; LMass]) = 1%nat.
Proof. vm_compute. split; reflexivity. Qed.
