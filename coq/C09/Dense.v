(* C09 — dense reference semantics: what NumPy computes on the dense images, with NumPy's broadcasting
   and error rules, under thermosteam's np.seterr(divide='raise', invalid='raise').
   Definitions only.  Arrays are [list Q] / [list bool]; a scalar operand is a length-1 array as far as
   broadcasting is concerned. *)
From V Require Export Common.Num C09.Model.

(* ------------------------------------------------------------------ abstraction *)
Inductive dobj :=
| DV (v : list Q) (ro : bool) | DL (b : bits)
| DA (m : list (list Q)) (ro : bool) | DB (m : list bits).
Definition absobj (o : obj) : dobj :=
  match o with
  | OV c ro => DV (dense c) ro
  | OL b => DL b
  | OA rows ro => DA (map dense rows) ro
  | OB rows => DB rows
  end.
Definition dstore := list dobj.
Definition abs_store (s : store) : dstore := map absobj s.

(* ------------------------------------------------------------------ elementwise operations with broadcasting *)
Definition aop_q (o : aop) (x y : Q) : res Q :=
  match o with
  | Add => Ok (x + y) | Sub => Ok (x - y) | Mul => Ok (x * y)
  | Div => qdiv x y                   (* x/0: divide -> FloatingPointError;  0/0: invalid -> FloatingPointError *)
  end.
(* binary ufunc on 1-d operands: shapes (n,)(n,) ; (1,)(n,) ; (n,)(1,) ; anything else ValueError.
   The shape test comes before any element is computed. *)
Definition np_bcast {A B C} (f : A -> B -> res C) (da : A) (db : B) (a : list A) (b : list B) : res (list C) :=
  if Nat.eqb (length a) (length b) then map2M f a b
  else if Nat.eqb (length a) 1 then mapM (f (hd da a)) b
  else if Nat.eqb (length b) 1 then mapM (fun x => f x (hd db b)) a
  else Err EValue.
(* in-place ufunc (out = first operand): the result must have the shape of the target *)
Definition np_ibcast {A B} (f : A -> B -> res A) (db : B) (a : list A) (b : list B) : res (list A) :=
  if Nat.eqb (length a) (length b) then map2M f a b
  else if Nat.eqb (length b) 1 then mapM (fun x => f x (hd db b)) a
  else Err EValue.                      (* non-broadcastable output operand *)

Definition np_arith (o : aop) (a b : list Q) : res (list Q) := np_bcast (aop_q o) 0 0 a b.
(* NumPy's true_divide with the single deviation the sparse classes make by design: 0/0 is 0 (not an error) *)
Definition qdiv0 (x y : Q) : res Q :=
  if qzerob y then (if qzerob x then Ok 0 else Err EZeroDiv) else Ok (x / y).
Definition np_div0 (a b : list Q) : res (list Q) := np_bcast qdiv0 0 0 a b.
Definition np_iarith (o : aop) (a b : list Q) : res (list Q) := np_ibcast (aop_q o) 0 a b.
Definition np_cmp (c : cmp) (a b : list Q) : res bits := np_bcast (fun x y => Ok (qcmp c x y)) 0 0 a b.
Definition lop_b (o : lop) (x y : bool) : res bool :=
  match o with
  | LAdd | LOr => Ok (x || y) | LMul | LAnd => Ok (x && y) | LXor => Ok (xorb x y)
  | LDiv => if y then Ok x else Err EZeroDiv
  end.
Definition np_logic (o : lop) (a b : bits) : res bits := np_bcast (lop_b o) false false a b.
Definition np_ilogic (o : lop) (a b : bits) : res bits := np_ibcast (lop_b o) false a b.
Definition np_bcmp (c : cmp) (a b : bits) : res bits := np_bcast (fun x y => Ok (bcmp c x y)) false false a b.

Definition np_neg (a : list Q) : list Q := map Qopp a.
Definition np_abs (a : list Q) : list Q := map Qabs a.

(* ------------------------------------------------------------------ reductions *)
Definition np_any (a : list Q) : bool := existsb truthy a.
Definition np_all (a : list Q) : bool := forallb truthy a.
Definition np_sum (a : list Q) : Q := qsum a.
Definition np_mean (a : list Q) : res Q := if len0 a then Err EZeroDiv else Ok (qsum a / qofnat (length a)).
Definition np_max (a : list Q) : res Q := match a with [] => Err EValue | x :: t => Ok (qmaxl x t) end.
Definition np_min (a : list Q) : res Q := match a with [] => Err EValue | x :: t => Ok (qminl x t) end.

(* reductions of a 2-d array along an axis: axis 0 reduces the columns, axis 1 the rows;
   keepdims keeps the reduced axis with length 1 *)
Definition np_red_num (r : red) (v : list Q) : res Q :=
  match r with
  | RSum => Ok (np_sum v) | RMean => np_mean v | RMax => np_max v | RMin => np_min v
  | _ => Err EOther
  end.
Definition np_red_bool (r : red) (v : list Q) : bool := match r with RAll => np_all v | _ => np_any v end.
Definition np_lines (m : list (list Q)) (axis : nat) : list (list Q) := match axis with O => columns 0 m | _ => m end.
Definition keep_shape {A} (axis : nat) (v : list A) : list (list A) := match axis with O => [v] | _ => map (fun x => [x]) v end.
Inductive dobj2 := D2V (v : list Q) | D2L (b : list bool) | D2A (m : list (list Q)) | D2B (m : list (list bool)).
Definition np_red2 (r : red) (m : list (list Q)) (axis : nat) (keep : bool) : res dobj2 :=
  match r with
  | RAny | RAll => let v := map (np_red_bool r) (np_lines m axis) in
                   Ok (if keep then D2B (keep_shape axis v) else D2L v)
  | _ => match mapM (np_red_num r) (np_lines m axis) with
         | Ok v => Ok (if keep then D2A (keep_shape axis v) else D2V v)
         | Err e => Err e
         end
  end.

(* ------------------------------------------------------------------ indexing (non-negative indices) *)
Definition np_get1 {A} (a : list A) (i : nat) : res A :=
  match nth_error a i with Some x => Ok x | None => Err EIndex end.
Definition np_index_list (n : nat) (ix : index) : res (list nat) :=
  match ix with
  | IInt k | ITup k => Ok [k]
  | IList l => Ok l
  | IMask m => if Nat.eqb (length m) n then Ok (mask_idx m) else Err EIndex
  | ISlice a b c => Ok (slice_range (Nat.min a n) (Nat.min b n) c)          (* slices clip *)
  | IOpen => Ok (seq 0 n)
  end.
Definition np_take {A} (a : list A) (idx : list nat) : res (list A) := mapM (np_get1 a) idx.
Fixpoint np_put {A} (a : list A) (idx : list nat) (vals : list A) : res (list A) :=
  match idx, vals with
  | i :: idx', v :: vals' => if Nat.ltb i (length a) then np_put (upd a i v) idx' vals' else Err EIndex
  | _, _ => Ok a
  end.
(* a[idx] = vals: vals has the length of idx or length 1 (broadcast); otherwise ValueError *)
Definition np_setitems {A} (a : list A) (idx : list nat) (vals : list A) : res (list A) :=
  if forallb (fun i => Nat.ltb i (length a)) idx then
    if Nat.eqb (length vals) (length idx) then np_put a idx vals
    else match vals with
         | [v] => np_put a idx (repeat v (length idx))
         | _ => Err EValue
         end
  else Err EIndex.

(* a[m, n] = q on a 2-d array, for the index combinations that address a block (m or n is an int or a slice):
   every selected row gets q at the selected columns *)
Definition np_setrow (v : list Q) (n : index) (q : Q) : res (list Q) :=
  match n with
  | IInt k | ITup k => if Nat.ltb k (length v) then Ok (upd v k q) else Err EIndex
  | _ => do idx <- np_index_list (length v) n; np_setitems v idx [q]
  end.
Fixpoint np_upd_rows (g : list Q -> res (list Q)) (M : list (list Q)) (sel : list nat) : res (list (list Q)) :=
  match sel with
  | [] => Ok M
  | i :: t => match nth_error M i with
              | None => Err EIndex
              | Some r => do r' <- g r; np_upd_rows g (upd M i r') t
              end
  end.
Definition np_set2_scalar (M : list (list Q)) (m n : index) (q : Q) : res (list (list Q)) :=
  do sel <- np_index_list (length M) m; np_upd_rows (fun r => np_setrow r n q) M sel.

(* ------------------------------------------------------------------ dense step for the float-vector fragment *)
Inductive doutcome :=
| DErr (e : err) | DNew (o : dobj) | DUpd (o : dobj) | DSelf
| DScal (q : Q) | DBool (b : bool) | DDense (l : list Q) | DDenseB (l : bits)
| DSkip.                    (* operation outside the fragment covered by the dense step *)

Definition dget (s : dstore) (i : nat) : res dobj :=
  match nth_error s i with Some o => Ok o | None => Err EOther end.
(* operand as a 1-d float array (a scalar is a length-1 array); None = outside the fragment *)
Definition darg (s : dstore) (a : arg) : option (list Q) :=
  match a with
  | AObj j => match nth_error s j with
              | Some (DV v _) => Some v
              | Some (DL b) => Some (map b2q b)
              | _ => None end
  | AScal q => Some [q]
  | ABool b => Some [b2q b]
  | AArr l => Some l
  | ABArr l => Some (map b2q l)
  | _ => None
  end.
Definition dres {A} (r : res A) (f : A -> doutcome) : doutcome := match r with Ok x => f x | Err e => DErr e end.
(* a 2-d array against a 1-d operand (a vector, a list, a scalar): NumPy aligns the trailing axis, i.e. row by row *)
Definition np_arith2 (o : aop) (m : list (list Q)) (w : list Q) : res (list (list Q)) := mapM (fun r => np_arith o r w) m.
Definition np_iarith2 (o : aop) (m : list (list Q)) (w : list Q) : res (list (list Q)) := mapM (fun r => np_iarith o r w) m.
(* 2-d with 2-d: same number of rows, or one of them has a single row that is broadcast *)
Definition np_bcast_rows {A B C} (f : A -> B -> res C) (da : A) (db : B) (m : list A) (m2 : list B) : res (list C) :=
  if Nat.eqb (length m) (length m2) then map2M f m m2
  else if Nat.eqb (length m) 1 then mapM (f (hd da m)) m2
  else if Nat.eqb (length m2) 1 then mapM (fun r => f r (hd db m2)) m
  else Err EValue.
Definition np_arith22 (o : aop) (m m2 : list (list Q)) : res (list (list Q)) := np_bcast_rows (np_arith o) [] [] m m2.
Definition np_iarith22 (o : aop) (m m2 : list (list Q)) : res (list (list Q)) :=
  if Nat.eqb (length m) (length m2) then map2M (np_iarith o) m m2
  else if Nat.eqb (length m2) 1 then mapM (fun r => np_iarith o r (hd [] m2)) m
  else Err EValue.
Definition darg2 (s : dstore) (a : arg) : option (list (list Q)) :=
  match a with
  | AObj j => match nth_error s j with Some (DA m _) => Some m | _ => None end
  | _ => None
  end.
(* logical operand of the fragment: a logical vector of the store *)
Definition dargb (s : dstore) (a : arg) : option bits :=
  match a with
  | AObj j => match nth_error s j with Some (DL b) => Some b | _ => None end
  | _ => None
  end.
(* + and * of boolean arrays are logical or / and; & ^ | as written *)
Definition lop_of_bop (b : bop) : option lop :=
  match b with
  | BL o => Some o
  | BA Add => Some LAdd
  | BA Mul => Some LMul
  | _ => None
  end.

Definition np_step (s : dstore) (o : xop) : dstore * doutcome :=
  let skip := (s, DSkip) in
  match o with
  | XOp (OBin (BA a) i x) =>
      match nth_error s i, darg s x with
      | Some (DV v _), Some w =>
          match np_arith a v w with
          | Ok r => (s ++ [DV r false], DNew (DV r false))
          | Err e => (s, DErr e) end
      | Some (DA m _), Some w =>
          match np_arith2 a m w with
          | Ok r => (s ++ [DA r false], DNew (DA r false))
          | Err e => (s, DErr e) end
      | Some (DA m _), None =>
          match darg2 s x with
          | Some m2 => match np_arith22 a m m2 with
                       | Ok r => (s ++ [DA r false], DNew (DA r false))
                       | Err e => (s, DErr e) end
          | None => skip end
      | Some (DL b), _ =>
          match lop_of_bop (BA a), dargb s x with
          | Some lo, Some w => match np_logic lo b w with
                               | Ok r => (s ++ [DL r], DNew (DL r))
                               | Err e => (s, DErr e) end
          | _, _ => skip end
      | _, _ => skip end
  | XOp (OBin (BL lo) i x) =>
      match nth_error s i, dargb s x with
      | Some (DL b), Some w => match np_logic lo b w with
                               | Ok r => (s ++ [DL r], DNew (DL r))
                               | Err e => (s, DErr e) end
      | _, _ => skip end
  | XOp (OBin (BC c) i x) =>
      match nth_error s i, darg s x with
      | Some (DV v _), Some w =>
          match np_cmp c v w with
          | Ok r => (s ++ [DL r], DNew (DL r))
          | Err e => (s, DErr e) end
      | _, _ => skip end
  | XOp (OIBin (BA a) i x) =>
      match nth_error s i, darg s x with
      | Some (DV v ro), Some w =>
          if ro then (s, DErr EValue)
          else match np_iarith a v w with
               | Ok r => (upd s i (DV r ro), DUpd (DV r ro))
               | Err e => (s, DErr e) end
      | Some (DA m ro), Some w =>
          if ro then (s, DErr EValue)
          else match np_iarith2 a m w with
               | Ok r => (upd s i (DA r ro), DUpd (DA r ro))
               | Err e => (s, DErr e) end
      | Some (DA m ro), None =>
          match darg2 s x with
          | Some m2 => if ro then (s, DErr EValue)
                       else match np_iarith22 a m m2 with
                            | Ok r => (upd s i (DA r ro), DUpd (DA r ro))
                            | Err e => (s, DErr e) end
          | None => skip end
      | Some (DL b), _ =>
          match lop_of_bop (BA a), dargb s x with
          | Some lo, Some w => match np_ilogic lo b w with
                               | Ok r => (upd s i (DL r), DUpd (DL r))
                               | Err e => (s, DErr e) end
          | _, _ => skip end
      | _, _ => skip end
  | XOp (OIBin (BL lo) i x) =>
      match nth_error s i, dargb s x with
      | Some (DL b), Some w => match np_ilogic lo b w with
                               | Ok r => (upd s i (DL r), DUpd (DL r))
                               | Err e => (s, DErr e) end
      | _, _ => skip end
  | XOp (ORBin a k i) =>
      match nth_error s i with
      | Some (DV v _) =>
          match np_arith a [k] v with
          | Ok r => (s ++ [DV r false], DNew (DV r false))
          | Err e => (s, DErr e) end
      | _ => skip end
  | XOp (OCopyLike i (CObj j)) =>                       (* np.copyto(a, b): b is broadcast to a; a must be writeable *)
      match nth_error s i, nth_error s j with
      | Some (DV v ro), Some (DV w _) =>
          if ro then (s, DErr EValue)
          else if Nat.eqb j i then (s, DUpd (DV v ro))
          else if Nat.eqb (length w) (length v) then (upd s i (DV w ro), DUpd (DV w ro))
          else if Nat.eqb (length w) 1 then (upd s i (DV (repeat (hd 0 w) (length v)) ro), DUpd (DV (repeat (hd 0 w) (length v)) ro))
          else (s, DErr EValue)
      | _, _ => skip end
  | XOp (OConv c i) =>                                  (* np.asarray(a) is a itself, np.array(a, copy=True) a copy *)
      match nth_error s i, c with
      | Some (DV v _), CIdent => (s, DSelf)
      | Some (DV v _), CCopy => (s ++ [DV v false], DNew (DV v false))
      | _, _ => skip end
  | XOp (OToFlat i _) =>                                 (* a.flatten(), whatever the buffer held *)
      match nth_error s i with
      | Some (DV v _) => (s, DDense v)
      | Some (DL b) => (s, DDenseB b)
      | Some (DA m _) => (s, DDense (concat m))
      | Some (DB m) => (s, DDenseB (concat m))
      | None => skip end
  | XOp (ONeg i) =>
      match nth_error s i with
      | Some (DV v _) => (s ++ [DV (np_neg v) false], DNew (DV (np_neg v) false))
      | _ => skip end
  | XOp (OAbs i) =>
      match nth_error s i with
      | Some (DV v _) => (s ++ [DV (np_abs v) false], DNew (DV (np_abs v) false))
      | _ => skip end
  | XOp (OCopy i) =>
      match nth_error s i with
      | Some (DV v _) => (s ++ [DV v false], DNew (DV v false))
      | _ => skip end
  | XOp (OClear i) =>                                    (* a[:] = 0 *)
      match nth_error s i with
      | Some (DV v ro) => if ro then (s, DErr EValue)
                          else (upd s i (DV (map (fun _ => 0) v) ro), DUpd (DV (map (fun _ => 0) v) ro))
      | _ => skip end
  | XOp (OSetRO i) =>
      match nth_error s i with
      | Some (DV v _) => (upd s i (DV v true), DUpd (DV v true))
      | _ => skip end
  | XOp (OToArray i) =>
      match nth_error s i with
      | Some (DV v _) => (s, DDense v)
      | _ => skip end
  | XOp (OGet i ix) =>
      match nth_error s i with
      | Some (DV v _) =>
          match ix with
          | IOpen => (s, DSelf)
          | IInt k | ITup k => (s, dres (np_get1 v k) DScal)
          | _ => (s, dres (do idx <- np_index_list (length v) ix; np_take v idx) DDense)
          end
      | _ => skip end
  | XOp (OSet i ix x) =>
      match nth_error s i, darg s x with
      | Some (DV v ro), Some w =>
          if ro then (s, DErr EValue)
          else match ix with
               | IInt k | ITup k =>
                   match w with
                   | [q] => match (if Nat.ltb k (length v) then Ok (upd v k q) else Err EIndex) with
                            | Ok r => (upd s i (DV r ro), DUpd (DV r ro))
                            | Err e => (s, DErr e) end
                   | _ => (s, DErr EValue)                 (* setting an array element with a sequence *)
                   end
               | _ => match (do idx <- np_index_list (length v) ix; np_setitems v idx w) with
                      | Ok r => (upd s i (DV r ro), DUpd (DV r ro))
                      | Err e => (s, DErr e) end
               end
      | _, _ => skip end
  | XOp (ORed r i axis keep) =>
      match nth_error s i with
      | Some (DV v _) =>
          match axis with
          | None | Some O =>
              let num (x : res Q) := match x with
                                     | Err e => (s, DErr e)
                                     | Ok q => if keep then (s ++ [DV [q] false], DNew (DV [q] false)) else (s, DScal q) end in
              let lg (x : bool) := if keep then (s ++ [DL [x]], DNew (DL [x])) else (s, DBool x) in
              match r with
              | RAny => lg (np_any v) | RAll => lg (np_all v)
              | RSum => num (Ok (np_sum v)) | RMean => num (np_mean v)
              | RMax => num (np_max v) | RMin => num (np_min v)
              end
          | _ => (s, DErr EValue)                            (* AxisError, a ValueError *)
          end
      | _ => skip end
  | _ => skip
  end.

(* NumPy's results along a sparse history: at every step the dense images of the current sparse objects *)
Fixpoint run_np (lg : bool) (s : store) (ops : list xop) : list doutcome :=
  match ops with
  | [] => []
  | o :: t => let d := snd (np_step (abs_store s) o) in
              let (s', r) := xstep lg s o in
              if crashed r then [d] else d :: run_np lg s' t
  end.

(* comparison with what NumPy returned in the harness *)
Definition dobj_eqb (a b : dobj) : bool :=
  match a, b with
  | DV x _, DV y _ => vapproxb x y
  | DL x, DL y => bits_eqb x y
  | DV x _, DL y | DL y, DV x _ => vapproxb x (map b2q y)
  | DA x _, DA y _ => list_eqb vapproxb x y
  | DB x, DB y => list_eqb bits_eqb x y
  | _, _ => false
  end.
Definition doutcome_eqb (a b : doutcome) : bool :=
  match a, b with
  | DSkip, _ | _, DSkip => true
  | DErr e, DErr f => err_eqb e f
  | DNew x, DNew y | DUpd x, DUpd y => dobj_eqb x y
  | DSelf, DSelf => true
  | DScal x, DScal y => qapproxb x y
  | DBool x, DBool y => Bool.eqb x y
  | DScal x, DBool y | DBool y, DScal x => qapproxb x (b2q y)
  | DDense x, DDense y => vapproxb x y
  | DDenseB x, DDenseB y => bits_eqb x y
  | DDense x, DDenseB y | DDenseB y, DDense x => vapproxb x (map b2q y)
  | _, _ => false
  end.
Definition run_np_eqb (lg : bool) (s : store) (ops : list xop) (outs : list doutcome) : bool :=
  list_eqb doutcome_eqb (run_np lg s ops) outs.
