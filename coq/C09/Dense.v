(* C09 — dense NumPy reference semantics (placeholder, filled below) *)
From V Require Export Common.Num C09.Model.
