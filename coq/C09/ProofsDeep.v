(* C09 — deepening round: further refinement theorems about the existing model.
   Part A: SparseArray reductions with axis=None.  Part B: SparseArray.__setitem__ with 1-d and 2-d values. *)
From V Require Import Common.NumFacts C09.Model C09.Dense C09.Proofs.
From Coq Require Import Lia Lqa.

(* ================================================================== Part A: reductions over the whole array *)
(* NumPy reduces the flattened array *)
Definition np_flat (m : list (list Q)) : list Q := concat m.
Inductive redval := VBool (b : bool) | VNum (q : Q).
Definition np_red_all (r : red) (m : list (list Q)) : res redval :=
  let v := np_flat m in
  match r with
  | RAny => Ok (VBool (np_any v)) | RAll => Ok (VBool (np_all v))
  | RSum => Ok (VNum (np_sum v))
  | RMean => do q <- np_mean v; Ok (VNum q)
  | RMax => do q <- np_max v; Ok (VNum q)
  | RMin => do q <- np_min v; Ok (VNum q)
  end.
(* what SparseArray.<reduction>(axis=None, keepdims) returns, against NumPy's value:
   a python scalar / bool, or with keepdims a 1 x 1 sparse array holding it *)
Definition out_matches (o : outcome) (v : redval) (keep : bool) : Prop :=
  match o, v, keep with
  | RBool b, VBool b', false => b = b'
  | RScal q, VNum q', false => q == q'
  | RNew (OB [[b]]), VBool b', true => b = b'
  | RNew (OA [c] false), VNum q', true => Rv c [q']
  | _, _, _ => False
  end.

Lemma np_any_app a b : np_any (a ++ b) = np_any a || np_any b.
Proof. unfold np_any. apply existsb_app. Qed.
Lemma np_all_app a b : np_all (a ++ b) = np_all a && np_all b.
Proof. unfold np_all. induction a; cbn; auto. rewrite IHa. now rewrite andb_assoc. Qed.
Lemma qsum_app a b : qsum (a ++ b) == qsum a + qsum b.
Proof. unfold qsum. induction a; cbn; [ring|]. rewrite IHa. ring. Qed.
Lemma any_all_flat rows m : Forall2 Rv rows m ->
  existsb sv_any rows = np_any (np_flat m) /\ forallb sv_all rows = np_all (np_flat m).
Proof.
  intros H. unfold np_flat. induction H as [|c c' rows m Hc H [IH1 IH2]]; cbn; [split; reflexivity|].
  rewrite np_any_app, np_all_app, <- IH1, <- IH2, (any_refines _ _ Hc), (all_refines _ _ Hc). split; reflexivity.
Qed.
Lemma sum_flat rows m : Forall2 Rv rows m -> qsum (map sv_sum rows) == np_sum (np_flat m).
Proof.
  intros H. unfold np_flat, np_sum. induction H as [|c c' rows m Hc H IH]; cbn; [reflexivity|].
  rewrite qsum_app, <- IH. now rewrite (sum_refines _ _ Hc).
Qed.
Lemma qofnat_plus a b : qofnat (a + b) == qofnat a + qofnat b.
Proof. unfold qofnat. rewrite Nat2Z.inj_add, inject_Z_plus. reflexivity. Qed.
Lemma size_flat rows m : Forall2 Rv rows m ->
  qsum (map (fun c => qofnat (length c)) rows) == qofnat (length (np_flat m)).
Proof.
  intros H. unfold np_flat. induction H as [|c c' rows m Hc H IH]; cbn; [reflexivity|].
  rewrite app_length, qofnat_plus, IH, (Rv_length _ _ Hc). reflexivity.
Qed.
Lemma qofnat_zero n : qofnat n == 0 -> n = O.
Proof. intros E. destruct n; auto. exfalso. apply (qofnat_nz (S n)); [lia|exact E]. Qed.

(* max / min of the row maxima is the maximum of all elements *)
Lemma isMax_compat m1 m2 l : m1 == m2 -> isMax m1 l -> isMax m2 l.
Proof. intros E [(x & I & Ex) B]. split; [exists x; split; auto; now rewrite Ex|]. intros y Hy. rewrite <- E. now apply B. Qed.
Lemma isMin_compat m1 m2 l : m1 == m2 -> isMin m1 l -> isMin m2 l.
Proof. intros E [(x & I & Ex) B]. split; [exists x; split; auto; now rewrite Ex|]. intros y Hy. rewrite <- E. now apply B. Qed.
Lemma np_max_isMax v q : np_max v = Ok q -> isMax q v.
Proof. destruct v; cbn; intros H; inversion H; subst. apply qmaxl_spec. Qed.
Lemma np_min_isMin v q : np_min v = Ok q -> isMin q v.
Proof. destruct v; cbn; intros H; inversion H; subst. apply qminl_spec. Qed.
Lemma qmax_list_isMax l : l <> [] -> isMax (qmax_list l) l.
Proof. destruct l; [congruence|]. intros _. apply qmaxl_spec. Qed.
Lemma qmin_list_isMin l : l <> [] -> isMin (qmin_list l) l.
Proof. destruct l; [congruence|]. intros _. apply qminl_spec. Qed.
Lemma isMax_concat l m : Forall2 isMax l m -> l <> [] -> forall M, isMax M l -> isMax M (concat m).
Proof.
  intros H Hne M [(x & Ix & Ex) B]. split.
  - clear B Hne. induction H as [|q r l m Hq H IH]; [contradiction|]. destruct Ix as [<-|Ix].
    + destruct Hq as [(y & Iy & Ey) _]. exists y. split; [cbn; apply in_or_app; now left | now rewrite Ey].
    + destruct (IH Ix) as (y & Iy & Ey). exists y. split; auto. cbn. apply in_or_app. now right.
  - intros y Hy. clear x Ix Ex Hne. induction H as [|q r l m Hq H IH]; [contradiction|].
    cbn in Hy. apply in_app_or in Hy as [Hy|Hy].
    + destruct Hq as [_ Bq]. eapply Qle_trans; [apply Bq; exact Hy|]. apply B. now left.
    + apply IH; auto. intros z Hz. apply B. now right.
Qed.
Lemma isMin_concat l m : Forall2 isMin l m -> l <> [] -> forall M, isMin M l -> isMin M (concat m).
Proof.
  intros H Hne M [(x & Ix & Ex) B]. split.
  - clear B Hne. induction H as [|q r l m Hq H IH]; [contradiction|]. destruct Ix as [<-|Ix].
    + destruct Hq as [(y & Iy & Ey) _]. exists y. split; [cbn; apply in_or_app; now left | now rewrite Ey].
    + destruct (IH Ix) as (y & Iy & Ey). exists y. split; auto. cbn. apply in_or_app. now right.
  - intros y Hy. clear x Ix Ex Hne. induction H as [|q r l m Hq H IH]; [contradiction|].
    cbn in Hy. apply in_app_or in Hy as [Hy|Hy].
    + destruct Hq as [_ Bq]. eapply Qle_trans; [apply B; now left|]. apply Bq; exact Hy.
    + apply IH; auto. intros z Hz. apply B. now right.
Qed.
Lemma row_maxima rows m : Forall2 Rv rows m -> Forall (fun c => c <> []) rows ->
  exists l, res_all (map sv_max rows) = Ok l /\ Forall2 isMax l m /\ length l = length rows.
Proof.
  intros H Hn. unfold res_all. rewrite mapM_map.
  induction H as [|c c' rows m Hc H IH]; cbn; [exists []; repeat split; constructor|].
  inversion Hn; subst. destruct (max_refines c c' Hc H2) as (q & q' & -> & E' & Hq).
  destruct (IH H3) as (l & -> & Hl & Ll). exists (q :: l). repeat split; cbn; auto.
  constructor; auto. apply (isMax_compat q' q); [now symmetry|now apply np_max_isMax].
Qed.
Lemma row_minima rows m : Forall2 Rv rows m -> Forall (fun c => c <> []) rows ->
  exists l, res_all (map sv_min rows) = Ok l /\ Forall2 isMin l m /\ length l = length rows.
Proof.
  intros H Hn. unfold res_all. rewrite mapM_map.
  induction H as [|c c' rows m Hc H IH]; cbn; [exists []; repeat split; constructor|].
  inversion Hn; subst. destruct (min_refines c c' Hc H2) as (q & q' & -> & E' & Hq).
  destruct (IH H3) as (l & -> & Hl & Ll). exists (q :: l). repeat split; cbn; auto.
  constructor; auto. apply (isMin_compat q' q); [now symmetry|now apply np_min_isMin].
Qed.
Lemma flat_nonempty rows m : Forall2 Rv rows m -> rows <> [] -> Forall (fun c => c <> []) rows -> np_flat m <> [].
Proof.
  intros H Hne Hn. destruct H as [|c c' rows m Hc H]; [congruence|]. inversion Hn; subst.
  unfold np_flat. cbn. destruct c' as [|x c']; [inversion Hc; subst; congruence|discriminate].
Qed.

Theorem red_axis_none_refines r rows m keep : Forall2 Rv rows m -> rows <> [] -> Forall (fun c => c <> []) rows ->
  exists v, np_red_all r m = Ok v /\ out_matches (red_arrF false r rows None keep) v keep.
Proof.
  intros H Hne Hn. pose proof (any_all_flat _ _ H) as [Ha Hl]. pose proof (sum_flat _ _ H) as Hs.
  pose proof (size_flat _ _ H) as Hz. pose proof (flat_nonempty _ _ H Hne Hn) as Hf.
  unfold np_red_all, red_arrF. destruct r.
  - eexists; split; [reflexivity|]. destruct keep; cbn; auto.
  - eexists; split; [reflexivity|]. destruct keep; cbn; auto.
  - eexists; split; [reflexivity|]. destruct keep; cbn; auto. constructor; [now apply Rc_nz|constructor].
  - unfold np_mean, len0.
    assert (L : Nat.eqb (length (np_flat m)) 0 = false) by (destruct (np_flat m); [congruence|reflexivity]).
    rewrite L. cbn [bind]. eexists; split; [reflexivity|].
    assert (NZ : qzerob (qsum (map (fun c => qofnat (length c)) rows)) = false).
    { apply qzerob_false. rewrite Hz. apply qofnat_nz. destruct (np_flat m); [congruence|cbn; lia]. }
    rewrite NZ.
    assert (E : qsum (map sv_sum rows) / qsum (map (fun c => qofnat (length c)) rows) == qsum (np_flat m) / qofnat (length (np_flat m))).
    { unfold np_sum in Hs. rewrite Hs, Hz. reflexivity. }
    destruct keep; cbn; auto. constructor; [now apply Rc_nz|constructor].
  - destruct (row_maxima _ _ H Hn) as (l & -> & Hm & Ll).
    assert (Ln : l <> []) by (intros ->; destruct rows; [congruence|discriminate]).
    destruct (np_max (np_flat m)) as [q'|] eqn:E; [|destruct (np_flat m); [congruence|discriminate]].
    cbn [bind]. eexists; split; [reflexivity|].
    assert (Q : qmax_list l == q').
    { eapply isMax_unique; [apply Forall2_Qeq_refl | |apply np_max_isMax; exact E].
      unfold np_flat. apply (isMax_concat l m Hm Ln). now apply qmax_list_isMax. }
    destruct l as [|x l]; [congruence|]. destruct keep; cbn; auto. constructor; [now apply Rc_nz|constructor].
  - destruct (row_minima _ _ H Hn) as (l & -> & Hm & Ll).
    assert (Ln : l <> []) by (intros ->; destruct rows; [congruence|discriminate]).
    destruct (np_min (np_flat m)) as [q'|] eqn:E; [|destruct (np_flat m); [congruence|discriminate]].
    cbn [bind]. eexists; split; [reflexivity|].
    assert (Q : qmin_list l == q').
    { eapply isMin_unique; [apply Forall2_Qeq_refl | |apply np_min_isMin; exact E].
      unfold np_flat. apply (isMin_concat l m Hm Ln). now apply qmin_list_isMin. }
    destruct l as [|x l]; [congruence|]. destruct keep; cbn; auto. constructor; [now apply Rc_nz|constructor].
Qed.

(* ================================================================== Part B: SparseArray.__setitem__ with 1-d and 2-d values *)
(* NumPy: r[n] = values for one row (n a list, mask, slice or [:]); a[m, n] = 1-d values gives every selected row these
   values at the selected columns; a[m, n] = 2-d values gives the k-th selected row the k-th row of the values *)
Definition np_setrow_vals (v : list Q) (n : index) (l : list Q) : res (list Q) :=
  do idx <- np_index_list (length v) n; np_setitems v idx l.
Fixpoint np_upd_rows2 {B} (g : list Q -> B -> res (list Q)) (M : list (list Q)) (sel : list nat) (V : list B)
  : res (list (list Q)) :=
  match sel, V with
  | i :: t, x :: vt => match nth_error M i with
                       | None => Err EIndex
                       | Some r => do r' <- g r x; np_upd_rows2 g (upd M i r') t vt
                       end
  | _, _ => Ok M
  end.
Definition np_set2_values (M : list (list Q)) (m n : index) (l : list Q) : res (list (list Q)) :=
  do sel <- np_index_list (length M) m; np_upd_rows (fun r => np_setrow_vals r n l) M sel.
Definition np_set2_block (M : list (list Q)) (m n : index) (V : list (list Q)) : res (list (list Q)) :=
  do sel <- np_index_list (length M) m;
  if Nat.eqb (length V) (length sel) then np_upd_rows2 (fun r x => np_setrow_vals r n x) M sel V else Err EValue.

Definition nonint (n : index) : Prop := match n with IInt _ | ITup _ => False | _ => True end.
Lemma np_put_seq_all {A} : forall (l v pre : list A), length v = length l ->
  np_put (pre ++ v) (seq (length pre) (length l)) l = Ok (pre ++ l).
Proof.
  induction l as [|y l IH]; intros v pre L; destruct v as [|x v]; cbn in L; try discriminate; cbn [length seq np_put].
  - now rewrite app_nil_r.
  - assert (Lt : Nat.ltb (length pre) (length (pre ++ x :: v)) = true) by (apply Nat.ltb_lt; rewrite app_length; cbn; lia).
    rewrite Lt.
    assert (U : upd (pre ++ x :: v) (length pre) y = (pre ++ [y]) ++ v).
    { clear. induction pre; cbn; auto. now rewrite IHpre. }
    rewrite U. specialize (IH v (pre ++ [y])). rewrite app_length in IH. cbn in IH. rewrite Nat.add_1_r in IH.
    rewrite IH by lia. now rewrite <- app_assoc.
Qed.
(* one row: row[n] = values (as many values as selected positions) *)
Lemma vecF_set_values_refines c v n l isb : Rv c v -> valid_index (length c) n -> nonint n ->
  length l = length (index_list (length c) n) ->
  exists r r', vecF_set c n (PArr l isb) = Ok r /\ np_setrow_vals v n l = Ok r' /\ Rv r r' /\ length r = length c /\
               forall j, ~ In j (index_list (length c) n) -> nth_error r j = nth_error c j.
Proof.
  intros Hcv Hv Hn Hl. pose proof (Rv_length _ _ Hcv) as L.
  destruct (index_list_np (length c) n Hv) as [NI IR].
  unfold vecF_set, np_setrow_vals. cbn [sval_of bind]. rewrite <- L, NI. cbn [bind].
  assert (G : exists r r', set_zip c (index_list (length c) n) l = Ok r /\ np_setitems v (index_list (length c) n) l = Ok r' /\
                           Rv r r' /\ length r = length c /\ forall j, ~ In j (index_list (length c) n) -> nth_error r j = nth_error c j).
  { destruct (set_zip_refines (index_list (length c) n) c v l l Hcv (Forall2_Qeq_refl l) IR) as (r & r' & E & P & R & Lr & F).
    exists r, r'. rewrite np_setitems_put; auto. now rewrite <- L. }
  destruct n as [k|k|li|mk|a b cc|]; cbn in Hn; try contradiction; try exact G.
  (* [:] *)
  cbn [index_list] in *. rewrite seq_length in Hl.
  cbn [set_open].
  destruct (set_zip_refines (seq 0 (length l)) (empty_cells (length c)) (map (fun _ => 0) v) l l) as (r & r' & E & P & R & Lr & F).
  - now apply empty_refines.
  - apply Forall2_Qeq_refl.
  - apply Forall_forall. intros j Hj. apply in_seq in Hj. unfold empty_cells. rewrite repeat_length. lia.
  - rewrite E. exists r, r'.
    assert (P0 : np_put (map (fun _ => 0) v) (seq 0 (length l)) l = Ok l).
    { pose proof (np_put_seq_all l (map (fun _ => 0) v) []) as Q0. cbn in Q0. apply Q0. rewrite map_length. congruence. }
    rewrite P0 in P. inversion P; subst r'.
    assert (P1 : np_setitems v (seq 0 (length c)) l = Ok l).
    { rewrite np_setitems_put.
      - rewrite <- Hl. pose proof (np_put_seq_all l v []) as Q0. cbn in Q0. apply Q0. congruence.
      - apply Forall_forall. intros j Hj. apply in_seq in Hj. lia.
      - now rewrite seq_length. }
    rewrite P1. repeat split; auto.
    + rewrite Lr. unfold empty_cells. now rewrite repeat_length.
    + intros j Hj. assert (Ge : (length c <= j)%nat).
      { destruct (Nat.lt_ge_cases j (length c)) as [Lt|Ge]; auto. exfalso. apply Hj. apply in_seq. lia. }
      assert (Lr' : length r = length c) by (rewrite Lr; unfold empty_cells; now rewrite repeat_length).
      rewrite (proj2 (nth_error_None r j)) by lia. symmetry. apply nth_error_None. lia.
Qed.

(* the forms SparseArray.__setitem__ takes *)
Lemma arrF_set_values_form rows m n l isb : is_int n = false -> is_int m || is_slice m || is_slice n = true ->
  arrF_set false rows false (XPair m n) (PArr l isb) =
  upd_rows (fun c => keep_on_err c (vecF_set c n (PArr l isb))) rows (index_list (length rows) m).
Proof. intros Hn H. destruct m, n; try discriminate Hn; try discriminate H; reflexivity. Qed.
Definition block_form (m n : index) : bool :=
  negb (is_int m) && (is_slice m || is_slice n) && negb (is_slice m && negb (is_open m) && is_open n).
Lemma arrF_set_block_form rows m n V isb : block_form m n = true ->
  arrF_set false rows false (XPair m n) (PArr2 V isb) =
  upd_rows2 (fun c x => if is_open n && vd2 (reduce1 x isb) then (c, Some EIndex)
                        else keep_on_err c (vecF_set c n (reduce1 x isb))) rows (index_list (length rows) m) V.
Proof. intros H. destruct m, n; try discriminate H; reflexivity. Qed.
Lemma vd2_reduce1 x isb : vd2 (reduce1 x isb) = false.
Proof. unfold reduce1. destruct x as [|? [|? ?]]; reflexivity. Qed.

(* the row loop with one value row per selected row *)
Lemma upd_rows2_refines {B} (f : cells -> B -> cells * option err) (g : list Q -> B -> res (list Q))
      (P : cells -> Prop) (PB : B -> Prop) :
  (forall c c' x, Rv c c' -> P c -> PB x -> exists r r', f c x = (r, None) /\ g c' x = Ok r' /\ Rv r r' /\ P r) ->
  forall sel rows M V, Forall2 Rv rows M -> Forall P rows -> Forall PB V -> Forall (fun i => (i < length rows)%nat) sel ->
  exists R R', upd_rows2 f rows sel V = (R, None) /\
               np_upd_rows2 g M sel V = Ok R' /\
               Forall2 Rv R R' /\ Forall P R /\ length R = length rows /\
               forall k, ~ In k sel -> nth_error R k = nth_error rows k.
Proof.
  intros Hf. induction sel as [|i sel IH]; intros rows M V H HP HV Hs.
  - exists rows, M. cbn. repeat split; auto.
  - destruct V as [|x V]; [exists rows, M; cbn; repeat split; auto|].
    inversion Hs as [|? ? Hi Hs']; subst. inversion HV as [|? ? Hx HV']; subst.
    assert (Hi' : (i < length M)%nat) by (now rewrite <- (Forall2_length _ _ _ H)).
    destruct (nth_error rows i) as [c|] eqn:Ec; [|apply nth_error_None in Ec; lia].
    destruct (nth_error M i) as [c'|] eqn:Ec'; [|apply nth_error_None in Ec'; lia].
    assert (Rcc : Rv c c').
    { clear -H Ec Ec'. revert i Ec Ec'. induction H; intros [|i] Ec Ec'; cbn in *; try discriminate.
      - inversion Ec; inversion Ec'; subst; auto. - eauto. }
    destruct (Hf c c' x Rcc (Forall_nth_error _ _ _ _ HP Ec) Hx) as (r & r' & Ef & Eg & Rr & Pr).
    cbn [upd_rows2 np_upd_rows2]. rewrite Ec, Ec', Ef, Eg. cbn [bind].
    assert (H2 : Forall2 Rv (upd rows i r) (upd M i r')).
    { clear -H Rr. revert i. induction H; intros [|i]; cbn; constructor; auto. }
    destruct (IH (upd rows i r) (upd M i r') V H2 (Forall_upd _ _ _ _ HP Pr) HV') as (R & R' & E1 & E2 & RR & PR & LR & FR).
    { rewrite upd_length. exact Hs'. }
    exists R, R'. repeat split; auto.
    + now rewrite LR, upd_length.
    + intros k Hk. rewrite FR by (intros K; apply Hk; now right). apply nth_error_upd_other. intros ->. apply Hk. now left.
Qed.

(* a[m, n] = 1-d values *)
Theorem array_set_values_refines rows M m n l isb w : Forall2 Rv rows M ->
  is_int n = false -> is_int m || is_slice m || is_slice n = true ->
  valid_index (length rows) m -> Forall (fun c => length c = w) rows -> valid_index w n ->
  length l = length (index_list w n) ->
  exists R R', arrF_set false rows false (XPair m n) (PArr l isb) = (R, None) /\ np_set2_values M m n l = Ok R' /\
               Forall2 Rv R R' /\ length R = length rows /\
               forall k, ~ In k (index_list (length rows) m) -> nth_error R k = nth_error rows k.
Proof.
  intros H Hn Hk Hm Hw Hv Hl. rewrite arrF_set_values_form by assumption.
  destruct (index_list_np (length rows) m Hm) as [NI IR].
  unfold np_set2_values. rewrite <- (Forall2_length _ _ _ H), NI. cbn [bind].
  assert (Nn : nonint n) by (destruct n; try discriminate Hn; exact I).
  destruct (upd_rows_refines (fun c => keep_on_err c (vecF_set c n (PArr l isb))) (fun r => np_setrow_vals r n l)
              (fun c => length c = w)) with (sel := index_list (length rows) m) (rows := rows) (M := M)
    as (R & R' & E1 & E2 & RR & _ & LR & FR); auto.
  - intros c c' Hc Pc. subst w. destruct (vecF_set_values_refines c c' n l isb Hc Hv Nn Hl) as (r & r' & E & E' & Rr & Lr & _).
    exists r, r'. rewrite E. cbn. repeat split; auto.
  - exists R, R'. repeat split; auto.
Qed.

(* a[m, n] = 2-d values: one row of values per selected row *)
Theorem array_set_block_refines rows M m n V isb w : Forall2 Rv rows M ->
  block_form m n = true -> valid_index (length rows) m -> Forall (fun c => length c = w) rows -> valid_index w n ->
  nonint n -> Forall (fun x => length x = length (index_list w n) /\ (2 <= length x)%nat) V ->
  length V = length (index_list (length rows) m) ->
  exists R R', arrF_set false rows false (XPair m n) (PArr2 V isb) = (R, None) /\ np_set2_block M m n V = Ok R' /\
               Forall2 Rv R R' /\ length R = length rows /\
               forall k, ~ In k (index_list (length rows) m) -> nth_error R k = nth_error rows k.
Proof.
  intros H Hb Hm Hw Hv Nn HV HL. rewrite arrF_set_block_form by assumption.
  destruct (index_list_np (length rows) m Hm) as [NI IR].
  unfold np_set2_block. rewrite <- (Forall2_length _ _ _ H), NI. cbn [bind]. rewrite HL, Nat.eqb_refl.
  destruct (upd_rows2_refines
              (fun c x => if is_open n && vd2 (reduce1 x isb) then (c, Some EIndex) else keep_on_err c (vecF_set c n (reduce1 x isb)))
              (fun r x => np_setrow_vals r n x) (fun c => length c = w)
              (fun x => length x = length (index_list w n) /\ (2 <= length x)%nat))
    with (sel := index_list (length rows) m) (rows := rows) (M := M) (V := V)
    as (R & R' & E1 & E2 & RR & _ & LR & FR); auto.
  - intros c c' x Hc Pc [Lx L2]. subst w. rewrite vd2_reduce1, andb_false_r.
    assert (R1 : reduce1 x isb = PArr x isb) by (destruct x as [|? [|? ?]]; cbn in L2; try lia; reflexivity).
    rewrite R1. destruct (vecF_set_values_refines c c' n x isb Hc Hv Nn Lx) as (r & r' & E & E' & Rr & Lr & _).
    exists r, r'. rewrite E. cbn. repeat split; auto.
  - exists R, R'. repeat split; auto.
Qed.

(* ================================================================== Part C: array reduction / item steps in the all-histories refinement *)
Definition dobj_of2 (d : dobj2) : dobj :=
  match d with D2V v => DV v false | D2L b => DL b | D2A m => DA m false | D2B m => DB m end.
Lemma osim2_osim o d2 : osim2 o d2 -> osim o (dobj_of2 d2).
Proof. destruct o as [c [|]|b|rows [|]|rows], d2; cbn; auto; try contradiction. Qed.
(* NumPy's step for the array operations that np_step (Dense.v) leaves out; everything else is np_step *)
Definition np_extra (d : dstore) (o : xop) : option (dstore * doutcome) :=
  match o with
  | XOp (OBin (BC c) i x) =>                     (* a 2-d array compared with a vector / scalar / list: row by row *)
      match nth_error d i, darg d x with
      | Some (DA M _), Some w => match mapM (fun r => np_cmp c r w) M with
                                 | Ok B => Some (d ++ [DB B], DNew (DB B))
                                 | Err e => Some (d, DErr e) end
      | Some (DL b), _ =>                        (* two boolean arrays *)
          match dargb d x with
          | Some w => match np_bcmp c b w with
                      | Ok r => Some (d ++ [DL r], DNew (DL r))
                      | Err e => Some (d, DErr e) end
          | None => None end
      | _, _ => None
      end
  | XOp (OInvert i) =>
      match nth_error d i with
      | Some (DL b) => Some (d ++ [DL (map negb b)], DNew (DL (map negb b)))
      | _ => None end
  | XOp (OGet i ix) =>
      match nth_error d i with
      | Some (DL b) =>
          match ix with
          | IOpen => Some (d, DSelf)
          | IInt k | ITup k => Some (d, dres (np_get1 b k) DBool)
          | _ => Some (d, dres (do idx <- np_index_list (length b) ix; np_take b idx) DDenseB)
          end
      | _ => None end
  | XOp (ONeg i) =>
      match nth_error d i with
      | Some (DA M _) => Some (d ++ [DA (map np_neg M) false], DNew (DA (map np_neg M) false))
      | _ => None end
  | XOp (OAbs i) =>
      match nth_error d i with
      | Some (DA M _) => Some (d ++ [DA (map np_abs M) false], DNew (DA (map np_abs M) false))
      | _ => None end
  | XOp (OCopy i) =>
      match nth_error d i with
      | Some (DA M _) => Some (d ++ [DA M false], DNew (DA M false))
      | _ => None end
  | XOp (OClear i) =>
      match nth_error d i with
      | Some (DA M false) => Some (upd d i (DA (map (map (fun _ => 0)) M) false), DUpd (DA (map (map (fun _ => 0)) M) false))
      | _ => None end
  | XOp (ORed r i axis keep) =>
      match nth_error d i with
      | Some (DL b) =>                           (* any / all / sum (= number of True) of a boolean array *)
          match axis, r with
          | None, RAny | Some O, RAny =>
              Some (if keep then (d ++ [DL [existsb (fun x : bool => x) b]], DNew (DL [existsb (fun x : bool => x) b]))
                    else (d, DBool (existsb (fun x : bool => x) b)))
          | None, RAll | Some O, RAll =>
              Some (if keep then (d ++ [DL [forallb (fun x : bool => x) b]], DNew (DL [forallb (fun x : bool => x) b]))
                    else (d, DBool (forallb (fun x : bool => x) b)))
          | None, RSum | Some O, RSum =>
              Some (if keep then (d ++ [DV [np_sum (map b2q b)] false], DNew (DV [np_sum (map b2q b)] false))
                    else (d, DScal (np_sum (map b2q b))))
          | _, _ => None
          end
      | Some (DA m _) =>
          match axis with
          | None => match np_red_all r m with
                    | Ok (VBool b) => Some (if keep then (d ++ [DB [[b]]], DNew (DB [[b]])) else (d, DBool b))
                    | Ok (VNum q) => Some (if keep then (d ++ [DA [[q]] false], DNew (DA [[q]] false)) else (d, DScal q))
                    | Err e => Some (d, DErr e)
                    end
          | Some ax => if Nat.leb ax 1 then
                         match np_red2 r m ax keep with
                         | Ok o2 => Some (d ++ [dobj_of2 o2], DNew (dobj_of2 o2))
                         | Err e => Some (d, DErr e)
                         end
                       else None
          end
      | _ => None
      end
  | XASet i (XPair m n) (AScal q) =>
      match nth_error d i with
      | Some (DA M false) => match np_set2_scalar M m n q with
                             | Ok R => Some (upd d i (DA R false), DUpd (DA R false))
                             | Err e => Some (d, DErr e) end
      | _ => None
      end
  | XASet i (XPair m n) (AArr l) =>
      match nth_error d i with
      | Some (DA M false) => match np_set2_values M m n l with
                             | Ok R => Some (upd d i (DA R false), DUpd (DA R false))
                             | Err e => Some (d, DErr e) end
      | _ => None
      end
  | XASet i (XPair m n) (AArr2 V) =>
      match nth_error d i with
      | Some (DA M false) => match np_set2_block M m n V with
                             | Ok R => Some (upd d i (DA R false), DUpd (DA R false))
                             | Err e => Some (d, DErr e) end
      | _ => None
      end
  | XAGet i (XRow m) =>                          (* a[k]: the row; a[[k...]] / a[mask] / a[j:k]: the selected rows *)
      match nth_error d i with
      | Some (DA M ro) =>
          if is_int m then Some (d, dres (np_get1 M (int_of m)) (fun r => DNew (DV r ro)))
          else if is_listlike m then
            match m with
            | ISlice _ _ _ => None
            | _ => Some (d, dres (do sel <- np_index_list (length M) m; np_take M sel) (fun R => DNew (DA R (ro && negb (len0 R)))))
            end
          else None
      | _ => None
      end
  | XAGet i (XPair m n) =>
      match nth_error d i with
      | Some (DA M _) =>
          if is_int m && is_int n then Some (d, dres (do r <- np_get1 M (int_of m); np_get1 r (int_of n)) DScal)
          else if is_int m && is_listlike n then        (* a[i, cols]: 1-d *)
            Some (d, dres (do r <- np_get1 M (int_of m); do idx <- np_index_list (length r) n; np_take r idx) DDense)
          else if is_listlike m && is_int n then        (* a[rows, j]: 1-d *)
            Some (d, dres (do sel <- np_index_list (length M) m; do sr <- np_take M sel; mapM (fun r => np_get1 r (int_of n)) sr) DDense)
          else None
      | _ => None
      end
  | _ => None
  end.
Definition np_step2 (d : dstore) (o : xop) : dstore * doutcome :=
  match np_extra d o with Some r => r | None => np_step d o end.
Definition good2 (s : store) (d : dstore) (o : xop) : Prop :=
  sim (fst (xstep false s o)) (fst (np_step2 d o)) /\ crashed (snd (xstep false s o)) = false /\
  orel (snd (xstep false s o)) (snd (np_step2 d o)).

(* ---- division inside histories: operands without zeros (NumPy then returns, and so does the sparse kernel) ---- *)
Definition nzarg (s : store) (x : arg) : Prop :=
  match x with
  | AObj j => exists d ro, nth_error s j = Some (OV d ro) /\ Forall (fun c => c <> None) d
  | AScal q => ~ q == 0
  | AArr l => Forall (fun y => ~ y == 0) l
  | _ => False
  end.
Lemma map2M_ext_r {A B C} (P : B -> Prop) (f g : A -> B -> res C) a b :
  Forall P b -> (forall x y, P y -> f x y = g x y) -> map2M f a b = map2M g a b.
Proof.
  intros Hb H. revert a. induction Hb as [|y b Hy Hb IH]; intros [|x a]; cbn; auto. now rewrite (H x y Hy), IH.
Qed.
Lemma mapM_ext_P {A C} (P : A -> Prop) (f g : A -> res C) l : Forall P l -> (forall y, P y -> f y = g y) -> mapM f l = mapM g l.
Proof. intros Hl H. induction Hl as [|y l Hy Hl IH]; cbn; auto. now rewrite (H y Hy), IH. Qed.
Definition qdivp (x y : Q) : res Q := Ok (x / y).
Lemma np_div_pure (f : Q -> Q -> res Q) v w : (forall x y, ~ y == 0 -> f x y = qdivp x y) ->
  Forall (fun y => ~ y == 0) w -> np_bcast f 0 0 v w = np_bcast qdivp 0 0 v w.
Proof.
  intros Hf Hw. unfold np_bcast.
  destruct (Nat.eqb (length v) (length w)); [apply (map2M_ext_r (fun y => ~ y == 0)); auto|].
  destruct (Nat.eqb (length v) 1); [apply (mapM_ext_P (fun y => ~ y == 0)); auto|].
  destruct (Nat.eqb (length w) 1) eqn:E; auto.
  destruct Hw as [|y w Hy Hw]; [discriminate|]. cbn [hd]. apply mapM_ext. intros x. now apply Hf.
Qed.
Lemma np_div_nz v w : Forall (fun y => ~ y == 0) w ->
  np_arith Div v w = np_div0 v w /\ (forall e, np_div0 v w = Err e -> e = EValue).
Proof.
  intros Hw.
  assert (A : np_arith Div v w = np_bcast qdivp 0 0 v w).
  { apply np_div_pure; auto. intros x y Hy. cbn. now apply qdiv_eval. }
  assert (B : np_div0 v w = np_bcast qdivp 0 0 v w).
  { apply np_div_pure; auto. intros x y Hy. now apply qdiv0_eval_nz. }
  split; [congruence|]. intros e. rewrite B. unfold np_bcast, qdivp. rewrite map2M_pure, !mapM_pure.
  destruct (Nat.eqb (length v) (length w)); [discriminate|].
  destruct (Nat.eqb (length v) 1); [discriminate|].
  destruct (Nat.eqb (length w) 1); [discriminate|]. congruence.
Qed.
Lemma present_nz (c : cells) (v : list Q) : Rv c v -> Forall (fun x => x <> None) c -> Forall (fun y => ~ y == 0) v.
Proof.
  intros H Hp. induction H as [|x x' c v Hx H IH]; constructor; inversion Hp; subst; auto.
  intros E. apply (Rc_zero_iff _ _ Hx) in E. contradiction.
Qed.
Lemma arg_div_refines s d c v x : sim s d -> Rv c v -> okarg s c x -> nzarg s x ->
  exists p w, resolve s x = Ok p /\ darg d x = Some w /\ Forall (fun y => ~ y == 0) w /\
              refines (vcells (vec_bin false (BA Div) (VF c) p)) (np_div0 v w) /\
              (forall al, (al = true -> p = PV c) -> vec_ibin false (BA Div) al (VF c) p = vec_bin false (BA Div) (VF c) p) /\
              match p with PV e => length e = length w | PS _ _ => length w = 1%nat | PArr l _ => length l = length w | _ => False end.
Proof.
  intros Hs Hc Hx Hz. destruct x as [j|q|b|l|l|m|m]; cbn in Hx, Hz; try contradiction.
  - destruct Hx as (e & ro & Ej & Hne). destruct Hz as (e2 & ro2 & Ej2 & Hp). rewrite Ej in Ej2. inversion Ej2; subst e2 ro2.
    destruct (sim_nth _ _ _ _ Hs Ej) as (o' & Ej' & Ho).
    destruct o' as [w ro'| | |]; cbn in Ho; try contradiction. destruct Ho as [Hew _].
    exists (PV e), w. split; [cbn; unfold getobj; now rewrite Ej|]. split; [cbn; now rewrite Ej'|].
    split; [eapply present_nz; eauto|]. cbn [vec_bin vec_ibin]. rewrite vcells_okF. repeat split.
    + cbn [k_sparse]. now apply div_sparse_refines.
    + intros al Hal. destruct al; [|now rewrite inplace_eq_binary].
      specialize (Hal eq_refl). inversion Hal; subst. reflexivity.
    + now apply Rv_length.
  - exists (PS q false), [q]. split; [reflexivity|]. split; [reflexivity|]. split; [repeat constructor; auto|].
    cbn [vec_bin vec_ibin]. rewrite vcells_okF. repeat split; auto. cbn [k_scalar]. apply div_scalar_refines; auto. reflexivity.
  - destruct l as [|y [|y2 l]]; [congruence| |].
    + exists (PS y false), [y]. split; [reflexivity|]. split; [reflexivity|]. split; [exact Hz|].
      cbn [vec_bin vec_ibin]. rewrite vcells_okF. repeat split; auto. cbn [k_scalar]. apply div_scalar_refines; auto. reflexivity.
    + exists (PArr (y :: y2 :: l) false), (y :: y2 :: l). split; [reflexivity|]. split; [reflexivity|]. split; [exact Hz|].
      cbn [vec_bin vec_ibin]. rewrite vcells_okF. repeat split; auto. cbn [k_array].
      apply div_array_refines; auto using Forall2_Qeq_refl; cbn; congruence.
Qed.

(* the new fragment operations *)
Inductive fop2 (s : store) : xop -> Prop :=
| F2_old o : fop s o -> fop2 s o
| F2_red r i axis keep rows ro : nth_error s i = Some (OA rows ro) -> rows <> [] -> Forall (fun c => c <> []) rows ->
    axis = None \/ axis = Some 0%nat \/ axis = Some 1%nat -> fop2 s (XOp (ORed r i axis keep))
| F2_set_scalar i m n q rows : nth_error s i = Some (OA rows false) ->
    is_int m || is_slice m || is_slice n = true -> valid_index (length rows) m ->
    Forall (fun c => valid_index (length c) n) rows -> fop2 s (XASet i (XPair m n) (AScal q))
| F2_set_values i m n l rows w : nth_error s i = Some (OA rows false) ->
    is_int n = false -> is_int m || is_slice m || is_slice n = true -> valid_index (length rows) m ->
    Forall (fun c => length c = w) rows -> valid_index w n -> length l = length (index_list w n) -> (2 <= length l)%nat ->
    fop2 s (XASet i (XPair m n) (AArr l))
| F2_div i x c ro : nth_error s i = Some (OV c ro) -> okarg s c x -> nzarg s x -> fop2 s (XOp (OBin (BA Div) i x))
| F2_idiv i x c : nth_error s i = Some (OV c false) -> okarg s c x -> nzarg s x ->
    (forall p, resolve s x = Ok p ->
       match p with PV e => length e = length c \/ length e = 1%nat | PArr l _ => length l = length c | _ => True end) ->
    fop2 s (XOp (OIBin (BA Div) i x))
| F2_lcmp c i j b b2 : nth_error s i = Some (OL b) -> nth_error s j = Some (OL b2) -> (length b = 1%nat -> b2 <> []) ->
    fop2 s (XOp (OBin (BC c) i (AObj j)))
| F2_linvert i b : nth_error s i = Some (OL b) -> fop2 s (XOp (OInvert i))
| F2_lget i ix b : nth_error s i = Some (OL b) -> valid_index (length b) ix -> fop2 s (XOp (OGet i ix))
| F2_lred r i axis keep b : nth_error s i = Some (OL b) -> (r = RAny \/ r = RAll \/ r = RSum) ->
    (axis = None \/ axis = Some 0%nat) -> fop2 s (XOp (ORed r i axis keep))
| F2_unary u i rows ro : nth_error s i = Some (OA rows ro) ->
    (u = XOp (ONeg i) \/ u = XOp (OAbs i) \/ u = XOp (OCopy i) \/ (u = XOp (OClear i) /\ ro = false)) -> fop2 s u
| F2_cmp c i x rows ro : nth_error s i = Some (OA rows ro) -> rows <> [] -> Forall (fun r => okarg s r x) rows ->
    fop2 s (XOp (OBin (BC c) i x))
| F2_get_elem i a b rows ro : nth_error s i = Some (OA rows ro) -> (a < length rows)%nat -> (b < length (nth a rows []))%nat ->
    fop2 s (XAGet i (XPair (IInt a) (IInt b)))
| F2_get_row i a n rows ro w : nth_error s i = Some (OA rows ro) -> (a < length rows)%nat -> is_listlike n = true ->
    Forall (fun c => length c = w) rows -> valid_index w n -> fop2 s (XAGet i (XPair (IInt a) n))
| F2_get_col i m b rows ro : nth_error s i = Some (OA rows ro) -> is_listlike m = true -> valid_index (length rows) m ->
    Forall (fun c => (b < length c)%nat) rows -> fop2 s (XAGet i (XPair m (IInt b)))
| F2_get_rowobj i k rows ro : nth_error s i = Some (OA rows ro) -> (k < length rows)%nat -> fop2 s (XAGet i (XRow (IInt k)))
| F2_get_rows i m rows ro : nth_error s i = Some (OA rows ro) -> (match m with IList _ | IMask _ => True | _ => False end) ->
    valid_index (length rows) m -> fop2 s (XAGet i (XRow m))
| F2_set_block i m n V rows w : nth_error s i = Some (OA rows false) ->
    block_form m n = true -> valid_index (length rows) m -> Forall (fun c => length c = w) rows -> valid_index w n -> nonint n ->
    Forall (fun x => length x = length (index_list w n) /\ (2 <= length x)%nat) V ->
    length V = length (index_list (length rows) m) -> (2 <= length V)%nat ->
    fop2 s (XASet i (XPair m n) (AArr2 V)).

Lemma sim_array s d i rows ro : sim s d -> nth_error s i = Some (OA rows ro) ->
  exists M, nth_error d i = Some (DA M ro) /\ Forall2 Rv rows M.
Proof.
  intros Hs Ei. destruct (sim_nth _ _ _ _ Hs Ei) as (o' & Ei' & Hoo).
  destruct o' as [| |M ro'|]; cbn in Hoo; try contradiction. destruct Hoo as [H <-]. eauto.
Qed.
(* old fragment operations are not touched by the extension *)
Lemma np_extra_old s d o : sim s d -> fop s o -> np_extra d o = None.
Proof.
  intros Hs Ho. destruct Ho; cbn [np_extra]; try reflexivity;
  first [ (* F_cmp, F_red: the target is a float vector *)
          match goal with H : nth_error s _ = Some (OV _ _) |- _ =>
            destruct (sim_nth _ _ _ _ Hs H) as (o' & E' & Hoo); destruct o'; cbn in Hoo; try contradiction; now rewrite E' end
        | (* F_lbin: the operator is + * & ^ |, not a comparison *)
          match goal with H : lop_of_bop ?bo = Some _ |- _ => destruct bo; cbn in H; try discriminate H; reflexivity end ].
Qed.

Lemma np_red_num_ok r v : v <> [] -> match r with RAny | RAll => True | _ => exists q, np_red_num r v = Ok q end.
Proof.
  intros Hv. destruct r; cbn; auto; try (eexists; reflexivity).
  - unfold np_mean, len0. destruct v; [congruence|]. cbn. eexists; reflexivity.
  - destruct v; [congruence|]. cbn. eexists; reflexivity.
  - destruct v; [congruence|]. cbn. eexists; reflexivity.
Qed.
Lemma np_red2_ok r M ax keep : Forall (fun v => v <> []) (np_lines M ax) -> exists o2, np_red2 r M ax keep = Ok o2.
Proof.
  intros H. unfold np_red2. remember (np_lines M ax) as L eqn:EL. clear EL.
  assert (G : match r with RAny | RAll => True | _ => exists vs, mapM (np_red_num r) L = Ok vs end).
  { induction H as [|v l Hv Hl IH]; [destruct r; cbn; eauto|].
    pose proof (np_red_num_ok r v Hv) as K. destruct r; auto;
      destruct K as (q & Eq); destruct IH as (vs & Evs); cbn [mapM]; rewrite Eq, Evs; eexists; reflexivity. }
  destruct r; try (eexists; reflexivity); destruct G as (vs & ->); eexists; reflexivity.
Qed.
Lemma lines_nonempty rows M ax : Forall2 Rv rows M -> rows <> [] -> Forall (fun c => c <> []) rows ->
  Forall (fun v => v <> []) (np_lines M ax).
Proof.
  intros H Hne Hn. destruct ax as [|ax]; cbn [np_lines].
  - unfold columns. apply Forall_forall. intros col Hin. apply in_map_iff in Hin as (k & <- & _).
    intros E. apply (f_equal (@length _)) in E. rewrite column_length in E.
    rewrite <- (Forall2_length _ _ _ H) in E. destruct rows; [congruence|discriminate].
  - clear Hne. induction H as [|c c' rows M Hc H IH]; constructor; inversion Hn; subst; auto.
    intros ->. inversion Hc; subst. congruence.
Qed.

Lemma step2_red s d r i axis keep rows ro : sim s d -> nth_error s i = Some (OA rows ro) -> rows <> [] ->
  Forall (fun c => c <> []) rows -> axis = None \/ axis = Some 0%nat \/ axis = Some 1%nat ->
  good2 s d (XOp (ORed r i axis keep)).
Proof.
  intros Hs Ei Hne Hn Hax. destruct (sim_array _ _ _ _ _ Hs Ei) as (M & Ei' & HM).
  unfold good2, np_step2, xstep. cbn [xstep_res step_res np_extra]. unfold getobj. rewrite Ei, Ei'. cbn [bind].
  destruct Hax as [Hax|[Hax|Hax]]; subst axis.
  - (* axis None *)
    destruct (red_axis_none_refines r rows M keep HM Hne Hn) as (v & -> & Hm).
    destruct (red_arrF false r rows None keep) as [e|o| | |q|b|l|l|l2|l2] eqn:O; unfold out_matches in Hm;
      repeat match type of Hm with
             | context [match ?x with _ => _ end] => destruct x; try contradiction
             end; try contradiction;
      subst; cbn;
      (split; [first [apply sim_app; auto; cbn; auto | exact Hs] | split; [reflexivity | cbn; auto]]).
  - (* axis 0 *)
    pose proof (red_axis0_refines r rows M keep HM Hne) as R.
    destruct (np_red2_ok r M 0 keep (lines_nonempty _ _ 0 HM Hne Hn)) as (o2 & E2). rewrite E2 in R |- *. cbn [Nat.leb].
    destruct (red_arrF false r rows (Some 0%nat) keep) as [e|o| | |q|b|l|l|l2|l2]; cbn in R; try contradiction.
    cbn. pose proof (osim2_osim _ _ R). split; [apply sim_app; auto|split; [reflexivity|cbn; auto]].
  - (* axis 1 *)
    pose proof (red_axis1_refines r rows M keep HM Hn) as R.
    destruct (np_red2_ok r M 1 keep (lines_nonempty _ _ 1 HM Hne Hn)) as (o2 & E2). rewrite E2 in R |- *. cbn [Nat.leb].
    destruct (red_arrF false r rows (Some 1%nat) keep) as [e|o| | |q|b|l|l|l2|l2]; cbn in R; try contradiction.
    cbn. pose proof (osim2_osim _ _ R). split; [apply sim_app; auto|split; [reflexivity|cbn; auto]].
Qed.

Lemma step2_set_scalar s d i m n q rows : sim s d -> nth_error s i = Some (OA rows false) ->
  is_int m || is_slice m || is_slice n = true -> valid_index (length rows) m ->
  Forall (fun c => valid_index (length c) n) rows -> good2 s d (XASet i (XPair m n) (AScal q)).
Proof.
  intros Hs Ei Hk Hm Hn. destruct (sim_array _ _ _ _ _ Hs Ei) as (M & Ei' & HM).
  destruct (array_set_scalar_refines rows M m n q false HM Hk Hm Hn) as (R & R' & E & E' & RR & _).
  unfold good2, np_step2, xstep. cbn [xstep_res np_extra resolve]. unfold getobj. rewrite Ei, Ei'. cbn [bind reduce_obj].
  rewrite E, E'. cbn. split; [apply sim_upd; auto; cbn; auto|split; [reflexivity|exact I]].
Qed.
Lemma step2_set_values s d i m n l rows w : sim s d -> nth_error s i = Some (OA rows false) ->
  is_int n = false -> is_int m || is_slice m || is_slice n = true -> valid_index (length rows) m ->
  Forall (fun c => length c = w) rows -> valid_index w n -> length l = length (index_list w n) -> (2 <= length l)%nat ->
  good2 s d (XASet i (XPair m n) (AArr l)).
Proof.
  intros Hs Ei Hn Hk Hm Hw Hv Hl H2. destruct (sim_array _ _ _ _ _ Hs Ei) as (M & Ei' & HM).
  destruct (array_set_values_refines rows M m n l false w HM Hn Hk Hm Hw Hv Hl) as (R & R' & E & E' & RR & _).
  assert (R1 : reduce1 l false = PArr l false) by (destruct l as [|? [|? ?]]; cbn in H2; try lia; reflexivity).
  unfold good2, np_step2, xstep. cbn [xstep_res np_extra resolve]. unfold getobj. rewrite Ei, Ei'. cbn [bind]. rewrite R1. cbn [reduce_obj].
  rewrite E, E'. cbn. split; [apply sim_upd; auto; cbn; auto|split; [reflexivity|exact I]].
Qed.
Lemma step2_get_elem s d i a b rows ro : sim s d -> nth_error s i = Some (OA rows ro) -> (a < length rows)%nat ->
  (b < length (nth a rows []))%nat -> good2 s d (XAGet i (XPair (IInt a) (IInt b))).
Proof.
  intros Hs Ei Ha Hb. destruct (sim_array _ _ _ _ _ Hs Ei) as (M & Ei' & HM).
  destruct (get_element_refines rows M a b HM Ha Hb) as (r' & q & E1 & E2 & Hq).
  destruct (arrF_get_forms rows (IInt a) (IInt b)) as (F & _). specialize (F eq_refl eq_refl Ha).
  unfold good2, np_step2, xstep. cbn [xstep_res np_extra]. unfold getobj. rewrite Ei, Ei'. cbn [bind is_int andb int_of]. rewrite F, E1. cbn [bind]. rewrite E2.
  cbn. auto.
Qed.
Lemma nth_Rv rows M a : Forall2 Rv rows M -> (a < length rows)%nat -> Rv (nth a rows []) (nth a M []).
Proof. intros H. revert a. induction H; intros [|a] Ha; cbn in *; try lia; auto. apply IHForall2. lia. Qed.
Lemma step2_get_row s d i a n rows ro w : sim s d -> nth_error s i = Some (OA rows ro) -> (a < length rows)%nat ->
  is_listlike n = true -> Forall (fun c => length c = w) rows -> valid_index w n ->
  good2 s d (XAGet i (XPair (IInt a) n)).
Proof.
  intros Hs Ei Ha Hl Hw Hv. destruct (sim_array _ _ _ _ _ Hs Ei) as (M & Ei' & HM).
  pose proof (nth_Rv rows M a HM Ha) as Hr.
  assert (Vs : vsize rows = w).
  { destruct rows as [|c0 rows0]; [cbn in Ha; lia|]. inversion Hw as [|? ? K1 K2]. exact K1. }
  assert (La : length (nth a rows []) = w).
  { pose proof Hw as Hw'. eapply Forall_forall in Hw'; [exact Hw'|]. apply nth_In. exact Ha. }
  destruct (arrF_get_forms rows (IInt a) n) as (_ & F & _). specialize (F eq_refl Hl Ha). rewrite Vs in F.
  destruct (index_list_np w n Hv) as [NI IR].
  destruct (get_idx_refines (nth a rows []) (nth a M []) (index_list w n) Hr) as (v' & Ev & Hv').
  { now rewrite La. }
  assert (Nn : is_int n = false) by (destruct n; try discriminate Hl; reflexivity).
  unfold good2, np_step2, xstep. cbn [xstep_res np_extra]. unfold getobj. rewrite Ei, Ei'. cbn [bind is_int andb int_of]. rewrite Nn, Hl, F.
  cbn [andb]. rewrite (np_get1_nth M a []) by (now rewrite <- (Forall2_length _ _ _ HM)). cbn [bind].
  rewrite <- (Rv_length _ _ Hr), La, NI. cbn [bind]. rewrite Ev. cbn. auto.
Qed.
Lemma step2_get_col s d i m b rows ro : sim s d -> nth_error s i = Some (OA rows ro) -> is_listlike m = true ->
  valid_index (length rows) m -> Forall (fun c => (b < length c)%nat) rows -> good2 s d (XAGet i (XPair m (IInt b))).
Proof.
  intros Hs Ei Hl Hm Hb. destruct (sim_array _ _ _ _ _ Hs Ei) as (M & Ei' & HM).
  destruct (index_list_np (length rows) m Hm) as [NI IR].
  destruct (get_column_refines rows M (index_list (length rows) m) b HM IR Hb) as (sr & sr' & v' & E1 & E2 & E3 & Hv').
  destruct (arrF_get_forms rows m (IInt b)) as (_ & _ & F & _). specialize (F Hl eq_refl sr E1).
  assert (Nm : is_int m = false) by (destruct m; try discriminate Hl; reflexivity).
  unfold good2, np_step2, xstep. cbn [xstep_res np_extra]. unfold getobj. rewrite Ei, Ei'. cbn [bind is_int andb int_of]. rewrite Nm, Hl, F.
  cbn [andb is_listlike]. rewrite <- (Forall2_length _ _ _ HM), NI. cbn [bind]. rewrite E2. cbn [bind]. rewrite E3. cbn. auto.
Qed.
Lemma step2_set_block s d i m n V rows w : sim s d -> nth_error s i = Some (OA rows false) ->
  block_form m n = true -> valid_index (length rows) m -> Forall (fun c => length c = w) rows -> valid_index w n -> nonint n ->
  Forall (fun x => length x = length (index_list w n) /\ (2 <= length x)%nat) V ->
  length V = length (index_list (length rows) m) -> (2 <= length V)%nat ->
  good2 s d (XASet i (XPair m n) (AArr2 V)).
Proof.
  intros Hs Ei Hb Hm Hw Hv Nn HV HL H2. destruct (sim_array _ _ _ _ _ Hs Ei) as (M & Ei' & HM).
  destruct (array_set_block_refines rows M m n V false w HM Hb Hm Hw Hv Nn HV HL) as (R & R' & E & E' & RR & _).
  assert (R2 : reduce2 V false = PArr2 V false) by (destruct V as [|? [|? ?]]; cbn in H2; try lia; reflexivity).
  unfold good2, np_step2, xstep. cbn [xstep_res np_extra resolve]. unfold getobj. rewrite Ei, Ei'. cbn [bind]. rewrite R2. cbn [reduce_obj].
  rewrite E, E'. cbn. split; [apply sim_upd; auto; cbn; auto|split; [reflexivity|exact I]].
Qed.
(* ---- SparseArray compared with a vector / scalar / list ---- *)
Lemma mapM_okB {A} (k : A -> res bits) rows : mapM (fun c => okB (k c)) rows = (do l <- mapM k rows; Ok (map VB l)).
Proof.
  induction rows as [|c rows IH]; cbn; auto. destruct (k c); cbn; auto. rewrite IH. destruct (mapM k rows); reflexivity.
Qed.
Lemma all_B_VB l : all_B (map VB l) = Some l.
Proof. induction l; cbn; auto. now rewrite IHl. Qed.
Lemma obj_of_rows_VB l : l <> [] -> obj_of_rows (map VB l) = Ok (OB l).
Proof.
  intros H. unfold obj_of_rows. destruct l as [|b l]; [congruence|]. cbn [map all_F].
  replace (all_B (VB b :: map VB l)) with (Some (b :: l)) by (symmetry; apply (all_B_VB (b :: l))). reflexivity.
Qed.
Definition rowc (m : cmp) (p : operand) (c : cells) : res bits := vbits (vec_bin false (BC m) (VF c) p).
Lemma vec_bin_rowc m c p : pkind p -> vec_bin false (BC m) (VF c) p = okB (rowc m p c).
Proof. intros H. unfold rowc. destruct p; try contradiction; cbn [vec_bin]; now rewrite vbits_okB. Qed.
Lemma mapM_length {A B} (f : A -> res B) l r : mapM f l = Ok r -> length r = length l.
Proof.
  revert r. induction l as [|x l IH]; cbn; intros r H; [inversion H; reflexivity|].
  destruct (f x); try discriminate. destruct (mapM f l); try discriminate. inversion H; subst. cbn. now rewrite (IH _ eq_refl).
Qed.
Theorem array_cmp_rows m rows p : pkind p -> rows <> [] ->
  array_bin false (BC m) (map VF rows) p = (do l <- mapM (rowc m p) rows; Ok (OB l)).
Proof.
  intros H Hne. unfold array_bin.
  assert (G : mapM (fun r => vec_bin false (BC m) r p) (map VF rows) = (do l <- mapM (rowc m p) rows; Ok (map VB l))).
  { rewrite mapM_map. rewrite <- mapM_okB. apply mapM_ext. intros c. now apply vec_bin_rowc. }
  destruct p; try contradiction; rewrite G; destruct (mapM (rowc m _) rows) as [lb|e] eqn:E; cbn; auto;
    apply obj_of_rows_VB; intros ->; apply mapM_length in E; destruct rows; cbn in E; congruence.
Qed.
Lemma np_cmp_err c v w e : np_cmp c v w = Err e -> e = EValue.
Proof.
  unfold np_cmp, np_bcast. rewrite map2M_pure, !mapM_pure.
  destruct (Nat.eqb (length v) (length w)); [discriminate|].
  destruct (Nat.eqb (length v) 1); [discriminate|].
  destruct (Nat.eqb (length w) 1); [discriminate|]. congruence.
Qed.
Lemma step2_cmp s d c i x rows ro : sim s d -> nth_error s i = Some (OA rows ro) -> rows <> [] ->
  Forall (fun r => okarg s r x) rows -> good2 s d (XOp (OBin (BC c) i x)).
Proof.
  intros Hs Ei Hne Hok. destruct (sim_array _ _ _ _ _ Hs Ei) as (M & Ei' & HM).
  (* the operand, resolved once; every row refines NumPy's row *)
  assert (A : exists p w, resolve s x = Ok p /\ darg d x = Some w /\ pkind p /\
                Forall2 (fun r r' => rrel eq (rowc c p r) (np_cmp c r' w)) rows M).
  { destruct HM as [|r0 r0' rows0 M0 Hr0 HM0]; [congruence|]. inversion Hok as [|? ? Hx0 Hok0]; subst.
    destruct (arg_cmp_refines s d c r0 r0' x Hs Hr0 Hx0) as (p & w & R & D & P & Href & _).
    exists p, w. repeat split; auto. constructor; [exact Href|].
    clear -Hs HM0 Hok0 R D. induction HM0 as [|r r' rows M Hr HM IH]; constructor; inversion Hok0; subst; auto.
    destruct (arg_cmp_refines s d c r r' x Hs Hr H1) as (p' & w' & R' & D' & _ & Href' & _).
    rewrite R in R'. inversion R'; subst p'. rewrite D in D'. inversion D'; subst w'. exact Href'. }
  destruct A as (p & w & R & D & P & F).
  unfold good2, np_step2, xstep. cbn [xstep_res step_res np_extra]. unfold getobj. rewrite Ei, Ei', R, D. cbn [bind vec_of_obj rows_of].
  rewrite array_cmp_rows by assumption.
  assert (RR : rrel (Forall2 eq) (mapM (rowc c p) rows) (mapM (fun r => np_cmp c r w) M)).
  { eapply mapM_rrel; [|exact F]. cbn. auto. }
  destruct (mapM (rowc c p) rows) as [l|e]; destruct (mapM (fun r => np_cmp c r w) M) as [B|e'] eqn:N; cbn in RR; try contradiction; cbn.
  - assert (l = B) by (clear -RR; induction RR; subst; auto). subst.
    split; [apply sim_app; auto; cbn; auto|split; [reflexivity|cbn; auto]].
  - subst. apply mapM_err_in in N as (r & _ & N). apply np_cmp_err in N. subst.
    split; [auto|split; reflexivity].
Qed.
Lemma Forall2_map_Rv (f : cells -> cells) (g : list Q -> list Q) rows M :
  (forall c c', Rv c c' -> Rv (f c) (g c')) -> Forall2 Rv rows M -> Forall2 Rv (map f rows) (map g M).
Proof. intros Hf H. induction H; cbn; constructor; auto. Qed.
Lemma step2_unary s d u i rows ro : sim s d -> nth_error s i = Some (OA rows ro) ->
  (u = XOp (ONeg i) \/ u = XOp (OAbs i) \/ u = XOp (OCopy i) \/ (u = XOp (OClear i) /\ ro = false)) -> good2 s d u.
Proof.
  intros Hs Ei Hu. destruct (sim_array _ _ _ _ _ Hs Ei) as (M & Ei' & HM).
  destruct Hu as [->|[->|[->|[-> ->]]]]; unfold good2, np_step2, xstep; cbn [xstep_res step_res np_extra]; unfold getobj;
    rewrite Ei, Ei'; cbn.
  - pose proof (Forall2_map_Rv neg_cells np_neg rows M neg_refines HM).
    split; [apply sim_app; auto; cbn; auto|split; [reflexivity|cbn; auto]].
  - pose proof (Forall2_map_Rv abs_cells np_abs rows M abs_refines HM).
    split; [apply sim_app; auto; cbn; auto|split; [reflexivity|cbn; auto]].
  - split; [apply sim_app; auto; cbn; auto|split; [reflexivity|cbn; auto]].
  - pose proof (Forall2_map_Rv (fun c => empty_cells (length c)) (map (fun _ => 0)) rows M empty_refines HM).
    split; [apply sim_upd; auto; cbn; auto|split; [reflexivity|exact I]].
Qed.
Lemma step2_div s d i x c ro : sim s d -> nth_error s i = Some (OV c ro) -> okarg s c x -> nzarg s x ->
  good2 s d (XOp (OBin (BA Div) i x)).
Proof.
  intros Hs Ei Hx Hz. destruct (sim_nth _ _ _ _ Hs Ei) as (o' & Ei' & Hoo).
  destruct o' as [v ro'| | |]; cbn in Hoo; try contradiction. destruct Hoo as [Hcv <-].
  destruct (arg_div_refines s d c v x Hs Hcv Hx Hz) as (p & w & R & D & Hw & Href & _ & _).
  destruct (np_div_nz v w Hw) as [EQ ER].
  assert (P : pkind p) by (eapply resolve_frag; eauto).
  unfold good2, np_step2, xstep. cbn [xstep_res step_res np_extra np_step]. unfold getobj. rewrite Ei, Ei', R, D. cbn [bind vec_of_obj].
  unfold vector_bin. rewrite EQ.
  destruct p; try contradiction;
    (destruct (vec_bin false (BA Div) (VF c) _) as [[r|bb]|e] eqn:V; try (apply vec_bin_BA_VF in V as (? & V'); discriminate V'); cbn in Href;
     destruct (np_div0 v w) as [r'|e'] eqn:N; cbn in Href; try contradiction; cbn;
     (split; [auto; try (apply sim_app; auto; cbn; auto) | split; [try reflexivity; subst; now rewrite (ER _ eq_refl) | cbn; auto]])).
Qed.
Lemma step2_idiv s d i x c : sim s d -> nth_error s i = Some (OV c false) -> okarg s c x -> nzarg s x ->
  (forall p, resolve s x = Ok p ->
     match p with PV e => length e = length c \/ length e = 1%nat | PArr l _ => length l = length c | _ => True end) ->
  good2 s d (XOp (OIBin (BA Div) i x)).
Proof.
  intros Hs Ei Hx Hz Hsh. destruct (sim_nth _ _ _ _ Hs Ei) as (o' & Ei' & Hoo).
  destruct o' as [v ro'| | |]; cbn in Hoo; try contradiction. destruct Hoo as [Hcv <-].
  destruct (arg_div_refines s d c v x Hs Hcv Hx Hz) as (p & w & R & D & Hw & Href & Hal & Hlen).
  destruct (np_div_nz v w Hw) as [EQ ER]. specialize (Hsh p R).
  assert (P : pkind p) by (eapply resolve_frag; eauto).
  unfold good2, np_step2, xstep. cbn [xstep_res step_res np_extra np_step]. unfold getobj. rewrite Ei, Ei', R, D. cbn [bind vec_of_obj is_ro].
  assert (Hnp : np_iarith Div v w = np_arith Div v w).
  { apply np_iarith_binary. rewrite <- (Rv_length _ _ Hcv). destruct p; try contradiction; try (right; exact Hlen).
    - rewrite <- Hlen. destruct Hsh as [L|L]; auto.
    - left. now rewrite <- Hlen. }
  rewrite Hnp, EQ.
  assert (Hal' : alias_of x i = true -> p = PV c).
  { intros A. destruct x; cbn in A; try discriminate. apply Nat.eqb_eq in A. subst. cbn in R. unfold getobj in R.
    rewrite Ei in R. now inversion R. }
  destruct p; try contradiction;
    (rewrite (Hal _ Hal');
     destruct (vec_bin false (BA Div) (VF c) _) as [[r|bb]|e] eqn:V; try (apply vec_bin_BA_VF in V as (? & V'); discriminate V'); cbn in Href;
     destruct (np_div0 v w) as [r'|e'] eqn:N; cbn in Href; try contradiction; cbn;
     (split; [auto; try (apply sim_upd; auto; cbn; auto) | split; [try reflexivity; subst; now rewrite (ER _ eq_refl) | cbn; auto]])).
Qed.
(* ---- logical vectors: comparisons, ~, reads, any / all / sum ---- *)
Theorem lv_cmp_refines c a b : (length a = 1%nat -> b <> []) -> lv_cmp_sparse c a b = np_bcmp c a b.
Proof.
  intros Hne. unfold np_bcmp, np_bcast, lv_cmp_sparse, hdb. rewrite map2M_pure, !mapM_pure.
  destruct (Nat.eqb (length a) (length b)) eqn:E; [reflexivity|].
  destruct (Nat.eqb (length b) 1) eqn:E2.
  - destruct (Nat.eqb (length a) 1) eqn:E1; [|reflexivity].
    apply Nat.eqb_eq in E1, E2. apply Nat.eqb_neq in E. congruence.
  - destruct (Nat.eqb (length a) 1) eqn:E1; [|reflexivity].
    assert (L0 : Nat.eqb (length b) 0 = false).
    { apply Nat.eqb_eq in E1. specialize (Hne E1). destruct b; [congruence|reflexivity]. }
    rewrite L0. reflexivity.
Qed.
Lemma sim_logical s d i b : sim s d -> nth_error s i = Some (OL b) -> nth_error d i = Some (DL b).
Proof.
  intros Hs Ei. destruct (sim_nth _ _ _ _ Hs Ei) as (o' & Ei' & Hoo).
  destruct o' as [|b'| |]; cbn in Hoo; try contradiction. now subst.
Qed.
Lemma np_bcmp_err c a b e : np_bcmp c a b = Err e -> e = EValue.
Proof.
  unfold np_bcmp, np_bcast. rewrite map2M_pure, !mapM_pure.
  destruct (Nat.eqb (length a) (length b)); [discriminate|].
  destruct (Nat.eqb (length a) 1); [discriminate|].
  destruct (Nat.eqb (length b) 1); [discriminate|]. congruence.
Qed.
Lemma step2_lcmp s d c i j b b2 : sim s d -> nth_error s i = Some (OL b) -> nth_error s j = Some (OL b2) ->
  (length b = 1%nat -> b2 <> []) -> good2 s d (XOp (OBin (BC c) i (AObj j))).
Proof.
  intros Hs Ei Ej Hne. pose proof (sim_logical _ _ _ _ Hs Ei) as Ei'. pose proof (sim_logical _ _ _ _ Hs Ej) as Ej'.
  unfold good2, np_step2, xstep. cbn [xstep_res step_res np_extra resolve dargb]. unfold getobj. rewrite Ei, Ej, Ei', Ej'.
  cbn [bind vec_of_obj]. unfold vector_bin. cbn [vec_bin]. rewrite (lv_cmp_refines c b b2 Hne).
  destruct (np_bcmp c b b2) as [r|e] eqn:N; cbn.
  - split; [apply sim_app; auto; cbn; auto|split; [reflexivity|cbn; auto]].
  - apply np_bcmp_err in N. subst. split; [auto|split; reflexivity].
Qed.
Lemma step2_linvert s d i b : sim s d -> nth_error s i = Some (OL b) -> good2 s d (XOp (OInvert i)).
Proof.
  intros Hs Ei. pose proof (sim_logical _ _ _ _ Hs Ei) as Ei'.
  unfold good2, np_step2, xstep. cbn [xstep_res step_res np_extra]. unfold getobj. rewrite Ei, Ei'. cbn.
  split; [apply sim_app; auto; cbn; auto|split; [reflexivity|cbn; auto]].
Qed.
Lemma take_bits (b : bits) idx : Forall (fun i => (i < length b)%nat) idx -> np_take b idx = Ok (map (getb b) idx).
Proof.
  intros H. unfold np_take. induction H as [|i idx Hi H IH]; cbn; auto.
  rewrite (np_get1_nth b i false Hi), IH. reflexivity.
Qed.
Lemma step2_lget s d i ix b : sim s d -> nth_error s i = Some (OL b) -> valid_index (length b) ix -> good2 s d (XOp (OGet i ix)).
Proof.
  intros Hs Ei Hv. pose proof (sim_logical _ _ _ _ Hs Ei) as Ei'.
  destruct (index_list_np (length b) ix Hv) as [NI IR].
  unfold good2, np_step2, xstep. cbn [xstep_res step_res np_extra]. unfold getobj. rewrite Ei, Ei'. cbn [bind vec_of_obj].
  destruct ix as [k|k|l|mk|a0 b0 c0|]; cbn [vec_get index_list] in *;
    try (rewrite NI; cbn [bind]; rewrite (take_bits b _ IR); cbn; auto; fail).
  - rewrite (np_get1_nth b k false Hv). cbn. auto.
  - rewrite (np_get1_nth b k false Hv). cbn. auto.
  - cbn. auto.
Qed.
Lemma nset_cons x (b : bits) : nset (x :: b) = ((if x then 1 else 0) + nset b)%nat.
Proof. unfold nset. cbn. destruct x; reflexivity. Qed.
Lemma nset_le (b : bits) : (nset b <= length b)%nat.
Proof. induction b as [|x b IH]; [cbn; lia|]. rewrite nset_cons. cbn [length]. destruct x; lia. Qed.
Lemma nset_any (b : bits) : negb (Nat.eqb (nset b) 0) = existsb (fun x : bool => x) b.
Proof. induction b as [|x b IH]; [reflexivity|]. rewrite nset_cons. cbn [existsb]. destruct x; cbn; auto. Qed.
Lemma nset_all (b : bits) : Nat.eqb (nset b) (length b) = forallb (fun x : bool => x) b.
Proof.
  induction b as [|x b IH]; [reflexivity|]. rewrite nset_cons. cbn [forallb length]. pose proof (nset_le b). destruct x; cbn [andb].
  - exact IH.
  - apply Nat.eqb_neq. lia.
Qed.
Lemma nset_sum (b : bits) : qofnat (nset b) == np_sum (map b2q b).
Proof.
  unfold np_sum. induction b as [|x b IH]; [reflexivity|]. rewrite nset_cons, qofnat_plus. cbn [map qsum fold_right].
  fold (qsum (map b2q b)). rewrite IH. unfold np_sum. destruct x; cbn [b2q]; [change (qofnat 1) with 1 | change (qofnat 0) with 0]; lra.
Qed.
Lemma step2_lred s d r i axis keep b : sim s d -> nth_error s i = Some (OL b) -> (r = RAny \/ r = RAll \/ r = RSum) ->
  (axis = None \/ axis = Some 0%nat) -> good2 s d (XOp (ORed r i axis keep)).
Proof.
  intros Hs Ei Hr Hax. pose proof (sim_logical _ _ _ _ Hs Ei) as Ei'.
  pose proof (nset_any b) as A1. pose proof (nset_all b) as A2. pose proof (nset_sum b) as A3.
  assert (K : Rv (keep1 (qofnat (nset b))) [np_sum (map b2q b)]) by (now apply keep1_refines).
  unfold good2, np_step2, xstep. cbn [xstep_res step_res np_extra]. unfold getobj. rewrite Ei, Ei'. cbn [bind].
  destruct Hax; subst axis; destruct Hr as [Hr|[Hr|Hr]]; subst r; unfold red_vecB; destruct keep; cbn;
    rewrite ?A1, ?A2;
    (split; [first [apply sim_app; auto; cbn; auto | exact Hs] | split; [reflexivity | cbn; auto]]).
Qed.
Lemma step2_get_rowobj s d i k rows ro : sim s d -> nth_error s i = Some (OA rows ro) -> (k < length rows)%nat ->
  good2 s d (XAGet i (XRow (IInt k))).
Proof.
  intros Hs Ei Hk. destruct (sim_array _ _ _ _ _ Hs Ei) as (M & Ei' & HM).
  pose proof (nth_Rv rows M k HM Hk) as Hr.
  unfold good2, np_step2, xstep. cbn [xstep_res np_extra]. unfold getobj. rewrite Ei, Ei'. cbn [bind is_int int_of arrF_get is_open].
  pose proof Hk as Hk'. apply Nat.ltb_lt in Hk'. rewrite Hk'.
  rewrite (np_get1_nth M k []) by (now rewrite <- (Forall2_length _ _ _ HM)). cbn. auto.
Qed.
Lemma step2_get_rows s d i m rows ro : sim s d -> nth_error s i = Some (OA rows ro) ->
  (match m with IList _ | IMask _ => True | _ => False end) -> valid_index (length rows) m -> good2 s d (XAGet i (XRow m)).
Proof.
  intros Hs Ei Hk Hm. destruct (sim_array _ _ _ _ _ Hs Ei) as (M & Ei' & HM).
  destruct (index_list_np (length rows) m Hm) as [NI IR].
  destruct (nth_rows_refines rows M (index_list (length rows) m) HM IR) as (sr & sr' & E & E' & R).
  assert (L0 : len0 sr = len0 sr') by (unfold len0; now rewrite (Forall2_length _ _ _ R)).
  unfold good2, np_step2, xstep. cbn [xstep_res np_extra]. unfold getobj. rewrite Ei, Ei'. cbn [bind].
  destruct m; try contradiction; cbn [arrF_get is_open is_int is_listlike]; unfold row_sel; cbn [index_list] in *;
    rewrite E; cbn [bind]; rewrite E; cbn [bind]; rewrite <- (Forall2_length _ _ _ HM), NI; cbn [bind]; rewrite E'; cbn; rewrite L0; auto.
Qed.
Lemma step_sim2 s d o : sim s d -> fop2 s o -> good2 s d o.
Proof.
  intros Hs Ho. destruct Ho as [o Ho| | | | | | | | | | | | | | | | |].
  - pose proof (step_sim s d o Hs Ho) as G. unfold good2, np_step2. now rewrite (np_extra_old s d o Hs Ho).
  - eapply step2_red; eauto.
  - eapply step2_set_scalar; eauto.
  - eapply step2_set_values; eauto.
  - eapply step2_div; eauto.
  - eapply step2_idiv; eauto.
  - eapply step2_lcmp; eauto.
  - eapply step2_linvert; eauto.
  - eapply step2_lget; eauto.
  - eapply step2_lred; eauto.
  - eapply step2_unary; eauto.
  - eapply step2_cmp; eauto.
  - eapply step2_get_elem; eauto.
  - eapply step2_get_row; eauto.
  - eapply step2_get_col; eauto.
  - eapply step2_get_rowobj; eauto.
  - eapply step2_get_rows; eauto.
  - eapply step2_set_block; eauto.
Qed.
(* all histories over the enlarged fragment *)
Inductive frun2 : store -> list xop -> Prop :=
| frun2_nil s : frun2 s []
| frun2_cons s o ops : fop2 s o -> frun2 (fst (xstep false s o)) ops -> frun2 s (o :: ops).
Fixpoint np_run2 (d : dstore) (ops : list xop) : dstore :=
  match ops with [] => d | o :: t => np_run2 (fst (np_step2 d o)) t end.
Fixpoint np_outs2 (d : dstore) (ops : list xop) : list doutcome :=
  match ops with [] => [] | o :: t => snd (np_step2 d o) :: np_outs2 (fst (np_step2 d o)) t end.
Theorem history_refines_arrays ops : forall s d, sim s d -> frun2 s ops ->
  sim (fst (run false s ops)) (np_run2 d ops) /\ Forall2 orel (snd (run false s ops)) (np_outs2 d ops).
Proof.
  induction ops as [|o ops IH]; intros s d Hs Hf; cbn; [split; auto|].
  inversion Hf as [|s0 o0 ops0 Ho Hrest]; subst.
  destruct (step_sim2 s d o Hs Ho) as (H1 & H2 & H3).
  destruct (xstep false s o) as [s' r]. cbn in *. rewrite H2.
  specialize (IH s' (fst (np_step2 d o)) H1 Hrest). destruct (run false s' ops). cbn in *.
  destruct IH as [I1 I2]. split; auto.
Qed.

(* ================================================================== Part D: a[m] = value, fancy (list, list) pairs, logical division *)
(* a[m] = scalar / 1-d values is a[m, :] = ... (m an int, list, slice or [:]; for a scalar also a boolean row mask) *)
Lemma arrF_set_row_as_pair rows m p :
  match p with PS _ _ => True | PArr _ _ => match m with IMask _ => False | _ => True end | _ => False end ->
  arrF_set false rows false (XRow m) p = arrF_set false rows false (XPair m IOpen) p.
Proof. intros H. destruct p; try contradiction; destruct m; try contradiction; reflexivity. Qed.
Theorem array_set_row_scalar_refines rows M m q isb : Forall2 Rv rows M -> valid_index (length rows) m ->
  exists R R', arrF_set false rows false (XRow m) (PS q isb) = (R, None) /\ np_set2_scalar M m IOpen q = Ok R' /\
               Forall2 Rv R R' /\ length R = length rows /\
               forall k, ~ In k (index_list (length rows) m) -> nth_error R k = nth_error rows k.
Proof.
  intros H Hm. rewrite arrF_set_row_as_pair by exact I. apply array_set_scalar_refines; auto.
  - destruct m; reflexivity.
  - apply Forall_forall. intros c _. exact I.
Qed.
Theorem array_set_row_values_refines rows M m l isb w : Forall2 Rv rows M ->
  match m with IMask _ => False | _ => True end -> valid_index (length rows) m ->
  Forall (fun c => length c = w) rows -> length l = w ->
  exists R R', arrF_set false rows false (XRow m) (PArr l isb) = (R, None) /\ np_set2_values M m IOpen l = Ok R' /\
               Forall2 Rv R R' /\ length R = length rows /\
               forall k, ~ In k (index_list (length rows) m) -> nth_error R k = nth_error rows k.
Proof.
  intros H Hk Hm Hw Hl. rewrite arrF_set_row_as_pair by (destruct m; auto).
  apply (array_set_values_refines rows M m IOpen l isb w); auto.
  - destruct m; reflexivity.
  - exact I.
  - cbn. now rewrite seq_length.
Qed.

(* a[[i...], [j...]]: NumPy pairs the two index lists element by element *)
Definition np_get_pairs (M : list (list Q)) (ms ns : list nat) : res (list Q) :=
  mapM (fun p => do r <- np_get1 M (fst p); np_get1 r (snd p)) (combine ms ns).
Lemma arrF_get_pairs_form rows ms ns sr : nth_rows rows ms = Ok sr ->
  arrF_get rows (XPair (IList ms) (IList ns)) = GDenseF (map2 getc sr ns).
Proof. intros E. cbn. now rewrite E. Qed.
Theorem get_pairs_refines rows M ms : forall ns, Forall2 Rv rows M ->
  Forall2 (fun i j => (i < length rows)%nat /\ (j < length (nth i rows []))%nat) ms ns ->
  exists sr v', nth_rows rows ms = Ok sr /\ np_get_pairs M ms ns = Ok v' /\ Forall2 Qeq (map2 getc sr ns) v'.
Proof.
  intros ns H Hp. unfold np_get_pairs. induction Hp as [|i j ms ns [Hi Hj] Hp IH]; cbn.
  - exists [], []. repeat split; constructor.
  - destruct IH as (sr & v' & E & E' & R).
    destruct (nth_error rows i) as [r|] eqn:Er; [|apply nth_error_None in Er; lia].
    assert (Rn : r = nth i rows []) by (symmetry; now apply nth_error_nth).
    rewrite E. cbn [bind].
    destruct (get_element_refines rows M i j H Hi Hj) as (r' & q & E1 & E2 & Hq).
    rewrite E1. cbn [bind]. rewrite E2, E'. exists (r :: sr), (q :: v'). repeat split; auto.
    cbn. constructor; auto. now rewrite Rn.
Qed.
(* a[[i...], [j...]] = q writes the pairs one after the other, directly into the row dictionaries *)
Definition np_set_pairs (M : list (list Q)) (ms ns : list nat) (q : Q) : res (list (list Q)) :=
  np_upd_rows2 (fun r j => if Nat.ltb j (length r) then Ok (upd r j q) else Err EIndex) M ms ns.
Lemma arrF_set_pairs_form rows ms ns q isb :
  arrF_set false rows false (XPair (IList ms) (IList ns)) (PS q isb) = upd_rows2 (fun c j => dset c j q) rows ms ns.
Proof. reflexivity. Qed.
Theorem set_pairs_refines rows M ms ns q isb w : Forall2 Rv rows M -> Forall (fun c => length c = w) rows ->
  Forall (fun i => (i < length rows)%nat) ms -> Forall (fun j => (j < w)%nat) ns ->
  exists R R', arrF_set false rows false (XPair (IList ms) (IList ns)) (PS q isb) = (R, None) /\
               np_set_pairs M ms ns q = Ok R' /\ Forall2 Rv R R' /\ length R = length rows /\
               forall k, ~ In k ms -> nth_error R k = nth_error rows k.
Proof.
  intros H Hw Hm Hn. rewrite arrF_set_pairs_form. unfold np_set_pairs.
  destruct (upd_rows2_refines (fun c j => dset c j q) (fun r j => if Nat.ltb j (length r) then Ok (upd r j q) else Err EIndex)
              (fun c => length c = w) (fun j => (j < w)%nat)) with (sel := ms) (rows := rows) (M := M) (V := ns)
    as (R & R' & E1 & E2 & RR & _ & LR & FR); auto.
  - intros c c' j Hc Pc Pj. subst w.
    destruct (set_int_refines c c' j q q Hc ltac:(reflexivity) Pj) as (r & E & Rr & Lr & _).
    exists r, (upd c' j q). unfold dset. rewrite E. rewrite <- (Rv_length _ _ Hc).
    pose proof Pj as Pj'. apply Nat.ltb_lt in Pj'. rewrite Pj'. cbn. repeat split; auto.
  - exists R, R'. repeat split; auto.
Qed.

(* logical division with operands of the same size: wherever NumPy returns (no False in the divisor) the sparse
   kernel returns the dividend unchanged, which is NumPy's quotient as truth values *)
Theorem logic_div_same_ok a b r : length a = length b -> np_logic LDiv a b = Ok r -> lv_isparse LDiv a b = Ok a /\ r = a.
Proof.
  intros L H. unfold np_logic, np_bcast in H. rewrite L, Nat.eqb_refl in H. unfold lv_isparse. rewrite L, Nat.eqb_refl.
  revert b r L H. induction a as [|x a IH]; intros [|y b] r L H; cbn in *; try discriminate.
  - inversion H. split; reflexivity.
  - destruct y; cbn in H; [|destruct x; discriminate].
    destruct (map2M (lop_b LDiv) a b) as [t|] eqn:E; [|discriminate]. inversion H; subst.
    destruct (IH b t ltac:(lia) E) as [I1 I2]. subst t.
    rewrite andb_false_r. cbn. destruct (existsb _ (combine a b)) eqn:X; [discriminate I1|]. split; reflexivity.
Qed.
(* started from the dense images of well-formed sparse objects *)
Corollary history_dense_arrays ops s : store_wf s -> frun2 s ops ->
  sim (fst (run false s ops)) (np_run2 (abs_store s) ops) /\ Forall2 orel (snd (run false s ops)) (np_outs2 (abs_store s) ops).
Proof. intros Hw Hf. apply history_refines_arrays; auto. now apply sim_abs. Qed.
