(* C09 — second deepening round: lemmas.
   Part A: the all-histories refinement extended by 2-d block reads, writes into logical vectors and mean / max / min of
           logical vectors.  Part B: python ints (possibly negative) as indices. *)
From V Require Import Common.NumFacts C09.Model C09.Dense C09.Proofs C09.ProofsDeep C09.Model3.
From Coq Require Import Lia Lqa ZArith.

(* ================================================================== Part A *)
Definition orel3 (r : outcome) (r' : doutcome3) : Prop :=
  match r' with
  | D3 d => orel r d
  | D3Dense2 B' => match r with RDense2 B => Forall2 (Forall2 Qeq) B B' | _ => False end
  end.
(* NumPy's step: the operations of this round, then those of np_step2 *)
Definition np_step3 (d : dstore) (o : xop) : dstore * doutcome3 :=
  match np_extra3 d o with
  | Some r => r
  | None => (fst (np_step2 d o), D3 (snd (np_step2 d o)))
  end.
Definition good3 (s : store) (d : dstore) (o : xop) : Prop :=
  sim (fst (xstep false s o)) (fst (np_step3 d o)) /\ crashed (snd (xstep false s o)) = false /\
  orel3 (snd (xstep false s o)) (snd (np_step3 d o)).

(* values written into a logical vector: a list of numbers / booleans, another logical vector *)
Definition lvalarg (s : store) (i : nat) (x : arg) : option bits :=
  match x with
  | AArr l => Some (map truthy l)
  | ABArr l => Some l
  | AObj j => if Nat.eqb j i then None
              else match nth_error s j with Some (OL b2) => Some b2 | _ => None end
  | _ => None
  end.
Definition nonint_ix (ix : index) : Prop := match ix with IInt _ | ITup _ => False | _ => True end.

Inductive fop3 (s : store) : xop -> Prop :=
| F3_old o : fop2 s o -> fop3 s o
| F3_get_block i m n rows ro w : nth_error s i = Some (OA rows ro) -> is_block m n = true ->
    valid_index (length rows) m -> index_list (length rows) m <> [] ->
    Forall (fun c => length c = w) rows -> valid_index w n -> fop3 s (XAGet i (XPair m n))
| F3_lset_scalar i ix x b : nth_error s i = Some (OL b) -> valid_index (length b) ix ->
    (exists q, x = AScal q) \/ (exists t, x = ABool t) -> fop3 s (XOp (OSet i ix x))
| F3_lset_values i ix x b w : nth_error s i = Some (OL b) -> valid_index (length b) ix -> nonint_ix ix ->
    lvalarg s i x = Some w -> length w = length (index_list (length b) ix) -> (2 <= length w)%nat ->
    fop3 s (XOp (OSet i ix x))
| F3_lred r i axis keep b : nth_error s i = Some (OL b) -> b <> [] -> (r = RMean \/ r = RMax \/ r = RMin) ->
    (axis = None \/ axis = Some O) -> fop3 s (XOp (ORed r i axis keep)).

(* ---- the operations of np_step2 are not touched ---- *)
Lemma sim_vector s d i c ro : sim s d -> nth_error s i = Some (OV c ro) -> exists v, nth_error d i = Some (DV v ro) /\ Rv c v.
Proof.
  intros Hs Ei. destruct (sim_nth _ _ _ _ Hs Ei) as (o' & Ei' & Hoo).
  destruct o' as [v ro'| | |]; cbn in Hoo; try contradiction. destruct Hoo as [H <-]. eauto.
Qed.
Lemma is_block_int_l k n : is_block (IInt k) n = false. Proof. reflexivity. Qed.
Lemma is_block_int_r m k : is_block m (IInt k) = false. Proof. destruct m; reflexivity. Qed.
Ltac old3 Hs :=
  first
    [ reflexivity
    | match goal with H : nth_error _ _ = Some (OV _ _) |- _ =>
        destruct (sim_vector _ _ _ _ _ Hs H) as (?v & ?E & _); rewrite E; reflexivity end
    | match goal with H : nth_error _ _ = Some (OA _ _) |- _ =>
        destruct (sim_array _ _ _ _ _ Hs H) as (?M & ?E & _); rewrite E; rewrite ?is_block_int_l, ?is_block_int_r; reflexivity end ].
Lemma np_extra3_fop s d o : sim s d -> fop s o -> np_extra3 d o = None.
Proof. intros Hs Ho. destruct Ho; cbn [np_extra3]; old3 Hs. Qed.
Lemma np_extra3_old s d o : sim s d -> fop2 s o -> np_extra3 d o = None.
Proof.
  intros Hs Ho. destruct Ho as [o Ho| | | | | | | | | | | | | | | | |]; [now apply (np_extra3_fop s)|..]; cbn [np_extra3]; try old3 Hs.
  - (* F2_lred: any / all / sum *)
    match goal with H : nth_error _ _ = Some (OL _) |- _ => rewrite (sim_logical _ _ _ _ Hs H) end.
    repeat match goal with H : _ \/ _ |- _ => destruct H end; subst; reflexivity.
  - (* F2_unary *)
    repeat match goal with H : _ \/ _ |- _ => destruct H end; try match goal with H : _ /\ _ |- _ => destruct H end; subst; reflexivity.
Qed.

(* ---- 2-d block reads ---- *)
Lemma arrF_get_block_form rows m n sr : is_block m n = true -> nth_rows rows (index_list (length rows) m) = Ok sr ->
  arrF_get rows (XPair m n) = GDense2F (map (fun r => map (getc r) (index_list (length r) n)) sr).
Proof. intros Hb E. destruct m, n; try discriminate Hb; cbn in *; unfold row_sel; cbn [index_list]; now rewrite E. Qed.
Lemma nth_rows_Forall {A} (P : A -> Prop) (rows : list A) sel sr : Forall P rows -> nth_rows rows sel = Ok sr -> Forall P sr.
Proof.
  intros HP. revert sr. induction sel as [|i sel IH]; intros sr E; cbn in E; [inversion E; constructor|].
  destruct (nth_error rows i) eqn:Er; [|discriminate]. destruct (nth_rows rows sel) eqn:E2; cbn in E; inversion E; subst.
  constructor; auto. eapply Forall_nth_error; eauto.
Qed.
Lemma block_rows_refines n sr sr' : forall w, valid_index w n -> Forall2 Rv sr sr' -> Forall (fun c => length c = w) sr ->
  exists B', mapM (fun r => do idx <- np_index_list (length r) n; np_take r idx) sr' = Ok B' /\
             Forall2 (Forall2 Qeq) (map (fun r => map (getc r) (index_list (length r) n)) sr) B'.
Proof.
  intros w Hv H Hw. induction H as [|r r' sr sr' Hr H IH]; cbn [mapM map]; [exists []; split; constructor|].
  inversion Hw as [|? ? Lr Hw']; subst. destruct (IH Hw') as (B' & E & RB).
  destruct (index_list_np (length r) n Hv) as [NI IR].
  rewrite <- (Rv_length _ _ Hr), NI. cbn [bind].
  destruct (get_idx_refines r r' (index_list (length r) n) Hr IR) as (v & Ev & Hv').
  rewrite Ev, E. eexists; split; [reflexivity|]. constructor; auto.
Qed.
Theorem get_block_history_refines rows M m n w : Forall2 Rv rows M -> is_block m n = true ->
  valid_index (length rows) m -> Forall (fun c => length c = w) rows -> valid_index w n ->
  exists B B', arrF_get rows (XPair m n) = GDense2F B /\ np_get_block M m n = Ok B' /\ Forall2 (Forall2 Qeq) B B' /\
               length B = length (index_list (length rows) m).
Proof.
  intros H Hb Hm Hw Hv. destruct (index_list_np (length rows) m Hm) as [NI IR].
  destruct (nth_rows_refines rows M (index_list (length rows) m) H IR) as (sr & sr' & E & E' & R).
  pose proof (nth_rows_Forall _ _ _ _ Hw E) as Hsr.
  destruct (block_rows_refines n sr sr' w Hv R Hsr) as (B' & EB & RB).
  eexists; exists B'. split; [apply (arrF_get_block_form rows m n sr Hb E)|]. split; [|split; [exact RB|]].
  - unfold np_get_block. rewrite <- (Forall2_length _ _ _ H), NI. cbn [bind]. rewrite E'. cbn [bind]. exact EB.
  - rewrite map_length. clear -E. revert sr E. induction (index_list (length rows) m) as [|i sel IH]; intros sr E; cbn in E.
    + inversion E. reflexivity.
    + destruct (nth_error rows i); [|discriminate]. destruct (nth_rows rows sel) eqn:E2; cbn in E; inversion E; subst. cbn. now rewrite (IH _ eq_refl).
Qed.
Lemma step3_get_block s d i m n rows ro w : sim s d -> nth_error s i = Some (OA rows ro) -> is_block m n = true ->
  valid_index (length rows) m -> Forall (fun c => length c = w) rows -> valid_index w n -> good3 s d (XAGet i (XPair m n)).
Proof.
  intros Hs Ei Hb Hm Hw Hv. destruct (sim_array _ _ _ _ _ Hs Ei) as (M & Ei' & HM).
  destruct (get_block_history_refines rows M m n w HM Hb Hm Hw Hv) as (B & B' & E & E' & RB & _).
  unfold good3, np_step3, xstep. cbn [xstep_res np_extra3]. unfold getobj. rewrite Ei, Ei'. cbn [bind]. rewrite Hb, E, E'.
  cbn. auto.
Qed.

(* ---- writes into logical vectors: the set of true indices IS NumPy's boolean array, and the loops are NumPy's put ---- *)
Lemma setb_zip_put idx : forall (b vals : bits), Forall (fun i => (i < length b)%nat) idx -> setb_zip b idx vals = np_put b idx vals.
Proof.
  induction idx as [|i idx IH]; intros b vals Hi; [reflexivity|]. destruct vals as [|v vals]; [reflexivity|].
  inversion Hi as [|? ? Hi0 Hi1]; subst. cbn [setb_zip np_put]. unfold setb1.
  pose proof Hi0 as Lt. apply Nat.ltb_lt in Lt. rewrite Lt. cbn [bind]. apply IH. now rewrite upd_length.
Qed.
Lemma setb_all_zip (b : bits) idx t : setb_all b idx t = setb_zip b idx (repeat t (length idx)).
Proof. revert b. induction idx as [|i idx IH]; intros b; cbn; auto. destruct (setb1 b i t); cbn; auto. Qed.
Lemma truthy_b2q t : truthy (b2q t) = t. Proof. destruct t; reflexivity. Qed.
Lemma map_truthy_b2q l : map truthy (map b2q l) = l.
Proof. induction l as [|x l IH]; cbn [map]; [reflexivity|]. now rewrite truthy_b2q, IH. Qed.
Lemma repeat_map {A B} (x : B) (l : list A) : repeat x (length l) = map (fun _ => x) l.
Proof. induction l; cbn; congruence. Qed.
Lemma np_put_total {A} idx : forall (b vals : list A), Forall (fun i => (i < length b)%nat) idx -> exists r, np_put b idx vals = Ok r.
Proof.
  induction idx as [|i idx IH]; intros b vals Hi; [eexists; reflexivity|]. destruct vals as [|v vals]; [eexists; reflexivity|].
  inversion Hi as [|? ? H0 H1]; subst. cbn [np_put]. apply Nat.ltb_lt in H0. rewrite H0. apply IH. now rewrite upd_length.
Qed.
(* b[ix] = t for a truth value t *)
Lemma vecB_set_scalar b ix q isb : valid_index (length b) ix ->
  exists r, vecB_set b ix (PS q isb) = Ok r /\ np_setb b ix [truthy q] = Ok r.
Proof.
  intros Hv. destruct (index_list_np (length b) ix Hv) as [NI IR].
  assert (G : exists r, setb_all b (index_list (length b) ix) (truthy q) = Ok r /\
                        (do idx <- np_index_list (length b) ix; np_setitems b idx [truthy q]) = Ok r).
  { rewrite NI. cbn [bind]. rewrite np_setitems_scalar by exact IR. rewrite setb_all_zip, setb_zip_put by exact IR.
    destruct (np_put_total _ b (repeat (truthy q) (length (index_list (length b) ix))) IR) as (r & ->). eauto. }
  destruct ix as [k|k|l|mk|a0 b0 c0|]; cbn [vecB_set np_setb index_list] in *; try exact G.
  - unfold setb1. pose proof Hv as Lt. apply Nat.ltb_lt in Lt. rewrite Lt. eauto.
  - unfold setb1. pose proof Hv as Lt. apply Nat.ltb_lt in Lt. rewrite Lt. eauto.
  - (* [:] *)
    cbn [np_index_list bind]. rewrite np_setitems_scalar by (apply Forall_forall; intros j Hj; apply in_seq in Hj; lia).
    rewrite seq_length. pose proof (np_put_seq_repeat (truthy q) b []) as P. cbn in P. rewrite P.
    unfold trues, falses. destruct (truthy q); eauto.
Qed.
(* b[ix] = values (as many as selected positions, at least two) *)
Lemma setb_values b ix (w : bits) : valid_index (length b) ix -> nonint_ix ix -> length w = length (index_list (length b) ix) ->
  exists r, (match ix with
             | IOpen => setb_zip (falses (length b)) (seq 0 (length w)) w
             | _ => setb_zip b (index_list (length b) ix) w end) = Ok r /\ np_setb b ix w = Ok r.
Proof.
  intros Hv Hn Hl. destruct (index_list_np (length b) ix Hv) as [NI IR].
  assert (G : exists r, setb_zip b (index_list (length b) ix) w = Ok r /\
                        (do idx <- np_index_list (length b) ix; np_setitems b idx w) = Ok r).
  { rewrite NI. cbn [bind]. rewrite np_setitems_put by auto. rewrite setb_zip_put by exact IR.
    destruct (np_put_total _ b w IR) as (r & ->). eauto. }
  destruct ix as [k|k|l|mk|a0 b0 c0|]; cbn in Hn; try contradiction; cbn [np_setb index_list] in *; try exact G.
  (* [:] *)
  rewrite seq_length in Hl. cbn [np_index_list bind].
  rewrite np_setitems_put by (rewrite ?seq_length; auto).
  rewrite setb_zip_put by (unfold falses; rewrite repeat_length, Hl; exact IR).
  pose proof (np_put_seq_all w (falses (length b)) []) as P1. cbn in P1. rewrite P1 by (unfold falses; now rewrite repeat_length).
  rewrite <- Hl. pose proof (np_put_seq_all w b []) as P2. cbn in P2. rewrite P2 by congruence. eauto.
Qed.

Lemma step3_lset_scalar s d i ix x b : sim s d -> nth_error s i = Some (OL b) -> valid_index (length b) ix ->
  (exists q, x = AScal q) \/ (exists t, x = ABool t) -> good3 s d (XOp (OSet i ix x)).
Proof.
  intros Hs Ei Hv Hx. pose proof (sim_logical _ _ _ _ Hs Ei) as Ei'.
  assert (K : exists q isb w, resolve s x = Ok (PS q isb) /\ dargbv d x = Some w /\ w = [truthy q] /\ alias_of x i = false).
  { destruct Hx as [(q & ->)|(t & ->)].
    - exists q, false, [truthy q]. auto.
    - exists (b2q t), true, [t]. repeat split. now rewrite truthy_b2q. }
  destruct K as (q & isb & w & R & D & -> & Al).
  destruct (vecB_set_scalar b ix q isb Hv) as (r & E & E').
  assert (G0 : is_int ix && negb (len1 [truthy q]) = false) by (cbn; apply andb_false_r).
  unfold good3, np_step3, xstep. cbn [xstep_res step_res np_extra3]. unfold getobj. rewrite Ei, Ei', R, D, Al, G0. cbn [bind reduce_obj vd2 andb].
  rewrite andb_false_r. rewrite E, E'. cbn. split; [apply sim_upd; auto; reflexivity|split; [reflexivity|exact I]].
Qed.
Lemma step3_lset_values s d i ix x b w : sim s d -> nth_error s i = Some (OL b) -> valid_index (length b) ix -> nonint_ix ix ->
  lvalarg s i x = Some w -> length w = length (index_list (length b) ix) -> (2 <= length w)%nat ->
  good3 s d (XOp (OSet i ix x)).
Proof.
  intros Hs Ei Hv Hn Hx Hl H2. pose proof (sim_logical _ _ _ _ Hs Ei) as Ei'.
  destruct (setb_values b ix w Hv Hn Hl) as (r & E & E').
  assert (K : exists p, resolve s x = Ok p /\ dargbv d x = Some w /\ alias_of x i = false /\ reduce_obj p = p /\ vd2 p = false /\
                        vecB_set b ix p = match ix with
                                          | IOpen => setb_zip (falses (length b)) (seq 0 (length w)) w
                                          | _ => setb_zip b (index_list (length b) ix) w end).
  { destruct x as [j|q|t|l|l|m|m]; cbn in Hx; try discriminate.
    - destruct (Nat.eqb j i) eqn:Ej; [discriminate|]. destruct (nth_error s j) as [[| b2 | |]|] eqn:Es; try discriminate.
      assert (Ej' : Nat.eqb i j = false) by (now rewrite Nat.eqb_sym).
      inversion Hx; subst b2. exists (PL w). cbn [resolve dargbv alias_of]. unfold getobj. rewrite Es, (sim_logical _ _ _ _ Hs Es), Ej'.
      destruct w as [|x0 [|x1 w]]; cbn in H2; try lia.
      repeat split. destruct ix; cbn in Hn; try contradiction; reflexivity.
    - inversion Hx; subst w. rewrite map_length in H2. exists (PArr l false). cbn [resolve dargbv alias_of].
      destruct l as [|x0 [|x1 l]]; cbn in H2; try lia.
      repeat split. destruct ix; cbn in Hn; try contradiction; cbn [vecB_set]; rewrite ?map_length; reflexivity.
    - inversion Hx; subst w. exists (PArr (map b2q l) true). cbn [resolve dargbv alias_of].
      destruct l as [|x0 [|x1 l]]; cbn in H2; try lia.
      repeat split. destruct ix; cbn in Hn; try contradiction; cbn [vecB_set]; rewrite ?map_length;
        change (b2q x0 :: b2q x1 :: map b2q l) with (map b2q (x0 :: x1 :: l)); rewrite ?map_truthy_b2q, ?map_length; reflexivity. }
  destruct K as (p & R & D & Al & Rp & V2 & Es).
  assert (G0 : is_int ix && negb (len1 w) = false) by (destruct ix; cbn in Hn; try contradiction; reflexivity).
  unfold good3, np_step3, xstep. cbn [xstep_res step_res np_extra3]. unfold getobj. rewrite Ei, Ei', R, D, Al, G0. cbn [bind andb].
  rewrite Rp, V2, andb_false_r, Es, E, E'. cbn. split; [apply sim_upd; auto; reflexivity|split; [reflexivity|exact I]].
Qed.

(* ---- mean / max / min of a logical vector ---- *)
Lemma in_map_b2q y (b : bits) : In y (map b2q b) -> y = 1 \/ y = 0.
Proof. intros H. apply in_map_iff in H as ([|] & <- & _); auto. Qed.
Lemma lmax_refines (b : bits) : b <> [] -> isMax (b2q (existsb (fun x : bool => x) b)) (map b2q b).
Proof.
  intros Hne. destruct (existsb (fun x : bool => x) b) eqn:E.
  - apply existsb_exists in E as (x & Hx & ->). split.
    + exists 1. split; [|reflexivity]. change 1 with (b2q true). now apply in_map.
    + intros y Hy. destruct (in_map_b2q _ _ Hy) as [-> | ->]; cbn; lra.
  - split.
    + destruct b as [|x b]; [congruence|]. cbn in E. apply orb_false_elim in E as [-> _]. exists 0. split; [now left|reflexivity].
    + intros y Hy. apply in_map_iff in Hy as (x & <- & Hx). destruct x; [|cbn; lra].
      exfalso. assert (T : existsb (fun x : bool => x) b = true) by (apply existsb_exists; eauto). congruence.
Qed.
Lemma lmin_refines (b : bits) : b <> [] -> isMin (b2q (forallb (fun x : bool => x) b)) (map b2q b).
Proof.
  intros Hne. destruct (forallb (fun x : bool => x) b) eqn:E.
  - split.
    + destruct b as [|x b]; [congruence|]. cbn in E. apply andb_prop in E as [-> _]. exists 1. split; [now left|reflexivity].
    + intros y Hy. apply in_map_iff in Hy as (x & <- & Hx). rewrite forallb_forall in E. rewrite (E x Hx). cbn. lra.
  - split.
    + assert (X : exists x, In x b /\ x = false).
      { clear Hne. induction b as [|x b IH]; [discriminate|]. cbn in E. destruct x; [|exists false; split; [now left|reflexivity]].
        destruct (IH E) as (y & Hy & ->). exists false. split; [now right|reflexivity]. }
      destruct X as (x & Hx & ->). exists 0. split; [|reflexivity]. change 0 with (b2q false). now apply in_map.
    + intros y Hy. destruct (in_map_b2q _ _ Hy) as [-> | ->]; cbn; lra.
Qed.
Theorem lred_refines r (b : bits) keep : b <> [] -> r = RMean \/ r = RMax \/ r = RMin ->
  exists q q', np_lred r b = Ok q' /\ q == q' /\
               red_vecB r b keep = (if keep then RNew (OV (keep1 q) false) else RScal q).
Proof.
  intros Hne Hr. pose proof (nset_sum b) as S. pose proof (nset_le b) as Le. pose proof (nset_any b) as A1. pose proof (nset_all b) as A2.
  assert (L0 : len0 b = false) by (destruct b; [congruence|reflexivity]).
  assert (Lm : len0 (map b2q b) = false) by (destruct b; [congruence|reflexivity]).
  unfold np_lred, red_vecB. destruct Hr as [-> | [-> | ->]]; cbn [np_red_num].
  - unfold np_mean. rewrite Lm, map_length. do 2 eexists. split; [reflexivity|]. split; [|reflexivity].
    unfold np_sum in S. destruct (Nat.eqb (nset b) 0) eqn:Z.
    + apply Nat.eqb_eq in Z. rewrite Z in S. rewrite <- S. change (qofnat 0) with 0. unfold Qdiv. ring.
    + now rewrite S.
  - destruct (map b2q b) as [|x t] eqn:Em; [discriminate|]. cbn [np_max].
    exists (b2q (existsb (fun x : bool => x) b)), (qmaxl x t). split; [reflexivity|]. split.
    + eapply isMax_unique; [apply Forall2_Qeq_refl | | apply qmaxl_spec]. rewrite <- Em. now apply lmax_refines.
    + rewrite <- A1, L0. destruct (Nat.eqb (nset b) 0); reflexivity.
  - destruct (map b2q b) as [|x t] eqn:Em; [discriminate|]. cbn [np_min].
    exists (b2q (forallb (fun x : bool => x) b)), (qminl x t). split; [reflexivity|]. split.
    + eapply isMin_unique; [apply Forall2_Qeq_refl | | apply qminl_spec]. rewrite <- Em. now apply lmin_refines.
    + rewrite <- A2, L0. destruct (Nat.eqb (nset b) 0) eqn:Z; cbn [negb].
      * apply Nat.eqb_eq in Z. assert (N : Nat.eqb (nset b) (length b) = false) by (apply Nat.eqb_neq; destruct b; [congruence|cbn in *; lia]).
        rewrite N. reflexivity.
      * assert (N : Nat.leb (length b) (nset b) = Nat.eqb (nset b) (length b)).
        { destruct (Nat.eqb (nset b) (length b)) eqn:Q; [apply Nat.eqb_eq in Q; apply Nat.leb_le; lia | apply Nat.eqb_neq in Q; apply Nat.leb_gt; lia]. }
        rewrite N. reflexivity.
Qed.
Lemma step3_lred s d r i axis keep b : sim s d -> nth_error s i = Some (OL b) -> b <> [] -> (r = RMean \/ r = RMax \/ r = RMin) ->
  (axis = None \/ axis = Some O) -> good3 s d (XOp (ORed r i axis keep)).
Proof.
  intros Hs Ei Hne Hr Hax. pose proof (sim_logical _ _ _ _ Hs Ei) as Ei'.
  destruct (lred_refines r b keep Hne Hr) as (q & q' & E' & Hq & E).
  pose proof (keep1_refines q q' Hq) as K.
  unfold good3, np_step3, xstep. cbn [xstep_res step_res np_extra3]. unfold getobj. rewrite Ei, Ei'. cbn [bind].
  destruct Hax; subst axis; destruct Hr as [Hr|[Hr|Hr]]; subst r; rewrite E, E'; destruct keep; cbn;
    (split; [first [apply sim_app; auto; cbn; auto | exact Hs] | split; [reflexivity | cbn; auto]]).
Qed.

(* ---- all histories over the enlarged fragment ---- *)
Lemma orel_orel3 r d : orel r d -> orel3 r (D3 d). Proof. auto. Qed.
Lemma step_sim3 s d o : sim s d -> fop3 s o -> good3 s d o.
Proof.
  intros Hs Ho. destruct Ho as [o Ho| | | |].
  - destruct (step_sim2 s d o Hs Ho) as (G1 & G2 & G3). unfold good3, np_step3. rewrite (np_extra3_old s d o Hs Ho). cbn [fst snd]. auto.
  - eapply step3_get_block; eauto.
  - eapply step3_lset_scalar; eauto.
  - eapply step3_lset_values; eauto.
  - eapply step3_lred; eauto.
Qed.
Inductive frun3 : store -> list xop -> Prop :=
| frun3_nil s : frun3 s []
| frun3_cons s o ops : fop3 s o -> frun3 (fst (xstep false s o)) ops -> frun3 s (o :: ops).
Fixpoint np_run3 (d : dstore) (ops : list xop) : dstore :=
  match ops with [] => d | o :: t => np_run3 (fst (np_step3 d o)) t end.
Fixpoint np_outs3 (d : dstore) (ops : list xop) : list doutcome3 :=
  match ops with [] => [] | o :: t => snd (np_step3 d o) :: np_outs3 (fst (np_step3 d o)) t end.
Theorem history_refines_3 ops : forall s d, sim s d -> frun3 s ops ->
  sim (fst (run false s ops)) (np_run3 d ops) /\ Forall2 orel3 (snd (run false s ops)) (np_outs3 d ops).
Proof.
  induction ops as [|o ops IH]; intros s d Hs Hf; cbn; [split; auto|].
  inversion Hf as [|s0 o0 ops0 Ho Hrest]; subst.
  destruct (step_sim3 s d o Hs Ho) as (H1 & H2 & H3).
  destruct (xstep false s o) as [s' r]. cbn in *. rewrite H2.
  specialize (IH s' (fst (np_step3 d o)) H1 Hrest). destruct (run false s' ops). cbn in *.
  destruct IH as [I1 I2]. split; auto.
Qed.
Corollary history_dense_3 ops s : store_wf s -> frun3 s ops ->
  sim (fst (run false s ops)) (np_run3 (abs_store s) ops) /\ Forall2 orel3 (snd (run false s ops)) (np_outs3 (abs_store s) ops).
Proof. intros Hw Hf. apply history_refines_3; auto. now apply sim_abs. Qed.
(* the dense step executed by the harness (np_step3h) is np_step3 wherever np_step2 adds nothing to np_step *)
Lemma np_step3h_step3 d o : np_extra d o = None -> np_step3h d o = np_step3 d o.
Proof.
  intros H. unfold np_step3h, np_step3, np_step2. rewrite H. destruct (np_extra3 d o); [reflexivity|]. now destruct (np_step d o).
Qed.
Lemma np_step3h_new d o r : np_extra3 d o = Some r -> np_step3h d o = r /\ np_step3 d o = r.
Proof. intros H. unfold np_step3h, np_step3. now rewrite H. Qed.

(* ================================================================== Part B: python ints as indices *)
Open Scope Z_scope.
(* B1: the layer is conservative: a non-negative python int is the nat index of Model.v *)
Lemma zgetc_nonneg c k : 0 <= k -> zgetc c k = getc c (Z.to_nat k).
Proof. intros H. unfold zgetc. assert (E : (k <? 0) = false) by (apply Z.ltb_ge; lia). now rewrite E. Qed.
Lemma zset1_nonneg c k q : 0 <= k -> zset1 c k q = set1 c (Z.to_nat k) q.
Proof. intros H. unfold zset1. assert (E : (k <? 0) = false) by (apply Z.ltb_ge; lia). now rewrite E. Qed.
Theorem zget_nonneg c k : 0 <= k -> vecF_zget c (ZInt k) = vec_get (VF c) (IInt (Z.to_nat k)).
Proof. intros H. cbn. now rewrite zgetc_nonneg. Qed.
Theorem zset_nonneg c k q : 0 <= k -> vecF_zset c (ZInt k) (SVScal q) = vecF_set c (IInt (Z.to_nat k)) (PS q false).
Proof. intros H. cbn. now rewrite zset1_nonneg. Qed.
(* every outcome of a python-int write keeps the representation invariant and the size *)
Lemma zset1_wf c k q r : wf c -> zset1 c k q = Ok r -> wf r.
Proof.
  unfold zset1. intros Hw H. destruct (k <? 0).
  - destruct (qzerob q); inversion H; subst; auto.
  - eapply set1_wf; eauto.
Qed.
Lemma zset_all_wf idx : forall c q r, wf c -> zset_all c idx q = Ok r -> wf r.
Proof.
  induction idx as [|i idx IH]; intros c q r Hw H; cbn in H; [inversion H; subst; auto|].
  destruct (zset1 c i q) eqn:E; cbn in H; try discriminate. eapply IH; [|exact H]. eapply zset1_wf; eauto.
Qed.
Lemma zset_zip_wf idx : forall c vals r, wf c -> zset_zip c idx vals = Ok r -> wf r.
Proof.
  induction idx as [|i idx IH]; intros c vals r Hw H; cbn in H; [inversion H; subst; auto|].
  destruct vals as [|v vals]; [inversion H; subst; auto|].
  destruct (zset1 c i v) eqn:E; cbn in H; try discriminate. eapply IH; [|exact H]. eapply zset1_wf; eauto.
Qed.
Theorem vecF_zset_wf c ix v r : wf c -> vecF_zset c ix v = Ok r -> wf r.
Proof.
  intros Hw H. destruct ix, v; cbn in H; try discriminate;
    first [eapply zset1_wf; eauto; fail | eapply zset_all_wf; eauto; fail | eapply zset_zip_wf; eauto].
Qed.

(* B2: what python list indexing (rows[k]) and NumPy do with an int *)
Lemma znorm_lt n k i : znorm n k = Some i -> (i < n)%nat.
Proof.
  unfold znorm. destruct (k <? 0) eqn:N.
  - destruct (- k <=? Z.of_nat n) eqn:L; intros H; inversion H; subst. apply Z.ltb_lt in N. apply Z.leb_le in L. lia.
  - destruct (k <? Z.of_nat n) eqn:L; intros H; inversion H; subst. apply Z.ltb_ge in N. apply Z.ltb_lt in L. lia.
Qed.
Lemma znorm_neg n k : - Z.of_nat n <= k < 0 -> znorm n k = Some (Z.to_nat (Z.of_nat n + k)).
Proof.
  intros [H1 H2]. unfold znorm. assert (N : (k <? 0) = true) by (apply Z.ltb_lt; lia). rewrite N.
  assert (L : (- k <=? Z.of_nat n) = true) by (apply Z.leb_le; lia). now rewrite L.
Qed.
Lemma znorm_nonneg n k : 0 <= k < Z.of_nat n -> znorm n k = Some (Z.to_nat k).
Proof.
  intros [H1 H2]. unfold znorm. assert (N : (k <? 0) = false) by (apply Z.ltb_ge; lia). rewrite N.
  assert (L : (k <? Z.of_nat n) = true) by (apply Z.ltb_lt; lia). now rewrite L.
Qed.

(* B3: a negative int as the index of a SparseVector.  The read returns 0 whatever is stored; NumPy returns the element
   counted from the end; the two agree exactly when that element is zero. *)
Theorem neg_get_reads_zero c k : k < 0 -> zgetc c k = 0%Q.
Proof. intros H. unfold zgetc. assert (E : (k <? 0) = true) by (apply Z.ltb_lt; lia). now rewrite E. Qed.
Theorem neg_get_vs_numpy c v k : Rv c v -> - Z.of_nat (length c) <= k < 0 ->
  exists q', np_zget1 v k = Ok q' /\ q' = nth (Z.to_nat (Z.of_nat (length c) + k)) v 0%Q /\
             vecF_zget c (ZInt k) = RScal 0 /\ ((0 == q')%Q <-> (getc c (Z.to_nat (Z.of_nat (length c) + k)) == 0)%Q).
Proof.
  intros H Hk. pose proof (Rv_length _ _ H) as L. unfold np_zget1, np_znorm. rewrite <- L, (znorm_neg _ _ Hk). cbn [bind].
  set (i := Z.to_nat (Z.of_nat (length c) + k)).
  assert (Hi : (i < length v)%nat) by (subst i; lia).
  rewrite (np_get1_nth v i 0%Q Hi). eexists. split; [reflexivity|]. split; [reflexivity|]. split.
  - cbn. now rewrite neg_get_reads_zero by lia.
  - rewrite (Rv_nth c v i H). split; intros E; [now symmetry | now symmetry].
Qed.
Definition neg_get_statement : Prop :=
  forall c v k, Rv c v -> - Z.of_nat (length c) <= k < 0 -> orel (vecF_zget c (ZInt k)) (np_zget v (ZInt k)).
Theorem neg_get_refuted : ~ neg_get_statement.
Proof.
  intros H. specialize (H (of_dense [1; 2]%Q) [1; 2]%Q (-1) (Rv_of_dense _)). cbn in H.
  assert (K : -2 <= -1 < 0) by lia. specialize (H K). vm_compute in H. discriminate H.
Qed.
(* the write: a non-zero value is stored under the negative key (the state leaves the representable ones: no key of the dict
   may lie outside range(size)); a zero value deletes nothing, so the element NumPy sets to zero keeps its value *)
Theorem neg_set_nonzero c k q : k < 0 -> ~ (q == 0)%Q -> vecF_zset c (ZInt k) (SVScal q) = Err EOther.
Proof.
  intros H Hq. cbn. unfold zset1. assert (E : (k <? 0) = true) by (apply Z.ltb_lt; lia). rewrite E.
  destruct (qzerob q) eqn:Z; [|reflexivity]. exfalso. apply Hq. now apply Qeq_bool_iff in Z.
Qed.
Theorem neg_set_zero c v k q : Rv c v -> - Z.of_nat (length c) <= k < 0 -> (q == 0)%Q ->
  vecF_zset c (ZInt k) (SVScal q) = Ok c /\ np_zset v (ZInt k) [q] = Ok (upd v (Z.to_nat (Z.of_nat (length c) + k)) q).
Proof.
  intros H Hk Hq. pose proof (Rv_length _ _ H) as L. split.
  - cbn. unfold zset1. assert (E : (k <? 0) = true) by (apply Z.ltb_lt; lia). rewrite E.
    assert (Z : qzerob q = true) by (now apply Qeq_bool_iff). now rewrite Z.
  - cbn. unfold np_znorm. rewrite <- L, (znorm_neg _ _ Hk). reflexivity.
Qed.
Definition neg_set_statement : Prop :=
  forall c v k q, Rv c v -> - Z.of_nat (length c) <= k < 0 ->
    match vecF_zset c (ZInt k) (SVScal q), np_zset v (ZInt k) [q] with
    | Ok r, Ok r' => Rv r r'
    | Err _, Err _ => True
    | _, _ => False
    end.
Theorem neg_set_refuted : ~ neg_set_statement.
Proof.
  intros H. specialize (H (of_dense [1; 2]%Q) [1; 2]%Q (-1) 5%Q (Rv_of_dense _)). cbn in H.
  assert (K : -2 <= -1 < 0) by lia. specialize (H K). vm_compute in H. exact H.
Qed.
(* slices with a negative bound: default_range(slice, size) = range(start, stop, step) takes the bounds as they are *)
Definition neg_slice_statement : Prop :=
  forall c v a b, Rv c v -> - Z.of_nat (length c) <= a < 0 -> 0 <= b <= Z.of_nat (length c) ->
    orel (vecF_zget c (ZSlice a b 1)) (np_zget v (ZSlice a b 1)).
Theorem neg_slice_refuted : ~ neg_slice_statement.
Proof.
  intros H. specialize (H (of_dense [1; 2]%Q) [1; 2]%Q (-1) 2 (Rv_of_dense _)). cbn in H.
  assert (K : -2 <= -1 < 0) by lia. assert (K2 : 0 <= 2 <= 2) by lia. specialize (H K K2). vm_compute in H. pose proof (Forall2_length _ _ _ H) as L. discriminate L.
Qed.

(* B4: the row index of a SparseArray is a python list index: a[k], a[k, j], a[[k...], j] ARE NumPy's for every int k
   (negative or not, in range or not) and every column j >= 0 inside the rows *)
Theorem arr_zget_row_refines rows M k ro : Forall2 Rv rows M ->
  match arrF_zget rows (ZRow k), np_azget M ro (ZRow k) with
  | GRow i, DNew (DV r' ro') => Rv (nth i rows []) r' /\ ro' = ro /\ (i < length rows)%nat
  | GErr e, DErr e' => e = e'
  | _, _ => False
  end.
Proof.
  intros H. cbn. unfold np_zget1, np_znorm. rewrite <- (Forall2_length _ _ _ H).
  destruct (znorm (length rows) k) as [i|] eqn:E; cbn; [|reflexivity].
  pose proof (znorm_lt _ _ _ E) as Hi.
  rewrite (np_get1_nth M i []) by (now rewrite <- (Forall2_length _ _ _ H)). cbn. split; [now apply nth_Rv|auto].
Qed.
Theorem arr_zget_elem_refines rows M k j ro w : Forall2 Rv rows M -> Forall (fun c => length c = w) rows -> 0 <= j < Z.of_nat w ->
  match arrF_zget rows (ZElem k j), np_azget M ro (ZElem k j) with
  | GScalF q, DScal q' => (q == q')%Q
  | GErr e, DErr e' => e = e'
  | _, _ => False
  end.
Proof.
  intros H Hw Hj. cbn [arrF_zget np_azget]. replace (np_zget1 M k) with (do i <- np_znorm (length rows) k; np_get1 M i)
    by (unfold np_zget1; now rewrite (Forall2_length _ _ _ H)).
  unfold np_znorm. destruct (znorm (length rows) k) as [i|] eqn:E; cbn [bind dres]; [|reflexivity].
  pose proof (znorm_lt _ _ _ E) as Hi.
  rewrite (np_get1_nth M i []) by (now rewrite <- (Forall2_length _ _ _ H)). cbn [bind].
  pose proof (nth_Rv rows M i H Hi) as Hr.
  assert (Lr : length (nth i rows []) = w) by (eapply Forall_forall in Hw; [exact Hw|now apply nth_In]).
  unfold np_zget1, np_znorm. rewrite <- (Rv_length _ _ Hr), Lr, (znorm_nonneg _ _ Hj). cbn [bind].
  rewrite (np_get1_nth (nth i M []) (Z.to_nat j) 0%Q) by (rewrite <- (Rv_length _ _ Hr), Lr; lia). cbn.
  rewrite zgetc_nonneg by lia. now apply Rv_nth.
Qed.
Lemma zrows_refines rows M ks : Forall2 Rv rows M ->
  match zrows rows ks, (do sel <- mapM (np_znorm (length M)) ks; np_take M sel) with
  | Ok sr, Ok sr' => Forall2 Rv sr sr' /\ Forall (fun r => In r rows) sr
  | Err e, Err e' => e = e'
  | _, _ => False
  end.
Proof.
  intros H. pose proof (Forall2_length _ _ _ H) as L. rewrite <- L. unfold np_znorm.
  induction ks as [|k ks IH]; [cbn; split; constructor|]. cbn [zrows mapM bind].
  destruct (znorm (length rows) k) as [i|] eqn:E; cbn [bind]; [|reflexivity].
  pose proof (znorm_lt _ _ _ E) as Hi.
  destruct (nth_error rows i) as [r|] eqn:Er; [|apply nth_error_None in Er; lia].
  destruct (zrows rows ks) as [sr|e]; destruct (mapM _ ks) as [sel|e']; cbn in IH |- *;
    try (destruct (np_take M sel) as [sr'|e2] eqn:T; cbn in IH); try contradiction; try (subst; reflexivity).
  - unfold np_take in *. cbn [mapM]. rewrite (np_get1_nth M i []) by (now rewrite <- (Forall2_length _ _ _ H)). rewrite T.
    destruct IH as [I1 I2]. split; constructor; auto.
    + rewrite <- (nth_error_nth rows i [] Er). now apply nth_Rv.
    + eapply nth_error_In; eauto.
  - unfold np_take in *. cbn [mapM]. rewrite (np_get1_nth M i []) by (now rewrite <- (Forall2_length _ _ _ H)). rewrite T. exact IH.
Qed.
Theorem arr_zget_col_refines rows M ks j ro w : Forall2 Rv rows M -> Forall (fun c => length c = w) rows -> 0 <= j < Z.of_nat w ->
  match arrF_zget rows (ZCol ks j), np_azget M ro (ZCol ks j) with
  | GDenseF l, DDense l' => Forall2 Qeq l l'
  | GErr e, DErr e' => e = e'
  | _, _ => False
  end.
Proof.
  intros H Hw Hj. cbn [arrF_zget np_azget]. pose proof (zrows_refines rows M ks H) as Z.
  destruct (mapM (np_znorm (length M)) ks) as [sel|e1]; cbn [bind] in Z |- *;
    [destruct (np_take M sel) as [sr'|e2]; cbn [bind] in Z |- *|];
    destruct (zrows rows ks) as [sr|e]; try contradiction; cbn [dres]; auto.
  destruct Z as [Z1 Z2].
  assert (G : exists l', mapM (fun r => np_zget1 r j) sr' = Ok l' /\ Forall2 Qeq (map (fun r => zgetc r j) sr) l').
  { induction Z1 as [|r r' sr sr' Hr Z1 IH]; cbn; [eexists; split; constructor|].
    inversion Z2 as [|? ? I1 I2]; subst. destruct (IH I2) as (l' & El & Rl).
    assert (Lr : length r = w) by (eapply Forall_forall in Hw; eauto).
    unfold np_zget1 at 1. unfold np_znorm. rewrite <- (Rv_length _ _ Hr), Lr, (znorm_nonneg _ _ Hj). cbn [bind].
    rewrite (np_get1_nth r' (Z.to_nat j) 0%Q) by (rewrite <- (Rv_length _ _ Hr), Lr; lia). rewrite El.
    eexists; split; [reflexivity|]. constructor; auto. rewrite zgetc_nonneg by lia. now apply Rv_nth. }
  destruct G as (l' & -> & Rl). cbn [dres]. exact Rl.
Qed.
(* a negative COLUMN index goes to the row's dict and reads 0 *)
Definition neg_column_statement : Prop :=
  forall rows M k j w, Forall2 Rv rows M -> Forall (fun c => length c = w) rows -> - Z.of_nat w <= j < 0 ->
    match arrF_zget rows (ZElem k j), np_azget M false (ZElem k j) with
    | GScalF q, DScal q' => (q == q')%Q
    | GErr e, DErr e' => e = e'
    | _, _ => False
    end.
Theorem neg_column_refuted : ~ neg_column_statement.
Proof.
  intros H. specialize (H [of_dense [1; 2]%Q] [[1; 2]%Q] 0 (-1) 2%nat).
  assert (R : Forall2 Rv [of_dense [1; 2]%Q] [[1; 2]%Q]) by (constructor; [apply Rv_of_dense|constructor]).
  assert (W : Forall (fun c => length c = 2%nat) [of_dense [1; 2]%Q]) by (repeat constructor).
  assert (K : - Z.of_nat 2 <= -1 < 0) by (cbn; lia). specialize (H R W K). vm_compute in H. discriminate H.
Qed.
Close Scope Z_scope.

(* B5: a[:, n] with an ndarray n *)
(* repaired source: NumPy's block for every int array / mask *)
Theorem open_nd_refines rows M n w : Forall2 Rv rows M -> Forall (fun c => length c = w) rows -> valid_index w n ->
  match n with IList _ | IMask _ => True | _ => False end ->
  exists B B', arrF_get_open_nd false rows n = GDense2F B /\ np_get_block M IOpen n = Ok B' /\ Forall2 (Forall2 Qeq) B B' /\
               length B = length rows.
Proof.
  intros H Hw Hv Hn. cbn [arrF_get_open_nd].
  destruct (get_block_history_refines rows M IOpen n w H) as (B & B' & E1 & E2 & R & L); auto.
  - destruct n; try contradiction; reflexivity.
  - exact I.
  - exists B, B'. repeat split; auto. rewrite L. cbn. apply seq_length.
Qed.
(* unrepaired source *)
Definition open_nd_legacy_statement : Prop :=
  forall rows M n w, Forall2 Rv rows M -> Forall (fun c => length c = w) rows -> valid_index w n ->
    match n with IList _ | IMask _ => True | _ => False end ->
    exists B B', arrF_get_open_nd true rows n = GDense2F B /\ np_get_block M IOpen n = Ok B' /\ Forall2 (Forall2 Qeq) B B'.
Theorem open_nd_legacy_refuted : ~ open_nd_legacy_statement.
Proof.
  intros H. destruct (H [of_dense [1; 2]] [[1; 2]] (IList [0; 1]%nat) 2%nat) as (B & B' & E & _).
  - constructor; [apply Rv_of_dense|constructor].
  - repeat constructor.
  - repeat constructor.
  - exact I.
  - vm_compute in E. discriminate E.
Qed.
