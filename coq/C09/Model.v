(* C09 — executable model of thermosteam/base/sparse.py (SparseVector, SparseLogicalVector,
   SparseArray) as proposed to be repaired by pending_fixes/C09_1 .. C09_7; the kernels of the unrepaired
   source are kept next to them and selected by the flag [lg] (legacy).  Definitions only.

   Representation.  A SparseVector of size n with dictionary dct is the list of n cells
   [dct.get(0) ; ... ; dct.get(n-1)] where an absent key is None.  A key outside range(n) has no
   representation: operations of the implementation that would store one return [Err EOther]
   (= "the implementation did not raise and left the representable states"; the history ends there).
   A SparseLogicalVector is the list of membership bits of its set.  A SparseArray is the list of
   its rows (all SparseVector or all SparseLogicalVector).  Numbers are exact rationals (float
   rounding, nan, inf, -0.0 are not modelled).  Objects are values: results that share rows with a
   SparseArray (a[i], a[[i, j]], a[mask]) are reported but not put into the store; `other is self`
   is modelled explicitly (alias flag) where the source behaves differently for it.

   Exceptions -> Common.err:  ValueError -> EValue, IndexError -> EIndex, TypeError/AttributeError -> EType,
   ZeroDivisionError / FloatingPointError -> EZeroDiv, RuntimeError -> ERuntime.

   Inventory (source lines of thermosteam/base/sparse.py):
   * float vectors: _add/_sub/_mul/_truediv x _scalar/_sparse/_array, binary (1736-2223) and in-place
     (1820-2274, same per-key updates; differences: self.size assignment, other is self), with the
     size == other_size / size == 1 / other_size == 1 branches; __neg__, __abs__, __rtruediv__, __radd__,
     __rsub__, __rmul__; comparison template gt/lt/ge/le (178-235) and hand-written _eq_*/_ne_* (2295-2422)
   * logical vectors: _iadd/_imul/_itruediv/_iand/_ixor/_ior x _scalar/_sparse/_array (2777-3048), binary forms
     through copy() / promotion to float (307-330), __sub__/__isub__, __neg__, __invert__, __rtruediv__,
     comparisons _eq.._le_sparse (3050-3187) and the scalar/array template (259-305)
   * dispatch templates sparse_vector_math / sparse_vector_imath / sparse_array_math / sparse_array_imath (22-177)
     with reduce_ndim (464-493), dtype promotion, one-row broadcasting and zip() over rows
   * __getitem__/__setitem__ of SparseVector (1621-1703), SparseLogicalVector (2661-2740), SparseArray (732-971)
     for int, 1-tuple, int list/ndarray, boolean mask, slice, open slice and (row, column) pairs
   * reductions any/all/sum/mean/max/min with axis/keepdims on vectors (1552-1600, 2604-2650) and arrays
     (1025-1207; boolean arrays: any/all only), copy, clear, setflags(0) / read_only, to_array, construction
     from list / ndarray / dict / SparseVector / sparse()
   * copy_like of SparseVector (1611-1615, with its `dct is other.dct` test) and SparseArray (598-601, row by row, also
     from a[[sel]] which shares the row objects), to_flat_array(buffer) / from_flat_array (694-727, 1471-1480, 2541-2550)
   Not modelled: negative indices and steps, mix_from, sum_of, nonzero_* / negative_* helpers,
   the `# pragma: no cover` methods that delegate to to_array(), numeric
   reductions of boolean arrays, SparseLogicalVector/boolean SparseArray __setitem__ through arrays. *)
From V Require Export Common.Num.

(* ------------------------------------------------------------------ cells *)
Definition cell := option Q.
Definition cells := list cell.
Definition dcell (c : cell) : Q := match c with Some q => q | None => 0 end.
Definition dense (c : cells) : list Q := map dcell c.
(* python: `if j: d[i] = j` (else the key is left out / deleted) *)
Definition nz (q : Q) : cell := if qzerob q then None else Some q.
Definition of_dense (l : list Q) : cells := map nz l.
Definition present (c : cell) : bool := match c with Some _ => true | None => false end.
Definition nkeys (c : cells) : nat := length (filter present c).     (* len(dct) *)
Definition empty_cells (n : nat) : cells := repeat None n.

Fixpoint mapM {A B} (f : A -> res B) (l : list A) : res (list B) :=
  match l with
  | [] => Ok []
  | x :: t => match f x with
              | Err e => Err e
              | Ok y => match mapM f t with Ok r => Ok (y :: r) | Err e => Err e end
              end
  end.

Fixpoint map2M {A B C} (f : A -> B -> res C) (a : list A) (b : list B) : res (list C) :=
  match a, b with
  | x :: a', y :: b' => match f x y with
                        | Err e => Err e
                        | Ok z => match map2M f a' b' with Ok r => Ok (z :: r) | Err e => Err e end
                        end
  | _, _ => Ok []
  end.

Definition len1 {A} (l : list A) : bool := Nat.eqb (length l) 1.
Definition len0 {A} (l : list A) : bool := Nat.eqb (length l) 0.

(* The three-way size dispatch shared by every _<op>_sparse kernel:
     if size == other_size: ... elif size == 1 and other_size: ... elif other_size == 1: ... else: raise ValueError
   (_eq_sparse/_ne_sparse test other_size == 1 first; the two orders agree because both tests can only
   hold together when the sizes are equal, which is the first branch). *)
Definition dispatch_sparse {B R} (same : cells -> list B -> res R) (self1 : cell -> list B -> res R)
           (other1 : cells -> option B -> res R) (a : cells) (b : list B) : res R :=
  if Nat.eqb (length a) (length b) then same a b
  else if len1 a && negb (len0 b) then self1 (hd None a) b
  else if len1 b then other1 a (hd_error b)
  else Err EValue.

(* _<op>_array kernels:  if size == other_size ... elif size == 1 and other_size ... else ValueError *)
Definition dispatch_array {B R} (same : cells -> list B -> res R) (self1 : cell -> list B -> res R)
           (a : cells) (b : list B) : res R :=
  if Nat.eqb (length a) (length b) then same a b
  else if len1 a && negb (len0 b) then self1 (hd None a) b
  else Err EValue.

(* ------------------------------------------------------------------ SparseVector: + *)
(* _add_sparse / _iadd_sparse, size == other_size:  for i, j in other_dct.items(): ... *)
Definition add_same_c (x y : cell) : cell :=
  match y with
  | None => x
  | Some j => match x with Some v => nz (j + v) | None => Some j end
  end.
(* size == 1: `if 0 in dct` -> for i in range(other_size) ...   else other_dct.copy() *)
Definition add_self1 (v : cell) (b : cells) : cells :=
  match v with
  | Some value => map (fun o => match o with Some y => nz (value + y) | None => Some value end) b
  | None => b
  end.
(* other_size == 1 and _add_scalar (with `if other`) *)
Definition add_other1 (a : cells) (o : cell) : cells :=
  match o with
  | Some other => map (fun c => match c with Some x => nz (x + other) | None => Some other end) a
  | None => a
  end.
Definition join_cell (o : option cell) : cell := match o with Some c => c | None => None end.

Definition add_sparse (a b : cells) : res cells :=
  dispatch_sparse (fun a b => Ok (map2 add_same_c a b)) (fun v b => Ok (add_self1 v b))
                  (fun a o => Ok (add_other1 a (join_cell o))) a b.
Definition add_scalar (a : cells) (k : Q) : res cells :=
  Ok (if qzerob k then a else add_other1 a (Some k)).
(* _add_array: `if not j: continue` *)
Definition add_arr_c (x : cell) (j : Q) : cell :=
  if qzerob j then x else match x with Some v => nz (v + j) | None => Some j end.
Definition add_arr_self1 (v : cell) (b : list Q) : cells :=
  match v with Some value => map (fun y => nz (value + y)) b | None => map nz b end.
Definition add_array (a : cells) (b : list Q) : res cells :=
  dispatch_array (fun a b => Ok (map2 add_arr_c a b)) (fun v b => Ok (add_arr_self1 v b)) a b.

(* ------------------------------------------------------------------ SparseVector: - *)
Definition sub_same_c (x y : cell) : cell :=
  match y with
  | None => x
  | Some j => match x with Some v => nz (v - j) | None => Some (- j) end
  end.
Definition sub_self1 (v : cell) (b : cells) : cells :=
  match v with
  | Some value => map (fun o => match o with Some y => nz (value - y) | None => Some value end) b
  | None => map (option_map Qopp) b
  end.
(* other = -other_dct[0]; j = dct[i] + other *)
Definition sub_other1 (a : cells) (o : cell) : cells :=
  match o with
  | Some other0 => let other := - other0 in
                   map (fun c => match c with Some x => nz (x + other) | None => Some other end) a
  | None => a
  end.
Definition sub_sparse (a b : cells) : res cells :=
  dispatch_sparse (fun a b => Ok (map2 sub_same_c a b)) (fun v b => Ok (sub_self1 v b))
                  (fun a o => Ok (sub_other1 a (join_cell o))) a b.
Definition sub_scalar (a : cells) (k : Q) : res cells :=
  Ok (if qzerob k then a else sub_other1 a (Some k)).
Definition sub_arr_c (x : cell) (j : Q) : cell :=
  if qzerob j then x else match x with Some v => nz (v - j) | None => Some (- j) end.
Definition sub_arr_self1 (v : cell) (b : list Q) : cells :=
  match v with
  | Some value => map (fun y => nz (value - y)) b
  | None => map (fun y => if qzerob y then None else Some (- y)) b
  end.
Definition sub_array (a : cells) (b : list Q) : res cells :=
  dispatch_array (fun a b => Ok (map2 sub_arr_c a b)) (fun v b => Ok (sub_arr_self1 v b)) a b.

(* ------------------------------------------------------------------ SparseVector: * *)
(* {i: dct[i] * other_dct[i] for i in dct if i in other_dct}: no zero test on the product *)
Definition mul_same_c (x y : cell) : cell :=
  match x, y with Some v, Some w => Some (v * w) | _, _ => None end.
Definition mul_self1 (v : cell) (b : cells) : cells :=
  match v with
  | Some value => map (option_map (fun j => value * j)) b
  | None => empty_cells (length b)
  end.
Definition mul_other1 (a : cells) (o : cell) : cells :=
  match o with
  | Some other => map (option_map (fun j => j * other)) a
  | None => empty_cells (length a)
  end.
Definition mul_sparse (a b : cells) : res cells :=
  dispatch_sparse (fun a b => Ok (map2 mul_same_c a b)) (fun v b => Ok (mul_self1 v b))
                  (fun a o => Ok (mul_other1 a (join_cell o))) a b.
Definition mul_scalar (a : cells) (k : Q) : res cells :=
  Ok (if qzerob k then empty_cells (length a) else map (option_map (fun j => j * k)) a).
Definition mul_arr_c (x : cell) (j : Q) : cell :=
  match x with Some v => if qzerob j then None else Some (v * j) | None => None end.
Definition mul_arr_self1 (v : cell) (b : list Q) : cells :=
  match v with
  | Some value => map (fun j => if qzerob j then None else Some (value * j)) b
  | None => empty_cells (length b)
  end.
Definition mul_array (a : cells) (b : list Q) : res cells :=
  dispatch_array (fun a b => Ok (map2 mul_arr_c a b)) (fun v b => Ok (mul_arr_self1 v b)) a b.

(* ------------------------------------------------------------------ SparseVector: / *)
(* python float division: x / 0.0 raises ZeroDivisionError; numpy scalars raise FloatingPointError
   because thermosteam sets np.seterr(divide='raise', invalid='raise'); both map to EZeroDiv *)
Definition qdiv (x y : Q) : res Q := if qzerob y then Err EZeroDiv else Ok (x / y).
Definition div_c (x : cell) (y : Q) : res cell :=
  match x with Some v => (do q <- qdiv v y; Ok (Some q)) | None => Ok None end.
(* _truediv_scalar: {i: j / other for i, j in dct.items()} *)
Definition truediv_scalar (a : cells) (k : Q) : res cells := mapM (fun c => div_c c k) a.
(* same size: a stored entry whose index is missing from other_dct is a division by zero
   (binary and in-place kernels after the repair of _truediv_sparse; see truediv_same_c_legacy) *)
Definition truediv_same_c (x y : cell) : res cell :=
  match x with
  | None => Ok None
  | Some v => match y with Some w => (do q <- qdiv v w; Ok (Some q)) | None => Err EZeroDiv end
  end.
(* size == 1:  if 0 in dct: (all of other must be stored, else ZeroDivisionError) value / j ...   else {} *)
Definition truediv_self1 (v : cell) (b : cells) : res cells :=
  match v with
  | Some value => if Nat.eqb (nkeys b) (length b)
                  then mapM (fun o => div_c (Some value) (dcell o)) b
                  else Err EZeroDiv
  | None => Ok (empty_cells (length b))
  end.
(* other_size == 1: 0 in other_dct -> j / other ; elif dct -> ZeroDivisionError ; else {} *)
Definition truediv_other1 (a : cells) (o : cell) : res cells :=
  match o with
  | Some other => mapM (fun c => div_c c other) a
  | None => if Nat.eqb (nkeys a) 0 then Ok a else Err EZeroDiv
  end.
Definition truediv_sparse (a b : cells) : res cells :=
  dispatch_sparse (map2M truediv_same_c) truediv_self1 (fun a o => truediv_other1 a (join_cell o)) a b.
(* _truediv_array: {i: j / other[i] for i, j in dct.items()};  size 1: value / float(other[i]) for all i *)
Definition truediv_arr_self1 (v : cell) (b : list Q) : res cells :=
  match v with
  | Some value => mapM (fun y => div_c (Some value) y) b
  | None => Ok (empty_cells (length b))
  end.
Definition truediv_array (a : cells) (b : list Q) : res cells :=
  dispatch_array (map2M div_c) truediv_arr_self1 a b.

(* The kernels as they were before the repairs proposed in pending_fixes/C09_2 (kept so that the
   refutation of the old behaviour stays checkable):
   _truediv_sparse same size:  if len(dct) > len(other_dct): raise ZeroDivisionError
                               new = {i: dct[i] / other_dct[i] for i in dct if i in other_dct}
   _itruediv_sparse size 1:    `if other_size != other_size` never fires; entries missing from other are dropped *)
Definition truediv_same_c_legacy (x y : cell) : res cell :=
  match x, y with
  | Some v, Some w => (do q <- qdiv v w; Ok (Some q))
  | _, _ => Ok None
  end.
Definition truediv_sparse_legacy (a b : cells) : res cells :=
  dispatch_sparse (fun a b => if Nat.ltb (nkeys b) (nkeys a) then Err EZeroDiv else map2M truediv_same_c_legacy a b)
                  truediv_self1 (fun a o => truediv_other1 a (join_cell o)) a b.
Definition itruediv_self1_legacy (v : cell) (b : cells) : res cells :=
  match v with
  | Some value => mapM (fun o => match o with Some j => div_c (Some value) j | None => Ok None end) b
  | None => Ok (empty_cells (length b))
  end.
Definition itruediv_sparse_legacy (a b : cells) : res cells :=
  dispatch_sparse (map2M truediv_same_c) itruediv_self1_legacy (fun a o => truediv_other1 a (join_cell o)) a b.

(* ------------------------------------------------------------------ unary, reflected *)
Definition neg_cells (a : cells) : cells := map (option_map Qopp) a.
Definition abs_cells (a : cells) : cells := map (option_map Qabs) a.
(* __rtruediv__ with a scalar:  elif other: (len(dct) != size -> ZeroDivisionError) other / dct[i]   else: {} *)
Definition rtruediv_scalar (a : cells) (k : Q) : res cells :=
  if qzerob k then Ok (empty_cells (length a))
  else if Nat.eqb (nkeys a) (length a) then mapM (fun c => do q <- qdiv k (dcell c); Ok (Some q)) a
  else Err EZeroDiv.
(* __rsub__: -self + other ; __radd__: self + other ; __rmul__: self * other *)
Definition rsub_scalar (a : cells) (k : Q) : res cells := add_scalar (neg_cells a) k.

(* ------------------------------------------------------------------ in-place kernels on a vector
   The in-place kernels perform the same per-key updates on self.dct as the binary kernels perform on
   the copy.  What differs: (1) the size-1 branches assign self.size = other_size; (2) when
   other is self (same dict object) the loop `for i, j in other_dct.items()` runs over the dict being
   mutated: inserting or deleting a key makes the next step of the iterator raise RuntimeError. *)
(* _isub_sparse on itself: every stored j gives dct[i] - j = 0 -> del dct[i] -> RuntimeError at the next
   iterator step (also when it was the last key).  No stored entry: the loop body never runs. *)
Definition isub_self (a : cells) : res cells :=
  if Nat.eqb (nkeys a) 0 then Ok a else Err ERuntime.
(* _isub_sparse on itself after the repair (iterates over a snapshot of the items) *)
Definition isub_self_fixed (a : cells) : res cells := sub_sparse a a.
(* _iadd_sparse on itself: j += dct[i] = 2j, never zero for a stored non-zero, value overwritten, no resize *)
Definition iadd_self (a : cells) : res cells := add_sparse a a.
(* _imul_sparse on itself: iterates over tuple(dct) *)
Definition imul_self (a : cells) : res cells := mul_sparse a a.
(* _itruediv_sparse on itself: for i in dct: dct[i] /= other_dct[i]  (values only) *)
Definition itruediv_self (a : cells) : res cells := truediv_sparse a a.

(* ------------------------------------------------------------------ comparisons on float vectors
   template sparse_vector_comparison_math (gt, lt, ge, le) and hand-written _eq_*, _ne_* *)
Inductive cmp := CEq | CNe | CGt | CLt | CGe | CLe.
Definition qcmp (c : cmp) (x y : Q) : bool :=
  match c with
  | CEq => qeqb x y | CNe => negb (qeqb x y)
  | CGt => qltb y x | CLt => qltb x y
  | CGe => qleb y x | CLe => qleb x y
  end.
Definition bits := list bool.
(* template, _{name}_sparse, same size:
     default = 0. op 0.;  if default: all indices minus the stored ones that fail;  else: stored ones that hold.
   A key is "stored" if it is in dct or in other. *)
Definition cmp_same_c (c : cmp) (x y : cell) : bool :=
  let stored := present x || present y in
  if qcmp c 0 0 then (if stored then qcmp c (dcell x) (dcell y) else true)
  else (if stored then qcmp c (dcell x) (dcell y) else false).
(* other_size == 1: other = other.dct.get(0, 0.); default = 0. op other *)
Definition cmp_other1 (c : cmp) (a : cells) (other : Q) : bits :=
  if qcmp c 0 other then map (fun x => match x with None => true | Some v => qcmp c v other end) a
  else map (fun x => match x with None => false | Some v => qcmp c v other end) a.
(* size == 1: value = dct.get(0, 0.); default = value op 0. *)
Definition cmp_self1 (c : cmp) (value : Q) (b : cells) : bits :=
  if qcmp c value 0 then map (fun y => match y with None => true | Some w => qcmp c value w end) b
  else map (fun y => match y with None => false | Some w => qcmp c value w end) b.
(* hand-written _eq_sparse / _ne_sparse *)
Definition eq_same_c (x y : cell) : bool :=
  match x with Some v => match y with Some w => qeqb v w | None => false end | None => negb (present y) end.
Definition ne_same_c (x y : cell) : bool :=
  if present x || present y
  then (negb (present y) || negb (present x) || negb (qeqb (dcell x) (dcell y)))
  else false.
Definition eq_other1 (a : cells) (o : cell) : bits :=
  match o with
  | Some other => map (fun x => match x with Some v => qeqb v other | None => false end) a
  | None => map (fun x => negb (present x)) a
  end.
Definition ne_other1 (a : cells) (o : cell) : bits :=
  match o with
  | Some other => map (fun x => match x with Some v => negb (qeqb v other) | None => true end) a
  | None => map present a
  end.
Definition eq_self1 (v : cell) (b : cells) : bits :=
  match v with
  | Some value => map (fun y => match y with Some w => qeqb w value | None => false end) b
  | None => map (fun y => negb (present y)) b
  end.
Definition ne_self1 (v : cell) (b : cells) : bits :=
  match v with
  | Some value => map (fun y => match y with Some w => negb (qeqb w value) | None => true end) b
  | None => map present b
  end.
Definition cmp_sparse (c : cmp) (a b : cells) : res bits :=
  match c with
  | CEq => dispatch_sparse (fun a b => Ok (map2 eq_same_c a b)) (fun v b => Ok (eq_self1 v b))
                           (fun a o => Ok (eq_other1 a (join_cell o))) a b
  | CNe => dispatch_sparse (fun a b => Ok (map2 ne_same_c a b)) (fun v b => Ok (ne_self1 v b))
                           (fun a o => Ok (ne_other1 a (join_cell o))) a b
  | _ => dispatch_sparse (fun a b => Ok (map2 (cmp_same_c c) a b)) (fun v b => Ok (cmp_self1 c (dcell v) b))
                         (fun a o => Ok (cmp_other1 c a (dcell (join_cell o)))) a b
  end.
(* _{name}_scalar (template) ; _eq_scalar / _ne_scalar (hand-written: `if other`) *)
Definition cmp_scalar (c : cmp) (a : cells) (k : Q) : res bits :=
  Ok (match c with
      | CEq => if qzerob k then map (fun x => negb (present x)) a
               else map (fun x => match x with Some v => qeqb v k | None => false end) a
      | CNe => if qzerob k then map present a
               else map (fun x => match x with Some v => negb (qeqb v k) | None => true end) a
      | _ => cmp_other1 c a k
      end).
(* _{name}_array: same size: dct.get(i, 0.) op other[i];  size 1: value op other[i];
   _eq_array/_ne_array additionally have an other_size == 1 branch, which the dispatch never reaches
   for lists (reduce_ndim turns a length-1 operand into a scalar) *)
Definition cmp_arr_same_c (c : cmp) (x : cell) (j : Q) : bool :=
  match c with
  | CEq => match x with Some v => qeqb v j | None => qzerob j end
  | CNe => match x with Some v => negb (qeqb v j) | None => negb (qzerob j) end
  | _ => qcmp c (dcell x) j
  end.
Definition cmp_arr_self1 (c : cmp) (v : cell) (b : list Q) : bits :=
  match c with
  | CEq => match v with Some value => map (fun j => qeqb j value) b | None => map qzerob b end
  | CNe => match v with Some value => map (fun j => negb (qeqb j value)) b | None => map (fun j => negb (qzerob j)) b end
  | _ => map (fun j => qcmp c (dcell v) j) b
  end.
(* _eq_array / _ne_array, other_size == 1 (reached with the rows of a 2-d operand that has one column) *)
Definition cmp_arr_other1 (c : cmp) (a : cells) (other : Q) : bits :=
  match c with
  | CEq => if qzerob other then map (fun x => negb (present x)) a
           else map (fun x => match x with Some v => qeqb other v | None => false end) a
  | _ => if qzerob other then map present a
         else map (fun x => match x with Some v => negb (qeqb other v) | None => true end) a
  end.
Definition cmp_array (c : cmp) (a : cells) (b : list Q) : res bits :=
  match c with
  | CEq | CNe =>
      if Nat.eqb (length a) (length b) then Ok (map2 (cmp_arr_same_c c) a b)
      else if len1 a && negb (len0 b) then Ok (cmp_arr_self1 c (hd None a) b)
      else match b with [x] => Ok (cmp_arr_other1 c a x) | _ => Err EValue end
  | _ => dispatch_array (fun a b => Ok (map2 (cmp_arr_same_c c) a b)) (fun v b => Ok (cmp_arr_self1 c v b)) a b
  end.

(* ------------------------------------------------------------------ reductions on float vectors *)
Definition qsumc (a : cells) : Q := qsum (dense a).     (* sum(dct.values()) *)
Definition sv_any (a : cells) : bool := negb (Nat.eqb (nkeys a) 0).
Definition sv_all (a : cells) : bool := Nat.eqb (nkeys a) (length a).
Definition sv_sum (a : cells) : Q := qsumc a.
Definition qofnat (n : nat) : Q := inject_Z (Z.of_nat n).
Definition sv_mean (a : cells) : Q := if Nat.eqb (nkeys a) 0 then 0 else qsumc a / qofnat (length a).
Definition stored (a : cells) : list Q := flat_map (fun c => match c with Some q => [q] | None => [] end) a.
Definition qmaxl (d : Q) (l : list Q) : Q := fold_left Qmax l d.
Definition qminl (d : Q) (l : list Q) : Q := fold_left Qmin l d.
(* max: if dct: m = max(values); if m < 0 and len(dct) < size: 0 ;  elif size: 0. ; else ValueError *)
Definition sv_max (a : cells) : res Q :=
  match stored a with
  | x :: t => let m := qmaxl x t in
              Ok (if qltb m 0 && Nat.ltb (nkeys a) (length a) then 0 else m)
  | [] => if len0 a then Err EValue else Ok 0
  end.
Definition sv_min (a : cells) : res Q :=
  match stored a with
  | x :: t => let m := qminl x t in
              Ok (if qltb 0 m && Nat.ltb (nkeys a) (length a) then 0 else m)
  | [] => if len0 a then Err EValue else Ok 0
  end.
(* keepdims: SparseVector.from_dict({0: arr} if arr else {}, 1) *)
Definition keep1 (q : Q) : cells := [nz q].

(* ------------------------------------------------------------------ indexing on float vectors *)
(* dct.get(i, 0.) *)
Definition getc (a : cells) (i : nat) : Q := dcell (nth i a None).
Definition inb (a : cells) (i : nat) : bool := Nat.ltb i (length a).
(* default_range(slice, size) for non-negative start/stop and positive step *)
Fixpoint range_from (start : nat) (step : nat) (count : nat) : list nat :=
  match count with O => [] | S k => start :: range_from (start + step) step k end.
Definition slice_range (start stop step : nat) : list nat :=
  if Nat.leb stop start then [] else range_from start step ((stop - start + step - 1) / step).
(* np.nonzero(mask) *)
Fixpoint mask_idx_from (k : nat) (m : list bool) : list nat :=
  match m with [] => [] | b :: t => if b then k :: mask_idx_from (S k) t else mask_idx_from (S k) t end.
Definition mask_idx (m : list bool) : list nat := mask_idx_from 0 m.

(* dct[i] = float(value) if value else delete;  a key >= size leaves the representable states *)
Definition set1 (a : cells) (i : nat) (v : Q) : res cells :=
  if inb a i then Ok (upd a i (nz v))
  else if qzerob v then Ok a            (* `elif index in dct: del dct[index]`: nothing to delete *)
  else Err EOther.
(* for i, j in zip(index, value): ...   (zip stops at the shorter one) *)
Fixpoint set_zip (a : cells) (idx : list nat) (vals : list Q) : res cells :=
  match idx, vals with
  | i :: idx', v :: vals' => do a' <- set1 a i v; set_zip a' idx' vals'
  | _, _ => Ok a
  end.
Fixpoint set_all (a : cells) (idx : list nat) (v : Q) : res cells :=
  match idx with
  | i :: idx' => do a' <- set1 a i v; set_all a' idx' v
  | [] => Ok a
  end.
(* value of __setitem__ after reduce_ndim *)
Inductive sval := SVScal (q : Q) | SVArr (l : list Q) | SVObj (c : cells).
(* self[:] = value *)
Definition set_open (a : cells) (v : sval) : res cells :=
  match v with
  | SVObj c =>                                   (* dct.clear(); dct.update(value.dct): sizes are not compared *)
      if Nat.leb (length c) (length a) then
        (* keys of value beyond self.size cannot occur; keys of self beyond len(value) become absent *)
        Ok (c ++ empty_cells (length a - length c))
      else if Nat.eqb (nkeys (skipn (length a) c)) 0 then Ok (firstn (length a) c)
      else Err EOther
  | SVArr l =>                                   (* for i, j in enumerate(value): if j: dct[i] = float(j) *)
      set_zip (empty_cells (length a)) (seq 0 (length l)) l
  | SVScal q => Ok (if qzerob q then empty_cells (length a) else map (fun _ => Some q) a)
  end.
(* self[index] = value for a 1-d index (list, mask -> nonzero, non-open slice -> range) *)
Definition set_idx (a : cells) (idx : list nat) (v : sval) : res cells :=
  match v with
  | SVArr l => set_zip a idx l
  | SVObj c => set_zip a idx (dense c)           (* iterating a SparseVector yields dct.get(i, 0.) *)
  | SVScal q => set_all a idx q
  end.

(* ------------------------------------------------------------------ reductions: result kinds *)
Inductive red := RAny | RAll | RSum | RMean | RMax | RMin.

(* ------------------------------------------------------------------ SparseLogicalVector *)
(* SparseVector.from_dict({i: 1. for i in other.set}, other.size) *)
Definition cells_of_bits (b : bits) : cells := map (fun x : bool => if x then Some 1 else None) b.
Definition bits_of_cells (c : cells) : bits := map present c.
Definition nset (b : bits) : nat := length (filter (fun x : bool => x) b).      (* len(set) *)
Definition falses (n : nat) : bits := repeat false n.
Definition trues (n : nat) : bits := repeat true n.
Definition hdb (b : bits) : bool := hd false b.                         (* 0 in set *)

(* in-place logical kernels; lop = which operator *)
Inductive lop := LAdd | LMul | LDiv | LAnd | LXor | LOr.
(* _i<op>_sparse(self, other) where other is a logical vector *)
Definition lv_isparse (o : lop) (a b : bits) : res bits :=
  let n := length a in let m := length b in
  if Nat.eqb n m then
    match o with
    | LAdd | LOr => Ok (map2 orb a b)                         (* set.update(other.set) *)
    | LMul | LAnd => Ok (map2 andb a b)                       (* intersection_update *)
    | LXor => Ok (map2 xorb a b)                              (* symmetric_difference_update *)
    | LDiv => if existsb (fun p : bool * bool => fst p && negb (snd p)) (combine a b)
              then Err EZeroDiv else Ok a                     (* set.difference(other.set) non-empty *)
    end
  else if Nat.eqb n 1 && negb (Nat.eqb m 0) then
    match o with
    | LAdd | LOr => Ok (if hdb a then trues m else b)         (* update(range(1, m)) with 0 already in / update(other) *)
    | LMul | LAnd => Ok (if hdb a then b else falses m)
    | LXor => Ok (if hdb a then map negb b else b)
    | LDiv => if hdb a then Ok (trues m)                      (* set.update(range(1, other_size)); no test of other *)
              else Ok (falses m)                              (* empty set: difference is empty *)
    end
  else if Nat.eqb m 1 then
    match o with
    | LAdd | LOr => Ok (if hdb b then trues n else a)
    | LMul | LAnd => Ok (if hdb b then a else falses n)       (* _imul_sparse: `if not other.set`; _iand_sparse: `if 0 not in other.set` *)
    | LXor => Ok (if hdb b then map negb a else a)
    | LDiv => if negb (hdb b) && negb (Nat.eqb (nset a) 0) then Err EZeroDiv else Ok a
    end
  else Err EValue.
(* _i<op>_scalar(self, other) with a boolean / numeric scalar, t = truth value of other;
   plus1 = truth value of (True + other) *)
Definition lv_iscalar (o : lop) (a : bits) (t : bool) (plus1 : bool) : res bits :=
  match o with
  | LAdd => Ok (if t then map (fun x : bool => if x then plus1 else true) a else a)
  | LMul | LAnd => Ok (if t then a else falses (length a))
  | LDiv => if t then Ok a else Err EZeroDiv   (* `if not other and set`: `set` is the builtin type there, always true *)
  | LXor => Ok (if t then map negb a else a)
  | LOr => Ok (if t then trues (length a) else a)
  end.
(* _i<op>_array(self, other) with a list of booleans *)
Definition lv_iarray (o : lop) (a b : bits) : res bits :=
  let n := length a in let m := length b in
  if Nat.eqb n m then
    match o with
    | LAdd => Ok (map2 orb a b)                               (* True + True = 2 is truthy *)
    | LOr => Ok (map2 orb a b)
    | LMul | LAnd => Ok (map2 andb a b)
    | LXor => Ok (map2 xorb a b)
    | LDiv => if existsb (fun p : bool * bool => fst p && negb (snd p)) (combine a b)
              then Err EZeroDiv else Ok a
    end
  else if Nat.eqb n 1 && negb (Nat.eqb m 0) then
    match o with
    | LAdd | LOr => Ok (if hdb a then trues m else b)
    | LMul | LAnd => Ok (if hdb a then b else falses m)
    | LXor => Ok (if hdb a then map negb b else b)
    | LDiv => if hdb a then (if forallb (fun x : bool => x) b then Ok (trues m) else Err EZeroDiv)
              else Ok (falses m)
    end
  else Err EValue.

(* comparisons between logical vectors: hand-written _<cmp>_sparse *)
Definition bcmp (c : cmp) (x y : bool) : bool :=
  match c with
  | CEq => Bool.eqb x y | CNe => xorb x y
  | CGt => x && negb y | CLt => negb x && y
  | CGe => x || negb y | CLe => negb x || y
  end.
Definition lv_cmp_sparse (c : cmp) (a b : bits) : res bits :=
  let n := length a in let m := length b in
  if Nat.eqb n m then Ok (map2 (bcmp c) a b)
  else if Nat.eqb m 1 then Ok (map (fun x => bcmp c x (hdb b)) a)
  else if Nat.eqb n 1 && negb (Nat.eqb m 0) then Ok (map (fun y => bcmp c (hdb a) y) b)
  else Err EValue.
(* template sparse_logical_vector_scalar_array_comparison, scalar: x = True op other, y = False op other *)
Definition lv_cmp_scalar (a : bits) (x y : bool) : bits := map (fun v : bool => if v then x else y) a.
Definition lv_invert (a : bits) : bits := map negb a.

(* ------------------------------------------------------------------ logical vector indexing *)
Definition getb (a : bits) (i : nat) : bool := nth i a false.
Definition setb1 (a : bits) (i : nat) (v : bool) : res bits :=
  if Nat.ltb i (length a) then Ok (upd a i v)
  else if v then Err EOther else Ok a.          (* set.add(i) beyond size / set.discard(i) *)
Fixpoint setb_zip (a : bits) (idx : list nat) (vals : list bool) : res bits :=
  match idx, vals with
  | i :: idx', v :: vals' => do a' <- setb1 a i v; setb_zip a' idx' vals'
  | _, _ => Ok a
  end.
Fixpoint setb_all (a : bits) (idx : list nat) (v : bool) : res bits :=
  match idx with i :: idx' => do a' <- setb1 a i v; setb_all a' idx' v | [] => Ok a end.

(* ------------------------------------------------------------------ objects, operands, operations *)
Inductive vec := VF (c : cells) | VB (b : bits).
Inductive obj :=
| OV (c : cells) (ro : bool)          (* SparseVector: cells, read_only *)
| OL (b : bits)                       (* SparseLogicalVector *)
| OA (rows : list cells) (ro : bool)  (* SparseArray of SparseVector rows; ro = every row read_only *)
| OB (rows : list bits).              (* SparseArray of SparseLogicalVector rows *)
Definition store := list obj.

Inductive arg :=
| AObj (i : nat) | AScal (q : Q) | ABool (b : bool)
| AArr (l : list Q) | ABArr (l : bits) | AArr2 (m : list (list Q)) | ABArr2 (m : list bits).

(* operand after the class tests and reduce_ndim of the dispatch templates *)
Inductive operand :=
| PV (c : cells) | PL (b : bits) | PA (rows : list cells) | PB (rows : list bits)
| PS (q : Q) (isbool : bool) | PArr (l : list Q) (isbool : bool) | PArr2 (m : list (list Q)) (isbool : bool).

Definition b2q (b : bool) : Q := if b then 1 else 0.
Definition truthy (q : Q) : bool := negb (qzerob q).
Definition getobj (s : store) (i : nat) : res obj :=
  match nth_error s i with Some o => Ok o | None => Err EOther end.

(* reduce_ndim: leading axes of length 1 are dropped *)
Definition reduce1 (l : list Q) (isbool : bool) : operand :=
  match l with [x] => PS x isbool | _ => PArr l isbool end.
Definition reduce2 (m : list (list Q)) (isbool : bool) : operand :=
  match m with [r] => reduce1 r isbool | _ => PArr2 m isbool end.
Definition resolve (s : store) (a : arg) : res operand :=
  match a with
  | AObj j => do o <- getobj s j;
              Ok (match o with OV c _ => PV c | OL b => PL b | OA r _ => PA r | OB r => PB r end)
  | AScal q => Ok (PS q false)
  | ABool b => Ok (PS (b2q b) true)
  | AArr l => Ok (reduce1 l false)
  | ABArr l => Ok (reduce1 (map b2q l) true)
  | AArr2 m => Ok (reduce2 m false)
  | ABArr2 m => Ok (reduce2 (map (map b2q) m) true)
  end.

Inductive aop := Add | Sub | Mul | Div.
Inductive bop := BA (o : aop) | BC (c : cmp) | BL (o : lop).     (* BL only LAnd, LXor, LOr *)

(* lg = true selects the kernels as they are in the unrepaired source *)
Definition k_sparse (lg : bool) (o : aop) : cells -> cells -> res cells :=
  match o with Add => add_sparse | Sub => sub_sparse | Mul => mul_sparse
          | Div => if lg then truediv_sparse_legacy else truediv_sparse end.
Definition k_scalar (o : aop) : cells -> Q -> res cells :=
  match o with Add => add_scalar | Sub => sub_scalar | Mul => mul_scalar | Div => truediv_scalar end.
Definition k_array (o : aop) : cells -> list Q -> res cells :=
  match o with Add => add_array | Sub => sub_array | Mul => mul_array | Div => truediv_array end.
(* _i<op>_sparse; alias = other is self *)
Definition ik_sparse (lg : bool) (o : aop) (alias : bool) (a b : cells) : res cells :=
  if alias then
    match o with
    | Add => iadd_self a
    | Sub => if lg then isub_self a else isub_self_fixed a
    | Mul => imul_self a
    | Div => if lg then itruediv_sparse_legacy a a else itruediv_self a
    end
  else
    match o with
    | Div => if lg then itruediv_sparse_legacy a b else truediv_sparse a b
    | _ => k_sparse lg o a b
    end.
Definition lop_of (o : aop) : lop := match o with Add => LAdd | Mul => LMul | Div => LDiv | Sub => LAdd end.

Definition okF (r : res cells) : res vec := do c <- r; Ok (VF c).
Definition okB (r : res bits) : res vec := do b <- r; Ok (VB b).
Definition unsupported {A} : res A := Err EOther.

(* one vector (row) against one resolved operand that is not a SparseArray / 2-d value:
   templates sparse_vector_math, sparse_vector_comparison_math, sparse_logical_vector_math_pseudo_optimized,
   sparse_logical_vector_scalar_array_comparison *)
Definition vec_bin (lg : bool) (o : bop) (self : vec) (p : operand) : res vec :=
  match self with
  | VF c =>
      match o, p with
      | BA a, PV d => okF (k_sparse lg a c d)
      | BA a, PL d => okF (k_sparse lg a c (cells_of_bits d))
      | BA a, PS q _ => okF (k_scalar a c q)
      | BA a, PArr l _ => okF (k_array a c l)
      | BC m, PV d => okB (cmp_sparse m c d)
      | BC m, PL d => okB (cmp_sparse m c (cells_of_bits d))
      | BC m, PS q _ => okB (cmp_scalar m c q)
      | BC m, PArr l _ => okB (cmp_array m c l)
      | _, _ => unsupported
      end
  | VB b =>
      let fb := cells_of_bits b in
      match o, p with
      | BA Sub, PV d => okF (k_sparse lg Sub fb d)
      | BA Sub, PL d => okF (k_sparse lg Sub fb (cells_of_bits d))
      | BA Sub, PS q _ => okF (k_scalar Sub fb q)
      | BA Sub, PArr [x] _ => okF (k_scalar Sub fb x)      (* __sub__ dispatches again: reduce_ndim([x]) is a scalar *)
      | BA Sub, PArr l _ => okF (k_array Sub fb l)
      | BA a, PL d => okB (lv_isparse (lop_of a) b d)
      | BA a, PV d => okF (k_sparse lg a fb d)
      | BA a, PS q isb => if isb then okB (lv_iscalar (lop_of a) b (truthy q) (truthy (1 + q)))
                          else okF (k_scalar a fb q)
      | BA a, PArr l isb => if isb then okB (lv_iarray (lop_of a) b (map truthy l))
                            else okF (k_array a fb l)
      | BL lo, PL d => okB (lv_isparse lo b d)
      | BL lo, PS q true => okB (lv_iscalar lo b (truthy q) (truthy (1 + q)))
      | BL lo, PArr l true => okB (lv_iarray lo b (map truthy l))
      | BC m, PL d => okB (lv_cmp_sparse m b d)
      | BC m, PV d => okB (cmp_sparse m fb d)
      | BC m, PS q _ => Ok (VB (lv_cmp_scalar b (qcmp m 1 q) (qcmp m 0 q)))
      | BC m, PArr l _ =>
          if Nat.eqb (length b) (length l) then Ok (VB (map2 (fun x j => qcmp m (b2q x) j) b l))
          else if Nat.eqb (length b) 1 then Ok (VB (map (fun j => qcmp m (b2q (hdb b)) j) l))
          else match l with
               | [x] => Ok (VB (lv_cmp_scalar b (qcmp m 1 x) (qcmp m 0 x)))      (* other_size == 1 *)
               | _ => Err EValue
               end
      | _, _ => unsupported
      end
  end.

(* in-place: sparse_vector_imath (the read_only test is done by the caller) *)
Definition vec_ibin (lg : bool) (o : bop) (alias : bool) (self : vec) (p : operand) : res vec :=
  match self with
  | VF c =>
      match o, p with
      | BA a, PV d => okF (ik_sparse lg a alias c d)
      | BA a, PL d => okF (ik_sparse lg a false c (cells_of_bits d))
      | BA a, PS q _ => okF (k_scalar a c q)
      | BA a, PArr l _ => okF (k_array a c l)
      | _, _ => unsupported
      end
  | VB b =>
      match o, p with
      | BA Sub, _ => Err EType
      | BA a, PL d => okB (lv_isparse (lop_of a) b d)
      | BA a, PV d => okB (lv_isparse (lop_of a) b (bits_of_cells d))
      | BA a, PS q true => okB (lv_iscalar (lop_of a) b (truthy q) (truthy (1 + q)))
      | BA a, PArr l true => okB (lv_iarray (lop_of a) b (map truthy l))
      | BL lo, PL d => okB (lv_isparse lo b d)
      | BL lo, PV d => okB (lv_isparse lo b (bits_of_cells d))
      | BL lo, PS q true => okB (lv_iscalar lo b (truthy q) (truthy (1 + q)))
      | BL lo, PArr l true => okB (lv_iarray lo b (map truthy l))
      | _, _ => unsupported
      end
  end.

(* rows of a new SparseArray *)
Fixpoint all_F (l : list vec) : option (list cells) :=
  match l with [] => Some [] | VF c :: t => option_map (cons c) (all_F t) | VB _ :: _ => None end.
Fixpoint all_B (l : list vec) : option (list bits) :=
  match l with [] => Some [] | VB c :: t => option_map (cons c) (all_B t) | VF _ :: _ => None end.
Definition obj_of_rows (l : list vec) : res obj :=
  match all_F l with
  | Some r => Ok (OA r false)
  | None => match all_B l with Some r => Ok (OB r) | None => unsupported end
  end.
Definition obj_of_vec (v : vec) : obj := match v with VF c => OV c false | VB b => OL b end.
Definition rows_of (o : obj) : list vec :=
  match o with OV c _ => [VF c] | OL b => [VB b] | OA r _ => map VF r | OB r => map VB r end.
Definition operand_of_vec (v : vec) : operand := match v with VF c => PV c | VB b => PL b end.

(* SparseVector / SparseLogicalVector binary dispatch (self is a vector) *)
Definition vector_bin (lg : bool) (o : bop) (self0 : vec) (p : operand) : res obj :=
  (* SparseLogicalVector.__sub__: SparseVector.from_dict({i: 1. ...}) - other, dispatched as a float vector *)
  let self := match self0, o with VB b, BA Sub => VF (cells_of_bits b) | _, _ => self0 end in
  match p with
  | PA r => do l <- mapM (fun row => vec_bin lg o self (PV row)) r; obj_of_rows l
  | PB r => do l <- mapM (fun row => vec_bin lg o self (PL row)) r; obj_of_rows l
  | PArr2 m isb => do l <- mapM (fun row => vec_bin lg o self (PArr row isb)) m; obj_of_rows l
  | _ => do v <- vec_bin lg o self p; Ok (obj_of_vec v)
  end.
(* SparseArray binary dispatch: sparse_array_math *)
Definition array_bin (lg : bool) (o : bop) (rows : list vec) (p : operand) : res obj :=
  let go (others : list operand) :=
    match rows, others with
    | [row], _ => do l <- mapM (fun x => vec_bin lg o row x) others; obj_of_rows l
    | _, [x] => do l <- mapM (fun r => vec_bin lg o r x) rows; obj_of_rows l
    | _, _ => do l <- map2M (fun r x => vec_bin lg o r x) rows others; obj_of_rows l
    end in
  match p with
  | PA r => go (map PV r)
  | PB r => go (map PL r)
  | PArr2 m isb => do l <- map2M (fun r x => vec_bin lg o r (PArr x isb)) rows m; obj_of_rows l
  | _ => do l <- mapM (fun r => vec_bin lg o r p) rows; obj_of_rows l
  end.
(* SparseArray in-place dispatch: sparse_array_imath.  aliasrows = other is the same SparseArray *)
Definition is_float_rows (rows : list vec) : bool :=
  match rows with VB _ :: _ => false | _ => true end.
Definition array_ibin (lg : bool) (o : bop) (alias : bool) (rows : list vec) (p : operand) : res (list vec) :=
  match p with
  | PA r => if negb (is_float_rows rows) then Err EValue       (* cannot cast boolean to float *)
            else match r with
                 | [x] => mapM (fun row => vec_ibin lg o alias row (PV x)) rows      (* alias: the array itself, which then has this one row *)
                 | _ => map2M (fun row x => vec_ibin lg o alias row (PV x)) rows r
                 end
  | PB r => match r with
            | [x] => mapM (fun row => vec_ibin lg o alias row (PL x)) rows
            | _ => map2M (fun row x => vec_ibin lg o alias row (PL x)) rows r
            end
  | PV d => if negb (is_float_rows rows) then Err EValue
            else mapM (fun row => vec_ibin lg o false row p) rows
  | PArr2 m isb => map2M (fun row x => vec_ibin lg o false row (PArr x isb)) rows m
  | _ => mapM (fun row => vec_ibin lg o false row p) rows
  end.

(* ------------------------------------------------------------------ operations on the store *)
Inductive index :=
| IInt (k : nat) | ITup (k : nat) | IList (l : list nat) | IMask (m : bits)
| ISlice (start stop step : nat) | IOpen.

(* source of copy_like: another object of the store, or a selection of the target's own rows a[[sel]]
   (a SparseArray that shares the row objects with the target) *)
Inductive csrc := CObj (j : nat) | CView (sel : list nat).
(* SparseArray.from_flat_array / to_flat_array: row-major chunks of the vector size *)
Fixpoint chunks (n k : nat) (l : list Q) : list (list Q) :=
  match k with O => [] | S k' => firstn n l :: chunks n k' (skipn n l) end.
(* SparseVector.copy_like(other): `if dct is other.dct: return` ; dct.clear() ; dct.update(other.dct).
   No read_only test and no comparison of sizes. *)
Definition copy_like_vec (c d : cells) : res cells := set_open c (SVObj d).
(* SparseArray.copy_like(other): for i, j in zip(rows, other.rows): i.copy_like(j) *)
Fixpoint copy_like_rows (rows others : list cells) : res (list cells) :=
  match rows, others with
  | r :: rows', o :: others' => do r' <- copy_like_vec r o; do t <- copy_like_rows rows' others'; Ok (r' :: t)
  | _, _ => Ok rows
  end.
(* other = self[[sel]]: row k of the view IS row sel[k] of the target; rows are copied one after the other,
   a row copied from itself is left alone *)
Fixpoint copy_like_view (rows : list cells) (k : nat) (sel : list nat) : res (list cells) :=
  match sel with
  | [] => Ok rows
  | j :: sel' =>
      if Nat.leb (length rows) k then Ok rows                   (* zip stops at the shorter one *)
      else if Nat.eqb j k then copy_like_view rows (S k) sel'
      else do r' <- copy_like_vec (nth k rows []) (nth j rows []); copy_like_view (upd rows k r') (S k) sel'
  end.

(* sparse_vector(x) / sparse_array(A) / sparse(x [, copy=anything]) return the sparse object itself;
   sparse_vector(x, copy=True) / sparse_array(A, copy=True) / SparseVector(sv) / SparseLogicalVector(sl) return an
   independent copy; SparseVector(logical) and SparseLogicalVector(float vector) convert the dtype *)
Inductive conv := CIdent | CCopy | CFloat | CBool.

Inductive op :=
| OBin (o : bop) (i : nat) (a : arg)        (* store[i] o a : a new object or a value *)
| OIBin (o : bop) (i : nat) (a : arg)       (* store[i] o= a *)
| ORBin (o : aop) (k : Q) (i : nat)         (* k o store[i] with a python float k *)
| ONeg (i : nat) | OAbs (i : nat) | OInvert (i : nat) | OCopy (i : nat)
| OClear (i : nat) | OSetRO (i : nat) | OToArray (i : nat)
| OGet (i : nat) (ix : index)
| OSet (i : nat) (ix : index) (v : arg)
| ORed (r : red) (i : nat) (axis : option nat) (keep : bool)
| OCopyLike (i : nat) (src : csrc)            (* store[i].copy_like(source) *)
| OToFlat (i : nat) (buf : option (list Q))   (* store[i].to_flat_array(buffer) : the buffer content must not matter *)
| OFromFlat (i : nat) (l : list Q)            (* store[i].from_flat_array(ndarray) *)
| OConv (c : conv) (i : nat).                 (* conversion helpers and copy constructors applied to store[i] *)

Inductive outcome :=
| RErr (e : err)
| RNew (o : obj)          (* a new sparse object, appended to the store *)
| RUnit                   (* in-place / mutator returned normally *)
| RSelf                   (* the operand itself is returned *)
| RScal (q : Q) | RBool (b : bool)
| RDense (l : list Q) | RDenseB (l : bits) | RDense2 (m : list (list Q)) | RDenseB2 (m : list bits).

Definition index_list (n : nat) (ix : index) : list nat :=
  match ix with
  | IInt k | ITup k => [k]
  | IList l => l
  | IMask m => mask_idx m
  | ISlice a b c => slice_range a b c
  | IOpen => seq 0 n
  end.

Definition vec_get (v : vec) (ix : index) : outcome :=
  match v, ix with
  | _, IOpen => RSelf
  | VF c, IInt k | VF c, ITup k => RScal (getc c k)
  | VB b, IInt k | VB b, ITup k => RBool (getb b k)
  | VF c, _ => RDense (map (getc c) (index_list (length c) ix))
  | VB b, _ => RDenseB (map (getb b) (index_list (length b) ix))
  end.

(* value of a vector __setitem__ after reduce_ndim; PV/PL of size 1 reduce to their element *)
Definition sval_of (p : operand) : res sval :=
  match p with
  | PS q _ => Ok (SVScal q)
  | PArr l _ => Ok (SVArr l)
  | PV [x] => Ok (SVScal (dcell x))
  | PV c => Ok (SVObj c)
  | PL [x] => Ok (SVScal (b2q x))
  | PL b => Ok (SVArr (map b2q b))          (* not class SparseVector: enumerated, float(True) = 1. *)
  | _ => Err EIndex                          (* vd > 1: cannot broadcast / set an element with a sequence *)
  end.
Definition vecF_set (c : cells) (ix : index) (p : operand) : res cells :=
  do v <- sval_of p;
  match ix with
  | IInt k | ITup k => match v with SVScal q => set1 c k q | _ => Err EIndex end
  | IOpen => set_open c v
  | _ => set_idx c (index_list (length c) ix) v
  end.
(* SparseLogicalVector.__setitem__ *)
Definition vecB_set (b : bits) (ix : index) (p : operand) : res bits :=
  match ix with
  | IInt k | ITup k => match p with
                       | PS q _ => setb1 b k (truthy q)
                       | PV [x] => setb1 b k (truthy (dcell x))
                       | PL [x] => setb1 b k x
                       | _ => Err EIndex end
  | IOpen => match p with
             | PS q _ => Ok (if truthy q then trues (length b) else falses (length b))
             | PV [x] => Ok (if truthy (dcell x) then trues (length b) else falses (length b))
             | PL [x] => Ok (if x then trues (length b) else falses (length b))
             | PL d => setb_zip (falses (length b)) (seq 0 (length d)) d          (* set.update(value.set) *)
             | PV d => setb_zip (falses (length b)) (seq 0 (length d)) (bits_of_cells d)
             | PArr l _ => setb_zip (falses (length b)) (seq 0 (length l)) (map truthy l)
             | _ => Err EIndex end
  | _ => let idx := index_list (length b) ix in
         match p with
         | PS q _ => setb_all b idx (truthy q)
         | PV [x] => setb_all b idx (truthy (dcell x))
         | PL [x] => setb_all b idx x
         | PL d => setb_zip b idx d
         | PV d => setb_zip b idx (map truthy (dense d))
         | PArr l _ => setb_zip b idx (map truthy l)
         | _ => Err EIndex end
  end.

(* reductions on vectors: axis None / 0 accepted (`if axis:`), anything else ValueError *)
Definition red_vecF (r : red) (c : cells) (keep : bool) : outcome :=
  let num (x : res Q) := match x with
                         | Err e => RErr e
                         | Ok q => if keep then RNew (OV (keep1 q) false) else RScal q end in
  let lg (x : bool) := if keep then RNew (OL [x]) else RBool x in
  match r with
  | RAny => lg (sv_any c) | RAll => lg (sv_all c)
  | RSum => num (Ok (sv_sum c)) | RMean => num (Ok (sv_mean c))
  | RMax => num (sv_max c) | RMin => num (sv_min c)
  end.
Definition red_vecB (r : red) (b : bits) (keep : bool) : outcome :=
  let n := nset b in
  let num (x : res Q) := match x with
                         | Err e => RErr e
                         | Ok q => if keep then RNew (OV (keep1 q) false) else RScal q end in
  let lg (x : bool) := if keep then RNew (OL [x]) else RBool x in
  match r with
  | RAny => lg (negb (Nat.eqb n 0)) | RAll => lg (Nat.eqb n (length b))
  | RSum => num (Ok (qofnat n))
  | RMean => num (Ok (if Nat.eqb n 0 then 0 else qofnat n / qofnat (length b)))
  | RMax => num (if negb (Nat.eqb n 0) then Ok 1 else if len0 b then Err EValue else Ok 0)
  | RMin => num (if negb (Nat.eqb n 0) then Ok (b2q (Nat.leb (length b) n))
                 else if len0 b then Err EValue else Ok 0)
  end.

(* ------------------------------------------------------------------ SparseArray reductions *)
Definition vsize {A} (rows : list (list A)) : nat := match rows with r :: _ => length r | [] => 0 end.
(* column k of the rows (rows of a SparseArray have the same size) *)
Definition column {A} (d : A) (rows : list (list A)) (k : nat) : list A := map (fun r => nth k r d) rows.
Definition columns {A} (d : A) (rows : list (list A)) : list (list A) :=
  map (column d rows) (seq 0 (vsize rows)).
Definition res_all {A} (l : list (res A)) : res (list A) := mapM (fun x => x) l.
Definition qmax_list (l : list Q) : Q := match l with x :: t => qmaxl x t | [] => 0 end.
Definition qmin_list (l : list Q) : Q := match l with x :: t => qminl x t | [] => 0 end.

(* lg: before the repair, max/min with axis=None, keepdims=True stored {0: arr} without the zero test *)
Definition red_arrF (lg : bool) (r : red) (rows : list cells) (axis : option nat) (keep : bool) : outcome :=
  let nrows := length rows in
  let cols := columns None rows in
  let lg1 (x : bool) := if keep then RNew (OB [[x]]) else RBool x in
  let lgv (v : bits) := if keep then RNew (OB [v]) else RNew (OL v) in
  let lgc (v : bits) := if keep then RNew (OB (map (fun x => [x]) v)) else RNew (OL v) in
  let nmv (v : cells) := if keep then RNew (OA [v] false) else RNew (OV v false) in
  let nmc (v : list Q) := if keep then RNew (OA (map (fun x => [nz x]) v) false) else RNew (OV (map nz v) false) in
  match axis with
  | None =>
      match r with
      | RAny => lg1 (existsb sv_any rows)
      | RAll => lg1 (forallb sv_all rows)
      | RSum => let x := qsum (map sv_sum rows) in
                if keep then RNew (OA [[nz x]] false) else RScal x
      | RMean => let n := qsum (map (fun c => qofnat (length c)) rows) in
                 if qzerob n then RErr EZeroDiv
                 else let x := qsum (map sv_sum rows) / n in
                      if keep then RNew (OA [[nz x]] false) else RScal x
      | RMax => match res_all (map sv_max rows) with
                | Err e => RErr e
                | Ok [] => RErr EValue
                | Ok l => let x := qmax_list l in
                          if keep then RNew (OA [[if lg then Some x else nz x]] false) else RScal x
                end
      | RMin => match res_all (map sv_min rows) with
                | Err e => RErr e
                | Ok [] => RErr EValue
                | Ok l => let x := qmin_list l in
                          if keep then RNew (OA [[if lg then Some x else nz x]] false) else RScal x
                end
      end
  | Some O =>
      match r with
      | RAny => lgv (map (existsb present) cols)
      | RAll => lgv (match rows with [] => [] | _ => map (forallb present) cols end)
      | RSum => nmv (map (fun c => nz (qsum (map dcell c))) cols)
      | RMean => match truediv_scalar (map (fun c => nz (qsum (map dcell c))) cols) (qofnat nrows) with
                 | Ok v => nmv v | Err e => RErr e end
      | RMax => nmv (map (fun c => nz (qmax_list (map dcell c))) cols)
      | RMin => nmv (map (fun c => nz (qmin_list (map dcell c))) cols)
      end
  | Some 1%nat =>
      match r with
      | RAny => lgc (map sv_any rows)
      | RAll => lgc (map sv_all rows)
      | RSum => nmc (map sv_sum rows)
      | RMean => nmc (map (fun c => let x := sv_sum c in if qzerob x then 0 else x / qofnat (length c)) rows)
      | RMax => match res_all (map sv_max rows) with Ok l => nmc l | Err e => RErr e end
      | RMin => match res_all (map sv_min rows) with Ok l => nmc l | Err e => RErr e end
      end
  | _ => RErr EValue
  end.

Definition red_arrB (r : red) (rows : list bits) (axis : option nat) (keep : bool) : outcome :=
  let cols := columns false rows in
  let lg1 (x : bool) := if keep then RNew (OB [[x]]) else RBool x in
  let lgv (v : bits) := if keep then RNew (OB [v]) else RNew (OL v) in
  let lgc (v : bits) := if keep then RNew (OB (map (fun x => [x]) v)) else RNew (OL v) in
  let anyb (b : bits) := negb (Nat.eqb (nset b) 0) in
  let allb (b : bits) := Nat.eqb (nset b) (length b) in
  match r, axis with
  | RAny, None => lg1 (existsb anyb rows)
  | RAll, None => lg1 (forallb allb rows)
  | RAny, Some O => lgv (map (existsb (fun x : bool => x)) cols)
  | RAll, Some O => lgv (match rows with [] => [] | _ => map (forallb (fun x : bool => x)) cols end)
  | RAny, Some 1%nat => lgc (map anyb rows)
  | RAll, Some 1%nat => lgc (map allb rows)
  | RAny, _ | RAll, _ => RErr EValue
  | _, _ => RErr EOther         (* numeric reductions of boolean arrays: not modelled *)
  end.

(* ------------------------------------------------------------------ SparseArray indexing *)
Inductive aindex :=
| XRow (m : index)                   (* a[m] with m int / list / mask / slice / open *)
| XPair (m : index) (n : index).     (* a[m, n] *)
Definition row_sel (nrows : nat) (m : index) : list nat := index_list nrows m.
Definition is_int (ix : index) : bool := match ix with IInt _ | ITup _ => true | _ => false end.
Definition is_open (ix : index) : bool := match ix with IOpen => true | _ => false end.
Definition is_slice (ix : index) : bool := match ix with IOpen | ISlice _ _ _ => true | _ => false end.
Definition int_of (ix : index) : nat := match ix with IInt k | ITup k => k | _ => O end.
Fixpoint nth_rows {A} (rows : list A) (sel : list nat) : res (list A) :=
  match sel with
  | [] => Ok []
  | i :: t => match nth_error rows i with
              | Some r => do l <- nth_rows rows t; Ok (r :: l)
              | None => Err EIndex                       (* rows[i]: list index out of range *)
              end
  end.

Inductive aget :=                (* result of SparseArray.__getitem__ *)
| GSelf | GRow (i : nat) | GRows (sel : list nat)            (* the array / one row object / an array sharing rows *)
| GScalF (q : Q) | GDenseF (l : list Q) | GDense2F (m : list (list Q))
| GErr (e : err).
Definition arrF_get (rows : list cells) (ax : aindex) : aget :=
  let nrows := length rows in
  match ax with
  | XRow m =>
      if is_open m then GSelf
      else if is_int m then (if Nat.ltb (int_of m) nrows then GRow (int_of m) else GErr EIndex)
      else let sel := match m with
                      | ISlice a b c => slice_range a (Nat.min b nrows) c        (* rows[slice]: list slicing clips *)
                      | _ => row_sel nrows m end in
           match nth_rows rows sel with Ok _ => GRows sel | Err e => GErr e end
  | XPair m n =>
      if is_slice m then
        if is_open m && is_open n then GSelf
        else match nth_rows rows (row_sel nrows m) with
             | Err e => GErr e
             | Ok sel =>
                 if is_int n then GDenseF (map (fun r => getc r (int_of n)) sel)      (* np.array([i[n] for i in rows]) *)
                 else GDense2F (map (fun r => map (getc r) (index_list (length r) n)) sel)
             end
      else if is_slice n then
        if is_int m then
          (if Nat.ltb (int_of m) nrows
           then (if is_open n then GRow (int_of m)
                 else GDenseF (map (getc (nth (int_of m) rows [])) (index_list (vsize rows) n)))
           else GErr EIndex)
        else match nth_rows rows (row_sel nrows m) with
             | Err e => GErr e
             | Ok sel => if is_open n then GRows (row_sel nrows m)
                         else GDense2F (map (fun r => map (getc r) (index_list (length r) n)) sel)
             end
      else if is_int m then
        (if Nat.ltb (int_of m) nrows
         then (if is_int n then GScalF (getc (nth (int_of m) rows []) (int_of n))
               else GDenseF (map (getc (nth (int_of m) rows [])) (index_list (vsize rows) n)))
         else GErr EIndex)
      else match nth_rows rows (row_sel nrows m) with
           | Err e => GErr e
           | Ok sel => if is_int n then GDenseF (map (fun r => getc r (int_of n)) sel)
                       else GDenseF (map2 getc sel (index_list (vsize rows) n))       (* zip(m, n) *)
           end
  end.

(* apply f to the rows selected by sel, in order (a row selected twice is written twice); f returns the
   row as it is left and the exception raised, if any; an exception ends the loop and leaves the rows
   written so far modified *)
Fixpoint upd_rows {A} (f : A -> A * option err) (rows : list A) (sel : list nat) : list A * option err :=
  match sel with
  | [] => (rows, None)
  | i :: t => match nth_error rows i with
              | None => (rows, Some EIndex)
              | Some r => match f r with
                          | (r', Some e) => (upd rows i r', Some e)
                          | (r', None) => upd_rows f (upd rows i r') t
                          end
              end
  end.
Fixpoint upd_rows2 {A B} (f : A -> B -> A * option err) (rows : list A) (sel : list nat) (vals : list B) : list A * option err :=
  match sel, vals with
  | i :: t, v :: vt => match nth_error rows i with
                       | None => (rows, Some EIndex)
                       | Some r => match f r v with
                                   | (r', Some e) => (upd rows i r', Some e)
                                   | (r', None) => upd_rows2 f (upd rows i r') t vt
                                   end
                       end
  | _, _ => (rows, None)
  end.
Definition keep_on_err {A} (r : A) (x : res A) : A * option err :=
  match x with Ok r' => (r', None) | Err e => (r, Some e) end.
Definition vd2 (p : operand) : bool := match p with PA _ | PB _ | PArr2 _ _ => true | _ => false end.
(* reduce_ndim applied to a sparse value: a one-row array is its row, a size-1 vector its element *)
Definition reduce_obj (p : operand) : operand :=
  let p1 := match p with PA [r] => PV r | PB [r] => PL r | _ => p end in
  match p1 with PV [x] => PS (dcell x) false | PL [x] => PS (b2q x) true | _ => p1 end.
(* direct dictionary writes of a[[m...], [n...]] = value: no read_only test *)
Definition dset (c : cells) (j : nat) (q : Q) : cells * option err := keep_on_err c (set1 c j q).

(* lg: before the repair, row[:] = <2-d value> cleared the row and then raised IndexError *)
Definition arrF_set (lg : bool) (rows : list cells) (ro : bool) (ax : aindex) (p : operand) : list cells * option err :=
  let nrows := length rows in
  let vs := vsize rows in
  let nope : list cells * option err := (rows, Some EOther) in
  let rowset (n : index) (c : cells) (v : operand) : cells * option err :=     (* row[n] = v through SparseVector.__setitem__ *)
    if ro then (c, Some EValue)
    else if is_open n && vd2 v then ((if lg then empty_cells (length c) else c), Some EIndex)
    else keep_on_err c (vecF_set c n v) in
  let bcast (sel : list nat) (n : index) : list cells * option err :=
    match p with
    | PArr2 m isb => upd_rows2 (fun c v => rowset n c (reduce1 v isb)) rows sel m
    | PA m => upd_rows2 (fun c v => rowset n c (PV v)) rows sel m
    | PB _ => nope
    | _ => upd_rows (fun c => rowset n c p) rows sel
    end in
  match ax with
  | XRow m =>
      if is_int m then upd_rows (fun c => rowset IOpen c p) rows [int_of m]
      else match m with
           | IMask mk =>                       (* vd == 0: value ; else value[i] with i the row number *)
               match p with
               | PS _ _ => upd_rows (fun c => rowset IOpen c p) rows (mask_idx mk)
               | PArr l isb => upd_rows2 (fun c x => rowset IOpen c (PS x isb)) rows (mask_idx mk)
                                         (map (fun i => nth i l 0) (mask_idx mk))
               | PArr2 v isb => upd_rows2 (fun c x => rowset IOpen c (reduce1 x isb)) rows (mask_idx mk)
                                          (map (fun i => nth i v []) (mask_idx mk))
               | _ => nope
               end
           | _ => bcast (row_sel nrows m) IOpen
           end
  | XPair m n =>
      if is_slice m then
        if is_slice n then
          (if negb (is_open m) && is_open n
           then upd_rows (fun c => rowset IOpen c p) rows (row_sel nrows m)     (* for i in rows: i[:] = value, whatever vd *)
           else bcast (row_sel nrows m) n)
        else match p with
             | PS _ _ => upd_rows (fun c => rowset n c p) rows (row_sel nrows m)
             | PArr l isb =>
                 if is_int n then upd_rows2 (fun c v => rowset n c (PS v isb)) rows (row_sel nrows m) l
                 else upd_rows (fun c => rowset n c p) rows (row_sel nrows m)
             | PArr2 v isb => upd_rows2 (fun c x => rowset n c (reduce1 x isb)) rows (row_sel nrows m) v
             | _ => nope
             end
      else if is_int m then upd_rows (fun c => rowset n c p) rows [int_of m]
      else if is_slice n then
        match p with
        | PArr2 v isb => upd_rows2 (fun c x => rowset n c (reduce1 x isb)) rows (row_sel nrows m) v
        | PA _ | PB _ => nope
        | _ => upd_rows (fun c => rowset n c p) rows (row_sel nrows m)
        end
      else
        let ms := row_sel nrows m in
        if is_int n then
          match p with
          | PS q _ => upd_rows (fun c => dset c (int_of n) q) rows ms
          | PArr l _ => upd_rows2 (fun c k => dset c (int_of n) k) rows ms l
          | _ => (rows, Some EIndex)
          end
        else
          let ns := index_list vs n in
          match p with
          | PS q _ => upd_rows2 (fun c j => dset c j q) rows ms ns
          | PArr l _ => upd_rows2 (fun c jk => dset c (fst jk) (snd jk)) rows ms (combine ns l)
          | _ => (rows, Some EIndex)
          end
  end.

(* self[index] = self with a 1-d index: zip(index, self) reads the values while they are being written *)
Fixpoint set_zip_lazy (a : cells) (idx : list nat) (k : nat) : res cells :=
  match idx with
  | [] => Ok a
  | i :: t => if Nat.ltb k (length a) then (do a' <- set1 a i (getc a k); set_zip_lazy a' t (S k)) else Ok a
  end.
Fixpoint setb_zip_lazy (a : bits) (idx : list nat) (k : nat) : res bits :=
  match idx with
  | [] => Ok a
  | i :: t => if Nat.ltb k (length a) then (do a' <- setb1 a i (getb a k); setb_zip_lazy a' t (S k)) else Ok a
  end.

(* ------------------------------------------------------------------ one operation on the store *)
Definition dense_bits (b : bits) : list Q := map b2q b.
Definition set_obj (s : store) (i : nat) (o : obj) : store := upd s i o.
Definition vec_of_obj (o : obj) : option vec :=
  match o with OV c _ => Some (VF c) | OL b => Some (VB b) | _ => None end.
Definition is_ro (o : obj) : bool := match o with OV _ r => r | _ => false end.
Definition with_vec (o : obj) (v : vec) : res obj :=
  match o, v with
  | OV _ r, VF c => Ok (OV c r)
  | OL _, VB b => Ok (OL b)
  | _, _ => unsupported
  end.
Definition with_rows (o : obj) (l : list vec) : res obj :=
  match o with
  | OA _ r => match all_F l with Some x => Ok (OA x r) | None => unsupported end
  | OB _ => match all_B l with Some x => Ok (OB x) | None => unsupported end
  | _ => unsupported
  end.
Definition alias_of (a : arg) (i : nat) : bool := match a with AObj j => Nat.eqb i j | _ => false end.

Definition step_res (lg : bool) (s : store) (o : op) : res (store * outcome) :=
  match o with
  | OBin b i a =>
      do x <- getobj s i; do p <- resolve s a;
      do r <- match vec_of_obj x with
              | Some v => vector_bin lg b v p
              | None => array_bin lg b (rows_of x) p
              end;
      Ok (s ++ [r], RNew r)
  | OIBin b i a =>
      do x <- getobj s i; do p <- resolve s a;
      match vec_of_obj x with
      | Some v =>
          if is_ro x then Err EValue
          else match v, b with VB _, BA Sub => Err EType | _, _ =>          (* SparseLogicalVector.__isub__ raises TypeError *)
               match p with
               | PA [r] => do v' <- vec_ibin lg b false v (PV r); do x' <- with_vec x v'; Ok (set_obj s i x', RUnit)
               | PB [r] => do v' <- vec_ibin lg b false v (PL r); do x' <- with_vec x v'; Ok (set_obj s i x', RUnit)
               | PA _ | PB _ => Err EValue
               | PArr2 _ _ => unsupported
               | _ => do v' <- vec_ibin lg b (alias_of a i) v p; do x' <- with_vec x v'; Ok (set_obj s i x', RUnit)
               end end
      | None => do l <- array_ibin lg b (alias_of a i) (rows_of x) p; do x' <- with_rows x l; Ok (set_obj s i x', RUnit)
      end
  | ORBin a k i =>
      do x <- getobj s i;
      let one (v : vec) : res vec :=
        match a, v with
        | Add, _ => vec_bin lg (BA Add) v (PS k false)
        | Mul, _ => vec_bin lg (BA Mul) v (PS k false)
        | Sub, VF c => okF (rsub_scalar c k)
        | Sub, VB b => okF (add_scalar (map (fun x : bool => if x then Some (-(1)) else None) b) k)
        | Div, VF c => okF (rtruediv_scalar c k)
        | Div, VB b => okF (do l <- mapM (fun x : bool => qdiv k (b2q x)) b; Ok (map nz l))  (* SparseVector(k / to_array()) *)
        end in
      do l <- mapM one (rows_of x);
      do r <- match vec_of_obj x, l with
              | Some _, [v] => Ok (obj_of_vec v)
              | Some _, _ => unsupported
              | None, _ => obj_of_rows l
              end;
      Ok (s ++ [r], RNew r)
  | ONeg i =>
      do x <- getobj s i;
      let r := match x with
               | OV c _ => OV (neg_cells c) false
               | OL b => OV (map (fun x : bool => if x then Some (-(1)) else None) b) false
               | OA rows _ => OA (map neg_cells rows) false
               | OB rows => OA (map (map (fun x : bool => if x then Some (-(1)) else None)) rows) false
               end in
      Ok (s ++ [r], RNew r)
  | OAbs i =>
      do x <- getobj s i;
      let r := match x with
               | OV c _ => OV (abs_cells c) false
               | OL b => OL b
               | OA rows _ => OA (map abs_cells rows) false
               | OB rows => OB rows
               end in
      Ok (s ++ [r], RNew r)
  | OInvert i =>
      do x <- getobj s i;
      match x with
      | OL b => let r := OL (lv_invert b) in Ok (s ++ [r], RNew r)
      | OB rows => let r := OB (map lv_invert rows) in Ok (s ++ [r], RNew r)
      | _ => Err EType
      end
  | OCopy i =>
      do x <- getobj s i;
      let r := match x with OV c _ => OV c false | OA rows _ => OA rows false | _ => x end in
      Ok (s ++ [r], RNew r)
  | OClear i =>
      do x <- getobj s i;
      match x with
      | OV c ro => if ro then Err EValue else Ok (set_obj s i (OV (empty_cells (length c)) ro), RUnit)
      | OA rows ro => Ok (set_obj s i (OA (map (fun c => empty_cells (length c)) rows) ro), RUnit)   (* i.set.clear(): no read_only test *)
      | OB rows => Ok (set_obj s i (OB (map (fun c => falses (length c)) rows)), RUnit)
      | OL _ => Err EType                          (* SparseLogicalVector has no clear() : AttributeError *)
      end
  | OSetRO i =>
      do x <- getobj s i;
      match x with
      | OV c _ => Ok (set_obj s i (OV c true), RUnit)
      | OA rows _ => Ok (set_obj s i (OA rows true), RUnit)
      | _ => Err EType
      end
  | OToArray i =>
      do x <- getobj s i;
      Ok (s, match x with
             | OV c _ => RDense (dense c) | OL b => RDenseB b
             | OA rows _ => RDense2 (map dense rows) | OB rows => RDenseB2 rows end)
  | OGet i ix =>
      do x <- getobj s i;
      match vec_of_obj x with
      | Some v => Ok (s, vec_get v ix)
      | None => unsupported
      end
  | OSet i ix a =>
      do x <- getobj s i; do p0 <- resolve s a;
      let p := reduce_obj p0 in
      let vd2 := vd2 p in
      match x with
      | OV c ro => if ro then Err EValue
                   else if alias_of a i && (is_open ix || negb (len1 c)) then
                     (if is_open ix then Ok (s, RUnit)                            (* `if value is self: return` *)
                      else if is_int ix then Err EIndex
                      else do c' <- set_zip_lazy c (index_list (length c) ix) 0; Ok (set_obj s i (OV c' ro), RUnit))
                   else if is_open ix && vd2                (* before the repair dct.clear() preceded the IndexError *)
                   then (if lg then Ok (set_obj s i (OV (empty_cells (length c)) ro), RErr EIndex) else Err EIndex)
                   else do c' <- vecF_set c ix p; Ok (set_obj s i (OV c' ro), RUnit)
      | OL b => if alias_of a i && (is_open ix || negb (len1 b)) then
                  (if is_open ix then Ok (s, RUnit)
                   else if is_int ix then Err EIndex
                   else do b' <- setb_zip_lazy b (index_list (length b) ix) 0; Ok (set_obj s i (OL b'), RUnit))
                else if is_open ix && vd2
                then (if lg then Ok (set_obj s i (OL (falses (length b))), RErr EIndex) else Err EIndex)
                else do b' <- vecB_set b ix p; Ok (set_obj s i (OL b'), RUnit)
      | _ => unsupported
      end
  | OCopyLike i src =>
      do x <- getobj s i;
      match x, src with
      | OV c ro, CObj j =>
          if Nat.eqb j i then Ok (s, RUnit)
          else do y <- getobj s j;
               match y with
               | OV d _ => do c' <- copy_like_vec c d; Ok (set_obj s i (OV c' ro), RUnit)
               | OL b => do c' <- copy_like_vec c (cells_of_bits b); Ok (set_obj s i (OV c' ro), RUnit)   (* other.dct of a logical vector *)
               | _ => Err EType                                                                             (* no attribute dct *)
               end
      | OA rows ro, CObj j =>
          if Nat.eqb j i then Ok (s, RUnit)
          else do y <- getobj s j;
               match y with
               | OA rows2 _ => do r <- copy_like_rows rows rows2; Ok (set_obj s i (OA r ro), RUnit)
               | OB rows2 => do r <- copy_like_rows rows (map cells_of_bits rows2); Ok (set_obj s i (OA r ro), RUnit)
               | _ => Err EType                                                                             (* no attribute rows *)
               end
      | OA rows ro, CView sel =>
          do _ <- nth_rows rows sel;                                (* self[[sel]]: IndexError before anything is copied *)
          do r <- copy_like_view rows 0 sel; Ok (set_obj s i (OA r ro), RUnit)
      | _, _ => unsupported
      end
  | OToFlat i buf =>
      do x <- getobj s i;
      let okbuf (n : nat) := match buf with None => true | Some b => Nat.eqb (length b) n end in
      match x with
      | OV c _ => if okbuf (length c) then Ok (s, RDense (dense c)) else unsupported
      | OL b => if okbuf (length b) then Ok (s, RDenseB b) else unsupported
      | OA rows _ => if okbuf (length rows * vsize rows)%nat then Ok (s, RDense (concat (map dense rows))) else unsupported
      | OB rows => if okbuf (length rows * vsize rows)%nat then Ok (s, RDenseB (concat rows)) else unsupported
      end
  | OFromFlat i l =>
      do x <- getobj s i;
      match x with
      | OV c ro => if ro then Err EValue                                       (* self[:] = arr *)
                   else do c' <- vecF_set c IOpen (reduce1 l false); Ok (set_obj s i (OV c' ro), RUnit)
      | OA rows ro =>                                                          (* dicts cleared and refilled: no read_only test *)
          if Nat.eqb (length l) (length rows * vsize rows)%nat
          then Ok (set_obj s i (OA (map of_dense (chunks (vsize rows) (length rows) l)) ro), RUnit)
          else unsupported
      | _ => unsupported
      end
  | OConv c i =>
      do x <- getobj s i;
      match c with
      | CIdent => Ok (s, RSelf)
      | CCopy => let r := match x with OV c0 _ => OV c0 false | OA rows _ => OA rows false | _ => x end in
                 Ok (s ++ [r], RNew r)
      | CFloat => match x with
                  | OV c0 _ => let r := OV c0 false in Ok (s ++ [r], RNew r)
                  | OL b => let r := OV (cells_of_bits b) false in Ok (s ++ [r], RNew r)
                  | _ => unsupported
                  end
      | CBool => match x with
                 | OV c0 _ => let r := OL (bits_of_cells c0) in Ok (s ++ [r], RNew r)
                 | OL b => let r := OL b in Ok (s ++ [r], RNew r)
                 | _ => unsupported
                 end
      end
  | ORed r i axis keep =>
      do x <- getobj s i;
      let out := match x with
                 | OV c _ => match axis with None | Some O => red_vecF r c keep | _ => RErr EValue end
                 | OL b => match axis with None | Some O => red_vecB r b keep | _ => RErr EValue end
                 | OA rows _ => red_arrF lg r rows axis keep
                 | OB rows => red_arrB r rows axis keep
                 end in
      match out with
      | RErr e => Err e
      | RNew n => Ok (s ++ [n], out)
      | _ => Ok (s, out)
      end
  end.

(* SparseArray indexing operations are separate constructors of the history *)
Inductive xop :=
| XOp (o : op)
| XAGet (i : nat) (ax : aindex)
| XASet (i : nat) (ax : aindex) (v : arg).

Definition obj_eq_outcome (o : obj) : outcome := RNew o.
Definition xstep_res (lg : bool) (s : store) (o : xop) : res (store * outcome) :=
  match o with
  | XOp o => step_res lg s o
  | XAGet i ax =>
      do x <- getobj s i;
      match x with
      | OA rows ro =>
          match arrF_get rows ax with
          | GSelf => Ok (s, RSelf)
          | GRow k => Ok (s, RNew (OV (nth k rows []) ro))             (* the row object itself: reported, not stored *)
          | GRows sel => do l <- nth_rows rows sel; Ok (s, RNew (OA l (ro && negb (len0 l))))
          | GScalF q => Ok (s, RScal q)
          | GDenseF l => Ok (s, RDense l)
          | GDense2F m => Ok (s, RDense2 m)
          | GErr e => Err e
          end
      | _ => unsupported
      end
  | XASet i ax a =>
      do x <- getobj s i; do p <- resolve s a;
      match x with
      | OA rows ro => let (rows', e) := arrF_set lg rows ro ax (reduce_obj p) in
                      Ok (set_obj s i (OA rows' ro), match e with None => RUnit | Some e => RErr e end)
      | _ => unsupported
      end
  end.

(* errors raised before anything was modified leave the store as it was; ZeroDivisionError,
   FloatingPointError, RuntimeError and "left the representable states" end the history
   (the implementation may have modified part of the target) *)
Definition crash (e : err) : bool :=
  match e with EZeroDiv | ERuntime | EOther => true | _ => false end.
Definition xstep (lg : bool) (s : store) (o : xop) : store * outcome :=
  match xstep_res lg s o with Ok r => r | Err e => (s, RErr e) end.
Definition crashed (r : outcome) : bool := match r with RErr e => crash e | _ => false end.
Fixpoint run (lg : bool) (s : store) (ops : list xop) : store * list outcome :=
  match ops with
  | [] => (s, [])
  | o :: t => let (s', r) := xstep lg s o in
              if crashed r then (s, [r])      (* the target may be partly modified: the history ends, state not compared *)
              else let (s'', rs) := run lg s' t in (s'', r :: rs)
  end.

(* ------------------------------------------------------------------ construction *)
(* SparseVector(list) / SparseLogicalVector(list) / SparseArray(list of lists): `if j: dct[i] = float(j)` *)
Definition mkV (l : list Q) (ro : bool) : obj := OV (of_dense l) ro.
Definition mkL (l : bits) : obj := OL l.
Definition mkA (m : list (list Q)) : obj := OA (map of_dense m) false.
Definition mkB (m : list bits) : obj := OB m.

(* ------------------------------------------------------------------ comparison with observations *)
Definition cell_eqb (a b : cell) : bool :=
  match a, b with None, None => true | Some x, Some y => qapproxb x y | _, _ => false end.
Definition cells_eqb : cells -> cells -> bool := list_eqb cell_eqb.
Definition bits_eqb : bits -> bits -> bool := list_eqb Bool.eqb.
Definition obj_eqb (a b : obj) : bool :=
  match a, b with
  | OV c r, OV d r' => cells_eqb c d && Bool.eqb r r'
  | OL x, OL y => bits_eqb x y
  | OA x r, OA y r' => list_eqb cells_eqb x y && Bool.eqb r r'
  | OB x, OB y => list_eqb bits_eqb x y
  | _, _ => false
  end.
Definition outcome_eqb (a b : outcome) : bool :=
  match a, b with
  | RErr e, RErr f => err_eqb e f
  | RNew x, RNew y => obj_eqb x y
  | RUnit, RUnit | RSelf, RSelf => true
  | RScal x, RScal y => qapproxb x y
  | RBool x, RBool y => Bool.eqb x y
  | RScal x, RBool y | RBool y, RScal x => qapproxb x (b2q y)
  | RDense x, RDense y => vapproxb x y
  | RDenseB x, RDenseB y => bits_eqb x y
  | RDense x, RDenseB y | RDenseB y, RDense x => vapproxb x (map b2q y)
  | RDense2 x, RDense2 y => list_eqb vapproxb x y
  | RDense2 [], RDense [] | RDense [], RDense2 [] => true      (* np.array([]) of no rows is 1-d *)
  | RDenseB2 x, RDenseB2 y => list_eqb bits_eqb x y
  | RDense2 x, RDenseB2 y | RDenseB2 y, RDense2 x => list_eqb vapproxb x (map (map b2q) y)
  | _, _ => false
  end.
Definition run_eqb (lg : bool) (s : store) (ops : list xop) (expect : store) (outs : list outcome) : bool :=
  let (f, r) := run lg s ops in
  list_eqb obj_eqb f expect && list_eqb outcome_eqb r outs.

(* debugging aid for the harness: first operation whose outcome differs, with the model's outcome *)
Fixpoint first_diff (k : nat) (a b : list outcome) : option (nat * option outcome * option outcome) :=
  match a, b with
  | [], [] => None
  | x :: a', y :: b' => if outcome_eqb x y then first_diff (S k) a' b' else Some (k, Some x, Some y)
  | x :: _, [] => Some (k, Some x, None)
  | [], y :: _ => Some (k, None, Some y)
  end.
Fixpoint first_odiff (k : nat) (a b : store) : option (nat * option obj * option obj) :=
  match a, b with
  | [], [] => None
  | x :: a', y :: b' => if obj_eqb x y then first_odiff (S k) a' b' else Some (k, Some x, Some y)
  | x :: _, [] => Some (k, Some x, None)
  | [], y :: _ => Some (k, None, Some y)
  end.
Definition run_diff (lg : bool) (s : store) (ops : list xop) (expect : store) (outs : list outcome) :=
  let (f, r) := run lg s ops in (first_diff 0 r outs, first_odiff 0 f expect).
