(* C09 — second deepening round, executable definitions only (no lemmas).
   Part A: NumPy's semantics (dense reference) of the operations added to the all-histories fragment:
           2-d block reads a[rows, cols], writes into boolean arrays, mean / max / min of boolean arrays.
   Part B: python ints that may be negative as indices (thermosteam/base/sparse.py:1621-1703 SparseVector.__getitem__ /
           __setitem__, :332-337 default_range, :732-800 SparseArray.__getitem__ `rows[m]`), modelled AS THE CODE IS:
           a SparseVector looks a negative int up in its dict (`dct.get(i, 0.)`, `i in dct`, `dct[i] = value`) without
           normalising it, whereas `rows[m]` of a SparseArray is python list indexing, which does count from the end.
           Next to it NumPy's rule (k < 0 means k + n; outside [-n, n) is an IndexError; slices clip). *)
From V Require Export Common.Num C09.Model C09.Dense.

(* ================================================================== Part A *)
Inductive doutcome3 := D3 (o : doutcome) | D3Dense2 (m : list (list Q)).

(* a[m, n] where one of m, n is a slice and the other a slice, an int list or a mask: the block rows x columns *)
Definition is_block (m n : index) : bool :=
  match m, n with
  | (IOpen | ISlice _ _ _), (IList _ | IMask _ | ISlice _ _ _) => true
  | (IList _ | IMask _), ISlice _ _ _ => true
  | _, _ => false
  end.
Definition np_get_block (M : list (list Q)) (m n : index) : res (list (list Q)) :=
  do sel <- np_index_list (length M) m; do sr <- np_take M sel;
  mapM (fun r => do idx <- np_index_list (length r) n; np_take r idx) sr.

(* value written into a boolean array: NumPy casts it to bool *)
Definition dargbv (d : dstore) (x : arg) : option bits :=
  match x with
  | AScal q => Some [truthy q]
  | ABool b => Some [b]
  | AArr l => Some (map truthy l)
  | ABArr l => Some l
  | AObj j => match nth_error d j with Some (DL b) => Some b | _ => None end
  | _ => None
  end.
Definition np_setb (b : bits) (ix : index) (w : bits) : res bits :=
  match ix with
  | IInt k | ITup k => match w with
                       | [x] => if Nat.ltb k (length b) then Ok (upd b k x) else Err EIndex
                       | _ => Err EValue
                       end
  | _ => do idx <- np_index_list (length b) ix; np_setitems b idx w
  end.
(* mean / max / min of a boolean array, as numbers (True = 1): the reductions of the 0/1 image *)
Definition np_lred (r : red) (b : bits) : res Q := np_red_num r (map b2q b).

Definition np_extra3 (d : dstore) (o : xop) : option (dstore * doutcome3) :=
  match o with
  | XAGet i (XPair m n) =>
      match nth_error d i with
      | Some (DA M _) =>
          if is_block m n
          then Some (d, match np_get_block M m n with Ok B => D3Dense2 B | Err e => D3 (DErr e) end)
          else None
      | _ => None
      end
  | XOp (OSet i ix x) =>
      match nth_error d i, dargbv d x with
      | Some (DL b), Some w =>
          (* b[k] = <sequence of another length than 1>: NumPy's rule depends on the kind of sequence (a list is taken by its
             truth value, an ndarray is rejected): outside the dense step *)
          if is_int ix && negb (len1 w) then None else
          Some (match np_setb b ix w with
                | Ok r => (upd d i (DL r), D3 (DUpd (DL r)))
                | Err e => (d, D3 (DErr e))
                end)
      | _, _ => None
      end
  | XOp (ORed r i axis keep) =>
      match nth_error d i with
      | Some (DL b) =>
          match axis, r with
          | (None | Some O), (RMean | RMax | RMin) =>
              Some (match np_lred r b with
                    | Ok q => if keep then (d ++ [DV [q] false], D3 (DNew (DV [q] false))) else (d, D3 (DScal q))
                    | Err e => (d, D3 (DErr e))
                    end)
          | _, _ => None
          end
      | _ => None
      end
  | _ => None
  end.
(* the dense step the harness ties to NumPy: the new operations, everything else as np_step *)
Definition np_step3h (d : dstore) (o : xop) : dstore * doutcome3 :=
  match np_extra3 d o with
  | Some r => r
  | None => let (d', r) := np_step d o in (d', D3 r)
  end.
Fixpoint run_np3 (lg : bool) (s : store) (ops : list xop) : list doutcome3 :=
  match ops with
  | [] => []
  | o :: t => let d := snd (np_step3h (abs_store s) o) in
              let (s', r) := xstep lg s o in
              if crashed r then [d] else d :: run_np3 lg s' t
  end.
Definition doutcome3_eqb (a b : doutcome3) : bool :=
  match a, b with
  | D3 DSkip, _ | _, D3 DSkip => true
  | D3 x, D3 y => doutcome_eqb x y
  | D3Dense2 x, D3Dense2 y => list_eqb vapproxb x y
  | _, _ => false
  end.
Definition run_np3_eqb (lg : bool) (s : store) (ops : list xop) (outs : list doutcome3) : bool :=
  list_eqb doutcome3_eqb (run_np3 lg s ops) outs.

(* ================================================================== Part B: python ints as indices *)
Open Scope Z_scope.
Inductive zindex :=
| ZInt (k : Z) | ZTup (k : Z) | ZList (l : list Z)
| ZSlice (a b : Z) (c : nat).          (* slice(a, b, c) with None already replaced by 0 / size / 1; c >= 1 *)

(* dct.get(i, 0.)  and  dct[i] if i in dct else 0.  : a negative key is never stored in a representable state *)
Definition zgetc (c : cells) (i : Z) : Q := if i <? 0 then 0%Q else getc c (Z.to_nat i).
Definition zgetb (b : bits) (i : Z) : bool := if i <? 0 then false else getb b (Z.to_nat i).
(* range(a, b, c) for c >= 1 *)
Fixpoint zrange_from (a : Z) (c : Z) (count : nat) : list Z :=
  match count with O => [] | S k => a :: zrange_from (a + c) c k end.
Definition zrange (a b : Z) (c : nat) : list Z :=
  if b <=? a then [] else zrange_from a (Z.of_nat c) (Z.to_nat ((b - a + Z.of_nat c - 1) / Z.of_nat c)).
Definition zindex_list (ix : zindex) : list Z :=
  match ix with ZInt k | ZTup k => [k] | ZList l => l | ZSlice a b c => zrange a b c end.
(* SparseVector.__getitem__ / SparseLogicalVector.__getitem__ *)
Definition vecF_zget (c : cells) (ix : zindex) : outcome :=
  match ix with
  | ZInt k | ZTup k => RScal (zgetc c k)
  | _ => RDense (map (zgetc c) (zindex_list ix))
  end.
Definition vecB_zget (b : bits) (ix : zindex) : outcome :=
  match ix with
  | ZInt k | ZTup k => RBool (zgetb b k)
  | _ => RDenseB (map (zgetb b) (zindex_list ix))
  end.
(* `if value: dct[i] = float(value)` stores the negative key (the state is no longer representable: EOther);
   `elif i in dct: del dct[i]` finds nothing to delete *)
Definition zset1 (c : cells) (i : Z) (v : Q) : res cells :=
  if i <? 0 then (if qzerob v then Ok c else Err EOther) else set1 c (Z.to_nat i) v.
Fixpoint zset_all (c : cells) (idx : list Z) (v : Q) : res cells :=
  match idx with i :: t => do c' <- zset1 c i v; zset_all c' t v | [] => Ok c end.
Fixpoint zset_zip (c : cells) (idx : list Z) (vals : list Q) : res cells :=
  match idx, vals with
  | i :: t, v :: vt => do c' <- zset1 c i v; zset_zip c' t vt
  | _, _ => Ok c
  end.
Definition vecF_zset (c : cells) (ix : zindex) (v : sval) : res cells :=
  match ix, v with
  | (ZInt k | ZTup k), SVScal q => zset1 c k q
  | (ZInt _ | ZTup _), _ => Err EIndex
  | _, SVScal q => zset_all c (zindex_list ix) q
  | _, SVArr l => zset_zip c (zindex_list ix) l
  | _, SVObj d => zset_zip c (zindex_list ix) (dense d)
  end.
(* python list indexing rows[k]: -len <= k < 0 counts from the end, anything outside [-len, len) is an IndexError *)
Definition znorm (n : nat) (k : Z) : option nat :=
  if k <? 0 then (if - k <=? Z.of_nat n then Some (Z.to_nat (Z.of_nat n + k)) else None)
  else if k <? Z.of_nat n then Some (Z.to_nat k) else None.
(* SparseArray.__getitem__: a[k] = rows[k] ; a[k, j] = rows[k][j] (the row is a SparseVector: dct.get(j, 0.)) ;
   a[[k...], j] = np.array([rows[i].dct.get(j, 0.) for i in m]) *)
Fixpoint zrows {A} (rows : list A) (sel : list Z) : res (list A) :=
  match sel with
  | [] => Ok []
  | k :: t => match znorm (length rows) k with
              | Some i => match nth_error rows i with
                          | Some r => do l <- zrows rows t; Ok (r :: l)
                          | None => Err EIndex
                          end
              | None => Err EIndex
              end
  end.
Inductive zaindex := ZRow (k : Z) | ZElem (k j : Z) | ZCol (ks : list Z) (j : Z).
Definition arrF_zget (rows : list cells) (ax : zaindex) : aget :=
  match ax with
  | ZRow k => match znorm (length rows) k with Some i => GRow i | None => GErr EIndex end
  | ZElem k j => match znorm (length rows) k with
                 | Some i => GScalF (zgetc (nth i rows []) j)
                 | None => GErr EIndex
                 end
  | ZCol ks j => match zrows rows ks with
                 | Ok sr => GDenseF (map (fun r => zgetc r j) sr)
                 | Err e => GErr e
                 end
  end.

(* a[:, n] with n an ndarray (sparse.py:738-741).  Repaired source (pending_fixes/C09_9): the class of n is tested before it is
   compared with open_slice, so an ndarray goes to the block read like a python list.  Unrepaired source (legacy = true): the
   test `if n == open_slice` compares elementwise, and the truth value of the resulting array raises ValueError unless it has
   exactly one element (then it is False and the block is read; an empty array is falsy with a DeprecationWarning). *)
Definition arrF_get_open_nd (legacy : bool) (rows : list cells) (n : index) : aget :=
  if legacy then
    match n with
    | IList l => if Nat.leb 2 (length l) then GErr EValue else arrF_get rows (XPair IOpen n)
    | IMask mk => if Nat.leb 2 (length mk) then GErr EValue else arrF_get rows (XPair IOpen n)
    | _ => arrF_get rows (XPair IOpen n)
    end
  else arrF_get rows (XPair IOpen n).

(* ---- NumPy's rule ---- *)
Definition np_znorm (n : nat) (k : Z) : res nat :=
  match znorm n k with Some i => Ok i | None => Err EIndex end.
Definition np_zget1 {A} (v : list A) (k : Z) : res A := do i <- np_znorm (length v) k; np_get1 v i.
(* slice.indices(n) for a positive step: negative bounds count from the end, then both are clipped to [0, n] *)
Definition zclip (n : nat) (a : Z) : nat :=
  Z.to_nat (Z.min (Z.max (if a <? 0 then a + Z.of_nat n else a) 0) (Z.of_nat n)).
Definition np_zindex_list (n : nat) (ix : zindex) : res (list nat) :=
  match ix with
  | ZInt k | ZTup k => do i <- np_znorm n k; Ok [i]
  | ZList l => mapM (np_znorm n) l
  | ZSlice a b c => Ok (slice_range (zclip n a) (zclip n b) c)
  end.
Definition np_zget (v : list Q) (ix : zindex) : doutcome :=
  match ix with
  | ZInt k | ZTup k => dres (np_zget1 v k) DScal
  | _ => dres (do idx <- np_zindex_list (length v) ix; np_take v idx) DDense
  end.
Definition np_zgetb (v : bits) (ix : zindex) : doutcome :=
  match ix with
  | ZInt k | ZTup k => dres (np_zget1 v k) DBool
  | _ => dres (do idx <- np_zindex_list (length v) ix; np_take v idx) DDenseB
  end.
(* v[ix] = w *)
Definition np_zset (v : list Q) (ix : zindex) (w : list Q) : res (list Q) :=
  match ix with
  | ZInt k | ZTup k => match w with
                       | [q] => do i <- np_znorm (length v) k; Ok (upd v i q)
                       | _ => Err EValue
                       end
  | _ => do idx <- np_zindex_list (length v) ix; np_setitems v idx w
  end.
Definition np_azget (M : list (list Q)) (ro : bool) (ax : zaindex) : doutcome :=
  match ax with
  | ZRow k => dres (np_zget1 M k) (fun r => DNew (DV r ro))
  | ZElem k j => dres (do r <- np_zget1 M k; np_zget1 r j) DScal
  | ZCol ks j => dres (do sel <- mapM (np_znorm (length M)) ks; do sr <- np_take M sel; mapM (fun r => np_zget1 r j) sr) DDense
  end.
Close Scope Z_scope.

(* ---- histories with python-int indices: a layer over xop ---- *)
Inductive yop :=
| YOp (o : xop)
| YGet (i : nat) (ix : zindex)
| YSet (i : nat) (ix : zindex) (v : arg)
| YAGet (i : nat) (ax : zaindex)
| YAGetNd (legacy : bool) (i : nat) (n : index).          (* a[:, n] with n an ndarray; legacy = the unrepaired source *)
Definition ystep_res (lg : bool) (s : store) (o : yop) : res (store * outcome) :=
  match o with
  | YOp o => xstep_res lg s o
  | YGet i ix =>
      do x <- getobj s i;
      match x with
      | OV c _ => Ok (s, vecF_zget c ix)
      | OL b => Ok (s, vecB_zget b ix)
      | _ => unsupported
      end
  | YSet i ix a =>
      do x <- getobj s i; do p0 <- resolve s a;
      match x with
      | OV c ro => if ro then Err EValue
                   else if alias_of a i then unsupported
                   else do v <- sval_of (reduce_obj p0); do c' <- vecF_zset c ix v; Ok (set_obj s i (OV c' ro), RUnit)
      | _ => unsupported
      end
  | YAGet i ax =>
      do x <- getobj s i;
      match x with
      | OA rows ro =>
          match arrF_zget rows ax with
          | GRow k => Ok (s, RNew (OV (nth k rows []) ro))
          | GScalF q => Ok (s, RScal q)
          | GDenseF l => Ok (s, RDense l)
          | GErr e => Err e
          | _ => unsupported
          end
      | _ => unsupported
      end
  | YAGetNd lgn i n =>
      do x <- getobj s i;
      match x with
      | OA rows ro =>
          match arrF_get_open_nd lgn rows n with
          | GSelf => Ok (s, RSelf)
          | GDenseF l => Ok (s, RDense l)
          | GDense2F m => Ok (s, RDense2 m)
          | GErr e => Err e
          | _ => unsupported
          end
      | _ => unsupported
      end
  end.
Definition ystep (lg : bool) (s : store) (o : yop) : store * outcome :=
  match ystep_res lg s o with Ok r => r | Err e => (s, RErr e) end.
Fixpoint yrun (lg : bool) (s : store) (ops : list yop) : store * list outcome :=
  match ops with
  | [] => (s, [])
  | o :: t => let (s', r) := ystep lg s o in
              if crashed r then (s, [r])
              else let (s'', rs) := yrun lg s' t in (s'', r :: rs)
  end.
Definition yrun_eqb (lg : bool) (s : store) (ops : list yop) (expect : store) (outs : list outcome) : bool :=
  let (f, r) := yrun lg s ops in
  list_eqb obj_eqb f expect && list_eqb outcome_eqb r outs.
(* NumPy on the dense image of the object addressed by a python-int operation (None: not one of them) *)
Definition np_ystep (d : dstore) (o : yop) : option doutcome :=
  match o with
  | YGet i ix => match nth_error d i with
                 | Some (DV v _) => Some (np_zget v ix)
                 | Some (DL b) => Some (np_zgetb b ix)
                 | _ => None end
  | YSet i ix x => match nth_error d i, darg d x with
                   | Some (DV v ro), Some w =>
                       Some (if ro then DErr EValue
                             else match np_zset v ix w with Ok r => DUpd (DV r ro) | Err e => DErr e end)
                   | _, _ => None end
  | YAGet i ax => match nth_error d i with
                  | Some (DA M ro) => Some (np_azget M ro ax)
                  | _ => None end
  | YOp _ | YAGetNd _ _ _ => None
  end.
Fixpoint yrun_np (lg : bool) (s : store) (ops : list yop) : list doutcome :=
  match ops with
  | [] => []
  | o :: t => let d := match np_ystep (abs_store s) o with Some r => r | None => DSkip end in
              let (s', r) := ystep lg s o in
              if crashed r then [d] else d :: yrun_np lg s' t
  end.
Definition yrun_np_eqb (lg : bool) (s : store) (ops : list yop) (outs : list doutcome) : bool :=
  list_eqb doutcome_eqb (yrun_np lg s ops) outs.
