(* C09 — lemmas.  Part 1: the representation invariant and its preservation by every kernel. *)
From V Require Import Common.NumFacts C09.Model C09.Dense.
From Coq Require Import Lia Lqa.

(* ------------------------------------------------------------------ invariant *)
Definition wfc (c : cell) : Prop := match c with Some q => ~ q == 0 | None => True end.
Definition wf (c : cells) : Prop := Forall wfc c.
Definition vwf (v : vec) : Prop := match v with VF c => wf c | VB _ => True end.
Definition owf (o : obj) : Prop :=
  match o with OV c _ => wf c | OA rows _ => Forall wf rows | _ => True end.
Definition store_wf (s : store) : Prop := Forall owf s.
Definition pwf (p : operand) : Prop :=
  match p with PV c => wf c | PA rows => Forall wf rows | _ => True end.

Lemma wfc_nz q : wfc (nz q).
Proof. unfold nz. destruct (qzerob q) eqn:E; cbn; auto. now apply qzerob_false. Qed.
Lemma dcell_nz q : dcell (nz q) == q.
Proof. unfold nz. destruct (qzerob q) eqn:E; cbn; try reflexivity. apply qzerob_true in E. now rewrite E. Qed.
Lemma qmul_nz a b : ~ a == 0 -> ~ b == 0 -> ~ a * b == 0.
Proof. intros Ha Hb H. apply Qmult_integral in H. tauto. Qed.
Lemma qinv_nz a : ~ a == 0 -> ~ / a == 0.
Proof. intros Ha H. assert (K : a * / a == 1) by (apply Qmult_inv_r; exact Ha). rewrite H in K. lra. Qed.
Lemma qdiv_nz a b : ~ a == 0 -> ~ b == 0 -> ~ a / b == 0.
Proof. intros Ha Hb. unfold Qdiv. apply qmul_nz; auto. now apply qinv_nz. Qed.
Lemma qopp_nz a : ~ a == 0 -> ~ - a == 0.
Proof. intros Ha H. apply Ha. lra. Qed.
Lemma qabs_nz a : ~ a == 0 -> ~ Qabs a == 0.
Proof.
  intros Ha H. apply Ha. destruct (Qlt_le_dec a 0) as [L|L].
  - rewrite Qabs_neg in H by lra. lra.
  - rewrite Qabs_pos in H by lra. exact H.
Qed.

Lemma wf_empty n : wf (empty_cells n).
Proof. unfold wf, empty_cells. induction n; cbn; constructor; cbn; auto. Qed.
Lemma wf_of_dense l : wf (of_dense l).
Proof. unfold wf, of_dense. induction l; cbn; constructor; auto using wfc_nz. Qed.
Lemma wf_cells_of_bits b : wf (cells_of_bits b).
Proof. unfold wf, cells_of_bits. induction b as [|[|] b IH]; cbn; constructor; cbn; auto. lra. Qed.
Lemma wf_map (f : cell -> cell) a : (forall x, wfc x -> wfc (f x)) -> wf a -> wf (map f a).
Proof. intros Hf H. unfold wf in *. induction H; cbn; constructor; auto. Qed.
Lemma wf_map_any {A} (f : A -> cell) (l : list A) : (forall x, wfc (f x)) -> wf (map f l).
Proof. intros Hf. unfold wf. induction l; cbn; constructor; auto. Qed.
Lemma wf_map2 (f : cell -> cell -> cell) a b :
  (forall x y, wfc x -> wfc y -> wfc (f x y)) -> wf a -> wf b -> wf (map2 f a b).
Proof.
  intros Hf Ha. revert b. unfold wf in *. induction Ha as [|x a Hx Ha IH]; intros [|y b] Hb; cbn; try constructor.
  - inversion Hb; subst. auto.
  - inversion Hb; subst. auto.
Qed.
Lemma wf_map2_arr {B} (f : cell -> B -> cell) a (b : list B) :
  (forall x y, wfc x -> wfc (f x y)) -> wf a -> wf (map2 f a b).
Proof.
  intros Hf Ha. revert b. unfold wf in *. induction Ha as [|x a Hx Ha IH]; intros [|y b]; cbn; constructor; auto.
Qed.
Lemma wf_mapM {A} (f : A -> res cell) (l : list A) r :
  (forall x c, f x = Ok c -> wfc c) -> mapM f l = Ok r -> wf r.
Proof.
  intros Hf. revert r. unfold wf. induction l as [|x l IH]; cbn; intros r H.
  - inversion H. constructor.
  - destruct (f x) eqn:E; try discriminate. destruct (mapM f l) eqn:E2; try discriminate.
    inversion H; subst. constructor; eauto.
Qed.
Lemma wf_mapM_in (f : cell -> res cell) (l : cells) r :
  (forall x c, wfc x -> f x = Ok c -> wfc c) -> wf l -> mapM f l = Ok r -> wf r.
Proof.
  intros Hf Hl. revert r. unfold wf in *. induction Hl as [|x l Hx Hl IH]; cbn; intros r H.
  - inversion H. constructor.
  - destruct (f x) eqn:E; try discriminate. destruct (mapM f l) eqn:E2; try discriminate.
    inversion H; subst. constructor; eauto.
Qed.
Lemma wf_map2M (f : cell -> cell -> res cell) a b r :
  (forall x y c, wfc x -> wfc y -> f x y = Ok c -> wfc c) -> wf a -> wf b -> map2M f a b = Ok r -> wf r.
Proof.
  intros Hf Ha. revert b r. unfold wf in *. induction Ha as [|x a Hx Ha IH]; intros [|y b] r Hb H; cbn in H;
    try (inversion H; constructor).
  inversion Hb; subst.
  destruct (f x y) eqn:E; try discriminate. destruct (map2M f a b) eqn:E2; try discriminate.
  inversion H; subst. constructor; eauto.
Qed.
Lemma wf_map2M_arr {B} (f : cell -> B -> res cell) a (b : list B) r :
  (forall x y c, wfc x -> f x y = Ok c -> wfc c) -> wf a -> map2M f a b = Ok r -> wf r.
Proof.
  intros Hf Ha. revert b r. unfold wf in *. induction Ha as [|x a Hx Ha IH]; intros [|y b] r H; cbn in H;
    try (inversion H; constructor).
  destruct (f x y) eqn:E; try discriminate. destruct (map2M f a b) eqn:E2; try discriminate.
  inversion H; subst. constructor; eauto.
Qed.
Lemma wf_hd a : wf a -> wfc (hd None a).
Proof. intros H. destruct H; cbn; auto. Qed.
Lemma wfc_join (o : option cell) (b : cells) : wf b -> hd_error b = o -> wfc (join_cell o).
Proof. intros H E. destruct H; cbn in E; subst; cbn; auto. Qed.

(* cell-level tactic: case analysis on the cells, on the zero tests, then arithmetic *)
Ltac nzt :=
  repeat match goal with
         | H : wfc (Some _) |- _ => cbn in H
         | |- wfc (nz _) => apply wfc_nz
         | |- wfc None => exact I
         | |- wfc (Some _) => cbn
         | |- ~ _ * _ == 0 => apply qmul_nz
         | |- ~ _ / _ == 0 => apply qdiv_nz
         | |- ~ - _ == 0 => apply qopp_nz
         | |- ~ Qabs _ == 0 => apply qabs_nz
         end; auto.
Ltac cellwf :=
  intros;
  repeat match goal with c : cell |- _ => destruct c end;
  cbn in *; nzt;
  repeat match goal with
         | |- context [qzerob ?q] => let E := fresh "E" in destruct (qzerob q) eqn:E; cbn
         end; nzt;
  try match goal with E : qzerob _ = false |- ~ _ == 0 => now apply qzerob_false end.

(* ------------------------------------------------------------------ arithmetic kernels keep the invariant *)
Lemma dispatch_sparse_wf (same : cells -> cells -> res cells) self1 other1 a b r :
  wf a -> wf b ->
  (forall r, same a b = Ok r -> wf r) ->
  (forall v r, wfc v -> self1 v b = Ok r -> wf r) ->
  (forall o r, wfc (join_cell o) -> other1 a o = Ok r -> wf r) ->
  dispatch_sparse same self1 other1 a b = Ok r -> wf r.
Proof.
  intros Ha Hb H1 H2 H3. unfold dispatch_sparse.
  destruct (Nat.eqb (length a) (length b)); [apply H1|].
  destruct (len1 a && negb (len0 b)); [apply H2; now apply wf_hd|].
  destruct (len1 b); [|discriminate].
  apply H3. eapply wfc_join; eauto.
Qed.
Lemma dispatch_array_wf {B} (same : cells -> list B -> res cells) self1 a (b : list B) r :
  wf a ->
  (forall r, same a b = Ok r -> wf r) ->
  (forall v r, wfc v -> self1 v b = Ok r -> wf r) ->
  dispatch_array same self1 a b = Ok r -> wf r.
Proof.
  intros Ha H1 H2. unfold dispatch_array.
  destruct (Nat.eqb (length a) (length b)); [apply H1|].
  destruct (len1 a && negb (len0 b)); [apply H2; now apply wf_hd|discriminate].
Qed.
Ltac okinv := match goal with H : Ok _ = Ok _ |- _ => inversion H; subst; clear H end.

Lemma add_other1_wf a o : wf a -> wfc o -> wf (add_other1 a o).
Proof. intros Ha Ho. destruct o; cbn; auto. apply wf_map; auto. cellwf. Qed.
Lemma add_sparse_wf a b r : wf a -> wf b -> add_sparse a b = Ok r -> wf r.
Proof.
  intros Ha Hb. apply dispatch_sparse_wf; auto; intros; okinv.
  - apply wf_map2; auto. unfold add_same_c. cellwf.
  - destruct v; cbn; auto. apply wf_map; auto. cellwf.
  - now apply add_other1_wf.
Qed.
Lemma add_scalar_wf a k r : wf a -> add_scalar a k = Ok r -> wf r.
Proof.
  intros Ha H. unfold add_scalar in H. okinv. destruct (qzerob k) eqn:E; auto.
  apply (add_other1_wf a (Some k)); auto. cbn. now apply qzerob_false.
Qed.
Lemma add_array_wf a b r : wf a -> add_array a b = Ok r -> wf r.
Proof.
  intros Ha. apply dispatch_array_wf; auto; intros; okinv.
  - apply wf_map2_arr; auto. unfold add_arr_c. cellwf.
  - destruct v; cbn; apply wf_map_any; intros; apply wfc_nz.
Qed.

Lemma sub_other1_wf a o : wf a -> wfc o -> wf (sub_other1 a o).
Proof. intros Ha Ho. destruct o; cbn; auto. apply wf_map; auto. cellwf. Qed.
Lemma sub_sparse_wf a b r : wf a -> wf b -> sub_sparse a b = Ok r -> wf r.
Proof.
  intros Ha Hb. apply dispatch_sparse_wf; auto; intros; okinv.
  - apply wf_map2; auto. unfold sub_same_c. cellwf.
  - destruct v; cbn; apply wf_map; auto; cellwf.
  - now apply sub_other1_wf.
Qed.
Lemma sub_scalar_wf a k r : wf a -> sub_scalar a k = Ok r -> wf r.
Proof.
  intros Ha H. unfold sub_scalar in H. okinv. destruct (qzerob k) eqn:E; auto.
  apply (sub_other1_wf a (Some k)); auto. cbn. now apply qzerob_false.
Qed.
Lemma sub_array_wf a b r : wf a -> sub_array a b = Ok r -> wf r.
Proof.
  intros Ha. apply dispatch_array_wf; auto; intros; okinv.
  - apply wf_map2_arr; auto. unfold sub_arr_c. cellwf.
  - destruct v; cbn; apply wf_map_any; intros; cellwf.
Qed.

Lemma mul_sparse_wf a b r : wf a -> wf b -> mul_sparse a b = Ok r -> wf r.
Proof.
  intros Ha Hb. apply dispatch_sparse_wf; auto; intros; okinv.
  - apply wf_map2; auto. unfold mul_same_c. cellwf.
  - destruct v; cbn; [apply wf_map; auto; cellwf | apply wf_empty].
  - unfold mul_other1. destruct (join_cell o); cbn; [apply wf_map; auto; cellwf | apply wf_empty].
Qed.
Lemma mul_scalar_wf a k r : wf a -> mul_scalar a k = Ok r -> wf r.
Proof.
  intros Ha H. unfold mul_scalar in H. okinv. destruct (qzerob k) eqn:E; [apply wf_empty|].
  apply qzerob_false in E. apply wf_map; auto. cellwf.
Qed.
Lemma mul_array_wf a b r : wf a -> mul_array a b = Ok r -> wf r.
Proof.
  intros Ha. apply dispatch_array_wf; auto; intros; okinv.
  - apply wf_map2_arr; auto. unfold mul_arr_c. cellwf.
  - destruct v; cbn; [apply wf_map_any; intros; cellwf | apply wf_empty].
Qed.

Lemma qdiv_ok v w q : qdiv v w = Ok q -> ~ w == 0 /\ q = v / w.
Proof. unfold qdiv. destruct (qzerob w) eqn:E; intros H; inversion H. split; auto. now apply qzerob_false. Qed.
Lemma div_c_wf x y c : wfc x -> div_c x y = Ok c -> wfc c.
Proof.
  destruct x as [v|]; cbn; intros Hx H; [|inversion H; exact I].
  destruct (qdiv v y) eqn:E; cbn in H; inversion H; subst. apply qdiv_ok in E as [Hy ->]. cbn. now apply qdiv_nz.
Qed.
Lemma truediv_scalar_wf a k r : wf a -> truediv_scalar a k = Ok r -> wf r.
Proof. intros Ha. apply wf_mapM_in; auto. intros x c Hx. now apply div_c_wf. Qed.
Lemma truediv_same_c_wf x y c : wfc x -> wfc y -> truediv_same_c x y = Ok c -> wfc c.
Proof.
  destruct x as [v|], y as [w|]; cbn; intros Hx Hy H; try discriminate; try (inversion H; exact I).
  destruct (qdiv v w) eqn:E; cbn in H; inversion H; subst. apply qdiv_ok in E as [Hw ->]. cbn. now apply qdiv_nz.
Qed.
Lemma truediv_sparse_wf a b r : wf a -> wf b -> truediv_sparse a b = Ok r -> wf r.
Proof.
  intros Ha Hb. apply dispatch_sparse_wf; auto.
  - intros r0. apply wf_map2M; auto. intros x y c. apply truediv_same_c_wf.
  - intros v r0 Hv. unfold truediv_self1. destruct v as [value|]; [|intros H; okinv; apply wf_empty].
    destruct (Nat.eqb (nkeys b) (length b)); [|discriminate].
    apply wf_mapM. intros x c. now apply div_c_wf.
  - intros o r0 Ho. unfold truediv_other1. destruct (join_cell o) as [other|].
    + apply wf_mapM_in; auto. intros x c Hx. now apply div_c_wf.
    + destruct (Nat.eqb (nkeys a) 0); intros H; inversion H; subst; auto.
Qed.
Lemma truediv_array_wf a b r : wf a -> truediv_array a b = Ok r -> wf r.
Proof.
  intros Ha. apply dispatch_array_wf; auto.
  - intros r0. apply wf_map2M_arr; auto. intros x y c. apply div_c_wf.
  - intros v r0 Hv. unfold truediv_arr_self1. destruct v as [value|]; [|intros H; okinv; apply wf_empty].
    apply wf_mapM. intros x c. now apply div_c_wf.
Qed.

Lemma neg_cells_wf a : wf a -> wf (neg_cells a).
Proof. intros. apply wf_map; auto. cellwf. Qed.
Lemma abs_cells_wf a : wf a -> wf (abs_cells a).
Proof. intros. apply wf_map; auto. cellwf. Qed.
Lemma rtruediv_scalar_wf a k r : wf a -> rtruediv_scalar a k = Ok r -> wf r.
Proof.
  intros Ha. unfold rtruediv_scalar. destruct (qzerob k) eqn:E; [intros H; okinv; apply wf_empty|].
  apply qzerob_false in E. destruct (Nat.eqb (nkeys a) (length a)); [|discriminate].
  apply wf_mapM. intros x c H. destruct (qdiv k (dcell x)) eqn:D; cbn in H; inversion H; subst.
  apply qdiv_ok in D as [Hx ->]. cbn. now apply qdiv_nz.
Qed.
Lemma rsub_scalar_wf a k r : wf a -> rsub_scalar a k = Ok r -> wf r.
Proof. intros Ha. unfold rsub_scalar. apply add_scalar_wf. now apply neg_cells_wf. Qed.

Lemma k_sparse_wf o a b r : wf a -> wf b -> k_sparse false o a b = Ok r -> wf r.
Proof.
  intros Ha Hb. destruct o; cbv beta iota delta [k_sparse].
  - now apply add_sparse_wf. - now apply sub_sparse_wf. - now apply mul_sparse_wf. - now apply truediv_sparse_wf.
Qed.
Lemma k_scalar_wf o a k r : wf a -> k_scalar o a k = Ok r -> wf r.
Proof. destruct o; cbn; eauto using add_scalar_wf, sub_scalar_wf, mul_scalar_wf, truediv_scalar_wf. Qed.
Lemma k_array_wf o a b r : wf a -> k_array o a b = Ok r -> wf r.
Proof. destruct o; cbn; eauto using add_array_wf, sub_array_wf, mul_array_wf, truediv_array_wf. Qed.
Lemma ik_sparse_wf o al a b r : wf a -> wf b -> ik_sparse false o al a b = Ok r -> wf r.
Proof.
  intros Ha Hb. destruct al, o; cbv beta iota delta [ik_sparse k_sparse iadd_self isub_self_fixed imul_self itruediv_self].
  - now apply add_sparse_wf. - now apply sub_sparse_wf. - now apply mul_sparse_wf. - now apply truediv_sparse_wf.
  - now apply add_sparse_wf. - now apply sub_sparse_wf. - now apply mul_sparse_wf. - now apply truediv_sparse_wf.
Qed.

(* ------------------------------------------------------------------ Part 2: every operation of the store keeps the invariant *)
Lemma mapM_Forall {A B} (P : A -> Prop) (Q : B -> Prop) (f : A -> res B) l r :
  (forall x y, P x -> f x = Ok y -> Q y) -> Forall P l -> mapM f l = Ok r -> Forall Q r.
Proof.
  intros Hf Hl. revert r. induction Hl as [|x l Hx Hl IH]; cbn; intros r H.
  - inversion H. constructor.
  - destruct (f x) eqn:E; try discriminate. destruct (mapM f l) eqn:E2; try discriminate.
    inversion H; subst. constructor; eauto.
Qed.
Lemma map2M_Forall {A B C} (P : A -> Prop) (P' : B -> Prop) (Q : C -> Prop) (f : A -> B -> res C) a b r :
  (forall x y z, P x -> P' y -> f x y = Ok z -> Q z) -> Forall P a -> Forall P' b -> map2M f a b = Ok r -> Forall Q r.
Proof.
  intros Hf Ha. revert b r. induction Ha as [|x a Hx Ha IH]; intros [|y b] r Hb H; cbn in H;
    try (inversion H; constructor).
  inversion Hb; subst.
  destruct (f x y) eqn:E; try discriminate. destruct (map2M f a b) eqn:E2; try discriminate.
  inversion H; subst. constructor; eauto.
Qed.
Lemma Forall_True {A} (l : list A) : Forall (fun _ => True) l.
Proof. induction l; constructor; auto. Qed.
Lemma Forall_upd {A} (P : A -> Prop) l i x : Forall P l -> P x -> Forall P (upd l i x).
Proof.
  intros Hl Hx. revert i. induction Hl as [|h t Hh Ht IH]; intros [|i]; cbn; constructor; auto.
Qed.
Lemma Forall_nth_error {A} (P : A -> Prop) l i x : Forall P l -> nth_error l i = Some x -> P x.
Proof. intros Hl H. eapply Forall_forall; eauto. eapply nth_error_In; eauto. Qed.
Lemma Forall_nth {A} (P : A -> Prop) l i d : Forall P l -> P d -> P (nth i l d).
Proof. intros Hl Hd. revert i. induction Hl; intros [|i]; cbn; auto. Qed.

Lemma okF_inv x r : okF x = Ok r -> exists c, x = Ok c /\ r = VF c.
Proof. destruct x; cbn; intros H; inversion H; eauto. Qed.
Lemma okB_inv x r : okB x = Ok r -> exists b, r = VB b.
Proof. destruct x; cbn; intros H; inversion H; eauto. Qed.
Ltac vinv :=
  repeat match goal with
         | H : okF _ = Ok _ |- _ => apply okF_inv in H as (? & ? & ->)
         | H : okB _ = Ok _ |- _ => apply okB_inv in H as (? & ->)
         | H : Ok _ = Ok _ |- _ => inversion H; subst; clear H
         | H : Err _ = Ok _ |- _ => discriminate H
         | H : unsupported = Ok _ |- _ => discriminate H
         end.

Opaque k_sparse k_scalar k_array ik_sparse lv_isparse lv_iscalar lv_iarray cmp_sparse cmp_scalar cmp_array lv_cmp_sparse lv_cmp_scalar.
Lemma vec_bin_wf o self p r : vwf self -> pwf p -> vec_bin false o self p = Ok r -> vwf r.
Proof.
  intros Hs Hp H. destruct self as [c|b]; cbn in Hs.
  - destruct o as [a|m|lo], p; cbn in H; vinv; cbn; auto;
      eauto using k_sparse_wf, k_scalar_wf, k_array_wf, wf_cells_of_bits.
  - pose proof (wf_cells_of_bits b) as Hb.
    destruct o as [a|m|lo]; [destruct a| |]; destruct p; cbn in H;
      repeat match type of H with
             | context [if ?x then _ else _] => destruct x
             | context [match ?l with [] => _ | _ => _ end] => destruct l
             end; vinv; cbn; auto;
      eauto using k_sparse_wf, k_scalar_wf, k_array_wf, wf_cells_of_bits.
Qed.
Lemma vec_ibin_wf o al self p r : vwf self -> pwf p -> vec_ibin false o al self p = Ok r -> vwf r.
Proof.
  intros Hs Hp H. destruct self as [c|b]; cbn in Hs.
  - destruct o as [a|m|lo], p; cbn in H; vinv; cbn; auto;
      eauto using ik_sparse_wf, k_scalar_wf, k_array_wf, wf_cells_of_bits.
  - destruct o as [a|m|lo]; [destruct a| |]; destruct p; cbn in H;
      repeat match type of H with
             | context [if ?x then _ else _] => destruct x
             end; vinv; cbn; auto.
Qed.

Transparent k_sparse k_scalar k_array ik_sparse lv_isparse lv_iscalar lv_iarray cmp_sparse cmp_scalar cmp_array lv_cmp_sparse lv_cmp_scalar.
Lemma all_F_wf l r : Forall vwf l -> all_F l = Some r -> Forall wf r.
Proof.
  intros Hl. revert r. induction Hl as [|x l Hx Hl IH]; cbn; intros r H.
  - inversion H. constructor.
  - destruct x; try discriminate. destruct (all_F l); cbn in H; inversion H; subst. constructor; auto.
Qed.
Lemma obj_of_rows_wf l o : Forall vwf l -> obj_of_rows l = Ok o -> owf o.
Proof.
  intros Hl H. unfold obj_of_rows in H. destruct (all_F l) eqn:E.
  - inversion H; subst. cbn. eapply all_F_wf; eauto.
  - destruct (all_B l); inversion H; subst. exact I.
Qed.
Lemma obj_of_vec_wf v : vwf v -> owf (obj_of_vec v).
Proof. destruct v; cbn; auto. Qed.
Lemma rows_of_wf o : owf o -> Forall vwf (rows_of o).
Proof.
  destruct o; cbn; intros H; try (repeat constructor; auto; fail).
  - induction H; cbn; constructor; auto.
  - induction rows; cbn; constructor; cbn; auto.
Qed.
Lemma map_PV_pwf r : Forall wf r -> Forall pwf (map PV r).
Proof. intros H. induction H; cbn; constructor; auto. Qed.
Lemma map_PL_pwf r : Forall pwf (map PL r).
Proof. induction r; cbn; constructor; cbn; auto. Qed.

Lemma vector_bin_wf o self p r : vwf self -> pwf p -> vector_bin false o self p = Ok r -> owf r.
Proof.
  intros Hs Hp H. unfold vector_bin in H.
  set (self' := match self, o with VB b, BA Sub => VF (cells_of_bits b) | _, _ => self end) in *.
  assert (Hs' : vwf self').
  { subst self'. destruct self; auto. destruct o as [[]| |]; auto; apply wf_cells_of_bits. }
  destruct p; cbn in H.
  1,2,5,6: destruct (vec_bin false o self' _) eqn:E; cbn in H; inversion H; subst;
           apply obj_of_vec_wf; eapply vec_bin_wf; [exact Hs'|exact Hp|exact E].
  - destruct (mapM _ rows) eqn:E; cbn in H; try discriminate.
    eapply obj_of_rows_wf; [|eassumption]. eapply mapM_Forall; [|exact Hp|exact E].
    intros x y Hx Hy. cbn in Hy. eapply vec_bin_wf; [exact Hs'| |exact Hy]. exact Hx.
  - destruct (mapM _ rows) eqn:E; cbn in H; try discriminate.
    eapply obj_of_rows_wf; [|eassumption]. eapply mapM_Forall; [|apply Forall_True|exact E].
    intros x y _ Hy. cbn in Hy. eapply vec_bin_wf; [exact Hs'| |exact Hy]. exact I.
  - destruct (mapM _ m) eqn:E; cbn in H; try discriminate.
    eapply obj_of_rows_wf; [|eassumption]. eapply mapM_Forall; [|apply Forall_True|exact E].
    intros x y _ Hy. cbn in Hy. eapply vec_bin_wf; [exact Hs'| |exact Hy]. exact I.
Qed.

Lemma array_bin_go_wf o rows others r :
  Forall vwf rows -> Forall pwf others ->
  match rows, others with
  | [row], _ => do l <- mapM (fun x => vec_bin false o row x) others; obj_of_rows l
  | _, [x] => do l <- mapM (fun r => vec_bin false o r x) rows; obj_of_rows l
  | _, _ => do l <- map2M (fun r x => vec_bin false o r x) rows others; obj_of_rows l
  end = Ok r -> owf r.
Proof.
  intros Hr Ho H.
  assert (G1 : forall row l, vwf row -> mapM (fun x => vec_bin false o row x) others = Ok l -> Forall vwf l).
  { intros row l Hrow. eapply mapM_Forall; [|exact Ho]. intros x y Hx Hy. eapply vec_bin_wf; eauto. }
  assert (G2 : forall x l, pwf x -> mapM (fun r => vec_bin false o r x) rows = Ok l -> Forall vwf l).
  { intros x l Hx. eapply mapM_Forall; [|exact Hr]. intros r0 y Hr0 Hy. eapply vec_bin_wf; eauto. }
  assert (G3 : forall l, map2M (fun r x => vec_bin false o r x) rows others = Ok l -> Forall vwf l).
  { intros l. eapply map2M_Forall; [|exact Hr|exact Ho]. intros x y z Hx Hy Hz. eapply vec_bin_wf; eauto. }
  destruct rows as [|row [|row2 rows]]; destruct others as [|x [|x2 others]]; cbn [bind] in H.
  all: match type of H with (do l <- ?m; _) = _ => destruct m eqn:E; cbn in H; try discriminate end;
       (eapply obj_of_rows_wf; [|exact H]);
       first [ eapply G3; first [exact E | reflexivity]
             | inversion Ho; subst; eapply G2; [|first [exact E | reflexivity]]; assumption
             | inversion Hr; subst; eapply G1; [|first [exact E | reflexivity]]; assumption ].
Qed.
Lemma array_bin_wf o rows p r : Forall vwf rows -> pwf p -> array_bin false o rows p = Ok r -> owf r.
Proof.
  intros Hr Hp H. unfold array_bin in H.
  assert (G : forall x l, pwf x -> mapM (fun r => vec_bin false o r x) rows = Ok l -> Forall vwf l).
  { intros x l Hx. eapply mapM_Forall; [|exact Hr]. intros r0 y Hr0 Hy. eapply vec_bin_wf; [exact Hr0|exact Hx|exact Hy]. }
  destruct p.
  1,2,5,6: match type of H with (do l <- ?m; _) = _ => destruct m eqn:E; cbn in H; try discriminate end;
           (eapply obj_of_rows_wf; [|exact H]); eapply G; [exact Hp|exact E].
  - eapply array_bin_go_wf; [exact Hr| |exact H]. now apply map_PV_pwf.
  - eapply array_bin_go_wf; [exact Hr| |exact H]. apply map_PL_pwf.
  - match type of H with (do l <- ?m; _) = _ => destruct m eqn:E; cbn in H; try discriminate end.
    eapply obj_of_rows_wf; [|exact H]. eapply map2M_Forall; [|exact Hr|apply (Forall_True m)|exact E].
    intros x y z Hx _ Hz. cbn in Hz. eapply vec_bin_wf; [exact Hx| |exact Hz]. exact I.
Qed.
Lemma array_ibin_wf o al rows p l : Forall vwf rows -> pwf p -> array_ibin false o al rows p = Ok l -> Forall vwf l.
Proof.
  intros Hr Hp H. unfold array_ibin in H.
  assert (G : forall al x l, pwf x -> mapM (fun row => vec_ibin false o al row x) rows = Ok l -> Forall vwf l).
  { intros al0 x l0 Hx. eapply mapM_Forall; [|exact Hr]. intros r0 y Hr0 Hy. eapply vec_ibin_wf; [exact Hr0|exact Hx|exact Hy]. }
  destruct p.
  - destruct (negb (is_float_rows rows)); try discriminate. eapply G; [exact Hp|exact H].
  - eapply G; [exact Hp|exact H].
  - destruct (negb (is_float_rows rows)); try discriminate.
    destruct rows0 as [|x [|x2 rows0]].
    + eapply map2M_Forall; [|exact Hr|exact Hp|exact H].
      intros x0 y z Hx Hy Hz. cbn in Hz. eapply vec_ibin_wf; [exact Hx| |exact Hz]. exact Hy.
    + inversion Hp; subst. eapply (G al (PV x)); [assumption|exact H].
    + eapply map2M_Forall; [|exact Hr|exact Hp|exact H].
      intros x0 y z Hx Hy Hz. cbn in Hz. eapply vec_ibin_wf; [exact Hx| |exact Hz]. exact Hy.
  - destruct rows0 as [|x [|x2 rows0]].
    + eapply map2M_Forall; [|exact Hr|apply (Forall_True [])|exact H].
      intros x0 y z Hx _ Hz. cbn in Hz. eapply vec_ibin_wf; [exact Hx| |exact Hz]. exact I.
    + eapply (G al (PL x)); [exact I|exact H].
    + eapply map2M_Forall; [|exact Hr|apply (Forall_True (x :: x2 :: rows0))|exact H].
      intros x0 y z Hx _ Hz. cbn in Hz. eapply vec_ibin_wf; [exact Hx| |exact Hz]. exact I.
  - eapply G; [exact Hp|exact H].
  - eapply G; [exact Hp|exact H].
  - eapply map2M_Forall; [|exact Hr|apply (Forall_True m)|exact H].
    intros x0 y z Hx _ Hz. cbn in Hz. eapply vec_ibin_wf; [exact Hx| |exact Hz]. exact I.
Qed.

(* ------------------------------------------------------------------ indexing and reductions keep the invariant *)
Lemma wf_upd a i c : wf a -> wfc c -> wf (upd a i c).
Proof. intros. now apply Forall_upd. Qed.
Lemma set1_wf a i v r : wf a -> set1 a i v = Ok r -> wf r.
Proof.
  unfold set1. intros Ha H. destruct (inb a i).
  - okinv. apply wf_upd; auto. apply wfc_nz.
  - destruct (qzerob v); inversion H; subst; auto.
Qed.
Lemma set_zip_wf idx : forall a vals r, wf a -> set_zip a idx vals = Ok r -> wf r.
Proof.
  induction idx as [|i idx IH]; intros a [|v vals] r Ha H; cbn in H; try (okinv; auto; fail).
  destruct (set1 a i v) eqn:E; cbn in H; try discriminate. eapply IH; [|exact H]. eapply set1_wf; eauto.
Qed.
Lemma set_all_wf idx : forall a v r, wf a -> set_all a idx v = Ok r -> wf r.
Proof.
  induction idx as [|i idx IH]; intros a v r Ha H; cbn in H; try (okinv; auto; fail).
  destruct (set1 a i v) eqn:E; cbn in H; try discriminate. eapply IH; [|exact H]. eapply set1_wf; eauto.
Qed.
Lemma set_zip_lazy_wf idx : forall a k r, wf a -> set_zip_lazy a idx k = Ok r -> wf r.
Proof.
  induction idx as [|i idx IH]; intros a k r Ha H; cbn [set_zip_lazy] in H; try (okinv; auto; fail).
  destruct (Nat.ltb k (length a)); [|okinv; auto].
  destruct (set1 a i (getc a k)) eqn:E; cbn in H; try discriminate. eapply IH; [|exact H]. eapply set1_wf; eauto.
Qed.
Lemma wf_app a b : wf a -> wf b -> wf (a ++ b).
Proof. intros. now apply Forall_app. Qed.
Lemma wf_firstn n a : wf a -> wf (firstn n a).
Proof. intros H. revert n. unfold wf in *. induction H; intros [|n]; cbn; try constructor; auto. Qed.
Definition svwf (v : sval) : Prop := match v with SVObj c => wf c | _ => True end.
Lemma set_open_wf a v r : svwf v -> set_open a v = Ok r -> wf r.
Proof.
  intros Hv H. destruct v as [q|l|c]; cbn in H.
  - okinv. destruct (qzerob q) eqn:E; [apply wf_empty|]. apply qzerob_false in E. apply wf_map_any. intros; exact E.
  - eapply set_zip_wf; [|exact H]. apply wf_empty.
  - destruct (Nat.leb (length c) (length a)).
    + okinv. apply wf_app; auto. apply wf_empty.
    + destruct (Nat.eqb (nkeys (skipn (length a) c)) 0); inversion H; subst. now apply wf_firstn.
Qed.
Lemma set_idx_wf a idx v r : wf a -> set_idx a idx v = Ok r -> wf r.
Proof. intros Ha H. destruct v; cbn in H; eauto using set_zip_wf, set_all_wf. Qed.
Lemma sval_of_wf p v : pwf p -> sval_of p = Ok v -> svwf v.
Proof.
  intros Hp H. destruct p; cbn in H; try discriminate; try (okinv; exact I).
  - destruct c as [|x [|y c]]; okinv; cbn; auto.
  - destruct b as [|x [|y b]]; okinv; cbn; auto.
Qed.
Lemma vecF_set_wf c ix p r : wf c -> pwf p -> vecF_set c ix p = Ok r -> wf r.
Proof.
  intros Hc Hp H. unfold vecF_set in H. destruct (sval_of p) as [v|] eqn:E; cbn in H; try discriminate.
  pose proof (sval_of_wf _ _ Hp E) as Hv.
  destruct ix; try (eapply set_idx_wf; eauto; fail).
  - destruct v; try discriminate. eapply set1_wf; eauto.
  - destruct v; try discriminate. eapply set1_wf; eauto.
  - eapply set_open_wf; eauto.
Qed.
Lemma reduce_obj_pwf p : pwf p -> pwf (reduce_obj p).
Proof.
  intros Hp. unfold reduce_obj.
  destruct p as [c|b|rows|rows|q isb|l isb|m isb]; cbn; auto.
  - destruct c as [|x [|y c]]; cbn; auto.
  - destruct b as [|x [|y b]]; cbn; auto.
  - destruct rows as [|r [|r2 rows]]; cbn; auto. inversion Hp; subst. destruct r as [|x [|y r]]; cbn; auto.
  - destruct rows as [|r [|r2 rows]]; cbn; auto. destruct r as [|x [|y r]]; cbn; auto.
Qed.
Lemma resolve_pwf s a p : store_wf s -> resolve s a = Ok p -> pwf p.
Proof.
  intros Hs H. destruct a; cbn in H; try (okinv; cbn; auto; fail).
  - unfold getobj in H. destruct (nth_error s i) eqn:E; cbn in H; try discriminate. okinv.
    pose proof (Forall_nth_error _ _ _ _ Hs E) as Ho. destruct o; cbn; auto.
  - okinv. unfold reduce1. destruct l as [|x [|y l]]; cbn; auto.
  - okinv. unfold reduce1. destruct (map b2q l) as [|x [|y l0]]; cbn; auto.
  - okinv. unfold reduce2, reduce1. destruct m as [|r [|r2 m]]; cbn; auto. destruct r as [|x [|y r]]; cbn; auto.
  - okinv. unfold reduce2, reduce1. destruct (map (map b2q) m) as [|r [|r2 m0]]; cbn; auto. destruct r as [|x [|y r]]; cbn; auto.
Qed.
Lemma getobj_wf s i o : store_wf s -> getobj s i = Ok o -> owf o.
Proof.
  intros Hs H. unfold getobj in H. destruct (nth_error s i) eqn:E; inversion H; subst.
  eapply Forall_nth_error; eauto.
Qed.

Lemma red_vecF_new r c keep n : red_vecF r c keep = RNew n -> owf n.
Proof.
  unfold red_vecF. destruct r, keep; cbn; intros H; try discriminate; inversion H; subst; cbn; auto;
    try (repeat constructor; apply wfc_nz).
  all: match type of H with context [match ?x with _ => _ end] => destruct x; try discriminate end;
    inversion H; subst; cbn; repeat constructor; apply wfc_nz.
Qed.
Lemma red_vecB_new r b keep n : red_vecB r b keep = RNew n -> owf n.
Proof.
  unfold red_vecB. destruct r, keep; cbn; intros H; try discriminate; inversion H; subst; cbn; auto;
    try (repeat constructor; apply wfc_nz).
  all: repeat match type of H with context [if ?x then _ else _] => destruct x; try discriminate end;
    inversion H; subst; cbn; repeat constructor; apply wfc_nz.
Qed.
Lemma wf_map_nz {A} (f : A -> Q) l : wf (map (fun x => nz (f x)) l).
Proof. apply wf_map_any. intros; apply wfc_nz. Qed.
Lemma Forall_wf_single {A} (f : A -> Q) l : Forall wf (map (fun x => [nz (f x)]) l).
Proof. induction l; cbn; constructor; auto. repeat constructor. apply wfc_nz. Qed.
Lemma red_arrF_new r rows axis keep n : Forall wf rows -> red_arrF false r rows axis keep = RNew n -> owf n.
Proof.
  intros Hr. unfold red_arrF.
  destruct axis as [[|[|k]]|]; destruct r, keep; cbn; intros H; try discriminate;
    repeat match type of H with
           | context [match ?x with _ => _ end] => destruct x eqn:?; try discriminate
           end;
    inversion H; subst; cbn; auto;
    try (repeat constructor; try apply wfc_nz; try apply (wf_map_nz (fun c => c)); fail).
  all: try (rewrite map_map; apply (Forall_wf_single (fun x => x))).
  all: try (constructor; [|constructor]).
  all: try (apply wf_map_any; intros; apply wfc_nz).
  all: try (rewrite <- (map_map (fun x => x) (fun x => [nz x])); apply (Forall_wf_single (fun x => x))).
  all: try (eapply truediv_scalar_wf; [|eassumption]; apply wf_map_any; intros; apply wfc_nz).
Qed.

(* ------------------------------------------------------------------ SparseArray.__setitem__ keeps the invariant *)
Lemma upd_rows_Forall {A} (P : A -> Prop) (f : A -> A * option err) sel : forall rows,
  (forall r, P r -> P (fst (f r))) -> Forall P rows -> Forall P (fst (upd_rows f rows sel)).
Proof.
  induction sel as [|i sel IH]; intros rows Hf Hr; cbn; auto.
  destruct (nth_error rows i) eqn:E; cbn; auto.
  pose proof (Hf a (Forall_nth_error _ _ _ _ Hr E)) as Ha.
  destruct (f a) as [r' [e|]]; cbn in *.
  - now apply Forall_upd.
  - apply IH; auto. now apply Forall_upd.
Qed.
Lemma upd_rows2_Forall {A B} (P : A -> Prop) (f : A -> B -> A * option err) sel : forall rows vals,
  (forall r v, P r -> P (fst (f r v))) -> Forall P rows -> Forall P (fst (upd_rows2 f rows sel vals)).
Proof.
  induction sel as [|i sel IH]; intros rows [|v vals] Hf Hr; cbn; auto.
  destruct (nth_error rows i) eqn:E; cbn; auto.
  pose proof (Hf a v (Forall_nth_error _ _ _ _ Hr E)) as Ha.
  destruct (f a v) as [r' [e|]]; cbn in *.
  - now apply Forall_upd.
  - apply IH; auto. now apply Forall_upd.
Qed.
Lemma keep_on_err_wf c x : wf c -> (forall r, x = Ok r -> wf r) -> wf (fst (keep_on_err c x)).
Proof. intros Hc Hx. destruct x; cbn; auto. Qed.
Lemma dset_wf c j q : wf c -> wf (fst (dset c j q)).
Proof. intros Hc. apply keep_on_err_wf; auto. intros r. now apply set1_wf. Qed.

Lemma arrF_set_wf rows ro ax p : Forall wf rows -> pwf p -> Forall wf (fst (arrF_set false rows ro ax p)).
Proof.
  intros Hr Hp. unfold arrF_set.
  set (rowset := fun (n : index) (c : cells) (v : operand) =>
                   if ro then (c, Some EValue)
                   else if is_open n && vd2 v then (c, Some EIndex)
                   else keep_on_err c (vecF_set c n v)).
  assert (RS : forall n c v, wf c -> pwf v -> wf (fst (rowset n c v))).
  { intros n c v Hc Hv. unfold rowset. destruct ro; cbn; auto. destruct (is_open n && vd2 v); cbn; auto.
    apply keep_on_err_wf; auto. intros r. now apply vecF_set_wf. }
  assert (R1 : forall isb v, pwf (reduce1 v isb)).
  { intros isb v. unfold reduce1. destruct v as [|x [|y v]]; exact I. }
  assert (U1 : forall n v sel, pwf v -> Forall wf (fst (upd_rows (fun c => rowset n c v) rows sel))).
  { intros n v sel Hv. apply upd_rows_Forall; auto. }
  assert (U2 : forall n isb sel m, Forall wf (fst (upd_rows2 (fun c v => rowset n c (reduce1 v isb)) rows sel m))).
  { intros. apply upd_rows2_Forall; auto. }
  assert (U3 : forall n isb sel (l : list Q), Forall wf (fst (upd_rows2 (fun c v => rowset n c (PS v isb)) rows sel l))).
  { intros. apply upd_rows2_Forall; auto. intros; apply RS; auto. exact I. }
  assert (BC : forall sel n, Forall wf (fst (match p with
      | PArr2 m isb => upd_rows2 (fun c v => rowset n c (reduce1 v isb)) rows sel m
      | PA m => upd_rows2 (fun c v => rowset n c (PV v)) rows sel m
      | PB _ => (rows, Some EOther)
      | _ => upd_rows (fun c => rowset n c p) rows sel end))).
  { intros sel n. destruct p; auto.
    (* PA: every value row that is used is one of the rows of the operand *)
    clear -Hr Hp RS. revert rows Hr rows0 Hp. induction sel as [|i sel IH]; intros rows Hr [|v m] Hp; cbn; auto.
    destruct (nth_error rows i) eqn:E; cbn; auto. inversion Hp; subst.
    pose proof (RS n c (PV v) (Forall_nth_error _ _ _ _ Hr E) H1) as Hc.
    destruct (rowset n c (PV v)) as [r' [e|]]; cbn in *.
    - now apply Forall_upd.
    - apply IH; auto. now apply Forall_upd. }
  destruct ax as [m|m n].
  - destruct (is_int m); [apply U1; auto|].
    destruct m; try apply BC.
    destruct p; cbn [fst]; auto; try (apply U1; auto; fail); try apply U3; try apply U2.
  - destruct (is_slice m).
    + destruct (is_slice n).
      * destruct (negb (is_open m) && is_open n); [apply U1; auto | apply BC].
      * destruct p; cbn [fst]; auto; try (destruct (is_int n)); try (apply U1; exact I); try apply U2; try apply U3.
    + destruct (is_int m); [apply U1; auto|].
      destruct (is_slice n).
      * destruct p; cbn [fst]; auto; try (apply U1; auto; fail); try apply U2; try apply U3.
      * destruct (is_int n).
        -- destruct p; cbn [fst]; auto.
           ++ apply upd_rows_Forall; auto. intros; now apply dset_wf.
           ++ apply upd_rows2_Forall; auto. intros; now apply dset_wf.
        -- destruct p; cbn [fst]; auto.
           ++ apply upd_rows2_Forall; auto. intros; now apply dset_wf.
           ++ apply upd_rows2_Forall; auto. intros; now apply dset_wf.
Qed.

(* ------------------------------------------------------------------ one operation, then every history *)
Lemma store_wf_app s o : store_wf s -> owf o -> store_wf (s ++ [o]).
Proof. intros. apply Forall_app; split; auto. Qed.
Lemma store_wf_set s i o : store_wf s -> owf o -> store_wf (set_obj s i o).
Proof. intros. now apply Forall_upd. Qed.
Lemma with_vec_wf x v x' : vwf v -> with_vec x v = Ok x' -> owf x'.
Proof. destruct x, v; cbn; intros Hv H; inversion H; subst; cbn; auto. Qed.
Lemma with_rows_wf x l x' : Forall vwf l -> with_rows x l = Ok x' -> owf x'.
Proof.
  intros Hl H. destruct x; cbn in H; try discriminate.
  - destruct (all_F l) eqn:E; inversion H; subst. cbn. eapply all_F_wf; eauto.
  - destruct (all_B l); inversion H; subst. exact I.
Qed.
Lemma vec_of_obj_wf x v : owf x -> vec_of_obj x = Some v -> vwf v.
Proof. destruct x; cbn; intros Hx H; inversion H; subst; cbn; auto. Qed.
Lemma wf_neg_bits (b : bits) : wf (map (fun x : bool => if x then Some (-(1)) else None) b).
Proof. apply wf_map_any. intros [|]; cbn; auto. lra. Qed.

Ltac bindinv H :=
  repeat match type of H with
         | (do _ <- ?m; _) = Ok _ => let E := fresh "E" in destruct m eqn:E; cbn [bind] in H; [|discriminate H]
         end.

Lemma copy_like_vec_wf c d r : wf d -> copy_like_vec c d = Ok r -> wf r.
Proof. intros Hd. unfold copy_like_vec. apply set_open_wf. exact Hd. Qed.
Lemma copy_like_rows_wf rows : forall others r, Forall wf rows -> Forall wf others ->
  copy_like_rows rows others = Ok r -> Forall wf r.
Proof.
  induction rows as [|x rows IH]; intros [|o others] r Hr Ho H; cbn [copy_like_rows] in H; try (inversion H; subst; auto; fail).
  inversion Hr; subst. inversion Ho; subst.
  destruct (copy_like_vec x o) eqn:E; cbn [bind] in H; try discriminate.
  destruct (copy_like_rows rows others) eqn:E2; cbn [bind] in H; try discriminate. inversion H; subst.
  constructor; [eapply copy_like_vec_wf; eauto | eapply IH; eauto].
Qed.
Lemma copy_like_view_wf sel : forall rows k r, Forall wf rows -> copy_like_view rows k sel = Ok r -> Forall wf r.
Proof.
  induction sel as [|j sel IH]; intros rows k r Hr H; cbn [copy_like_view] in H; [inversion H; subst; auto|].
  destruct (Nat.leb (length rows) k); [inversion H; subst; auto|].
  destruct (Nat.eqb j k); [eapply IH; eauto|].
  destruct (copy_like_vec (nth k rows []) (nth j rows [])) eqn:E; cbn [bind] in H; try discriminate.
  eapply IH; [|exact H]. apply Forall_upd; auto. eapply copy_like_vec_wf; [|exact E].
  apply Forall_nth; auto. constructor.
Qed.
Lemma Forall_wf_cells_of_bits rows : Forall wf (map cells_of_bits rows).
Proof. induction rows; cbn; constructor; auto. apply wf_cells_of_bits. Qed.
Lemma Forall_wf_of_dense m : Forall wf (map of_dense m).
Proof. induction m; cbn; constructor; auto. apply wf_of_dense. Qed.

Lemma step_res_wf s o s' r : store_wf s -> step_res false s o = Ok (s', r) -> store_wf s'.
Proof.
  intros Hs H. destruct o; cbn [step_res] in H.
  - (* OBin *)
    bindinv H. okinv. apply store_wf_app; auto.
    pose proof (getobj_wf _ _ _ Hs E) as Hx. pose proof (resolve_pwf _ _ _ Hs E0) as Hp.
    destruct (vec_of_obj a0) eqn:V.
    + eapply vector_bin_wf; [|exact Hp|exact E1]. eapply vec_of_obj_wf; eauto.
    + eapply array_bin_wf; [|exact Hp|exact E1]. now apply rows_of_wf.
  - (* OIBin *)
    bindinv H.
    pose proof (getobj_wf _ _ _ Hs E) as Hx. pose proof (resolve_pwf _ _ _ Hs E0) as Hp.
    destruct (vec_of_obj a0) eqn:V.
    + pose proof (vec_of_obj_wf _ _ Hx V) as Hv.
      destruct (is_ro a0); [discriminate|].
      assert (G : forall al p v' x', pwf p -> vec_ibin false o al v p = Ok v' -> with_vec a0 v' = Ok x' ->
                                     store_wf (set_obj s i x')).
      { intros al p v' x' Hp' Hi Hw. apply store_wf_set; auto. eapply with_vec_wf; [|exact Hw]. eapply vec_ibin_wf; eauto. }
      destruct v as [c|b]; [|destruct o as [[]| |]; try discriminate];
        (destruct a1 as [c1|b1|rows|rows|q isb|l isb|m isb];
         try (destruct rows as [|r0 [|r1 rows]]); try discriminate;
         bindinv H; okinv;
         match goal with
         | Hi : vec_ibin false _ ?al _ ?p = Ok ?v', Hw : with_vec a0 ?v' = Ok ?x' |- _ =>
             apply (G al p v' x'); [|exact Hi|exact Hw]
         end; cbn; auto; try (inversion Hp; subst; assumption)).
    + bindinv H. okinv. apply store_wf_set; auto. eapply with_rows_wf; [|eassumption].
      eapply array_ibin_wf; [|exact Hp|eassumption]. now apply rows_of_wf.
  - (* ORBin *)
    bindinv H. okinv. apply store_wf_app; auto.
    pose proof (getobj_wf _ _ _ Hs E) as Hx.
    assert (Hl : Forall vwf a0).
    { eapply mapM_Forall; [|apply (rows_of_wf _ Hx)|exact E0]. intros v y Hv Hy.
      destruct o, v as [c|b]; cbv beta iota in Hy;
        try (eapply vec_bin_wf; [exact Hv| |exact Hy]; exact I).
      - apply okF_inv in Hy as (c' & Hc & ->). cbn. eapply rsub_scalar_wf; eauto.
      - apply okF_inv in Hy as (c' & Hc & ->). cbn. eapply add_scalar_wf; [|exact Hc]. apply wf_neg_bits.
      - apply okF_inv in Hy as (c' & Hc & ->). cbn. eapply rtruediv_scalar_wf; eauto.
      - apply okF_inv in Hy as (c' & Hc & ->). cbn.
        destruct (mapM _ b); cbn in Hc; inversion Hc; subst. apply (wf_map_nz (fun x => x)). }
    destruct (vec_of_obj a).
    + destruct a0 as [|w [|w2 a0]]; try discriminate. okinv. apply obj_of_vec_wf. now inversion Hl.
    + eapply obj_of_rows_wf; eauto.
  - (* ONeg *)
    bindinv H. okinv. apply store_wf_app; auto. pose proof (getobj_wf _ _ _ Hs E) as Hx.
    destruct a; cbn in *.
    + now apply neg_cells_wf.
    + apply wf_neg_bits.
    + clear -Hx. induction Hx; cbn; constructor; auto. now apply neg_cells_wf.
    + clear. induction rows; cbn; constructor; auto. apply wf_neg_bits.
  - (* OAbs *)
    bindinv H. okinv. apply store_wf_app; auto. pose proof (getobj_wf _ _ _ Hs E) as Hx.
    destruct a; cbn in *; auto.
    + now apply abs_cells_wf.
    + clear -Hx. induction Hx; cbn; constructor; auto. now apply abs_cells_wf.
  - (* OInvert *)
    bindinv H. destruct a; try discriminate; okinv; apply store_wf_app; auto; exact I.
  - (* OCopy *)
    bindinv H. okinv. apply store_wf_app; auto. pose proof (getobj_wf _ _ _ Hs E) as Hx. destruct a; cbn in *; auto.
  - (* OClear *)
    bindinv H. destruct a; try discriminate.
    + destruct ro; try discriminate. okinv. apply store_wf_set; auto. cbn. apply wf_empty.
    + okinv. apply store_wf_set; auto. cbn. clear. induction rows; cbn; constructor; auto. apply wf_empty.
    + okinv. apply store_wf_set; auto. exact I.
  - (* OSetRO *)
    bindinv H. pose proof (getobj_wf _ _ _ Hs E) as Hx. destruct a; try discriminate; okinv; apply store_wf_set; auto.
  - (* OToArray *)
    bindinv H. okinv. auto.
  - (* OGet *)
    bindinv H. destruct (vec_of_obj a); try discriminate. okinv. auto.
  - (* OSet *)
    bindinv H.
    pose proof (getobj_wf _ _ _ Hs E) as Hx. pose proof (resolve_pwf _ _ _ Hs E0) as Hp0.
    pose proof (reduce_obj_pwf _ Hp0) as Hp.
    destruct a; try discriminate.
    + destruct ro; try discriminate.
      destruct (alias_of v i && (is_open ix || negb (len1 c))).
      * destruct (is_open ix); [okinv; auto|]. destruct (is_int ix); try discriminate.
        bindinv H. okinv. apply store_wf_set; auto. cbn. eapply set_zip_lazy_wf; eauto.
      * destruct (is_open ix && vd2 (reduce_obj a0)); try discriminate.
        bindinv H. okinv. apply store_wf_set; auto. cbn. eapply vecF_set_wf; eauto.
    + destruct (alias_of v i && (is_open ix || negb (len1 b))).
      * destruct (is_open ix); [okinv; auto|]. destruct (is_int ix); try discriminate.
        bindinv H. okinv. apply store_wf_set; auto; exact I.
      * destruct (is_open ix && vd2 (reduce_obj a0)); try discriminate.
        bindinv H. okinv. apply store_wf_set; auto; exact I.
  - (* ORed *)
    bindinv H. pose proof (getobj_wf _ _ _ Hs E) as Hx.
    match type of H with context [match ?out with RErr _ => _ | _ => _ end] => destruct out eqn:O end;
      try discriminate; okinv; auto.
    apply store_wf_app; auto.
    destruct a; cbn in Hx.
    + destruct axis as [[|k]|]; try discriminate; eapply red_vecF_new; eauto.
    + destruct axis as [[|k]|]; try discriminate; eapply red_vecB_new; eauto.
    + eapply red_arrF_new; eauto.
    + unfold red_arrB in O. destruct r0, axis as [[|[|k]]|], keep; cbn in O; inversion O; subst; exact I.
  - (* OCopyLike *)
    bindinv H. pose proof (getobj_wf _ _ _ Hs E) as Hx.
    destruct a as [c ro|b|rows ro|rows]; destruct src as [j|sel]; try discriminate.
    + destruct (Nat.eqb j i); [okinv; auto|]. bindinv H. pose proof (getobj_wf _ _ _ Hs E0) as Hy.
      destruct a; try discriminate; bindinv H; okinv; apply store_wf_set; auto; cbn;
        (eapply copy_like_vec_wf; [|eassumption]); first [exact Hy | apply wf_cells_of_bits].
    + destruct (Nat.eqb j i); [okinv; auto|]. bindinv H. pose proof (getobj_wf _ _ _ Hs E0) as Hy.
      destruct a; try discriminate; bindinv H; okinv; apply store_wf_set; auto; cbn;
        (eapply copy_like_rows_wf; [exact Hx| |eassumption]); first [exact Hy | apply Forall_wf_cells_of_bits].
    + bindinv H. okinv. apply store_wf_set; auto. cbn. eapply copy_like_view_wf; eauto.
  - (* OToFlat *)
    bindinv H. destruct a; repeat match type of H with context [if ?x then _ else _] => destruct x end;
      try discriminate; okinv; auto.
  - (* OFromFlat *)
    bindinv H. pose proof (getobj_wf _ _ _ Hs E) as Hx. destruct a as [c ro|b|rows ro|rows]; try discriminate.
    + destruct ro; try discriminate. bindinv H. okinv. apply store_wf_set; auto. cbn.
      eapply vecF_set_wf; eauto. unfold reduce1. destruct l as [|? [|? ?]]; exact I.
    + destruct (Nat.eqb (length l) (length rows * vsize rows)); try discriminate. okinv.
      apply store_wf_set; auto. cbn. apply Forall_wf_of_dense.
  - (* OConv *)
    bindinv H. pose proof (getobj_wf _ _ _ Hs E) as Hx.
    destruct c; [okinv; auto| | |].
    + okinv. apply store_wf_app; auto. destruct a; cbn in *; auto.
    + destruct a; try discriminate; okinv; apply store_wf_app; auto; cbn; auto. apply wf_cells_of_bits.
    + destruct a; try discriminate; okinv; apply store_wf_app; auto; exact I.
Qed.

Lemma xstep_res_wf s o s' r : store_wf s -> xstep_res false s o = Ok (s', r) -> store_wf s'.
Proof.
  intros Hs H. destruct o; cbn [xstep_res] in H.
  - eapply step_res_wf; eauto.
  - bindinv H. destruct a; try discriminate.
    destruct (arrF_get rows ax); try discriminate; try (okinv; auto; fail).
    bindinv H. okinv. auto.
  - bindinv H. pose proof (getobj_wf _ _ _ Hs E) as Hx. pose proof (resolve_pwf _ _ _ Hs E0) as Hp0.
    destruct a; try discriminate.
    pose proof (arrF_set_wf rows ro ax (reduce_obj a0) Hx (reduce_obj_pwf _ Hp0)) as Hw.
    destruct (arrF_set false rows ro ax (reduce_obj a0)) as [rows' e]. okinv.
    apply store_wf_set; auto.
Qed.
Lemma xstep_wf s o : store_wf s -> store_wf (fst (xstep false s o)).
Proof.
  intros Hs. unfold xstep. destruct (xstep_res false s o) as [[s' r]|e] eqn:E; cbn; auto.
  eapply xstep_res_wf; eauto.
Qed.
Lemma run_wf ops : forall s, store_wf s -> store_wf (fst (run false s ops)).
Proof.
  induction ops as [|o ops IH]; intros s Hs; cbn; auto.
  pose proof (xstep_wf s o Hs) as H1. destruct (xstep false s o) as [s' r]. cbn in H1.
  destruct (crashed r); cbn; auto.
  specialize (IH s' H1). destruct (run false s' ops). cbn in *. exact IH.
Qed.
Lemma mk_wf : forall l ro, owf (mkV l ro).
Proof. intros. cbn. apply wf_of_dense. Qed.
Lemma mkA_wf : forall m, owf (mkA m).
Proof. intros. cbn. induction m; cbn; constructor; auto. apply wf_of_dense. Qed.

(* ================================================================== Part 3: refinement of the dense NumPy semantics *)
Definition Rc (c : cell) (q : Q) : Prop := wfc c /\ dcell c == q.
Definition Rv (c : cells) (v : list Q) : Prop := Forall2 Rc c v.
Definition rrel {A B} (R : A -> B -> Prop) (x : res A) (y : res B) : Prop :=
  match x, y with Ok a, Ok b => R a b | Err e, Err e' => e = e' | _, _ => False end.
(* the sparse result refines the dense one: same exception class, or a well-formed vector with the same dense image *)
Definition refines (r : res cells) (d : res (list Q)) : Prop := rrel Rv r d.

Lemma Rv_dense a : wf a -> Rv a (dense a).
Proof. intros H. unfold Rv, dense. induction H; cbn; constructor; auto. split; auto. reflexivity. Qed.
Lemma Rv_spec c v : Rv c v <-> wf c /\ Forall2 Qeq (dense c) v.
Proof.
  unfold Rv, wf, dense. split.
  - intros H. induction H as [|x y c v [Hx Hy] H [IH1 IH2]]; cbn; split; constructor; auto.
  - intros [H1 H2]. revert v H2. induction H1 as [|x c Hx Hc IH]; intros v H2; cbn in H2; inversion H2; subst; constructor; auto.
    split; auto.
Qed.
Lemma Rv_length c v : Rv c v -> length c = length v.
Proof. intros H. induction H; cbn; auto. Qed.
Lemma Rv_hd c v : Rv c v -> Rc (hd None c) (hd 0 v).
Proof. intros H. destruct H; cbn; auto. split; cbn; auto. reflexivity. Qed.

Lemma map2M_rrel {A A' B B' C C'} (RA : A -> A' -> Prop) (RB : B -> B' -> Prop) (R : C -> C' -> Prop)
      (f : A -> B -> res C) (g : A' -> B' -> res C') :
  (forall x x' y y', RA x x' -> RB y y' -> rrel R (f x y) (g x' y')) ->
  forall a a' b b', Forall2 RA a a' -> Forall2 RB b b' -> rrel (Forall2 R) (map2M f a b) (map2M g a' b').
Proof.
  intros Hf a a' b b' Ha. revert b b'. induction Ha as [|x x' a a' Hx Ha IH]; intros b b' Hb; cbn.
  - destruct Hb; cbn; constructor.
  - destruct Hb as [|y y' b b' Hy Hb]; cbn; [constructor|].
    specialize (Hf x x' y y' Hx Hy). destruct (f x y), (g x' y'); cbn in Hf; try contradiction; auto.
    specialize (IH b b' Hb). destruct (map2M f a b), (map2M g a' b'); cbn in *; try contradiction; auto.
Qed.
Lemma mapM_rrel {A A' C C'} (RA : A -> A' -> Prop) (R : C -> C' -> Prop) (f : A -> res C) (g : A' -> res C') :
  (forall x x', RA x x' -> rrel R (f x) (g x')) ->
  forall a a', Forall2 RA a a' -> rrel (Forall2 R) (mapM f a) (mapM g a').
Proof.
  intros Hf a a' Ha. induction Ha as [|x x' a a' Hx Ha IH]; cbn; [constructor|].
  specialize (Hf x x' Hx). destruct (f x), (g x'); cbn in Hf; try contradiction; auto.
  destruct (mapM f a), (mapM g a'); cbn in *; try contradiction; auto.
Qed.
Lemma map2M_pure {A B C} (f : A -> B -> C) a b : map2M (fun x y => Ok (f x y)) a b = Ok (map2 f a b).
Proof. revert b. induction a as [|x a IH]; intros [|y b]; cbn; auto. now rewrite IH. Qed.
Lemma mapM_pure {A C} (f : A -> C) a : mapM (fun x => Ok (f x)) a = Ok (map f a).
Proof. induction a as [|x a IH]; cbn; auto. now rewrite IH. Qed.
Lemma empty_cells_map (b : cells) : empty_cells (length b) = map (fun _ => None) b.
Proof. unfold empty_cells. induction b; cbn; congruence. Qed.
Lemma empty_cells_mapQ (b : list Q) : empty_cells (length b) = map (fun _ => None) b.
Proof. unfold empty_cells. induction b; cbn; congruence. Qed.
Lemma map_id_cells (b : cells) : b = map (fun x => x) b.
Proof. now rewrite map_id. Qed.

(* the three operators that cannot raise: per-cell functions of every branch refine + - * *)
Definition qop (o : aop) (x y : Q) : Q := match o with Add => x + y | Sub => x - y | Mul => x * y | Div => x / y end.
Lemma aop_q_pure o x y : o <> Div -> aop_q o x y = Ok (qop o x y).
Proof. destruct o; cbn; congruence. Qed.

Ltac cellrel :=
  intros; unfold Rc in *;
  repeat match goal with
         | c : cell |- _ => destruct c
         | H : _ /\ _ |- _ => destruct H
         end;
  cbn in *; unfold nz;
  repeat match goal with
         | |- context [qzerob ?q] => let E := fresh "E" in destruct (qzerob q) eqn:E; cbn
         end;
  repeat match goal with
         | E : qzerob _ = true |- _ => apply qzerob_true in E
         | E : qzerob _ = false |- _ => apply qzerob_false in E
         end;
  (split; [try exact I; try (intro; nra); try (apply qmul_nz; auto; intro; nra) | try nra; try lra]).

Definition same_cell (o : aop) : cell -> cell -> cell :=
  match o with Add => add_same_c | Sub => sub_same_c | Mul => mul_same_c | Div => fun x _ => x end.
Lemma same_cell_rel o x x' y y' : o <> Div -> Rc x x' -> Rc y y' -> Rc (same_cell o x y) (qop o x' y').
Proof.
  intros Ho. destruct o; try congruence; cbn [same_cell qop]; unfold add_same_c, sub_same_c, mul_same_c.
  - cellrel.
  - cellrel.
  - cellrel.
Qed.

Lemma map2M_ext {A B C} (f g : A -> B -> res C) a b : (forall x y, f x y = g x y) -> map2M f a b = map2M g a b.
Proof. intros H. revert b. induction a as [|x a IH]; intros [|y b]; cbn; auto. now rewrite H, IH. Qed.
Lemma mapM_ext {A C} (f g : A -> res C) a : (forall x, f x = g x) -> mapM f a = mapM g a.
Proof. intros H. induction a as [|x a IH]; cbn; auto. now rewrite H, IH. Qed.
Lemma map2_Rv {B B'} (RB : B -> B' -> Prop) (f : cell -> B -> cell) (g : Q -> B' -> Q) a a' b b' :
  (forall x x' y y', Rc x x' -> RB y y' -> Rc (f x y) (g x' y')) ->
  Rv a a' -> Forall2 RB b b' -> Rv (map2 f a b) (map2 g a' b').
Proof.
  intros Hf Ha. revert b b'. induction Ha as [|x x' a a' Hx Ha IH]; intros b b' Hb; cbn.
  - destruct Hb; constructor.
  - destruct Hb; cbn; constructor; auto. now apply IH.
Qed.
Lemma map_Rv {A A'} (RA : A -> A' -> Prop) (f : A -> cell) (g : A' -> Q) a a' :
  (forall x x', RA x x' -> Rc (f x) (g x')) -> Forall2 RA a a' -> Rv (map f a) (map g a').
Proof. intros Hf Ha. induction Ha; cbn; constructor; auto. Qed.
Lemma Forall2_Qeq_refl l : Forall2 Qeq l l.
Proof. induction l; constructor; auto. reflexivity. Qed.

Definition self1_cell (o : aop) (v y : cell) : cell :=
  match o, v with
  | Add, Some value => match y with Some w => nz (value + w) | None => Some value end
  | Add, None => y
  | Sub, Some value => match y with Some w => nz (value - w) | None => Some value end
  | Sub, None => option_map Qopp y
  | Mul, Some value => option_map (fun j => value * j) y
  | _, _ => None
  end.
Definition other1_cell (o : aop) (ov x : cell) : cell :=
  match o, ov with
  | Add, Some other => match x with Some v => nz (v + other) | None => Some other end
  | Add, None => x
  | Sub, Some other0 => match x with Some v => nz (v + - other0) | None => Some (- other0) end
  | Sub, None => x
  | Mul, Some other => option_map (fun j => j * other) x
  | _, _ => None
  end.
Definition arr_cell (o : aop) : cell -> Q -> cell :=
  match o with Add => add_arr_c | Sub => sub_arr_c | Mul => mul_arr_c | Div => fun x _ => x end.
Definition arr_self1_cell (o : aop) (v : cell) (j : Q) : cell :=
  match o, v with
  | Add, Some value => nz (value + j)
  | Add, None => nz j
  | Sub, Some value => nz (value - j)
  | Sub, None => if qzerob j then None else Some (- j)
  | Mul, Some value => if qzerob j then None else Some (value * j)
  | _, _ => None
  end.
Lemma self1_cell_rel o v v' y y' : o <> Div -> Rc v v' -> Rc y y' -> Rc (self1_cell o v y) (qop o v' y').
Proof. intros Ho. destruct o; try congruence; cbn [self1_cell qop]; cellrel. Qed.
Lemma other1_cell_rel o ov ov' x x' : o <> Div -> Rc ov ov' -> Rc x x' -> Rc (other1_cell o ov x) (qop o x' ov').
Proof. intros Ho. destruct o; try congruence; cbn [other1_cell qop]; cellrel. Qed.
Lemma arr_cell_rel o x x' j j' : o <> Div -> Rc x x' -> j == j' -> Rc (arr_cell o x j) (qop o x' j').
Proof. intros Ho. destruct o; try congruence; cbn [arr_cell qop]; unfold add_arr_c, sub_arr_c, mul_arr_c; cellrel. Qed.
Lemma arr_self1_cell_rel o v v' j j' : o <> Div -> Rc v v' -> j == j' -> Rc (arr_self1_cell o v j) (qop o v' j').
Proof. intros Ho. destruct o; try congruence; cbn [arr_self1_cell qop]; cellrel. Qed.

(* kernels are maps of the per-cell functions *)
Lemma k_sparse_same o a b : o <> Div -> Nat.eqb (length a) (length b) = true ->
  k_sparse false o a b = Ok (map2 (same_cell o) a b).
Proof. intros Ho E. destruct o; try congruence; cbn; unfold add_sparse, sub_sparse, mul_sparse, dispatch_sparse; now rewrite E. Qed.
Lemma k_sparse_self1 o a b : o <> Div -> Nat.eqb (length a) (length b) = false -> len1 a && negb (len0 b) = true ->
  k_sparse false o a b = Ok (map (self1_cell o (hd None a)) b).
Proof.
  intros Ho E E1. destruct o; try congruence; cbn; unfold add_sparse, sub_sparse, mul_sparse, dispatch_sparse;
    rewrite E, E1; f_equal; destruct (hd None a); cbn; auto.
  - now rewrite map_id.
  - apply empty_cells_map.
Qed.
Lemma k_sparse_other1 o a b : o <> Div -> Nat.eqb (length a) (length b) = false -> len1 a && negb (len0 b) = false ->
  len1 b = true -> k_sparse false o a b = Ok (map (other1_cell o (hd None b)) a).
Proof.
  intros Ho E E1 E2. destruct b as [|y [|y2 b]]; try discriminate.
  destruct o; try congruence; cbn; unfold add_sparse, sub_sparse, mul_sparse, dispatch_sparse;
    rewrite E, E1; cbn; f_equal; destruct y; cbn; auto.
  - now rewrite map_id.
  - now rewrite map_id.
  - apply empty_cells_map.
Qed.
Lemma k_sparse_mismatch o a b : Nat.eqb (length a) (length b) = false -> len1 a && negb (len0 b) = false ->
  len1 b = false -> k_sparse false o a b = Err EValue.
Proof.
  intros E E1 E2. destruct o; cbn; unfold add_sparse, sub_sparse, mul_sparse, truediv_sparse, dispatch_sparse; now rewrite E, E1, E2.
Qed.

Theorem arith_sparse_refines o a a' b b' : o <> Div -> Rv a a' -> Rv b b' -> (length a = 1%nat -> b <> []) ->
  refines (k_sparse false o a b) (np_arith o a' b').
Proof.
  intros Ho Ha Hb Hne. unfold refines, np_arith, np_bcast.
  rewrite <- (Rv_length _ _ Ha), <- (Rv_length _ _ Hb).
  destruct (Nat.eqb (length a) (length b)) eqn:E.
  - rewrite k_sparse_same by auto.
    rewrite (map2M_ext _ (fun x y => Ok (qop o x y))) by (intros; now apply aop_q_pure).
    rewrite map2M_pure. cbn. apply (map2_Rv Rc); auto. intros; now apply same_cell_rel.
  - unfold len1, len0 in *. destruct (Nat.eqb (length a) 1) eqn:E1.
    + assert (L0 : Nat.eqb (length b) 0 = false).
      { apply Nat.eqb_eq in E1. specialize (Hne E1). destruct b; [congruence|reflexivity]. }
      rewrite k_sparse_self1 by (auto; unfold len1, len0; now rewrite E1, L0).
      rewrite (mapM_ext _ (fun y => Ok (qop o (hd 0 a') y))) by (intros; now apply aop_q_pure).
      rewrite mapM_pure. cbn. apply (map_Rv Rc); auto. intros. apply self1_cell_rel; auto. now apply Rv_hd.
    + destruct (Nat.eqb (length b) 1) eqn:E2.
      * rewrite k_sparse_other1 by (auto; unfold len1, len0; now rewrite ?E1, ?E2).
        rewrite (mapM_ext _ (fun x => Ok (qop o x (hd 0 b')))) by (intros; now apply aop_q_pure).
        rewrite mapM_pure. cbn. apply (map_Rv Rc); auto. intros. apply other1_cell_rel; auto. now apply Rv_hd.
      * rewrite k_sparse_mismatch by (auto; unfold len1, len0; now rewrite ?E1, ?E2). reflexivity.
Qed.

(* scalar operand = NumPy with a length-1 array *)
Lemma k_scalar_eq o a k : o <> Div -> k_scalar o a k = Ok (map (other1_cell o (nz k)) a).
Proof.
  intros Ho. destruct o; try congruence; cbn; unfold add_scalar, sub_scalar, mul_scalar, nz;
    destruct (qzerob k); cbn; f_equal; try (now rewrite map_id). apply empty_cells_map.
Qed.
Theorem arith_scalar_refines o a a' k k' : o <> Div -> Rv a a' -> k == k' ->
  refines (k_scalar o a k) (np_arith o a' [k']).
Proof.
  intros Ho Ha Hk. unfold refines, np_arith, np_bcast. rewrite k_scalar_eq by auto. cbn [length hd].
  assert (R : Rc (nz k) k') by (split; [apply wfc_nz | now rewrite dcell_nz]).
  assert (G : rrel Rv (Ok (map (other1_cell o (nz k)) a)) (mapM (fun x => aop_q o x k') a')).
  { rewrite (mapM_ext _ (fun x => Ok (qop o x k'))) by (intros; now apply aop_q_pure).
    rewrite mapM_pure. cbn. apply (map_Rv Rc); auto. intros. now apply other1_cell_rel. }
  destruct (Nat.eqb (length a') 1) eqn:E1; [|exact G].
  destruct a' as [|x' [|y' a']]; try discriminate. inversion Ha as [|x x0 a0 a1 Hx Ha0]; subst. inversion Ha0; subst.
  cbn [map2M map]. rewrite aop_q_pure by auto. cbn. constructor; [|constructor]. now apply other1_cell_rel.
Qed.

(* 1-d array operand *)
Lemma k_array_same o a b : o <> Div -> Nat.eqb (length a) (length b) = true ->
  k_array o a b = Ok (map2 (arr_cell o) a b).
Proof. intros Ho E. destruct o; try congruence; cbn; unfold add_array, sub_array, mul_array, dispatch_array; now rewrite E. Qed.
Lemma k_array_self1 o a b : o <> Div -> Nat.eqb (length a) (length b) = false -> len1 a && negb (len0 b) = true ->
  k_array o a b = Ok (map (arr_self1_cell o (hd None a)) b).
Proof.
  intros Ho E E1. destruct o; try congruence; cbn; unfold add_array, sub_array, mul_array, dispatch_array;
    rewrite E, E1; f_equal; destruct (hd None a); cbn; auto. apply empty_cells_mapQ.
Qed.
Lemma k_array_mismatch o a b : Nat.eqb (length a) (length b) = false -> len1 a && negb (len0 b) = false ->
  k_array o a b = Err EValue.
Proof.
  intros E E1. destruct o; cbn; unfold add_array, sub_array, mul_array, truediv_array, dispatch_array; now rewrite E, E1.
Qed.
(* the dispatch templates turn a length-1 list into a scalar, so the array kernels only see other lengths *)
Theorem arith_array_refines o a a' b b' : o <> Div -> Rv a a' -> Forall2 Qeq b b' -> b <> [] -> length b <> 1%nat ->
  refines (k_array o a b) (np_arith o a' b').
Proof.
  intros Ho Ha Hb Hne Hn1. unfold refines, np_arith, np_bcast.
  assert (Lb : length b = length b') by (clear -Hb; induction Hb; cbn; auto).
  rewrite <- (Rv_length _ _ Ha), <- Lb.
  destruct (Nat.eqb (length a) (length b)) eqn:E.
  - rewrite k_array_same by auto.
    rewrite (map2M_ext _ (fun x y => Ok (qop o x y))) by (intros; now apply aop_q_pure).
    rewrite map2M_pure. cbn. apply (map2_Rv Qeq); auto. intros; now apply arr_cell_rel.
  - assert (L0 : len0 b = false) by (destruct b; [congruence|reflexivity]).
    unfold len1, len0 in *. destruct (Nat.eqb (length a) 1) eqn:E1.
    + rewrite k_array_self1 by (auto; unfold len1, len0; now rewrite E1, L0).
      rewrite (mapM_ext _ (fun y => Ok (qop o (hd 0 a') y))) by (intros; now apply aop_q_pure).
      rewrite mapM_pure. cbn. apply (map_Rv Qeq); auto. intros. apply arr_self1_cell_rel; auto. now apply Rv_hd.
    + rewrite k_array_mismatch by (auto; unfold len1, len0; now rewrite ?E1).
      apply Nat.eqb_neq in Hn1. rewrite Hn1. reflexivity.
Qed.

(* ------------------------------------------------------------------ division: whenever NumPy returns, the sparse kernel returns the same *)
Lemma Rc_present y y' : Rc y y' -> ~ y' == 0 -> exists w, y = Some w /\ w == y' /\ ~ w == 0.
Proof. intros [Hw Hd] Hy. destruct y as [w|]; cbn in *; [eauto | exfalso; apply Hy; now rewrite <- Hd]. Qed.
Lemma qdiv_compat v v' w w' q' : v == v' -> w == w' -> qdiv v' w' = Ok q' -> exists q, qdiv v w = Ok q /\ q == q' /\ ~ w == 0.
Proof.
  intros Hv Hw H. apply qdiv_ok in H as [Hz ->]. unfold qdiv.
  assert (Hz' : ~ w == 0) by (now rewrite Hw).
  apply qzerob_false in Hz'. rewrite Hz'. eexists; split; [reflexivity|]. split; [now rewrite Hv, Hw | now apply qzerob_false].
Qed.
Definition okrel {A B} (R : A -> B -> Prop) (x : res A) (y : res B) : Prop :=
  forall v, y = Ok v -> exists r, x = Ok r /\ R r v.
Lemma map2M_okrel {A A' B B' C C'} (RA : A -> A' -> Prop) (RB : B -> B' -> Prop) (R : C -> C' -> Prop)
      (f : A -> B -> res C) (g : A' -> B' -> res C') :
  (forall x x' y y', RA x x' -> RB y y' -> okrel R (f x y) (g x' y')) ->
  forall a a' b b', Forall2 RA a a' -> Forall2 RB b b' -> okrel (Forall2 R) (map2M f a b) (map2M g a' b').
Proof.
  intros Hf a a' b b' Ha. revert b b'. induction Ha as [|x x' a a' Hx Ha IH]; intros b b' Hb v Hv; cbn in *.
  - destruct Hb; cbn in *; inversion Hv; subst; eexists; split; eauto.
  - destruct Hb as [|y y' b b' Hy Hb]; cbn in *; [inversion Hv; subst; eexists; split; eauto|].
    destruct (g x' y') as [z'|] eqn:G; try discriminate.
    destruct (map2M g a' b') as [t'|] eqn:G2; try discriminate. inversion Hv; subst.
    destruct (Hf x x' y y' Hx Hy z' G) as (z & -> & Hz).
    destruct (IH b b' Hb t' G2) as (t & -> & Ht). eexists; split; eauto.
Qed.
Lemma mapM_okrel {A A' C C'} (RA : A -> A' -> Prop) (R : C -> C' -> Prop) (f : A -> res C) (g : A' -> res C') :
  (forall x x', RA x x' -> okrel R (f x) (g x')) ->
  forall a a', Forall2 RA a a' -> okrel (Forall2 R) (mapM f a) (mapM g a').
Proof.
  intros Hf a a' Ha. induction Ha as [|x x' a a' Hx Ha IH]; intros v Hv; cbn in *.
  - inversion Hv; subst; eexists; split; eauto.
  - destruct (g x') as [z'|] eqn:G; try discriminate.
    destruct (mapM g a') as [t'|] eqn:G2; try discriminate. inversion Hv; subst.
    destruct (Hf x x' Hx z' G) as (z & -> & Hz). destruct (IH t' eq_refl) as (t & -> & Ht). eexists; split; eauto.
Qed.
Lemma qdiv_eval v w : ~ w == 0 -> qdiv v w = Ok (v / w).
Proof. intros H. unfold qdiv. apply qzerob_false in H. now rewrite H. Qed.
Lemma truediv_same_c_ok x x' y y' : Rc x x' -> Rc y y' -> okrel Rc (truediv_same_c x y) (qdiv x' y').
Proof.
  intros Hx Hy q' H. pose proof (qdiv_ok _ _ _ H) as [Hz ->].
  destruct (Rc_present _ _ Hy Hz) as (w & -> & Hw & Hwz).
  destruct Hx as [Hxw Hxd]. destruct x as [v|]; cbn in *.
  - rewrite (qdiv_eval v w Hwz). cbn. eexists; split; [reflexivity|]. split; cbn.
    + now apply qdiv_nz.
    + now rewrite Hxd, Hw.
  - eexists; split; [reflexivity|]. split; cbn; auto. rewrite <- Hxd. unfold Qdiv. ring.
Qed.
Lemma div_c_ok x x' y y' : Rc x x' -> y == y' -> okrel Rc (div_c x y) (qdiv x' y').
Proof.
  intros [Hxw Hxd] Hy q' H. pose proof (qdiv_ok _ _ _ H) as [Hz ->].
  assert (Hyz : ~ y == 0) by (now rewrite Hy).
  destruct x as [v|]; cbn in *.
  - rewrite (qdiv_eval v y Hyz). cbn. eexists; split; [reflexivity|]. split; cbn.
    + now apply qdiv_nz.
    + now rewrite Hxd, Hy.
  - eexists; split; [reflexivity|]. split; cbn; auto. rewrite <- Hxd. unfold Qdiv. ring.
Qed.
(* same-size sparse / sparse, sparse / scalar, sparse / array (same size) *)
Theorem truediv_sparse_same_ok a a' b b' : Rv a a' -> Rv b b' -> length a = length b ->
  okrel Rv (truediv_sparse a b) (np_arith Div a' b').
Proof.
  intros Ha Hb L. unfold truediv_sparse, dispatch_sparse, np_arith, np_bcast.
  rewrite <- (Rv_length _ _ Ha), <- (Rv_length _ _ Hb), L, Nat.eqb_refl.
  apply (map2M_okrel Rc Rc); auto. intros; now apply truediv_same_c_ok.
Qed.
Theorem truediv_scalar_ok a a' k k' : Rv a a' -> k == k' -> length a <> 1%nat ->
  okrel Rv (truediv_scalar a k) (np_arith Div a' [k']).
Proof.
  intros Ha Hk L. unfold truediv_scalar, np_arith, np_bcast. rewrite <- (Rv_length _ _ Ha). cbn [length hd].
  apply Nat.eqb_neq in L. rewrite L. rewrite Nat.eqb_refl.
  apply (mapM_okrel Rc); auto. intros; now apply div_c_ok.
Qed.
Theorem truediv_array_same_ok a a' b b' : Rv a a' -> Forall2 Qeq b b' -> length a = length b ->
  okrel Rv (truediv_array a b) (np_arith Div a' b').
Proof.
  intros Ha Hb L. unfold truediv_array, dispatch_array, np_arith, np_bcast.
  assert (Lb : length b = length b') by (clear -Hb; induction Hb; cbn; auto).
  rewrite <- (Rv_length _ _ Ha), <- Lb, L, Nat.eqb_refl.
  apply (map2M_okrel Rc Qeq); auto. intros; now apply div_c_ok.
Qed.

(* ------------------------------------------------------------------ in-place kernels *)
Lemma inplace_eq_binary o a b : ik_sparse false o false a b = k_sparse false o a b.
Proof. destruct o; reflexivity. Qed.
Lemma inplace_self_eq_binary o a : o <> Div -> ik_sparse false o true a a = k_sparse false o a a.
Proof. destruct o; try congruence; reflexivity. Qed.
(* NumPy's in-place form is the binary form whenever the result has the shape of the target *)
Lemma np_iarith_binary o a b : length a = length b \/ (length b = 1%nat) -> np_iarith o a b = np_arith o a b.
Proof.
  intros H. unfold np_iarith, np_ibcast, np_arith, np_bcast.
  destruct (Nat.eqb (length a) (length b)) eqn:E; auto.
  destruct H as [H|H]; [apply Nat.eqb_neq in E; congruence|].
  rewrite H. cbn. destruct (Nat.eqb (length a) 1) eqn:E1; auto.
  apply Nat.eqb_eq in E1. apply Nat.eqb_neq in E. congruence.
Qed.
Theorem iarith_sparse_refines o a a' b b' : o <> Div -> Rv a a' -> Rv b b' ->
  length a = length b \/ length b = 1%nat ->
  refines (ik_sparse false o false a b) (np_iarith o a' b').
Proof.
  intros Ho Ha Hb L. rewrite inplace_eq_binary, np_iarith_binary.
  - apply arith_sparse_refines; auto. intros L1 ->. cbn in L. destruct L as [L|L]; congruence.
  - now rewrite <- (Rv_length _ _ Ha), <- (Rv_length _ _ Hb).
Qed.

(* ------------------------------------------------------------------ unary operations and copies *)
Lemma neg_refines a a' : Rv a a' -> Rv (neg_cells a) (np_neg a').
Proof. intros H. apply (map_Rv Rc); auto. cellrel. Qed.
Lemma abs_refines a a' : Rv a a' -> Rv (abs_cells a) (np_abs a').
Proof.
  intros H. apply (map_Rv Rc); auto. intros x x' [Hw Hd]. destruct x as [v|]; cbn in *; split; cbn; auto.
  - now apply qabs_nz.
  - now rewrite Hd.
  - rewrite <- Hd. reflexivity.
Qed.
Lemma empty_refines a a' : Rv a a' -> Rv (empty_cells (length a)) (map (fun _ => 0) a').
Proof. intros H. rewrite empty_cells_map. apply (map_Rv Rc); auto. intros; split; cbn; auto. reflexivity. Qed.

(* ------------------------------------------------------------------ footprint of one operation *)
Definition target (o : xop) : option nat :=
  match o with
  | XOp (OIBin _ i _) | XOp (OClear i) | XOp (OSetRO i) | XOp (OSet i _ _) | XASet i _ _
  | XOp (OCopyLike i _) | XOp (OFromFlat i _) => Some i
  | _ => None
  end.
Ltac shp H :=
  repeat match type of H with
         | (do _ <- ?m; _) = Ok _ => let E := fresh "E" in destruct m eqn:E; cbn [bind] in H; [|discriminate H]
         | context [match ?x with _ => _ end] => destruct x eqn:?; try discriminate H
         | context [if ?x then _ else _] => destruct x eqn:?; try discriminate H
         end.
Lemma xstep_res_shape lg s o s' r : xstep_res lg s o = Ok (s', r) ->
  s' = s \/ (exists n, s' = s ++ [n] /\ target o = None) \/ (exists i x, s' = set_obj s i x /\ target o = Some i).
Proof.
  intros H. destruct o as [o|i ax|i ax v]; [destruct o|..]; cbn [xstep_res step_res] in H; shp H;
    inversion H; subst; cbn [target]; eauto 6.
Qed.
Lemma nth_error_app_l {A} (l l' : list A) k : (k < length l)%nat -> nth_error (l ++ l') k = nth_error l k.
Proof. intros. now apply nth_error_app1. Qed.
Theorem xstep_frame lg s o : forall k, (k < length s)%nat -> target o <> Some k ->
  nth_error (fst (xstep lg s o)) k = nth_error s k.
Proof.
  intros k Hk Ht. unfold xstep. destruct (xstep_res lg s o) as [[s' r]|e] eqn:E; cbn; auto.
  destruct (xstep_res_shape _ _ _ _ _ E) as [->|[(n & -> & _)|(i & x & -> & T)]]; auto.
  - now apply nth_error_app_l.
  - unfold set_obj. apply nth_error_upd_other. congruence.
Qed.
Theorem xstep_length lg s o : (length s <= length (fst (xstep lg s o)))%nat.
Proof.
  unfold xstep. destruct (xstep_res lg s o) as [[s' r]|e] eqn:E; cbn; auto.
  destruct (xstep_res_shape _ _ _ _ _ E) as [->|[(n & -> & _)|(i & x & -> & T)]]; auto.
  - rewrite app_length. cbn. lia.
  - unfold set_obj. now rewrite upd_length.
Qed.
(* for every history: an object changes only through a mutator aimed at it *)
Theorem run_frame lg ops : forall s k, (k < length s)%nat -> (forall o, In o ops -> target o <> Some k) ->
  nth_error (fst (run lg s ops)) k = nth_error s k.
Proof.
  induction ops as [|o ops IH]; intros s k Hk Ht; cbn; auto.
  pose proof (xstep_frame lg s o k Hk (Ht o (or_introl eq_refl))) as F.
  pose proof (xstep_length lg s o) as L.
  destruct (xstep lg s o) as [s' r]. cbn in F, L.
  destruct (crashed r); cbn; auto.
  specialize (IH s' k ltac:(lia) (fun o' H => Ht o' (or_intror H))).
  destruct (run lg s' ops). cbn in *. congruence.
Qed.
(* a rejected operation (ValueError, IndexError, TypeError) leaves the whole store as it was,
   except SparseArray.__setitem__, whose row loop may have written earlier rows *)
Theorem rejected_unchanged lg s o e : (forall i ax v, o <> XASet i ax v) -> lg = false ->
  snd (xstep lg s o) = RErr e -> fst (xstep lg s o) = s.
Proof.
  intros Hn -> H. unfold xstep in *. destruct (xstep_res false s o) as [[s' r]|e'] eqn:E; cbn in *; auto.
  subst r. destruct o as [o|i ax|i ax v]; [destruct o|..]; cbn [xstep_res step_res] in E; shp E;
    try (inversion E; subst; auto; fail); try (exfalso; eapply Hn; reflexivity).
Qed.

(* ------------------------------------------------------------------ read-only vectors reject every write *)
Theorem readonly_vector_rejects lg s i c o :
  nth_error s i = Some (OV c true) ->
  (exists b a p, o = XOp (OIBin b i a) /\ resolve s a = Ok p) \/ o = XOp (OClear i) \/
  (exists ix a p, o = XOp (OSet i ix a) /\ resolve s a = Ok p) ->
  xstep lg s o = (s, RErr EValue).
Proof.
  intros Hi [(b & a & p & -> & R)|[->|(ix & a & p & -> & R)]]; unfold xstep; cbn [xstep_res step_res];
    unfold getobj; rewrite Hi; cbn [bind]; rewrite ?R; cbn; reflexivity.
Qed.

(* ================================================================== Part 4: statements the code does not satisfy *)
(* full statements (kept visible); each is refuted by a concrete witness evaluated by the kernel *)
Definition div_statement : Prop :=
  forall a b, wf a -> wf b -> refines (truediv_sparse a b) (np_arith Div (dense a) (dense b)).
Definition inplace_statement : Prop :=
  forall o a b, wf a -> wf b -> refines (ik_sparse false o false a b) (np_iarith o (dense a) (dense b)).
Definition broadcast_statement : Prop :=
  forall o a b, wf a -> wf b -> refines (k_sparse false o a b) (np_arith o (dense a) (dense b)).
Definition setitem_index_statement : Prop :=
  forall c i v, wf c -> refines (set1 c i v) (if Nat.ltb i (length c) then Ok (upd (dense c) i v) else Err EIndex).
Definition setitem_shape_statement : Prop :=
  forall c idx l, wf c -> refines (set_idx c idx (SVArr l)) (np_setitems (dense c) idx l).
Definition readonly_array_statement : Prop :=
  forall s i rows o, nth_error s i = Some (OA rows true) -> target o = Some i -> fst (xstep false s o) = s.
Definition logical_div_statement : Prop :=
  forall a b, rrel eq (lv_isparse LDiv a b) (np_logic LDiv a b).
Definition array_rows_statement : Prop :=
  forall o rows m isb r, array_bin false o (map VF rows) (PArr2 m isb) = Ok (OA r false) -> length r = length rows.
Definition mask_rows_statement : Prop :=
  forall rows mk l, Forall wf rows -> length l = vsize rows ->
    Forall (fun i => nth_error (fst (arrF_set false rows false (XRow (IMask mk)) (PArr l false))) i = Some (of_dense l)) (mask_idx mk).
Ltac wfv := repeat constructor; cbn; try exact I; try (let K := fresh "K" in intro K; vm_compute in K; discriminate K).
Lemma div_refuted : ~ div_statement.
Proof. intros H. specialize (H [None; Some 1] [None; Some 1] ltac:(wfv) ltac:(wfv)). vm_compute in H. exact H. Qed.
Lemma inplace_refuted : ~ inplace_statement.
Proof. intros H. specialize (H Add [Some 1] [Some 1; Some 2; Some 3] ltac:(wfv) ltac:(wfv)). vm_compute in H. exact H. Qed.
Lemma broadcast_refuted : ~ broadcast_statement.
Proof. intros H. specialize (H Add [Some 1] [] ltac:(wfv) ltac:(wfv)). vm_compute in H. exact H. Qed.
Lemma setitem_index_refuted : ~ setitem_index_statement.
Proof. intros H. specialize (H [None] 3%nat 1 ltac:(wfv)). vm_compute in H. discriminate H. Qed.
Lemma setitem_shape_refuted : ~ setitem_shape_statement.
Proof. intros H. specialize (H [None; None; None] [0; 1; 2]%nat [5; 6] ltac:(wfv)). vm_compute in H. exact H. Qed.
Lemma readonly_array_refuted : ~ readonly_array_statement.
Proof.
  intros H. specialize (H [OA [[Some 1]] true] 0%nat [[Some 1]] (XOp (OIBin (BA Add) 0 (AScal 1))) eq_refl eq_refl).
  vm_compute in H. discriminate H.
Qed.
Lemma logical_div_refuted : ~ logical_div_statement.
Proof. intros H. specialize (H [true] [true; false]). vm_compute in H. exact H. Qed.
Lemma array_rows_refuted : ~ array_rows_statement.
Proof.
  intros H. specialize (H (BA Add) [[Some 1]; [Some 2]; [Some 3]] [[1]; [1]] false [[Some 2]; [Some 3]] eq_refl).
  vm_compute in H. discriminate H.
Qed.
Lemma mask_rows_refuted : ~ mask_rows_statement.
Proof.
  intros H. specialize (H [[None; None]] [true] [5; 7] ltac:(repeat constructor) eq_refl).
  vm_compute in H. inversion H as [|x l Hx Hl]; subst. discriminate Hx.
Qed.
(* what the repairs in pending_fixes/C09_1, C09_2 correct: the old kernels dropped 1/0 and raised on a -= a *)
Lemma legacy_div_drops_entry :
  truediv_sparse_legacy [Some 1; None; Some 2] [None; Some 1; Some 2] = Ok [None; None; Some (2 # 2)] /\
  np_arith Div [1; 0; 2] [0; 1; 2] = Err EZeroDiv /\
  truediv_sparse [Some 1; None; Some 2] [None; Some 1; Some 2] = Err EZeroDiv.
Proof. repeat split; vm_compute; reflexivity. Qed.
Lemma legacy_isub_self_raises :
  isub_self [Some 1; None; Some 2] = Err ERuntime /\ isub_self_fixed [Some 1; None; Some 2] = Ok [None; None; None].
Proof. split; vm_compute; reflexivity. Qed.

(* ================================================================== Part 5: histories refine NumPy histories (float-vector fragment) *)
Lemma dense_of_dense l : Forall2 Qeq (dense (of_dense l)) l.
Proof. induction l; cbn; constructor; auto. apply dcell_nz. Qed.
Lemma Rv_of_dense l : Rv (of_dense l) l.
Proof. apply Rv_spec. split; [apply wf_of_dense | apply dense_of_dense]. Qed.

Definition osim (o : obj) (d : dobj) : Prop :=
  match o, d with
  | OV c ro, DV v ro' => Rv c v /\ ro = ro'
  | OL b, DL b' => b = b'
  | OA rows ro, DA m ro' => Forall2 Rv rows m /\ ro = ro'
  | OB r, DB r' => r = r'
  | _, _ => False
  end.
Definition sim (s : store) (d : dstore) : Prop := Forall2 osim s d.
Lemma sim_abs s : store_wf s -> sim s (abs_store s).
Proof.
  intros H. unfold sim, abs_store. induction H as [|o s Ho Hs IH]; cbn; constructor; auto.
  destruct o; cbn in *; auto using Rv_dense.
  split; auto. induction Ho; cbn; constructor; auto using Rv_dense.
Qed.
Lemma sim_nth s d i o : sim s d -> nth_error s i = Some o -> exists o', nth_error d i = Some o' /\ osim o o'.
Proof.
  intros H. revert i. induction H as [|x y s d Hxy H IH]; intros [|i] E; cbn in *; try discriminate.
  - inversion E; subst. eauto.
  - eauto.
Qed.
Lemma sim_app s d o o' : sim s d -> osim o o' -> sim (s ++ [o]) (d ++ [o']).
Proof. intros. apply Forall2_app; auto. Qed.
Lemma sim_upd s d i o o' : sim s d -> osim o o' -> sim (upd s i o) (upd d i o').
Proof. intros H Ho. revert i. unfold sim in *. induction H; intros [|i]; cbn; try constructor; auto. Qed.

(* operands of the fragment: a float vector of the store, a python scalar, a non-empty list / 1-d ndarray *)
Definition okarg (s : store) (c : cells) (x : arg) : Prop :=
  match x with
  | AObj j => exists d ro, nth_error s j = Some (OV d ro) /\ (length c = 1%nat -> d <> [])
  | AScal _ => True
  | AArr l => l <> []
  | _ => False
  end.
Definition vcells (r : res vec) : res cells :=
  match r with Ok (VF c) => Ok c | Ok (VB _) => Err EOther | Err e => Err e end.
Lemma vcells_okF r : vcells (okF r) = r.
Proof. destruct r; reflexivity. Qed.
Lemma arg_refines s d a c v x : sim s d -> a <> Div -> Rv c v -> okarg s c x ->
  exists p w, resolve s x = Ok p /\ darg d x = Some w /\
              refines (vcells (vec_bin false (BA a) (VF c) p)) (np_arith a v w) /\
              (forall al, (al = true -> p = PV c) -> vec_ibin false (BA a) al (VF c) p = vec_bin false (BA a) (VF c) p) /\
              match p with PV e => length e = length w | PS _ _ => length w = 1%nat | PArr l _ => length l = length w | _ => False end.
Proof.
  intros Hs Ha Hc Hx. destruct x as [j|q|b|l|l|m|m]; cbn in Hx; try contradiction.
  - destruct Hx as (e & ro & Ej & Hne). destruct (sim_nth _ _ _ _ Hs Ej) as (o' & Ej' & Ho).
    destruct o' as [w ro'| | |]; cbn in Ho; try contradiction. destruct Ho as [Hew _].
    exists (PV e), w. cbn. unfold getobj. rewrite Ej, Ej'. cbn. repeat split; auto.
    + rewrite vcells_okF. now apply arith_sparse_refines.
    + intros al Hal. destruct al; [|now rewrite inplace_eq_binary].
      specialize (Hal eq_refl). inversion Hal; subst. now rewrite inplace_self_eq_binary.
    + now apply Rv_length.
  - exists (PS q false), [q]. cbn. repeat split; auto. rewrite vcells_okF. apply arith_scalar_refines; auto. reflexivity.
  - destruct l as [|x [|y l]]; [congruence| |].
    + exists (PS x false), [x]. cbn. repeat split; auto. rewrite vcells_okF. apply arith_scalar_refines; auto. reflexivity.
    + exists (PArr (x :: y :: l) false), (x :: y :: l). cbn -[np_arith]. repeat split; auto.
      rewrite vcells_okF. apply arith_array_refines; auto using Forall2_Qeq_refl; cbn; congruence.
Qed.

Lemma vec_bin_BA_VF a c p r : vec_bin false (BA a) (VF c) p = Ok r -> exists c', r = VF c'.
Proof. destruct p; cbn; intros H; try discriminate; apply okF_inv in H as (c' & _ & ->); eauto. Qed.

(* ================================================================== Part 6: comparisons refine NumPy's *)
Lemma bool_ext (b1 b2 : bool) : (b1 = true <-> b2 = true) -> b1 = b2.
Proof. destruct b1, b2; intros [H1 H2]; auto; try (symmetry; now apply H1); try (now apply H2). Qed.
Lemma qcmp_compat c x x' y y' : x == x' -> y == y' -> qcmp c x y = qcmp c x' y'.
Proof.
  intros Hx Hy.
  assert (E : Qeq_bool x y = Qeq_bool x' y').
  { apply bool_ext. rewrite !Qeq_bool_iff. now rewrite Hx, Hy. }
  assert (L1 : Qle_bool x y = Qle_bool x' y').
  { apply bool_ext. rewrite !Qle_bool_iff. now rewrite Hx, Hy. }
  assert (L2 : Qle_bool y x = Qle_bool y' x').
  { apply bool_ext. rewrite !Qle_bool_iff. now rewrite Hx, Hy. }
  destruct c; unfold qcmp, qeqb, qltb, qleb; congruence.
Qed.
Lemma qcmp_00 c : qcmp c 0 0 = match c with CEq | CGe | CLe => true | _ => false end.
Proof. destruct c; reflexivity. Qed.
Definition Rcq (c : cell) (q : Q) : Prop := dcell c == q.
Lemma Rc_Rcq c q : Rc c q -> Rcq c q.
Proof. intros [_ H]; exact H. Qed.
Lemma qeqb_zero_present x : wfc x -> negb (present x) = qeqb (dcell x) 0.
Proof.
  destruct x as [v|]; cbn; intros H; auto. unfold qeqb. symmetry. apply not_true_is_false.
  intros E. apply Qeq_bool_iff in E. contradiction.
Qed.
(* every branch of every comparison kernel computes dct.get(i, 0.) <op> other.get(i, 0.) *)
Lemma cmp_cell_same c x y : wfc x -> wfc y ->
  match c with CEq => eq_same_c x y | CNe => ne_same_c x y | _ => cmp_same_c c x y end = qcmp c (dcell x) (dcell y).
Proof.
  intros Hx Hy. destruct c; unfold eq_same_c, ne_same_c, cmp_same_c;
    destruct x as [v|], y as [w|]; cbn in *; unfold qeqb, qltb, qleb in *; auto;
    try (symmetry; apply not_true_is_false; intros E; apply Qeq_bool_iff in E; try (apply Hx; rewrite E; reflexivity); try (apply Hy; rewrite <- E; reflexivity); fail);
    try (symmetry; apply negb_true_iff, not_true_is_false; intros E; apply Qeq_bool_iff in E; try (apply Hx; rewrite E; reflexivity); try (apply Hy; rewrite <- E; reflexivity); fail).
Qed.
Theorem cmp_sparse_same_refines c a a' b b' : Rv a a' -> Rv b b' -> length a = length b ->
  rrel eq (cmp_sparse c a b) (np_cmp c a' b').
Proof.
  intros Ha Hb L. unfold np_cmp, np_bcast. rewrite <- (Rv_length _ _ Ha), <- (Rv_length _ _ Hb), L, Nat.eqb_refl.
  rewrite map2M_pure.
  assert (G : forall f, (forall x y, wfc x -> wfc y -> f x y = qcmp c (dcell x) (dcell y)) ->
                        map2 f a b = map2 (qcmp c) a' b').
  { intros f Hf. clear L. revert b b' Hb. induction Ha as [|x x' a a' [Hxw Hxd] Ha IH]; intros b b' Hb; cbn.
    - destruct Hb; reflexivity.
    - destruct Hb as [|y y' b b' [Hyw Hyd] Hb]; cbn; auto. rewrite Hf by auto. f_equal; auto. now apply qcmp_compat. }
  unfold cmp_sparse, dispatch_sparse. rewrite L, Nat.eqb_refl.
  destruct c; cbn; f_equal; apply G; intros x y Hx Hy.
  - exact (cmp_cell_same CEq x y Hx Hy).
  - exact (cmp_cell_same CNe x y Hx Hy).
  - exact (cmp_cell_same CGt x y Hx Hy).
  - exact (cmp_cell_same CLt x y Hx Hy).
  - exact (cmp_cell_same CGe x y Hx Hy).
  - exact (cmp_cell_same CLe x y Hx Hy).
Qed.

(* ================================================================== Part 7: division, every broadcasting branch *)
(* np_div0 is NumPy's division except that 0/0 gives 0; wherever NumPy returns, np_div0 returns the same *)
Lemma qdiv0_of_qdiv x y q : qdiv x y = Ok q -> qdiv0 x y = Ok q.
Proof. unfold qdiv, qdiv0. destruct (qzerob y); intros H; [discriminate|exact H]. Qed.
Lemma map2M_mono {A B C} (f g : A -> B -> res C) a b v :
  (forall x y z, f x y = Ok z -> g x y = Ok z) -> map2M f a b = Ok v -> map2M g a b = Ok v.
Proof.
  intros H. revert b v. induction a as [|x a IH]; intros [|y b] v E; cbn in *; auto.
  destruct (f x y) eqn:F; try discriminate. destruct (map2M f a b) eqn:M; try discriminate.
  rewrite (H _ _ _ F), (IH _ _ M). exact E.
Qed.
Lemma mapM_mono {A C} (f g : A -> res C) a v :
  (forall x z, f x = Ok z -> g x = Ok z) -> mapM f a = Ok v -> mapM g a = Ok v.
Proof.
  intros H. revert v. induction a as [|x a IH]; intros v E; cbn in *; auto.
  destruct (f x) eqn:F; try discriminate. destruct (mapM f a) eqn:M; try discriminate.
  rewrite (H _ _ F), (IH _ eq_refl). exact E.
Qed.
Lemma np_div0_of_np a b v : np_arith Div a b = Ok v -> np_div0 a b = Ok v.
Proof.
  unfold np_arith, np_div0, np_bcast. cbn [aop_q].
  destruct (Nat.eqb (length a) (length b)); [apply map2M_mono; intros; now apply qdiv0_of_qdiv|].
  destruct (Nat.eqb (length a) 1); [apply mapM_mono; intros; now apply qdiv0_of_qdiv|].
  destruct (Nat.eqb (length b) 1); [apply mapM_mono; intros; now apply qdiv0_of_qdiv|auto].
Qed.

Lemma Rc_zero_iff x x' : Rc x x' -> (x = None <-> x' == 0).
Proof.
  intros [Hw Hd]. destruct x as [v|]; cbn in *; split; intros H; try discriminate; auto.
  - exfalso. apply Hw. now rewrite Hd.
  - now rewrite <- Hd.
Qed.
Lemma qdiv0_eval_nz x y : ~ y == 0 -> qdiv0 x y = Ok (x / y).
Proof. intros H. unfold qdiv0. apply qzerob_false in H. now rewrite H. Qed.
Lemma qdiv0_eval_z x y : y == 0 -> qdiv0 x y = if qzerob x then Ok 0 else Err EZeroDiv.
Proof. intros H. unfold qdiv0. apply qzerob_true in H. now rewrite H. Qed.
Lemma zero_div y : 0 / y == 0.
Proof. unfold Qdiv. ring. Qed.
(* per cell: stored / stored, stored / missing (error), missing / anything (0) *)
Lemma truediv_same_c_rel x x' y y' : Rc x x' -> Rc y y' -> rrel Rc (truediv_same_c x y) (qdiv0 x' y').
Proof.
  intros Hx Hy. pose proof (Rc_zero_iff _ _ Hx) as Zx. pose proof (Rc_zero_iff _ _ Hy) as Zy.
  destruct Hx as [Hxw Hxd], Hy as [Hyw Hyd].
  destruct x as [v|], y as [w|]; cbn in *.
  - rewrite (qdiv_eval v w Hyw), qdiv0_eval_nz by (now rewrite <- Hyd). cbn. split; cbn; [now apply qdiv_nz|now rewrite Hxd, Hyd].
  - rewrite qdiv0_eval_z by (now rewrite <- Hyd).
    assert (N : ~ x' == 0) by (now rewrite <- Hxd). apply qzerob_false in N. now rewrite N.
  - rewrite qdiv0_eval_nz by (now rewrite <- Hyd). cbn. split; cbn; auto. rewrite <- Hxd. symmetry. apply zero_div.
  - rewrite qdiv0_eval_z by (now rewrite <- Hyd).
    assert (N : x' == 0) by (now rewrite <- Hxd). apply qzerob_true in N. rewrite N. cbn. split; cbn; auto. reflexivity.
Qed.
Lemma div_c_rel x x' y y' : Rc x x' -> y == y' -> rrel Rc (div_c x y) (qdiv0 x' y').
Proof.
  intros [Hxw Hxd] Hy. destruct x as [v|]; cbn in *.
  - unfold qdiv, qdiv0. assert (E : qzerob y = qzerob y').
    { apply bool_ext. rewrite !qzerob_true. now rewrite Hy. }
    rewrite <- E. destruct (qzerob y) eqn:Z.
    + assert (N : ~ x' == 0) by (now rewrite <- Hxd). apply qzerob_false in N. now rewrite N.
    + cbn. apply qzerob_false in Z. split; cbn; [now apply qdiv_nz|now rewrite Hxd, Hy].
  - unfold qdiv0. assert (N : x' == 0) by (now rewrite <- Hxd).
    destruct (qzerob y'); [apply qzerob_true in N; rewrite N|]; cbn; split; cbn; auto; try reflexivity.
    rewrite N. symmetry. apply zero_div.
Qed.
(* nkeys counts the stored cells *)
Lemma nkeys_cons x a : nkeys (x :: a) = ((if present x then 1 else 0) + nkeys a)%nat.
Proof. unfold nkeys. cbn. destruct (present x); reflexivity. Qed.
Lemma nkeys_le a : (nkeys a <= length a)%nat.
Proof. induction a as [|x a IH]; [cbn; lia|]. rewrite nkeys_cons. cbn [length]. destruct (present x); lia. Qed.
Lemma nkeys_full a : Nat.eqb (nkeys a) (length a) = true <-> Forall (fun x => present x = true) a.
Proof.
  rewrite Nat.eqb_eq. induction a as [|x a IH]; [split; [constructor|reflexivity]|].
  rewrite nkeys_cons. cbn [length]. pose proof (nkeys_le a). split.
  - intros H0. destruct (present x) eqn:P; [|lia]. constructor; auto. apply IH. lia.
  - intros H0. inversion H0; subst. rewrite H3. apply IH in H4. lia.
Qed.
Lemma nkeys_zero a : Nat.eqb (nkeys a) 0 = true <-> Forall (fun x => x = None) a.
Proof.
  rewrite Nat.eqb_eq. induction a as [|x a IH]; [split; [constructor|reflexivity]|].
  rewrite nkeys_cons. split.
  - intros H0. destruct x; cbn in H0; [lia|]. constructor; auto. apply IH. lia.
  - intros H0. inversion H0; subst. cbn. now apply IH.
Qed.
(* size == 1 on the left: value / other[i] for every i, all of other must be stored *)
Lemma truediv_self1_rel v v' b b' : Rc v v' -> Rv b b' -> rrel Rv (truediv_self1 v b) (mapM (qdiv0 v') b').
Proof.
  intros Hv Hb. unfold truediv_self1. destruct v as [value|].
  - destruct (Nat.eqb (nkeys b) (length b)) eqn:F.
    + apply (mapM_rrel Rc); auto. intros o o' Ho. apply div_c_rel; auto. apply Ho.
    + (* some cell of other is missing: the first such cell makes NumPy raise too *)
      assert (N : ~ Forall (fun x => present x = true) b) by (rewrite <- nkeys_full; congruence).
      destruct Hv as [Hvw Hvd]. cbn in *. clear F. induction Hb as [|o o' b b' Ho Hb IH]; [exfalso; apply N; constructor|].
      cbn. pose proof (Rc_zero_iff _ _ Ho) as Z. destruct o as [w|].
      * destruct Ho as [Hw Hd]. cbn in *. rewrite qdiv0_eval_nz by (now rewrite <- Hd).
        assert (N' : ~ Forall (fun x => present x = true) b) by (intros K; apply N; constructor; auto).
        specialize (IH N'). destruct (mapM (qdiv0 v') b'); cbn in *; auto.
      * rewrite qdiv0_eval_z by (now apply Z).
        assert (K : ~ v' == 0) by (now rewrite <- Hvd). apply qzerob_false in K. now rewrite K.
  - assert (Z : v' == 0) by (destruct Hv as [_ H]; cbn in H; now rewrite <- H).
    rewrite empty_cells_map. rewrite (mapM_ext _ (fun y => Ok (if qzerob y then 0 else v' / y))).
    + rewrite mapM_pure. cbn. apply (map_Rv Rc); auto. intros o o' Ho. split; cbn; auto.
      destruct (qzerob o'); [reflexivity|]. rewrite Z. symmetry. apply zero_div.
    + intros y. unfold qdiv0. apply qzerob_true in Z. rewrite Z. now destruct (qzerob y).
Qed.
(* size == 1 on the right *)
Lemma truediv_other1_rel a a' o o' : Rv a a' -> Rc o o' -> rrel Rv (truediv_other1 a o) (mapM (fun x => qdiv0 x o') a').
Proof.
  intros Ha Ho. unfold truediv_other1. pose proof (Rc_zero_iff _ _ Ho) as Z. destruct o as [other|].
  - destruct Ho as [Hw Hd]. cbn in *. apply (mapM_rrel Rc); auto. intros x x' Hx. now apply div_c_rel.
  - assert (Zo : o' == 0) by (now apply Z).
    destruct (Nat.eqb (nkeys a) 0) eqn:F.
    + apply nkeys_zero in F. induction Ha as [|x x' a a' Hx Ha IH]; cbn; [constructor|].
      inversion F; subst. rewrite qdiv0_eval_z by auto.
      assert (Zx : x' == 0) by (destruct Hx as [_ H]; cbn in H; now rewrite <- H). apply qzerob_true in Zx. rewrite Zx.
      specialize (IH H2). destruct (mapM (fun x => qdiv0 x o') a'); cbn in *; try contradiction.
      constructor; auto. split; cbn; auto. reflexivity.
    + assert (N : ~ Forall (fun x => x = None) a) by (rewrite <- nkeys_zero; congruence). clear F.
      induction Ha as [|x x' a a' Hx Ha IH]; [exfalso; apply N; constructor|].
      cbn. rewrite qdiv0_eval_z by auto. pose proof (Rc_zero_iff _ _ Hx) as Zx. destruct x as [v|].
      * assert (K : ~ x' == 0) by (intros K; apply Zx in K; discriminate). apply qzerob_false in K. now rewrite K.
      * assert (K : x' == 0) by (now apply Zx). apply qzerob_true in K. rewrite K.
        assert (N' : ~ Forall (fun x => x = None) a) by (intros K'; apply N; constructor; auto).
        specialize (IH N'). destruct (mapM (fun x => qdiv0 x o') a'); cbn in *; auto.
Qed.
Theorem div_sparse_refines a a' b b' : Rv a a' -> Rv b b' -> (length a = 1%nat -> b <> []) ->
  refines (truediv_sparse a b) (np_div0 a' b').
Proof.
  intros Ha Hb Hne. unfold refines, truediv_sparse, dispatch_sparse, np_div0, np_bcast.
  rewrite <- (Rv_length _ _ Ha), <- (Rv_length _ _ Hb).
  destruct (Nat.eqb (length a) (length b)) eqn:E.
  - apply (map2M_rrel Rc Rc); auto. intros; now apply truediv_same_c_rel.
  - unfold len1, len0. destruct (Nat.eqb (length a) 1) eqn:E1.
    + assert (L0 : Nat.eqb (length b) 0 = false).
      { apply Nat.eqb_eq in E1. specialize (Hne E1). destruct b; [congruence|reflexivity]. }
      rewrite L0. cbn [andb negb]. apply truediv_self1_rel; auto. now apply Rv_hd.
    + cbn [andb]. destruct (Nat.eqb (length b) 1) eqn:E2; [|reflexivity].
      destruct Hb as [|y y' b b' Hy Hb]; [discriminate|]. destruct Hb; [|discriminate]. cbn.
      now apply truediv_other1_rel.
Qed.
Theorem div_scalar_refines a a' k k' : Rv a a' -> k == k' -> refines (truediv_scalar a k) (np_div0 a' [k']).
Proof.
  intros Ha Hk. unfold refines, truediv_scalar, np_div0, np_bcast. cbn [length hd].
  assert (G : rrel Rv (mapM (fun c => div_c c k) a) (mapM (fun x => qdiv0 x k') a')).
  { apply (mapM_rrel Rc); auto. intros; now apply div_c_rel. }
  destruct (Nat.eqb (length a') 1) eqn:E1; [|exact G].
  destruct Ha as [|x x' a a' Hx Ha]; [discriminate|]. destruct Ha; [|discriminate]. cbn.
  pose proof (div_c_rel x x' k k' Hx Hk) as R. destruct (div_c x k), (qdiv0 x' k'); cbn in *; try contradiction; auto.
  repeat constructor; apply R.
Qed.
Theorem div_array_refines a a' b b' : Rv a a' -> Forall2 Qeq b b' -> b <> [] -> length b <> 1%nat ->
  refines (truediv_array a b) (np_div0 a' b').
Proof.
  intros Ha Hb Hne Hn1. unfold refines, truediv_array, dispatch_array, np_div0, np_bcast.
  assert (Lb : length b = length b') by (clear -Hb; induction Hb; cbn; auto).
  rewrite <- (Rv_length _ _ Ha), <- Lb.
  destruct (Nat.eqb (length a) (length b)) eqn:E.
  - apply (map2M_rrel Rc Qeq); auto. intros; now apply div_c_rel.
  - assert (L0 : len0 b = false) by (destruct b; [congruence|reflexivity]).
    unfold len1, len0 in *. rewrite L0. destruct (Nat.eqb (length a) 1) eqn:E1; cbn [andb negb].
    + pose proof (Rv_hd _ _ Ha) as Hv. unfold truediv_arr_self1. destruct (hd None a) as [value|] eqn:Hh.
      * apply (mapM_rrel Qeq); auto. intros y y' Hy. now apply div_c_rel.
      * assert (Z : hd 0 a' == 0) by (destruct Hv as [_ H]; cbn in H; now rewrite <- H).
        rewrite empty_cells_mapQ. rewrite (mapM_ext _ (fun y => Ok (if qzerob y then 0 else hd 0 a' / y))).
        -- rewrite mapM_pure. cbn. apply (map_Rv Qeq); auto. intros o o' Ho. split; cbn; auto.
           destruct (qzerob o'); [reflexivity|]. rewrite Z. symmetry. apply zero_div.
        -- intros y. unfold qdiv0. apply qzerob_true in Z. rewrite Z. now destruct (qzerob y).
    + apply Nat.eqb_neq in Hn1. rewrite Hn1. reflexivity.
Qed.

(* ================================================================== Part 8: comparisons with scalar, array and broadcast operands *)
Lemma qeqb_iff a b : qeqb a b = true <-> a == b.
Proof. apply Qeq_bool_iff. Qed.
Lemma qeqb_niff a b : qeqb a b = false <-> ~ a == b.
Proof. split; intros H. - intros E. apply qeqb_iff in E. congruence. - apply not_true_is_false. now rewrite qeqb_iff. Qed.
Lemma qleb_iff a b : qleb a b = true <-> a <= b.
Proof. apply Qle_bool_iff. Qed.
Lemma qleb_niff a b : qleb a b = false <-> b < a.
Proof.
  split; intros H.
  - apply Qnot_le_lt. intros E. apply qleb_iff in E. congruence.
  - apply not_true_is_false. rewrite qleb_iff. now apply Qlt_not_le.
Qed.
Lemma qltb_iff a b : qltb a b = true <-> a < b.
Proof. unfold qltb. rewrite negb_true_iff. apply qleb_niff. Qed.
Lemma qltb_niff a b : qltb a b = false <-> b <= a.
Proof. unfold qltb. rewrite negb_false_iff. apply qleb_iff. Qed.
Lemma Qneq_lt a b : ~ a == b -> a < b \/ b < a.
Proof. intros H. destruct (Q_dec a b) as [[L|L]|E]; auto. contradiction. Qed.
(* decide every comparison occurring in the goal, turn the outcomes into order facts, finish with lra *)
Ltac qbool :=
  unfold qcmp, truthy in *;
  repeat match goal with
         | |- context [qeqb ?a ?b] => let E := fresh "E" in destruct (qeqb a b) eqn:E
         | |- context [qleb ?a ?b] => let E := fresh "E" in destruct (qleb a b) eqn:E
         | |- context [qltb ?a ?b] => let E := fresh "E" in destruct (qltb a b) eqn:E
         | |- context [qzerob ?a] => let E := fresh "E" in destruct (qzerob a) eqn:E
         end;
  repeat match goal with
         | E : qeqb _ _ = true |- _ => apply qeqb_iff in E
         | E : qeqb _ _ = false |- _ => apply qeqb_niff in E
         | E : qleb _ _ = true |- _ => apply qleb_iff in E
         | E : qleb _ _ = false |- _ => apply qleb_niff in E
         | E : qltb _ _ = true |- _ => apply qltb_iff in E
         | E : qltb _ _ = false |- _ => apply qltb_niff in E
         | E : qzerob _ = true |- _ => apply qzerob_true in E
         | E : qzerob _ = false |- _ => apply qzerob_false in E
         end;
  cbn; try reflexivity; exfalso;
  repeat match goal with
         | H : ~ _ == _ |- _ => apply Qneq_lt in H; destruct H
         end; lra.
Ltac rcs :=
  repeat match goal with
         | H : Rc (Some _) _ |- _ => let A := fresh "Hw" in let B := fresh "Hd" in destruct H as [A B]; cbn in A, B
         | H : Rc None _ |- _ => let B := fresh "Hd" in destruct H as [_ B]; cbn in B
         end.

(* each per-cell function of each comparison kernel is  dct.get(i, 0.) <op> other.get(i, 0.)  *)
Lemma cmp_same_cell c x x' y y' : Rc x x' -> Rc y y' ->
  match c with CEq => eq_same_c x y | CNe => ne_same_c x y | _ => cmp_same_c c x y end = qcmp c x' y'.
Proof.
  intros Hx Hy. rewrite cmp_cell_same by (apply Hx || apply Hy). apply qcmp_compat; [apply Hx|apply Hy].
Qed.
Definition cmp_self1_cell (c : cmp) (v y : cell) : bool :=
  match c with
  | CEq => match v with Some value => match y with Some w => qeqb w value | None => false end | None => negb (present y) end
  | CNe => match v with Some value => match y with Some w => negb (qeqb w value) | None => true end | None => present y end
  | _ => if qcmp c (dcell v) 0 then match y with None => true | Some w => qcmp c (dcell v) w end
         else match y with None => false | Some w => qcmp c (dcell v) w end
  end.
Definition cmp_other1_cell (c : cmp) (o x : cell) : bool :=
  match c with
  | CEq => match o with Some other => match x with Some v => qeqb v other | None => false end | None => negb (present x) end
  | CNe => match o with Some other => match x with Some v => negb (qeqb v other) | None => true end | None => present x end
  | _ => if qcmp c 0 (dcell o) then match x with None => true | Some v => qcmp c v (dcell o) end
         else match x with None => false | Some v => qcmp c v (dcell o) end
  end.
Lemma cmp_self1_cell_rel c v v' y y' : Rc v v' -> Rc y y' -> cmp_self1_cell c v y = qcmp c v' y'.
Proof. intros Hv Hy. destruct c, v as [value|], y as [w|]; rcs; cbn; qbool. Qed.
Lemma cmp_other1_cell_rel c o o' x x' : Rc o o' -> Rc x x' -> cmp_other1_cell c o x = qcmp c x' o'.
Proof. intros Ho Hx. destruct c, o as [other|], x as [v|]; rcs; cbn; qbool. Qed.
Lemma cmp_sparse_self1_eq c v b : 
  match c with CEq => eq_self1 v b | CNe => ne_self1 v b | _ => cmp_self1 c (dcell v) b end = map (cmp_self1_cell c v) b.
Proof.
  destruct c; unfold eq_self1, ne_self1, cmp_self1, cmp_self1_cell; try (destruct v; reflexivity);
    destruct (qcmp _ (dcell v) 0); apply map_ext; intros [w|]; reflexivity.
Qed.
Lemma cmp_sparse_other1_eq c o a :
  match c with CEq => eq_other1 a o | CNe => ne_other1 a o | _ => cmp_other1 c a (dcell o) end = map (cmp_other1_cell c o) a.
Proof.
  destruct c; unfold eq_other1, ne_other1, cmp_other1, cmp_other1_cell; try (destruct o; reflexivity);
    destruct (qcmp _ 0 (dcell o)); apply map_ext; intros [w|]; reflexivity.
Qed.
Lemma map_bool_rel {A A'} (R : A -> A' -> Prop) (f : A -> bool) (g : A' -> bool) a a' :
  (forall x x', R x x' -> f x = g x') -> Forall2 R a a' -> map f a = map g a'.
Proof. intros H Ha. induction Ha; cbn; auto. f_equal; auto. Qed.
Lemma map2_bool_rel {A A' B B'} (R : A -> A' -> Prop) (S : B -> B' -> Prop) (f : A -> B -> bool) (g : A' -> B' -> bool) a a' b b' :
  (forall x x' y y', R x x' -> S y y' -> f x y = g x' y') -> Forall2 R a a' -> Forall2 S b b' -> map2 f a b = map2 g a' b'.
Proof.
  intros H Ha. revert b b'. induction Ha; intros b b' Hb; cbn; [destruct Hb; reflexivity|].
  destruct Hb; cbn; auto. f_equal; auto.
Qed.
Theorem cmp_sparse_refines c a a' b b' : Rv a a' -> Rv b b' -> (length a = 1%nat -> b <> []) ->
  rrel eq (cmp_sparse c a b) (np_cmp c a' b').
Proof.
  intros Ha Hb Hne.
  destruct (Nat.eqb (length a) (length b)) eqn:E; [apply cmp_sparse_same_refines; auto; now apply Nat.eqb_eq|].
  unfold np_cmp, np_bcast. rewrite <- (Rv_length _ _ Ha), <- (Rv_length _ _ Hb), E.
  assert (S1 : len1 a && negb (len0 b) = true ->
               cmp_sparse c a b = Ok (map (cmp_self1_cell c (hd None a)) b)).
  { intros L. rewrite <- cmp_sparse_self1_eq. unfold cmp_sparse, dispatch_sparse. rewrite E, L. now destruct c. }
  assert (S2 : len1 a && negb (len0 b) = false -> len1 b = true ->
               cmp_sparse c a b = Ok (map (cmp_other1_cell c (hd None b)) a)).
  { intros L L2. rewrite <- cmp_sparse_other1_eq. unfold cmp_sparse, dispatch_sparse. rewrite E, L, L2.
    destruct b as [|y [|y2 b]]; try discriminate. now destruct c. }
  assert (S3 : len1 a && negb (len0 b) = false -> len1 b = false -> cmp_sparse c a b = Err EValue).
  { intros L L2. unfold cmp_sparse, dispatch_sparse. rewrite E, L, L2. now destruct c. }
  unfold len1, len0 in *. destruct (Nat.eqb (length a) 1) eqn:E1.
  - assert (L0 : Nat.eqb (length b) 0 = false).
    { apply Nat.eqb_eq in E1. specialize (Hne E1). destruct b; [congruence|reflexivity]. }
    rewrite S1 by (now rewrite L0). rewrite mapM_pure. cbn. f_equal.
    apply (map_bool_rel Rc); auto. intros. apply cmp_self1_cell_rel; auto. now apply Rv_hd.
  - destruct (Nat.eqb (length b) 1) eqn:E2.
    + rewrite S2 by auto. rewrite mapM_pure. cbn. f_equal.
      apply (map_bool_rel Rc); auto. intros. apply cmp_other1_cell_rel; auto. now apply Rv_hd.
    + now rewrite S3.
Qed.
(* scalar operand *)
Lemma cmp_scalar_eq c a k : cmp_scalar c a k = Ok (map (cmp_other1_cell c (nz k)) a).
Proof.
  unfold cmp_scalar. f_equal.
  assert (G : forall c', cmp_other1 c' a k = map (fun x => if qcmp c' 0 (dcell (nz k))
                 then match x with None => true | Some v => qcmp c' v (dcell (nz k)) end
                 else match x with None => false | Some v => qcmp c' v (dcell (nz k)) end) a).
  { intros c'. unfold cmp_other1, nz. destruct (qzerob k) eqn:Z; cbn [dcell].
    - apply qzerob_true in Z. rewrite (qcmp_compat c' 0 0 k 0) by (auto; reflexivity).
      destruct (qcmp c' 0 0); apply map_ext; intros [w|]; auto; apply qcmp_compat; auto; reflexivity.
    - destruct (qcmp c' 0 k); apply map_ext; intros [w|]; reflexivity. }
  destruct c; try (rewrite G; reflexivity); unfold cmp_other1_cell, nz; destruct (qzerob k); reflexivity.
Qed.
Theorem cmp_scalar_refines c a a' k k' : Rv a a' -> k == k' -> rrel eq (cmp_scalar c a k) (np_cmp c a' [k']).
Proof.
  intros Ha Hk. rewrite cmp_scalar_eq. unfold np_cmp, np_bcast. cbn [length hd].
  assert (R : Rc (nz k) k') by (split; [apply wfc_nz | now rewrite dcell_nz]).
  assert (G : map (cmp_other1_cell c (nz k)) a = map (fun x => qcmp c x k') a').
  { apply (map_bool_rel Rc); auto. intros. now apply cmp_other1_cell_rel. }
  destruct (Nat.eqb (length a') 1) eqn:E1.
  - destruct Ha as [|x x' a a' Hx Ha]; [discriminate|]. destruct Ha; [|discriminate]. cbn in *. now inversion G.
  - rewrite mapM_pure. cbn. now f_equal.
Qed.
(* list / 1-d ndarray operand *)
Lemma cmp_arr_same_rel c x x' j j' : Rc x x' -> j == j' -> cmp_arr_same_c c x j = qcmp c x' j'.
Proof. intros Hx Hj. destruct c, x as [v|]; rcs; cbn; qbool. Qed.
Lemma qeqb_sym a b : qeqb a b = qeqb b a.
Proof. apply bool_ext. rewrite !qeqb_iff. split; intros H; now symmetry. Qed.
Lemma cmp_arr_self1_eq c v b : cmp_arr_self1 c v b = map (fun j => cmp_arr_same_c c v j) b.
Proof.
  destruct c, v as [value|]; cbn; try reflexivity; apply map_ext; intros j; try reflexivity;
    try (apply qeqb_sym); try (f_equal; apply qeqb_sym).
Qed.
Theorem cmp_array_refines c a a' b b' : Rv a a' -> Forall2 Qeq b b' -> b <> [] -> length b <> 1%nat ->
  rrel eq (cmp_array c a b) (np_cmp c a' b').
Proof.
  intros Ha Hb Hne Hn1.
  assert (Lb : length b = length b') by (clear -Hb; induction Hb; cbn; auto).
  unfold np_cmp, np_bcast. rewrite <- (Rv_length _ _ Ha), <- Lb.
  assert (L0 : len0 b = false) by (destruct b; [congruence|reflexivity]).
  assert (L1 : Nat.eqb (length b) 1 = false) by (now apply Nat.eqb_neq).
  assert (G : cmp_array c a b =
              if Nat.eqb (length a) (length b) then Ok (map2 (cmp_arr_same_c c) a b)
              else if len1 a then Ok (map (fun j => cmp_arr_same_c c (hd None a) j) b) else Err EValue).
  { unfold cmp_array, dispatch_array. rewrite <- cmp_arr_self1_eq, L0.
    destruct c; destruct (Nat.eqb (length a) (length b)); try reflexivity; destruct (len1 a); cbn; try reflexivity;
      destruct b as [|y [|y2 b]]; try reflexivity; discriminate. }
  rewrite G. unfold len1. destruct (Nat.eqb (length a) (length b)).
  - rewrite map2M_pure. cbn. apply (map2_bool_rel Rc Qeq); auto. intros; now apply cmp_arr_same_rel.
  - destruct (Nat.eqb (length a) 1).
    + rewrite mapM_pure. cbn. apply (map_bool_rel Qeq); auto. intros. apply cmp_arr_same_rel; auto. now apply Rv_hd.
    + now rewrite L1.
Qed.

(* ================================================================== Part 9: vector __getitem__ / __setitem__ refine NumPy indexing *)
Lemma Rv_nth c v k : Rv c v -> getc c k == nth k v 0.
Proof.
  intros H. unfold getc. revert k. induction H as [|x x' c v [_ Hx] H IH]; intros [|k]; cbn; try reflexivity; auto.
Qed.
Lemma np_get1_nth {A} (v : list A) k d : (k < length v)%nat -> np_get1 v k = Ok (nth k v d).
Proof.
  unfold np_get1. revert k. induction v as [|x v IH]; intros [|k] H; cbn in *; try lia; auto. apply IH. lia.
Qed.
(* v[k] *)
Theorem get_int_refines c v k : Rv c v -> (k < length c)%nat ->
  exists q, np_get1 v k = Ok q /\ getc c k == q.
Proof.
  intros H Hk. exists (nth k v 0). split; [apply np_get1_nth; now rewrite <- (Rv_length _ _ H) | now apply Rv_nth].
Qed.
(* v[[i, j, ...]], v[mask], v[a:b:c] *)
Theorem get_idx_refines c v idx : Rv c v -> Forall (fun i => (i < length c)%nat) idx ->
  exists r, np_take v idx = Ok r /\ Forall2 Qeq (map (getc c) idx) r.
Proof.
  intros H Hi. unfold np_take. induction Hi as [|i idx Hi Hidx IH]; cbn; [eexists; split; eauto; constructor|].
  destruct IH as (r & -> & Hr). rewrite (np_get1_nth v i 0) by (now rewrite <- (Rv_length _ _ H)).
  eexists; split; [reflexivity|]. constructor; auto. now apply Rv_nth.
Qed.
(* the index lists of the two sides coincide for well-formed indices *)
Definition valid_index (n : nat) (ix : index) : Prop :=
  match ix with
  | IInt k | ITup k => (k < n)%nat
  | IList l => Forall (fun i => (i < n)%nat) l
  | IMask m => length m = n
  | ISlice a b c => (a <= n /\ b <= n /\ 1 <= c)%nat
  | IOpen => True
  end.
Lemma mask_idx_from_bound m k : Forall (fun i => (i < k + length m)%nat) (mask_idx_from k m).
Proof.
  revert k. induction m as [|b m IH]; intros k; cbn; [constructor|].
  specialize (IH (S k)). assert (E : (S k + length m = k + S (length m))%nat) by lia. rewrite E in IH.
  destruct b; [constructor; [lia|]|]; exact IH.
Qed.
Lemma range_from_bound count : forall start step bound, (start + (count - 1) * step < bound)%nat ->
  Forall (fun i => (i < bound)%nat) (range_from start step count).
Proof.
  induction count as [|count IH]; intros start step bound H; cbn [range_from]; constructor.
  - rewrite Nat.sub_succ, Nat.sub_0_r in H. nia.
  - rewrite Nat.sub_succ, Nat.sub_0_r in H. destruct count as [|k]; [constructor|].
    apply IH. rewrite Nat.sub_succ, Nat.sub_0_r. nia.
Qed.
Lemma slice_range_bound a b c n : (b <= n)%nat -> (1 <= c)%nat -> Forall (fun i => (i < n)%nat) (slice_range a b c).
Proof.
  intros Hb Hc. unfold slice_range. destruct (Nat.leb b a) eqn:E; [constructor|].
  apply Nat.leb_gt in E. remember ((b - a + c - 1) / c)%nat as cnt eqn:K.
  destruct cnt as [|k]; [constructor|].
  assert (M : (S k * c <= b - a + c - 1)%nat) by (rewrite K, Nat.mul_comm; apply Nat.mul_div_le; lia).
  apply range_from_bound. rewrite Nat.sub_succ, Nat.sub_0_r. nia.
Qed.
Theorem index_list_np n ix : valid_index n ix ->
  np_index_list n ix = Ok (index_list n ix) /\ Forall (fun i => (i < n)%nat) (index_list n ix).
Proof.
  intros H. destruct ix as [k|k|l|m|a b c|]; cbn in *.
  - split; auto.
  - split; auto.
  - split; auto.
  - subst n. rewrite Nat.eqb_refl. split; auto. apply (mask_idx_from_bound m 0).
  - destruct H as (Ha & Hb & Hc). rewrite !Nat.min_l by lia. split; auto. now apply slice_range_bound.
  - split; auto. clear. apply Forall_forall. intros i Hi. apply in_seq in Hi. lia.
Qed.

Lemma Rv_upd c v k x x' : Rv c v -> Rc x x' -> Rv (upd c k x) (upd v k x').
Proof. intros H Hx. revert k. unfold Rv in *. induction H; intros [|k]; cbn; try constructor; auto. Qed.
Lemma Rc_nz q q' : q == q' -> Rc (nz q) q'.
Proof. intros H. split; [apply wfc_nz | now rewrite dcell_nz]. Qed.
(* v[k] = q : the cell k becomes q, every other cell keeps its content *)
Theorem set_int_refines c v k q q' : Rv c v -> q == q' -> (k < length c)%nat ->
  exists r, set1 c k q = Ok r /\ Rv r (upd v k q') /\ length r = length c /\
            forall j, j <> k -> nth_error r j = nth_error c j.
Proof.
  intros H Hq Hk. unfold set1, inb. apply Nat.ltb_lt in Hk. rewrite Hk. eexists; split; [reflexivity|].
  repeat split.
  - apply Rv_upd; auto. now apply Rc_nz.
  - apply upd_length.
  - intros j Hj. apply nth_error_upd_other. congruence.
Qed.
(* v[idx] = values (same number of values as indices): refines NumPy's a[idx] = values; only indexed cells change *)
Theorem set_zip_refines idx : forall c v vals vals', Rv c v -> Forall2 Qeq vals vals' ->
  Forall (fun i => (i < length c)%nat) idx ->
  exists r r', set_zip c idx vals = Ok r /\ np_put v idx vals' = Ok r' /\ Rv r r' /\ length r = length c /\
               forall j, ~ In j idx -> nth_error r j = nth_error c j.
Proof.
  induction idx as [|i idx IH]; intros c v vals vals' H Hv Hi.
  - exists c, v. cbn. repeat split; auto.
  - inversion Hi as [|? ? Hi0 Hi1]; subst. destruct Hv as [|q q' vals vals' Hq Hv].
    + exists c, v. cbn. repeat split; auto.
    + destruct (set_int_refines c v i q q' H Hq Hi0) as (r0 & E0 & R0 & L0 & F0).
      cbn [set_zip np_put]. rewrite E0. cbn [bind].
      assert (Lt : Nat.ltb i (length v) = true) by (apply Nat.ltb_lt; now rewrite <- (Rv_length _ _ H)).
      rewrite Lt.
      destruct (IH r0 (upd v i q') vals vals' R0 Hv) as (r & r' & E & P & R & L & F).
      { rewrite L0. exact Hi1. }
      exists r, r'. repeat split; auto; try congruence.
      intros j Hj. rewrite F by (intros K; apply Hj; now right). apply F0. intros ->. apply Hj. now left.
Qed.
(* v[idx] = scalar *)
Lemma set_all_zip c idx q : set_all c idx q = set_zip c idx (repeat q (length idx)).
Proof. revert c. induction idx as [|i idx IH]; intros c; cbn; auto. destruct (set1 c i q); cbn; auto. Qed.
Theorem set_all_refines idx c v q q' : Rv c v -> q == q' -> Forall (fun i => (i < length c)%nat) idx ->
  exists r r', set_all c idx q = Ok r /\ np_put v idx (repeat q' (length idx)) = Ok r' /\ Rv r r' /\ length r = length c /\
               forall j, ~ In j idx -> nth_error r j = nth_error c j.
Proof.
  intros H Hq Hi. rewrite set_all_zip. apply set_zip_refines; auto.
  clear -Hq. induction (length idx); cbn; constructor; auto.
Qed.
(* NumPy's a[idx] = values is np_put when shapes agree *)
Lemma np_setitems_put {A} (a : list A) idx vals : Forall (fun i => (i < length a)%nat) idx -> length vals = length idx ->
  np_setitems a idx vals = np_put a idx vals.
Proof.
  intros Hi L. unfold np_setitems.
  assert (F : forallb (fun i => Nat.ltb i (length a)) idx = true).
  { apply forallb_forall. intros i Hin. apply Nat.ltb_lt. eapply Forall_forall in Hi; eauto. }
  rewrite F, L, Nat.eqb_refl. reflexivity.
Qed.
(* v[:] = scalar / same-size sparse vector *)
Theorem set_open_scalar_refines c v q q' : Rv c v -> q == q' ->
  exists r, set_open c (SVScal q) = Ok r /\ Rv r (map (fun _ => q') v).
Proof.
  intros H Hq. cbn. eexists; split; [reflexivity|]. destruct (qzerob q) eqn:Z.
  - rewrite empty_cells_map. apply (map_Rv Rc); auto. intros. split; cbn; auto. apply qzerob_true in Z. now rewrite <- Hq, Z.
  - apply (map_Rv Rc); auto. intros. split; cbn; auto. now apply qzerob_false.
Qed.
Theorem set_open_obj_refines c d : length d = length c -> set_open c (SVObj d) = Ok d.
Proof.
  intros L. cbn. rewrite L, Nat.leb_refl, Nat.sub_diag. cbn. now rewrite app_nil_r.
Qed.

(* ================================================================== Part 10: reductions *)
Lemma present_truthy x x' : Rc x x' -> present x = truthy x'.
Proof.
  intros H. pose proof (Rc_zero_iff _ _ H) as Z. unfold truthy. destruct x as [v|]; cbn.
  - symmetry. apply negb_true_iff. apply not_true_is_false. intros E. apply qzerob_true in E. apply Z in E. discriminate.
  - symmetry. apply negb_false_iff. apply qzerob_true. now apply Z.
Qed.
Theorem any_refines c v : Rv c v -> sv_any c = np_any v.
Proof.
  intros H. unfold sv_any, np_any. induction H as [|x x' c v Hx H IH]; [reflexivity|].
  rewrite nkeys_cons. cbn [existsb]. rewrite <- (present_truthy _ _ Hx), <- IH.
  destruct (present x); cbn; auto.
Qed.
Theorem all_refines c v : Rv c v -> sv_all c = np_all v.
Proof.
  intros H. unfold sv_all, np_all. induction H as [|x x' c v Hx H IH]; [reflexivity|].
  rewrite nkeys_cons. cbn [forallb length]. rewrite <- (present_truthy _ _ Hx), <- IH.
  pose proof (nkeys_le c). destruct (present x); cbn [andb].
  - reflexivity.
  - apply Nat.eqb_neq. lia.
Qed.
Lemma qsum_compat a b : Forall2 Qeq a b -> qsum a == qsum b.
Proof. intros H. induction H; cbn; [reflexivity|]. now rewrite H, IHForall2. Qed.
Lemma Rv_Qeq c v : Rv c v -> Forall2 Qeq (dense c) v.
Proof. intros H. now apply Rv_spec in H. Qed.
Theorem sum_refines c v : Rv c v -> sv_sum c == np_sum v.
Proof. intros H. unfold sv_sum, qsumc, np_sum. apply qsum_compat. now apply Rv_Qeq. Qed.
Lemma qsum_zero l : Forall (fun x => x == 0) l -> qsum l == 0.
Proof. intros H. induction H; cbn; [reflexivity|]. rewrite H, IHForall. lra. Qed.
Theorem mean_refines c v : Rv c v -> c <> [] -> exists q, np_mean v = Ok q /\ sv_mean c == q.
Proof.
  intros H Hne. unfold np_mean, sv_mean, len0. rewrite <- (Rv_length _ _ H).
  destruct c as [|x c]; [congruence|]. cbn [length Nat.eqb]. eexists; split; [reflexivity|].
  destruct (Nat.eqb (nkeys (x :: c)) 0) eqn:Z.
  - apply nkeys_zero in Z. assert (S0 : qsum v == 0).
    { rewrite <- (qsum_compat _ _ (Rv_Qeq _ _ H)). apply qsum_zero. clear -Z. induction Z; cbn; constructor; auto. subst. reflexivity. }
    rewrite S0. symmetry. apply zero_div.
  - unfold qsumc. now rewrite (qsum_compat _ _ (Rv_Qeq _ _ H)).
Qed.

(* max / min: characterised as "an element that bounds all elements" *)
Definition isMax (m : Q) (l : list Q) : Prop := (exists x, In x l /\ x == m) /\ forall y, In y l -> y <= m.
Definition isMin (m : Q) (l : list Q) : Prop := (exists x, In x l /\ x == m) /\ forall y, In y l -> m <= y.
Lemma qmaxl_spec l : forall d, isMax (qmaxl d l) (d :: l).
Proof.
  unfold qmaxl. induction l as [|x l IH]; intros d; cbn.
  - split; [exists d; split; [now left|reflexivity]|]. intros y [<-|[]]. apply Qle_refl.
  - destruct (IH (Qmax d x)) as [(z & Hz & Ez) Hb]. split.
    + destruct Hz as [<-|Hz].
      * destruct (Q.max_spec d x) as [[_ E]|[_ E]]; [exists x|exists d]; (split; [cbn; auto|]); now rewrite <- Ez, E.
      * exists z. split; auto. right; right; exact Hz.
    + intros y [<-|[<-|Hy]].
      * eapply Qle_trans; [apply Q.le_max_l|]. apply Hb. now left.
      * eapply Qle_trans; [apply Q.le_max_r|]. apply Hb. now left.
      * apply Hb. now right.
Qed.
Lemma qminl_spec l : forall d, isMin (qminl d l) (d :: l).
Proof.
  unfold qminl. induction l as [|x l IH]; intros d; cbn.
  - split; [exists d; split; [now left|reflexivity]|]. intros y [<-|[]]. apply Qle_refl.
  - destruct (IH (Qmin d x)) as [(z & Hz & Ez) Hb]. split.
    + destruct Hz as [<-|Hz].
      * destruct (Q.min_spec d x) as [[_ E]|[_ E]]; [exists d|exists x]; (split; [cbn; auto|]); now rewrite <- Ez, E.
      * exists z. split; auto. right; right; exact Hz.
    + intros y [<-|[<-|Hy]].
      * eapply Qle_trans; [|apply Q.le_min_l]. apply Hb. now left.
      * eapply Qle_trans; [|apply Q.le_min_r]. apply Hb. now left.
      * apply Hb. now right.
Qed.
Lemma isMax_unique m1 m2 l1 l2 : Forall2 Qeq l1 l2 -> isMax m1 l1 -> isMax m2 l2 -> m1 == m2.
Proof.
  intros H [(x1 & I1 & E1) B1] [(x2 & I2 & E2) B2].
  assert (T1 : forall x, In x l1 -> exists y, In y l2 /\ x == y).
  { clear -H. induction H; intros z []; subst; [eexists; split; [left; reflexivity|auto]|].
    destruct (IHForall2 z H1) as (w & ? & ?). exists w. split; auto. now right. }
  assert (T2 : forall y, In y l2 -> exists x, In x l1 /\ x == y).
  { clear -H. induction H; intros z []; subst; [eexists; split; [left; reflexivity|auto]|].
    destruct (IHForall2 z H1) as (w & ? & ?). exists w. split; auto. now right. }
  apply Qle_antisym.
  - destruct (T1 x1 I1) as (y & Iy & Ey). rewrite <- E1, Ey. now apply B2.
  - destruct (T2 x2 I2) as (x & Ix & Ex). rewrite <- E2, <- Ex. now apply B1.
Qed.
Lemma isMin_unique m1 m2 l1 l2 : Forall2 Qeq l1 l2 -> isMin m1 l1 -> isMin m2 l2 -> m1 == m2.
Proof.
  intros H [(x1 & I1 & E1) B1] [(x2 & I2 & E2) B2].
  assert (T1 : forall x, In x l1 -> exists y, In y l2 /\ x == y).
  { clear -H. induction H; intros z []; subst; [eexists; split; [left; reflexivity|auto]|].
    destruct (IHForall2 z H1) as (w & ? & ?). exists w. split; auto. now right. }
  assert (T2 : forall y, In y l2 -> exists x, In x l1 /\ x == y).
  { clear -H. induction H; intros z []; subst; [eexists; split; [left; reflexivity|auto]|].
    destruct (IHForall2 z H1) as (w & ? & ?). exists w. split; auto. now right. }
  apply Qle_antisym.
  - destruct (T2 x2 I2) as (x & Ix & Ex). rewrite <- E2, <- Ex. now apply B1.
  - destruct (T1 x1 I1) as (y & Iy & Ey). rewrite <- E1, Ey. now apply B2.
Qed.
Lemma in_stored q c : In q (stored c) <-> In (Some q) c.
Proof.
  unfold stored. rewrite in_flat_map. split.
  - intros ([w|] & Hc & Hq); cbn in Hq; [destruct Hq as [<-|[]]; exact Hc|contradiction].
  - intros H. exists (Some q). split; auto. now left.
Qed.
Lemma in_dense q c : In q (dense c) <-> exists x, In x c /\ dcell x = q.
Proof. unfold dense. rewrite in_map_iff. split; intros (x & A & B); exists x; auto. Qed.
Lemma has_none c : Nat.ltb (nkeys c) (length c) = true -> In None c.
Proof.
  intros H. apply Nat.ltb_lt in H. induction c as [|x c IH]; [cbn in H; lia|].
  rewrite nkeys_cons in H. cbn [length] in H. destruct x as [v|]; [right; apply IH; cbn in H; lia|now left].
Qed.
Lemma no_none c : Nat.ltb (nkeys c) (length c) = false -> ~ In None c.
Proof.
  intros H K. apply Nat.ltb_ge in H. pose proof (nkeys_le c).
  assert (F : Forall (fun x => present x = true) c) by (apply nkeys_full, Nat.eqb_eq; lia).
  eapply Forall_forall in F; eauto. discriminate.
Qed.
Lemma stored_nil c : stored c = [] -> Forall (fun x => x = None) c.
Proof.
  intros H. apply Forall_forall. intros [q|] Hx; auto. apply in_stored in Hx. rewrite H in Hx. contradiction.
Qed.
Theorem max_refines c v : Rv c v -> c <> [] -> exists m m', sv_max c = Ok m /\ np_max v = Ok m' /\ m == m'.
Proof.
  intros H Hne. unfold np_max. destruct H as [|x0 x0' c0 v0 Hx0 H0]; [congruence|].
  set (c := x0 :: c0) in *. set (v := x0' :: v0).
  assert (Hv : isMax (qmaxl x0' v0) v) by apply qmaxl_spec.
  assert (HR : Rv c v) by (constructor; auto).
  assert (G : forall m, isMax m (dense c) -> sv_max c = Ok m ->
               exists m0 m', sv_max c = Ok m0 /\ Ok (qmaxl x0' v0) = Ok m' /\ m0 == m').
  { intros m Hm E. exists m, (qmaxl x0' v0). repeat split; auto. eapply isMax_unique; [apply (Rv_Qeq _ _ HR)|exact Hm|exact Hv]. }
  destruct (stored c) as [|s t] eqn:S.
  - assert (L : len0 c = false) by reflexivity. apply (G 0); [|unfold sv_max; now rewrite S, L].
    apply stored_nil in S. split.
    + exists 0. split; [|reflexivity]. apply in_dense. exists None. split; auto. inversion S; subst. now left.
    + intros y Hy. apply in_dense in Hy as (x & Hx & <-). eapply Forall_forall in S; eauto. subst. apply Qle_refl.
  - pose proof (qmaxl_spec t s) as [(z & Hz & Ez) Hb]. rewrite <- S in Hz, Hb.
    destruct (qltb (qmaxl s t) 0 && Nat.ltb (nkeys c) (length c)) eqn:C.
    + pose proof C as C0. apply andb_true_iff in C as [C1 C2]. apply qltb_iff in C1. apply has_none in C2.
      apply (G 0); [|unfold sv_max; now rewrite S, C0].
      split.
      * exists 0. split; [|reflexivity]. apply in_dense. exists None. auto.
      * intros y Hy. apply in_dense in Hy as ([w|] & Hx & <-); cbn; [|apply Qle_refl].
        apply in_stored in Hx. specialize (Hb w Hx). lra.
    + apply (G (qmaxl s t)); [|unfold sv_max; now rewrite S, C]. split.
      * exists z. split; auto. apply in_dense. exists (Some z). split; auto. now apply in_stored.
      * intros y Hy. apply in_dense in Hy as ([w|] & Hx & <-); cbn; [apply Hb; now apply in_stored|].
        apply andb_false_iff in C as [C|C]; [now apply qltb_niff in C|]. exfalso. eapply no_none; eauto.
Qed.
Theorem min_refines c v : Rv c v -> c <> [] -> exists m m', sv_min c = Ok m /\ np_min v = Ok m' /\ m == m'.
Proof.
  intros H Hne. unfold np_min. destruct H as [|x0 x0' c0 v0 Hx0 H0]; [congruence|].
  set (c := x0 :: c0) in *. set (v := x0' :: v0).
  assert (Hv : isMin (qminl x0' v0) v) by apply qminl_spec.
  assert (HR : Rv c v) by (constructor; auto).
  assert (G : forall m, isMin m (dense c) -> sv_min c = Ok m ->
               exists m0 m', sv_min c = Ok m0 /\ Ok (qminl x0' v0) = Ok m' /\ m0 == m').
  { intros m Hm E. exists m, (qminl x0' v0). repeat split; auto. eapply isMin_unique; [apply (Rv_Qeq _ _ HR)|exact Hm|exact Hv]. }
  destruct (stored c) as [|s t] eqn:S.
  - assert (L : len0 c = false) by reflexivity. apply (G 0); [|unfold sv_min; now rewrite S, L].
    apply stored_nil in S. split.
    + exists 0. split; [|reflexivity]. apply in_dense. exists None. split; auto. inversion S; subst. now left.
    + intros y Hy. apply in_dense in Hy as (x & Hx & <-). eapply Forall_forall in S; eauto. subst. apply Qle_refl.
  - pose proof (qminl_spec t s) as [(z & Hz & Ez) Hb]. rewrite <- S in Hz, Hb.
    destruct (qltb 0 (qminl s t) && Nat.ltb (nkeys c) (length c)) eqn:C.
    + pose proof C as C0. apply andb_true_iff in C as [C1 C2]. apply qltb_iff in C1. apply has_none in C2.
      apply (G 0); [|unfold sv_min; now rewrite S, C0].
      split.
      * exists 0. split; [|reflexivity]. apply in_dense. exists None. auto.
      * intros y Hy. apply in_dense in Hy as ([w|] & Hx & <-); cbn; [|apply Qle_refl].
        apply in_stored in Hx. specialize (Hb w Hx). lra.
    + apply (G (qminl s t)); [|unfold sv_min; now rewrite S, C]. split.
      * exists z. split; auto. apply in_dense. exists (Some z). split; auto. now apply in_stored.
      * intros y Hy. apply in_dense in Hy as ([w|] & Hx & <-); cbn; [apply Hb; now apply in_stored|].
        apply andb_false_iff in C as [C|C]; [now apply qltb_niff in C|]. exfalso. eapply no_none; eauto.
Qed.
(* keepdims: the length-1 result vector *)
Lemma keep1_refines q q' : q == q' -> Rv (keep1 q) [q'].
Proof. intros H. constructor; [now apply Rc_nz|constructor]. Qed.


(* ================================================================== Part 11: logical vectors and the row-wise array lifts *)
Lemma trues_map (b : bits) : trues (length b) = map (fun _ => true) b.
Proof. unfold trues. induction b; cbn; congruence. Qed.
Lemma falses_map (b : bits) : falses (length b) = map (fun _ => false) b.
Proof. unfold falses. induction b; cbn; congruence. Qed.
Lemma lop_b_pure o x y : o <> LDiv -> lop_b o x y = Ok (match o with LAdd | LOr => x || y | LMul | LAnd => x && y | _ => xorb x y end).
Proof. destruct o; cbn; congruence. Qed.
Definition lopf (o : lop) (x y : bool) : bool := match o with LAdd | LOr => x || y | LMul | LAnd => x && y | _ => xorb x y end.
(* the logical kernels ARE NumPy's logical operators on the membership bits (division excepted: False/False) *)
Theorem logic_refines o a b : o <> LDiv -> (length a = 1%nat -> b <> []) -> lv_isparse o a b = np_logic o a b.
Proof.
  intros Ho Hne. unfold np_logic, np_bcast.
  rewrite (map2M_ext _ (fun x y => Ok (lopf o x y))) by (intros; now apply lop_b_pure).
  rewrite (mapM_ext (lop_b o (hd false a)) (fun y => Ok (lopf o (hd false a) y))) by (intros; now apply lop_b_pure).
  rewrite (mapM_ext (fun x => lop_b o x (hd false b)) (fun x => Ok (lopf o x (hd false b)))) by (intros; now apply lop_b_pure).
  rewrite map2M_pure, !mapM_pure. unfold lv_isparse, hdb.
  destruct (Nat.eqb (length a) (length b)) eqn:E.
  - destruct o; try congruence; reflexivity.
  - destruct (Nat.eqb (length a) 1) eqn:E1.
    + assert (L0 : Nat.eqb (length b) 0 = false).
      { apply Nat.eqb_eq in E1. specialize (Hne E1). destruct b; [congruence|reflexivity]. }
      rewrite L0. cbn [andb negb]. rewrite trues_map, falses_map.
      destruct o; try congruence; destruct (hd false a); cbn [lopf]; f_equal;
        try reflexivity; try (symmetry; apply map_id); try (apply map_ext; intros []; reflexivity);
        try (rewrite <- (map_id b) at 1; apply map_ext; intros []; reflexivity).
    + cbn [andb]. destruct (Nat.eqb (length b) 1) eqn:E2; [|reflexivity].
      rewrite trues_map, falses_map.
      destruct o; try congruence; destruct (hd false b); cbn [lopf]; f_equal;
        try (apply map_ext; intros []; reflexivity);
        try (rewrite <- (map_id a) at 1; apply map_ext; intros []; reflexivity).
Qed.
Lemma np_ilogic_binary o a b : length a = length b \/ length b = 1%nat -> np_ilogic o a b = np_logic o a b.
Proof.
  intros H. unfold np_ilogic, np_ibcast, np_logic, np_bcast.
  destruct (Nat.eqb (length a) (length b)) eqn:E; auto.
  destruct H as [H|H]; [apply Nat.eqb_neq in E; congruence|].
  rewrite H. cbn. destruct (Nat.eqb (length a) 1) eqn:E1; auto.
  apply Nat.eqb_eq in E1. apply Nat.eqb_neq in E. congruence.
Qed.

(* rows of a SparseArray against one operand: the same kernel on every row *)
Lemma mapM_map {A B C} (f : B -> res C) (g : A -> B) l : mapM f (map g l) = mapM (fun x => f (g x)) l.
Proof. induction l as [|x l IH]; cbn; auto. now rewrite IH. Qed.
Lemma mapM_okF {A} (k : A -> res cells) rows : mapM (fun c => okF (k c)) rows = (do l <- mapM k rows; Ok (map VF l)).
Proof.
  induction rows as [|c rows IH]; cbn; auto. destruct (k c); cbn; auto. rewrite IH. destruct (mapM k rows); reflexivity.
Qed.
Lemma all_F_VF l : all_F (map VF l) = Some l.
Proof. induction l; cbn; auto. now rewrite IHl. Qed.
Lemma obj_of_rows_VF l : obj_of_rows (map VF l) = Ok (OA l false).
Proof. unfold obj_of_rows. now rewrite all_F_VF. Qed.
(* the operand kinds of the lift: sparse vector, scalar, list *)
Definition rowk (a : aop) (p : operand) (c : cells) : res cells := vcells (vec_bin false (BA a) (VF c) p).
Lemma vec_bin_rowk a c p : match p with PV _ | PS _ _ | PArr _ _ => True | _ => False end ->
  vec_bin false (BA a) (VF c) p = okF (rowk a p c).
Proof. intros H. unfold rowk. destruct p; try contradiction; cbn; now rewrite vcells_okF. Qed.
Theorem array_bin_rows a rows p : match p with PV _ | PS _ _ | PArr _ _ => True | _ => False end ->
  array_bin false (BA a) (map VF rows) p = (do l <- mapM (rowk a p) rows; Ok (OA l false)).
Proof.
  intros H. unfold array_bin.
  assert (G : mapM (fun r => vec_bin false (BA a) r p) (map VF rows) = (do l <- mapM (rowk a p) rows; Ok (map VF l))).
  { rewrite mapM_map. rewrite <- mapM_okF. apply mapM_ext. intros c. now apply vec_bin_rowk. }
  destruct p; try contradiction; rewrite G; destruct (mapM _ rows); cbn; auto using obj_of_rows_VF.
Qed.
Theorem array_ibin_rows a rows p : a <> Div -> match p with PV _ | PS _ _ | PArr _ _ => True | _ => False end ->
  array_ibin false (BA a) false (map VF rows) p = (do l <- mapM (rowk a p) rows; Ok (map VF l)).
Proof.
  intros Ha H. unfold array_ibin.
  assert (G : mapM (fun row => vec_ibin false (BA a) false row p) (map VF rows) = (do l <- mapM (rowk a p) rows; Ok (map VF l))).
  { rewrite mapM_map. rewrite <- mapM_okF. apply mapM_ext. intros c. rewrite <- vec_bin_rowk by auto.
    destruct p; try contradiction; cbn [vec_ibin vec_bin]; try reflexivity. now rewrite inplace_eq_binary. }
  destruct p; try contradiction; try exact G.
  assert (F : is_float_rows (map VF rows) = true) by (destruct rows; reflexivity). rewrite F. exact G.
Qed.
(* row-wise refinement: every row refines NumPy's row *)
Theorem rows_refine (k : cells -> res cells) (g : list Q -> res (list Q)) rows rows' :
  (forall c c', Rv c c' -> refines (k c) (g c')) -> Forall2 Rv rows rows' ->
  rrel (Forall2 Rv) (mapM k rows) (mapM g rows').
Proof. intros H Hr. apply (mapM_rrel Rv); auto. Qed.

(* ================================================================== Part 14: copy_like, to_flat_array, from_flat_array *)
(* copying from the object itself, or from the full selection of its own rows, changes nothing *)
Lemma copy_like_self lg s i x : nth_error s i = Some x -> (match x with OV _ _ | OA _ _ => True | _ => False end) ->
  xstep lg s (XOp (OCopyLike i (CObj i))) = (s, RUnit).
Proof.
  intros Hi Hx. unfold xstep. cbn [xstep_res step_res]. unfold getobj. rewrite Hi. cbn [bind].
  destruct x; try contradiction; now rewrite Nat.eqb_refl.
Qed.
Lemma copy_like_view_id rows : forall m k, copy_like_view rows k (seq k m) = Ok rows.
Proof.
  induction m as [|m IH]; intros k; cbn [seq copy_like_view]; auto.
  destruct (Nat.leb (length rows) k); auto. now rewrite Nat.eqb_refl.
Qed.
(* a vector copied from a vector of its size becomes that vector (and nothing else changes: C09_frame) *)
Lemma copy_like_vec_same c d : length d = length c -> copy_like_vec c d = Ok d.
Proof. apply set_open_obj_refines. Qed.
Lemma copy_like_rows_same rows : forall others, Forall2 (fun r o => length o = length r) rows others ->
  copy_like_rows rows others = Ok others.
Proof.
  induction rows as [|r rows IH]; intros others H; inversion H; subst; cbn [copy_like_rows]; auto.
  rewrite copy_like_vec_same by auto. cbn [bind]. rewrite IH by auto. reflexivity.
Qed.
(* to_flat_array: the content of the buffer is irrelevant *)
Lemma to_flat_buffer_irrelevant lg s i b1 b2 : length b1 = length b2 ->
  xstep lg s (XOp (OToFlat i (Some b1))) = xstep lg s (XOp (OToFlat i (Some b2))).
Proof. intros L. unfold xstep. cbn [xstep_res step_res]. now rewrite L. Qed.
(* from_flat_array then to_flat_array gives the array back *)
Lemma concat_chunks n : forall k l, length l = (k * n)%nat -> concat (chunks n k l) = l.
Proof.
  induction k as [|k IH]; intros l L; cbn in *.
  - destruct l; [reflexivity|discriminate].
  - rewrite IH; [apply firstn_skipn|]. rewrite skipn_length. lia.
Qed.
Lemma dense_of_dense_rows m : Forall2 Qeq (concat (map dense (map of_dense m))) (concat m).
Proof. induction m as [|r m IH]; cbn; [constructor|]. apply Forall2_app; auto. apply dense_of_dense. Qed.
Theorem flat_round_trip n k l : length l = (k * n)%nat ->
  Forall2 Qeq (concat (map dense (map of_dense (chunks n k l)))) l /\ Forall wf (map of_dense (chunks n k l)).
Proof.
  intros L. split; [|apply Forall_wf_of_dense]. rewrite <- (concat_chunks n k l L) at 2. apply dense_of_dense_rows.
Qed.

Lemma Forall2_conj {A B} (R : A -> B -> Prop) (P : A -> Prop) l l' :
  Forall2 R l l' -> Forall P l -> Forall2 (fun x y => R x y /\ P x) l l'.
Proof. intros H. induction H; intros HP; inversion HP; subst; constructor; auto. Qed.

(* ================================================================== Part 11b: SparseArray with SparseArray (same shape, one-row broadcast) *)
Lemma map2M_map {A A' B B' C} (f : A' -> B' -> res C) (g : A -> A') (h : B -> B') a b :
  map2M f (map g a) (map h b) = map2M (fun x y => f (g x) (h y)) a b.
Proof. revert b. induction a as [|x a IH]; intros [|y b]; cbn; auto. now rewrite IH. Qed.
Lemma map2M_okF {A B} (k : A -> B -> res cells) a b :
  map2M (fun x y => okF (k x y)) a b = (do l <- map2M k a b; Ok (map VF l)).
Proof.
  revert b. induction a as [|x a IH]; intros [|y b]; cbn; auto. destruct (k x y); cbn; auto.
  rewrite IH. destruct (map2M k a b); reflexivity.
Qed.
(* the three row pairings of sparse_array_math: one row on the left, one row on the right, zip *)
Definition pair_rows {A B C} (f : A -> B -> res C) (rows : list A) (rows2 : list B) : res (list C) :=
  match rows, rows2 with
  | [row], _ => mapM (f row) rows2
  | _, [x] => mapM (fun r => f r x) rows
  | _, _ => map2M f rows rows2
  end.
Section AA.
  Variable a : aop.
  Let k := k_sparse false a.
  Lemma aa_left r l : (do z <- mapM (fun x => vec_bin false (BA a) (VF r) x) (map PV l); obj_of_rows z) = (do z <- mapM (k r) l; Ok (OA z false)).
  Proof. rewrite mapM_map. rewrite (mapM_ext _ (fun x => okF (k r x))) by reflexivity. rewrite (mapM_okF (k r) l).
         destruct (mapM (k r) l); cbn; auto using obj_of_rows_VF. Qed.
  Lemma aa_right x l : (do z <- mapM (fun r => vec_bin false (BA a) r (PV x)) (map VF l); obj_of_rows z) = (do z <- mapM (fun r => k r x) l; Ok (OA z false)).
  Proof. rewrite mapM_map. rewrite (mapM_ext _ (fun r => okF (k r x))) by reflexivity. rewrite (mapM_okF (fun r => k r x) l). destruct (mapM (fun r => k r x) l); cbn; auto using obj_of_rows_VF. Qed.
  Lemma aa_zip l l2 : (do z <- map2M (fun r x => vec_bin false (BA a) r x) (map VF l) (map PV l2); obj_of_rows z) = (do z <- map2M k l l2; Ok (OA z false)).
  Proof. rewrite map2M_map. rewrite (map2M_ext _ (fun r x => okF (k r x))) by reflexivity. rewrite (map2M_okF k l l2). destruct (map2M k l l2); cbn; auto using obj_of_rows_VF. Qed.
  Theorem array_bin_aa rows rows2 :
    array_bin false (BA a) (map VF rows) (PA rows2) = (do l <- pair_rows k rows rows2; Ok (OA l false)).
  Proof.
    unfold array_bin, pair_rows.
    destruct rows as [|r [|r2 rows]]; destruct rows2 as [|x [|x2 rows2]]; cbn [map];
      repeat match goal with
             | |- context [?c ?y :: map ?c ?l] => change (c y :: map c l) with (map c (y :: l))
             end;
      try reflexivity.
    all: try (change [VF r] with (map VF [r])); try (change [PV x] with (map PV [x])).
    all: first [apply aa_left | apply aa_right | apply aa_zip | idtac].
  Qed.
End AA.

(* rows against rows refine NumPy's 2-d broadcasting when the numbers of rows agree or one side has a single row *)
Definition Rvn (y : cells) (y' : list Q) : Prop := Rv y y' /\ y <> [].
Lemma Forall2_Rvn_length rows2 m2 : Forall2 Rvn rows2 m2 -> length rows2 = length m2.
Proof. intros H. induction H; cbn; auto. Qed.
Lemma Forall2_length {A B} (R : A -> B -> Prop) l l' : Forall2 R l l' -> length l = length l'.
Proof. intros H. induction H; cbn; auto. Qed.
Theorem pair_rows_refines a rows m rows2 m2 : a <> Div -> Forall2 Rv rows m -> Forall2 Rvn rows2 m2 ->
  (length rows = length rows2 \/ length rows = 1%nat \/ length rows2 = 1%nat) ->
  rrel (Forall2 Rv) (pair_rows (k_sparse false a) rows rows2) (np_arith22 a m m2).
Proof.
  intros Ha Hr Hr2 Hsh.
  assert (P : forall x x' y y', Rv x x' -> Rvn y y' -> rrel Rv (k_sparse false a x y) (np_arith a x' y')).
  { intros x x' y y' Hx [Hy Hn]. apply arith_sparse_refines; auto. }
  unfold np_arith22, np_bcast_rows. rewrite <- (Forall2_length _ _ _ Hr), <- (Forall2_length _ _ _ Hr2).
  destruct Hr as [|r r' rows m Hr0 Hr]; [|destruct Hr as [|r1 r1' rows m Hr1 Hr]].
  - (* no row on the left *)
    destruct Hr2 as [|x x' rows2 m2 Hx Hr2]; cbn; [constructor|].
    destruct Hr2 as [|x1 x1' rows2 m2 Hx1 Hr2]; cbn; [constructor|].
    destruct Hsh as [H|[H|H]]; cbn in H; discriminate.
  - (* one row on the left *)
    unfold pair_rows. cbn [length hd].
    assert (G : rrel (Forall2 Rv) (mapM (k_sparse false a r) rows2) (mapM (np_arith a r') m2)).
    { apply (mapM_rrel Rvn); auto. }
    destruct Hr2 as [|x x' rows2 m2 Hx Hr2]; [cbn; constructor|].
    destruct Hr2 as [|x1 x1' rows2 m2 Hx1 Hr2]; [|exact G].
    cbn in *. destruct (k_sparse false a r x), (np_arith a r' x'); cbn in *; auto.
  - (* several rows on the left *)
    unfold pair_rows.
    assert (GR : Forall2 Rv (r :: r1 :: rows) (r' :: r1' :: m)) by (repeat constructor; auto).
    destruct Hr2 as [|x x' rows2 m2 Hx Hr2].
    + destruct Hsh as [H|[H|H]]; cbn in H; discriminate.
    + destruct Hr2 as [|x1 x1' rows2 m2 Hx1 Hr2].
      * cbn [length hd Nat.eqb]. apply (mapM_rrel Rv); auto; intros; now apply P.
      * assert (L : length rows = length rows2) by (destruct Hsh as [H|[H|H]]; cbn in H; try discriminate; lia).
        cbn [length]. rewrite L, !Nat.eqb_refl.
        apply (map2M_rrel Rv Rvn); auto; repeat constructor; auto.
Qed.
Lemma map2M_map_l {A A' B C} (f : A' -> B -> res C) (g : A -> A') a b :
  map2M f (map g a) b = map2M (fun x y => f (g x) y) a b.
Proof. revert b. induction a as [|x a IH]; intros [|y b]; cbn; auto. now rewrite IH. Qed.
(* in-place: sparse_array_imath *)
Definition ipair_rows {A B C} (f : A -> B -> res C) (rows : list A) (rows2 : list B) : res (list C) :=
  match rows2 with [x] => mapM (fun r => f r x) rows | _ => map2M f rows rows2 end.
Theorem array_ibin_aa a rows rows2 :
  array_ibin false (BA a) false (map VF rows) (PA rows2) = (do l <- ipair_rows (k_sparse false a) rows rows2; Ok (map VF l)).
Proof.
  unfold array_ibin, ipair_rows.
  assert (F : is_float_rows (map VF rows) = true) by (destruct rows; reflexivity). rewrite F. cbn [negb].
  destruct rows2 as [|x [|x2 rows2]].
  - rewrite map2M_map_l. destruct rows; reflexivity.
  - rewrite mapM_map. rewrite (mapM_ext _ (fun r => okF (k_sparse false a r x))) by (intros; cbn [vec_ibin]; now rewrite inplace_eq_binary).
    apply mapM_okF.
  - rewrite map2M_map_l.
    rewrite (map2M_ext _ (fun r y => okF (k_sparse false a r y))) by (intros; cbn [vec_ibin]; now rewrite inplace_eq_binary).
    apply map2M_okF.
Qed.
Theorem ipair_rows_refines a rows m rows2 m2 n : a <> Div -> Forall2 Rv rows m -> Forall2 Rvn rows2 m2 ->
  Forall (fun r => length r = n) rows -> Forall (fun r => length r = n \/ length r = 1%nat) rows2 ->
  (length rows2 = length rows \/ length rows2 = 1%nat) ->
  rrel (Forall2 Rv) (ipair_rows (k_sparse false a) rows rows2) (np_iarith22 a m m2).
Proof.
  intros Ha Hr Hr2 Hn Hn2 Hsh.
  assert (P : forall x x' y y', (Rv x x' /\ length x = n) -> (Rvn y y' /\ (length y = n \/ length y = 1%nat)) ->
               rrel Rv (k_sparse false a x y) (np_iarith a x' y')).
  { intros x x' y y' [Hx Lx] [[Hy Hne] Ly]. rewrite np_iarith_binary.
    - apply arith_sparse_refines; auto.
    - rewrite <- (Rv_length _ _ Hx), <- (Rv_length _ _ Hy). destruct Ly; [left|right]; congruence. }
  assert (R1 : Forall2 (fun x x' => Rv x x' /\ length x = n) rows m) by (apply Forall2_conj; auto).
  assert (R2 : Forall2 (fun y y' => Rvn y y' /\ (length y = n \/ length y = 1%nat)) rows2 m2) by (apply Forall2_conj; auto).
  unfold np_iarith22, ipair_rows. rewrite <- (Forall2_length _ _ _ Hr), <- (Forall2_length _ _ _ Hr2).
  destruct R2 as [|x x' rows2 m2 Hx R2]; [|destruct R2 as [|x1 x1' rows2 m2 Hx1 R2]].
  - destruct Hsh as [H|H]; [|discriminate]. cbn in H. rewrite <- H. cbn.
    destruct R1; [constructor|discriminate].
  - cbn [length hd]. destruct (Nat.eqb (length rows) 1) eqn:E1.
    + destruct R1 as [|r r' rows m Hrr R1]; [discriminate|]. destruct R1; [|discriminate]. cbn.
      pose proof (P r r' x x' Hrr Hx) as G. destruct (k_sparse false a r x), (np_iarith a r' x'); cbn in *; auto.
    + cbn [Nat.eqb]. eapply mapM_rrel; [|exact R1]. cbn. intros; now apply P.
  - assert (L : length rows = S (S (length rows2))) by (destruct Hsh as [H|H]; cbn in H; [lia|discriminate]).
    cbn [length]. rewrite L, Nat.eqb_refl.
    apply (map2M_rrel (fun x x' => Rv x x' /\ length x = n)
                      (fun y y' => Rvn y y' /\ (length y = n \/ length y = 1%nat)) Rv);
      [intros; now apply P | exact R1 | constructor; [exact Hx|constructor; [exact Hx1|exact R2]]].
Qed.

(* ================================================================== Part 12: histories refine NumPy histories (vectors, logical vectors, row-wise arrays) *)
Inductive fop (s : store) : xop -> Prop :=
| F_bin a i x c ro : a <> Div -> nth_error s i = Some (OV c ro) -> okarg s c x -> fop s (XOp (OBin (BA a) i x))
| F_ibin a i x c ro : a <> Div -> nth_error s i = Some (OV c ro) -> okarg s c x ->
    (* the result has the shape of the target (NumPy's rule for in-place operators) *)
    (forall p, resolve s x = Ok p ->
       match p with PV e => length e = length c \/ length e = 1%nat | PArr l _ => length l = length c | _ => True end) ->
    fop s (XOp (OIBin (BA a) i x))
| F_abin a i x rows ro : a <> Div -> nth_error s i = Some (OA rows ro) -> rows <> [] ->
    Forall (fun c => okarg s c x) rows -> fop s (XOp (OBin (BA a) i x))
| F_aibin a i x rows : a <> Div -> nth_error s i = Some (OA rows false) -> rows <> [] ->
    Forall (fun c => okarg s c x) rows ->
    (forall p, resolve s x = Ok p ->
       Forall (fun c => match p with PV e => length e = length c \/ length e = 1%nat | PArr l _ => length l = length c | _ => True end) rows) ->
    fop s (XOp (OIBin (BA a) i x))
| F_lbin bo lo i j b b2 : lop_of_bop bo = Some lo -> lo <> LDiv -> nth_error s i = Some (OL b) -> nth_error s j = Some (OL b2) ->
    (length b = 1%nat -> b2 <> []) -> fop s (XOp (OBin bo i (AObj j)))
| F_libin bo lo i j b b2 : lop_of_bop bo = Some lo -> lo <> LDiv -> nth_error s i = Some (OL b) -> nth_error s j = Some (OL b2) ->
    (length b2 = length b \/ length b2 = 1%nat) -> fop s (XOp (OIBin bo i (AObj j)))
| F_neg i c ro : nth_error s i = Some (OV c ro) -> fop s (XOp (ONeg i))
| F_abs i c ro : nth_error s i = Some (OV c ro) -> fop s (XOp (OAbs i))
| F_copy i c ro : nth_error s i = Some (OV c ro) -> fop s (XOp (OCopy i))
| F_clear i c ro : nth_error s i = Some (OV c ro) -> fop s (XOp (OClear i))
| F_setro i c ro : nth_error s i = Some (OV c ro) -> fop s (XOp (OSetRO i))
| F_copylike i j c d ro : nth_error s i = Some (OV c false) -> nth_error s j = Some (OV d ro) -> length d = length c ->
    fop s (XOp (OCopyLike i (CObj j)))
| F_aabin a i j rows ro rows2 ro2 : a <> Div -> nth_error s i = Some (OA rows ro) -> nth_error s j = Some (OA rows2 ro2) ->
    Forall (fun r => r <> []) rows2 ->
    (length rows = length rows2 \/ length rows = 1%nat \/ length rows2 = 1%nat) ->
    fop s (XOp (OBin (BA a) i (AObj j)))
| F_aaibin a i j rows rows2 ro2 n : a <> Div -> nth_error s i = Some (OA rows false) -> nth_error s j = Some (OA rows2 ro2) ->
    j <> i -> Forall (fun r => r <> []) rows2 ->
    Forall (fun r => length r = n) rows -> Forall (fun r => length r = n \/ length r = 1%nat) rows2 ->
    (length rows2 = length rows \/ length rows2 = 1%nat) ->
    fop s (XOp (OIBin (BA a) i (AObj j)))
| F_conv cv i c ro : nth_error s i = Some (OV c ro) -> cv = CIdent \/ cv = CCopy -> fop s (XOp (OConv cv i))
| F_cmp m i x c ro : nth_error s i = Some (OV c ro) -> okarg s c x -> fop s (XOp (OBin (BC m) i x))
| F_get i ix c ro : nth_error s i = Some (OV c ro) -> valid_index (length c) ix -> fop s (XOp (OGet i ix))
| F_set_scalar i ix q c : nth_error s i = Some (OV c false) -> valid_index (length c) ix -> fop s (XOp (OSet i ix (AScal q)))
| F_set_values i ix l c : nth_error s i = Some (OV c false) -> valid_index (length c) ix ->
    match ix with IList _ | IMask _ | ISlice _ _ _ => True | _ => False end ->
    length l = length (index_list (length c) ix) -> (2 <= length l)%nat -> fop s (XOp (OSet i ix (AArr l)))
| F_red r i axis keep c ro : nth_error s i = Some (OV c ro) -> c <> [] -> axis = None \/ axis = Some O ->
    fop s (XOp (ORed r i axis keep)).

Lemma np_arith_err a v w e : a <> Div -> np_arith a v w = Err e -> e = EValue.
Proof.
  intros Ha. unfold np_arith, np_bcast.
  rewrite (map2M_ext _ (fun x y => Ok (qop a x y))) by (intros; now apply aop_q_pure).
  rewrite (mapM_ext (aop_q a (hd 0 v)) (fun y => Ok (qop a (hd 0 v) y))) by (intros; now apply aop_q_pure).
  rewrite (mapM_ext (fun x => aop_q a x (hd 0 w)) (fun x => Ok (qop a x (hd 0 w)))) by (intros; now apply aop_q_pure).
  rewrite map2M_pure, !mapM_pure.
  destruct (Nat.eqb (length v) (length w)); [discriminate|].
  destruct (Nat.eqb (length v) 1); [discriminate|].
  destruct (Nat.eqb (length w) 1); [discriminate|]. congruence.
Qed.


(* ---- the array and logical cases of the simulation step ---- *)
Definition pkind (p : operand) : Prop := match p with PV _ | PS _ _ | PArr _ _ => True | _ => False end.
Lemma resolve_frag s c x p : okarg s c x -> resolve s x = Ok p -> pkind p.
Proof.
  intros Hx R. destruct x as [j| | |l| | |]; cbn in Hx, R; try contradiction; try (inversion R; exact I).
  - unfold getobj in R. destruct Hx as (e & ro2 & Ej & _). rewrite Ej in R. inversion R; exact I.
  - inversion R. unfold reduce1. destruct l as [|? [|? ?]]; exact I.
Qed.
Lemma mapM_err_in {A B} (g : A -> res B) l e : mapM g l = Err e -> exists x, In x l /\ g x = Err e.
Proof.
  induction l as [|x l IH]; cbn; [discriminate|]. destruct (g x) eqn:G.
  - destruct (mapM g l); [discriminate|]. intros H. inversion H; subst. destruct (IH eq_refl) as (y & ? & ?). exists y. split; auto.
  - intros H. inversion H; subst. exists x. split; auto.
Qed.
(* what an operation returns, related to what NumPy returns *)
Definition orel (r : outcome) (r' : doutcome) : Prop :=
  match r, r' with
  | RErr e, DErr e' => e = e'
  | RNew o, DNew o' => osim o o'
  | RUnit, DUpd _ => True
  | RSelf, DSelf => True
  | RScal q, DScal q' => q == q'
  | RBool b, DBool b' => b = b'
  | RDense l, DDense l' => Forall2 Qeq l l'
  | RDenseB l, DDenseB l' => l = l'
  | _, _ => False
  end.
Definition good (s : store) (d : dstore) (o : xop) : Prop :=
  sim (fst (xstep false s o)) (fst (np_step d o)) /\ crashed (snd (xstep false s o)) = false /\
  orel (snd (xstep false s o)) (snd (np_step d o)).

Lemma rows_arg_refines s d a x rows m : sim s d -> a <> Div -> rows <> [] -> Forall2 Rv rows m ->
  Forall (fun c => okarg s c x) rows ->
  exists p w, resolve s x = Ok p /\ darg d x = Some w /\ pkind p /\
    Forall2 (fun c c' => Rv c c' /\ refines (rowk a p c) (np_arith a c' w) /\
                         match p with PV e => length e = length w | PS _ _ => length w = 1%nat | PArr l _ => length l = length w | _ => False end) rows m.
Proof.
  intros Hs Ha Hne Hr Hok. destruct Hr as [|c0 m0 rows0 ms Hc0 Hr0]; [congruence|].
  inversion Hok as [|? ? Hx0 Hok0]; subst.
  destruct (arg_refines s d a c0 m0 x Hs Ha Hc0 Hx0) as (p & w & R & D & Href & _ & Hlen).
  exists p, w. repeat split; auto; [eapply resolve_frag; eauto|].
  assert (G : forall c c', Rv c c' -> okarg s c x ->
                 Rv c c' /\ refines (rowk a p c) (np_arith a c' w) /\
                 match p with PV e => length e = length w | PS _ _ => length w = 1%nat | PArr l _ => length l = length w | _ => False end).
  { intros c c' Hc Hx. destruct (arg_refines s d a c c' x Hs Ha Hc Hx) as (p' & w' & R' & D' & Href' & _ & Hlen').
    rewrite R in R'. inversion R'; subst p'. rewrite D in D'. inversion D'; subst w'. repeat split; auto. }
  constructor; [apply G; auto|].
  clear -G Hr0 Hok0. induction Hr0; inversion Hok0; subst; constructor; auto.
Qed.
Lemma np_arith2_err a m w e : a <> Div -> np_arith2 a m w = Err e -> e = EValue.
Proof. intros Ha H. apply mapM_err_in in H as (r & _ & Hr). eapply np_arith_err; eauto. Qed.

Lemma step_sim_abin s d a i x rows ro : sim s d -> a <> Div -> nth_error s i = Some (OA rows ro) -> rows <> [] ->
  Forall (fun c => okarg s c x) rows -> good s d (XOp (OBin (BA a) i x)).
Proof.
  intros Hs Ha Ei Hne Hok. destruct (sim_nth _ _ _ _ Hs Ei) as (o' & Ei' & Hoo).
  destruct o' as [| |m ro'|]; cbn in Hoo; try contradiction. destruct Hoo as [Hrm <-].
  destruct (rows_arg_refines s d a x rows m Hs Ha Hne Hrm Hok) as (p & w & R & D & P & F).
  unfold good, xstep. cbn [xstep_res step_res np_step]. unfold getobj. rewrite Ei, Ei', R, D. cbn [bind vec_of_obj rows_of].
  rewrite array_bin_rows by exact P.
  assert (RR : rrel (Forall2 Rv) (mapM (rowk a p) rows) (np_arith2 a m w)).
  { unfold np_arith2. eapply mapM_rrel; [|exact F]. cbn. intros c c' (_ & H & _). exact H. }
  destruct (mapM (rowk a p) rows) as [l|e] eqn:M; destruct (np_arith2 a m w) as [r'|e'] eqn:N; cbn in RR; try contradiction; cbn.
  - split; [apply sim_app; auto; cbn; auto|split; [reflexivity|cbn; auto]].
  - subst. split; [auto|split; [now rewrite (np_arith2_err _ _ _ _ Ha N)|reflexivity]].
Qed.
Lemma with_rows_VF rows ro l : with_rows (OA rows ro) (map VF l) = Ok (OA l ro).
Proof. cbn. now rewrite all_F_VF. Qed.
Lemma step_sim_aibin s d a i x rows : sim s d -> a <> Div -> nth_error s i = Some (OA rows false) -> rows <> [] ->
  Forall (fun c => okarg s c x) rows ->
  (forall p, resolve s x = Ok p ->
     Forall (fun c => match p with PV e => length e = length c \/ length e = 1%nat | PArr l _ => length l = length c | _ => True end) rows) ->
  good s d (XOp (OIBin (BA a) i x)).
Proof.
  intros Hs Ha Ei Hne Hok Hsh. destruct (sim_nth _ _ _ _ Hs Ei) as (o' & Ei' & Hoo).
  destruct o' as [| |m ro'|]; cbn in Hoo; try contradiction. destruct Hoo as [Hrm <-].
  destruct (rows_arg_refines s d a x rows m Hs Ha Hne Hrm Hok) as (p & w & R & D & P & F).
  specialize (Hsh p R).
  assert (Al : alias_of x i = false).
  { destruct x as [j| | | | | |]; cbn; auto. apply Nat.eqb_neq. intros ->.
    destruct rows as [|c0 rows0]; [congruence|]. inversion Hok; subst. cbn in H1. destruct H1 as (e & r2 & Ej & _). congruence. }
  unfold good, xstep. cbn [xstep_res step_res np_step]. unfold getobj. rewrite Ei, Ei', R, D. cbn [bind vec_of_obj rows_of]. rewrite Al.
  rewrite array_ibin_rows by auto.
  assert (RR : rrel (Forall2 Rv) (mapM (rowk a p) rows) (np_iarith2 a m w)).
  { unfold np_iarith2. eapply mapM_rrel; [|exact (Forall2_conj _ _ _ _ F Hsh)]. cbn. intros c c' ((Hc & H & Hl) & Hs').
    rewrite np_iarith_binary; auto. rewrite <- (Rv_length _ _ Hc). destruct p; try contradiction.
    - rewrite <- Hl. destruct Hs'; auto.
    - now right.
    - left. now rewrite <- Hl. }
  assert (E2 : forall e, np_iarith2 a m w = Err e -> e = EValue).
  { intros e H. apply mapM_err_in in H as (r & _ & Hr). unfold np_iarith, np_ibcast in Hr.
    rewrite (map2M_ext _ (fun x y => Ok (qop a x y))) in Hr by (intros; now apply aop_q_pure).
    rewrite (mapM_ext (fun x => aop_q a x (hd 0 w)) (fun x => Ok (qop a x (hd 0 w)))) in Hr by (intros; now apply aop_q_pure).
    rewrite map2M_pure, mapM_pure in Hr. destruct (Nat.eqb (length r) (length w)); [discriminate|].
    destruct (Nat.eqb (length w) 1); [discriminate|]. congruence. }
  destruct (mapM (rowk a p) rows) as [l|e] eqn:M; destruct (np_iarith2 a m w) as [r'|e'] eqn:N; cbn in RR; try contradiction; cbn [bind].
  - rewrite with_rows_VF. cbn. split; [apply sim_upd; auto; cbn; auto|split; [reflexivity|exact I]].
  - cbn. subst. split; [auto|split; [now rewrite (E2 _ eq_refl)|reflexivity]].
Qed.

Lemma vb_logic bo lo b d : lop_of_bop bo = Some lo -> vec_bin false bo (VB b) (PL d) = okB (lv_isparse lo b d).
Proof. destruct bo as [[]| |o]; cbn; intros H; inversion H; subst; reflexivity. Qed.
Lemma vb_ilogic bo lo al b d : lop_of_bop bo = Some lo -> vec_ibin false bo al (VB b) (PL d) = okB (lv_isparse lo b d).
Proof. destruct bo as [[]| |o]; cbn; intros H; inversion H; subst; reflexivity. Qed.
Lemma np_logic_err lo a b e : lo <> LDiv -> np_logic lo a b = Err e -> e = EValue.
Proof.
  intros Ho. unfold np_logic, np_bcast.
  rewrite (map2M_ext _ (fun x y => Ok (lopf lo x y))) by (intros; now apply lop_b_pure).
  rewrite (mapM_ext (lop_b lo (hd false a)) (fun y => Ok (lopf lo (hd false a) y))) by (intros; now apply lop_b_pure).
  rewrite (mapM_ext (fun x => lop_b lo x (hd false b)) (fun x => Ok (lopf lo x (hd false b)))) by (intros; now apply lop_b_pure).
  rewrite map2M_pure, !mapM_pure.
  destruct (Nat.eqb (length a) (length b)); [discriminate|].
  destruct (Nat.eqb (length a) 1); [discriminate|].
  destruct (Nat.eqb (length b) 1); [discriminate|]. congruence.
Qed.
Lemma step_sim_lbin s d bo lo i j b b2 : sim s d -> lop_of_bop bo = Some lo -> lo <> LDiv ->
  nth_error s i = Some (OL b) -> nth_error s j = Some (OL b2) -> (length b = 1%nat -> b2 <> []) ->
  good s d (XOp (OBin bo i (AObj j))).
Proof.
  intros Hs Hl Hn Ei Ej Hne.
  destruct (sim_nth _ _ _ _ Hs Ei) as (o' & Ei' & Hoo). destruct o' as [|b'| |]; cbn in Hoo; try contradiction. subst b'.
  destruct (sim_nth _ _ _ _ Hs Ej) as (o2 & Ej' & Hoo2). destruct o2 as [|b2'| |]; cbn in Hoo2; try contradiction. subst b2'.
  assert (NS : match bo with BA Sub => False | _ => True end) by (destruct bo as [[]| |]; cbn in Hl; try discriminate; exact I).
  unfold good, xstep. cbn [xstep_res step_res]. unfold getobj, resolve, getobj. rewrite Ei, Ej. cbn [bind vec_of_obj].
  unfold vector_bin.
  assert (S' : match VB b, bo with VB b0, BA Sub => VF (cells_of_bits b0) | _, _ => VB b end = VB b)
    by (destruct bo as [[]| |]; try contradiction; reflexivity).
  rewrite S'. rewrite (vb_logic _ _ _ _ Hl), (logic_refines lo b b2 Hn Hne).
  assert (NP : np_step d (XOp (OBin bo i (AObj j))) =
               match np_logic lo b b2 with Ok r => (d ++ [DL r], DNew (DL r)) | Err e => (d, DErr e) end).
  { destruct bo as [a| |o]; cbn in Hl; try discriminate; [destruct a; cbn in Hl; try discriminate|];
      inversion Hl; subst; cbn [np_step]; rewrite Ei'; cbn [dargb lop_of_bop]; rewrite ?Ej'; try reflexivity;
      destruct (darg d (AObj j)); reflexivity. }
  rewrite NP. destruct (np_logic lo b b2) as [r|e] eqn:N; cbn.
  - split; [apply sim_app; auto; cbn; auto|split; [reflexivity|cbn; auto]].
  - split; [auto|split; [now rewrite (np_logic_err _ _ _ _ Hn N)|reflexivity]].
Qed.
Lemma step_sim_libin s d bo lo i j b b2 : sim s d -> lop_of_bop bo = Some lo -> lo <> LDiv ->
  nth_error s i = Some (OL b) -> nth_error s j = Some (OL b2) -> (length b2 = length b \/ length b2 = 1%nat) ->
  good s d (XOp (OIBin bo i (AObj j))).
Proof.
  intros Hs Hl Hn Ei Ej Hsh.
  destruct (sim_nth _ _ _ _ Hs Ei) as (o' & Ei' & Hoo). destruct o' as [|b'| |]; cbn in Hoo; try contradiction. subst b'.
  destruct (sim_nth _ _ _ _ Hs Ej) as (o2 & Ej' & Hoo2). destruct o2 as [|b2'| |]; cbn in Hoo2; try contradiction. subst b2'.
  assert (Hne : length b = 1%nat -> b2 <> []) by (intros L ->; cbn in Hsh; destruct Hsh; congruence).
  unfold good, xstep. cbn [xstep_res step_res]. unfold getobj, resolve, getobj. rewrite Ei, Ej. cbn [bind vec_of_obj is_ro].
  assert (XS : (match VB b, bo with
                | VB _, BA Sub => Err EType
                | _, _ => match PL b2 with
                          | PA [r] => do v' <- vec_ibin false bo false (VB b) (PV r); do x' <- with_vec (OL b) v'; Ok (set_obj s i x', RUnit)
                          | PB [r] => do v' <- vec_ibin false bo false (VB b) (PL r); do x' <- with_vec (OL b) v'; Ok (set_obj s i x', RUnit)
                          | PA _ | PB _ => Err EValue
                          | PArr2 _ _ => unsupported
                          | _ => do v' <- vec_ibin false bo (alias_of (AObj j) i) (VB b) (PL b2); do x' <- with_vec (OL b) v'; Ok (set_obj s i x', RUnit)
                          end
                end) = (do r <- np_logic lo b b2; Ok (set_obj s i (OL r), RUnit))).
  { destruct bo as [[]| |o]; cbn in Hl; try discriminate; cbn [vec_ibin]; inversion Hl; subst;
      cbn [lop_of]; rewrite (logic_refines _ b b2 Hn Hne); destruct (np_logic _ b b2); reflexivity. }
  rewrite XS.
  assert (NP : np_step d (XOp (OIBin bo i (AObj j))) =
               match np_ilogic lo b b2 with Ok r => (upd d i (DL r), DUpd (DL r)) | Err e => (d, DErr e) end).
  { destruct bo as [a| |o]; cbn in Hl; try discriminate; [destruct a; cbn in Hl; try discriminate|];
      inversion Hl; subst; cbn [np_step]; rewrite Ei'; cbn [dargb lop_of_bop]; rewrite ?Ej'; try reflexivity;
      destruct (darg d (AObj j)); reflexivity. }
  rewrite NP, np_ilogic_binary by (destruct Hsh; [left|right]; congruence).
  destruct (np_logic lo b b2) as [r|e] eqn:N; cbn.
  - split; [apply sim_upd; auto; cbn; auto|split; [reflexivity|exact I]].
  - split; [auto|split; [now rewrite (np_logic_err _ _ _ _ Hn N)|reflexivity]].
Qed.

(* ---- comparison, indexing and reduction steps on float vectors ---- *)
Definition vbits (r : res vec) : res bits := match r with Ok (VB b) => Ok b | Ok (VF _) => Err EOther | Err e => Err e end.
Lemma vbits_okB r : vbits (okB r) = r.
Proof. destruct r; reflexivity. Qed.
Lemma arg_cmp_refines s d m c v x : sim s d -> Rv c v -> okarg s c x ->
  exists p w, resolve s x = Ok p /\ darg d x = Some w /\ pkind p /\
              rrel eq (vbits (vec_bin false (BC m) (VF c) p)) (np_cmp m v w) /\
              exists r, vec_bin false (BC m) (VF c) p = okB r.
Proof.
  intros Hs Hc Hx. destruct x as [j|q|b|l|l|mm|mm]; cbn in Hx; try contradiction.
  - destruct Hx as (e & ro & Ej & Hne). destruct (sim_nth _ _ _ _ Hs Ej) as (o' & Ej' & Ho).
    destruct o' as [w ro'| | |]; cbn in Ho; try contradiction. destruct Ho as [Hew _].
    exists (PV e), w. split; [cbn; unfold getobj; now rewrite Ej|]. split; [cbn; now rewrite Ej'|]. split; [exact I|].
    cbn [vec_bin]. split; [|eauto]. rewrite vbits_okB. now apply cmp_sparse_refines.
  - exists (PS q false), [q]. split; [reflexivity|]. split; [reflexivity|]. split; [exact I|].
    cbn [vec_bin]. split; [|eauto]. rewrite vbits_okB. apply cmp_scalar_refines; auto. reflexivity.
  - destruct l as [|x [|y l]]; [congruence| |].
    + exists (PS x false), [x]. split; [reflexivity|]. split; [reflexivity|]. split; [exact I|].
      cbn [vec_bin]. split; [|eauto]. rewrite vbits_okB. apply cmp_scalar_refines; auto. reflexivity.
    + exists (PArr (x :: y :: l) false), (x :: y :: l). split; [reflexivity|]. split; [reflexivity|]. split; [exact I|].
      cbn [vec_bin]. split; [|eauto]. rewrite vbits_okB. apply cmp_array_refines; auto using Forall2_Qeq_refl; cbn; congruence.
Qed.
Lemma step_sim_cmp s d m i x c ro : sim s d -> nth_error s i = Some (OV c ro) -> okarg s c x ->
  good s d (XOp (OBin (BC m) i x)).
Proof.
  intros Hs Ei Hx. destruct (sim_nth _ _ _ _ Hs Ei) as (o' & Ei' & Hoo).
  destruct o' as [v ro'| | |]; cbn in Hoo; try contradiction. destruct Hoo as [Hcv <-].
  destruct (arg_cmp_refines s d m c v x Hs Hcv Hx) as (p & w & R & D & P & Href & (rb & Eb)).
  unfold good, xstep. cbn [xstep_res step_res np_step]. unfold getobj. rewrite Ei, Ei', R, D. cbn [bind vec_of_obj].
  unfold vector_bin. rewrite Eb in Href. rewrite vbits_okB in Href.
  destruct p; try contradiction; rewrite Eb;
    (destruct rb as [b|e]; destruct (np_cmp m v w) as [b'|e'] eqn:N; cbn in Href; try contradiction; cbn;
     [subst; split; [apply sim_app; auto; cbn; auto|split; [reflexivity|cbn; auto]]
     |subst; split; [auto|split; [|reflexivity]]]).
  all: unfold np_cmp, np_bcast in N; rewrite map2M_pure, !mapM_pure in N;
    destruct (Nat.eqb (length v) (length w)); [discriminate|];
    destruct (Nat.eqb (length v) 1); [discriminate|];
    destruct (Nat.eqb (length w) 1); [discriminate|]; inversion N; reflexivity.
Qed.
Lemma step_sim_get s d i ix c ro : sim s d -> nth_error s i = Some (OV c ro) -> valid_index (length c) ix ->
  good s d (XOp (OGet i ix)).
Proof.
  intros Hs Ei Hv. destruct (sim_nth _ _ _ _ Hs Ei) as (o' & Ei' & Hoo).
  destruct o' as [v ro'| | |]; cbn in Hoo; try contradiction. destruct Hoo as [Hcv <-].
  pose proof (Rv_length _ _ Hcv) as L.
  unfold good, xstep. cbn [xstep_res step_res np_step]. unfold getobj. rewrite Ei, Ei'. cbn [bind vec_of_obj].
  destruct (index_list_np (length c) ix Hv) as [NI IR].
  assert (G : forall idx, np_index_list (length v) ix = Ok idx -> Forall (fun i => (i < length c)%nat) idx ->
              idx = index_list (length c) ix ->
              sim s d /\ false = false /\ orel (RDense (map (getc c) idx))
                (dres (do idx0 <- np_index_list (length v) ix; np_take v idx0) DDense)).
  { intros idx E Hi _. rewrite E. cbn [bind]. destruct (get_idx_refines c v idx Hcv Hi) as (r & -> & Hr). cbn. auto. }
  rewrite L in NI.
  destruct ix as [k|k|l|mk|a b cc|]; cbn [vec_get fst snd crashed index_list].
  - destruct (get_int_refines c v k Hcv Hv) as (q & -> & Hq). cbn. auto.
  - destruct (get_int_refines c v k Hcv Hv) as (q & -> & Hq). cbn. auto.
  - apply (G l); auto.
  - apply (G (mask_idx mk)); auto.
  - apply (G (slice_range a b cc)); auto.
  - cbn. auto.
Qed.
Lemma np_put_seq_repeat {A} (q : A) : forall (v pre : list A),
  np_put (pre ++ v) (seq (length pre) (length v)) (repeat q (length v)) = Ok (pre ++ repeat q (length v)).
Proof.
  induction v as [|x v IH]; intros pre; cbn [length seq repeat np_put]; auto.
  assert (Lt : Nat.ltb (length pre) (length (pre ++ x :: v)) = true) by (apply Nat.ltb_lt; rewrite app_length; cbn; lia).
  rewrite Lt.
  assert (U : upd (pre ++ x :: v) (length pre) q = (pre ++ [q]) ++ v).
  { clear. induction pre; cbn; auto. now rewrite IHpre. }
  rewrite U. specialize (IH (pre ++ [q])). rewrite app_length in IH. cbn in IH. rewrite Nat.add_1_r in IH.
  rewrite IH. now rewrite <- app_assoc.
Qed.
Lemma np_setitems_scalar {A} (a : list A) idx q : Forall (fun i => (i < length a)%nat) idx ->
  np_setitems a idx [q] = np_put a idx (repeat q (length idx)).
Proof.
  intros Hi. unfold np_setitems.
  assert (F : forallb (fun i => Nat.ltb i (length a)) idx = true).
  { apply forallb_forall. intros i Hin. apply Nat.ltb_lt. eapply Forall_forall in Hi; eauto. }
  rewrite F. cbn [length]. destruct (Nat.eqb 1 (length idx)) eqn:E; auto.
  apply Nat.eqb_eq in E. rewrite <- E. reflexivity.
Qed.
Lemma step_sim_set_scalar s d i ix q c : sim s d -> nth_error s i = Some (OV c false) -> valid_index (length c) ix ->
  good s d (XOp (OSet i ix (AScal q))).
Proof.
  intros Hs Ei Hv. destruct (sim_nth _ _ _ _ Hs Ei) as (o' & Ei' & Hoo).
  destruct o' as [v ro'| | |]; cbn in Hoo; try contradiction. destruct Hoo as [Hcv <-].
  pose proof (Rv_length _ _ Hcv) as L.
  unfold good, xstep. cbn [xstep_res step_res np_step]. unfold getobj. rewrite Ei, Ei'.
  cbn [bind resolve darg reduce_obj alias_of andb vd2].
  destruct (index_list_np (length c) ix Hv) as [NI IR]. rewrite L in NI.
  assert (Fin : forall r r', Rv r r' ->
            sim (fst (set_obj s i (OV r false), RUnit)) (fst (upd d i (DV r' false), DUpd (DV r' false))) /\
            crashed (snd (set_obj s i (OV r false), RUnit)) = false /\
            orel (snd (set_obj s i (OV r false), RUnit)) (snd (upd d i (DV r' false), DUpd (DV r' false)))).
  { intros r r' H. cbn. split; [apply sim_upd; auto; cbn; auto|split; [reflexivity|exact I]]. }
  assert (G : forall idx, np_index_list (length v) ix = Ok idx -> Forall (fun i => (i < length c)%nat) idx ->
              forall r, set_all c idx q = Ok r -> 
              exists r', (do idx0 <- np_index_list (length v) ix; np_setitems v idx0 [q]) = Ok r' /\ Rv r r').
  { intros idx E Hi r Hr. rewrite E. cbn [bind]. rewrite np_setitems_scalar by (now rewrite <- L).
    destruct (set_all_refines idx c v q q Hcv ltac:(reflexivity) Hi) as (r0 & r' & E0 & P & R & _).
    rewrite Hr in E0. inversion E0; subst. eauto. }
  destruct ix as [k|k|l|mk|a b cc|]; cbn [is_open is_int andb orb vecF_set sval_of bind index_list].
  - destruct (set_int_refines c v k q q Hcv ltac:(reflexivity) Hv) as (r & -> & R & _).
    cbn [bind]. rewrite L in Hv. apply Nat.ltb_lt in Hv. rewrite Hv. now apply Fin.
  - destruct (set_int_refines c v k q q Hcv ltac:(reflexivity) Hv) as (r & -> & R & _).
    cbn [bind]. rewrite L in Hv. apply Nat.ltb_lt in Hv. rewrite Hv. now apply Fin.
  - cbn [set_idx]. destruct (set_all_refines l c v q q Hcv ltac:(reflexivity) IR) as (r & r' & E0 & _).
    rewrite E0. cbn [bind]. destruct (G l NI IR r E0) as (r2 & -> & R2). now apply Fin.
  - cbn [set_idx]. destruct (set_all_refines (mask_idx mk) c v q q Hcv ltac:(reflexivity) IR) as (r & r' & E0 & _).
    rewrite E0. cbn [bind]. destruct (G _ NI IR r E0) as (r2 & -> & R2). now apply Fin.
  - cbn [set_idx]. destruct (set_all_refines (slice_range a b cc) c v q q Hcv ltac:(reflexivity) IR) as (r & r' & E0 & _).
    rewrite E0. cbn [bind]. destruct (G _ NI IR r E0) as (r2 & -> & R2). now apply Fin.
  - destruct (set_open_scalar_refines c v q q Hcv ltac:(reflexivity)) as (r & E0 & R).
    rewrite E0. cbn [bind]. rewrite NI. cbn [bind]. 
    rewrite np_setitems_scalar by (apply Forall_forall; intros j Hj; apply in_seq in Hj; lia).
    cbn [index_list]. rewrite seq_length. pose proof (np_put_seq_repeat q v []) as P. cbn in P. rewrite P.
    apply Fin. replace (repeat q (length v)) with (map (fun _ => q) v); auto.
    clear. induction v; cbn; congruence.
Qed.
Lemma step_sim_set_values s d i ix l c : sim s d -> nth_error s i = Some (OV c false) -> valid_index (length c) ix ->
  match ix with IList _ | IMask _ | ISlice _ _ _ => True | _ => False end ->
  length l = length (index_list (length c) ix) -> (2 <= length l)%nat ->
  good s d (XOp (OSet i ix (AArr l))).
Proof.
  intros Hs Ei Hv Hk Hl H2. destruct (sim_nth _ _ _ _ Hs Ei) as (o' & Ei' & Hoo).
  destruct o' as [v ro'| | |]; cbn in Hoo; try contradiction. destruct Hoo as [Hcv <-].
  pose proof (Rv_length _ _ Hcv) as L.
  assert (R1 : reduce1 l false = PArr l false) by (destruct l as [|? [|? ?]]; cbn in H2; try lia; reflexivity).
  unfold good, xstep. cbn [xstep_res step_res np_step]. unfold getobj. rewrite Ei, Ei'.
  cbn [bind resolve darg alias_of andb]. rewrite R1. cbn [reduce_obj vd2 andb].
  destruct (index_list_np (length c) ix Hv) as [NI IR].
  destruct (set_zip_refines (index_list (length c) ix) c v l l Hcv (Forall2_Qeq_refl l) IR) as (r & r' & E0 & P & R & _).
  assert (E1 : vecF_set c ix (PArr l false) = Ok r).
  { unfold vecF_set. cbn [sval_of bind]. destruct ix; cbn in Hk; try contradiction; exact E0. }
  assert (E2 : (do idx <- np_index_list (length v) ix; np_setitems v idx l) = Ok r').
  { rewrite <- L, NI. cbn [bind]. rewrite np_setitems_put; [exact P|now rewrite <- L|exact Hl]. }
  destruct ix; cbn in Hk; try contradiction; cbn [is_open is_int andb]; rewrite E1; cbn [bind]; rewrite E2; cbn;
    (split; [apply sim_upd; auto; cbn; auto|split; [reflexivity|exact I]]).
Qed.
Lemma step_sim_red s d r i axis keep c ro : sim s d -> nth_error s i = Some (OV c ro) -> c <> [] ->
  axis = None \/ axis = Some O -> good s d (XOp (ORed r i axis keep)).
Proof.
  intros Hs Ei Hne Hax. destruct (sim_nth _ _ _ _ Hs Ei) as (o' & Ei' & Hoo).
  destruct o' as [v ro'| | |]; cbn in Hoo; try contradiction. destruct Hoo as [Hcv <-].
  unfold good, xstep. cbn [xstep_res step_res np_step]. unfold getobj. rewrite Ei, Ei'. cbn [bind].
  assert (A : match axis with None | Some O => red_vecF r c keep | _ => RErr EValue end = red_vecF r c keep)
    by (destruct Hax; subst; reflexivity).
  rewrite A.
  destruct (mean_refines c v Hcv Hne) as (qm & Em & Hm).
  destruct (max_refines c v Hcv Hne) as (mx & mx' & Emx & Emx' & Hmx).
  destruct (min_refines c v Hcv Hne) as (mn & mn' & Emn & Emn' & Hmn).
  pose proof (any_refines c v Hcv) as Ha. pose proof (all_refines c v Hcv) as Hl. pose proof (sum_refines c v Hcv) as Hsum.
  assert (K : forall q q', q == q' -> osim (OV (keep1 q) false) (DV [q'] false)) by (intros; cbn; split; auto; now apply keep1_refines).
  pose proof (K _ _ Hsum) as K1. pose proof (K _ _ Hm) as K2. pose proof (K _ _ Hmx) as K3. pose proof (K _ _ Hmn) as K4.
  cbn in K1, K2, K3, K4.
  unfold red_vecF. destruct Hax; subst axis; destruct r, keep; cbn [fst snd];
    rewrite ?Emx, ?Emn, ?Em, ?Emx', ?Emn'; cbn;
    (split; [first [apply sim_app; auto; cbn; auto; try congruence | exact Hs]|split; [reflexivity|cbn; auto; try congruence]]).
Qed.

(* ---- SparseArray with SparseArray steps ---- *)
Lemma map2M_err_in {A B C} (g : A -> B -> res C) : forall l l2 e, map2M g l l2 = Err e -> exists x y, g x y = Err e.
Proof.
  induction l as [|x l IH]; intros [|y l2] e H; cbn in H; try discriminate. destruct (g x y) eqn:G.
  - destruct (map2M g l l2) eqn:M; [discriminate|]. inversion H; subst. eauto.
  - inversion H; subst. eauto.
Qed.
Lemma np_arith22_err a m m2 e : a <> Div -> np_arith22 a m m2 = Err e -> e = EValue.
Proof.
  intros Ha. unfold np_arith22, np_bcast_rows.
  destruct (Nat.eqb (length m) (length m2)).
  - intros H. apply map2M_err_in in H as (x & y & H). eapply np_arith_err; eauto.
  - destruct (Nat.eqb (length m) 1).
    + intros H. apply mapM_err_in in H as (x & _ & H). eapply np_arith_err; eauto.
    + destruct (Nat.eqb (length m2) 1); [|congruence].
      intros H. apply mapM_err_in in H as (x & _ & H). eapply np_arith_err; eauto.
Qed.
Lemma np_iarith_err a v w e : a <> Div -> np_iarith a v w = Err e -> e = EValue.
Proof.
  intros Ha Hr. unfold np_iarith, np_ibcast in Hr.
  rewrite (map2M_ext _ (fun x y => Ok (qop a x y))) in Hr by (intros; now apply aop_q_pure).
  rewrite (mapM_ext (fun x => aop_q a x (hd 0 w)) (fun x => Ok (qop a x (hd 0 w)))) in Hr by (intros; now apply aop_q_pure).
  rewrite map2M_pure, mapM_pure in Hr. destruct (Nat.eqb (length v) (length w)); [discriminate|].
  destruct (Nat.eqb (length w) 1); [discriminate|]. congruence.
Qed.
Lemma np_iarith22_err a m m2 e : a <> Div -> np_iarith22 a m m2 = Err e -> e = EValue.
Proof.
  intros Ha. unfold np_iarith22.
  destruct (Nat.eqb (length m) (length m2)).
  - intros H. apply map2M_err_in in H as (x & y & H). eapply np_iarith_err; eauto.
  - destruct (Nat.eqb (length m2) 1); [|congruence].
    intros H. apply mapM_err_in in H as (x & _ & H). eapply np_iarith_err; eauto.
Qed.
Lemma sim_two_arrays s d i j rows ro rows2 ro2 : sim s d -> nth_error s i = Some (OA rows ro) -> nth_error s j = Some (OA rows2 ro2) ->
  Forall (fun r => r <> []) rows2 ->
  exists m m2, nth_error d i = Some (DA m ro) /\ nth_error d j = Some (DA m2 ro2) /\ Forall2 Rv rows m /\ Forall2 Rvn rows2 m2.
Proof.
  intros Hs Ei Ej Hn.
  destruct (sim_nth _ _ _ _ Hs Ei) as (o' & Ei' & Hoo). destruct o' as [| |m ro'|]; cbn in Hoo; try contradiction. destruct Hoo as [Hrm <-].
  destruct (sim_nth _ _ _ _ Hs Ej) as (o2 & Ej' & Hoo2). destruct o2 as [| |m2 ro2'|]; cbn in Hoo2; try contradiction. destruct Hoo2 as [Hrm2 <-].
  exists m, m2. repeat split; auto. unfold Rvn. now apply Forall2_conj.
Qed.
Lemma step_sim_aabin2 s d a i j rows ro rows2 ro2 : sim s d -> a <> Div ->
  nth_error s i = Some (OA rows ro) -> nth_error s j = Some (OA rows2 ro2) -> Forall (fun r => r <> []) rows2 ->
  (length rows = length rows2 \/ length rows = 1%nat \/ length rows2 = 1%nat) ->
  good s d (XOp (OBin (BA a) i (AObj j))).
Proof.
  intros Hs Ha Ei Ej Hn Hsh.
  destruct (sim_two_arrays s d i j rows ro rows2 ro2 Hs Ei Ej Hn) as (m & m2 & Ei' & Ej' & Hrm & Hrm2).
  unfold good, xstep. cbn [xstep_res step_res np_step resolve darg darg2]. unfold getobj. rewrite Ei, Ej, Ei', Ej'.
  cbn [bind vec_of_obj rows_of]. rewrite array_bin_aa.
  pose proof (pair_rows_refines a rows m rows2 m2 Ha Hrm Hrm2 Hsh) as RR.
  destruct (pair_rows (k_sparse false a) rows rows2) as [l|e]; destruct (np_arith22 a m m2) as [r'|e'] eqn:N; cbn in RR; try contradiction; cbn.
  - split; [apply sim_app; auto; cbn; auto|split; [reflexivity|cbn; auto]].
  - subst. split; [auto|split; [now rewrite (np_arith22_err _ _ _ _ Ha N)|reflexivity]].
Qed.
Lemma step_sim_aaibin2 s d a i j rows rows2 ro2 n : sim s d -> a <> Div ->
  nth_error s i = Some (OA rows false) -> nth_error s j = Some (OA rows2 ro2) -> j <> i ->
  Forall (fun r => r <> []) rows2 -> Forall (fun r => length r = n) rows ->
  Forall (fun r => length r = n \/ length r = 1%nat) rows2 -> (length rows2 = length rows \/ length rows2 = 1%nat) ->
  good s d (XOp (OIBin (BA a) i (AObj j))).
Proof.
  intros Hs Ha Ei Ej Hji Hn Hl Hl2 Hsh.
  destruct (sim_two_arrays s d i j rows false rows2 ro2 Hs Ei Ej Hn) as (m & m2 & Ei' & Ej' & Hrm & Hrm2).
  assert (Al : Nat.eqb i j = false) by (apply Nat.eqb_neq; congruence).
  unfold good, xstep. cbn [xstep_res step_res np_step resolve darg darg2 alias_of]. unfold getobj. rewrite Ei, Ej, Ei', Ej', Al.
  cbn [bind vec_of_obj rows_of]. rewrite array_ibin_aa.
  pose proof (ipair_rows_refines a rows m rows2 m2 n Ha Hrm Hrm2 Hl Hl2 Hsh) as RR.
  destruct (ipair_rows (k_sparse false a) rows rows2) as [l|e]; destruct (np_iarith22 a m m2) as [r'|e'] eqn:N; cbn in RR; try contradiction; cbn [bind].
  - rewrite with_rows_VF. cbn. split; [apply sim_upd; auto; cbn; auto|split; [reflexivity|exact I]].
  - cbn. subst. split; [auto|split; [now rewrite (np_iarith22_err _ _ _ _ Ha N)|reflexivity]].
Qed.

Lemma step_sim s d o : sim s d -> fop s o -> good s d o.
Proof.
  intros Hs Ho. destruct Ho as [a i x c ro Ha Ei Hx | a i x c ro Ha Ei Hx Hsh
                              | a i x rows ro Ha Ei Hne Hok | a i x rows Ha Ei Hne Hok Hsh
                              | bo lo i j b b2 Hl Hn Ei Ej Hne | bo lo i j b b2 Hl Hn Ei Ej Hsh
                              | i c ro Ei | i c ro Ei | i c ro Ei | i c ro Ei | i c ro Ei | i j c cd rd Ei Ej Hl
                              | a i j rows ro rows2 ro2 Ha Ei Ej Hn Hsh | a i j rows rows2 ro2 n Ha Ei Ej Hji Hn Hl Hl2 Hsh
                              | cv i c ro Ei Hcv
                              | m i x c ro Ei Hx | i ix c ro Ei Hv | i ix q c Ei Hv | i ix l c Ei Hv Hk Hl H2 | r i axis keep c ro Ei Hne Hax].
  13: { eapply step_sim_aabin2; eauto. }
  13: { eapply step_sim_aaibin2; eauto. }
  13: { destruct (sim_nth _ _ _ _ Hs Ei) as (o' & Ei' & Hoo). destruct o' as [v ro'| | |]; cbn in Hoo; try contradiction.
        destruct Hoo as [Hcv' <-].
        unfold good, xstep. cbn [xstep_res step_res np_step]. unfold getobj. rewrite Ei, Ei'. cbn [bind].
        destruct Hcv; subst cv; cbn; [auto|].
        split; [apply sim_app; auto; cbn; auto|split; [reflexivity|cbn; auto]]. }
  13: { eapply step_sim_cmp; eauto. }
  13: { eapply step_sim_get; eauto. }
  13: { eapply step_sim_set_scalar; eauto. }
  13: { eapply step_sim_set_values; eauto. }
  13: { eapply step_sim_red; eauto. }
  3: { eapply step_sim_abin; eauto. }
  3: { eapply step_sim_aibin; eauto. }
  3: { eapply step_sim_lbin; eauto. }
  3: { eapply step_sim_libin; eauto. }
  all: unfold good; destruct (sim_nth _ _ _ _ Hs Ei) as (o' & Ei' & Hoo); destruct o' as [v ro'| | |]; cbn in Hoo; try contradiction;
    destruct Hoo as [Hcv <-].
  - destruct (arg_refines s d a c v x Hs Ha Hcv Hx) as (p & w & R & D & Href & _ & _).
    unfold xstep. cbn [xstep_res step_res np_step]. unfold getobj. rewrite Ei, Ei', R, D. cbn [bind vec_of_obj].
    unfold vector_bin.
    assert (P : match p with PA _ | PB _ | PArr2 _ _ => False | _ => True end).
    { destruct x as [j| | |l| | |]; cbn in R; try contradiction; try (inversion R; exact I).
      - unfold getobj in R. destruct Hx as (e & ro2 & Ej & _). rewrite Ej in R. inversion R; exact I.
      - inversion R. unfold reduce1. destruct l as [|? [|? ?]]; exact I. }
    destruct p; try contradiction;
      (destruct (vec_bin false (BA a) (VF c) _) as [[r|bb]|e] eqn:V; try (apply vec_bin_BA_VF in V as (? & V'); discriminate V'); cbn in Href;
       destruct (np_arith a v w) as [r'|e'] eqn:N; cbn in Href; try contradiction; cbn;
       (split; [auto; try (apply sim_app; auto; cbn; auto) | split; [try reflexivity; subst; now rewrite (np_arith_err _ _ _ _ Ha N) | cbn; auto]])).
  - destruct (arg_refines s d a c v x Hs Ha Hcv Hx) as (p & w & R & D & Href & Hal & Hlen).
    specialize (Hsh p R).
    unfold xstep. cbn [xstep_res step_res np_step]. unfold getobj. rewrite Ei, Ei', R, D. cbn [bind vec_of_obj is_ro].
    destruct ro; [cbn; auto|].
    assert (Hnp : np_iarith a v w = np_arith a v w).
    { apply np_iarith_binary. rewrite <- (Rv_length _ _ Hcv). destruct p; try contradiction; try (right; exact Hlen).
      - rewrite <- Hlen. destruct Hsh as [L|L]; auto.
      - left. now rewrite <- Hlen. }
    rewrite Hnp.
    assert (Hal' : alias_of x i = true -> p = PV c).
    { intros A. destruct x; cbn in A; try discriminate. apply Nat.eqb_eq in A. subst. cbn in R. unfold getobj in R.
      rewrite Ei in R. now inversion R. }
    destruct p; try contradiction;
      (rewrite (Hal _ Hal');
       destruct (vec_bin false (BA a) (VF c) _) as [[r|bb]|e] eqn:V; try (apply vec_bin_BA_VF in V as (? & V'); discriminate V'); cbn in Href;
       destruct (np_arith a v w) as [r'|e'] eqn:N; cbn in Href; try contradiction; cbn;
       (split; [auto; try (apply sim_upd; auto; cbn; auto) | split; [try reflexivity; subst; now rewrite (np_arith_err _ _ _ _ Ha N) | cbn; auto]])).
  - unfold xstep. cbn [xstep_res step_res np_step]. unfold getobj. rewrite Ei, Ei'. cbn.
    pose proof (neg_refines _ _ Hcv). split; [apply sim_app; auto; cbn; auto|split; [reflexivity|cbn; auto]].
  - unfold xstep. cbn [xstep_res step_res np_step]. unfold getobj. rewrite Ei, Ei'. cbn.
    pose proof (abs_refines _ _ Hcv). split; [apply sim_app; auto; cbn; auto|split; [reflexivity|cbn; auto]].
  - unfold xstep. cbn [xstep_res step_res np_step]. unfold getobj. rewrite Ei, Ei'. cbn.
    split; [apply sim_app; auto; cbn; auto|split; [reflexivity|cbn; auto]].
  - unfold xstep. cbn [xstep_res step_res np_step]. unfold getobj. rewrite Ei, Ei'. cbn.
    destruct ro; cbn; auto. pose proof (empty_refines _ _ Hcv).
    split; [apply sim_upd; auto; cbn; auto|split; [reflexivity|exact I]].
  - unfold xstep. cbn [xstep_res step_res np_step]. unfold getobj. rewrite Ei, Ei'. cbn.
    split; [apply sim_upd; auto; cbn; auto|split; [reflexivity|exact I]].
  - destruct (sim_nth _ _ _ _ Hs Ej) as (o2 & Ej' & Hoo2). destruct o2 as [w rw| | |]; cbn in Hoo2; try contradiction.
    destruct Hoo2 as [Hdw _].
    unfold xstep. cbn [xstep_res step_res np_step]. unfold getobj. rewrite Ei, Ei', Ej'. cbn [bind].
    destruct (Nat.eqb j i) eqn:J; [cbn; auto|].
    rewrite Ej. cbn [bind]. rewrite (copy_like_vec_same c cd Hl). cbn [bind].
    assert (L : Nat.eqb (length w) (length v) = true).
    { apply Nat.eqb_eq. now rewrite <- (Rv_length _ _ Hdw), <- (Rv_length _ _ Hcv). }
    rewrite L. cbn. split; [apply sim_upd; auto; cbn; auto|split; [reflexivity|exact I]].
Qed.

(* the lift to every history of fragment operations *)
Inductive frun : store -> list xop -> Prop :=
| frun_nil s : frun s []
| frun_cons s o ops : fop s o -> frun (fst (xstep false s o)) ops -> frun s (o :: ops).
Fixpoint np_run (d : dstore) (ops : list xop) : dstore :=
  match ops with [] => d | o :: t => np_run (fst (np_step d o)) t end.
Fixpoint np_outs (d : dstore) (ops : list xop) : list doutcome :=
  match ops with [] => [] | o :: t => snd (np_step d o) :: np_outs (fst (np_step d o)) t end.
(* final stores AND everything returned on the way are related *)
Theorem history_refines_full ops : forall s d, sim s d -> frun s ops ->
  sim (fst (run false s ops)) (np_run d ops) /\ Forall2 orel (snd (run false s ops)) (np_outs d ops).
Proof.
  induction ops as [|o ops IH]; intros s d Hs Hf; cbn; [split; auto|].
  inversion Hf as [|s0 o0 ops0 Ho Hrest]; subst.
  destruct (step_sim s d o Hs Ho) as (H1 & H2 & H3).
  destruct (xstep false s o) as [s' r]. cbn in *. rewrite H2.
  specialize (IH s' (fst (np_step d o)) H1 Hrest). destruct (run false s' ops). cbn in *.
  destruct IH as [I1 I2]. split; auto.
Qed.
Theorem history_refines ops : forall s d, sim s d -> frun s ops -> sim (fst (run false s ops)) (np_run d ops).
Proof. intros s d Hs Hf. apply (history_refines_full ops s d Hs Hf). Qed.
(* dense images at the end of a history of fragment operations started from constructed vectors *)
Corollary history_dense ops s : store_wf s -> frun s ops ->
  sim (fst (run false s ops)) (np_run (abs_store s) ops).
Proof. intros Hw Hf. apply history_refines; auto. now apply sim_abs. Qed.


Lemma kernels_keep_invariant : forall o a b k l r,
  wf a -> wf b ->
  (k_sparse false o a b = Ok r -> wf r) /\ (ik_sparse false o true a a = Ok r -> wf r) /\
  (k_scalar o a k = Ok r -> wf r) /\ (k_array o a l = Ok r -> wf r) /\
  (rtruediv_scalar a k = Ok r -> wf r) /\ wf (neg_cells a) /\ wf (abs_cells a).
Proof.
  intros o a b k l r Ha Hb. split; [|split; [|split; [|split; [|split; [|split]]]]].
  - now apply k_sparse_wf.
  - now apply ik_sparse_wf.
  - now apply k_scalar_wf.
  - now apply k_array_wf.
  - now apply rtruediv_scalar_wf.
  - now apply neg_cells_wf.
  - now apply abs_cells_wf.
Qed.


(* ================================================================== Part 13: read-only vectors, operator by operator *)
Lemma resolve_total s a : (forall j, a = AObj j -> (j < length s)%nat) -> exists p, resolve s a = Ok p.
Proof.
  intros H. destruct a; cbn; eauto. unfold getobj. specialize (H i eq_refl).
  destruct (nth_error s i) eqn:E; [cbn; eauto|]. apply nth_error_None in E. lia.
Qed.
(* every in-place operator (the check precedes the operator dispatch), clear() and every form of item assignment,
   for every operand kind: scalar, bool, list, ndarray 1-d / 2-d, sparse vector, logical vector, sparse array, itself *)
Lemma readonly_vector_rejects_each lg s i c a :
  nth_error s i = Some (OV c true) -> (forall j, a = AObj j -> (j < length s)%nat) ->
  Forall (fun b => xstep lg s (XOp (OIBin b i a)) = (s, RErr EValue))
         [BA Add; BA Sub; BA Mul; BA Div; BL LAnd; BL LXor; BL LOr] /\
  xstep lg s (XOp (OClear i)) = (s, RErr EValue) /\
  forall ix, xstep lg s (XOp (OSet i ix a)) = (s, RErr EValue).
Proof.
  intros Hi Ha. destruct (resolve_total s a Ha) as (p & R).
  split; [|split].
  - repeat constructor; eapply readonly_vector_rejects; eauto; left; eauto.
  - eapply readonly_vector_rejects; eauto.
  - intros ix. eapply readonly_vector_rejects; eauto. right; right. eauto.
Qed.


(* ================================================================== Part 15: v[index] = v (the vector itself as the value) *)
(* NumPy copies the value first: a[idx] = a puts the OLD a[k] at position idx[k].  The sparse vector iterates over
   itself while it is being written. *)
Definition setitem_self_statement : Prop :=
  forall c idx, wf c -> length idx = length c -> Forall (fun i => (i < length c)%nat) idx ->
    refines (set_zip_lazy c idx 0) (np_put (dense c) idx (dense c)).
Lemma setitem_self_refuted : ~ setitem_self_statement.
Proof.
  intros H. specialize (H [Some 1; Some 2] [1; 0]%nat ltac:(wfv) eq_refl ltac:(repeat constructor)).
  vm_compute in H. inversion H as [|x y l l' [_ Hx] _]; subst. vm_compute in Hx. discriminate Hx.
Qed.
(* it agrees whenever no position is read after it has been written: e.g. the identity selection *)
Lemma set_zip_lazy_id c : forall k, (k <= length c)%nat -> wf c -> set_zip_lazy c (seq k (length c - k)) k = Ok c.
Proof.
  intros k. remember (length c - k)%nat as m eqn:M. revert k M. induction m as [|m IH]; intros k M Hk Hw; cbn [seq set_zip_lazy]; auto.
  assert (L : Nat.ltb k (length c) = true) by (apply Nat.ltb_lt; lia). rewrite L.
  assert (E : set1 c k (getc c k) = Ok c).
  { unfold set1, inb. rewrite L. f_equal. unfold getc.
    clear -Hw L. apply Nat.ltb_lt in L. revert k L. induction Hw as [|x c Hx Hc IHc]; intros [|k] L; cbn in *; try lia.
    - f_equal. destruct x as [v|]; cbn; [|reflexivity]. unfold nz. apply qzerob_false in Hx. now rewrite Hx.
    - f_equal. apply IHc. lia. }
  rewrite E. cbn [bind]. apply IH; auto; lia.
Qed.

(* ================================================================== Part 16: SparseArray reductions along an axis *)
Lemma Rc_nth k : forall r r', Rv r r' -> Rc (nth k r None) (nth k r' 0).
Proof.
  induction k as [|k IH]; intros r r' H; destruct H; cbn; auto; try (split; cbn; auto; reflexivity); try (now apply IH).
Qed.
Lemma column_rel rows m k : Forall2 Rv rows m -> Forall2 Rc (column None rows k) (column 0 m k).
Proof. intros H. unfold column. induction H; cbn; constructor; auto. now apply Rc_nth. Qed.
Lemma columns_rel rows m : Forall2 Rv rows m -> Forall2 (Forall2 Rc) (columns None rows) (columns 0 m).
Proof.
  intros H. unfold columns.
  assert (V : vsize rows = vsize m) by (destruct H; cbn; auto; now apply Rv_length).
  assert (G : forall l, Forall2 (Forall2 Rc) (map (column None rows) l) (map (column 0 m) l)).
  { intros l. induction l; cbn; constructor; auto. now apply column_rel. }
  rewrite <- V. apply G.
Qed.
Lemma column_length {A} (d : A) rows k : length (column d rows k) = length rows.
Proof. unfold column. apply map_length. Qed.
(* one line (a row, or a column given as cells) against its dense image *)
Lemma line_dense col col' : Forall2 Rc col col' -> Forall2 Qeq (map dcell col) col'.
Proof. intros H. induction H as [|x x' c c' [_ Hx] H IH]; cbn; constructor; auto. Qed.
Lemma line_any col col' : Forall2 Rc col col' -> existsb present col = np_any col'.
Proof. intros H. unfold np_any. induction H; cbn; auto. rewrite (present_truthy _ _ H). now rewrite IHForall2. Qed.
Lemma line_all col col' : Forall2 Rc col col' -> forallb present col = np_all col'.
Proof. intros H. unfold np_all. induction H; cbn; auto. rewrite (present_truthy _ _ H). now rewrite IHForall2. Qed.
Lemma line_sum col col' : Forall2 Rc col col' -> Rc (nz (qsum (map dcell col))) (np_sum col').
Proof. intros H. apply Rc_nz. apply qsum_compat. now apply line_dense. Qed.
Lemma line_max col col' : Forall2 Rc col col' -> col <> [] ->
  exists m', np_max col' = Ok m' /\ Rc (nz (qmax_list (map dcell col))) m'.
Proof.
  intros H Hne. pose proof (line_dense _ _ H) as D. destruct H as [|x x' c c' Hx H]; [congruence|].
  cbn. eexists; split; [reflexivity|]. apply Rc_nz.
  eapply isMax_unique; [exact D| |]; apply qmaxl_spec.
Qed.
Lemma line_min col col' : Forall2 Rc col col' -> col <> [] ->
  exists m', np_min col' = Ok m' /\ Rc (nz (qmin_list (map dcell col))) m'.
Proof.
  intros H Hne. pose proof (line_dense _ _ H) as D. destruct H as [|x x' c c' Hx H]; [congruence|].
  cbn. eexists; split; [reflexivity|]. apply Rc_nz.
  eapply isMin_unique; [exact D| |]; apply qminl_spec.
Qed.
Lemma qofnat_nz n : (0 < n)%nat -> ~ qofnat n == 0.
Proof. intros H E. unfold qofnat, inject_Z, Qeq in E. cbn in E. lia. Qed.
Lemma line_mean col col' n : Forall2 Rc col col' -> col <> [] -> length col = n ->
  exists q', np_mean col' = Ok q' /\ rrel Rc (div_c (nz (qsum (map dcell col))) (qofnat n)) (Ok q').
Proof.
  intros H Hne Ln. subst n. pose proof (line_sum _ _ H) as Sm. pose proof (Forall2_length _ _ _ H) as L.
  unfold np_mean, len0. rewrite <- L. destruct col as [|x col]; [congruence|]. cbn [length Nat.eqb].
  eexists; split; [reflexivity|].
  assert (N : ~ qofnat (S (length col)) == 0) by (apply qofnat_nz; lia).
  pose proof (div_c_rel _ _ (qofnat (S (length col))) (qofnat (S (length col))) Sm ltac:(reflexivity)) as R.
  rewrite qdiv0_eval_nz in R by exact N. exact R.
Qed.
(* a family of lines reduced one by one *)
Lemma lines_map {A A'} (R : A -> A' -> Prop) (f : A -> cell) (g : A' -> res Q) l l' :
  (forall x x', R x x' -> exists q', g x' = Ok q' /\ Rc (f x) q') -> Forall2 R l l' ->
  exists v', mapM g l' = Ok v' /\ Rv (map f l) v'.
Proof.
  intros H Hl. induction Hl as [|x x' l l' Hx Hl IH]; cbn; [eexists; split; eauto; constructor|].
  destruct (H x x' Hx) as (q' & -> & Hq). destruct IH as (v' & -> & Hv). eexists; split; [reflexivity|]. constructor; auto.
Qed.
Lemma lines_bool {A A'} (R : A -> A' -> Prop) (f : A -> bool) (g : A' -> bool) l l' :
  (forall x x', R x x' -> f x = g x') -> Forall2 R l l' -> map f l = map g l'.
Proof. intros H Hl. induction Hl; cbn; auto. f_equal; auto. Qed.
Lemma Rv_single rows v' : Rv rows v' -> Forall2 Rv (map (fun x => [x]) rows) (map (fun x => [x]) v').
Proof. intros H. unfold Rv in *. induction H; cbn; constructor; auto. Qed.
Lemma Rv_map_nz l l' : Forall2 Qeq l l' -> Rv (map nz l) l'.
Proof. intros H. induction H; cbn; constructor; auto. now apply Rc_nz. Qed.
Lemma Rv_single_nz l l' : Forall2 Qeq l l' -> Forall2 Rv (map (fun x => [nz x]) l) (map (fun x => [x]) l').
Proof. intros H. induction H; cbn; constructor; auto. constructor; [now apply Rc_nz|constructor]. Qed.

(* sparse result object against NumPy's result *)
Definition osim2 (o : obj) (d : dobj2) : Prop :=
  match o, d with
  | OV c false, D2V v => Rv c v
  | OL b, D2L b' => b = b'
  | OA rows false, D2A m => Forall2 Rv rows m
  | OB r, D2B r' => r = r'
  | _, _ => False
  end.
Definition out_res (o : outcome) : res obj := match o with RNew x => Ok x | RErr e => Err e | _ => Err EOther end.

(* axis = 0: every reduction of the columns, with and without keepdims *)
Theorem red_axis0_refines r rows m keep : Forall2 Rv rows m -> rows <> [] ->
  rrel osim2 (out_res (red_arrF false r rows (Some 0%nat) keep)) (np_red2 r m 0 keep).
Proof.
  intros H Hne. pose proof (columns_rel _ _ H) as C.
  assert (CN : Forall (fun col => col <> []) (columns None rows)).
  { unfold columns. apply Forall_forall. intros col Hin. apply in_map_iff in Hin as (k & <- & _).
    intros E. apply (f_equal (@length _)) in E. rewrite column_length in E. destruct rows; [congruence|discriminate]. }
  assert (CL : Forall (fun col => length col = length rows) (columns None rows)).
  { unfold columns. apply Forall_forall. intros col Hin. apply in_map_iff in Hin as (k & <- & _). apply column_length. }
  pose proof (Forall2_conj _ _ _ _ (Forall2_conj _ _ _ _ C CN) CL) as C2. cbn in C2.
  unfold red_arrF, np_red2, np_lines. cbn [keep_shape].
  destruct r.
  - (* any *) rewrite (lines_bool _ (existsb present) (np_red_bool RAny) _ _ line_any C). destruct keep; cbn; reflexivity.
  - (* all *) destruct rows as [|r0 rows]; [congruence|].
    rewrite (lines_bool _ (forallb present) (np_red_bool RAll) _ _ line_all C). destruct keep; cbn; reflexivity.
  - (* sum *)
    destruct (lines_map (Forall2 Rc) (fun c => nz (qsum (map dcell c))) (np_red_num RSum) _ _
                (fun x x' Hx => ex_intro _ (np_sum x') (conj eq_refl (line_sum x x' Hx))) C) as (v' & -> & Hv).
    destruct keep; cbn; auto.
  - (* mean *)
    assert (M : exists v', mapM (np_red_num RMean) (columns 0 m) = Ok v' /\
                  rrel Rv (truediv_scalar (map (fun c => nz (qsum (map dcell c))) (columns None rows)) (qofnat (length rows))) (Ok v')).
    { unfold truediv_scalar. rewrite mapM_map. clear -C2.
      induction C2 as [|x x' l l' [[Hx Hn] Hl] Hrest IH]; cbn; [eexists; split; eauto; constructor|].
      destruct (line_mean x x' (length rows) Hx Hn Hl) as (q' & -> & Hq).
      destruct IH as (v' & -> & Hv). eexists; split; [reflexivity|].
      destruct (div_c _ _); cbn in Hq; try contradiction.
      destruct (mapM _ l); cbn in Hv; try contradiction. cbn. constructor; auto. }
    destruct M as (v' & -> & Hv).
    destruct (truediv_scalar _ _); cbn in Hv; try contradiction. destruct keep; cbn; auto.
  - (* max *)
    destruct (lines_map (fun c c' => Forall2 Rc c c' /\ c <> []) (fun c => nz (qmax_list (map dcell c))) (np_red_num RMax) _ _
                (fun x x' Hx => line_max x x' (proj1 Hx) (proj2 Hx)) (Forall2_conj _ _ _ _ C CN)) as (v' & -> & Hv).
    destruct keep; cbn; auto.
  - (* min *)
    destruct (lines_map (fun c c' => Forall2 Rc c c' /\ c <> []) (fun c => nz (qmin_list (map dcell c))) (np_red_num RMin) _ _
                (fun x x' Hx => line_min x x' (proj1 Hx) (proj2 Hx)) (Forall2_conj _ _ _ _ C CN)) as (v' & -> & Hv).
    destruct keep; cbn; auto.
Qed.

(* axis = 1: every reduction of the rows, with and without keepdims *)
Lemma lines_mapQ {A A'} (R : A -> A' -> Prop) (f : A -> Q) (g : A' -> res Q) l l' :
  (forall x x', R x x' -> exists q', g x' = Ok q' /\ f x == q') -> Forall2 R l l' ->
  exists v', mapM g l' = Ok v' /\ Forall2 Qeq (map f l) v'.
Proof.
  intros H Hl. induction Hl as [|x x' l l' Hx Hl IH]; cbn; [eexists; split; eauto; constructor|].
  destruct (H x x' Hx) as (q' & -> & Hq). destruct IH as (v' & -> & Hv). eexists; split; [reflexivity|]. constructor; auto.
Qed.
Lemma lines_mapQ2 {A A'} (R : A -> A' -> Prop) (f : A -> res Q) (g : A' -> res Q) l l' :
  (forall x x', R x x' -> exists q q', f x = Ok q /\ g x' = Ok q' /\ q == q') -> Forall2 R l l' ->
  exists v v', mapM f l = Ok v /\ mapM g l' = Ok v' /\ Forall2 Qeq v v'.
Proof.
  intros H Hl. induction Hl as [|x x' l l' Hx Hl IH]; cbn; [do 2 eexists; repeat split; eauto; constructor|].
  destruct (H x x' Hx) as (q & q' & -> & -> & Hq). destruct IH as (v & v' & -> & -> & Hv).
  do 2 eexists; repeat split; eauto.
Qed.
Theorem red_axis1_refines r rows m keep : Forall2 Rv rows m -> Forall (fun c => c <> []) rows ->
  rrel osim2 (out_res (red_arrF false r rows (Some 1%nat) keep)) (np_red2 r m 1 keep).
Proof.
  intros H Hn. pose proof (Forall2_conj _ _ _ _ H Hn) as H2. cbn in H2.
  unfold red_arrF, np_red2, np_lines. cbn [keep_shape].
  destruct r.
  - rewrite (lines_bool _ sv_any (np_red_bool RAny) _ _ any_refines H). destruct keep; cbn; reflexivity.
  - rewrite (lines_bool _ sv_all (np_red_bool RAll) _ _ all_refines H). destruct keep; cbn; reflexivity.
  - destruct (lines_mapQ Rv sv_sum (np_red_num RSum) _ _
                (fun x x' Hx => ex_intro _ (np_sum x') (conj eq_refl (sum_refines x x' Hx))) H) as (v' & -> & Hv).
    destruct keep; cbn; [now apply Rv_single_nz | now apply Rv_map_nz].
  - destruct (lines_mapQ (fun c c' => Rv c c' /\ c <> [])
                (fun c => let x := sv_sum c in if qzerob x then 0 else x / qofnat (length c)) (np_red_num RMean) rows m)
      as (v' & -> & Hv); auto.
    { intros x x' [Hx Hne]. cbn [np_red_num]. unfold np_mean, len0. rewrite <- (Rv_length _ _ Hx).
      destruct x as [|c0 x]; [congruence|]. cbn [length Nat.eqb]. eexists; split; [reflexivity|].
      pose proof (sum_refines _ _ Hx) as S0. unfold np_sum in S0. cbn zeta.
      destruct (qzerob (sv_sum (c0 :: x))) eqn:Z.
      - apply qzerob_true in Z. rewrite <- S0, Z. symmetry. apply zero_div.
      - now rewrite S0. }
    destruct keep; cbn; [now apply Rv_single_nz | now apply Rv_map_nz].
  - destruct (lines_mapQ2 (fun c c' => Rv c c' /\ c <> []) sv_max (np_red_num RMax) rows m) as (v & v' & E & -> & Hv); auto.
    { intros x x' [Hx Hne]. now apply max_refines. }
    unfold res_all. rewrite mapM_map. rewrite (mapM_ext _ sv_max) by reflexivity. rewrite E.
    destruct keep; cbn; [now apply Rv_single_nz | now apply Rv_map_nz].
  - destruct (lines_mapQ2 (fun c c' => Rv c c' /\ c <> []) sv_min (np_red_num RMin) rows m) as (v & v' & E & -> & Hv); auto.
    { intros x x' [Hx Hne]. now apply min_refines. }
    unfold res_all. rewrite mapM_map. rewrite (mapM_ext _ sv_min) by reflexivity. rewrite E.
    destruct keep; cbn; [now apply Rv_single_nz | now apply Rv_map_nz].
Qed.

(* ================================================================== Part 17: SparseArray __getitem__ / __setitem__ with (row, column) indices *)
(* selecting rows: a[m] for m an int list / mask / slice *)
Lemma nth_rows_refines rows M sel : Forall2 Rv rows M -> Forall (fun i => (i < length rows)%nat) sel ->
  exists sr sr', nth_rows rows sel = Ok sr /\ np_take M sel = Ok sr' /\ Forall2 Rv sr sr'.
Proof.
  intros H Hs. unfold np_take. induction Hs as [|i sel Hi Hs IH]; cbn; [do 2 eexists; repeat split; constructor|].
  destruct IH as (sr & sr' & E & E' & R).
  assert (Hi' : (i < length M)%nat) by (now rewrite <- (Forall2_length _ _ _ H)).
  destruct (nth_error rows i) as [r|] eqn:Er; [|apply nth_error_None in Er; lia].
  rewrite E. cbn [bind]. rewrite (np_get1_nth M i []) by exact Hi'. rewrite E'.
  do 2 eexists; repeat split; eauto. constructor; auto.
  clear -H Er. revert i Er. induction H; intros [|i] Er; cbn in *; try discriminate.
  - inversion Er; subst. assumption.
  - eauto.
Qed.
(* a[m, n] with m selecting rows and n selecting columns: the block of values (outer indexing) *)
Theorem get_block_refines rows M sel idx : Forall2 Rv rows M -> Forall (fun i => (i < length rows)%nat) sel ->
  Forall (fun r => Forall (fun j => (j < length r)%nat) idx) rows ->
  exists sr sr' B', nth_rows rows sel = Ok sr /\ np_take M sel = Ok sr' /\ mapM (fun r => np_take r idx) sr' = Ok B' /\
                    Forall2 (Forall2 Qeq) (map (fun r => map (getc r) idx) sr) B'.
Proof.
  intros H Hs Hi. destruct (nth_rows_refines rows M sel H Hs) as (sr & sr' & E & E' & R).
  assert (Hsr : Forall (fun r => Forall (fun j => (j < length r)%nat) idx) sr).
  { clear -E Hi. revert sr E. induction sel as [|i sel IH]; intros sr E; cbn in E; [inversion E; constructor|].
    destruct (nth_error rows i) eqn:Er; [|discriminate]. destruct (nth_rows rows sel) eqn:E2; cbn in E; inversion E; subst.
    constructor; auto. eapply Forall_forall in Hi; [exact Hi|]. eapply nth_error_In; eauto. }
  assert (B : exists B', mapM (fun r => np_take r idx) sr' = Ok B' /\ Forall2 (Forall2 Qeq) (map (fun r => map (getc r) idx) sr) B').
  { clear E E'. induction R as [|r r' sr sr' Hr R IH]; cbn; [eexists; split; constructor|].
    inversion Hsr; subst. destruct (IH H3) as (B' & EB & RB).
    destruct (get_idx_refines r r' idx Hr H2) as (v & -> & Hv). rewrite EB. eexists; split; eauto. }
  destruct B as (B' & EB & RB). exists sr, sr', B'. auto.
Qed.
(* a[m, j]: one column of the selected rows;  a[i, n]: selected columns of one row;  a[i, j]: one element *)
Theorem get_column_refines rows M sel j : Forall2 Rv rows M -> Forall (fun i => (i < length rows)%nat) sel ->
  Forall (fun r => (j < length r)%nat) rows ->
  exists sr sr' v', nth_rows rows sel = Ok sr /\ np_take M sel = Ok sr' /\ mapM (fun r => np_get1 r j) sr' = Ok v' /\
                    Forall2 Qeq (map (fun r => getc r j) sr) v'.
Proof.
  intros H Hs Hj. destruct (nth_rows_refines rows M sel H Hs) as (sr & sr' & E & E' & R).
  assert (Hsr : Forall (fun r => (j < length r)%nat) sr).
  { clear -E Hj. revert sr E. induction sel as [|i sel IH]; intros sr E; cbn in E; [inversion E; constructor|].
    destruct (nth_error rows i) eqn:Er; [|discriminate]. destruct (nth_rows rows sel) eqn:E2; cbn in E; inversion E; subst.
    constructor; auto. eapply Forall_forall in Hj; [exact Hj|]. eapply nth_error_In; eauto. }
  assert (B : exists v', mapM (fun r => np_get1 r j) sr' = Ok v' /\ Forall2 Qeq (map (fun r => getc r j) sr) v').
  { clear E E'. induction R as [|r r' sr sr' Hr R IH]; cbn; [eexists; split; constructor|].
    inversion Hsr; subst. destruct (IH H3) as (v' & EB & RB).
    destruct (get_int_refines r r' j Hr H2) as (q & -> & Hq). rewrite EB. eexists; split; eauto. }
  destruct B as (v' & EB & RB). exists sr, sr', v'. auto.
Qed.
Theorem get_element_refines rows M i j : Forall2 Rv rows M -> (i < length rows)%nat -> (j < length (nth i rows []))%nat ->
  exists r' q, np_get1 M i = Ok r' /\ np_get1 r' j = Ok q /\ getc (nth i rows []) j == q.
Proof.
  intros H Hi Hj.
  assert (R : Rv (nth i rows []) (nth i M [])).
  { clear Hj. revert i Hi. induction H; intros [|i] Hi; cbn in *; try lia; auto. apply IHForall2. lia. }
  exists (nth i M []). destruct (get_int_refines _ _ j R Hj) as (q & E & Hq). exists q.
  split; [apply np_get1_nth; now rewrite <- (Forall2_length _ _ _ H)|]. split; auto.
Qed.
(* which of these forms SparseArray.__getitem__ takes for the (row, column) kinds *)
Definition is_listlike (ix : index) : bool := match ix with IList _ | IMask _ | ISlice _ _ _ => true | _ => false end.
Lemma arrF_get_forms rows m n :
  (is_int m = true -> is_int n = true -> (int_of m < length rows)%nat ->
     arrF_get rows (XPair m n) = GScalF (getc (nth (int_of m) rows []) (int_of n))) /\
  (is_int m = true -> is_listlike n = true -> (int_of m < length rows)%nat ->
     arrF_get rows (XPair m n) = GDenseF (map (getc (nth (int_of m) rows [])) (index_list (vsize rows) n))) /\
  (is_listlike m = true -> is_int n = true -> forall sr, nth_rows rows (index_list (length rows) m) = Ok sr ->
     arrF_get rows (XPair m n) = GDenseF (map (fun r => getc r (int_of n)) sr)) /\
  (is_slice m = true -> is_listlike n = true -> forall sr, nth_rows rows (index_list (length rows) m) = Ok sr ->
     arrF_get rows (XPair m n) = GDense2F (map (fun r => map (getc r) (index_list (length r) n)) sr)).
Proof.
  repeat split.
  - intros Hm Hn Hi. apply Nat.ltb_lt in Hi. destruct m, n; try discriminate; cbn in *; now rewrite Hi.
  - intros Hm Hn Hi. apply Nat.ltb_lt in Hi. destruct m, n; try discriminate; cbn in *; now rewrite Hi.
  - intros Hm Hn sr E. destruct m, n; try discriminate; cbn in *; now rewrite E.
  - intros Hm Hn sr E. destruct m, n; try discriminate; cbn in *; now rewrite E.
Qed.

(* row[n] = q through SparseVector.__setitem__, for every index kind *)
Lemma vecF_set_scalar_refines c v n q isb : Rv c v -> valid_index (length c) n ->
  exists r r', vecF_set c n (PS q isb) = Ok r /\ np_setrow v n q = Ok r' /\ Rv r r' /\ length r = length c /\
               forall j, ~ In j (index_list (length c) n) -> nth_error r j = nth_error c j.
Proof.
  intros Hcv Hv. pose proof (Rv_length _ _ Hcv) as L.
  destruct (index_list_np (length c) n Hv) as [NI IR].
  unfold vecF_set, np_setrow. cbn [sval_of bind].
  assert (G : forall idx, np_index_list (length v) n = Ok idx -> idx = index_list (length c) n ->
              exists r r', set_all c idx q = Ok r /\ (do idx0 <- np_index_list (length v) n; np_setitems v idx0 [q]) = Ok r' /\
                           Rv r r' /\ length r = length c /\ forall j, ~ In j idx -> nth_error r j = nth_error c j).
  { intros idx E ->. rewrite E. cbn [bind]. rewrite np_setitems_scalar by (now rewrite <- L).
    destruct (set_all_refines _ c v q q Hcv ltac:(reflexivity) IR) as (r & r' & E0 & P & R & Lr & F). eauto 10. }
  rewrite L in NI.
  destruct n as [k|k|l|mk|a b cc|]; cbn [index_list] in *.
  - destruct (set_int_refines c v k q q Hcv ltac:(reflexivity) Hv) as (r & E & R & Lr & F).
    rewrite L in Hv. apply Nat.ltb_lt in Hv. rewrite Hv. exists r, (upd v k q). repeat split; auto.
    intros j Hj. apply F. intros ->. apply Hj. now left.
  - destruct (set_int_refines c v k q q Hcv ltac:(reflexivity) Hv) as (r & E & R & Lr & F).
    rewrite L in Hv. apply Nat.ltb_lt in Hv. rewrite Hv. exists r, (upd v k q). repeat split; auto.
    intros j Hj. apply F. intros ->. apply Hj. now left.
  - cbn [set_idx]. apply G; auto.
  - cbn [set_idx]. apply G; auto.
  - cbn [set_idx]. apply G; auto.
  - destruct (set_open_scalar_refines c v q q Hcv ltac:(reflexivity)) as (r & E0 & R).
    rewrite E0, NI. cbn [bind].
    rewrite np_setitems_scalar by (apply Forall_forall; intros j Hj; apply in_seq in Hj; lia).
    rewrite seq_length. pose proof (np_put_seq_repeat q v []) as P. cbn in P. rewrite P.
    assert (M : repeat q (length v) = map (fun _ => q) v) by (clear; induction v; cbn; congruence).
    rewrite M. exists r, (map (fun _ => q) v). repeat split; auto.
    + rewrite (Rv_length _ _ R), map_length. congruence.
    + intros j Hj. destruct (Nat.lt_ge_cases j (length c)) as [Lt|Ge].
      * exfalso. apply Hj. apply in_seq. lia.
      * assert (length r = length c) by (rewrite (Rv_length _ _ R), map_length; congruence).
        rewrite (proj2 (nth_error_None r j)) by lia. symmetry. apply nth_error_None. lia.
Qed.
(* the row loop of SparseArray.__setitem__ *)
Lemma upd_rows_refines (f : cells -> cells * option err) (g : list Q -> res (list Q)) (P : cells -> Prop) :
  (forall c c', Rv c c' -> P c -> exists r r', f c = (r, None) /\ g c' = Ok r' /\ Rv r r' /\ P r) ->
  forall sel rows M, Forall2 Rv rows M -> Forall P rows -> Forall (fun i => (i < length rows)%nat) sel ->
  exists R R', upd_rows f rows sel = (R, None) /\ np_upd_rows g M sel = Ok R' /\ Forall2 Rv R R' /\ Forall P R /\
               length R = length rows /\ forall k, ~ In k sel -> nth_error R k = nth_error rows k.
Proof.
  intros Hf. induction sel as [|i sel IH]; intros rows M H HP Hs.
  - exists rows, M. cbn. repeat split; auto.
  - inversion Hs as [|? ? Hi Hs']; subst.
    assert (Hi' : (i < length M)%nat) by (now rewrite <- (Forall2_length _ _ _ H)).
    destruct (nth_error rows i) as [c|] eqn:Ec; [|apply nth_error_None in Ec; lia].
    destruct (nth_error M i) as [c'|] eqn:Ec'; [|apply nth_error_None in Ec'; lia].
    assert (Rcc : Rv c c').
    { clear -H Ec Ec'. revert i Ec Ec'. induction H; intros [|i] Ec Ec'; cbn in *; try discriminate.
      - inversion Ec; inversion Ec'; subst; auto. - eauto. }
    destruct (Hf c c' Rcc (Forall_nth_error _ _ _ _ HP Ec)) as (r & r' & Ef & Eg & Rr & Pr).
    cbn [upd_rows np_upd_rows]. rewrite Ec, Ec', Ef, Eg. cbn [bind].
    assert (H2 : Forall2 Rv (upd rows i r) (upd M i r')).
    { clear -H Rr. revert i. induction H; intros [|i]; cbn; constructor; auto. }
    destruct (IH (upd rows i r) (upd M i r') H2 (Forall_upd _ _ _ _ HP Pr)) as (R & R' & E1 & E2 & RR & PR & LR & FR).
    { rewrite upd_length. exact Hs'. }
    exists R, R'. repeat split; auto.
    + now rewrite LR, upd_length.
    + intros k Hk. rewrite FR by (intros K; apply Hk; now right). apply nth_error_upd_other. intros ->. apply Hk. now left.
Qed.
(* SparseArray.__setitem__ with a scalar takes the row-loop form for every (row, column) combination that addresses a block *)
Lemma arrF_set_scalar_form rows m n q isb : is_int m || is_slice m || is_slice n = true ->
  arrF_set false rows false (XPair m n) (PS q isb) =
  upd_rows (fun c => keep_on_err c (vecF_set c n (PS q isb))) rows (index_list (length rows) m).
Proof. intros H. destruct m, n; try discriminate H; reflexivity. Qed.
Theorem array_set_scalar_refines rows M m n q isb : Forall2 Rv rows M ->
  is_int m || is_slice m || is_slice n = true ->
  valid_index (length rows) m -> Forall (fun c => valid_index (length c) n) rows ->
  exists R R', arrF_set false rows false (XPair m n) (PS q isb) = (R, None) /\ np_set2_scalar M m n q = Ok R' /\
               Forall2 Rv R R' /\ length R = length rows /\
               forall k, ~ In k (index_list (length rows) m) -> nth_error R k = nth_error rows k.
Proof.
  intros H Hk Hm Hn. rewrite arrF_set_scalar_form by exact Hk.
  destruct (index_list_np (length rows) m Hm) as [NI IR].
  unfold np_set2_scalar. rewrite <- (Forall2_length _ _ _ H), NI. cbn [bind].
  destruct (upd_rows_refines (fun c => keep_on_err c (vecF_set c n (PS q isb))) (fun r => np_setrow r n q)
              (fun c => valid_index (length c) n)) with (sel := index_list (length rows) m) (rows := rows) (M := M)
    as (R & R' & E1 & E2 & RR & _ & LR & FR); auto.
  - intros c c' Hc Pc. destruct (vecF_set_scalar_refines c c' n q isb Hc Pc) as (r & r' & E & E' & Rr & Lr & _).
    exists r, r'. rewrite E. cbn. repeat split; auto. now rewrite Lr.
  - exists R, R'. repeat split; auto.
Qed.

(* ================================================================== Part 18: conversion helpers and copy constructors *)
(* the identity conversions hand back the object; the copying ones append an equal object, and by C09_frame nothing
   done to the copy can reach the original (objects of the store are disjoint values) *)
Lemma conv_spec lg s i x : nth_error s i = Some x ->
  xstep lg s (XOp (OConv CIdent i)) = (s, RSelf) /\
  exists r, xstep lg s (XOp (OConv CCopy i)) = (s ++ [r], RNew r) /\
            match x, r with
            | OV c _, OV c' false => c' = c
            | OL b, OL b' => b' = b
            | OA rows _, OA rows' false => rows' = rows
            | OB rows, OB rows' => rows' = rows
            | _, _ => False
            end.
Proof.
  intros Hi. unfold xstep. cbn [xstep_res step_res]. unfold getobj. rewrite Hi. cbn [bind]. split; auto.
  destruct x; eexists; split; reflexivity.
Qed.
