From V Require Import Common.NumFacts C09.Model C09.Dense.
Lemma placeholder_true : True. Proof. exact I. Qed.
