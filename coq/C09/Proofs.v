(* C09 — lemmas.  Part 1: the representation invariant and its preservation by every kernel. *)
From V Require Import Common.NumFacts C09.Model C09.Dense.
From Coq Require Import Lia Lqa.

(* ------------------------------------------------------------------ invariant *)
Definition wfc (c : cell) : Prop := match c with Some q => ~ q == 0 | None => True end.
Definition wf (c : cells) : Prop := Forall wfc c.
Definition vwf (v : vec) : Prop := match v with VF c => wf c | VB _ => True end.
Definition owf (o : obj) : Prop :=
  match o with OV c _ => wf c | OA rows _ => Forall wf rows | _ => True end.
Definition store_wf (s : store) : Prop := Forall owf s.
Definition pwf (p : operand) : Prop :=
  match p with PV c => wf c | PA rows => Forall wf rows | _ => True end.

Lemma wfc_nz q : wfc (nz q).
Proof. unfold nz. destruct (qzerob q) eqn:E; cbn; auto. now apply qzerob_false. Qed.
Lemma dcell_nz q : dcell (nz q) == q.
Proof. unfold nz. destruct (qzerob q) eqn:E; cbn; try reflexivity. apply qzerob_true in E. now rewrite E. Qed.
Lemma qmul_nz a b : ~ a == 0 -> ~ b == 0 -> ~ a * b == 0.
Proof. intros Ha Hb H. apply Qmult_integral in H. tauto. Qed.
Lemma qinv_nz a : ~ a == 0 -> ~ / a == 0.
Proof. intros Ha H. assert (K : a * / a == 1) by (apply Qmult_inv_r; exact Ha). rewrite H in K. lra. Qed.
Lemma qdiv_nz a b : ~ a == 0 -> ~ b == 0 -> ~ a / b == 0.
Proof. intros Ha Hb. unfold Qdiv. apply qmul_nz; auto. now apply qinv_nz. Qed.
Lemma qopp_nz a : ~ a == 0 -> ~ - a == 0.
Proof. intros Ha H. apply Ha. lra. Qed.
Lemma qabs_nz a : ~ a == 0 -> ~ Qabs a == 0.
Proof.
  intros Ha H. apply Ha. destruct (Qlt_le_dec a 0) as [L|L].
  - rewrite Qabs_neg in H by lra. lra.
  - rewrite Qabs_pos in H by lra. exact H.
Qed.

Lemma wf_empty n : wf (empty_cells n).
Proof. unfold wf, empty_cells. induction n; cbn; constructor; cbn; auto. Qed.
Lemma wf_of_dense l : wf (of_dense l).
Proof. unfold wf, of_dense. induction l; cbn; constructor; auto using wfc_nz. Qed.
Lemma wf_cells_of_bits b : wf (cells_of_bits b).
Proof. unfold wf, cells_of_bits. induction b as [|[|] b IH]; cbn; constructor; cbn; auto. lra. Qed.
Lemma wf_map (f : cell -> cell) a : (forall x, wfc x -> wfc (f x)) -> wf a -> wf (map f a).
Proof. intros Hf H. unfold wf in *. induction H; cbn; constructor; auto. Qed.
Lemma wf_map_any {A} (f : A -> cell) (l : list A) : (forall x, wfc (f x)) -> wf (map f l).
Proof. intros Hf. unfold wf. induction l; cbn; constructor; auto. Qed.
Lemma wf_map2 (f : cell -> cell -> cell) a b :
  (forall x y, wfc x -> wfc y -> wfc (f x y)) -> wf a -> wf b -> wf (map2 f a b).
Proof.
  intros Hf Ha. revert b. unfold wf in *. induction Ha as [|x a Hx Ha IH]; intros [|y b] Hb; cbn; try constructor.
  - inversion Hb; subst. auto.
  - inversion Hb; subst. auto.
Qed.
Lemma wf_map2_arr {B} (f : cell -> B -> cell) a (b : list B) :
  (forall x y, wfc x -> wfc (f x y)) -> wf a -> wf (map2 f a b).
Proof.
  intros Hf Ha. revert b. unfold wf in *. induction Ha as [|x a Hx Ha IH]; intros [|y b]; cbn; constructor; auto.
Qed.
Lemma wf_mapM {A} (f : A -> res cell) (l : list A) r :
  (forall x c, f x = Ok c -> wfc c) -> mapM f l = Ok r -> wf r.
Proof.
  intros Hf. revert r. unfold wf. induction l as [|x l IH]; cbn; intros r H.
  - inversion H. constructor.
  - destruct (f x) eqn:E; try discriminate. destruct (mapM f l) eqn:E2; try discriminate.
    inversion H; subst. constructor; eauto.
Qed.
Lemma wf_mapM_in (f : cell -> res cell) (l : cells) r :
  (forall x c, wfc x -> f x = Ok c -> wfc c) -> wf l -> mapM f l = Ok r -> wf r.
Proof.
  intros Hf Hl. revert r. unfold wf in *. induction Hl as [|x l Hx Hl IH]; cbn; intros r H.
  - inversion H. constructor.
  - destruct (f x) eqn:E; try discriminate. destruct (mapM f l) eqn:E2; try discriminate.
    inversion H; subst. constructor; eauto.
Qed.
Lemma wf_map2M (f : cell -> cell -> res cell) a b r :
  (forall x y c, wfc x -> wfc y -> f x y = Ok c -> wfc c) -> wf a -> wf b -> map2M f a b = Ok r -> wf r.
Proof.
  intros Hf Ha. revert b r. unfold wf in *. induction Ha as [|x a Hx Ha IH]; intros [|y b] r Hb H; cbn in H;
    try (inversion H; constructor).
  inversion Hb; subst.
  destruct (f x y) eqn:E; try discriminate. destruct (map2M f a b) eqn:E2; try discriminate.
  inversion H; subst. constructor; eauto.
Qed.
Lemma wf_map2M_arr {B} (f : cell -> B -> res cell) a (b : list B) r :
  (forall x y c, wfc x -> f x y = Ok c -> wfc c) -> wf a -> map2M f a b = Ok r -> wf r.
Proof.
  intros Hf Ha. revert b r. unfold wf in *. induction Ha as [|x a Hx Ha IH]; intros [|y b] r H; cbn in H;
    try (inversion H; constructor).
  destruct (f x y) eqn:E; try discriminate. destruct (map2M f a b) eqn:E2; try discriminate.
  inversion H; subst. constructor; eauto.
Qed.
Lemma wf_hd a : wf a -> wfc (hd None a).
Proof. intros H. destruct H; cbn; auto. Qed.
Lemma wfc_join (o : option cell) (b : cells) : wf b -> hd_error b = o -> wfc (join_cell o).
Proof. intros H E. destruct H; cbn in E; subst; cbn; auto. Qed.

(* cell-level tactic: case analysis on the cells, on the zero tests, then arithmetic *)
Ltac nzt :=
  repeat match goal with
         | H : wfc (Some _) |- _ => cbn in H
         | |- wfc (nz _) => apply wfc_nz
         | |- wfc None => exact I
         | |- wfc (Some _) => cbn
         | |- ~ _ * _ == 0 => apply qmul_nz
         | |- ~ _ / _ == 0 => apply qdiv_nz
         | |- ~ - _ == 0 => apply qopp_nz
         | |- ~ Qabs _ == 0 => apply qabs_nz
         end; auto.
Ltac cellwf :=
  intros;
  repeat match goal with c : cell |- _ => destruct c end;
  cbn in *; nzt;
  repeat match goal with
         | |- context [qzerob ?q] => let E := fresh "E" in destruct (qzerob q) eqn:E; cbn
         end; nzt;
  try match goal with E : qzerob _ = false |- ~ _ == 0 => now apply qzerob_false end.

(* ------------------------------------------------------------------ arithmetic kernels keep the invariant *)
Lemma dispatch_sparse_wf (same : cells -> cells -> res cells) self1 other1 a b r :
  wf a -> wf b ->
  (forall r, same a b = Ok r -> wf r) ->
  (forall v r, wfc v -> self1 v b = Ok r -> wf r) ->
  (forall o r, wfc (join_cell o) -> other1 a o = Ok r -> wf r) ->
  dispatch_sparse same self1 other1 a b = Ok r -> wf r.
Proof.
  intros Ha Hb H1 H2 H3. unfold dispatch_sparse.
  destruct (Nat.eqb (length a) (length b)); [apply H1|].
  destruct (len1 a && negb (len0 b)); [apply H2; now apply wf_hd|].
  destruct (len1 b); [|discriminate].
  apply H3. eapply wfc_join; eauto.
Qed.
Lemma dispatch_array_wf {B} (same : cells -> list B -> res cells) self1 a (b : list B) r :
  wf a ->
  (forall r, same a b = Ok r -> wf r) ->
  (forall v r, wfc v -> self1 v b = Ok r -> wf r) ->
  dispatch_array same self1 a b = Ok r -> wf r.
Proof.
  intros Ha H1 H2. unfold dispatch_array.
  destruct (Nat.eqb (length a) (length b)); [apply H1|].
  destruct (len1 a && negb (len0 b)); [apply H2; now apply wf_hd|discriminate].
Qed.
Ltac okinv := match goal with H : Ok _ = Ok _ |- _ => inversion H; subst; clear H end.

Lemma add_other1_wf a o : wf a -> wfc o -> wf (add_other1 a o).
Proof. intros Ha Ho. destruct o; cbn; auto. apply wf_map; auto. cellwf. Qed.
Lemma add_sparse_wf a b r : wf a -> wf b -> add_sparse a b = Ok r -> wf r.
Proof.
  intros Ha Hb. apply dispatch_sparse_wf; auto; intros; okinv.
  - apply wf_map2; auto. unfold add_same_c. cellwf.
  - destruct v; cbn; auto. apply wf_map; auto. cellwf.
  - now apply add_other1_wf.
Qed.
Lemma add_scalar_wf a k r : wf a -> add_scalar a k = Ok r -> wf r.
Proof.
  intros Ha H. unfold add_scalar in H. okinv. destruct (qzerob k) eqn:E; auto.
  apply (add_other1_wf a (Some k)); auto. cbn. now apply qzerob_false.
Qed.
Lemma add_array_wf a b r : wf a -> add_array a b = Ok r -> wf r.
Proof.
  intros Ha. apply dispatch_array_wf; auto; intros; okinv.
  - apply wf_map2_arr; auto. unfold add_arr_c. cellwf.
  - destruct v; cbn; apply wf_map_any; intros; apply wfc_nz.
Qed.

Lemma sub_other1_wf a o : wf a -> wfc o -> wf (sub_other1 a o).
Proof. intros Ha Ho. destruct o; cbn; auto. apply wf_map; auto. cellwf. Qed.
Lemma sub_sparse_wf a b r : wf a -> wf b -> sub_sparse a b = Ok r -> wf r.
Proof.
  intros Ha Hb. apply dispatch_sparse_wf; auto; intros; okinv.
  - apply wf_map2; auto. unfold sub_same_c. cellwf.
  - destruct v; cbn; apply wf_map; auto; cellwf.
  - now apply sub_other1_wf.
Qed.
Lemma sub_scalar_wf a k r : wf a -> sub_scalar a k = Ok r -> wf r.
Proof.
  intros Ha H. unfold sub_scalar in H. okinv. destruct (qzerob k) eqn:E; auto.
  apply (sub_other1_wf a (Some k)); auto. cbn. now apply qzerob_false.
Qed.
Lemma sub_array_wf a b r : wf a -> sub_array a b = Ok r -> wf r.
Proof.
  intros Ha. apply dispatch_array_wf; auto; intros; okinv.
  - apply wf_map2_arr; auto. unfold sub_arr_c. cellwf.
  - destruct v; cbn; apply wf_map_any; intros; cellwf.
Qed.

Lemma mul_sparse_wf a b r : wf a -> wf b -> mul_sparse a b = Ok r -> wf r.
Proof.
  intros Ha Hb. apply dispatch_sparse_wf; auto; intros; okinv.
  - apply wf_map2; auto. unfold mul_same_c. cellwf.
  - destruct v; cbn; [apply wf_map; auto; cellwf | apply wf_empty].
  - unfold mul_other1. destruct (join_cell o); cbn; [apply wf_map; auto; cellwf | apply wf_empty].
Qed.
Lemma mul_scalar_wf a k r : wf a -> mul_scalar a k = Ok r -> wf r.
Proof.
  intros Ha H. unfold mul_scalar in H. okinv. destruct (qzerob k) eqn:E; [apply wf_empty|].
  apply qzerob_false in E. apply wf_map; auto. cellwf.
Qed.
Lemma mul_array_wf a b r : wf a -> mul_array a b = Ok r -> wf r.
Proof.
  intros Ha. apply dispatch_array_wf; auto; intros; okinv.
  - apply wf_map2_arr; auto. unfold mul_arr_c. cellwf.
  - destruct v; cbn; [apply wf_map_any; intros; cellwf | apply wf_empty].
Qed.

Lemma qdiv_ok v w q : qdiv v w = Ok q -> ~ w == 0 /\ q = v / w.
Proof. unfold qdiv. destruct (qzerob w) eqn:E; intros H; inversion H. split; auto. now apply qzerob_false. Qed.
Lemma div_c_wf x y c : wfc x -> div_c x y = Ok c -> wfc c.
Proof.
  destruct x as [v|]; cbn; intros Hx H; [|inversion H; exact I].
  destruct (qdiv v y) eqn:E; cbn in H; inversion H; subst. apply qdiv_ok in E as [Hy ->]. cbn. now apply qdiv_nz.
Qed.
Lemma truediv_scalar_wf a k r : wf a -> truediv_scalar a k = Ok r -> wf r.
Proof. intros Ha. apply wf_mapM_in; auto. intros x c Hx. now apply div_c_wf. Qed.
Lemma truediv_same_c_wf x y c : wfc x -> wfc y -> truediv_same_c x y = Ok c -> wfc c.
Proof.
  destruct x as [v|], y as [w|]; cbn; intros Hx Hy H; try discriminate; try (inversion H; exact I).
  destruct (qdiv v w) eqn:E; cbn in H; inversion H; subst. apply qdiv_ok in E as [Hw ->]. cbn. now apply qdiv_nz.
Qed.
Lemma truediv_sparse_wf a b r : wf a -> wf b -> truediv_sparse a b = Ok r -> wf r.
Proof.
  intros Ha Hb. apply dispatch_sparse_wf; auto.
  - intros r0. apply wf_map2M; auto. intros x y c. apply truediv_same_c_wf.
  - intros v r0 Hv. unfold truediv_self1. destruct v as [value|]; [|intros H; okinv; apply wf_empty].
    destruct (Nat.eqb (nkeys b) (length b)); [|discriminate].
    apply wf_mapM. intros x c. now apply div_c_wf.
  - intros o r0 Ho. unfold truediv_other1. destruct (join_cell o) as [other|].
    + apply wf_mapM_in; auto. intros x c Hx. now apply div_c_wf.
    + destruct (Nat.eqb (nkeys a) 0); intros H; inversion H; subst; auto.
Qed.
Lemma truediv_array_wf a b r : wf a -> truediv_array a b = Ok r -> wf r.
Proof.
  intros Ha. apply dispatch_array_wf; auto.
  - intros r0. apply wf_map2M_arr; auto. intros x y c. apply div_c_wf.
  - intros v r0 Hv. unfold truediv_arr_self1. destruct v as [value|]; [|intros H; okinv; apply wf_empty].
    apply wf_mapM. intros x c. now apply div_c_wf.
Qed.

Lemma neg_cells_wf a : wf a -> wf (neg_cells a).
Proof. intros. apply wf_map; auto. cellwf. Qed.
Lemma abs_cells_wf a : wf a -> wf (abs_cells a).
Proof. intros. apply wf_map; auto. cellwf. Qed.
Lemma rtruediv_scalar_wf a k r : wf a -> rtruediv_scalar a k = Ok r -> wf r.
Proof.
  intros Ha. unfold rtruediv_scalar. destruct (qzerob k) eqn:E; [intros H; okinv; apply wf_empty|].
  apply qzerob_false in E. destruct (Nat.eqb (nkeys a) (length a)); [|discriminate].
  apply wf_mapM. intros x c H. destruct (qdiv k (dcell x)) eqn:D; cbn in H; inversion H; subst.
  apply qdiv_ok in D as [Hx ->]. cbn. now apply qdiv_nz.
Qed.
Lemma rsub_scalar_wf a k r : wf a -> rsub_scalar a k = Ok r -> wf r.
Proof. intros Ha. unfold rsub_scalar. apply add_scalar_wf. now apply neg_cells_wf. Qed.

Lemma k_sparse_wf o a b r : wf a -> wf b -> k_sparse false o a b = Ok r -> wf r.
Proof. destruct o; cbn; eauto using add_sparse_wf, sub_sparse_wf, mul_sparse_wf, truediv_sparse_wf. Qed.
Lemma k_scalar_wf o a k r : wf a -> k_scalar o a k = Ok r -> wf r.
Proof. destruct o; cbn; eauto using add_scalar_wf, sub_scalar_wf, mul_scalar_wf, truediv_scalar_wf. Qed.
Lemma k_array_wf o a b r : wf a -> k_array o a b = Ok r -> wf r.
Proof. destruct o; cbn; eauto using add_array_wf, sub_array_wf, mul_array_wf, truediv_array_wf. Qed.
Lemma ik_sparse_wf o al a b r : wf a -> wf b -> ik_sparse false o al a b = Ok r -> wf r.
Proof.
  intros Ha Hb. unfold ik_sparse. destruct al.
  - destruct o; cbn; unfold iadd_self, isub_self_fixed, imul_self, itruediv_self;
      eauto using add_sparse_wf, sub_sparse_wf, mul_sparse_wf, truediv_sparse_wf.
  - destruct o; cbn; eauto using add_sparse_wf, sub_sparse_wf, mul_sparse_wf, truediv_sparse_wf.
Qed.

(* ------------------------------------------------------------------ Part 2: every operation of the store keeps the invariant *)
Lemma mapM_Forall {A B} (P : A -> Prop) (Q : B -> Prop) (f : A -> res B) l r :
  (forall x y, P x -> f x = Ok y -> Q y) -> Forall P l -> mapM f l = Ok r -> Forall Q r.
Proof.
  intros Hf Hl. revert r. induction Hl as [|x l Hx Hl IH]; cbn; intros r H.
  - inversion H. constructor.
  - destruct (f x) eqn:E; try discriminate. destruct (mapM f l) eqn:E2; try discriminate.
    inversion H; subst. constructor; eauto.
Qed.
Lemma map2M_Forall {A B C} (P : A -> Prop) (P' : B -> Prop) (Q : C -> Prop) (f : A -> B -> res C) a b r :
  (forall x y z, P x -> P' y -> f x y = Ok z -> Q z) -> Forall P a -> Forall P' b -> map2M f a b = Ok r -> Forall Q r.
Proof.
  intros Hf Ha. revert b r. induction Ha as [|x a Hx Ha IH]; intros [|y b] r Hb H; cbn in H;
    try (inversion H; constructor).
  inversion Hb; subst.
  destruct (f x y) eqn:E; try discriminate. destruct (map2M f a b) eqn:E2; try discriminate.
  inversion H; subst. constructor; eauto.
Qed.
Lemma Forall_True {A} (l : list A) : Forall (fun _ => True) l.
Proof. induction l; constructor; auto. Qed.
Lemma Forall_upd {A} (P : A -> Prop) l i x : Forall P l -> P x -> Forall P (upd l i x).
Proof.
  intros Hl Hx. revert i. induction Hl as [|h t Hh Ht IH]; intros [|i]; cbn; constructor; auto.
Qed.
Lemma Forall_nth_error {A} (P : A -> Prop) l i x : Forall P l -> nth_error l i = Some x -> P x.
Proof. intros Hl H. eapply Forall_forall; eauto. eapply nth_error_In; eauto. Qed.
Lemma Forall_nth {A} (P : A -> Prop) l i d : Forall P l -> P d -> P (nth i l d).
Proof. intros Hl Hd. revert i. induction Hl; intros [|i]; cbn; auto. Qed.

Lemma okF_inv x r : okF x = Ok r -> exists c, x = Ok c /\ r = VF c.
Proof. destruct x; cbn; intros H; inversion H; eauto. Qed.
Lemma okB_inv x r : okB x = Ok r -> exists b, r = VB b.
Proof. destruct x; cbn; intros H; inversion H; eauto. Qed.
Ltac vinv :=
  repeat match goal with
         | H : okF _ = Ok _ |- _ => apply okF_inv in H as (? & ? & ->)
         | H : okB _ = Ok _ |- _ => apply okB_inv in H as (? & ->)
         | H : Ok _ = Ok _ |- _ => inversion H; subst; clear H
         | H : Err _ = Ok _ |- _ => discriminate H
         | H : unsupported = Ok _ |- _ => discriminate H
         end.

Opaque k_sparse k_scalar k_array ik_sparse lv_isparse lv_iscalar lv_iarray cmp_sparse cmp_scalar cmp_array lv_cmp_sparse lv_cmp_scalar.
Lemma vec_bin_wf o self p r : vwf self -> pwf p -> vec_bin false o self p = Ok r -> vwf r.
Proof.
  intros Hs Hp H. destruct self as [c|b]; cbn in Hs.
  - destruct o as [a|m|lo], p; cbn in H; vinv; cbn; auto;
      eauto using k_sparse_wf, k_scalar_wf, k_array_wf, wf_cells_of_bits.
  - pose proof (wf_cells_of_bits b) as Hb.
    destruct o as [a|m|lo]; [destruct a| |]; destruct p; cbn in H;
      repeat match type of H with
             | context [if ?x then _ else _] => destruct x
             | context [match ?l with [] => _ | _ => _ end] => destruct l
             end; vinv; cbn; auto;
      eauto using k_sparse_wf, k_scalar_wf, k_array_wf, wf_cells_of_bits.
Qed.
Lemma vec_ibin_wf o al self p r : vwf self -> pwf p -> vec_ibin false o al self p = Ok r -> vwf r.
Proof.
  intros Hs Hp H. destruct self as [c|b]; cbn in Hs.
  - destruct o as [a|m|lo], p; cbn in H; vinv; cbn; auto;
      eauto using ik_sparse_wf, k_scalar_wf, k_array_wf, wf_cells_of_bits.
  - destruct o as [a|m|lo]; [destruct a| |]; destruct p; cbn in H;
      repeat match type of H with
             | context [if ?x then _ else _] => destruct x
             end; vinv; cbn; auto.
Qed.

Transparent k_sparse k_scalar k_array ik_sparse lv_isparse lv_iscalar lv_iarray cmp_sparse cmp_scalar cmp_array lv_cmp_sparse lv_cmp_scalar.
Lemma all_F_wf l r : Forall vwf l -> all_F l = Some r -> Forall wf r.
Proof.
  intros Hl. revert r. induction Hl as [|x l Hx Hl IH]; cbn; intros r H.
  - inversion H. constructor.
  - destruct x; try discriminate. destruct (all_F l); cbn in H; inversion H; subst. constructor; auto.
Qed.
Lemma obj_of_rows_wf l o : Forall vwf l -> obj_of_rows l = Ok o -> owf o.
Proof.
  intros Hl H. unfold obj_of_rows in H. destruct (all_F l) eqn:E.
  - inversion H; subst. cbn. eapply all_F_wf; eauto.
  - destruct (all_B l); inversion H; subst. exact I.
Qed.
Lemma obj_of_vec_wf v : vwf v -> owf (obj_of_vec v).
Proof. destruct v; cbn; auto. Qed.
Lemma rows_of_wf o : owf o -> Forall vwf (rows_of o).
Proof.
  destruct o; cbn; intros H; try (repeat constructor; auto; fail).
  - induction H; cbn; constructor; auto.
  - induction rows; cbn; constructor; cbn; auto.
Qed.
Lemma map_PV_pwf r : Forall wf r -> Forall pwf (map PV r).
Proof. intros H. induction H; cbn; constructor; auto. Qed.
Lemma map_PL_pwf r : Forall pwf (map PL r).
Proof. induction r; cbn; constructor; cbn; auto. Qed.

Lemma vector_bin_wf o self p r : vwf self -> pwf p -> vector_bin false o self p = Ok r -> owf r.
Proof.
  intros Hs Hp H. unfold vector_bin in H.
  set (self' := match self, o with VB b, BA Sub => VF (cells_of_bits b) | _, _ => self end) in *.
  assert (Hs' : vwf self').
  { subst self'. destruct self; auto. destruct o as [[]| |]; auto; apply wf_cells_of_bits. }
  destruct p; cbn in H.
  1,2,5,6: destruct (vec_bin false o self' _) eqn:E; cbn in H; inversion H; subst;
           apply obj_of_vec_wf; eapply vec_bin_wf; eauto.
  - destruct (mapM _ rows) eqn:E; cbn in H; try discriminate.
    eapply obj_of_rows_wf; eauto. eapply mapM_Forall; [|exact Hp|exact E].
    intros x y Hx Hy. cbn in Hy. eapply vec_bin_wf; eauto.
  - destruct (mapM _ rows) eqn:E; cbn in H; try discriminate.
    eapply obj_of_rows_wf; eauto. eapply mapM_Forall; [|apply Forall_True|exact E].
    intros x y _ Hy. cbn in Hy. eapply vec_bin_wf; eauto. exact I.
  - destruct (mapM _ m) eqn:E; cbn in H; try discriminate.
    eapply obj_of_rows_wf; eauto. eapply mapM_Forall; [|apply Forall_True|exact E].
    intros x y _ Hy. cbn in Hy. eapply vec_bin_wf; eauto. exact I.
Qed.

Lemma array_bin_go_wf o rows others r :
  Forall vwf rows -> Forall pwf others ->
  match rows, others with
  | [row], _ => do l <- mapM (fun x => vec_bin false o row x) others; obj_of_rows l
  | _, [x] => do l <- mapM (fun r => vec_bin false o r x) rows; obj_of_rows l
  | _, _ => do l <- map2M (fun r x => vec_bin false o r x) rows others; obj_of_rows l
  end = Ok r -> owf r.
Proof.
  intros Hr Ho H.
  assert (G1 : forall row l, vwf row -> mapM (fun x => vec_bin false o row x) others = Ok l -> Forall vwf l).
  { intros row l Hrow. eapply mapM_Forall; [|exact Ho]. intros x y Hx Hy. eapply vec_bin_wf; eauto. }
  assert (G2 : forall x l, pwf x -> mapM (fun r => vec_bin false o r x) rows = Ok l -> Forall vwf l).
  { intros x l Hx. eapply mapM_Forall; [|exact Hr]. intros r0 y Hr0 Hy. eapply vec_bin_wf; eauto. }
  assert (G3 : forall l, map2M (fun r x => vec_bin false o r x) rows others = Ok l -> Forall vwf l).
  { intros l. eapply map2M_Forall; [|exact Hr|exact Ho]. intros x y z Hx Hy Hz. eapply vec_bin_wf; eauto. }
  destruct rows as [|row [|row2 rows]].
  - destruct others as [|x [|x2 others]];
      match type of H with (do l <- ?m; _) = _ => destruct m eqn:E; cbn in H; try discriminate end;
      eapply obj_of_rows_wf; eauto. inversion Ho; subst. eapply G2; eauto.
  - match type of H with (do l <- ?m; _) = _ => destruct m eqn:E; cbn in H; try discriminate end.
    eapply obj_of_rows_wf; eauto. inversion Hr; subst. eapply G1; eauto.
  - destruct others as [|x [|x2 others]];
      match type of H with (do l <- ?m; _) = _ => destruct m eqn:E; cbn in H; try discriminate end;
      eapply obj_of_rows_wf; eauto. inversion Ho; subst. eapply G2; eauto.
Qed.
Lemma array_bin_wf o rows p r : Forall vwf rows -> pwf p -> array_bin false o rows p = Ok r -> owf r.
Proof.
  intros Hr Hp H. unfold array_bin in H. destruct p.
  1,2,5,6: match type of H with (do l <- ?m; _) = _ => destruct m eqn:E; cbn in H; try discriminate end;
           eapply obj_of_rows_wf; eauto; (eapply mapM_Forall; [|exact Hr|exact E]);
           intros x y Hx Hy; eapply vec_bin_wf; eauto.
  - eapply array_bin_go_wf; eauto. now apply map_PV_pwf.
  - eapply array_bin_go_wf; eauto. apply map_PL_pwf.
  - match type of H with (do l <- ?m; _) = _ => destruct m eqn:E; cbn in H; try discriminate end.
    eapply obj_of_rows_wf; eauto. eapply map2M_Forall; [|exact Hr|apply (Forall_True m)|exact E].
    intros x y z Hx _ Hz. cbn in Hz. eapply vec_bin_wf; eauto. exact I.
Qed.
Lemma array_ibin_wf o al rows p l : Forall vwf rows -> pwf p -> array_ibin false o al rows p = Ok l -> Forall vwf l.
Proof.
  intros Hr Hp H. unfold array_ibin in H.
  assert (G : forall al x l, pwf x -> mapM (fun row => vec_ibin false o al row x) rows = Ok l -> Forall vwf l).
  { intros al0 x l0 Hx. eapply mapM_Forall; [|exact Hr]. intros r0 y Hr0 Hy. eapply vec_ibin_wf; eauto. }
  destruct p; try (eapply G; eauto; fail).
  - destruct (negb (is_float_rows rows)); try discriminate. eapply G; eauto.
  - destruct (negb (is_float_rows rows)); try discriminate.
    destruct rows0 as [|x [|x2 rows0]].
    + eapply map2M_Forall; [|exact Hr|apply (Forall_True [])|exact H]. intros; eapply vec_ibin_wf; eauto.
    + inversion Hp; subst. eapply (G al (PV x)); eauto.
    + eapply map2M_Forall; [|exact Hr|exact Hp|exact H]. intros x0 y z Hx Hy Hz. eapply vec_ibin_wf; eauto.
  - destruct rows0 as [|x [|x2 rows0]].
    + eapply map2M_Forall; [|exact Hr|apply (Forall_True [])|exact H]. intros; eapply vec_ibin_wf; eauto.
    + eapply (G al (PL x)); eauto. exact I.
    + eapply map2M_Forall; [|exact Hr|apply (Forall_True (x :: x2 :: rows0))|exact H].
      intros x0 y z Hx _ Hz. eapply vec_ibin_wf; eauto. exact I.
  - eapply map2M_Forall; [|exact Hr|apply (Forall_True m)|exact H].
    intros x0 y z Hx _ Hz. eapply vec_ibin_wf; eauto. exact I.
Qed.
