(* C09 — lemmas.  Part 1: the representation invariant and its preservation by every kernel. *)
From V Require Import Common.NumFacts C09.Model C09.Dense.
From Coq Require Import Lia Lqa.

(* ------------------------------------------------------------------ invariant *)
Definition wfc (c : cell) : Prop := match c with Some q => ~ q == 0 | None => True end.
Definition wf (c : cells) : Prop := Forall wfc c.
Definition vwf (v : vec) : Prop := match v with VF c => wf c | VB _ => True end.
Definition owf (o : obj) : Prop :=
  match o with OV c _ => wf c | OA rows _ => Forall wf rows | _ => True end.
Definition store_wf (s : store) : Prop := Forall owf s.
Definition pwf (p : operand) : Prop :=
  match p with PV c => wf c | PA rows => Forall wf rows | _ => True end.

Lemma wfc_nz q : wfc (nz q).
Proof. unfold nz. destruct (qzerob q) eqn:E; cbn; auto. now apply qzerob_false. Qed.
Lemma dcell_nz q : dcell (nz q) == q.
Proof. unfold nz. destruct (qzerob q) eqn:E; cbn; try reflexivity. apply qzerob_true in E. now rewrite E. Qed.
Lemma qmul_nz a b : ~ a == 0 -> ~ b == 0 -> ~ a * b == 0.
Proof. intros Ha Hb H. apply Qmult_integral in H. tauto. Qed.
Lemma qinv_nz a : ~ a == 0 -> ~ / a == 0.
Proof. intros Ha H. assert (K : a * / a == 1) by (apply Qmult_inv_r; exact Ha). rewrite H in K. lra. Qed.
Lemma qdiv_nz a b : ~ a == 0 -> ~ b == 0 -> ~ a / b == 0.
Proof. intros Ha Hb. unfold Qdiv. apply qmul_nz; auto. now apply qinv_nz. Qed.
Lemma qopp_nz a : ~ a == 0 -> ~ - a == 0.
Proof. intros Ha H. apply Ha. lra. Qed.
Lemma qabs_nz a : ~ a == 0 -> ~ Qabs a == 0.
Proof.
  intros Ha H. apply Ha. destruct (Qlt_le_dec a 0) as [L|L].
  - rewrite Qabs_neg in H by lra. lra.
  - rewrite Qabs_pos in H by lra. exact H.
Qed.

Lemma wf_empty n : wf (empty_cells n).
Proof. unfold wf, empty_cells. induction n; cbn; constructor; cbn; auto. Qed.
Lemma wf_of_dense l : wf (of_dense l).
Proof. unfold wf, of_dense. induction l; cbn; constructor; auto using wfc_nz. Qed.
Lemma wf_cells_of_bits b : wf (cells_of_bits b).
Proof. unfold wf, cells_of_bits. induction b as [|[|] b IH]; cbn; constructor; cbn; auto. lra. Qed.
Lemma wf_map (f : cell -> cell) a : (forall x, wfc x -> wfc (f x)) -> wf a -> wf (map f a).
Proof. intros Hf H. unfold wf in *. induction H; cbn; constructor; auto. Qed.
Lemma wf_map_any {A} (f : A -> cell) (l : list A) : (forall x, wfc (f x)) -> wf (map f l).
Proof. intros Hf. unfold wf. induction l; cbn; constructor; auto. Qed.
Lemma wf_map2 (f : cell -> cell -> cell) a b :
  (forall x y, wfc x -> wfc y -> wfc (f x y)) -> wf a -> wf b -> wf (map2 f a b).
Proof.
  intros Hf Ha. revert b. unfold wf in *. induction Ha as [|x a Hx Ha IH]; intros [|y b] Hb; cbn; try constructor.
  - inversion Hb; subst. auto.
  - inversion Hb; subst. auto.
Qed.
Lemma wf_map2_arr {B} (f : cell -> B -> cell) a (b : list B) :
  (forall x y, wfc x -> wfc (f x y)) -> wf a -> wf (map2 f a b).
Proof.
  intros Hf Ha. revert b. unfold wf in *. induction Ha as [|x a Hx Ha IH]; intros [|y b]; cbn; constructor; auto.
Qed.
Lemma wf_mapM {A} (f : A -> res cell) (l : list A) r :
  (forall x c, f x = Ok c -> wfc c) -> mapM f l = Ok r -> wf r.
Proof.
  intros Hf. revert r. unfold wf. induction l as [|x l IH]; cbn; intros r H.
  - inversion H. constructor.
  - destruct (f x) eqn:E; try discriminate. destruct (mapM f l) eqn:E2; try discriminate.
    inversion H; subst. constructor; eauto.
Qed.
Lemma wf_mapM_in (f : cell -> res cell) (l : cells) r :
  (forall x c, wfc x -> f x = Ok c -> wfc c) -> wf l -> mapM f l = Ok r -> wf r.
Proof.
  intros Hf Hl. revert r. unfold wf in *. induction Hl as [|x l Hx Hl IH]; cbn; intros r H.
  - inversion H. constructor.
  - destruct (f x) eqn:E; try discriminate. destruct (mapM f l) eqn:E2; try discriminate.
    inversion H; subst. constructor; eauto.
Qed.
Lemma wf_map2M (f : cell -> cell -> res cell) a b r :
  (forall x y c, wfc x -> wfc y -> f x y = Ok c -> wfc c) -> wf a -> wf b -> map2M f a b = Ok r -> wf r.
Proof.
  intros Hf Ha. revert b r. unfold wf in *. induction Ha as [|x a Hx Ha IH]; intros [|y b] r Hb H; cbn in H;
    try (inversion H; constructor).
  inversion Hb; subst.
  destruct (f x y) eqn:E; try discriminate. destruct (map2M f a b) eqn:E2; try discriminate.
  inversion H; subst. constructor; eauto.
Qed.
Lemma wf_map2M_arr {B} (f : cell -> B -> res cell) a (b : list B) r :
  (forall x y c, wfc x -> f x y = Ok c -> wfc c) -> wf a -> map2M f a b = Ok r -> wf r.
Proof.
  intros Hf Ha. revert b r. unfold wf in *. induction Ha as [|x a Hx Ha IH]; intros [|y b] r H; cbn in H;
    try (inversion H; constructor).
  destruct (f x y) eqn:E; try discriminate. destruct (map2M f a b) eqn:E2; try discriminate.
  inversion H; subst. constructor; eauto.
Qed.
Lemma wf_hd a : wf a -> wfc (hd None a).
Proof. intros H. destruct H; cbn; auto. Qed.
Lemma wfc_join (o : option cell) (b : cells) : wf b -> hd_error b = o -> wfc (join_cell o).
Proof. intros H E. destruct H; cbn in E; subst; cbn; auto. Qed.

(* cell-level tactic: case analysis on the cells, on the zero tests, then arithmetic *)
Ltac nzt :=
  repeat match goal with
         | H : wfc (Some _) |- _ => cbn in H
         | |- wfc (nz _) => apply wfc_nz
         | |- wfc None => exact I
         | |- wfc (Some _) => cbn
         | |- ~ _ * _ == 0 => apply qmul_nz
         | |- ~ _ / _ == 0 => apply qdiv_nz
         | |- ~ - _ == 0 => apply qopp_nz
         | |- ~ Qabs _ == 0 => apply qabs_nz
         end; auto.
Ltac cellwf :=
  intros;
  repeat match goal with c : cell |- _ => destruct c end;
  cbn in *; nzt;
  repeat match goal with
         | |- context [qzerob ?q] => let E := fresh "E" in destruct (qzerob q) eqn:E; cbn
         end; nzt;
  try match goal with E : qzerob _ = false |- ~ _ == 0 => now apply qzerob_false end.

(* ------------------------------------------------------------------ arithmetic kernels keep the invariant *)
Lemma dispatch_sparse_wf (same : cells -> cells -> res cells) self1 other1 a b r :
  wf a -> wf b ->
  (forall r, same a b = Ok r -> wf r) ->
  (forall v r, wfc v -> self1 v b = Ok r -> wf r) ->
  (forall o r, wfc (join_cell o) -> other1 a o = Ok r -> wf r) ->
  dispatch_sparse same self1 other1 a b = Ok r -> wf r.
Proof.
  intros Ha Hb H1 H2 H3. unfold dispatch_sparse.
  destruct (Nat.eqb (length a) (length b)); [apply H1|].
  destruct (len1 a && negb (len0 b)); [apply H2; now apply wf_hd|].
  destruct (len1 b); [|discriminate].
  apply H3. eapply wfc_join; eauto.
Qed.
Lemma dispatch_array_wf {B} (same : cells -> list B -> res cells) self1 a (b : list B) r :
  wf a ->
  (forall r, same a b = Ok r -> wf r) ->
  (forall v r, wfc v -> self1 v b = Ok r -> wf r) ->
  dispatch_array same self1 a b = Ok r -> wf r.
Proof.
  intros Ha H1 H2. unfold dispatch_array.
  destruct (Nat.eqb (length a) (length b)); [apply H1|].
  destruct (len1 a && negb (len0 b)); [apply H2; now apply wf_hd|discriminate].
Qed.
Ltac okinv := match goal with H : Ok _ = Ok _ |- _ => inversion H; subst; clear H end.

Lemma add_other1_wf a o : wf a -> wfc o -> wf (add_other1 a o).
Proof. intros Ha Ho. destruct o; cbn; auto. apply wf_map; auto. cellwf. Qed.
Lemma add_sparse_wf a b r : wf a -> wf b -> add_sparse a b = Ok r -> wf r.
Proof.
  intros Ha Hb. apply dispatch_sparse_wf; auto; intros; okinv.
  - apply wf_map2; auto. unfold add_same_c. cellwf.
  - destruct v; cbn; auto. apply wf_map; auto. cellwf.
  - now apply add_other1_wf.
Qed.
Lemma add_scalar_wf a k r : wf a -> add_scalar a k = Ok r -> wf r.
Proof.
  intros Ha H. unfold add_scalar in H. okinv. destruct (qzerob k) eqn:E; auto.
  apply (add_other1_wf a (Some k)); auto. cbn. now apply qzerob_false.
Qed.
Lemma add_array_wf a b r : wf a -> add_array a b = Ok r -> wf r.
Proof.
  intros Ha. apply dispatch_array_wf; auto; intros; okinv.
  - apply wf_map2_arr; auto. unfold add_arr_c. cellwf.
  - destruct v; cbn; apply wf_map_any; intros; apply wfc_nz.
Qed.

Lemma sub_other1_wf a o : wf a -> wfc o -> wf (sub_other1 a o).
Proof. intros Ha Ho. destruct o; cbn; auto. apply wf_map; auto. cellwf. Qed.
Lemma sub_sparse_wf a b r : wf a -> wf b -> sub_sparse a b = Ok r -> wf r.
Proof.
  intros Ha Hb. apply dispatch_sparse_wf; auto; intros; okinv.
  - apply wf_map2; auto. unfold sub_same_c. cellwf.
  - destruct v; cbn; apply wf_map; auto; cellwf.
  - now apply sub_other1_wf.
Qed.
Lemma sub_scalar_wf a k r : wf a -> sub_scalar a k = Ok r -> wf r.
Proof.
  intros Ha H. unfold sub_scalar in H. okinv. destruct (qzerob k) eqn:E; auto.
  apply (sub_other1_wf a (Some k)); auto. cbn. now apply qzerob_false.
Qed.
Lemma sub_array_wf a b r : wf a -> sub_array a b = Ok r -> wf r.
Proof.
  intros Ha. apply dispatch_array_wf; auto; intros; okinv.
  - apply wf_map2_arr; auto. unfold sub_arr_c. cellwf.
  - destruct v; cbn; apply wf_map_any; intros; cellwf.
Qed.

Lemma mul_sparse_wf a b r : wf a -> wf b -> mul_sparse a b = Ok r -> wf r.
Proof.
  intros Ha Hb. apply dispatch_sparse_wf; auto; intros; okinv.
  - apply wf_map2; auto. unfold mul_same_c. cellwf.
  - destruct v; cbn; [apply wf_map; auto; cellwf | apply wf_empty].
  - unfold mul_other1. destruct (join_cell o); cbn; [apply wf_map; auto; cellwf | apply wf_empty].
Qed.
Lemma mul_scalar_wf a k r : wf a -> mul_scalar a k = Ok r -> wf r.
Proof.
  intros Ha H. unfold mul_scalar in H. okinv. destruct (qzerob k) eqn:E; [apply wf_empty|].
  apply qzerob_false in E. apply wf_map; auto. cellwf.
Qed.
Lemma mul_array_wf a b r : wf a -> mul_array a b = Ok r -> wf r.
Proof.
  intros Ha. apply dispatch_array_wf; auto; intros; okinv.
  - apply wf_map2_arr; auto. unfold mul_arr_c. cellwf.
  - destruct v; cbn; [apply wf_map_any; intros; cellwf | apply wf_empty].
Qed.

Lemma qdiv_ok v w q : qdiv v w = Ok q -> ~ w == 0 /\ q = v / w.
Proof. unfold qdiv. destruct (qzerob w) eqn:E; intros H; inversion H. split; auto. now apply qzerob_false. Qed.
Lemma div_c_wf x y c : wfc x -> div_c x y = Ok c -> wfc c.
Proof.
  destruct x as [v|]; cbn; intros Hx H; [|inversion H; exact I].
  destruct (qdiv v y) eqn:E; cbn in H; inversion H; subst. apply qdiv_ok in E as [Hy ->]. cbn. now apply qdiv_nz.
Qed.
Lemma truediv_scalar_wf a k r : wf a -> truediv_scalar a k = Ok r -> wf r.
Proof. intros Ha. apply wf_mapM_in; auto. intros x c Hx. now apply div_c_wf. Qed.
Lemma truediv_same_c_wf x y c : wfc x -> wfc y -> truediv_same_c x y = Ok c -> wfc c.
Proof.
  destruct x as [v|], y as [w|]; cbn; intros Hx Hy H; try discriminate; try (inversion H; exact I).
  destruct (qdiv v w) eqn:E; cbn in H; inversion H; subst. apply qdiv_ok in E as [Hw ->]. cbn. now apply qdiv_nz.
Qed.
Lemma truediv_sparse_wf a b r : wf a -> wf b -> truediv_sparse a b = Ok r -> wf r.
Proof.
  intros Ha Hb. apply dispatch_sparse_wf; auto.
  - intros r0. apply wf_map2M; auto. intros x y c. apply truediv_same_c_wf.
  - intros v r0 Hv. unfold truediv_self1. destruct v as [value|]; [|intros H; okinv; apply wf_empty].
    destruct (Nat.eqb (nkeys b) (length b)); [|discriminate].
    apply wf_mapM. intros x c. now apply div_c_wf.
  - intros o r0 Ho. unfold truediv_other1. destruct (join_cell o) as [other|].
    + apply wf_mapM_in; auto. intros x c Hx. now apply div_c_wf.
    + destruct (Nat.eqb (nkeys a) 0); intros H; inversion H; subst; auto.
Qed.
Lemma truediv_array_wf a b r : wf a -> truediv_array a b = Ok r -> wf r.
Proof.
  intros Ha. apply dispatch_array_wf; auto.
  - intros r0. apply wf_map2M_arr; auto. intros x y c. apply div_c_wf.
  - intros v r0 Hv. unfold truediv_arr_self1. destruct v as [value|]; [|intros H; okinv; apply wf_empty].
    apply wf_mapM. intros x c. now apply div_c_wf.
Qed.

Lemma neg_cells_wf a : wf a -> wf (neg_cells a).
Proof. intros. apply wf_map; auto. cellwf. Qed.
Lemma abs_cells_wf a : wf a -> wf (abs_cells a).
Proof. intros. apply wf_map; auto. cellwf. Qed.
Lemma rtruediv_scalar_wf a k r : wf a -> rtruediv_scalar a k = Ok r -> wf r.
Proof.
  intros Ha. unfold rtruediv_scalar. destruct (qzerob k) eqn:E; [intros H; okinv; apply wf_empty|].
  apply qzerob_false in E. destruct (Nat.eqb (nkeys a) (length a)); [|discriminate].
  apply wf_mapM. intros x c H. destruct (qdiv k (dcell x)) eqn:D; cbn in H; inversion H; subst.
  apply qdiv_ok in D as [Hx ->]. cbn. now apply qdiv_nz.
Qed.
Lemma rsub_scalar_wf a k r : wf a -> rsub_scalar a k = Ok r -> wf r.
Proof. intros Ha. unfold rsub_scalar. apply add_scalar_wf. now apply neg_cells_wf. Qed.

Lemma k_sparse_wf o a b r : wf a -> wf b -> k_sparse false o a b = Ok r -> wf r.
Proof. destruct o; cbn; eauto using add_sparse_wf, sub_sparse_wf, mul_sparse_wf, truediv_sparse_wf. Qed.
Lemma k_scalar_wf o a k r : wf a -> k_scalar o a k = Ok r -> wf r.
Proof. destruct o; cbn; eauto using add_scalar_wf, sub_scalar_wf, mul_scalar_wf, truediv_scalar_wf. Qed.
Lemma k_array_wf o a b r : wf a -> k_array o a b = Ok r -> wf r.
Proof. destruct o; cbn; eauto using add_array_wf, sub_array_wf, mul_array_wf, truediv_array_wf. Qed.
Lemma ik_sparse_wf o al a b r : wf a -> wf b -> ik_sparse false o al a b = Ok r -> wf r.
Proof.
  intros Ha Hb. unfold ik_sparse. destruct al.
  - destruct o; cbn; unfold iadd_self, isub_self_fixed, imul_self, itruediv_self;
      eauto using add_sparse_wf, sub_sparse_wf, mul_sparse_wf, truediv_sparse_wf.
  - destruct o; cbn; eauto using add_sparse_wf, sub_sparse_wf, mul_sparse_wf, truediv_sparse_wf.
Qed.

(* ------------------------------------------------------------------ Part 2: every operation of the store keeps the invariant *)
Lemma mapM_Forall {A B} (P : A -> Prop) (Q : B -> Prop) (f : A -> res B) l r :
  (forall x y, P x -> f x = Ok y -> Q y) -> Forall P l -> mapM f l = Ok r -> Forall Q r.
Proof.
  intros Hf Hl. revert r. induction Hl as [|x l Hx Hl IH]; cbn; intros r H.
  - inversion H. constructor.
  - destruct (f x) eqn:E; try discriminate. destruct (mapM f l) eqn:E2; try discriminate.
    inversion H; subst. constructor; eauto.
Qed.
Lemma map2M_Forall {A B C} (P : A -> Prop) (P' : B -> Prop) (Q : C -> Prop) (f : A -> B -> res C) a b r :
  (forall x y z, P x -> P' y -> f x y = Ok z -> Q z) -> Forall P a -> Forall P' b -> map2M f a b = Ok r -> Forall Q r.
Proof.
  intros Hf Ha. revert b r. induction Ha as [|x a Hx Ha IH]; intros [|y b] r Hb H; cbn in H;
    try (inversion H; constructor).
  inversion Hb; subst.
  destruct (f x y) eqn:E; try discriminate. destruct (map2M f a b) eqn:E2; try discriminate.
  inversion H; subst. constructor; eauto.
Qed.
Lemma Forall_True {A} (l : list A) : Forall (fun _ => True) l.
Proof. induction l; constructor; auto. Qed.
Lemma Forall_upd {A} (P : A -> Prop) l i x : Forall P l -> P x -> Forall P (upd l i x).
Proof.
  intros Hl Hx. revert i. induction Hl as [|h t Hh Ht IH]; intros [|i]; cbn; constructor; auto.
Qed.
Lemma Forall_nth_error {A} (P : A -> Prop) l i x : Forall P l -> nth_error l i = Some x -> P x.
Proof. intros Hl H. eapply Forall_forall; eauto. eapply nth_error_In; eauto. Qed.
Lemma Forall_nth {A} (P : A -> Prop) l i d : Forall P l -> P d -> P (nth i l d).
Proof. intros Hl Hd. revert i. induction Hl; intros [|i]; cbn; auto. Qed.

Lemma okF_inv x r : okF x = Ok r -> exists c, x = Ok c /\ r = VF c.
Proof. destruct x; cbn; intros H; inversion H; eauto. Qed.
Lemma okB_inv x r : okB x = Ok r -> exists b, r = VB b.
Proof. destruct x; cbn; intros H; inversion H; eauto. Qed.
Ltac vinv :=
  repeat match goal with
         | H : okF _ = Ok _ |- _ => apply okF_inv in H as (? & ? & ->)
         | H : okB _ = Ok _ |- _ => apply okB_inv in H as (? & ->)
         | H : Ok _ = Ok _ |- _ => inversion H; subst; clear H
         | H : Err _ = Ok _ |- _ => discriminate H
         | H : unsupported = Ok _ |- _ => discriminate H
         end.

Opaque k_sparse k_scalar k_array ik_sparse lv_isparse lv_iscalar lv_iarray cmp_sparse cmp_scalar cmp_array lv_cmp_sparse lv_cmp_scalar.
Lemma vec_bin_wf o self p r : vwf self -> pwf p -> vec_bin false o self p = Ok r -> vwf r.
Proof.
  intros Hs Hp H. destruct self as [c|b]; cbn in Hs.
  - destruct o as [a|m|lo], p; cbn in H; vinv; cbn; auto;
      eauto using k_sparse_wf, k_scalar_wf, k_array_wf, wf_cells_of_bits.
  - pose proof (wf_cells_of_bits b) as Hb.
    destruct o as [a|m|lo]; [destruct a| |]; destruct p; cbn in H;
      repeat match type of H with
             | context [if ?x then _ else _] => destruct x
             | context [match ?l with [] => _ | _ => _ end] => destruct l
             end; vinv; cbn; auto;
      eauto using k_sparse_wf, k_scalar_wf, k_array_wf, wf_cells_of_bits.
Qed.
Lemma vec_ibin_wf o al self p r : vwf self -> pwf p -> vec_ibin false o al self p = Ok r -> vwf r.
Proof.
  intros Hs Hp H. destruct self as [c|b]; cbn in Hs.
  - destruct o as [a|m|lo], p; cbn in H; vinv; cbn; auto;
      eauto using ik_sparse_wf, k_scalar_wf, k_array_wf, wf_cells_of_bits.
  - destruct o as [a|m|lo]; [destruct a| |]; destruct p; cbn in H;
      repeat match type of H with
             | context [if ?x then _ else _] => destruct x
             end; vinv; cbn; auto.
Qed.

Transparent k_sparse k_scalar k_array ik_sparse lv_isparse lv_iscalar lv_iarray cmp_sparse cmp_scalar cmp_array lv_cmp_sparse lv_cmp_scalar.
Lemma all_F_wf l r : Forall vwf l -> all_F l = Some r -> Forall wf r.
Proof.
  intros Hl. revert r. induction Hl as [|x l Hx Hl IH]; cbn; intros r H.
  - inversion H. constructor.
  - destruct x; try discriminate. destruct (all_F l); cbn in H; inversion H; subst. constructor; auto.
Qed.
Lemma obj_of_rows_wf l o : Forall vwf l -> obj_of_rows l = Ok o -> owf o.
Proof.
  intros Hl H. unfold obj_of_rows in H. destruct (all_F l) eqn:E.
  - inversion H; subst. cbn. eapply all_F_wf; eauto.
  - destruct (all_B l); inversion H; subst. exact I.
Qed.
Lemma obj_of_vec_wf v : vwf v -> owf (obj_of_vec v).
Proof. destruct v; cbn; auto. Qed.
Lemma rows_of_wf o : owf o -> Forall vwf (rows_of o).
Proof.
  destruct o; cbn; intros H; try (repeat constructor; auto; fail).
  - induction H; cbn; constructor; auto.
  - induction rows; cbn; constructor; cbn; auto.
Qed.
Lemma map_PV_pwf r : Forall wf r -> Forall pwf (map PV r).
Proof. intros H. induction H; cbn; constructor; auto. Qed.
Lemma map_PL_pwf r : Forall pwf (map PL r).
Proof. induction r; cbn; constructor; cbn; auto. Qed.

Lemma vector_bin_wf o self p r : vwf self -> pwf p -> vector_bin false o self p = Ok r -> owf r.
Proof.
  intros Hs Hp H. unfold vector_bin in H.
  set (self' := match self, o with VB b, BA Sub => VF (cells_of_bits b) | _, _ => self end) in *.
  assert (Hs' : vwf self').
  { subst self'. destruct self; auto. destruct o as [[]| |]; auto; apply wf_cells_of_bits. }
  destruct p; cbn in H.
  1,2,5,6: destruct (vec_bin false o self' _) eqn:E; cbn in H; inversion H; subst;
           apply obj_of_vec_wf; eapply vec_bin_wf; [exact Hs'|exact Hp|exact E].
  - destruct (mapM _ rows) eqn:E; cbn in H; try discriminate.
    eapply obj_of_rows_wf; [|eassumption]. eapply mapM_Forall; [|exact Hp|exact E].
    intros x y Hx Hy. cbn in Hy. eapply vec_bin_wf; [exact Hs'| |exact Hy]. exact Hx.
  - destruct (mapM _ rows) eqn:E; cbn in H; try discriminate.
    eapply obj_of_rows_wf; [|eassumption]. eapply mapM_Forall; [|apply Forall_True|exact E].
    intros x y _ Hy. cbn in Hy. eapply vec_bin_wf; [exact Hs'| |exact Hy]. exact I.
  - destruct (mapM _ m) eqn:E; cbn in H; try discriminate.
    eapply obj_of_rows_wf; [|eassumption]. eapply mapM_Forall; [|apply Forall_True|exact E].
    intros x y _ Hy. cbn in Hy. eapply vec_bin_wf; [exact Hs'| |exact Hy]. exact I.
Qed.

Lemma array_bin_go_wf o rows others r :
  Forall vwf rows -> Forall pwf others ->
  match rows, others with
  | [row], _ => do l <- mapM (fun x => vec_bin false o row x) others; obj_of_rows l
  | _, [x] => do l <- mapM (fun r => vec_bin false o r x) rows; obj_of_rows l
  | _, _ => do l <- map2M (fun r x => vec_bin false o r x) rows others; obj_of_rows l
  end = Ok r -> owf r.
Proof.
  intros Hr Ho H.
  assert (G1 : forall row l, vwf row -> mapM (fun x => vec_bin false o row x) others = Ok l -> Forall vwf l).
  { intros row l Hrow. eapply mapM_Forall; [|exact Ho]. intros x y Hx Hy. eapply vec_bin_wf; eauto. }
  assert (G2 : forall x l, pwf x -> mapM (fun r => vec_bin false o r x) rows = Ok l -> Forall vwf l).
  { intros x l Hx. eapply mapM_Forall; [|exact Hr]. intros r0 y Hr0 Hy. eapply vec_bin_wf; eauto. }
  assert (G3 : forall l, map2M (fun r x => vec_bin false o r x) rows others = Ok l -> Forall vwf l).
  { intros l. eapply map2M_Forall; [|exact Hr|exact Ho]. intros x y z Hx Hy Hz. eapply vec_bin_wf; eauto. }
  destruct rows as [|row [|row2 rows]]; destruct others as [|x [|x2 others]]; cbn [bind] in H.
  all: match type of H with (do l <- ?m; _) = _ => destruct m eqn:E; cbn in H; try discriminate end;
       (eapply obj_of_rows_wf; [|exact H]);
       first [ eapply G3; first [exact E | reflexivity]
             | inversion Ho; subst; eapply G2; [|first [exact E | reflexivity]]; assumption
             | inversion Hr; subst; eapply G1; [|first [exact E | reflexivity]]; assumption ].
Qed.
Lemma array_bin_wf o rows p r : Forall vwf rows -> pwf p -> array_bin false o rows p = Ok r -> owf r.
Proof.
  intros Hr Hp H. unfold array_bin in H.
  assert (G : forall x l, pwf x -> mapM (fun r => vec_bin false o r x) rows = Ok l -> Forall vwf l).
  { intros x l Hx. eapply mapM_Forall; [|exact Hr]. intros r0 y Hr0 Hy. eapply vec_bin_wf; [exact Hr0|exact Hx|exact Hy]. }
  destruct p.
  1,2,5,6: match type of H with (do l <- ?m; _) = _ => destruct m eqn:E; cbn in H; try discriminate end;
           (eapply obj_of_rows_wf; [|exact H]); eapply G; [exact Hp|exact E].
  - eapply array_bin_go_wf; [exact Hr| |exact H]. now apply map_PV_pwf.
  - eapply array_bin_go_wf; [exact Hr| |exact H]. apply map_PL_pwf.
  - match type of H with (do l <- ?m; _) = _ => destruct m eqn:E; cbn in H; try discriminate end.
    eapply obj_of_rows_wf; [|exact H]. eapply map2M_Forall; [|exact Hr|apply (Forall_True m)|exact E].
    intros x y z Hx _ Hz. cbn in Hz. eapply vec_bin_wf; [exact Hx| |exact Hz]. exact I.
Qed.
Lemma array_ibin_wf o al rows p l : Forall vwf rows -> pwf p -> array_ibin false o al rows p = Ok l -> Forall vwf l.
Proof.
  intros Hr Hp H. unfold array_ibin in H.
  assert (G : forall al x l, pwf x -> mapM (fun row => vec_ibin false o al row x) rows = Ok l -> Forall vwf l).
  { intros al0 x l0 Hx. eapply mapM_Forall; [|exact Hr]. intros r0 y Hr0 Hy. eapply vec_ibin_wf; [exact Hr0|exact Hx|exact Hy]. }
  destruct p.
  - destruct (negb (is_float_rows rows)); try discriminate. eapply G; [exact Hp|exact H].
  - eapply G; [exact Hp|exact H].
  - destruct (negb (is_float_rows rows)); try discriminate.
    destruct rows0 as [|x [|x2 rows0]].
    + eapply map2M_Forall; [|exact Hr|exact Hp|exact H].
      intros x0 y z Hx Hy Hz. cbn in Hz. eapply vec_ibin_wf; [exact Hx| |exact Hz]. exact Hy.
    + inversion Hp; subst. eapply (G al (PV x)); [assumption|exact H].
    + eapply map2M_Forall; [|exact Hr|exact Hp|exact H].
      intros x0 y z Hx Hy Hz. cbn in Hz. eapply vec_ibin_wf; [exact Hx| |exact Hz]. exact Hy.
  - destruct rows0 as [|x [|x2 rows0]].
    + eapply map2M_Forall; [|exact Hr|apply (Forall_True [])|exact H].
      intros x0 y z Hx _ Hz. cbn in Hz. eapply vec_ibin_wf; [exact Hx| |exact Hz]. exact I.
    + eapply (G al (PL x)); [exact I|exact H].
    + eapply map2M_Forall; [|exact Hr|apply (Forall_True (x :: x2 :: rows0))|exact H].
      intros x0 y z Hx _ Hz. cbn in Hz. eapply vec_ibin_wf; [exact Hx| |exact Hz]. exact I.
  - eapply G; [exact Hp|exact H].
  - eapply G; [exact Hp|exact H].
  - eapply map2M_Forall; [|exact Hr|apply (Forall_True m)|exact H].
    intros x0 y z Hx _ Hz. cbn in Hz. eapply vec_ibin_wf; [exact Hx| |exact Hz]. exact I.
Qed.

(* ------------------------------------------------------------------ indexing and reductions keep the invariant *)
Lemma wf_upd a i c : wf a -> wfc c -> wf (upd a i c).
Proof. intros. now apply Forall_upd. Qed.
Lemma set1_wf a i v r : wf a -> set1 a i v = Ok r -> wf r.
Proof.
  unfold set1. intros Ha H. destruct (inb a i).
  - okinv. apply wf_upd; auto. apply wfc_nz.
  - destruct (qzerob v); inversion H; subst; auto.
Qed.
Lemma set_zip_wf idx : forall a vals r, wf a -> set_zip a idx vals = Ok r -> wf r.
Proof.
  induction idx as [|i idx IH]; intros a [|v vals] r Ha H; cbn in H; try (okinv; auto; fail).
  destruct (set1 a i v) eqn:E; cbn in H; try discriminate. eapply IH; [|exact H]. eapply set1_wf; eauto.
Qed.
Lemma set_all_wf idx : forall a v r, wf a -> set_all a idx v = Ok r -> wf r.
Proof.
  induction idx as [|i idx IH]; intros a v r Ha H; cbn in H; try (okinv; auto; fail).
  destruct (set1 a i v) eqn:E; cbn in H; try discriminate. eapply IH; [|exact H]. eapply set1_wf; eauto.
Qed.
Lemma set_zip_lazy_wf idx : forall a k r, wf a -> set_zip_lazy a idx k = Ok r -> wf r.
Proof.
  induction idx as [|i idx IH]; intros a k r Ha H; cbn [set_zip_lazy] in H; try (okinv; auto; fail).
  destruct (Nat.ltb k (length a)); [|okinv; auto].
  destruct (set1 a i (getc a k)) eqn:E; cbn in H; try discriminate. eapply IH; [|exact H]. eapply set1_wf; eauto.
Qed.
Lemma wf_app a b : wf a -> wf b -> wf (a ++ b).
Proof. intros. now apply Forall_app. Qed.
Lemma wf_firstn n a : wf a -> wf (firstn n a).
Proof. intros H. revert n. unfold wf in *. induction H; intros [|n]; cbn; try constructor; auto. Qed.
Definition svwf (v : sval) : Prop := match v with SVObj c => wf c | _ => True end.
Lemma set_open_wf a v r : svwf v -> set_open a v = Ok r -> wf r.
Proof.
  intros Hv H. destruct v as [q|l|c]; cbn in H.
  - okinv. destruct (qzerob q) eqn:E; [apply wf_empty|]. apply qzerob_false in E. apply wf_map_any. intros; exact E.
  - eapply set_zip_wf; [|exact H]. apply wf_empty.
  - destruct (Nat.leb (length c) (length a)).
    + okinv. apply wf_app; auto. apply wf_empty.
    + destruct (Nat.eqb (nkeys (skipn (length a) c)) 0); inversion H; subst. now apply wf_firstn.
Qed.
Lemma set_idx_wf a idx v r : wf a -> set_idx a idx v = Ok r -> wf r.
Proof. intros Ha H. destruct v; cbn in H; eauto using set_zip_wf, set_all_wf. Qed.
Lemma sval_of_wf p v : pwf p -> sval_of p = Ok v -> svwf v.
Proof.
  intros Hp H. destruct p; cbn in H; try discriminate; try (okinv; exact I).
  - destruct c as [|x [|y c]]; okinv; cbn; auto.
  - destruct b as [|x [|y b]]; okinv; cbn; auto.
Qed.
Lemma vecF_set_wf c ix p r : wf c -> pwf p -> vecF_set c ix p = Ok r -> wf r.
Proof.
  intros Hc Hp H. unfold vecF_set in H. destruct (sval_of p) as [v|] eqn:E; cbn in H; try discriminate.
  pose proof (sval_of_wf _ _ Hp E) as Hv.
  destruct ix; try (eapply set_idx_wf; eauto; fail).
  - destruct v; try discriminate. eapply set1_wf; eauto.
  - destruct v; try discriminate. eapply set1_wf; eauto.
  - eapply set_open_wf; eauto.
Qed.
Lemma reduce_obj_pwf p : pwf p -> pwf (reduce_obj p).
Proof.
  intros Hp. unfold reduce_obj.
  destruct p as [c|b|rows|rows|q isb|l isb|m isb]; cbn; auto.
  - destruct c as [|x [|y c]]; cbn; auto.
  - destruct b as [|x [|y b]]; cbn; auto.
  - destruct rows as [|r [|r2 rows]]; cbn; auto. inversion Hp; subst. destruct r as [|x [|y r]]; cbn; auto.
  - destruct rows as [|r [|r2 rows]]; cbn; auto. destruct r as [|x [|y r]]; cbn; auto.
Qed.
Lemma resolve_pwf s a p : store_wf s -> resolve s a = Ok p -> pwf p.
Proof.
  intros Hs H. destruct a; cbn in H; try (okinv; cbn; auto; fail).
  - unfold getobj in H. destruct (nth_error s i) eqn:E; cbn in H; try discriminate. okinv.
    pose proof (Forall_nth_error _ _ _ _ Hs E) as Ho. destruct o; cbn; auto.
  - okinv. unfold reduce1. destruct l as [|x [|y l]]; cbn; auto.
  - okinv. unfold reduce1. destruct (map b2q l) as [|x [|y l0]]; cbn; auto.
  - okinv. unfold reduce2, reduce1. destruct m as [|r [|r2 m]]; cbn; auto. destruct r as [|x [|y r]]; cbn; auto.
  - okinv. unfold reduce2, reduce1. destruct (map (map b2q) m) as [|r [|r2 m0]]; cbn; auto. destruct r as [|x [|y r]]; cbn; auto.
Qed.
Lemma getobj_wf s i o : store_wf s -> getobj s i = Ok o -> owf o.
Proof.
  intros Hs H. unfold getobj in H. destruct (nth_error s i) eqn:E; inversion H; subst.
  eapply Forall_nth_error; eauto.
Qed.

Lemma red_vecF_new r c keep n : red_vecF r c keep = RNew n -> owf n.
Proof.
  unfold red_vecF. destruct r, keep; cbn; intros H; try discriminate; inversion H; subst; cbn; auto;
    try (repeat constructor; apply wfc_nz).
  all: match type of H with context [match ?x with _ => _ end] => destruct x; try discriminate end;
    inversion H; subst; cbn; repeat constructor; apply wfc_nz.
Qed.
Lemma red_vecB_new r b keep n : red_vecB r b keep = RNew n -> owf n.
Proof.
  unfold red_vecB. destruct r, keep; cbn; intros H; try discriminate; inversion H; subst; cbn; auto;
    try (repeat constructor; apply wfc_nz).
  all: repeat match type of H with context [if ?x then _ else _] => destruct x; try discriminate end;
    inversion H; subst; cbn; repeat constructor; apply wfc_nz.
Qed.
Lemma wf_map_nz {A} (f : A -> Q) l : wf (map (fun x => nz (f x)) l).
Proof. apply wf_map_any. intros; apply wfc_nz. Qed.
Lemma Forall_wf_single {A} (f : A -> Q) l : Forall wf (map (fun x => [nz (f x)]) l).
Proof. induction l; cbn; constructor; auto. repeat constructor. apply wfc_nz. Qed.
Lemma red_arrF_new r rows axis keep n : Forall wf rows -> red_arrF false r rows axis keep = RNew n -> owf n.
Proof.
  intros Hr. unfold red_arrF.
  destruct axis as [[|[|k]]|]; destruct r, keep; cbn; intros H; try discriminate;
    repeat match type of H with
           | context [match ?x with _ => _ end] => destruct x eqn:?; try discriminate
           end;
    inversion H; subst; cbn; auto;
    try (repeat constructor; try apply wfc_nz; try apply (wf_map_nz (fun c => c)); fail).
  all: try (rewrite map_map; apply (Forall_wf_single (fun x => x))).
  all: try (constructor; [|constructor]).
  all: try (apply wf_map_any; intros; apply wfc_nz).
  all: try (rewrite <- (map_map (fun x => x) (fun x => [nz x])); apply (Forall_wf_single (fun x => x))).
  all: try (eapply truediv_scalar_wf; [|eassumption]; apply wf_map_any; intros; apply wfc_nz).
Qed.

(* ------------------------------------------------------------------ SparseArray.__setitem__ keeps the invariant *)
Lemma upd_rows_Forall {A} (P : A -> Prop) (f : A -> A * option err) sel : forall rows,
  (forall r, P r -> P (fst (f r))) -> Forall P rows -> Forall P (fst (upd_rows f rows sel)).
Proof.
  induction sel as [|i sel IH]; intros rows Hf Hr; cbn; auto.
  destruct (nth_error rows i) eqn:E; cbn; auto.
  pose proof (Hf a (Forall_nth_error _ _ _ _ Hr E)) as Ha.
  destruct (f a) as [r' [e|]]; cbn in *.
  - now apply Forall_upd.
  - apply IH; auto. now apply Forall_upd.
Qed.
Lemma upd_rows2_Forall {A B} (P : A -> Prop) (f : A -> B -> A * option err) sel : forall rows vals,
  (forall r v, P r -> P (fst (f r v))) -> Forall P rows -> Forall P (fst (upd_rows2 f rows sel vals)).
Proof.
  induction sel as [|i sel IH]; intros rows [|v vals] Hf Hr; cbn; auto.
  destruct (nth_error rows i) eqn:E; cbn; auto.
  pose proof (Hf a v (Forall_nth_error _ _ _ _ Hr E)) as Ha.
  destruct (f a v) as [r' [e|]]; cbn in *.
  - now apply Forall_upd.
  - apply IH; auto. now apply Forall_upd.
Qed.
Lemma keep_on_err_wf c x : wf c -> (forall r, x = Ok r -> wf r) -> wf (fst (keep_on_err c x)).
Proof. intros Hc Hx. destruct x; cbn; auto. Qed.
Lemma dset_wf c j q : wf c -> wf (fst (dset c j q)).
Proof. intros Hc. apply keep_on_err_wf; auto. intros r. now apply set1_wf. Qed.

Lemma arrF_set_wf rows ro ax p : Forall wf rows -> pwf p -> Forall wf (fst (arrF_set false rows ro ax p)).
Proof.
  intros Hr Hp. unfold arrF_set.
  set (rowset := fun (n : index) (c : cells) (v : operand) =>
                   if ro then (c, Some EValue)
                   else if is_open n && vd2 v then (c, Some EIndex)
                   else keep_on_err c (vecF_set c n v)).
  assert (RS : forall n c v, wf c -> pwf v -> wf (fst (rowset n c v))).
  { intros n c v Hc Hv. unfold rowset. destruct ro; cbn; auto. destruct (is_open n && vd2 v); cbn; auto.
    apply keep_on_err_wf; auto. intros r. now apply vecF_set_wf. }
  assert (R1 : forall isb v, pwf (reduce1 v isb)).
  { intros isb v. unfold reduce1. destruct v as [|x [|y v]]; exact I. }
  assert (U1 : forall n v sel, pwf v -> Forall wf (fst (upd_rows (fun c => rowset n c v) rows sel))).
  { intros n v sel Hv. apply upd_rows_Forall; auto. }
  assert (U2 : forall n isb sel m, Forall wf (fst (upd_rows2 (fun c v => rowset n c (reduce1 v isb)) rows sel m))).
  { intros. apply upd_rows2_Forall; auto. }
  assert (U3 : forall n isb sel (l : list Q), Forall wf (fst (upd_rows2 (fun c v => rowset n c (PS v isb)) rows sel l))).
  { intros. apply upd_rows2_Forall; auto. intros; apply RS; auto. exact I. }
  assert (BC : forall sel n, Forall wf (fst (match p with
      | PArr2 m isb => upd_rows2 (fun c v => rowset n c (reduce1 v isb)) rows sel m
      | PA m => upd_rows2 (fun c v => rowset n c (PV v)) rows sel m
      | PB _ => (rows, Some EOther)
      | _ => upd_rows (fun c => rowset n c p) rows sel end))).
  { intros sel n. destruct p; auto.
    (* PA: every value row that is used is one of the rows of the operand *)
    clear -Hr Hp RS. revert rows Hr rows0 Hp. induction sel as [|i sel IH]; intros rows Hr [|v m] Hp; cbn; auto.
    destruct (nth_error rows i) eqn:E; cbn; auto. inversion Hp; subst.
    pose proof (RS n c (PV v) (Forall_nth_error _ _ _ _ Hr E) H1) as Hc.
    destruct (rowset n c (PV v)) as [r' [e|]]; cbn in *.
    - now apply Forall_upd.
    - apply IH; auto. now apply Forall_upd. }
  destruct ax as [m|m n].
  - destruct (is_int m); [apply U1; auto|].
    destruct m; try apply BC.
    destruct p; cbn [fst]; auto; try (apply U1; auto; fail); try apply U3; try apply U2.
  - destruct (is_slice m).
    + destruct (is_slice n).
      * destruct (negb (is_open m) && is_open n); [apply U1; auto | apply BC].
      * destruct p; cbn [fst]; auto; try (destruct (is_int n)); try (apply U1; exact I); try apply U2; try apply U3.
    + destruct (is_int m); [apply U1; auto|].
      destruct (is_slice n).
      * destruct p; cbn [fst]; auto; try (apply U1; auto; fail); try apply U2; try apply U3.
      * destruct (is_int n).
        -- destruct p; cbn [fst]; auto.
           ++ apply upd_rows_Forall; auto. intros; now apply dset_wf.
           ++ apply upd_rows2_Forall; auto. intros; now apply dset_wf.
        -- destruct p; cbn [fst]; auto.
           ++ apply upd_rows2_Forall; auto. intros; now apply dset_wf.
           ++ apply upd_rows2_Forall; auto. intros; now apply dset_wf.
Qed.

(* ------------------------------------------------------------------ one operation, then every history *)
Lemma store_wf_app s o : store_wf s -> owf o -> store_wf (s ++ [o]).
Proof. intros. apply Forall_app; split; auto. Qed.
Lemma store_wf_set s i o : store_wf s -> owf o -> store_wf (set_obj s i o).
Proof. intros. now apply Forall_upd. Qed.
Lemma with_vec_wf x v x' : vwf v -> with_vec x v = Ok x' -> owf x'.
Proof. destruct x, v; cbn; intros Hv H; inversion H; subst; cbn; auto. Qed.
Lemma with_rows_wf x l x' : Forall vwf l -> with_rows x l = Ok x' -> owf x'.
Proof.
  intros Hl H. destruct x; cbn in H; try discriminate.
  - destruct (all_F l) eqn:E; inversion H; subst. cbn. eapply all_F_wf; eauto.
  - destruct (all_B l); inversion H; subst. exact I.
Qed.
Lemma vec_of_obj_wf x v : owf x -> vec_of_obj x = Some v -> vwf v.
Proof. destruct x; cbn; intros Hx H; inversion H; subst; cbn; auto. Qed.
Lemma wf_neg_bits (b : bits) : wf (map (fun x : bool => if x then Some (-(1)) else None) b).
Proof. apply wf_map_any. intros [|]; cbn; auto. lra. Qed.

Ltac bindinv H :=
  repeat match type of H with
         | (do _ <- ?m; _) = Ok _ => let E := fresh "E" in destruct m eqn:E; cbn [bind] in H; [|discriminate H]
         end.

Lemma step_res_wf s o s' r : store_wf s -> step_res false s o = Ok (s', r) -> store_wf s'.
Proof.
  intros Hs H. destruct o; cbn [step_res] in H.
  - (* OBin *)
    bindinv H. okinv. apply store_wf_app; auto.
    pose proof (getobj_wf _ _ _ Hs E) as Hx. pose proof (resolve_pwf _ _ _ Hs E0) as Hp.
    destruct (vec_of_obj a0) eqn:V.
    + eapply vector_bin_wf; [|exact Hp|exact E1]. eapply vec_of_obj_wf; eauto.
    + eapply array_bin_wf; [|exact Hp|exact E1]. now apply rows_of_wf.
  - (* OIBin *)
    bindinv H.
    pose proof (getobj_wf _ _ _ Hs E) as Hx. pose proof (resolve_pwf _ _ _ Hs E0) as Hp.
    destruct (vec_of_obj a0) eqn:V.
    + pose proof (vec_of_obj_wf _ _ Hx V) as Hv.
      destruct (is_ro a0); [discriminate|].
      assert (G : forall al p v' x', pwf p -> vec_ibin false o al v p = Ok v' -> with_vec a0 v' = Ok x' ->
                                     store_wf (set_obj s i x')).
      { intros al p v' x' Hp' Hi Hw. apply store_wf_set; auto. eapply with_vec_wf; [|exact Hw]. eapply vec_ibin_wf; eauto. }
      destruct v as [c|b]; [|destruct o as [[]| |]; try discriminate];
        (destruct a1 as [c1|b1|rows|rows|q isb|l isb|m isb];
         try (destruct rows as [|r0 [|r1 rows]]); try discriminate;
         bindinv H; okinv;
         match goal with
         | Hi : vec_ibin false _ ?al _ ?p = Ok ?v', Hw : with_vec a0 ?v' = Ok ?x' |- _ =>
             apply (G al p v' x'); [|exact Hi|exact Hw]
         end; cbn; auto; try (inversion Hp; subst; assumption)).
    + bindinv H. okinv. apply store_wf_set; auto. eapply with_rows_wf; [|eassumption].
      eapply array_ibin_wf; [|exact Hp|eassumption]. now apply rows_of_wf.
  - (* ORBin *)
    bindinv H. okinv. apply store_wf_app; auto.
    pose proof (getobj_wf _ _ _ Hs E) as Hx.
    assert (Hl : Forall vwf a0).
    { eapply mapM_Forall; [|apply (rows_of_wf _ Hx)|exact E0]. intros v y Hv Hy.
      destruct o, v as [c|b]; cbv beta iota in Hy;
        try (eapply vec_bin_wf; [exact Hv| |exact Hy]; exact I).
      - apply okF_inv in Hy as (c' & Hc & ->). cbn. eapply rsub_scalar_wf; eauto.
      - apply okF_inv in Hy as (c' & Hc & ->). cbn. eapply add_scalar_wf; [|exact Hc]. apply wf_neg_bits.
      - apply okF_inv in Hy as (c' & Hc & ->). cbn. eapply rtruediv_scalar_wf; eauto.
      - apply okF_inv in Hy as (c' & Hc & ->). cbn.
        destruct (mapM _ b); cbn in Hc; inversion Hc; subst. apply (wf_map_nz (fun x => x)). }
    destruct (vec_of_obj a).
    + destruct a0 as [|w [|w2 a0]]; try discriminate. okinv. apply obj_of_vec_wf. now inversion Hl.
    + eapply obj_of_rows_wf; eauto.
  - (* ONeg *)
    bindinv H. okinv. apply store_wf_app; auto. pose proof (getobj_wf _ _ _ Hs E) as Hx.
    destruct a; cbn in *.
    + now apply neg_cells_wf.
    + apply wf_neg_bits.
    + clear -Hx. induction Hx; cbn; constructor; auto. now apply neg_cells_wf.
    + clear. induction rows; cbn; constructor; auto. apply wf_neg_bits.
  - (* OAbs *)
    bindinv H. okinv. apply store_wf_app; auto. pose proof (getobj_wf _ _ _ Hs E) as Hx.
    destruct a; cbn in *; auto.
    + now apply abs_cells_wf.
    + clear -Hx. induction Hx; cbn; constructor; auto. now apply abs_cells_wf.
  - (* OInvert *)
    bindinv H. destruct a; try discriminate; okinv; apply store_wf_app; auto; exact I.
  - (* OCopy *)
    bindinv H. okinv. apply store_wf_app; auto. pose proof (getobj_wf _ _ _ Hs E) as Hx. destruct a; cbn in *; auto.
  - (* OClear *)
    bindinv H. destruct a; try discriminate.
    + destruct ro; try discriminate. okinv. apply store_wf_set; auto. cbn. apply wf_empty.
    + okinv. apply store_wf_set; auto. cbn. clear. induction rows; cbn; constructor; auto. apply wf_empty.
    + okinv. apply store_wf_set; auto. exact I.
  - (* OSetRO *)
    bindinv H. pose proof (getobj_wf _ _ _ Hs E) as Hx. destruct a; try discriminate; okinv; apply store_wf_set; auto.
  - (* OToArray *)
    bindinv H. okinv. auto.
  - (* OGet *)
    bindinv H. destruct (vec_of_obj a); try discriminate. okinv. auto.
  - (* OSet *)
    bindinv H.
    pose proof (getobj_wf _ _ _ Hs E) as Hx. pose proof (resolve_pwf _ _ _ Hs E0) as Hp0.
    pose proof (reduce_obj_pwf _ Hp0) as Hp.
    destruct a; try discriminate.
    + destruct ro; try discriminate.
      destruct (alias_of v i && (is_open ix || negb (len1 c))).
      * destruct (is_open ix); [okinv; auto|]. destruct (is_int ix); try discriminate.
        bindinv H. okinv. apply store_wf_set; auto. cbn. eapply set_zip_lazy_wf; eauto.
      * destruct (is_open ix && vd2 (reduce_obj a0)); try discriminate.
        bindinv H. okinv. apply store_wf_set; auto. cbn. eapply vecF_set_wf; eauto.
    + destruct (alias_of v i && (is_open ix || negb (len1 b))).
      * destruct (is_open ix); [okinv; auto|]. destruct (is_int ix); try discriminate.
        bindinv H. okinv. apply store_wf_set; auto. exact I.
      * destruct (is_open ix && vd2 (reduce_obj a0)); try discriminate.
        bindinv H. okinv. apply store_wf_set; auto. exact I.
  - (* ORed *)
    bindinv H. pose proof (getobj_wf _ _ _ Hs E) as Hx.
    match type of H with context [match ?out with RErr _ => _ | _ => _ end] => destruct out eqn:O end;
      try discriminate; okinv; auto.
    apply store_wf_app; auto.
    destruct a; cbn in Hx.
    + destruct axis as [[|k]|]; try discriminate; eapply red_vecF_new; eauto.
    + destruct axis as [[|k]|]; try discriminate; eapply red_vecB_new; eauto.
    + eapply red_arrF_new; eauto.
    + unfold red_arrB in O. destruct r0, axis as [[|[|k]]|], keep; cbn in O; inversion O; subst; exact I.
Qed.

Lemma xstep_res_wf s o s' r : store_wf s -> xstep_res false s o = Ok (s', r) -> store_wf s'.
Proof.
  intros Hs H. destruct o; cbn [xstep_res] in H.
  - eapply step_res_wf; eauto.
  - bindinv H. destruct a; try discriminate.
    destruct (arrF_get rows ax); try discriminate; try (okinv; auto; fail).
    bindinv H. okinv. auto.
  - bindinv H. pose proof (getobj_wf _ _ _ Hs E) as Hx. pose proof (resolve_pwf _ _ _ Hs E0) as Hp0.
    destruct a; try discriminate.
    pose proof (arrF_set_wf rows ro ax (reduce_obj a0) Hx (reduce_obj_pwf _ Hp0)) as Hw.
    destruct (arrF_set false rows ro ax (reduce_obj a0)) as [rows' e]. okinv.
    apply store_wf_set; auto.
Qed.
Lemma xstep_wf s o : store_wf s -> store_wf (fst (xstep false s o)).
Proof.
  intros Hs. unfold xstep. destruct (xstep_res false s o) as [[s' r]|e] eqn:E; cbn; auto.
  eapply xstep_res_wf; eauto.
Qed.
Lemma run_wf ops : forall s, store_wf s -> store_wf (fst (run false s ops)).
Proof.
  induction ops as [|o ops IH]; intros s Hs; cbn; auto.
  pose proof (xstep_wf s o Hs) as H1. destruct (xstep false s o) as [s' r]. cbn in H1.
  destruct (crashed r); cbn; auto.
  specialize (IH s' H1). destruct (run false s' ops). cbn in *. exact IH.
Qed.
Lemma mk_wf : forall l ro, owf (mkV l ro).
Proof. intros. cbn. apply wf_of_dense. Qed.
Lemma mkA_wf : forall m, owf (mkA m).
Proof. intros. cbn. induction m; cbn; constructor; auto. apply wf_of_dense. Qed.
