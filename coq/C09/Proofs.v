(* C09 — lemmas.  Part 1: the representation invariant and its preservation by every kernel. *)
From V Require Import Common.NumFacts C09.Model C09.Dense.
From Coq Require Import Lia Lqa.

(* ------------------------------------------------------------------ invariant *)
Definition wfc (c : cell) : Prop := match c with Some q => ~ q == 0 | None => True end.
Definition wf (c : cells) : Prop := Forall wfc c.
Definition vwf (v : vec) : Prop := match v with VF c => wf c | VB _ => True end.
Definition owf (o : obj) : Prop :=
  match o with OV c _ => wf c | OA rows _ => Forall wf rows | _ => True end.
Definition store_wf (s : store) : Prop := Forall owf s.
Definition pwf (p : operand) : Prop :=
  match p with PV c => wf c | PA rows => Forall wf rows | _ => True end.

Lemma wfc_nz q : wfc (nz q).
Proof. unfold nz. destruct (qzerob q) eqn:E; cbn; auto. now apply qzerob_false. Qed.
Lemma dcell_nz q : dcell (nz q) == q.
Proof. unfold nz. destruct (qzerob q) eqn:E; cbn; try reflexivity. apply qzerob_true in E. now rewrite E. Qed.
Lemma qmul_nz a b : ~ a == 0 -> ~ b == 0 -> ~ a * b == 0.
Proof. intros Ha Hb H. apply Qmult_integral in H. tauto. Qed.
Lemma qinv_nz a : ~ a == 0 -> ~ / a == 0.
Proof. intros Ha H. assert (K : a * / a == 1) by (apply Qmult_inv_r; exact Ha). rewrite H in K. lra. Qed.
Lemma qdiv_nz a b : ~ a == 0 -> ~ b == 0 -> ~ a / b == 0.
Proof. intros Ha Hb. unfold Qdiv. apply qmul_nz; auto. now apply qinv_nz. Qed.
Lemma qopp_nz a : ~ a == 0 -> ~ - a == 0.
Proof. intros Ha H. apply Ha. lra. Qed.
Lemma qabs_nz a : ~ a == 0 -> ~ Qabs a == 0.
Proof.
  intros Ha H. apply Ha. destruct (Qlt_le_dec a 0) as [L|L].
  - rewrite Qabs_neg in H by lra. lra.
  - rewrite Qabs_pos in H by lra. exact H.
Qed.

Lemma wf_empty n : wf (empty_cells n).
Proof. unfold wf, empty_cells. induction n; cbn; constructor; cbn; auto. Qed.
Lemma wf_of_dense l : wf (of_dense l).
Proof. unfold wf, of_dense. induction l; cbn; constructor; auto using wfc_nz. Qed.
Lemma wf_cells_of_bits b : wf (cells_of_bits b).
Proof. unfold wf, cells_of_bits. induction b as [|[|] b IH]; cbn; constructor; cbn; auto. lra. Qed.
Lemma wf_map (f : cell -> cell) a : (forall x, wfc x -> wfc (f x)) -> wf a -> wf (map f a).
Proof. intros Hf H. unfold wf in *. induction H; cbn; constructor; auto. Qed.
Lemma wf_map_any {A} (f : A -> cell) (l : list A) : (forall x, wfc (f x)) -> wf (map f l).
Proof. intros Hf. unfold wf. induction l; cbn; constructor; auto. Qed.
Lemma wf_map2 (f : cell -> cell -> cell) a b :
  (forall x y, wfc x -> wfc y -> wfc (f x y)) -> wf a -> wf b -> wf (map2 f a b).
Proof.
  intros Hf Ha. revert b. unfold wf in *. induction Ha as [|x a Hx Ha IH]; intros [|y b] Hb; cbn; try constructor.
  - inversion Hb; subst. auto.
  - inversion Hb; subst. auto.
Qed.
Lemma wf_map2_arr {B} (f : cell -> B -> cell) a (b : list B) :
  (forall x y, wfc x -> wfc (f x y)) -> wf a -> wf (map2 f a b).
Proof.
  intros Hf Ha. revert b. unfold wf in *. induction Ha as [|x a Hx Ha IH]; intros [|y b]; cbn; constructor; auto.
Qed.
Lemma wf_mapM {A} (f : A -> res cell) (l : list A) r :
  (forall x c, f x = Ok c -> wfc c) -> mapM f l = Ok r -> wf r.
Proof.
  intros Hf. revert r. unfold wf. induction l as [|x l IH]; cbn; intros r H.
  - inversion H. constructor.
  - destruct (f x) eqn:E; try discriminate. destruct (mapM f l) eqn:E2; try discriminate.
    inversion H; subst. constructor; eauto.
Qed.
Lemma wf_mapM_in (f : cell -> res cell) (l : cells) r :
  (forall x c, wfc x -> f x = Ok c -> wfc c) -> wf l -> mapM f l = Ok r -> wf r.
Proof.
  intros Hf Hl. revert r. unfold wf in *. induction Hl as [|x l Hx Hl IH]; cbn; intros r H.
  - inversion H. constructor.
  - destruct (f x) eqn:E; try discriminate. destruct (mapM f l) eqn:E2; try discriminate.
    inversion H; subst. constructor; eauto.
Qed.
Lemma wf_map2M (f : cell -> cell -> res cell) a b r :
  (forall x y c, wfc x -> wfc y -> f x y = Ok c -> wfc c) -> wf a -> wf b -> map2M f a b = Ok r -> wf r.
Proof.
  intros Hf Ha. revert b r. unfold wf in *. induction Ha as [|x a Hx Ha IH]; intros [|y b] r Hb H; cbn in H;
    try (inversion H; constructor).
  inversion Hb; subst.
  destruct (f x y) eqn:E; try discriminate. destruct (map2M f a b) eqn:E2; try discriminate.
  inversion H; subst. constructor; eauto.
Qed.
Lemma wf_map2M_arr {B} (f : cell -> B -> res cell) a (b : list B) r :
  (forall x y c, wfc x -> f x y = Ok c -> wfc c) -> wf a -> map2M f a b = Ok r -> wf r.
Proof.
  intros Hf Ha. revert b r. unfold wf in *. induction Ha as [|x a Hx Ha IH]; intros [|y b] r H; cbn in H;
    try (inversion H; constructor).
  destruct (f x y) eqn:E; try discriminate. destruct (map2M f a b) eqn:E2; try discriminate.
  inversion H; subst. constructor; eauto.
Qed.
Lemma wf_hd a : wf a -> wfc (hd None a).
Proof. intros H. destruct H; cbn; auto. Qed.
Lemma wfc_join (o : option cell) (b : cells) : wf b -> hd_error b = o -> wfc (join_cell o).
Proof. intros H E. destruct H; cbn in E; subst; cbn; auto. Qed.

(* cell-level tactic: case analysis on the cells, on the zero tests, then arithmetic *)
Ltac nzt :=
  repeat match goal with
         | H : wfc (Some _) |- _ => cbn in H
         | |- wfc (nz _) => apply wfc_nz
         | |- wfc None => exact I
         | |- wfc (Some _) => cbn
         | |- ~ _ * _ == 0 => apply qmul_nz
         | |- ~ _ / _ == 0 => apply qdiv_nz
         | |- ~ - _ == 0 => apply qopp_nz
         | |- ~ Qabs _ == 0 => apply qabs_nz
         end; auto.
Ltac cellwf :=
  intros;
  repeat match goal with c : cell |- _ => destruct c end;
  cbn in *; nzt;
  repeat match goal with
         | |- context [qzerob ?q] => let E := fresh "E" in destruct (qzerob q) eqn:E; cbn
         end; nzt;
  try match goal with E : qzerob _ = false |- ~ _ == 0 => now apply qzerob_false end.

(* ------------------------------------------------------------------ arithmetic kernels keep the invariant *)
Lemma dispatch_sparse_wf (same : cells -> cells -> res cells) self1 other1 a b r :
  wf a -> wf b ->
  (forall r, same a b = Ok r -> wf r) ->
  (forall v r, wfc v -> self1 v b = Ok r -> wf r) ->
  (forall o r, wfc (join_cell o) -> other1 a o = Ok r -> wf r) ->
  dispatch_sparse same self1 other1 a b = Ok r -> wf r.
Proof.
  intros Ha Hb H1 H2 H3. unfold dispatch_sparse.
  destruct (Nat.eqb (length a) (length b)); [apply H1|].
  destruct (len1 a && negb (len0 b)); [apply H2; now apply wf_hd|].
  destruct (len1 b); [|discriminate].
  apply H3. eapply wfc_join; eauto.
Qed.
Lemma dispatch_array_wf {B} (same : cells -> list B -> res cells) self1 a (b : list B) r :
  wf a ->
  (forall r, same a b = Ok r -> wf r) ->
  (forall v r, wfc v -> self1 v b = Ok r -> wf r) ->
  dispatch_array same self1 a b = Ok r -> wf r.
Proof.
  intros Ha H1 H2. unfold dispatch_array.
  destruct (Nat.eqb (length a) (length b)); [apply H1|].
  destruct (len1 a && negb (len0 b)); [apply H2; now apply wf_hd|discriminate].
Qed.
Ltac okinv := match goal with H : Ok _ = Ok _ |- _ => inversion H; subst; clear H end.

Lemma add_other1_wf a o : wf a -> wfc o -> wf (add_other1 a o).
Proof. intros Ha Ho. destruct o; cbn; auto. apply wf_map; auto. cellwf. Qed.
Lemma add_sparse_wf a b r : wf a -> wf b -> add_sparse a b = Ok r -> wf r.
Proof.
  intros Ha Hb. apply dispatch_sparse_wf; auto; intros; okinv.
  - apply wf_map2; auto. unfold add_same_c. cellwf.
  - destruct v; cbn; auto. apply wf_map; auto. cellwf.
  - now apply add_other1_wf.
Qed.
Lemma add_scalar_wf a k r : wf a -> add_scalar a k = Ok r -> wf r.
Proof.
  intros Ha H. unfold add_scalar in H. okinv. destruct (qzerob k) eqn:E; auto.
  apply (add_other1_wf a (Some k)); auto. cbn. now apply qzerob_false.
Qed.
Lemma add_array_wf a b r : wf a -> add_array a b = Ok r -> wf r.
Proof.
  intros Ha. apply dispatch_array_wf; auto; intros; okinv.
  - apply wf_map2_arr; auto. unfold add_arr_c. cellwf.
  - destruct v; cbn; apply wf_map_any; intros; apply wfc_nz.
Qed.

Lemma sub_other1_wf a o : wf a -> wfc o -> wf (sub_other1 a o).
Proof. intros Ha Ho. destruct o; cbn; auto. apply wf_map; auto. cellwf. Qed.
Lemma sub_sparse_wf a b r : wf a -> wf b -> sub_sparse a b = Ok r -> wf r.
Proof.
  intros Ha Hb. apply dispatch_sparse_wf; auto; intros; okinv.
  - apply wf_map2; auto. unfold sub_same_c. cellwf.
  - destruct v; cbn; apply wf_map; auto; cellwf.
  - now apply sub_other1_wf.
Qed.
Lemma sub_scalar_wf a k r : wf a -> sub_scalar a k = Ok r -> wf r.
Proof.
  intros Ha H. unfold sub_scalar in H. okinv. destruct (qzerob k) eqn:E; auto.
  apply (sub_other1_wf a (Some k)); auto. cbn. now apply qzerob_false.
Qed.
Lemma sub_array_wf a b r : wf a -> sub_array a b = Ok r -> wf r.
Proof.
  intros Ha. apply dispatch_array_wf; auto; intros; okinv.
  - apply wf_map2_arr; auto. unfold sub_arr_c. cellwf.
  - destruct v; cbn; apply wf_map_any; intros; cellwf.
Qed.

Lemma mul_sparse_wf a b r : wf a -> wf b -> mul_sparse a b = Ok r -> wf r.
Proof.
  intros Ha Hb. apply dispatch_sparse_wf; auto; intros; okinv.
  - apply wf_map2; auto. unfold mul_same_c. cellwf.
  - destruct v; cbn; [apply wf_map; auto; cellwf | apply wf_empty].
  - unfold mul_other1. destruct (join_cell o); cbn; [apply wf_map; auto; cellwf | apply wf_empty].
Qed.
Lemma mul_scalar_wf a k r : wf a -> mul_scalar a k = Ok r -> wf r.
Proof.
  intros Ha H. unfold mul_scalar in H. okinv. destruct (qzerob k) eqn:E; [apply wf_empty|].
  apply qzerob_false in E. apply wf_map; auto. cellwf.
Qed.
Lemma mul_array_wf a b r : wf a -> mul_array a b = Ok r -> wf r.
Proof.
  intros Ha. apply dispatch_array_wf; auto; intros; okinv.
  - apply wf_map2_arr; auto. unfold mul_arr_c. cellwf.
  - destruct v; cbn; [apply wf_map_any; intros; cellwf | apply wf_empty].
Qed.

Lemma qdiv_ok v w q : qdiv v w = Ok q -> ~ w == 0 /\ q = v / w.
Proof. unfold qdiv. destruct (qzerob w) eqn:E; intros H; inversion H. split; auto. now apply qzerob_false. Qed.
Lemma div_c_wf x y c : wfc x -> div_c x y = Ok c -> wfc c.
Proof.
  destruct x as [v|]; cbn; intros Hx H; [|inversion H; exact I].
  destruct (qdiv v y) eqn:E; cbn in H; inversion H; subst. apply qdiv_ok in E as [Hy ->]. cbn. now apply qdiv_nz.
Qed.
Lemma truediv_scalar_wf a k r : wf a -> truediv_scalar a k = Ok r -> wf r.
Proof. intros Ha. apply wf_mapM_in; auto. intros x c Hx. now apply div_c_wf. Qed.
Lemma truediv_same_c_wf x y c : wfc x -> wfc y -> truediv_same_c x y = Ok c -> wfc c.
Proof.
  destruct x as [v|], y as [w|]; cbn; intros Hx Hy H; try discriminate; try (inversion H; exact I).
  destruct (qdiv v w) eqn:E; cbn in H; inversion H; subst. apply qdiv_ok in E as [Hw ->]. cbn. now apply qdiv_nz.
Qed.
Lemma truediv_sparse_wf a b r : wf a -> wf b -> truediv_sparse a b = Ok r -> wf r.
Proof.
  intros Ha Hb. apply dispatch_sparse_wf; auto.
  - intros r0. apply wf_map2M; auto. intros x y c. apply truediv_same_c_wf.
  - intros v r0 Hv. unfold truediv_self1. destruct v as [value|]; [|intros H; okinv; apply wf_empty].
    destruct (Nat.eqb (nkeys b) (length b)); [|discriminate].
    apply wf_mapM. intros x c. now apply div_c_wf.
  - intros o r0 Ho. unfold truediv_other1. destruct (join_cell o) as [other|].
    + apply wf_mapM_in; auto. intros x c Hx. now apply div_c_wf.
    + destruct (Nat.eqb (nkeys a) 0); intros H; inversion H; subst; auto.
Qed.
Lemma truediv_array_wf a b r : wf a -> truediv_array a b = Ok r -> wf r.
Proof.
  intros Ha. apply dispatch_array_wf; auto.
  - intros r0. apply wf_map2M_arr; auto. intros x y c. apply div_c_wf.
  - intros v r0 Hv. unfold truediv_arr_self1. destruct v as [value|]; [|intros H; okinv; apply wf_empty].
    apply wf_mapM. intros x c. now apply div_c_wf.
Qed.

Lemma neg_cells_wf a : wf a -> wf (neg_cells a).
Proof. intros. apply wf_map; auto. cellwf. Qed.
Lemma abs_cells_wf a : wf a -> wf (abs_cells a).
Proof. intros. apply wf_map; auto. cellwf. Qed.
Lemma rtruediv_scalar_wf a k r : wf a -> rtruediv_scalar a k = Ok r -> wf r.
Proof.
  intros Ha. unfold rtruediv_scalar. destruct (qzerob k) eqn:E; [intros H; okinv; apply wf_empty|].
  apply qzerob_false in E. destruct (Nat.eqb (nkeys a) (length a)); [|discriminate].
  apply wf_mapM. intros x c H. destruct (qdiv k (dcell x)) eqn:D; cbn in H; inversion H; subst.
  apply qdiv_ok in D as [Hx ->]. cbn. now apply qdiv_nz.
Qed.
Lemma rsub_scalar_wf a k r : wf a -> rsub_scalar a k = Ok r -> wf r.
Proof. intros Ha. unfold rsub_scalar. apply add_scalar_wf. now apply neg_cells_wf. Qed.

Lemma k_sparse_wf o a b r : wf a -> wf b -> k_sparse false o a b = Ok r -> wf r.
Proof.
  intros Ha Hb. destruct o; cbv beta iota delta [k_sparse].
  - now apply add_sparse_wf. - now apply sub_sparse_wf. - now apply mul_sparse_wf. - now apply truediv_sparse_wf.
Qed.
Lemma k_scalar_wf o a k r : wf a -> k_scalar o a k = Ok r -> wf r.
Proof. destruct o; cbn; eauto using add_scalar_wf, sub_scalar_wf, mul_scalar_wf, truediv_scalar_wf. Qed.
Lemma k_array_wf o a b r : wf a -> k_array o a b = Ok r -> wf r.
Proof. destruct o; cbn; eauto using add_array_wf, sub_array_wf, mul_array_wf, truediv_array_wf. Qed.
Lemma ik_sparse_wf o al a b r : wf a -> wf b -> ik_sparse false o al a b = Ok r -> wf r.
Proof.
  intros Ha Hb. destruct al, o; cbv beta iota delta [ik_sparse k_sparse iadd_self isub_self_fixed imul_self itruediv_self].
  - now apply add_sparse_wf. - now apply sub_sparse_wf. - now apply mul_sparse_wf. - now apply truediv_sparse_wf.
  - now apply add_sparse_wf. - now apply sub_sparse_wf. - now apply mul_sparse_wf. - now apply truediv_sparse_wf.
Qed.

(* ------------------------------------------------------------------ Part 2: every operation of the store keeps the invariant *)
Lemma mapM_Forall {A B} (P : A -> Prop) (Q : B -> Prop) (f : A -> res B) l r :
  (forall x y, P x -> f x = Ok y -> Q y) -> Forall P l -> mapM f l = Ok r -> Forall Q r.
Proof.
  intros Hf Hl. revert r. induction Hl as [|x l Hx Hl IH]; cbn; intros r H.
  - inversion H. constructor.
  - destruct (f x) eqn:E; try discriminate. destruct (mapM f l) eqn:E2; try discriminate.
    inversion H; subst. constructor; eauto.
Qed.
Lemma map2M_Forall {A B C} (P : A -> Prop) (P' : B -> Prop) (Q : C -> Prop) (f : A -> B -> res C) a b r :
  (forall x y z, P x -> P' y -> f x y = Ok z -> Q z) -> Forall P a -> Forall P' b -> map2M f a b = Ok r -> Forall Q r.
Proof.
  intros Hf Ha. revert b r. induction Ha as [|x a Hx Ha IH]; intros [|y b] r Hb H; cbn in H;
    try (inversion H; constructor).
  inversion Hb; subst.
  destruct (f x y) eqn:E; try discriminate. destruct (map2M f a b) eqn:E2; try discriminate.
  inversion H; subst. constructor; eauto.
Qed.
Lemma Forall_True {A} (l : list A) : Forall (fun _ => True) l.
Proof. induction l; constructor; auto. Qed.
Lemma Forall_upd {A} (P : A -> Prop) l i x : Forall P l -> P x -> Forall P (upd l i x).
Proof.
  intros Hl Hx. revert i. induction Hl as [|h t Hh Ht IH]; intros [|i]; cbn; constructor; auto.
Qed.
Lemma Forall_nth_error {A} (P : A -> Prop) l i x : Forall P l -> nth_error l i = Some x -> P x.
Proof. intros Hl H. eapply Forall_forall; eauto. eapply nth_error_In; eauto. Qed.
Lemma Forall_nth {A} (P : A -> Prop) l i d : Forall P l -> P d -> P (nth i l d).
Proof. intros Hl Hd. revert i. induction Hl; intros [|i]; cbn; auto. Qed.

Lemma okF_inv x r : okF x = Ok r -> exists c, x = Ok c /\ r = VF c.
Proof. destruct x; cbn; intros H; inversion H; eauto. Qed.
Lemma okB_inv x r : okB x = Ok r -> exists b, r = VB b.
Proof. destruct x; cbn; intros H; inversion H; eauto. Qed.
Ltac vinv :=
  repeat match goal with
         | H : okF _ = Ok _ |- _ => apply okF_inv in H as (? & ? & ->)
         | H : okB _ = Ok _ |- _ => apply okB_inv in H as (? & ->)
         | H : Ok _ = Ok _ |- _ => inversion H; subst; clear H
         | H : Err _ = Ok _ |- _ => discriminate H
         | H : unsupported = Ok _ |- _ => discriminate H
         end.

Opaque k_sparse k_scalar k_array ik_sparse lv_isparse lv_iscalar lv_iarray cmp_sparse cmp_scalar cmp_array lv_cmp_sparse lv_cmp_scalar.
Lemma vec_bin_wf o self p r : vwf self -> pwf p -> vec_bin false o self p = Ok r -> vwf r.
Proof.
  intros Hs Hp H. destruct self as [c|b]; cbn in Hs.
  - destruct o as [a|m|lo], p; cbn in H; vinv; cbn; auto;
      eauto using k_sparse_wf, k_scalar_wf, k_array_wf, wf_cells_of_bits.
  - pose proof (wf_cells_of_bits b) as Hb.
    destruct o as [a|m|lo]; [destruct a| |]; destruct p; cbn in H;
      repeat match type of H with
             | context [if ?x then _ else _] => destruct x
             | context [match ?l with [] => _ | _ => _ end] => destruct l
             end; vinv; cbn; auto;
      eauto using k_sparse_wf, k_scalar_wf, k_array_wf, wf_cells_of_bits.
Qed.
Lemma vec_ibin_wf o al self p r : vwf self -> pwf p -> vec_ibin false o al self p = Ok r -> vwf r.
Proof.
  intros Hs Hp H. destruct self as [c|b]; cbn in Hs.
  - destruct o as [a|m|lo], p; cbn in H; vinv; cbn; auto;
      eauto using ik_sparse_wf, k_scalar_wf, k_array_wf, wf_cells_of_bits.
  - destruct o as [a|m|lo]; [destruct a| |]; destruct p; cbn in H;
      repeat match type of H with
             | context [if ?x then _ else _] => destruct x
             end; vinv; cbn; auto.
Qed.

Transparent k_sparse k_scalar k_array ik_sparse lv_isparse lv_iscalar lv_iarray cmp_sparse cmp_scalar cmp_array lv_cmp_sparse lv_cmp_scalar.
Lemma all_F_wf l r : Forall vwf l -> all_F l = Some r -> Forall wf r.
Proof.
  intros Hl. revert r. induction Hl as [|x l Hx Hl IH]; cbn; intros r H.
  - inversion H. constructor.
  - destruct x; try discriminate. destruct (all_F l); cbn in H; inversion H; subst. constructor; auto.
Qed.
Lemma obj_of_rows_wf l o : Forall vwf l -> obj_of_rows l = Ok o -> owf o.
Proof.
  intros Hl H. unfold obj_of_rows in H. destruct (all_F l) eqn:E.
  - inversion H; subst. cbn. eapply all_F_wf; eauto.
  - destruct (all_B l); inversion H; subst. exact I.
Qed.
Lemma obj_of_vec_wf v : vwf v -> owf (obj_of_vec v).
Proof. destruct v; cbn; auto. Qed.
Lemma rows_of_wf o : owf o -> Forall vwf (rows_of o).
Proof.
  destruct o; cbn; intros H; try (repeat constructor; auto; fail).
  - induction H; cbn; constructor; auto.
  - induction rows; cbn; constructor; cbn; auto.
Qed.
Lemma map_PV_pwf r : Forall wf r -> Forall pwf (map PV r).
Proof. intros H. induction H; cbn; constructor; auto. Qed.
Lemma map_PL_pwf r : Forall pwf (map PL r).
Proof. induction r; cbn; constructor; cbn; auto. Qed.

Lemma vector_bin_wf o self p r : vwf self -> pwf p -> vector_bin false o self p = Ok r -> owf r.
Proof.
  intros Hs Hp H. unfold vector_bin in H.
  set (self' := match self, o with VB b, BA Sub => VF (cells_of_bits b) | _, _ => self end) in *.
  assert (Hs' : vwf self').
  { subst self'. destruct self; auto. destruct o as [[]| |]; auto; apply wf_cells_of_bits. }
  destruct p; cbn in H.
  1,2,5,6: destruct (vec_bin false o self' _) eqn:E; cbn in H; inversion H; subst;
           apply obj_of_vec_wf; eapply vec_bin_wf; [exact Hs'|exact Hp|exact E].
  - destruct (mapM _ rows) eqn:E; cbn in H; try discriminate.
    eapply obj_of_rows_wf; [|eassumption]. eapply mapM_Forall; [|exact Hp|exact E].
    intros x y Hx Hy. cbn in Hy. eapply vec_bin_wf; [exact Hs'| |exact Hy]. exact Hx.
  - destruct (mapM _ rows) eqn:E; cbn in H; try discriminate.
    eapply obj_of_rows_wf; [|eassumption]. eapply mapM_Forall; [|apply Forall_True|exact E].
    intros x y _ Hy. cbn in Hy. eapply vec_bin_wf; [exact Hs'| |exact Hy]. exact I.
  - destruct (mapM _ m) eqn:E; cbn in H; try discriminate.
    eapply obj_of_rows_wf; [|eassumption]. eapply mapM_Forall; [|apply Forall_True|exact E].
    intros x y _ Hy. cbn in Hy. eapply vec_bin_wf; [exact Hs'| |exact Hy]. exact I.
Qed.

Lemma array_bin_go_wf o rows others r :
  Forall vwf rows -> Forall pwf others ->
  match rows, others with
  | [row], _ => do l <- mapM (fun x => vec_bin false o row x) others; obj_of_rows l
  | _, [x] => do l <- mapM (fun r => vec_bin false o r x) rows; obj_of_rows l
  | _, _ => do l <- map2M (fun r x => vec_bin false o r x) rows others; obj_of_rows l
  end = Ok r -> owf r.
Proof.
  intros Hr Ho H.
  assert (G1 : forall row l, vwf row -> mapM (fun x => vec_bin false o row x) others = Ok l -> Forall vwf l).
  { intros row l Hrow. eapply mapM_Forall; [|exact Ho]. intros x y Hx Hy. eapply vec_bin_wf; eauto. }
  assert (G2 : forall x l, pwf x -> mapM (fun r => vec_bin false o r x) rows = Ok l -> Forall vwf l).
  { intros x l Hx. eapply mapM_Forall; [|exact Hr]. intros r0 y Hr0 Hy. eapply vec_bin_wf; eauto. }
  assert (G3 : forall l, map2M (fun r x => vec_bin false o r x) rows others = Ok l -> Forall vwf l).
  { intros l. eapply map2M_Forall; [|exact Hr|exact Ho]. intros x y z Hx Hy Hz. eapply vec_bin_wf; eauto. }
  destruct rows as [|row [|row2 rows]]; destruct others as [|x [|x2 others]]; cbn [bind] in H.
  all: match type of H with (do l <- ?m; _) = _ => destruct m eqn:E; cbn in H; try discriminate end;
       (eapply obj_of_rows_wf; [|exact H]);
       first [ eapply G3; first [exact E | reflexivity]
             | inversion Ho; subst; eapply G2; [|first [exact E | reflexivity]]; assumption
             | inversion Hr; subst; eapply G1; [|first [exact E | reflexivity]]; assumption ].
Qed.
Lemma array_bin_wf o rows p r : Forall vwf rows -> pwf p -> array_bin false o rows p = Ok r -> owf r.
Proof.
  intros Hr Hp H. unfold array_bin in H.
  assert (G : forall x l, pwf x -> mapM (fun r => vec_bin false o r x) rows = Ok l -> Forall vwf l).
  { intros x l Hx. eapply mapM_Forall; [|exact Hr]. intros r0 y Hr0 Hy. eapply vec_bin_wf; [exact Hr0|exact Hx|exact Hy]. }
  destruct p.
  1,2,5,6: match type of H with (do l <- ?m; _) = _ => destruct m eqn:E; cbn in H; try discriminate end;
           (eapply obj_of_rows_wf; [|exact H]); eapply G; [exact Hp|exact E].
  - eapply array_bin_go_wf; [exact Hr| |exact H]. now apply map_PV_pwf.
  - eapply array_bin_go_wf; [exact Hr| |exact H]. apply map_PL_pwf.
  - match type of H with (do l <- ?m; _) = _ => destruct m eqn:E; cbn in H; try discriminate end.
    eapply obj_of_rows_wf; [|exact H]. eapply map2M_Forall; [|exact Hr|apply (Forall_True m)|exact E].
    intros x y z Hx _ Hz. cbn in Hz. eapply vec_bin_wf; [exact Hx| |exact Hz]. exact I.
Qed.
Lemma array_ibin_wf o al rows p l : Forall vwf rows -> pwf p -> array_ibin false o al rows p = Ok l -> Forall vwf l.
Proof.
  intros Hr Hp H. unfold array_ibin in H.
  assert (G : forall al x l, pwf x -> mapM (fun row => vec_ibin false o al row x) rows = Ok l -> Forall vwf l).
  { intros al0 x l0 Hx. eapply mapM_Forall; [|exact Hr]. intros r0 y Hr0 Hy. eapply vec_ibin_wf; [exact Hr0|exact Hx|exact Hy]. }
  destruct p.
  - destruct (negb (is_float_rows rows)); try discriminate. eapply G; [exact Hp|exact H].
  - eapply G; [exact Hp|exact H].
  - destruct (negb (is_float_rows rows)); try discriminate.
    destruct rows0 as [|x [|x2 rows0]].
    + eapply map2M_Forall; [|exact Hr|exact Hp|exact H].
      intros x0 y z Hx Hy Hz. cbn in Hz. eapply vec_ibin_wf; [exact Hx| |exact Hz]. exact Hy.
    + inversion Hp; subst. eapply (G al (PV x)); [assumption|exact H].
    + eapply map2M_Forall; [|exact Hr|exact Hp|exact H].
      intros x0 y z Hx Hy Hz. cbn in Hz. eapply vec_ibin_wf; [exact Hx| |exact Hz]. exact Hy.
  - destruct rows0 as [|x [|x2 rows0]].
    + eapply map2M_Forall; [|exact Hr|apply (Forall_True [])|exact H].
      intros x0 y z Hx _ Hz. cbn in Hz. eapply vec_ibin_wf; [exact Hx| |exact Hz]. exact I.
    + eapply (G al (PL x)); [exact I|exact H].
    + eapply map2M_Forall; [|exact Hr|apply (Forall_True (x :: x2 :: rows0))|exact H].
      intros x0 y z Hx _ Hz. cbn in Hz. eapply vec_ibin_wf; [exact Hx| |exact Hz]. exact I.
  - eapply G; [exact Hp|exact H].
  - eapply G; [exact Hp|exact H].
  - eapply map2M_Forall; [|exact Hr|apply (Forall_True m)|exact H].
    intros x0 y z Hx _ Hz. cbn in Hz. eapply vec_ibin_wf; [exact Hx| |exact Hz]. exact I.
Qed.

(* ------------------------------------------------------------------ indexing and reductions keep the invariant *)
Lemma wf_upd a i c : wf a -> wfc c -> wf (upd a i c).
Proof. intros. now apply Forall_upd. Qed.
Lemma set1_wf a i v r : wf a -> set1 a i v = Ok r -> wf r.
Proof.
  unfold set1. intros Ha H. destruct (inb a i).
  - okinv. apply wf_upd; auto. apply wfc_nz.
  - destruct (qzerob v); inversion H; subst; auto.
Qed.
Lemma set_zip_wf idx : forall a vals r, wf a -> set_zip a idx vals = Ok r -> wf r.
Proof.
  induction idx as [|i idx IH]; intros a [|v vals] r Ha H; cbn in H; try (okinv; auto; fail).
  destruct (set1 a i v) eqn:E; cbn in H; try discriminate. eapply IH; [|exact H]. eapply set1_wf; eauto.
Qed.
Lemma set_all_wf idx : forall a v r, wf a -> set_all a idx v = Ok r -> wf r.
Proof.
  induction idx as [|i idx IH]; intros a v r Ha H; cbn in H; try (okinv; auto; fail).
  destruct (set1 a i v) eqn:E; cbn in H; try discriminate. eapply IH; [|exact H]. eapply set1_wf; eauto.
Qed.
Lemma set_zip_lazy_wf idx : forall a k r, wf a -> set_zip_lazy a idx k = Ok r -> wf r.
Proof.
  induction idx as [|i idx IH]; intros a k r Ha H; cbn [set_zip_lazy] in H; try (okinv; auto; fail).
  destruct (Nat.ltb k (length a)); [|okinv; auto].
  destruct (set1 a i (getc a k)) eqn:E; cbn in H; try discriminate. eapply IH; [|exact H]. eapply set1_wf; eauto.
Qed.
Lemma wf_app a b : wf a -> wf b -> wf (a ++ b).
Proof. intros. now apply Forall_app. Qed.
Lemma wf_firstn n a : wf a -> wf (firstn n a).
Proof. intros H. revert n. unfold wf in *. induction H; intros [|n]; cbn; try constructor; auto. Qed.
Definition svwf (v : sval) : Prop := match v with SVObj c => wf c | _ => True end.
Lemma set_open_wf a v r : svwf v -> set_open a v = Ok r -> wf r.
Proof.
  intros Hv H. destruct v as [q|l|c]; cbn in H.
  - okinv. destruct (qzerob q) eqn:E; [apply wf_empty|]. apply qzerob_false in E. apply wf_map_any. intros; exact E.
  - eapply set_zip_wf; [|exact H]. apply wf_empty.
  - destruct (Nat.leb (length c) (length a)).
    + okinv. apply wf_app; auto. apply wf_empty.
    + destruct (Nat.eqb (nkeys (skipn (length a) c)) 0); inversion H; subst. now apply wf_firstn.
Qed.
Lemma set_idx_wf a idx v r : wf a -> set_idx a idx v = Ok r -> wf r.
Proof. intros Ha H. destruct v; cbn in H; eauto using set_zip_wf, set_all_wf. Qed.
Lemma sval_of_wf p v : pwf p -> sval_of p = Ok v -> svwf v.
Proof.
  intros Hp H. destruct p; cbn in H; try discriminate; try (okinv; exact I).
  - destruct c as [|x [|y c]]; okinv; cbn; auto.
  - destruct b as [|x [|y b]]; okinv; cbn; auto.
Qed.
Lemma vecF_set_wf c ix p r : wf c -> pwf p -> vecF_set c ix p = Ok r -> wf r.
Proof.
  intros Hc Hp H. unfold vecF_set in H. destruct (sval_of p) as [v|] eqn:E; cbn in H; try discriminate.
  pose proof (sval_of_wf _ _ Hp E) as Hv.
  destruct ix; try (eapply set_idx_wf; eauto; fail).
  - destruct v; try discriminate. eapply set1_wf; eauto.
  - destruct v; try discriminate. eapply set1_wf; eauto.
  - eapply set_open_wf; eauto.
Qed.
Lemma reduce_obj_pwf p : pwf p -> pwf (reduce_obj p).
Proof.
  intros Hp. unfold reduce_obj.
  destruct p as [c|b|rows|rows|q isb|l isb|m isb]; cbn; auto.
  - destruct c as [|x [|y c]]; cbn; auto.
  - destruct b as [|x [|y b]]; cbn; auto.
  - destruct rows as [|r [|r2 rows]]; cbn; auto. inversion Hp; subst. destruct r as [|x [|y r]]; cbn; auto.
  - destruct rows as [|r [|r2 rows]]; cbn; auto. destruct r as [|x [|y r]]; cbn; auto.
Qed.
Lemma resolve_pwf s a p : store_wf s -> resolve s a = Ok p -> pwf p.
Proof.
  intros Hs H. destruct a; cbn in H; try (okinv; cbn; auto; fail).
  - unfold getobj in H. destruct (nth_error s i) eqn:E; cbn in H; try discriminate. okinv.
    pose proof (Forall_nth_error _ _ _ _ Hs E) as Ho. destruct o; cbn; auto.
  - okinv. unfold reduce1. destruct l as [|x [|y l]]; cbn; auto.
  - okinv. unfold reduce1. destruct (map b2q l) as [|x [|y l0]]; cbn; auto.
  - okinv. unfold reduce2, reduce1. destruct m as [|r [|r2 m]]; cbn; auto. destruct r as [|x [|y r]]; cbn; auto.
  - okinv. unfold reduce2, reduce1. destruct (map (map b2q) m) as [|r [|r2 m0]]; cbn; auto. destruct r as [|x [|y r]]; cbn; auto.
Qed.
Lemma getobj_wf s i o : store_wf s -> getobj s i = Ok o -> owf o.
Proof.
  intros Hs H. unfold getobj in H. destruct (nth_error s i) eqn:E; inversion H; subst.
  eapply Forall_nth_error; eauto.
Qed.

Lemma red_vecF_new r c keep n : red_vecF r c keep = RNew n -> owf n.
Proof.
  unfold red_vecF. destruct r, keep; cbn; intros H; try discriminate; inversion H; subst; cbn; auto;
    try (repeat constructor; apply wfc_nz).
  all: match type of H with context [match ?x with _ => _ end] => destruct x; try discriminate end;
    inversion H; subst; cbn; repeat constructor; apply wfc_nz.
Qed.
Lemma red_vecB_new r b keep n : red_vecB r b keep = RNew n -> owf n.
Proof.
  unfold red_vecB. destruct r, keep; cbn; intros H; try discriminate; inversion H; subst; cbn; auto;
    try (repeat constructor; apply wfc_nz).
  all: repeat match type of H with context [if ?x then _ else _] => destruct x; try discriminate end;
    inversion H; subst; cbn; repeat constructor; apply wfc_nz.
Qed.
Lemma wf_map_nz {A} (f : A -> Q) l : wf (map (fun x => nz (f x)) l).
Proof. apply wf_map_any. intros; apply wfc_nz. Qed.
Lemma Forall_wf_single {A} (f : A -> Q) l : Forall wf (map (fun x => [nz (f x)]) l).
Proof. induction l; cbn; constructor; auto. repeat constructor. apply wfc_nz. Qed.
Lemma red_arrF_new r rows axis keep n : Forall wf rows -> red_arrF false r rows axis keep = RNew n -> owf n.
Proof.
  intros Hr. unfold red_arrF.
  destruct axis as [[|[|k]]|]; destruct r, keep; cbn; intros H; try discriminate;
    repeat match type of H with
           | context [match ?x with _ => _ end] => destruct x eqn:?; try discriminate
           end;
    inversion H; subst; cbn; auto;
    try (repeat constructor; try apply wfc_nz; try apply (wf_map_nz (fun c => c)); fail).
  all: try (rewrite map_map; apply (Forall_wf_single (fun x => x))).
  all: try (constructor; [|constructor]).
  all: try (apply wf_map_any; intros; apply wfc_nz).
  all: try (rewrite <- (map_map (fun x => x) (fun x => [nz x])); apply (Forall_wf_single (fun x => x))).
  all: try (eapply truediv_scalar_wf; [|eassumption]; apply wf_map_any; intros; apply wfc_nz).
Qed.

(* ------------------------------------------------------------------ SparseArray.__setitem__ keeps the invariant *)
Lemma upd_rows_Forall {A} (P : A -> Prop) (f : A -> A * option err) sel : forall rows,
  (forall r, P r -> P (fst (f r))) -> Forall P rows -> Forall P (fst (upd_rows f rows sel)).
Proof.
  induction sel as [|i sel IH]; intros rows Hf Hr; cbn; auto.
  destruct (nth_error rows i) eqn:E; cbn; auto.
  pose proof (Hf a (Forall_nth_error _ _ _ _ Hr E)) as Ha.
  destruct (f a) as [r' [e|]]; cbn in *.
  - now apply Forall_upd.
  - apply IH; auto. now apply Forall_upd.
Qed.
Lemma upd_rows2_Forall {A B} (P : A -> Prop) (f : A -> B -> A * option err) sel : forall rows vals,
  (forall r v, P r -> P (fst (f r v))) -> Forall P rows -> Forall P (fst (upd_rows2 f rows sel vals)).
Proof.
  induction sel as [|i sel IH]; intros rows [|v vals] Hf Hr; cbn; auto.
  destruct (nth_error rows i) eqn:E; cbn; auto.
  pose proof (Hf a v (Forall_nth_error _ _ _ _ Hr E)) as Ha.
  destruct (f a v) as [r' [e|]]; cbn in *.
  - now apply Forall_upd.
  - apply IH; auto. now apply Forall_upd.
Qed.
Lemma keep_on_err_wf c x : wf c -> (forall r, x = Ok r -> wf r) -> wf (fst (keep_on_err c x)).
Proof. intros Hc Hx. destruct x; cbn; auto. Qed.
Lemma dset_wf c j q : wf c -> wf (fst (dset c j q)).
Proof. intros Hc. apply keep_on_err_wf; auto. intros r. now apply set1_wf. Qed.

Lemma arrF_set_wf rows ro ax p : Forall wf rows -> pwf p -> Forall wf (fst (arrF_set false rows ro ax p)).
Proof.
  intros Hr Hp. unfold arrF_set.
  set (rowset := fun (n : index) (c : cells) (v : operand) =>
                   if ro then (c, Some EValue)
                   else if is_open n && vd2 v then (c, Some EIndex)
                   else keep_on_err c (vecF_set c n v)).
  assert (RS : forall n c v, wf c -> pwf v -> wf (fst (rowset n c v))).
  { intros n c v Hc Hv. unfold rowset. destruct ro; cbn; auto. destruct (is_open n && vd2 v); cbn; auto.
    apply keep_on_err_wf; auto. intros r. now apply vecF_set_wf. }
  assert (R1 : forall isb v, pwf (reduce1 v isb)).
  { intros isb v. unfold reduce1. destruct v as [|x [|y v]]; exact I. }
  assert (U1 : forall n v sel, pwf v -> Forall wf (fst (upd_rows (fun c => rowset n c v) rows sel))).
  { intros n v sel Hv. apply upd_rows_Forall; auto. }
  assert (U2 : forall n isb sel m, Forall wf (fst (upd_rows2 (fun c v => rowset n c (reduce1 v isb)) rows sel m))).
  { intros. apply upd_rows2_Forall; auto. }
  assert (U3 : forall n isb sel (l : list Q), Forall wf (fst (upd_rows2 (fun c v => rowset n c (PS v isb)) rows sel l))).
  { intros. apply upd_rows2_Forall; auto. intros; apply RS; auto. exact I. }
  assert (BC : forall sel n, Forall wf (fst (match p with
      | PArr2 m isb => upd_rows2 (fun c v => rowset n c (reduce1 v isb)) rows sel m
      | PA m => upd_rows2 (fun c v => rowset n c (PV v)) rows sel m
      | PB _ => (rows, Some EOther)
      | _ => upd_rows (fun c => rowset n c p) rows sel end))).
  { intros sel n. destruct p; auto.
    (* PA: every value row that is used is one of the rows of the operand *)
    clear -Hr Hp RS. revert rows Hr rows0 Hp. induction sel as [|i sel IH]; intros rows Hr [|v m] Hp; cbn; auto.
    destruct (nth_error rows i) eqn:E; cbn; auto. inversion Hp; subst.
    pose proof (RS n c (PV v) (Forall_nth_error _ _ _ _ Hr E) H1) as Hc.
    destruct (rowset n c (PV v)) as [r' [e|]]; cbn in *.
    - now apply Forall_upd.
    - apply IH; auto. now apply Forall_upd. }
  destruct ax as [m|m n].
  - destruct (is_int m); [apply U1; auto|].
    destruct m; try apply BC.
    destruct p; cbn [fst]; auto; try (apply U1; auto; fail); try apply U3; try apply U2.
  - destruct (is_slice m).
    + destruct (is_slice n).
      * destruct (negb (is_open m) && is_open n); [apply U1; auto | apply BC].
      * destruct p; cbn [fst]; auto; try (destruct (is_int n)); try (apply U1; exact I); try apply U2; try apply U3.
    + destruct (is_int m); [apply U1; auto|].
      destruct (is_slice n).
      * destruct p; cbn [fst]; auto; try (apply U1; auto; fail); try apply U2; try apply U3.
      * destruct (is_int n).
        -- destruct p; cbn [fst]; auto.
           ++ apply upd_rows_Forall; auto. intros; now apply dset_wf.
           ++ apply upd_rows2_Forall; auto. intros; now apply dset_wf.
        -- destruct p; cbn [fst]; auto.
           ++ apply upd_rows2_Forall; auto. intros; now apply dset_wf.
           ++ apply upd_rows2_Forall; auto. intros; now apply dset_wf.
Qed.

(* ------------------------------------------------------------------ one operation, then every history *)
Lemma store_wf_app s o : store_wf s -> owf o -> store_wf (s ++ [o]).
Proof. intros. apply Forall_app; split; auto. Qed.
Lemma store_wf_set s i o : store_wf s -> owf o -> store_wf (set_obj s i o).
Proof. intros. now apply Forall_upd. Qed.
Lemma with_vec_wf x v x' : vwf v -> with_vec x v = Ok x' -> owf x'.
Proof. destruct x, v; cbn; intros Hv H; inversion H; subst; cbn; auto. Qed.
Lemma with_rows_wf x l x' : Forall vwf l -> with_rows x l = Ok x' -> owf x'.
Proof.
  intros Hl H. destruct x; cbn in H; try discriminate.
  - destruct (all_F l) eqn:E; inversion H; subst. cbn. eapply all_F_wf; eauto.
  - destruct (all_B l); inversion H; subst. exact I.
Qed.
Lemma vec_of_obj_wf x v : owf x -> vec_of_obj x = Some v -> vwf v.
Proof. destruct x; cbn; intros Hx H; inversion H; subst; cbn; auto. Qed.
Lemma wf_neg_bits (b : bits) : wf (map (fun x : bool => if x then Some (-(1)) else None) b).
Proof. apply wf_map_any. intros [|]; cbn; auto. lra. Qed.

Ltac bindinv H :=
  repeat match type of H with
         | (do _ <- ?m; _) = Ok _ => let E := fresh "E" in destruct m eqn:E; cbn [bind] in H; [|discriminate H]
         end.

Lemma step_res_wf s o s' r : store_wf s -> step_res false s o = Ok (s', r) -> store_wf s'.
Proof.
  intros Hs H. destruct o; cbn [step_res] in H.
  - (* OBin *)
    bindinv H. okinv. apply store_wf_app; auto.
    pose proof (getobj_wf _ _ _ Hs E) as Hx. pose proof (resolve_pwf _ _ _ Hs E0) as Hp.
    destruct (vec_of_obj a0) eqn:V.
    + eapply vector_bin_wf; [|exact Hp|exact E1]. eapply vec_of_obj_wf; eauto.
    + eapply array_bin_wf; [|exact Hp|exact E1]. now apply rows_of_wf.
  - (* OIBin *)
    bindinv H.
    pose proof (getobj_wf _ _ _ Hs E) as Hx. pose proof (resolve_pwf _ _ _ Hs E0) as Hp.
    destruct (vec_of_obj a0) eqn:V.
    + pose proof (vec_of_obj_wf _ _ Hx V) as Hv.
      destruct (is_ro a0); [discriminate|].
      assert (G : forall al p v' x', pwf p -> vec_ibin false o al v p = Ok v' -> with_vec a0 v' = Ok x' ->
                                     store_wf (set_obj s i x')).
      { intros al p v' x' Hp' Hi Hw. apply store_wf_set; auto. eapply with_vec_wf; [|exact Hw]. eapply vec_ibin_wf; eauto. }
      destruct v as [c|b]; [|destruct o as [[]| |]; try discriminate];
        (destruct a1 as [c1|b1|rows|rows|q isb|l isb|m isb];
         try (destruct rows as [|r0 [|r1 rows]]); try discriminate;
         bindinv H; okinv;
         match goal with
         | Hi : vec_ibin false _ ?al _ ?p = Ok ?v', Hw : with_vec a0 ?v' = Ok ?x' |- _ =>
             apply (G al p v' x'); [|exact Hi|exact Hw]
         end; cbn; auto; try (inversion Hp; subst; assumption)).
    + bindinv H. okinv. apply store_wf_set; auto. eapply with_rows_wf; [|eassumption].
      eapply array_ibin_wf; [|exact Hp|eassumption]. now apply rows_of_wf.
  - (* ORBin *)
    bindinv H. okinv. apply store_wf_app; auto.
    pose proof (getobj_wf _ _ _ Hs E) as Hx.
    assert (Hl : Forall vwf a0).
    { eapply mapM_Forall; [|apply (rows_of_wf _ Hx)|exact E0]. intros v y Hv Hy.
      destruct o, v as [c|b]; cbv beta iota in Hy;
        try (eapply vec_bin_wf; [exact Hv| |exact Hy]; exact I).
      - apply okF_inv in Hy as (c' & Hc & ->). cbn. eapply rsub_scalar_wf; eauto.
      - apply okF_inv in Hy as (c' & Hc & ->). cbn. eapply add_scalar_wf; [|exact Hc]. apply wf_neg_bits.
      - apply okF_inv in Hy as (c' & Hc & ->). cbn. eapply rtruediv_scalar_wf; eauto.
      - apply okF_inv in Hy as (c' & Hc & ->). cbn.
        destruct (mapM _ b); cbn in Hc; inversion Hc; subst. apply (wf_map_nz (fun x => x)). }
    destruct (vec_of_obj a).
    + destruct a0 as [|w [|w2 a0]]; try discriminate. okinv. apply obj_of_vec_wf. now inversion Hl.
    + eapply obj_of_rows_wf; eauto.
  - (* ONeg *)
    bindinv H. okinv. apply store_wf_app; auto. pose proof (getobj_wf _ _ _ Hs E) as Hx.
    destruct a; cbn in *.
    + now apply neg_cells_wf.
    + apply wf_neg_bits.
    + clear -Hx. induction Hx; cbn; constructor; auto. now apply neg_cells_wf.
    + clear. induction rows; cbn; constructor; auto. apply wf_neg_bits.
  - (* OAbs *)
    bindinv H. okinv. apply store_wf_app; auto. pose proof (getobj_wf _ _ _ Hs E) as Hx.
    destruct a; cbn in *; auto.
    + now apply abs_cells_wf.
    + clear -Hx. induction Hx; cbn; constructor; auto. now apply abs_cells_wf.
  - (* OInvert *)
    bindinv H. destruct a; try discriminate; okinv; apply store_wf_app; auto; exact I.
  - (* OCopy *)
    bindinv H. okinv. apply store_wf_app; auto. pose proof (getobj_wf _ _ _ Hs E) as Hx. destruct a; cbn in *; auto.
  - (* OClear *)
    bindinv H. destruct a; try discriminate.
    + destruct ro; try discriminate. okinv. apply store_wf_set; auto. cbn. apply wf_empty.
    + okinv. apply store_wf_set; auto. cbn. clear. induction rows; cbn; constructor; auto. apply wf_empty.
    + okinv. apply store_wf_set; auto. exact I.
  - (* OSetRO *)
    bindinv H. pose proof (getobj_wf _ _ _ Hs E) as Hx. destruct a; try discriminate; okinv; apply store_wf_set; auto.
  - (* OToArray *)
    bindinv H. okinv. auto.
  - (* OGet *)
    bindinv H. destruct (vec_of_obj a); try discriminate. okinv. auto.
  - (* OSet *)
    bindinv H.
    pose proof (getobj_wf _ _ _ Hs E) as Hx. pose proof (resolve_pwf _ _ _ Hs E0) as Hp0.
    pose proof (reduce_obj_pwf _ Hp0) as Hp.
    destruct a; try discriminate.
    + destruct ro; try discriminate.
      destruct (alias_of v i && (is_open ix || negb (len1 c))).
      * destruct (is_open ix); [okinv; auto|]. destruct (is_int ix); try discriminate.
        bindinv H. okinv. apply store_wf_set; auto. cbn. eapply set_zip_lazy_wf; eauto.
      * destruct (is_open ix && vd2 (reduce_obj a0)); try discriminate.
        bindinv H. okinv. apply store_wf_set; auto. cbn. eapply vecF_set_wf; eauto.
    + destruct (alias_of v i && (is_open ix || negb (len1 b))).
      * destruct (is_open ix); [okinv; auto|]. destruct (is_int ix); try discriminate.
        bindinv H. okinv. apply store_wf_set; auto; exact I.
      * destruct (is_open ix && vd2 (reduce_obj a0)); try discriminate.
        bindinv H. okinv. apply store_wf_set; auto; exact I.
  - (* ORed *)
    bindinv H. pose proof (getobj_wf _ _ _ Hs E) as Hx.
    match type of H with context [match ?out with RErr _ => _ | _ => _ end] => destruct out eqn:O end;
      try discriminate; okinv; auto.
    apply store_wf_app; auto.
    destruct a; cbn in Hx.
    + destruct axis as [[|k]|]; try discriminate; eapply red_vecF_new; eauto.
    + destruct axis as [[|k]|]; try discriminate; eapply red_vecB_new; eauto.
    + eapply red_arrF_new; eauto.
    + unfold red_arrB in O. destruct r0, axis as [[|[|k]]|], keep; cbn in O; inversion O; subst; exact I.
Qed.

Lemma xstep_res_wf s o s' r : store_wf s -> xstep_res false s o = Ok (s', r) -> store_wf s'.
Proof.
  intros Hs H. destruct o; cbn [xstep_res] in H.
  - eapply step_res_wf; eauto.
  - bindinv H. destruct a; try discriminate.
    destruct (arrF_get rows ax); try discriminate; try (okinv; auto; fail).
    bindinv H. okinv. auto.
  - bindinv H. pose proof (getobj_wf _ _ _ Hs E) as Hx. pose proof (resolve_pwf _ _ _ Hs E0) as Hp0.
    destruct a; try discriminate.
    pose proof (arrF_set_wf rows ro ax (reduce_obj a0) Hx (reduce_obj_pwf _ Hp0)) as Hw.
    destruct (arrF_set false rows ro ax (reduce_obj a0)) as [rows' e]. okinv.
    apply store_wf_set; auto.
Qed.
Lemma xstep_wf s o : store_wf s -> store_wf (fst (xstep false s o)).
Proof.
  intros Hs. unfold xstep. destruct (xstep_res false s o) as [[s' r]|e] eqn:E; cbn; auto.
  eapply xstep_res_wf; eauto.
Qed.
Lemma run_wf ops : forall s, store_wf s -> store_wf (fst (run false s ops)).
Proof.
  induction ops as [|o ops IH]; intros s Hs; cbn; auto.
  pose proof (xstep_wf s o Hs) as H1. destruct (xstep false s o) as [s' r]. cbn in H1.
  destruct (crashed r); cbn; auto.
  specialize (IH s' H1). destruct (run false s' ops). cbn in *. exact IH.
Qed.
Lemma mk_wf : forall l ro, owf (mkV l ro).
Proof. intros. cbn. apply wf_of_dense. Qed.
Lemma mkA_wf : forall m, owf (mkA m).
Proof. intros. cbn. induction m; cbn; constructor; auto. apply wf_of_dense. Qed.

(* ================================================================== Part 3: refinement of the dense NumPy semantics *)
Definition Rc (c : cell) (q : Q) : Prop := wfc c /\ dcell c == q.
Definition Rv (c : cells) (v : list Q) : Prop := Forall2 Rc c v.
Definition rrel {A B} (R : A -> B -> Prop) (x : res A) (y : res B) : Prop :=
  match x, y with Ok a, Ok b => R a b | Err e, Err e' => e = e' | _, _ => False end.
(* the sparse result refines the dense one: same exception class, or a well-formed vector with the same dense image *)
Definition refines (r : res cells) (d : res (list Q)) : Prop := rrel Rv r d.

Lemma Rv_dense a : wf a -> Rv a (dense a).
Proof. intros H. unfold Rv, dense. induction H; cbn; constructor; auto. split; auto. reflexivity. Qed.
Lemma Rv_spec c v : Rv c v <-> wf c /\ Forall2 Qeq (dense c) v.
Proof.
  unfold Rv, wf, dense. split.
  - intros H. induction H as [|x y c v [Hx Hy] H [IH1 IH2]]; cbn; split; constructor; auto.
  - intros [H1 H2]. revert v H2. induction H1 as [|x c Hx Hc IH]; intros v H2; cbn in H2; inversion H2; subst; constructor; auto.
    split; auto.
Qed.
Lemma Rv_length c v : Rv c v -> length c = length v.
Proof. intros H. induction H; cbn; auto. Qed.
Lemma Rv_hd c v : Rv c v -> Rc (hd None c) (hd 0 v).
Proof. intros H. destruct H; cbn; auto. split; cbn; auto. reflexivity. Qed.

Lemma map2M_rrel {A A' B B' C C'} (RA : A -> A' -> Prop) (RB : B -> B' -> Prop) (R : C -> C' -> Prop)
      (f : A -> B -> res C) (g : A' -> B' -> res C') :
  (forall x x' y y', RA x x' -> RB y y' -> rrel R (f x y) (g x' y')) ->
  forall a a' b b', Forall2 RA a a' -> Forall2 RB b b' -> rrel (Forall2 R) (map2M f a b) (map2M g a' b').
Proof.
  intros Hf a a' b b' Ha. revert b b'. induction Ha as [|x x' a a' Hx Ha IH]; intros b b' Hb; cbn.
  - destruct Hb; cbn; constructor.
  - destruct Hb as [|y y' b b' Hy Hb]; cbn; [constructor|].
    specialize (Hf x x' y y' Hx Hy). destruct (f x y), (g x' y'); cbn in Hf; try contradiction; auto.
    specialize (IH b b' Hb). destruct (map2M f a b), (map2M g a' b'); cbn in *; try contradiction; auto.
Qed.
Lemma mapM_rrel {A A' C C'} (RA : A -> A' -> Prop) (R : C -> C' -> Prop) (f : A -> res C) (g : A' -> res C') :
  (forall x x', RA x x' -> rrel R (f x) (g x')) ->
  forall a a', Forall2 RA a a' -> rrel (Forall2 R) (mapM f a) (mapM g a').
Proof.
  intros Hf a a' Ha. induction Ha as [|x x' a a' Hx Ha IH]; cbn; [constructor|].
  specialize (Hf x x' Hx). destruct (f x), (g x'); cbn in Hf; try contradiction; auto.
  destruct (mapM f a), (mapM g a'); cbn in *; try contradiction; auto.
Qed.
Lemma map2M_pure {A B C} (f : A -> B -> C) a b : map2M (fun x y => Ok (f x y)) a b = Ok (map2 f a b).
Proof. revert b. induction a as [|x a IH]; intros [|y b]; cbn; auto. now rewrite IH. Qed.
Lemma mapM_pure {A C} (f : A -> C) a : mapM (fun x => Ok (f x)) a = Ok (map f a).
Proof. induction a as [|x a IH]; cbn; auto. now rewrite IH. Qed.
Lemma empty_cells_map (b : cells) : empty_cells (length b) = map (fun _ => None) b.
Proof. unfold empty_cells. induction b; cbn; congruence. Qed.
Lemma empty_cells_mapQ (b : list Q) : empty_cells (length b) = map (fun _ => None) b.
Proof. unfold empty_cells. induction b; cbn; congruence. Qed.
Lemma map_id_cells (b : cells) : b = map (fun x => x) b.
Proof. now rewrite map_id. Qed.

(* the three operators that cannot raise: per-cell functions of every branch refine + - * *)
Definition qop (o : aop) (x y : Q) : Q := match o with Add => x + y | Sub => x - y | Mul => x * y | Div => x / y end.
Lemma aop_q_pure o x y : o <> Div -> aop_q o x y = Ok (qop o x y).
Proof. destruct o; cbn; congruence. Qed.

Ltac cellrel :=
  intros; unfold Rc in *;
  repeat match goal with
         | c : cell |- _ => destruct c
         | H : _ /\ _ |- _ => destruct H
         end;
  cbn in *; unfold nz;
  repeat match goal with
         | |- context [qzerob ?q] => let E := fresh "E" in destruct (qzerob q) eqn:E; cbn
         end;
  repeat match goal with
         | E : qzerob _ = true |- _ => apply qzerob_true in E
         | E : qzerob _ = false |- _ => apply qzerob_false in E
         end;
  (split; [try exact I; try (intro; nra); try (apply qmul_nz; auto; intro; nra) | try nra; try lra]).

Definition same_cell (o : aop) : cell -> cell -> cell :=
  match o with Add => add_same_c | Sub => sub_same_c | Mul => mul_same_c | Div => fun x _ => x end.
Lemma same_cell_rel o x x' y y' : o <> Div -> Rc x x' -> Rc y y' -> Rc (same_cell o x y) (qop o x' y').
Proof.
  intros Ho. destruct o; try congruence; cbn [same_cell qop]; unfold add_same_c, sub_same_c, mul_same_c.
  - cellrel.
  - cellrel.
  - cellrel.
Qed.

Lemma map2M_ext {A B C} (f g : A -> B -> res C) a b : (forall x y, f x y = g x y) -> map2M f a b = map2M g a b.
Proof. intros H. revert b. induction a as [|x a IH]; intros [|y b]; cbn; auto. now rewrite H, IH. Qed.
Lemma mapM_ext {A C} (f g : A -> res C) a : (forall x, f x = g x) -> mapM f a = mapM g a.
Proof. intros H. induction a as [|x a IH]; cbn; auto. now rewrite H, IH. Qed.
Lemma map2_Rv {B B'} (RB : B -> B' -> Prop) (f : cell -> B -> cell) (g : Q -> B' -> Q) a a' b b' :
  (forall x x' y y', Rc x x' -> RB y y' -> Rc (f x y) (g x' y')) ->
  Rv a a' -> Forall2 RB b b' -> Rv (map2 f a b) (map2 g a' b').
Proof.
  intros Hf Ha. revert b b'. induction Ha as [|x x' a a' Hx Ha IH]; intros b b' Hb; cbn.
  - destruct Hb; constructor.
  - destruct Hb; cbn; constructor; auto. now apply IH.
Qed.
Lemma map_Rv {A A'} (RA : A -> A' -> Prop) (f : A -> cell) (g : A' -> Q) a a' :
  (forall x x', RA x x' -> Rc (f x) (g x')) -> Forall2 RA a a' -> Rv (map f a) (map g a').
Proof. intros Hf Ha. induction Ha; cbn; constructor; auto. Qed.
Lemma Forall2_Qeq_refl l : Forall2 Qeq l l.
Proof. induction l; constructor; auto. reflexivity. Qed.

Definition self1_cell (o : aop) (v y : cell) : cell :=
  match o, v with
  | Add, Some value => match y with Some w => nz (value + w) | None => Some value end
  | Add, None => y
  | Sub, Some value => match y with Some w => nz (value - w) | None => Some value end
  | Sub, None => option_map Qopp y
  | Mul, Some value => option_map (fun j => value * j) y
  | _, _ => None
  end.
Definition other1_cell (o : aop) (ov x : cell) : cell :=
  match o, ov with
  | Add, Some other => match x with Some v => nz (v + other) | None => Some other end
  | Add, None => x
  | Sub, Some other0 => match x with Some v => nz (v + - other0) | None => Some (- other0) end
  | Sub, None => x
  | Mul, Some other => option_map (fun j => j * other) x
  | _, _ => None
  end.
Definition arr_cell (o : aop) : cell -> Q -> cell :=
  match o with Add => add_arr_c | Sub => sub_arr_c | Mul => mul_arr_c | Div => fun x _ => x end.
Definition arr_self1_cell (o : aop) (v : cell) (j : Q) : cell :=
  match o, v with
  | Add, Some value => nz (value + j)
  | Add, None => nz j
  | Sub, Some value => nz (value - j)
  | Sub, None => if qzerob j then None else Some (- j)
  | Mul, Some value => if qzerob j then None else Some (value * j)
  | _, _ => None
  end.
Lemma self1_cell_rel o v v' y y' : o <> Div -> Rc v v' -> Rc y y' -> Rc (self1_cell o v y) (qop o v' y').
Proof. intros Ho. destruct o; try congruence; cbn [self1_cell qop]; cellrel. Qed.
Lemma other1_cell_rel o ov ov' x x' : o <> Div -> Rc ov ov' -> Rc x x' -> Rc (other1_cell o ov x) (qop o x' ov').
Proof. intros Ho. destruct o; try congruence; cbn [other1_cell qop]; cellrel. Qed.
Lemma arr_cell_rel o x x' j j' : o <> Div -> Rc x x' -> j == j' -> Rc (arr_cell o x j) (qop o x' j').
Proof. intros Ho. destruct o; try congruence; cbn [arr_cell qop]; unfold add_arr_c, sub_arr_c, mul_arr_c; cellrel. Qed.
Lemma arr_self1_cell_rel o v v' j j' : o <> Div -> Rc v v' -> j == j' -> Rc (arr_self1_cell o v j) (qop o v' j').
Proof. intros Ho. destruct o; try congruence; cbn [arr_self1_cell qop]; cellrel. Qed.

(* kernels are maps of the per-cell functions *)
Lemma k_sparse_same o a b : o <> Div -> Nat.eqb (length a) (length b) = true ->
  k_sparse false o a b = Ok (map2 (same_cell o) a b).
Proof. intros Ho E. destruct o; try congruence; cbn; unfold add_sparse, sub_sparse, mul_sparse, dispatch_sparse; now rewrite E. Qed.
Lemma k_sparse_self1 o a b : o <> Div -> Nat.eqb (length a) (length b) = false -> len1 a && negb (len0 b) = true ->
  k_sparse false o a b = Ok (map (self1_cell o (hd None a)) b).
Proof.
  intros Ho E E1. destruct o; try congruence; cbn; unfold add_sparse, sub_sparse, mul_sparse, dispatch_sparse;
    rewrite E, E1; f_equal; destruct (hd None a); cbn; auto.
  - now rewrite map_id.
  - apply empty_cells_map.
Qed.
Lemma k_sparse_other1 o a b : o <> Div -> Nat.eqb (length a) (length b) = false -> len1 a && negb (len0 b) = false ->
  len1 b = true -> k_sparse false o a b = Ok (map (other1_cell o (hd None b)) a).
Proof.
  intros Ho E E1 E2. destruct b as [|y [|y2 b]]; try discriminate.
  destruct o; try congruence; cbn; unfold add_sparse, sub_sparse, mul_sparse, dispatch_sparse;
    rewrite E, E1; cbn; f_equal; destruct y; cbn; auto.
  - now rewrite map_id.
  - now rewrite map_id.
  - apply empty_cells_map.
Qed.
Lemma k_sparse_mismatch o a b : Nat.eqb (length a) (length b) = false -> len1 a && negb (len0 b) = false ->
  len1 b = false -> k_sparse false o a b = Err EValue.
Proof.
  intros E E1 E2. destruct o; cbn; unfold add_sparse, sub_sparse, mul_sparse, truediv_sparse, dispatch_sparse; now rewrite E, E1, E2.
Qed.

Theorem arith_sparse_refines o a a' b b' : o <> Div -> Rv a a' -> Rv b b' -> (length a = 1%nat -> b <> []) ->
  refines (k_sparse false o a b) (np_arith o a' b').
Proof.
  intros Ho Ha Hb Hne. unfold refines, np_arith, np_bcast.
  rewrite <- (Rv_length _ _ Ha), <- (Rv_length _ _ Hb).
  destruct (Nat.eqb (length a) (length b)) eqn:E.
  - rewrite k_sparse_same by auto.
    rewrite (map2M_ext _ (fun x y => Ok (qop o x y))) by (intros; now apply aop_q_pure).
    rewrite map2M_pure. cbn. apply (map2_Rv Rc); auto. intros; now apply same_cell_rel.
  - unfold len1, len0 in *. destruct (Nat.eqb (length a) 1) eqn:E1.
    + assert (L0 : Nat.eqb (length b) 0 = false).
      { apply Nat.eqb_eq in E1. specialize (Hne E1). destruct b; [congruence|reflexivity]. }
      rewrite k_sparse_self1 by (auto; unfold len1, len0; now rewrite E1, L0).
      rewrite (mapM_ext _ (fun y => Ok (qop o (hd 0 a') y))) by (intros; now apply aop_q_pure).
      rewrite mapM_pure. cbn. apply (map_Rv Rc); auto. intros. apply self1_cell_rel; auto. now apply Rv_hd.
    + destruct (Nat.eqb (length b) 1) eqn:E2.
      * rewrite k_sparse_other1 by (auto; unfold len1, len0; now rewrite ?E1, ?E2).
        rewrite (mapM_ext _ (fun x => Ok (qop o x (hd 0 b')))) by (intros; now apply aop_q_pure).
        rewrite mapM_pure. cbn. apply (map_Rv Rc); auto. intros. apply other1_cell_rel; auto. now apply Rv_hd.
      * rewrite k_sparse_mismatch by (auto; unfold len1, len0; now rewrite ?E1, ?E2). reflexivity.
Qed.

(* scalar operand = NumPy with a length-1 array *)
Lemma k_scalar_eq o a k : o <> Div -> k_scalar o a k = Ok (map (other1_cell o (nz k)) a).
Proof.
  intros Ho. destruct o; try congruence; cbn; unfold add_scalar, sub_scalar, mul_scalar, nz;
    destruct (qzerob k); cbn; f_equal; try (now rewrite map_id). apply empty_cells_map.
Qed.
Theorem arith_scalar_refines o a a' k k' : o <> Div -> Rv a a' -> k == k' ->
  refines (k_scalar o a k) (np_arith o a' [k']).
Proof.
  intros Ho Ha Hk. unfold refines, np_arith, np_bcast. rewrite k_scalar_eq by auto. cbn [length hd].
  assert (R : Rc (nz k) k') by (split; [apply wfc_nz | now rewrite dcell_nz]).
  assert (G : rrel Rv (Ok (map (other1_cell o (nz k)) a)) (mapM (fun x => aop_q o x k') a')).
  { rewrite (mapM_ext _ (fun x => Ok (qop o x k'))) by (intros; now apply aop_q_pure).
    rewrite mapM_pure. cbn. apply (map_Rv Rc); auto. intros. now apply other1_cell_rel. }
  destruct (Nat.eqb (length a') 1) eqn:E1; [|exact G].
  destruct a' as [|x' [|y' a']]; try discriminate. inversion Ha as [|x x0 a0 a1 Hx Ha0]; subst. inversion Ha0; subst.
  cbn [map2M map]. rewrite aop_q_pure by auto. cbn. constructor; [|constructor]. now apply other1_cell_rel.
Qed.

(* 1-d array operand *)
Lemma k_array_same o a b : o <> Div -> Nat.eqb (length a) (length b) = true ->
  k_array o a b = Ok (map2 (arr_cell o) a b).
Proof. intros Ho E. destruct o; try congruence; cbn; unfold add_array, sub_array, mul_array, dispatch_array; now rewrite E. Qed.
Lemma k_array_self1 o a b : o <> Div -> Nat.eqb (length a) (length b) = false -> len1 a && negb (len0 b) = true ->
  k_array o a b = Ok (map (arr_self1_cell o (hd None a)) b).
Proof.
  intros Ho E E1. destruct o; try congruence; cbn; unfold add_array, sub_array, mul_array, dispatch_array;
    rewrite E, E1; f_equal; destruct (hd None a); cbn; auto. apply empty_cells_mapQ.
Qed.
Lemma k_array_mismatch o a b : Nat.eqb (length a) (length b) = false -> len1 a && negb (len0 b) = false ->
  k_array o a b = Err EValue.
Proof.
  intros E E1. destruct o; cbn; unfold add_array, sub_array, mul_array, truediv_array, dispatch_array; now rewrite E, E1.
Qed.
(* the dispatch templates turn a length-1 list into a scalar, so the array kernels only see other lengths *)
Theorem arith_array_refines o a a' b b' : o <> Div -> Rv a a' -> Forall2 Qeq b b' -> b <> [] -> length b <> 1%nat ->
  refines (k_array o a b) (np_arith o a' b').
Proof.
  intros Ho Ha Hb Hne Hn1. unfold refines, np_arith, np_bcast.
  assert (Lb : length b = length b') by (clear -Hb; induction Hb; cbn; auto).
  rewrite <- (Rv_length _ _ Ha), <- Lb.
  destruct (Nat.eqb (length a) (length b)) eqn:E.
  - rewrite k_array_same by auto.
    rewrite (map2M_ext _ (fun x y => Ok (qop o x y))) by (intros; now apply aop_q_pure).
    rewrite map2M_pure. cbn. apply (map2_Rv Qeq); auto. intros; now apply arr_cell_rel.
  - assert (L0 : len0 b = false) by (destruct b; [congruence|reflexivity]).
    unfold len1, len0 in *. destruct (Nat.eqb (length a) 1) eqn:E1.
    + rewrite k_array_self1 by (auto; unfold len1, len0; now rewrite E1, L0).
      rewrite (mapM_ext _ (fun y => Ok (qop o (hd 0 a') y))) by (intros; now apply aop_q_pure).
      rewrite mapM_pure. cbn. apply (map_Rv Qeq); auto. intros. apply arr_self1_cell_rel; auto. now apply Rv_hd.
    + rewrite k_array_mismatch by (auto; unfold len1, len0; now rewrite ?E1).
      apply Nat.eqb_neq in Hn1. rewrite Hn1. reflexivity.
Qed.

(* ------------------------------------------------------------------ division: whenever NumPy returns, the sparse kernel returns the same *)
Lemma Rc_present y y' : Rc y y' -> ~ y' == 0 -> exists w, y = Some w /\ w == y' /\ ~ w == 0.
Proof. intros [Hw Hd] Hy. destruct y as [w|]; cbn in *; [eauto | exfalso; apply Hy; now rewrite <- Hd]. Qed.
Lemma qdiv_compat v v' w w' q' : v == v' -> w == w' -> qdiv v' w' = Ok q' -> exists q, qdiv v w = Ok q /\ q == q' /\ ~ w == 0.
Proof.
  intros Hv Hw H. apply qdiv_ok in H as [Hz ->]. unfold qdiv.
  assert (Hz' : ~ w == 0) by (now rewrite Hw).
  apply qzerob_false in Hz'. rewrite Hz'. eexists; split; [reflexivity|]. split; [now rewrite Hv, Hw | now apply qzerob_false].
Qed.
Definition okrel {A B} (R : A -> B -> Prop) (x : res A) (y : res B) : Prop :=
  forall v, y = Ok v -> exists r, x = Ok r /\ R r v.
Lemma map2M_okrel {A A' B B' C C'} (RA : A -> A' -> Prop) (RB : B -> B' -> Prop) (R : C -> C' -> Prop)
      (f : A -> B -> res C) (g : A' -> B' -> res C') :
  (forall x x' y y', RA x x' -> RB y y' -> okrel R (f x y) (g x' y')) ->
  forall a a' b b', Forall2 RA a a' -> Forall2 RB b b' -> okrel (Forall2 R) (map2M f a b) (map2M g a' b').
Proof.
  intros Hf a a' b b' Ha. revert b b'. induction Ha as [|x x' a a' Hx Ha IH]; intros b b' Hb v Hv; cbn in *.
  - destruct Hb; cbn in *; inversion Hv; subst; eexists; split; eauto.
  - destruct Hb as [|y y' b b' Hy Hb]; cbn in *; [inversion Hv; subst; eexists; split; eauto|].
    destruct (g x' y') as [z'|] eqn:G; try discriminate.
    destruct (map2M g a' b') as [t'|] eqn:G2; try discriminate. inversion Hv; subst.
    destruct (Hf x x' y y' Hx Hy z' G) as (z & -> & Hz).
    destruct (IH b b' Hb t' G2) as (t & -> & Ht). eexists; split; eauto.
Qed.
Lemma mapM_okrel {A A' C C'} (RA : A -> A' -> Prop) (R : C -> C' -> Prop) (f : A -> res C) (g : A' -> res C') :
  (forall x x', RA x x' -> okrel R (f x) (g x')) ->
  forall a a', Forall2 RA a a' -> okrel (Forall2 R) (mapM f a) (mapM g a').
Proof.
  intros Hf a a' Ha. induction Ha as [|x x' a a' Hx Ha IH]; intros v Hv; cbn in *.
  - inversion Hv; subst; eexists; split; eauto.
  - destruct (g x') as [z'|] eqn:G; try discriminate.
    destruct (mapM g a') as [t'|] eqn:G2; try discriminate. inversion Hv; subst.
    destruct (Hf x x' Hx z' G) as (z & -> & Hz). destruct (IH t' eq_refl) as (t & -> & Ht). eexists; split; eauto.
Qed.
Lemma qdiv_eval v w : ~ w == 0 -> qdiv v w = Ok (v / w).
Proof. intros H. unfold qdiv. apply qzerob_false in H. now rewrite H. Qed.
Lemma truediv_same_c_ok x x' y y' : Rc x x' -> Rc y y' -> okrel Rc (truediv_same_c x y) (qdiv x' y').
Proof.
  intros Hx Hy q' H. pose proof (qdiv_ok _ _ _ H) as [Hz ->].
  destruct (Rc_present _ _ Hy Hz) as (w & -> & Hw & Hwz).
  destruct Hx as [Hxw Hxd]. destruct x as [v|]; cbn in *.
  - rewrite (qdiv_eval v w Hwz). cbn. eexists; split; [reflexivity|]. split; cbn.
    + now apply qdiv_nz.
    + now rewrite Hxd, Hw.
  - eexists; split; [reflexivity|]. split; cbn; auto. rewrite <- Hxd. unfold Qdiv. ring.
Qed.
Lemma div_c_ok x x' y y' : Rc x x' -> y == y' -> okrel Rc (div_c x y) (qdiv x' y').
Proof.
  intros [Hxw Hxd] Hy q' H. pose proof (qdiv_ok _ _ _ H) as [Hz ->].
  assert (Hyz : ~ y == 0) by (now rewrite Hy).
  destruct x as [v|]; cbn in *.
  - rewrite (qdiv_eval v y Hyz). cbn. eexists; split; [reflexivity|]. split; cbn.
    + now apply qdiv_nz.
    + now rewrite Hxd, Hy.
  - eexists; split; [reflexivity|]. split; cbn; auto. rewrite <- Hxd. unfold Qdiv. ring.
Qed.
(* same-size sparse / sparse, sparse / scalar, sparse / array (same size) *)
Theorem truediv_sparse_same_ok a a' b b' : Rv a a' -> Rv b b' -> length a = length b ->
  okrel Rv (truediv_sparse a b) (np_arith Div a' b').
Proof.
  intros Ha Hb L. unfold truediv_sparse, dispatch_sparse, np_arith, np_bcast.
  rewrite <- (Rv_length _ _ Ha), <- (Rv_length _ _ Hb), L, Nat.eqb_refl.
  apply (map2M_okrel Rc Rc); auto. intros; now apply truediv_same_c_ok.
Qed.
Theorem truediv_scalar_ok a a' k k' : Rv a a' -> k == k' -> length a <> 1%nat ->
  okrel Rv (truediv_scalar a k) (np_arith Div a' [k']).
Proof.
  intros Ha Hk L. unfold truediv_scalar, np_arith, np_bcast. rewrite <- (Rv_length _ _ Ha). cbn [length hd].
  apply Nat.eqb_neq in L. rewrite L. rewrite Nat.eqb_refl.
  apply (mapM_okrel Rc); auto. intros; now apply div_c_ok.
Qed.
Theorem truediv_array_same_ok a a' b b' : Rv a a' -> Forall2 Qeq b b' -> length a = length b ->
  okrel Rv (truediv_array a b) (np_arith Div a' b').
Proof.
  intros Ha Hb L. unfold truediv_array, dispatch_array, np_arith, np_bcast.
  assert (Lb : length b = length b') by (clear -Hb; induction Hb; cbn; auto).
  rewrite <- (Rv_length _ _ Ha), <- Lb, L, Nat.eqb_refl.
  apply (map2M_okrel Rc Qeq); auto. intros; now apply div_c_ok.
Qed.

(* ------------------------------------------------------------------ in-place kernels *)
Lemma inplace_eq_binary o a b : ik_sparse false o false a b = k_sparse false o a b.
Proof. destruct o; reflexivity. Qed.
Lemma inplace_self_eq_binary o a : o <> Div -> ik_sparse false o true a a = k_sparse false o a a.
Proof. destruct o; try congruence; reflexivity. Qed.
(* NumPy's in-place form is the binary form whenever the result has the shape of the target *)
Lemma np_iarith_binary o a b : length a = length b \/ (length b = 1%nat) -> np_iarith o a b = np_arith o a b.
Proof.
  intros H. unfold np_iarith, np_ibcast, np_arith, np_bcast.
  destruct (Nat.eqb (length a) (length b)) eqn:E; auto.
  destruct H as [H|H]; [apply Nat.eqb_neq in E; congruence|].
  rewrite H. cbn. destruct (Nat.eqb (length a) 1) eqn:E1; auto.
  apply Nat.eqb_eq in E1. apply Nat.eqb_neq in E. congruence.
Qed.
Theorem iarith_sparse_refines o a a' b b' : o <> Div -> Rv a a' -> Rv b b' ->
  length a = length b \/ length b = 1%nat ->
  refines (ik_sparse false o false a b) (np_iarith o a' b').
Proof.
  intros Ho Ha Hb L. rewrite inplace_eq_binary, np_iarith_binary.
  - apply arith_sparse_refines; auto. intros L1 ->. cbn in L. destruct L as [L|L]; congruence.
  - now rewrite <- (Rv_length _ _ Ha), <- (Rv_length _ _ Hb).
Qed.

(* ------------------------------------------------------------------ unary operations and copies *)
Lemma neg_refines a a' : Rv a a' -> Rv (neg_cells a) (np_neg a').
Proof. intros H. apply (map_Rv Rc); auto. cellrel. Qed.
Lemma abs_refines a a' : Rv a a' -> Rv (abs_cells a) (np_abs a').
Proof.
  intros H. apply (map_Rv Rc); auto. intros x x' [Hw Hd]. destruct x as [v|]; cbn in *; split; cbn; auto.
  - now apply qabs_nz.
  - now rewrite Hd.
  - rewrite <- Hd. reflexivity.
Qed.
Lemma empty_refines a a' : Rv a a' -> Rv (empty_cells (length a)) (map (fun _ => 0) a').
Proof. intros H. rewrite empty_cells_map. apply (map_Rv Rc); auto. intros; split; cbn; auto. reflexivity. Qed.

(* ------------------------------------------------------------------ footprint of one operation *)
Definition target (o : xop) : option nat :=
  match o with
  | XOp (OIBin _ i _) | XOp (OClear i) | XOp (OSetRO i) | XOp (OSet i _ _) | XASet i _ _ => Some i
  | _ => None
  end.
Ltac shp H :=
  repeat match type of H with
         | (do _ <- ?m; _) = Ok _ => let E := fresh "E" in destruct m eqn:E; cbn [bind] in H; [|discriminate H]
         | context [match ?x with _ => _ end] => destruct x eqn:?; try discriminate H
         | context [if ?x then _ else _] => destruct x eqn:?; try discriminate H
         end.
Lemma xstep_res_shape lg s o s' r : xstep_res lg s o = Ok (s', r) ->
  s' = s \/ (exists n, s' = s ++ [n] /\ target o = None) \/ (exists i x, s' = set_obj s i x /\ target o = Some i).
Proof.
  intros H. destruct o as [o|i ax|i ax v]; [destruct o|..]; cbn [xstep_res step_res] in H; shp H;
    inversion H; subst; cbn [target]; eauto 6.
Qed.
Lemma nth_error_app_l {A} (l l' : list A) k : (k < length l)%nat -> nth_error (l ++ l') k = nth_error l k.
Proof. intros. now apply nth_error_app1. Qed.
Theorem xstep_frame lg s o : forall k, (k < length s)%nat -> target o <> Some k ->
  nth_error (fst (xstep lg s o)) k = nth_error s k.
Proof.
  intros k Hk Ht. unfold xstep. destruct (xstep_res lg s o) as [[s' r]|e] eqn:E; cbn; auto.
  destruct (xstep_res_shape _ _ _ _ _ E) as [->|[(n & -> & _)|(i & x & -> & T)]]; auto.
  - now apply nth_error_app_l.
  - unfold set_obj. apply nth_error_upd_other. congruence.
Qed.
Theorem xstep_length lg s o : (length s <= length (fst (xstep lg s o)))%nat.
Proof.
  unfold xstep. destruct (xstep_res lg s o) as [[s' r]|e] eqn:E; cbn; auto.
  destruct (xstep_res_shape _ _ _ _ _ E) as [->|[(n & -> & _)|(i & x & -> & T)]]; auto.
  - rewrite app_length. cbn. lia.
  - unfold set_obj. now rewrite upd_length.
Qed.
(* for every history: an object changes only through a mutator aimed at it *)
Theorem run_frame lg ops : forall s k, (k < length s)%nat -> (forall o, In o ops -> target o <> Some k) ->
  nth_error (fst (run lg s ops)) k = nth_error s k.
Proof.
  induction ops as [|o ops IH]; intros s k Hk Ht; cbn; auto.
  pose proof (xstep_frame lg s o k Hk (Ht o (or_introl eq_refl))) as F.
  pose proof (xstep_length lg s o) as L.
  destruct (xstep lg s o) as [s' r]. cbn in F, L.
  destruct (crashed r); cbn; auto.
  specialize (IH s' k ltac:(lia) (fun o' H => Ht o' (or_intror H))).
  destruct (run lg s' ops). cbn in *. congruence.
Qed.
(* a rejected operation (ValueError, IndexError, TypeError) leaves the whole store as it was,
   except SparseArray.__setitem__, whose row loop may have written earlier rows *)
Theorem rejected_unchanged lg s o e : (forall i ax v, o <> XASet i ax v) -> lg = false ->
  snd (xstep lg s o) = RErr e -> fst (xstep lg s o) = s.
Proof.
  intros Hn -> H. unfold xstep in *. destruct (xstep_res false s o) as [[s' r]|e'] eqn:E; cbn in *; auto.
  subst r. destruct o as [o|i ax|i ax v]; [destruct o|..]; cbn [xstep_res step_res] in E; shp E;
    try (inversion E; subst; auto; fail); try (exfalso; eapply Hn; reflexivity).
Qed.

(* ------------------------------------------------------------------ read-only vectors reject every write *)
Theorem readonly_vector_rejects lg s i c o :
  nth_error s i = Some (OV c true) ->
  (exists b a p, o = XOp (OIBin b i a) /\ resolve s a = Ok p) \/ o = XOp (OClear i) \/
  (exists ix a p, o = XOp (OSet i ix a) /\ resolve s a = Ok p) ->
  xstep lg s o = (s, RErr EValue).
Proof.
  intros Hi [(b & a & p & -> & R)|[->|(ix & a & p & -> & R)]]; unfold xstep; cbn [xstep_res step_res];
    unfold getobj; rewrite Hi; cbn [bind]; rewrite ?R; cbn; reflexivity.
Qed.

(* ================================================================== Part 4: statements the code does not satisfy *)
(* full statements (kept visible); each is refuted by a concrete witness evaluated by the kernel *)
Definition div_statement : Prop :=
  forall a b, wf a -> wf b -> refines (truediv_sparse a b) (np_arith Div (dense a) (dense b)).
Definition inplace_statement : Prop :=
  forall o a b, wf a -> wf b -> refines (ik_sparse false o false a b) (np_iarith o (dense a) (dense b)).
Definition broadcast_statement : Prop :=
  forall o a b, wf a -> wf b -> refines (k_sparse false o a b) (np_arith o (dense a) (dense b)).
Definition setitem_index_statement : Prop :=
  forall c i v, wf c -> refines (set1 c i v) (if Nat.ltb i (length c) then Ok (upd (dense c) i v) else Err EIndex).
Definition setitem_shape_statement : Prop :=
  forall c idx l, wf c -> refines (set_idx c idx (SVArr l)) (np_setitems (dense c) idx l).
Definition readonly_array_statement : Prop :=
  forall s i rows o, nth_error s i = Some (OA rows true) -> target o = Some i -> fst (xstep false s o) = s.
Definition logical_div_statement : Prop :=
  forall a b, rrel eq (lv_isparse LDiv a b) (np_logic LDiv a b).
Definition array_rows_statement : Prop :=
  forall o rows m isb r, array_bin false o (map VF rows) (PArr2 m isb) = Ok (OA r false) -> length r = length rows.
Definition mask_rows_statement : Prop :=
  forall rows mk l, Forall wf rows -> length l = vsize rows ->
    Forall (fun i => nth_error (fst (arrF_set false rows false (XRow (IMask mk)) (PArr l false))) i = Some (of_dense l)) (mask_idx mk).
Ltac wfv := repeat constructor; cbn; try exact I; try (let K := fresh "K" in intro K; vm_compute in K; discriminate K).
Lemma div_refuted : ~ div_statement.
Proof. intros H. specialize (H [None; Some 1] [None; Some 1] ltac:(wfv) ltac:(wfv)). vm_compute in H. exact H. Qed.
Lemma inplace_refuted : ~ inplace_statement.
Proof. intros H. specialize (H Add [Some 1] [Some 1; Some 2; Some 3] ltac:(wfv) ltac:(wfv)). vm_compute in H. exact H. Qed.
Lemma broadcast_refuted : ~ broadcast_statement.
Proof. intros H. specialize (H Add [Some 1] [] ltac:(wfv) ltac:(wfv)). vm_compute in H. exact H. Qed.
Lemma setitem_index_refuted : ~ setitem_index_statement.
Proof. intros H. specialize (H [None] 3%nat 1 ltac:(wfv)). vm_compute in H. discriminate H. Qed.
Lemma setitem_shape_refuted : ~ setitem_shape_statement.
Proof. intros H. specialize (H [None; None; None] [0; 1; 2]%nat [5; 6] ltac:(wfv)). vm_compute in H. exact H. Qed.
Lemma readonly_array_refuted : ~ readonly_array_statement.
Proof.
  intros H. specialize (H [OA [[Some 1]] true] 0%nat [[Some 1]] (XOp (OIBin (BA Add) 0 (AScal 1))) eq_refl eq_refl).
  vm_compute in H. discriminate H.
Qed.
Lemma logical_div_refuted : ~ logical_div_statement.
Proof. intros H. specialize (H [true] [true; false]). vm_compute in H. exact H. Qed.
Lemma array_rows_refuted : ~ array_rows_statement.
Proof.
  intros H. specialize (H (BA Add) [[Some 1]; [Some 2]; [Some 3]] [[1]; [1]] false [[Some 2]; [Some 3]] eq_refl).
  vm_compute in H. discriminate H.
Qed.
Lemma mask_rows_refuted : ~ mask_rows_statement.
Proof.
  intros H. specialize (H [[None; None]] [true] [5; 7] ltac:(repeat constructor) eq_refl).
  vm_compute in H. inversion H as [|x l Hx Hl]; subst. discriminate Hx.
Qed.
(* what the repairs in pending_fixes/C09_1, C09_2 correct: the old kernels dropped 1/0 and raised on a -= a *)
Lemma legacy_div_drops_entry :
  truediv_sparse_legacy [Some 1; None; Some 2] [None; Some 1; Some 2] = Ok [None; None; Some (2 # 2)] /\
  np_arith Div [1; 0; 2] [0; 1; 2] = Err EZeroDiv /\
  truediv_sparse [Some 1; None; Some 2] [None; Some 1; Some 2] = Err EZeroDiv.
Proof. repeat split; vm_compute; reflexivity. Qed.
Lemma legacy_isub_self_raises :
  isub_self [Some 1; None; Some 2] = Err ERuntime /\ isub_self_fixed [Some 1; None; Some 2] = Ok [None; None; None].
Proof. split; vm_compute; reflexivity. Qed.

(* ================================================================== Part 5: histories refine NumPy histories (float-vector fragment) *)
Lemma dense_of_dense l : Forall2 Qeq (dense (of_dense l)) l.
Proof. induction l; cbn; constructor; auto. apply dcell_nz. Qed.
Lemma Rv_of_dense l : Rv (of_dense l) l.
Proof. apply Rv_spec. split; [apply wf_of_dense | apply dense_of_dense]. Qed.

Definition osim (o : obj) (d : dobj) : Prop :=
  match o, d with
  | OV c ro, DV v ro' => Rv c v /\ ro = ro'
  | OL b, DL b' => b = b'
  | OA rows ro, DA m ro' => Forall2 Rv rows m /\ ro = ro'
  | OB r, DB r' => r = r'
  | _, _ => False
  end.
Definition sim (s : store) (d : dstore) : Prop := Forall2 osim s d.
Lemma sim_abs s : store_wf s -> sim s (abs_store s).
Proof.
  intros H. unfold sim, abs_store. induction H as [|o s Ho Hs IH]; cbn; constructor; auto.
  destruct o; cbn in *; auto using Rv_dense.
  split; auto. induction Ho; cbn; constructor; auto using Rv_dense.
Qed.
Lemma sim_nth s d i o : sim s d -> nth_error s i = Some o -> exists o', nth_error d i = Some o' /\ osim o o'.
Proof.
  intros H. revert i. induction H as [|x y s d Hxy H IH]; intros [|i] E; cbn in *; try discriminate.
  - inversion E; subst. eauto.
  - eauto.
Qed.
Lemma sim_app s d o o' : sim s d -> osim o o' -> sim (s ++ [o]) (d ++ [o']).
Proof. intros. apply Forall2_app; auto. Qed.
Lemma sim_upd s d i o o' : sim s d -> osim o o' -> sim (upd s i o) (upd d i o').
Proof. intros H Ho. revert i. unfold sim in *. induction H; intros [|i]; cbn; try constructor; auto. Qed.

(* operands of the fragment: a float vector of the store, a python scalar, a non-empty list / 1-d ndarray *)
Definition okarg (s : store) (c : cells) (x : arg) : Prop :=
  match x with
  | AObj j => exists d ro, nth_error s j = Some (OV d ro) /\ (length c = 1%nat -> d <> [])
  | AScal _ => True
  | AArr l => l <> []
  | _ => False
  end.
Definition vcells (r : res vec) : res cells :=
  match r with Ok (VF c) => Ok c | Ok (VB _) => Err EOther | Err e => Err e end.
Lemma vcells_okF r : vcells (okF r) = r.
Proof. destruct r; reflexivity. Qed.
Lemma arg_refines s d a c v x : sim s d -> a <> Div -> Rv c v -> okarg s c x ->
  exists p w, resolve s x = Ok p /\ darg d x = Some w /\
              refines (vcells (vec_bin false (BA a) (VF c) p)) (np_arith a v w) /\
              (forall al, (al = true -> p = PV c) -> vec_ibin false (BA a) al (VF c) p = vec_bin false (BA a) (VF c) p) /\
              match p with PV e => length e = length w | PS _ _ => length w = 1%nat | PArr l _ => length l = length w | _ => False end.
Proof.
  intros Hs Ha Hc Hx. destruct x as [j|q|b|l|l|m|m]; cbn in Hx; try contradiction.
  - destruct Hx as (e & ro & Ej & Hne). destruct (sim_nth _ _ _ _ Hs Ej) as (o' & Ej' & Ho).
    destruct o' as [w ro'| | |]; cbn in Ho; try contradiction. destruct Ho as [Hew _].
    exists (PV e), w. cbn. unfold getobj. rewrite Ej, Ej'. cbn. repeat split; auto.
    + rewrite vcells_okF. now apply arith_sparse_refines.
    + intros al Hal. destruct al; [|now rewrite inplace_eq_binary].
      specialize (Hal eq_refl). inversion Hal; subst. now rewrite inplace_self_eq_binary.
    + now apply Rv_length.
  - exists (PS q false), [q]. cbn. repeat split; auto. rewrite vcells_okF. apply arith_scalar_refines; auto. reflexivity.
  - destruct l as [|x [|y l]]; [congruence| |].
    + exists (PS x false), [x]. cbn. repeat split; auto. rewrite vcells_okF. apply arith_scalar_refines; auto. reflexivity.
    + exists (PArr (x :: y :: l) false), (x :: y :: l). cbn -[np_arith]. repeat split; auto.
      rewrite vcells_okF. apply arith_array_refines; auto using Forall2_Qeq_refl; cbn; congruence.
Qed.

Lemma vec_bin_BA_VF a c p r : vec_bin false (BA a) (VF c) p = Ok r -> exists c', r = VF c'.
Proof. destruct p; cbn; intros H; try discriminate; apply okF_inv in H as (c' & _ & ->); eauto. Qed.

Inductive fop (s : store) : xop -> Prop :=
| F_bin a i x c ro : a <> Div -> nth_error s i = Some (OV c ro) -> okarg s c x -> fop s (XOp (OBin (BA a) i x))
| F_ibin a i x c ro : a <> Div -> nth_error s i = Some (OV c ro) -> okarg s c x ->
    (* the result has the shape of the target (NumPy's rule for in-place operators) *)
    (forall p, resolve s x = Ok p ->
       match p with PV e => length e = length c \/ length e = 1%nat | PArr l _ => length l = length c | _ => True end) ->
    fop s (XOp (OIBin (BA a) i x))
| F_neg i c ro : nth_error s i = Some (OV c ro) -> fop s (XOp (ONeg i))
| F_abs i c ro : nth_error s i = Some (OV c ro) -> fop s (XOp (OAbs i))
| F_copy i c ro : nth_error s i = Some (OV c ro) -> fop s (XOp (OCopy i))
| F_clear i c ro : nth_error s i = Some (OV c ro) -> fop s (XOp (OClear i))
| F_setro i c ro : nth_error s i = Some (OV c ro) -> fop s (XOp (OSetRO i)).

Lemma np_arith_err a v w e : a <> Div -> np_arith a v w = Err e -> e = EValue.
Proof.
  intros Ha. unfold np_arith, np_bcast.
  rewrite (map2M_ext _ (fun x y => Ok (qop a x y))) by (intros; now apply aop_q_pure).
  rewrite (mapM_ext (aop_q a (hd 0 v)) (fun y => Ok (qop a (hd 0 v) y))) by (intros; now apply aop_q_pure).
  rewrite (mapM_ext (fun x => aop_q a x (hd 0 w)) (fun x => Ok (qop a x (hd 0 w)))) by (intros; now apply aop_q_pure).
  rewrite map2M_pure, !mapM_pure.
  destruct (Nat.eqb (length v) (length w)); [discriminate|].
  destruct (Nat.eqb (length v) 1); [discriminate|].
  destruct (Nat.eqb (length w) 1); [discriminate|]. congruence.
Qed.

Lemma step_sim s d o : sim s d -> fop s o ->
  sim (fst (xstep false s o)) (fst (np_step d o)) /\ crashed (snd (xstep false s o)) = false.
Proof.
  intros Hs Ho. destruct Ho as [a i x c ro Ha Ei Hx | a i x c ro Ha Ei Hx Hsh | i c ro Ei | i c ro Ei | i c ro Ei | i c ro Ei | i c ro Ei];
    destruct (sim_nth _ _ _ _ Hs Ei) as (o' & Ei' & Hoo); destruct o' as [v ro'| | |]; cbn in Hoo; try contradiction;
    destruct Hoo as [Hcv <-].
  - destruct (arg_refines s d a c v x Hs Ha Hcv Hx) as (p & w & R & D & Href & _ & _).
    unfold xstep. cbn [xstep_res step_res np_step]. unfold getobj. rewrite Ei, Ei', R, D. cbn [bind vec_of_obj].
    unfold vector_bin.
    assert (P : match p with PA _ | PB _ | PArr2 _ _ => False | _ => True end).
    { destruct x as [j| | |l| | |]; cbn in R; try contradiction; try (inversion R; exact I).
      - unfold getobj in R. destruct Hx as (e & ro2 & Ej & _). rewrite Ej in R. inversion R; exact I.
      - inversion R. unfold reduce1. destruct l as [|? [|? ?]]; exact I. }
    destruct p; try contradiction;
      (destruct (vec_bin false (BA a) (VF c) _) as [[r|bb]|e] eqn:V; try (apply vec_bin_BA_VF in V as (? & V'); discriminate V'); cbn in Href;
       destruct (np_arith a v w) as [r'|e'] eqn:N; cbn in Href; try contradiction; cbn;
       (split; [auto; try (apply sim_app; auto; cbn; auto) | try reflexivity; subst; now rewrite (np_arith_err _ _ _ _ Ha N)])).
  - destruct (arg_refines s d a c v x Hs Ha Hcv Hx) as (p & w & R & D & Href & Hal & Hlen).
    specialize (Hsh p R).
    unfold xstep. cbn [xstep_res step_res np_step]. unfold getobj. rewrite Ei, Ei', R, D. cbn [bind vec_of_obj is_ro].
    destruct ro; [cbn; auto|].
    assert (Hnp : np_iarith a v w = np_arith a v w).
    { apply np_iarith_binary. rewrite <- (Rv_length _ _ Hcv). destruct p; try contradiction; try (right; exact Hlen).
      - rewrite <- Hlen. destruct Hsh as [L|L]; auto.
      - left. now rewrite <- Hlen. }
    rewrite Hnp.
    assert (Hal' : alias_of x i = true -> p = PV c).
    { intros A. destruct x; cbn in A; try discriminate. apply Nat.eqb_eq in A. subst. cbn in R. unfold getobj in R.
      rewrite Ei in R. now inversion R. }
    destruct p; try contradiction;
      (rewrite (Hal _ Hal');
       destruct (vec_bin false (BA a) (VF c) _) as [[r|bb]|e] eqn:V; try (apply vec_bin_BA_VF in V as (? & V'); discriminate V'); cbn in Href;
       destruct (np_arith a v w) as [r'|e'] eqn:N; cbn in Href; try contradiction; cbn;
       (split; [auto; try (apply sim_upd; auto; cbn; auto) | try reflexivity; subst; now rewrite (np_arith_err _ _ _ _ Ha N)])).
  - unfold xstep. cbn [xstep_res step_res np_step]. unfold getobj. rewrite Ei, Ei'. cbn. split; auto.
    apply sim_app; auto. cbn. split; auto. now apply neg_refines.
  - unfold xstep. cbn [xstep_res step_res np_step]. unfold getobj. rewrite Ei, Ei'. cbn. split; auto.
    apply sim_app; auto. cbn. split; auto. now apply abs_refines.
  - unfold xstep. cbn [xstep_res step_res np_step]. unfold getobj. rewrite Ei, Ei'. cbn. split; auto.
    apply sim_app; auto. cbn. split; auto.
  - unfold xstep. cbn [xstep_res step_res np_step]. unfold getobj. rewrite Ei, Ei'. cbn.
    destruct ro; cbn; auto. split; auto. apply sim_upd; auto. cbn. split; auto. now apply empty_refines.
  - unfold xstep. cbn [xstep_res step_res np_step]. unfold getobj. rewrite Ei, Ei'. cbn. split; auto.
    apply sim_upd; auto. cbn. split; auto.
Qed.

(* the lift to every history of fragment operations *)
Inductive frun : store -> list xop -> Prop :=
| frun_nil s : frun s []
| frun_cons s o ops : fop s o -> frun (fst (xstep false s o)) ops -> frun s (o :: ops).
Fixpoint np_run (d : dstore) (ops : list xop) : dstore :=
  match ops with [] => d | o :: t => np_run (fst (np_step d o)) t end.
Theorem history_refines ops : forall s d, sim s d -> frun s ops -> sim (fst (run false s ops)) (np_run d ops).
Proof.
  induction ops as [|o ops IH]; intros s d Hs Hf; cbn; auto.
  inversion Hf as [|s0 o0 ops0 Ho Hrest]; subst.
  destruct (step_sim s d o Hs Ho) as [H1 H2].
  destruct (xstep false s o) as [s' r]. cbn in *. rewrite H2.
  specialize (IH s' (fst (np_step d o)) H1 Hrest). destruct (run false s' ops). cbn in *. exact IH.
Qed.
(* dense images at the end of a history of fragment operations started from constructed vectors *)
Corollary history_dense ops s : store_wf s -> frun s ops ->
  sim (fst (run false s ops)) (np_run (abs_store s) ops).
Proof. intros Hw Hf. apply history_refines; auto. now apply sim_abs. Qed.


Lemma kernels_keep_invariant : forall o a b k l r,
  wf a -> wf b ->
  (k_sparse false o a b = Ok r -> wf r) /\ (ik_sparse false o true a a = Ok r -> wf r) /\
  (k_scalar o a k = Ok r -> wf r) /\ (k_array o a l = Ok r -> wf r) /\
  (rtruediv_scalar a k = Ok r -> wf r) /\ wf (neg_cells a) /\ wf (abs_cells a).
Proof.
  intros o a b k l r Ha Hb. split; [|split; [|split; [|split; [|split; [|split]]]]].
  - now apply k_sparse_wf.
  - now apply ik_sparse_wf.
  - now apply k_scalar_wf.
  - now apply k_array_wf.
  - now apply rtruediv_scalar_wf.
  - now apply neg_cells_wf.
  - now apply abs_cells_wf.
Qed.

(* ================================================================== Part 6: comparisons refine NumPy's *)
Lemma bool_ext (b1 b2 : bool) : (b1 = true <-> b2 = true) -> b1 = b2.
Proof. destruct b1, b2; intros [H1 H2]; auto; try (symmetry; now apply H1); try (now apply H2). Qed.
Lemma qcmp_compat c x x' y y' : x == x' -> y == y' -> qcmp c x y = qcmp c x' y'.
Proof.
  intros Hx Hy.
  assert (E : Qeq_bool x y = Qeq_bool x' y').
  { apply bool_ext. rewrite !Qeq_bool_iff. now rewrite Hx, Hy. }
  assert (L1 : Qle_bool x y = Qle_bool x' y').
  { apply bool_ext. rewrite !Qle_bool_iff. now rewrite Hx, Hy. }
  assert (L2 : Qle_bool y x = Qle_bool y' x').
  { apply bool_ext. rewrite !Qle_bool_iff. now rewrite Hx, Hy. }
  destruct c; unfold qcmp, qeqb, qltb, qleb; congruence.
Qed.
Lemma qcmp_00 c : qcmp c 0 0 = match c with CEq | CGe | CLe => true | _ => false end.
Proof. destruct c; reflexivity. Qed.
Definition Rcq (c : cell) (q : Q) : Prop := dcell c == q.
Lemma Rc_Rcq c q : Rc c q -> Rcq c q.
Proof. intros [_ H]; exact H. Qed.
Lemma qeqb_zero_present x : wfc x -> negb (present x) = qeqb (dcell x) 0.
Proof.
  destruct x as [v|]; cbn; intros H; auto. unfold qeqb. symmetry. apply not_true_is_false.
  intros E. apply Qeq_bool_iff in E. contradiction.
Qed.
(* every branch of every comparison kernel computes dct.get(i, 0.) <op> other.get(i, 0.) *)
Lemma cmp_cell_same c x y : wfc x -> wfc y ->
  match c with CEq => eq_same_c x y | CNe => ne_same_c x y | _ => cmp_same_c c x y end = qcmp c (dcell x) (dcell y).
Proof.
  intros Hx Hy. destruct c; unfold eq_same_c, ne_same_c, cmp_same_c;
    destruct x as [v|], y as [w|]; cbn in *; unfold qeqb, qltb, qleb in *; auto;
    try (symmetry; apply not_true_is_false; intros E; apply Qeq_bool_iff in E; try (apply Hx; rewrite E; reflexivity); try (apply Hy; rewrite <- E; reflexivity); fail);
    try (symmetry; apply negb_true_iff, not_true_is_false; intros E; apply Qeq_bool_iff in E; try (apply Hx; rewrite E; reflexivity); try (apply Hy; rewrite <- E; reflexivity); fail).
Qed.
Theorem cmp_sparse_same_refines c a a' b b' : Rv a a' -> Rv b b' -> length a = length b ->
  rrel eq (cmp_sparse c a b) (np_cmp c a' b').
Proof.
  intros Ha Hb L. unfold np_cmp, np_bcast. rewrite <- (Rv_length _ _ Ha), <- (Rv_length _ _ Hb), L, Nat.eqb_refl.
  rewrite map2M_pure.
  assert (G : forall f, (forall x y, wfc x -> wfc y -> f x y = qcmp c (dcell x) (dcell y)) ->
                        map2 f a b = map2 (qcmp c) a' b').
  { intros f Hf. clear L. revert b b' Hb. induction Ha as [|x x' a a' [Hxw Hxd] Ha IH]; intros b b' Hb; cbn.
    - destruct Hb; reflexivity.
    - destruct Hb as [|y y' b b' [Hyw Hyd] Hb]; cbn; auto. rewrite Hf by auto. f_equal; auto. now apply qcmp_compat. }
  unfold cmp_sparse, dispatch_sparse. rewrite L, Nat.eqb_refl.
  destruct c; cbn; f_equal; apply G; intros x y Hx Hy.
  - exact (cmp_cell_same CEq x y Hx Hy).
  - exact (cmp_cell_same CNe x y Hx Hy).
  - exact (cmp_cell_same CGt x y Hx Hy).
  - exact (cmp_cell_same CLt x y Hx Hy).
  - exact (cmp_cell_same CGe x y Hx Hy).
  - exact (cmp_cell_same CLe x y Hx Hy).
Qed.
