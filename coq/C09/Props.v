From V Require Import Common.NumFacts C09.Model C09.Dense C09.Proofs.
Theorem C09_placeholder : True. Proof. exact placeholder_true. Qed.
Print Assumptions C09_placeholder.
