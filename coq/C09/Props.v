(* C09 — property theorems only.  Each is closed by [exact <lemma>] and followed by Print Assumptions.
   Notation:  wf c      = every stored cell of c holds a non-zero value (keys inside the size by construction)
              Rv c v    = wf c and the dense image of c equals v pointwise
              refines r d = both raise the same class of exception, or r is a sparse vector with Rv r d
              okrel R x y = whenever y (NumPy) returns a value, x (sparse) returns a related value
              run false = the history semantics of the repaired source (pending_fixes/C09_1 .. C09_7) *)
From V Require Import Common.NumFacts C09.Model C09.Dense C09.Proofs.

(* ---------- representation invariant ---------- *)
(* construction establishes it and represents the input *)
Theorem C09_construction : forall l ro m,
  owf (mkV l ro) /\ owf (mkA m) /\ Rv (of_dense l) l.
Proof. intros. split; [apply mk_wf|split; [apply mkA_wf|apply Rv_of_dense]]. Qed.
Print Assumptions C09_construction.

(* every kernel keeps it *)
Theorem C09_kernels_keep_invariant : forall o a b k l r,
  wf a -> wf b ->
  (k_sparse false o a b = Ok r -> wf r) /\ (ik_sparse false o true a a = Ok r -> wf r) /\
  (k_scalar o a k = Ok r -> wf r) /\ (k_array o a l = Ok r -> wf r) /\
  (rtruediv_scalar a k = Ok r -> wf r) /\ wf (neg_cells a) /\ wf (abs_cells a).
Proof. exact kernels_keep_invariant. Qed.
Print Assumptions C09_kernels_keep_invariant.

(* after ANY sequence of modelled operations (all object kinds, all operators, indexing, reductions)
   the stored entries are exactly the non-zero elements *)
Theorem C09_history_invariant : forall ops s, store_wf s -> store_wf (fst (run false s ops)).
Proof. exact run_wf. Qed.
Print Assumptions C09_history_invariant.

(* ---------- refinement of NumPy: + - * ---------- *)
Theorem C09_arith_sparse_refines : forall o a a' b b', o <> Div -> Rv a a' -> Rv b b' ->
  (length a = 1%nat -> b <> []) ->
  refines (k_sparse false o a b) (np_arith o a' b').
Proof. exact arith_sparse_refines. Qed.
Print Assumptions C09_arith_sparse_refines.
Theorem C09_arith_scalar_refines : forall o a a' k k', o <> Div -> Rv a a' -> k == k' ->
  refines (k_scalar o a k) (np_arith o a' [k']).
Proof. exact arith_scalar_refines. Qed.
Print Assumptions C09_arith_scalar_refines.
Theorem C09_arith_array_refines : forall o a a' b b', o <> Div -> Rv a a' -> Forall2 Qeq b b' ->
  b <> [] -> length b <> 1%nat ->
  refines (k_array o a b) (np_arith o a' b').
Proof. exact arith_array_refines. Qed.
Print Assumptions C09_arith_array_refines.
Theorem C09_neg_abs_refine : forall a a', Rv a a' -> Rv (neg_cells a) (np_neg a') /\ Rv (abs_cells a) (np_abs a').
Proof. intros. split; [now apply neg_refines | now apply abs_refines]. Qed.
Print Assumptions C09_neg_abs_refine.

(* comparisons (template gt/lt/ge/le and hand-written eq/ne), operands of equal size *)
Theorem C09_cmp_sparse_same_refines : forall c a a' b b', Rv a a' -> Rv b b' -> length a = length b ->
  rrel eq (cmp_sparse c a b) (np_cmp c a' b').
Proof. exact cmp_sparse_same_refines. Qed.
Print Assumptions C09_cmp_sparse_same_refines.

(* ---------- division: partial ---------- *)
(* full statement, refuted because 0/0 is 0 in the sparse code and an error for NumPy under seterr(invalid='raise') *)
Theorem C09_div_refuted : ~ div_statement.
Proof. exact div_refuted. Qed.
Print Assumptions C09_div_refuted.
(* what holds: whenever NumPy returns a quotient (no zero in the divisor), the sparse kernels return the same *)
Theorem C09_div_partial : forall a a' b b' k k' l l',
  Rv a a' -> Rv b b' -> k == k' -> Forall2 Qeq l l' ->
  (length a = length b -> okrel Rv (truediv_sparse a b) (np_arith Div a' b')) /\
  (length a <> 1%nat -> okrel Rv (truediv_scalar a k) (np_arith Div a' [k'])) /\
  (length a = length l -> okrel Rv (truediv_array a l) (np_arith Div a' l')).
Proof.
  intros. repeat split; intros; eauto using truediv_sparse_same_ok, truediv_scalar_ok, truediv_array_same_ok.
Qed.
Print Assumptions C09_div_partial.
(* the kernels before pending_fixes/C09_1 and C09_2: an entry divided by zero was dropped; a -= a raised *)
Theorem C09_legacy_div_drops_entry :
  truediv_sparse_legacy [Some 1; None; Some 2] [None; Some 1; Some 2] = Ok [None; None; Some (2 # 2)] /\
  np_arith Div [1; 0; 2] [0; 1; 2] = Err EZeroDiv /\
  truediv_sparse [Some 1; None; Some 2] [None; Some 1; Some 2] = Err EZeroDiv.
Proof. exact legacy_div_drops_entry. Qed.
Print Assumptions C09_legacy_div_drops_entry.
Theorem C09_legacy_isub_self_raises :
  isub_self [Some 1; None; Some 2] = Err ERuntime /\ isub_self_fixed [Some 1; None; Some 2] = Ok [None; None; None].
Proof. exact legacy_isub_self_raises. Qed.
Print Assumptions C09_legacy_isub_self_raises.

(* ---------- in-place forms ---------- *)
Theorem C09_inplace_eq_binary : forall o a b,
  ik_sparse false o false a b = k_sparse false o a b /\ (o <> Div -> ik_sparse false o true a a = k_sparse false o a a).
Proof. intros. split; [apply inplace_eq_binary | apply inplace_self_eq_binary]. Qed.
Print Assumptions C09_inplace_eq_binary.
Theorem C09_inplace_refines : forall o a a' b b', o <> Div -> Rv a a' -> Rv b b' ->
  length a = length b \/ length b = 1%nat ->
  refines (ik_sparse false o false a b) (np_iarith o a' b').
Proof. exact iarith_sparse_refines. Qed.
Print Assumptions C09_inplace_refines.
(* without the shape hypothesis: refuted, a length-1 target is resized where NumPy raises *)
Theorem C09_inplace_refuted : ~ inplace_statement.
Proof. exact inplace_refuted. Qed.
Print Assumptions C09_inplace_refuted.

(* in-place operations change only the target; everything else changes nothing *)
Theorem C09_frame : forall lg s o k, (k < length s)%nat -> target o <> Some k ->
  nth_error (fst (xstep lg s o)) k = nth_error s k.
Proof. exact xstep_frame. Qed.
Print Assumptions C09_frame.
Theorem C09_history_frame : forall lg ops s k, (k < length s)%nat -> (forall o, In o ops -> target o <> Some k) ->
  nth_error (fst (run lg s ops)) k = nth_error s k.
Proof. exact run_frame. Qed.
Print Assumptions C09_history_frame.
(* rejected operations leave every object as it was *)
Theorem C09_rejected_unchanged : forall lg s o e, (forall i ax v, o <> XASet i ax v) -> lg = false ->
  snd (xstep lg s o) = RErr e -> fst (xstep lg s o) = s.
Proof. exact rejected_unchanged. Qed.
Print Assumptions C09_rejected_unchanged.

(* ---------- read-only ---------- *)
Theorem C09_readonly_vector_rejects : forall lg s i c o,
  nth_error s i = Some (OV c true) ->
  (exists b a p, o = XOp (OIBin b i a) /\ resolve s a = Ok p) \/ o = XOp (OClear i) \/
  (exists ix a p, o = XOp (OSet i ix a) /\ resolve s a = Ok p) ->
  xstep lg s o = (s, RErr EValue).
Proof. exact readonly_vector_rejects. Qed.
Print Assumptions C09_readonly_vector_rejects.
Theorem C09_readonly_array_refuted : ~ readonly_array_statement.
Proof. exact readonly_array_refuted. Qed.
Print Assumptions C09_readonly_array_refuted.

(* ---------- every history of fragment operations refines the NumPy history on the dense images ---------- *)
Theorem C09_history_refines : forall ops s d, sim s d -> frun s ops ->
  sim (fst (run false s ops)) (np_run d ops).
Proof. exact history_refines. Qed.
Print Assumptions C09_history_refines.
Theorem C09_history_dense : forall ops s, store_wf s -> frun s ops ->
  sim (fst (run false s ops)) (np_run (abs_store s) ops).
Proof. exact history_dense. Qed.
Print Assumptions C09_history_dense.

(* ---------- further statements the code does not satisfy (known findings, witnesses replayed every run) ---------- *)
Theorem C09_broadcast_refuted : ~ broadcast_statement.
Proof. exact broadcast_refuted. Qed.
Print Assumptions C09_broadcast_refuted.
Theorem C09_setitem_index_refuted : ~ setitem_index_statement.
Proof. exact setitem_index_refuted. Qed.
Print Assumptions C09_setitem_index_refuted.
Theorem C09_setitem_shape_refuted : ~ setitem_shape_statement.
Proof. exact setitem_shape_refuted. Qed.
Print Assumptions C09_setitem_shape_refuted.
Theorem C09_logical_div_refuted : ~ logical_div_statement.
Proof. exact logical_div_refuted. Qed.
Print Assumptions C09_logical_div_refuted.
Theorem C09_array_rows_refuted : ~ array_rows_statement.
Proof. exact array_rows_refuted. Qed.
Print Assumptions C09_array_rows_refuted.
Theorem C09_mask_rows_refuted : ~ mask_rows_statement.
Proof. exact mask_rows_refuted. Qed.
Print Assumptions C09_mask_rows_refuted.

(* ---------- non-vacuity ---------- *)
Definition exS : store := [mkV [1; 0; 2] false; mkV [0; 1; -2] false; mkV [1 # 2] false; mkA [[1; 0; 0]; [0; 0; 3]]].
Example C09_ex_store_wf : store_wf exS.
Proof. repeat constructor; cbn; try exact I; intro K; vm_compute in K; discriminate K. Qed.
Example C09_ex_refines : Rv (of_dense [1; 0; 2]) [1; 0; 2] /\ Rv (of_dense [0; 1; -2]) [0; 1; -2] /\
  refines (k_sparse false Add (of_dense [1; 0; 2]) (of_dense [0; 1; -2])) (np_arith Add [1; 0; 2] [0; 1; -2]).
Proof.
  split; [apply Rv_of_dense|split; [apply Rv_of_dense|]].
  apply arith_sparse_refines; try apply Rv_of_dense; try discriminate.
Qed.
(* a history inside the fragment: a + b ; a -= a ; b *= 2 ; c += a (c has length 1: rejected on both sides) ; -b *)
Definition exOps : list xop :=
  [XOp (OBin (BA Add) 0 (AObj 1)); XOp (OIBin (BA Sub) 0 (AObj 0)); XOp (OIBin (BA Mul) 1 (AScal 2));
   XOp (OBin (BA Mul) 2 (AObj 1)); XOp (ONeg 1); XOp (OClear 0)].
Example C09_ex_frun : frun exS exOps.
Proof.
  unfold exOps.
  repeat (first [ apply frun_nil
                | eapply frun_cons;
                  [ first [ eapply F_bin; [discriminate | vm_compute; reflexivity | cbn; try exact I; repeat eexists; try (vm_compute; reflexivity); try discriminate]
                          | eapply F_ibin; [discriminate | vm_compute; reflexivity | cbn; try exact I; repeat eexists; try (vm_compute; reflexivity); try discriminate
                                           | intros p Hp; vm_compute in Hp; inversion Hp; subst; cbn; auto]
                          | eapply F_neg; vm_compute; reflexivity
                          | eapply F_clear; vm_compute; reflexivity ]
                  | vm_compute fst ] ]).
Qed.
