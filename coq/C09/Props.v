(* C09 — property theorems only.  Each is closed by [exact <lemma>] and followed by Print Assumptions.
   Notation:  wf c      = every stored cell of c holds a non-zero value (keys inside the size by construction)
              Rv c v    = wf c and the dense image of c equals v pointwise
              refines r d = both raise the same class of exception, or r is a sparse vector with Rv r d
              okrel R x y = whenever y (NumPy) returns a value, x (sparse) returns a related value
              run false = the history semantics of the repaired source (pending_fixes/C09_1 .. C09_7) *)
From V Require Import Common.NumFacts C09.Model C09.Dense C09.Proofs C09.ProofsDeep C09.Model3 C09.ProofsDeep3.

(* ---------- representation invariant ---------- *)
(* construction establishes it and represents the input *)
Theorem C09_construction : forall l ro m,
  owf (mkV l ro) /\ owf (mkA m) /\ Rv (of_dense l) l.
Proof. intros. split; [apply mk_wf|split; [apply mkA_wf|apply Rv_of_dense]]. Qed.
Print Assumptions C09_construction.

(* every kernel keeps it *)
Theorem C09_kernels_keep_invariant : forall o a b k l r,
  wf a -> wf b ->
  (k_sparse false o a b = Ok r -> wf r) /\ (ik_sparse false o true a a = Ok r -> wf r) /\
  (k_scalar o a k = Ok r -> wf r) /\ (k_array o a l = Ok r -> wf r) /\
  (rtruediv_scalar a k = Ok r -> wf r) /\ wf (neg_cells a) /\ wf (abs_cells a).
Proof. exact kernels_keep_invariant. Qed.
Print Assumptions C09_kernels_keep_invariant.

(* after ANY sequence of modelled operations (all object kinds, all operators, indexing, reductions)
   the stored entries are exactly the non-zero elements *)
Theorem C09_history_invariant : forall ops s, store_wf s -> store_wf (fst (run false s ops)).
Proof. exact run_wf. Qed.
Print Assumptions C09_history_invariant.

(* ---------- refinement of NumPy: + - * ---------- *)
Theorem C09_arith_sparse_refines : forall o a a' b b', o <> Div -> Rv a a' -> Rv b b' ->
  (length a = 1%nat -> b <> []) ->
  refines (k_sparse false o a b) (np_arith o a' b').
Proof. exact arith_sparse_refines. Qed.
Print Assumptions C09_arith_sparse_refines.
Theorem C09_arith_scalar_refines : forall o a a' k k', o <> Div -> Rv a a' -> k == k' ->
  refines (k_scalar o a k) (np_arith o a' [k']).
Proof. exact arith_scalar_refines. Qed.
Print Assumptions C09_arith_scalar_refines.
Theorem C09_arith_array_refines : forall o a a' b b', o <> Div -> Rv a a' -> Forall2 Qeq b b' ->
  b <> [] -> length b <> 1%nat ->
  refines (k_array o a b) (np_arith o a' b').
Proof. exact arith_array_refines. Qed.
Print Assumptions C09_arith_array_refines.
Theorem C09_neg_abs_refine : forall a a', Rv a a' -> Rv (neg_cells a) (np_neg a') /\ Rv (abs_cells a) (np_abs a').
Proof. intros. split; [now apply neg_refines | now apply abs_refines]. Qed.
Print Assumptions C09_neg_abs_refine.

(* comparisons (template gt/lt/ge/le and hand-written eq/ne), operands of equal size *)
Theorem C09_cmp_sparse_same_refines : forall c a a' b b', Rv a a' -> Rv b b' -> length a = length b ->
  rrel eq (cmp_sparse c a b) (np_cmp c a' b').
Proof. exact cmp_sparse_same_refines. Qed.
Print Assumptions C09_cmp_sparse_same_refines.

Theorem C09_cmp_sparse_refines : forall c a a' b b', Rv a a' -> Rv b b' -> (length a = 1%nat -> b <> []) ->
  rrel eq (cmp_sparse c a b) (np_cmp c a' b').
Proof. exact cmp_sparse_refines. Qed.
Print Assumptions C09_cmp_sparse_refines.
Theorem C09_cmp_scalar_refines : forall c a a' k k', Rv a a' -> k == k' -> rrel eq (cmp_scalar c a k) (np_cmp c a' [k']).
Proof. exact cmp_scalar_refines. Qed.
Print Assumptions C09_cmp_scalar_refines.
Theorem C09_cmp_array_refines : forall c a a' b b', Rv a a' -> Forall2 Qeq b b' -> b <> [] -> length b <> 1%nat ->
  rrel eq (cmp_array c a b) (np_cmp c a' b').
Proof. exact cmp_array_refines. Qed.
Print Assumptions C09_cmp_array_refines.

(* ---------- indexing ---------- *)
Theorem C09_get_int_refines : forall c v k, Rv c v -> (k < length c)%nat -> exists q, np_get1 v k = Ok q /\ getc c k == q.
Proof. exact get_int_refines. Qed.
Print Assumptions C09_get_int_refines.
(* list, boolean mask and slice indices select the same positions on both sides ... *)
Theorem C09_index_list_np : forall n ix, valid_index n ix ->
  np_index_list n ix = Ok (index_list n ix) /\ Forall (fun i => (i < n)%nat) (index_list n ix).
Proof. exact index_list_np. Qed.
Print Assumptions C09_index_list_np.
(* ... and reading them gives NumPy's values *)
Theorem C09_get_idx_refines : forall c v idx, Rv c v -> Forall (fun i => (i < length c)%nat) idx ->
  exists r, np_take v idx = Ok r /\ Forall2 Qeq (map (getc c) idx) r.
Proof. exact get_idx_refines. Qed.
Print Assumptions C09_get_idx_refines.
(* writes: the result refines NumPy's, the size is kept and only the indexed cells change *)
Theorem C09_set_int_refines : forall c v k q q', Rv c v -> q == q' -> (k < length c)%nat ->
  exists r, set1 c k q = Ok r /\ Rv r (upd v k q') /\ length r = length c /\
            forall j, j <> k -> nth_error r j = nth_error c j.
Proof. exact set_int_refines. Qed.
Print Assumptions C09_set_int_refines.
Theorem C09_set_idx_refines : forall idx c v vals vals', Rv c v -> Forall2 Qeq vals vals' ->
  Forall (fun i => (i < length c)%nat) idx ->
  exists r r', set_zip c idx vals = Ok r /\ np_put v idx vals' = Ok r' /\ Rv r r' /\ length r = length c /\
               forall j, ~ In j idx -> nth_error r j = nth_error c j.
Proof. exact set_zip_refines. Qed.
Print Assumptions C09_set_idx_refines.
Theorem C09_set_idx_scalar_refines : forall idx c v q q', Rv c v -> q == q' -> Forall (fun i => (i < length c)%nat) idx ->
  exists r r', set_all c idx q = Ok r /\ np_put v idx (repeat q' (length idx)) = Ok r' /\ Rv r r' /\ length r = length c /\
               forall j, ~ In j idx -> nth_error r j = nth_error c j.
Proof. exact set_all_refines. Qed.
Print Assumptions C09_set_idx_scalar_refines.
Theorem C09_set_open_refines : forall c v q q' d, Rv c v -> q == q' ->
  (exists r, set_open c (SVScal q) = Ok r /\ Rv r (map (fun _ => q') v)) /\
  (length d = length c -> set_open c (SVObj d) = Ok d).
Proof. intros. split; [now apply set_open_scalar_refines | apply set_open_obj_refines]. Qed.
Print Assumptions C09_set_open_refines.

(* ---------- reductions ---------- *)
Theorem C09_reductions_refine : forall c v, Rv c v ->
  sv_any c = np_any v /\ sv_all c = np_all v /\ sv_sum c == np_sum v /\
  (c <> [] -> exists q, np_mean v = Ok q /\ sv_mean c == q) /\
  (c <> [] -> exists m m', sv_max c = Ok m /\ np_max v = Ok m' /\ m == m') /\
  (c <> [] -> exists m m', sv_min c = Ok m /\ np_min v = Ok m' /\ m == m') /\
  (forall q q', q == q' -> Rv (keep1 q) [q']).
Proof.
  intros c v H. repeat split; intros;
    auto using any_refines, all_refines, sum_refines, mean_refines, max_refines, min_refines, keep1_refines.
Qed.
Print Assumptions C09_reductions_refine.

(* ---------- logical vectors and row-wise array lifts ---------- *)
Theorem C09_logic_refines : forall o a b, o <> LDiv -> (length a = 1%nat -> b <> []) -> lv_isparse o a b = np_logic o a b.
Proof. exact logic_refines. Qed.
Print Assumptions C09_logic_refines.
(* a SparseArray against a vector / scalar / list is the vector kernel on every row, and rows refine rows *)
Theorem C09_array_lift : forall a rows p, match p with PV _ | PS _ _ | PArr _ _ => True | _ => False end ->
  array_bin false (BA a) (map VF rows) p = (do l <- mapM (rowk a p) rows; Ok (OA l false)) /\
  (a <> Div -> array_ibin false (BA a) false (map VF rows) p = (do l <- mapM (rowk a p) rows; Ok (map VF l))).
Proof. intros. split; [now apply array_bin_rows | intros; now apply array_ibin_rows]. Qed.
Print Assumptions C09_array_lift.
Theorem C09_rows_refine : forall (k : cells -> res cells) (g : list Q -> res (list Q)) rows rows',
  (forall c c', Rv c c' -> refines (k c) (g c')) -> Forall2 Rv rows rows' ->
  rrel (Forall2 Rv) (mapM k rows) (mapM g rows').
Proof. exact rows_refine. Qed.
Print Assumptions C09_rows_refine.

(* ---------- division: partial ---------- *)
(* full statement, refuted because 0/0 is 0 in the sparse code and an error for NumPy under seterr(invalid='raise') *)
Theorem C09_div_refuted : ~ div_statement.
Proof. exact div_refuted. Qed.
Print Assumptions C09_div_refuted.
(* what holds: whenever NumPy returns a quotient (no zero in the divisor), the sparse kernels return the same *)
Theorem C09_div_partial : forall a a' b b' k k' l l',
  Rv a a' -> Rv b b' -> k == k' -> Forall2 Qeq l l' ->
  (length a = length b -> okrel Rv (truediv_sparse a b) (np_arith Div a' b')) /\
  (length a <> 1%nat -> okrel Rv (truediv_scalar a k) (np_arith Div a' [k'])) /\
  (length a = length l -> okrel Rv (truediv_array a l) (np_arith Div a' l')).
Proof.
  intros. repeat split; intros; eauto using truediv_sparse_same_ok, truediv_scalar_ok, truediv_array_same_ok.
Qed.
Print Assumptions C09_div_partial.
(* full strength with the single deviation made explicit: np_div0 = NumPy's division with 0/0 := 0.
   Every broadcasting branch of sparse / sparse, / scalar, / list refines it, errors included *)
Theorem C09_div_sparse_refines : forall a a' b b', Rv a a' -> Rv b b' -> (length a = 1%nat -> b <> []) ->
  refines (truediv_sparse a b) (np_div0 a' b').
Proof. exact div_sparse_refines. Qed.
Print Assumptions C09_div_sparse_refines.
Theorem C09_div_scalar_refines : forall a a' k k', Rv a a' -> k == k' -> refines (truediv_scalar a k) (np_div0 a' [k']).
Proof. exact div_scalar_refines. Qed.
Print Assumptions C09_div_scalar_refines.
Theorem C09_div_array_refines : forall a a' b b', Rv a a' -> Forall2 Qeq b b' -> b <> [] -> length b <> 1%nat ->
  refines (truediv_array a b) (np_div0 a' b').
Proof. exact div_array_refines. Qed.
Print Assumptions C09_div_array_refines.
(* and np_div0 is NumPy's own division wherever NumPy returns *)
Theorem C09_div0_is_numpy_when_numpy_returns : forall a b v, np_arith Div a b = Ok v -> np_div0 a b = Ok v.
Proof. exact np_div0_of_np. Qed.
Print Assumptions C09_div0_is_numpy_when_numpy_returns.

(* the kernels before pending_fixes/C09_1 and C09_2: an entry divided by zero was dropped; a -= a raised *)
Theorem C09_legacy_div_drops_entry :
  truediv_sparse_legacy [Some 1; None; Some 2] [None; Some 1; Some 2] = Ok [None; None; Some (2 # 2)] /\
  np_arith Div [1; 0; 2] [0; 1; 2] = Err EZeroDiv /\
  truediv_sparse [Some 1; None; Some 2] [None; Some 1; Some 2] = Err EZeroDiv.
Proof. exact legacy_div_drops_entry. Qed.
Print Assumptions C09_legacy_div_drops_entry.
Theorem C09_legacy_isub_self_raises :
  isub_self [Some 1; None; Some 2] = Err ERuntime /\ isub_self_fixed [Some 1; None; Some 2] = Ok [None; None; None].
Proof. exact legacy_isub_self_raises. Qed.
Print Assumptions C09_legacy_isub_self_raises.

(* ---------- in-place forms ---------- *)
Theorem C09_inplace_eq_binary : forall o a b,
  ik_sparse false o false a b = k_sparse false o a b /\ (o <> Div -> ik_sparse false o true a a = k_sparse false o a a).
Proof. intros. split; [apply inplace_eq_binary | apply inplace_self_eq_binary]. Qed.
Print Assumptions C09_inplace_eq_binary.
Theorem C09_inplace_refines : forall o a a' b b', o <> Div -> Rv a a' -> Rv b b' ->
  length a = length b \/ length b = 1%nat ->
  refines (ik_sparse false o false a b) (np_iarith o a' b').
Proof. exact iarith_sparse_refines. Qed.
Print Assumptions C09_inplace_refines.
(* without the shape hypothesis: refuted, a length-1 target is resized where NumPy raises *)
Theorem C09_inplace_refuted : ~ inplace_statement.
Proof. exact inplace_refuted. Qed.
Print Assumptions C09_inplace_refuted.

(* in-place operations change only the target; everything else changes nothing *)
Theorem C09_frame : forall lg s o k, (k < length s)%nat -> target o <> Some k ->
  nth_error (fst (xstep lg s o)) k = nth_error s k.
Proof. exact xstep_frame. Qed.
Print Assumptions C09_frame.
Theorem C09_history_frame : forall lg ops s k, (k < length s)%nat -> (forall o, In o ops -> target o <> Some k) ->
  nth_error (fst (run lg s ops)) k = nth_error s k.
Proof. exact run_frame. Qed.
Print Assumptions C09_history_frame.
(* rejected operations leave every object as it was *)
Theorem C09_rejected_unchanged : forall lg s o e, (forall i ax v, o <> XASet i ax v) -> lg = false ->
  snd (xstep lg s o) = RErr e -> fst (xstep lg s o) = s.
Proof. exact rejected_unchanged. Qed.
Print Assumptions C09_rejected_unchanged.

(* ---------- copy_like / to_flat_array / from_flat_array ---------- *)
(* copying an object from itself, or a SparseArray from the selection of all its own rows, changes nothing;
   copying from an object of the same shape gives that object's content (C09_frame: nothing else changes) *)
Theorem C09_copy_like : forall lg s i x rows c d others,
  (nth_error s i = Some x -> (match x with OV _ _ | OA _ _ => True | _ => False end) ->
     xstep lg s (XOp (OCopyLike i (CObj i))) = (s, RUnit)) /\
  copy_like_view rows 0 (seq 0 (length rows)) = Ok rows /\
  (length d = length c -> copy_like_vec c d = Ok d) /\
  (Forall2 (fun r o => length o = length r) rows others -> copy_like_rows rows others = Ok others).
Proof.
  intros. split; [apply copy_like_self|]. split; [apply copy_like_view_id|]. split; [apply copy_like_vec_same|apply copy_like_rows_same].
Qed.
Print Assumptions C09_copy_like.
(* what the caller's buffer held before to_flat_array(buffer) cannot be seen in the result *)
Theorem C09_to_flat_buffer_irrelevant : forall lg s i b1 b2, length b1 = length b2 ->
  xstep lg s (XOp (OToFlat i (Some b1))) = xstep lg s (XOp (OToFlat i (Some b2))).
Proof. exact to_flat_buffer_irrelevant. Qed.
Print Assumptions C09_to_flat_buffer_irrelevant.
(* from_flat_array stores exactly the non-zeros and to_flat_array gives the flat array back *)
Theorem C09_flat_round_trip : forall n k l, length l = (k * n)%nat ->
  Forall2 Qeq (concat (map dense (map of_dense (chunks n k l)))) l /\ Forall wf (map of_dense (chunks n k l)).
Proof. exact flat_round_trip. Qed.
Print Assumptions C09_flat_round_trip.

(* ---------- conversion helpers and copy constructors ---------- *)
(* sparse_vector(x) / sparse_array(A) / sparse(x) hand back the object itself; sparse_vector(x, copy=True),
   sparse_array(A, copy=True), SparseVector(sv), SparseLogicalVector(sl) append an equal object; by C09_frame and
   C09_history_frame no later operation on the copy can change the original, nor the other way round *)
Theorem C09_conversions : forall lg s i x, nth_error s i = Some x ->
  xstep lg s (XOp (OConv CIdent i)) = (s, RSelf) /\
  exists r, xstep lg s (XOp (OConv CCopy i)) = (s ++ [r], RNew r) /\
            match x, r with
            | OV c _, OV c' false => c' = c
            | OL b, OL b' => b' = b
            | OA rows _, OA rows' false => rows' = rows
            | OB rows, OB rows' => rows' = rows
            | _, _ => False
            end.
Proof. exact conv_spec. Qed.
Print Assumptions C09_conversions.

(* ---------- read-only ---------- *)
Theorem C09_readonly_vector_rejects : forall lg s i c o,
  nth_error s i = Some (OV c true) ->
  (exists b a p, o = XOp (OIBin b i a) /\ resolve s a = Ok p) \/ o = XOp (OClear i) \/
  (exists ix a p, o = XOp (OSet i ix a) /\ resolve s a = Ok p) ->
  xstep lg s o = (s, RErr EValue).
Proof. exact readonly_vector_rejects. Qed.
Print Assumptions C09_readonly_vector_rejects.
(* spelled out per operator: += -= *= /= (&= ^= |=), clear(), v[...] = value, for every operand kind *)
Theorem C09_readonly_vector_rejects_each_operator : forall lg s i c a,
  nth_error s i = Some (OV c true) -> (forall j, a = AObj j -> (j < length s)%nat) ->
  Forall (fun b => xstep lg s (XOp (OIBin b i a)) = (s, RErr EValue))
         [BA Add; BA Sub; BA Mul; BA Div; BL LAnd; BL LXor; BL LOr] /\
  xstep lg s (XOp (OClear i)) = (s, RErr EValue) /\
  forall ix, xstep lg s (XOp (OSet i ix a)) = (s, RErr EValue).
Proof. exact readonly_vector_rejects_each. Qed.
Print Assumptions C09_readonly_vector_rejects_each_operator.
Theorem C09_readonly_array_refuted : ~ readonly_array_statement.
Proof. exact readonly_array_refuted. Qed.
Print Assumptions C09_readonly_array_refuted.

(* ---------- every history of fragment operations refines the NumPy history on the dense images ----------
   fragment (fop): + - * binary and in-place on float vectors and, row-wise, on float SparseArrays (operand vector /
   scalar / list / SparseArray of the same shape or with one row; aliasing allowed), + * & ^ | binary and in-place between
   logical vectors, the six comparisons, v[ix] and v[ix] = scalar / values for int, list, mask, slice, [:], the reductions
   any/all/sum/mean/max/min with keepdims, neg, abs, copy, copy_like, clear, setflags *)
Theorem C09_history_refines : forall ops s d, sim s d -> frun s ops ->
  sim (fst (run false s ops)) (np_run d ops).
Proof. exact history_refines. Qed.
Print Assumptions C09_history_refines.
Theorem C09_history_dense : forall ops s, store_wf s -> frun s ops ->
  sim (fst (run false s ops)) (np_run (abs_store s) ops).
Proof. exact history_dense. Qed.
Print Assumptions C09_history_dense.

(* the same, together with everything the operations return (values, new objects, exceptions) *)
Theorem C09_history_refines_full : forall ops s d, sim s d -> frun s ops ->
  sim (fst (run false s ops)) (np_run d ops) /\ Forall2 orel (snd (run false s ops)) (np_outs d ops).
Proof. exact history_refines_full. Qed.
Print Assumptions C09_history_refines_full.

(* ---------- SparseArray with SparseArray: same shape and one-row broadcast, binary and in-place ---------- *)
Theorem C09_array_with_array : forall a rows m rows2 m2 n, a <> Div -> Forall2 Rv rows m -> Forall2 Rvn rows2 m2 ->
  array_bin false (BA a) (map VF rows) (PA rows2) = (do l <- pair_rows (k_sparse false a) rows rows2; Ok (OA l false)) /\
  array_ibin false (BA a) false (map VF rows) (PA rows2) = (do l <- ipair_rows (k_sparse false a) rows rows2; Ok (map VF l)) /\
  ((length rows = length rows2 \/ length rows = 1%nat \/ length rows2 = 1%nat) ->
     rrel (Forall2 Rv) (pair_rows (k_sparse false a) rows rows2) (np_arith22 a m m2)) /\
  (Forall (fun r => length r = n) rows -> Forall (fun r => length r = n \/ length r = 1%nat) rows2 ->
   (length rows2 = length rows \/ length rows2 = 1%nat) ->
     rrel (Forall2 Rv) (ipair_rows (k_sparse false a) rows rows2) (np_iarith22 a m m2)).
Proof.
  intros. split; [apply array_bin_aa|]. split; [apply array_ibin_aa|]. split; intros.
  - now apply pair_rows_refines.
  - eapply ipair_rows_refines; eauto.
Qed.
Print Assumptions C09_array_with_array.

(* ---------- SparseArray reductions along an axis, with and without keepdims ---------- *)
Theorem C09_red_axis0_refines : forall r rows m keep, Forall2 Rv rows m -> rows <> [] ->
  rrel osim2 (out_res (red_arrF false r rows (Some 0%nat) keep)) (np_red2 r m 0 keep).
Proof. exact red_axis0_refines. Qed.
Print Assumptions C09_red_axis0_refines.
Theorem C09_red_axis1_refines : forall r rows m keep, Forall2 Rv rows m -> Forall (fun c => c <> []) rows ->
  rrel osim2 (out_res (red_arrF false r rows (Some 1%nat) keep)) (np_red2 r m 1 keep).
Proof. exact red_axis1_refines. Qed.
Print Assumptions C09_red_axis1_refines.

(* ---------- SparseArray __getitem__ / __setitem__ with (row, column) indices ---------- *)
(* row selections (int list, mask, slice), blocks, columns, elements *)
Theorem C09_array_get : forall rows M sel idx i j, Forall2 Rv rows M ->
  (Forall (fun i => (i < length rows)%nat) sel ->
     exists sr sr', nth_rows rows sel = Ok sr /\ np_take M sel = Ok sr' /\ Forall2 Rv sr sr') /\
  (Forall (fun i => (i < length rows)%nat) sel -> Forall (fun r => Forall (fun j => (j < length r)%nat) idx) rows ->
     exists sr sr' B', nth_rows rows sel = Ok sr /\ np_take M sel = Ok sr' /\ mapM (fun r => np_take r idx) sr' = Ok B' /\
                       Forall2 (Forall2 Qeq) (map (fun r => map (getc r) idx) sr) B') /\
  (Forall (fun i => (i < length rows)%nat) sel -> Forall (fun r => (j < length r)%nat) rows ->
     exists sr sr' v', nth_rows rows sel = Ok sr /\ np_take M sel = Ok sr' /\ mapM (fun r => np_get1 r j) sr' = Ok v' /\
                       Forall2 Qeq (map (fun r => getc r j) sr) v') /\
  ((i < length rows)%nat -> (j < length (nth i rows []))%nat ->
     exists r' q, np_get1 M i = Ok r' /\ np_get1 r' j = Ok q /\ getc (nth i rows []) j == q).
Proof.
  intros rows M sel idx i j H. repeat split; intros.
  - now apply nth_rows_refines. - now apply get_block_refines. - now apply get_column_refines. - now apply get_element_refines.
Qed.
Print Assumptions C09_array_get.
(* which of these forms a[m, n] takes for the kinds of m and n *)
Theorem C09_array_get_forms : forall rows m n,
  (is_int m = true -> is_int n = true -> (int_of m < length rows)%nat ->
     arrF_get rows (XPair m n) = GScalF (getc (nth (int_of m) rows []) (int_of n))) /\
  (is_int m = true -> is_listlike n = true -> (int_of m < length rows)%nat ->
     arrF_get rows (XPair m n) = GDenseF (map (getc (nth (int_of m) rows [])) (index_list (vsize rows) n))) /\
  (is_listlike m = true -> is_int n = true -> forall sr, nth_rows rows (index_list (length rows) m) = Ok sr ->
     arrF_get rows (XPair m n) = GDenseF (map (fun r => getc r (int_of n)) sr)) /\
  (is_slice m = true -> is_listlike n = true -> forall sr, nth_rows rows (index_list (length rows) m) = Ok sr ->
     arrF_get rows (XPair m n) = GDense2F (map (fun r => map (getc r) (index_list (length r) n)) sr)).
Proof. exact arrF_get_forms. Qed.
Print Assumptions C09_array_get_forms.
(* a[m, n] = q for every combination addressing a block (m or n an int or a slice): refines NumPy, keeps the shape,
   leaves the rows that are not selected untouched; inside a selected row only the selected cells change *)
Theorem C09_array_set_scalar_refines : forall rows M m n q isb, Forall2 Rv rows M ->
  is_int m || is_slice m || is_slice n = true ->
  valid_index (length rows) m -> Forall (fun c => valid_index (length c) n) rows ->
  exists R R', arrF_set false rows false (XPair m n) (PS q isb) = (R, None) /\ np_set2_scalar M m n q = Ok R' /\
               Forall2 Rv R R' /\ length R = length rows /\
               forall k, ~ In k (index_list (length rows) m) -> nth_error R k = nth_error rows k.
Proof. exact array_set_scalar_refines. Qed.
Print Assumptions C09_array_set_scalar_refines.
Theorem C09_row_set_scalar_refines : forall c v n q isb, Rv c v -> valid_index (length c) n ->
  exists r r', vecF_set c n (PS q isb) = Ok r /\ np_setrow v n q = Ok r' /\ Rv r r' /\ length r = length c /\
               forall j, ~ In j (index_list (length c) n) -> nth_error r j = nth_error c j.
Proof. exact vecF_set_scalar_refines. Qed.
Print Assumptions C09_row_set_scalar_refines.

(* ---------- further statements the code does not satisfy (known findings, witnesses replayed every run) ---------- *)
Theorem C09_broadcast_refuted : ~ broadcast_statement.
Proof. exact broadcast_refuted. Qed.
Print Assumptions C09_broadcast_refuted.
Theorem C09_setitem_index_refuted : ~ setitem_index_statement.
Proof. exact setitem_index_refuted. Qed.
Print Assumptions C09_setitem_index_refuted.
Theorem C09_setitem_shape_refuted : ~ setitem_shape_statement.
Proof. exact setitem_shape_refuted. Qed.
Print Assumptions C09_setitem_shape_refuted.
Theorem C09_logical_div_refuted : ~ logical_div_statement.
Proof. exact logical_div_refuted. Qed.
Print Assumptions C09_logical_div_refuted.
Theorem C09_array_rows_refuted : ~ array_rows_statement.
Proof. exact array_rows_refuted. Qed.
Print Assumptions C09_array_rows_refuted.
(* v[index] = v: the vector is read while it is written; NumPy copies the value first *)
Theorem C09_setitem_self_refuted : ~ setitem_self_statement.
Proof. exact setitem_self_refuted. Qed.
Print Assumptions C09_setitem_self_refuted.
Theorem C09_mask_rows_refuted : ~ mask_rows_statement.
Proof. exact mask_rows_refuted. Qed.
Print Assumptions C09_mask_rows_refuted.

(* ---------- non-vacuity ---------- *)
Definition exS : store := [mkV [1; 0; 2] false; mkV [0; 1; -2] false; mkV [1 # 2] false; mkA [[1; 0; 0]; [0; 0; 3]];
                           mkL [true; false; true]; mkL [false; false; true]].
Example C09_ex_store_wf : store_wf exS.
Proof. repeat constructor; cbn; try exact I; intro K; vm_compute in K; discriminate K. Qed.
Example C09_ex_refines : Rv (of_dense [1; 0; 2]) [1; 0; 2] /\ Rv (of_dense [0; 1; -2]) [0; 1; -2] /\
  refines (k_sparse false Add (of_dense [1; 0; 2]) (of_dense [0; 1; -2])) (np_arith Add [1; 0; 2] [0; 1; -2]).
Proof.
  split; [apply Rv_of_dense|split; [apply Rv_of_dense|]].
  apply arith_sparse_refines; try apply Rv_of_dense; try discriminate.
Qed.
(* a history inside the fragment: a + b ; a -= a ; b *= 2 ; c += a (c has length 1: rejected on both sides) ; -b *)
Definition exOps : list xop :=
  [XOp (OBin (BA Add) 0 (AObj 1)); XOp (OIBin (BA Sub) 0 (AObj 0)); XOp (OIBin (BA Mul) 1 (AScal 2));
   XOp (OBin (BA Mul) 2 (AObj 1)); XOp (ONeg 1); XOp (OClear 0)].
Example C09_ex_frun : frun exS exOps.
Proof.
  unfold exOps.
  repeat (first [ apply frun_nil
                | eapply frun_cons;
                  [ first [ eapply F_bin; [discriminate | vm_compute; reflexivity | cbn; try exact I; repeat eexists; try (vm_compute; reflexivity); try discriminate]
                          | eapply F_ibin; [discriminate | vm_compute; reflexivity | cbn; try exact I; repeat eexists; try (vm_compute; reflexivity); try discriminate
                                           | intros p Hp; vm_compute in Hp; inversion Hp; subst; cbn; auto]
                          | eapply F_neg; vm_compute; reflexivity
                          | eapply F_clear; vm_compute; reflexivity ]
                  | vm_compute fst ] ]).
Qed.
(* a history through the array and logical parts of the fragment: A + b ; A *= 2 ; l ^ m ; l += m *)
Definition exOps2 : list xop :=
  [XOp (OBin (BA Add) 3 (AObj 1)); XOp (OIBin (BA Mul) 3 (AScal 2));
   XOp (OBin (BL LXor) 4 (AObj 5)); XOp (OIBin (BA Add) 4 (AObj 5))].
Example C09_ex_frun_arrays : frun exS exOps2.
Proof.
  unfold exOps2.
  eapply frun_cons.
  { eapply F_abin; [discriminate | vm_compute; reflexivity | discriminate |].
    repeat constructor; cbn; repeat eexists; try (vm_compute; reflexivity); discriminate. }
  vm_compute fst.
  eapply frun_cons.
  { eapply F_aibin; [discriminate | vm_compute; reflexivity | discriminate | repeat constructor |].
    intros p Hp. vm_compute in Hp. inversion Hp; subst. repeat constructor. }
  vm_compute fst.
  eapply frun_cons.
  { eapply (F_lbin _ (BL LXor) LXor); [reflexivity | discriminate | vm_compute; reflexivity | vm_compute; reflexivity | discriminate]. }
  vm_compute fst.
  eapply frun_cons.
  { eapply (F_libin _ (BA Add) LAdd); [reflexivity | discriminate | vm_compute; reflexivity | vm_compute; reflexivity | left; reflexivity]. }
  apply frun_nil.
Qed.
(* a history through the comparison / indexing / reduction / array-with-array parts of the fragment:
   a < b ; a[1:3] ; a[[0, 2]] = 7 ; a[mask] = [5, 6] ; a.max(keepdims) ; A + A ; b.copy_like(a) *)
Definition exOps3 : list xop :=
  [XOp (OBin (BC CLt) 0 (AObj 1)); XOp (OGet 0 (ISlice 1 3 1)); XOp (OSet 0 (IList [0; 2]%nat) (AScal 7));
   XOp (OSet 0 (IMask [true; false; true]) (AArr [5; 6])); XOp (ORed RMax 0 None true);
   XOp (OBin (BA Add) 3 (AObj 3)); XOp (OCopyLike 1 (CObj 0))].
Example C09_ex_frun_more : frun exS exOps3.
Proof.
  unfold exOps3.
  eapply frun_cons. { eapply F_cmp; [vm_compute; reflexivity|]. cbn. repeat eexists; try (vm_compute; reflexivity); discriminate. }
  vm_compute fst.
  eapply frun_cons. { eapply F_get; [vm_compute; reflexivity|]. cbn. lia. }
  vm_compute fst.
  eapply frun_cons. { eapply F_set_scalar; [vm_compute; reflexivity|]. cbn. repeat constructor. }
  vm_compute fst.
  eapply frun_cons. { eapply F_set_values; [vm_compute; reflexivity| reflexivity | exact I | reflexivity | cbn; lia]. }
  vm_compute fst.
  eapply frun_cons. { eapply F_red; [vm_compute; reflexivity | discriminate | left; reflexivity]. }
  vm_compute fst.
  eapply frun_cons.
  { eapply F_aabin; [discriminate | vm_compute; reflexivity | vm_compute; reflexivity | repeat constructor; discriminate | left; reflexivity]. }
  vm_compute fst.
  eapply frun_cons. { eapply F_copylike; [vm_compute; reflexivity | vm_compute; reflexivity | reflexivity]. }
  apply frun_nil.
Qed.

(* ====================================================================== deepening round (coq/C09/ProofsDeep.v) *)
(* ---------- SparseArray reductions over the whole array (axis=None), with and without keepdims ---------- *)
Theorem C09_red_axis_none_refines : forall r rows m keep, Forall2 Rv rows m -> rows <> [] -> Forall (fun c => c <> []) rows ->
  exists v, np_red_all r m = Ok v /\ out_matches (red_arrF false r rows None keep) v keep.
Proof. exact red_axis_none_refines. Qed.
Print Assumptions C09_red_axis_none_refines.
Example C09_ex_red_axis_none :
  Forall2 Rv [of_dense [1; 0]; of_dense [0; -2]] [[1; 0]; [0; -2]] /\ [of_dense [1; 0]; of_dense [0; -2]] <> [] /\
  Forall (fun c => c <> []) [of_dense [1; 0]; of_dense [0; -2]].
Proof.
  split; [constructor; [apply Rv_of_dense|constructor; [apply Rv_of_dense|constructor]]|].
  split; [discriminate|repeat constructor; discriminate].
Qed.

(* ---------- SparseArray.__setitem__ with 1-d and 2-d values ---------- *)
(* one row: row[n] = values, n a list, mask, slice or [:] *)
Theorem C09_row_set_values_refines : forall c v n l isb, Rv c v -> valid_index (length c) n -> nonint n ->
  length l = length (index_list (length c) n) ->
  exists r r', vecF_set c n (PArr l isb) = Ok r /\ np_setrow_vals v n l = Ok r' /\ Rv r r' /\ length r = length c /\
               forall j, ~ In j (index_list (length c) n) -> nth_error r j = nth_error c j.
Proof. exact vecF_set_values_refines. Qed.
Print Assumptions C09_row_set_values_refines.
Example C09_ex_row_set_values :
  Rv (of_dense [1; 0; 2]) [1; 0; 2] /\ valid_index (length (of_dense [1; 0; 2])) (IMask [true; false; true]) /\
  nonint (IMask [true; false; true]) /\ length [5; 6] = length (index_list (length (of_dense [1; 0; 2])) (IMask [true; false; true])).
Proof. split; [apply Rv_of_dense|repeat split]. Qed.
(* a[m, n] = 1-d values: every selected row gets the values at the selected columns; other rows untouched *)
Theorem C09_array_set_values_refines : forall rows M m n l isb w, Forall2 Rv rows M ->
  is_int n = false -> is_int m || is_slice m || is_slice n = true ->
  valid_index (length rows) m -> Forall (fun c => length c = w) rows -> valid_index w n ->
  length l = length (index_list w n) ->
  exists R R', arrF_set false rows false (XPair m n) (PArr l isb) = (R, None) /\ np_set2_values M m n l = Ok R' /\
               Forall2 Rv R R' /\ length R = length rows /\
               forall k, ~ In k (index_list (length rows) m) -> nth_error R k = nth_error rows k.
Proof. exact array_set_values_refines. Qed.
Print Assumptions C09_array_set_values_refines.
(* a[m, n] = 2-d values: the k-th selected row gets the k-th row of values *)
Theorem C09_array_set_block_refines : forall rows M m n V isb w, Forall2 Rv rows M ->
  block_form m n = true -> valid_index (length rows) m -> Forall (fun c => length c = w) rows -> valid_index w n ->
  nonint n -> Forall (fun x => length x = length (index_list w n) /\ (2 <= length x)%nat) V ->
  length V = length (index_list (length rows) m) ->
  exists R R', arrF_set false rows false (XPair m n) (PArr2 V isb) = (R, None) /\ np_set2_block M m n V = Ok R' /\
               Forall2 Rv R R' /\ length R = length rows /\
               forall k, ~ In k (index_list (length rows) m) -> nth_error R k = nth_error rows k.
Proof. exact array_set_block_refines. Qed.
Print Assumptions C09_array_set_block_refines.
(* a[m] = scalar / 1-d values (non-tuple index) is a[m, :] = ... *)
Theorem C09_array_set_row_refines : forall rows M m q l isb w, Forall2 Rv rows M -> valid_index (length rows) m ->
  (exists R R', arrF_set false rows false (XRow m) (PS q isb) = (R, None) /\ np_set2_scalar M m IOpen q = Ok R' /\
                Forall2 Rv R R' /\ length R = length rows /\
                forall k, ~ In k (index_list (length rows) m) -> nth_error R k = nth_error rows k) /\
  (match m with IMask _ => False | _ => True end -> Forall (fun c => length c = w) rows -> length l = w ->
   exists R R', arrF_set false rows false (XRow m) (PArr l isb) = (R, None) /\ np_set2_values M m IOpen l = Ok R' /\
                Forall2 Rv R R' /\ length R = length rows /\
                forall k, ~ In k (index_list (length rows) m) -> nth_error R k = nth_error rows k).
Proof.
  intros. split; [now apply array_set_row_scalar_refines | intros; eapply array_set_row_values_refines; eauto].
Qed.
Print Assumptions C09_array_set_row_refines.
Example C09_ex_array_set_row :
  let rows := [of_dense [1; 0; 2]; of_dense [0; 0; 3]] in
  valid_index (length rows) (IList [1; 0]%nat) /\ Forall (fun c => length c = 3%nat) rows /\ length [7; 8; 9] = 3%nat /\
  arrF_set false rows false (XRow (IList [1; 0]%nat)) (PArr [7; 8; 9] false) = ([of_dense [7; 8; 9]; of_dense [7; 8; 9]], None).
Proof. cbn zeta. split; [repeat constructor|]. split; [repeat constructor|]. split; [reflexivity|]. vm_compute. reflexivity. Qed.
Example C09_ex_array_set_values :
  let rows := [of_dense [1; 0; 2]; of_dense [0; 0; 3]] in
  Forall2 Rv rows [[1; 0; 2]; [0; 0; 3]] /\ valid_index (length rows) (ISlice 0 2 1) /\ Forall (fun c => length c = 3%nat) rows /\
  valid_index 3 (IList [0; 2]%nat) /\ block_form (ISlice 0 2 1) (IList [0; 2]%nat) = true /\
  length [5; 6] = length (index_list 3 (IList [0; 2]%nat)) /\
  arrF_set false rows false (XPair (ISlice 0 2 1) (IList [0; 2]%nat)) (PArr2 [[5; 6]; [0; 7]] false)
    = ([of_dense [5; 0; 6]; of_dense [0; 0; 7]], None).
Proof.
  cbn zeta. split; [constructor; [apply Rv_of_dense|constructor; [apply Rv_of_dense|constructor]]|]. split; [cbn; lia|]. split; [repeat constructor|].
  split; [repeat constructor|]. split; [reflexivity|]. split; [reflexivity|]. vm_compute. reflexivity.
Qed.

(* ---------- fancy (list, list) indices: element-by-element pairs ---------- *)
Theorem C09_array_pairs : forall rows M ms ns q isb w, Forall2 Rv rows M ->
  (Forall2 (fun i j => (i < length rows)%nat /\ (j < length (nth i rows []))%nat) ms ns ->
     exists sr v', nth_rows rows ms = Ok sr /\ arrF_get rows (XPair (IList ms) (IList ns)) = GDenseF (map2 getc sr ns) /\
                   np_get_pairs M ms ns = Ok v' /\ Forall2 Qeq (map2 getc sr ns) v') /\
  (Forall (fun c => length c = w) rows -> Forall (fun i => (i < length rows)%nat) ms -> Forall (fun j => (j < w)%nat) ns ->
     exists R R', arrF_set false rows false (XPair (IList ms) (IList ns)) (PS q isb) = (R, None) /\
                  np_set_pairs M ms ns q = Ok R' /\ Forall2 Rv R R' /\ length R = length rows /\
                  forall k, ~ In k ms -> nth_error R k = nth_error rows k).
Proof.
  intros rows M ms ns q isb w H. split.
  - intros Hp. destruct (get_pairs_refines rows M ms ns H Hp) as (sr & v' & E & E' & R).
    exists sr, v'. repeat split; auto. now apply arrF_get_pairs_form.
  - intros. eapply set_pairs_refines; eauto.
Qed.
Print Assumptions C09_array_pairs.

Example C09_ex_array_pairs :
  let rows := [of_dense [1; 0; 2]; of_dense [0; 0; 3]] in
  Forall2 (fun i j => (i < length rows)%nat /\ (j < length (nth i rows []))%nat) [0; 1]%nat [2; 0]%nat /\
  Forall (fun c => length c = 3%nat) rows /\ Forall (fun j => (j < 3)%nat) [2; 0]%nat.
Proof. cbn zeta. split; [repeat constructor; cbn; lia|]. split; repeat constructor; cbn; lia. Qed.

(* ---------- SparseArray compared with a vector / scalar / list: row by row ---------- *)
Theorem C09_array_cmp_rows : forall m rows p, pkind p -> rows <> [] ->
  array_bin false (BC m) (map VF rows) p = (do l <- mapM (rowc m p) rows; Ok (OB l)).
Proof. exact array_cmp_rows. Qed.
Print Assumptions C09_array_cmp_rows.

Example C09_ex_array_cmp_rows :
  pkind (PS 0 false) /\ [of_dense [1; 0; -2]] <> [] /\
  array_bin false (BC CGt) (map VF [of_dense [1; 0; -2]]) (PS 0 false) = Ok (OB [[true; false; false]]).
Proof. split; [exact I|]. split; [discriminate|]. vm_compute. reflexivity. Qed.

(* ---------- comparisons between logical vectors ARE NumPy's comparisons of boolean arrays ---------- *)
Theorem C09_lv_cmp_refines : forall c a b, (length a = 1%nat -> b <> []) -> lv_cmp_sparse c a b = np_bcmp c a b.
Proof. exact lv_cmp_refines. Qed.
Print Assumptions C09_lv_cmp_refines.
Example C09_ex_lv_cmp : (length [true; false] = 1%nat -> [false; false] <> []) /\ lv_cmp_sparse CGt [true; false] [false; false] = Ok [true; false].
Proof. split; [discriminate|reflexivity]. Qed.

(* ---------- logical division, operands of the same size: wherever NumPy returns, the kernel returns the dividend ---------- *)
Theorem C09_logic_div_same_ok : forall a b r, length a = length b -> np_logic LDiv a b = Ok r ->
  lv_isparse LDiv a b = Ok a /\ r = a.
Proof. exact logic_div_same_ok. Qed.
Print Assumptions C09_logic_div_same_ok.
Example C09_ex_logic_div : length [true; false] = length [true; true] /\ np_logic LDiv [true; false] [true; true] = Ok [true; false].
Proof. split; reflexivity. Qed.

(* ---------- all histories over the enlarged fragment fop2: fop plus, on float SparseArrays, the reductions with
   axis None / 0 / 1 and keepdims, a[m, n] = scalar / 1-d / 2-d values, a[i, j], a[i, cols], a[rows, j], a[k], a[[k...]], a[mask], the six
   comparisons with a vector / scalar / list operand, neg, abs, copy, clear; on float vectors / and /= with operands
   that hold no zero; on logical vectors the six comparisons, ~, reads with every index kind, any / all / sum.  np_step2 = np_step extended by NumPy's
   semantics of these operations *)
Theorem C09_history_refines_arrays : forall ops s d, sim s d -> frun2 s ops ->
  sim (fst (run false s ops)) (np_run2 d ops) /\ Forall2 orel (snd (run false s ops)) (np_outs2 d ops).
Proof. exact history_refines_arrays. Qed.
Print Assumptions C09_history_refines_arrays.
Theorem C09_history_dense_arrays : forall ops s, store_wf s -> frun2 s ops ->
  sim (fst (run false s ops)) (np_run2 (abs_store s) ops) /\ Forall2 orel (snd (run false s ops)) (np_outs2 (abs_store s) ops).
Proof. exact history_dense_arrays. Qed.
Print Assumptions C09_history_dense_arrays.
Definition exOps4 : list xop :=
  [XOp (ORed RMax 3 None true); XOp (ORed RSum 3 (Some 0%nat) false); XASet 3 (XPair (IInt 0) (ISlice 0 2 1)) (AArr [5; 6]);
   XAGet 3 (XPair (IInt 1) (IInt 2)); XOp (OBin (BC CGt) 3 (AScal 0)); XOp (ONeg 3);
   XASet 3 (XPair (ISlice 0 2 1) (IInt 1)) (AScal 9); XAGet 3 (XPair (ISlice 0 2 1) (IInt 1)); XOp (OBin (BA Add) 0 (AObj 1));
   XOp (OBin (BA Div) 0 (AScal 3)); XOp (OIBin (BA Div) 1 (AArr [2; 4; 8]));
   XOp (OBin (BC CLt) 4 (AObj 5)); XOp (OInvert 4); XOp (OGet 4 (IList [0; 2]%nat)); XOp (ORed RSum 4 None true)].
Example C09_ex_frun2 : frun2 exS exOps4.
Proof.
  unfold exOps4.
  eapply frun2_cons. { eapply F2_red; [vm_compute; reflexivity | discriminate | repeat constructor; discriminate | auto]. }
  vm_compute fst.
  eapply frun2_cons. { eapply F2_red; [vm_compute; reflexivity | discriminate | repeat constructor; discriminate | auto]. }
  vm_compute fst.
  eapply frun2_cons.
  { eapply (F2_set_values _ 3 (IInt 0) (ISlice 0 2 1) [5; 6] _ 3);
      [vm_compute; reflexivity | reflexivity | reflexivity | cbn; lia | repeat constructor | cbn; lia | reflexivity | cbn; lia]. }
  vm_compute fst.
  eapply frun2_cons. { eapply F2_get_elem; [vm_compute; reflexivity | cbn; lia | cbn; lia]. }
  vm_compute fst.
  eapply frun2_cons. { eapply F2_cmp; [vm_compute; reflexivity | discriminate | repeat constructor]. }
  vm_compute fst.
  eapply frun2_cons. { eapply (F2_unary _ _ 3%nat); [vm_compute; reflexivity | left; reflexivity]. }
  vm_compute fst.
  eapply frun2_cons.
  { eapply F2_set_scalar; [vm_compute; reflexivity | reflexivity | cbn; lia | repeat constructor; cbn; lia]. }
  vm_compute fst.
  eapply frun2_cons. { eapply F2_get_col; [vm_compute; reflexivity | reflexivity | cbn; lia | repeat constructor; cbn; lia]. }
  vm_compute fst.
  eapply frun2_cons.
  { apply F2_old. eapply F_bin; [discriminate | vm_compute; reflexivity |]. cbn. repeat eexists; try (vm_compute; reflexivity); discriminate. }
  vm_compute fst.
  eapply frun2_cons. { eapply F2_div; [vm_compute; reflexivity | exact I | cbn; lra]. }
  vm_compute fst.
  eapply frun2_cons.
  { eapply F2_idiv; [vm_compute; reflexivity | cbn; discriminate | cbn; repeat constructor; lra |].
    intros p Hp. vm_compute in Hp. inversion Hp; subst. reflexivity. }
  vm_compute fst.
  eapply frun2_cons. { eapply F2_lcmp; [vm_compute; reflexivity | vm_compute; reflexivity | discriminate]. }
  vm_compute fst.
  eapply frun2_cons. { eapply F2_linvert; vm_compute; reflexivity. }
  vm_compute fst.
  eapply frun2_cons. { eapply F2_lget; [vm_compute; reflexivity | repeat constructor; cbn; lia]. }
  vm_compute fst.
  eapply frun2_cons. { eapply F2_lred; [vm_compute; reflexivity | auto | auto]. }
  apply frun2_nil.
Qed.

(* ================================================================== second deepening round *)
(* ---------- 2-d block reads a[rows, cols] (one of the two a slice, the other a slice / int list / mask) ---------- *)
Theorem C09_get_block_refines : forall rows M m n w, Forall2 Rv rows M -> is_block m n = true ->
  valid_index (length rows) m -> Forall (fun c => length c = w) rows -> valid_index w n ->
  exists B B', arrF_get rows (XPair m n) = GDense2F B /\ np_get_block M m n = Ok B' /\ Forall2 (Forall2 Qeq) B B' /\
               length B = length (index_list (length rows) m).
Proof. exact get_block_history_refines. Qed.
Print Assumptions C09_get_block_refines.
Example C09_ex_get_block :
  let rows := [of_dense [1; 0; 2]; of_dense [0; 0; 3]] in
  Forall2 Rv rows [[1; 0; 2]; [0; 0; 3]] /\ is_block (IList [1; 0]%nat) (ISlice 1 3 1) = true /\ valid_index (length rows) (IList [1; 0]%nat) /\
  Forall (fun c => length c = 3%nat) rows /\ valid_index 3 (ISlice 1 3 1) /\
  arrF_get rows (XPair (IList [1; 0]%nat) (ISlice 1 3 1)) = GDense2F [[0; 3]; [0; 2]].
Proof.
  cbn zeta. split; [constructor; [apply Rv_of_dense|constructor; [apply Rv_of_dense|constructor]]|]. split; [reflexivity|].
  split; [repeat constructor|]. split; [repeat constructor|]. split; [cbn; lia|]. vm_compute. reflexivity.
Qed.

(* ---------- writes into logical vectors: the kernel's result IS NumPy's (no representation gap: the set of true indices
   is the boolean array) ---------- *)
Theorem C09_lset_scalar_refines : forall b ix q isb, valid_index (length b) ix ->
  exists r, vecB_set b ix (PS q isb) = Ok r /\ np_setb b ix [truthy q] = Ok r.
Proof. exact vecB_set_scalar. Qed.
Print Assumptions C09_lset_scalar_refines.
Theorem C09_lset_values_refines : forall b ix (w : bits), valid_index (length b) ix -> nonint_ix ix ->
  length w = length (index_list (length b) ix) -> (2 <= length w)%nat ->
  exists r, vecB_set b ix (PL w) = Ok r /\ np_setb b ix w = Ok r.
Proof.
  intros b ix w Hv Hn Hl H2. destruct (setb_values b ix w Hv Hn Hl) as (r & E & E'). exists r. split; [|exact E'].
  destruct w as [|x0 [|x1 w]]; cbn in H2; try lia. destruct ix; cbn in Hn; try contradiction; exact E.
Qed.
Print Assumptions C09_lset_values_refines.
Example C09_ex_lset : valid_index 3 (IMask [true; false; true]) /\ nonint_ix (IMask [true; false; true]) /\
  vecB_set [true; true; false] (IMask [true; false; true]) (PL [false; true]) = Ok [false; true; true].
Proof. split; [reflexivity|]. split; [exact I|]. reflexivity. Qed.

(* ---------- mean / max / min of a logical vector are NumPy's reductions of the 0/1 image ---------- *)
Theorem C09_lred_refines : forall r (b : bits) keep, b <> [] -> r = RMean \/ r = RMax \/ r = RMin ->
  exists q q', np_lred r b = Ok q' /\ q == q' /\
               red_vecB r b keep = (if keep then RNew (OV (keep1 q) false) else RScal q).
Proof. exact lred_refines. Qed.
Print Assumptions C09_lred_refines.
Example C09_ex_lred : [true; false] <> [] /\ red_vecB RMean [true; false] false = RScal (1 # 2) /\ red_vecB RMin [true; false] true = RNew (OV [None] false).
Proof. split; [discriminate|]. split; vm_compute; reflexivity. Qed.

(* ---------- all histories over fop3 = fop2 plus 2-d block reads of float arrays, item / list / mask / slice / [:] writes
   into logical vectors (scalars, lists, other logical vectors) and mean / max / min of logical vectors.
   np_step3 = np_step2 extended by NumPy's semantics of these operations (np_extra3, executed by the harness) ---------- *)
Theorem C09_history_refines_3 : forall ops s d, sim s d -> frun3 s ops ->
  sim (fst (run false s ops)) (np_run3 d ops) /\ Forall2 orel3 (snd (run false s ops)) (np_outs3 d ops).
Proof. exact history_refines_3. Qed.
Print Assumptions C09_history_refines_3.
Theorem C09_history_dense_3 : forall ops s, store_wf s -> frun3 s ops ->
  sim (fst (run false s ops)) (np_run3 (abs_store s) ops) /\ Forall2 orel3 (snd (run false s ops)) (np_outs3 (abs_store s) ops).
Proof. exact history_dense_3. Qed.
Print Assumptions C09_history_dense_3.
(* what the harness executes is this step *)
Theorem C09_harness_step3 : forall d o,
  (np_extra d o = None -> np_step3h d o = np_step3 d o) /\ (forall r, np_extra3 d o = Some r -> np_step3h d o = r /\ np_step3 d o = r).
Proof. intros d o. split; [apply np_step3h_step3 | apply np_step3h_new]. Qed.
Print Assumptions C09_harness_step3.
Definition exOps5 : list xop :=
  [XAGet 3 (XPair (ISlice 0 2 1) (IList [0; 2]%nat)); XOp (OSet 4 (IList [0; 1]%nat) (ABArr [false; true]));
   XOp (OSet 4 IOpen (AObj 5)); XOp (OSet 4 (IInt 1) (AScal 2)); XOp (ORed RMean 4 None false);
   XOp (ORed RMin 4 (Some 0%nat) true); XOp (OGet 4 (IList [0; 2]%nat)); XAGet 3 (XPair (IMask [false; true]) (ISlice 1 3 1))].
Example C09_ex_frun3 : frun3 exS exOps5.
Proof.
  unfold exOps5.
  eapply frun3_cons.
  { eapply F3_get_block with (w := 3%nat); [vm_compute; reflexivity | reflexivity | cbn; lia | vm_compute; discriminate
                                           | repeat constructor | repeat constructor; cbn; lia]. }
  vm_compute fst.
  eapply frun3_cons.
  { eapply F3_lset_values with (w := [false; true]); [vm_compute; reflexivity | repeat constructor; cbn; lia | exact I | reflexivity | reflexivity | cbn; lia]. }
  vm_compute fst.
  eapply frun3_cons.
  { eapply F3_lset_values with (w := [false; false; true]); [vm_compute; reflexivity | exact I | exact I | vm_compute; reflexivity | reflexivity | cbn; lia]. }
  vm_compute fst.
  eapply frun3_cons. { eapply F3_lset_scalar; [vm_compute; reflexivity | cbn; lia | left; eexists; reflexivity]. }
  vm_compute fst.
  eapply frun3_cons. { eapply F3_lred; [vm_compute; reflexivity | discriminate | auto | auto]. }
  vm_compute fst.
  eapply frun3_cons. { eapply F3_lred; [vm_compute; reflexivity | discriminate | auto | auto]. }
  vm_compute fst.
  eapply frun3_cons. { apply F3_old. eapply F2_lget; [vm_compute; reflexivity | repeat constructor; cbn; lia]. }
  vm_compute fst.
  eapply frun3_cons.
  { eapply F3_get_block with (w := 3%nat); [vm_compute; reflexivity | reflexivity | reflexivity | vm_compute; discriminate
                                           | repeat constructor | cbn; lia]. }
  apply frun3_nil.
Qed.

(* ---------- python ints as indices (negative ones included), the code AS IT IS ---------- *)
(* the layer is conservative over the nat indices of the model, and every write it performs keeps the representation invariant *)
Theorem C09_zindex_conservative : forall c k q, (0 <= k)%Z ->
  vecF_zget c (ZInt k) = vec_get (VF c) (IInt (Z.to_nat k)) /\
  vecF_zset c (ZInt k) (SVScal q) = vecF_set c (IInt (Z.to_nat k)) (PS q false).
Proof. intros. split; [now apply zget_nonneg | now apply zset_nonneg]. Qed.
Print Assumptions C09_zindex_conservative.
Theorem C09_zset_keeps_invariant : forall c ix v r, wf c -> vecF_zset c ix v = Ok r -> wf r.
Proof. exact vecF_zset_wf. Qed.
Print Assumptions C09_zset_keeps_invariant.
(* a negative int read from a SparseVector is 0 whatever is stored; NumPy reads the element counted from the end; the two
   agree exactly when that element is zero *)
Theorem C09_neg_get_vs_numpy : forall c v k, Rv c v -> (- Z.of_nat (length c) <= k < 0)%Z ->
  exists q', np_zget1 v k = Ok q' /\ q' = nth (Z.to_nat (Z.of_nat (length c) + k)) v 0 /\
             vecF_zget c (ZInt k) = RScal 0 /\ (0 == q' <-> getc c (Z.to_nat (Z.of_nat (length c) + k)) == 0).
Proof. exact neg_get_vs_numpy. Qed.
Print Assumptions C09_neg_get_vs_numpy.
Example C09_ex_neg_get : Rv (of_dense [1; 2]) [1; 2] /\ (- Z.of_nat (length (of_dense [1%Q; 2%Q])) <= -1 < 0)%Z.
Proof. split; [apply Rv_of_dense|cbn; lia]. Qed.
(* the statements "negative ints behave as in NumPy" are refuted by v = [1, 2]: v[-1] is 0 (NumPy 2); v[-1] = 5 stores the
   key -1 (NumPy [1, 5]); v[-1:2] is [0, 1, 2] (NumPy [2]); a[0, -1] is 0 (NumPy 2) *)
Theorem C09_neg_get_refuted : ~ neg_get_statement.
Proof. exact neg_get_refuted. Qed.
Print Assumptions C09_neg_get_refuted.
Theorem C09_neg_set_refuted : ~ neg_set_statement.
Proof. exact neg_set_refuted. Qed.
Print Assumptions C09_neg_set_refuted.
Theorem C09_neg_slice_refuted : ~ neg_slice_statement.
Proof. exact neg_slice_refuted. Qed.
Print Assumptions C09_neg_slice_refuted.
Theorem C09_neg_column_refuted : ~ neg_column_statement.
Proof. exact neg_column_refuted. Qed.
Print Assumptions C09_neg_column_refuted.
(* what the write does, for every vector: a non-zero value leaves the representable states (key outside range(size)); a zero
   value leaves the vector as it is while NumPy zeroes the element counted from the end *)
Theorem C09_neg_set_behaviour : forall c v k q, Rv c v -> (- Z.of_nat (length c) <= k < 0)%Z ->
  (~ q == 0 -> vecF_zset c (ZInt k) (SVScal q) = Err EOther) /\
  (q == 0 -> vecF_zset c (ZInt k) (SVScal q) = Ok c /\ np_zset v (ZInt k) [q] = Ok (upd v (Z.to_nat (Z.of_nat (length c) + k)) q)).
Proof. intros c v k q H Hk. split; [intros Hq; apply neg_set_nonzero; [lia|exact Hq] | intros Hq; now apply neg_set_zero]. Qed.
Print Assumptions C09_neg_set_behaviour.
(* the ROW index of a SparseArray is a python list index: a[k], a[k, j], a[[k...], j] are NumPy's for every int k (negative,
   out of range: IndexError on both sides) and every column j inside the rows *)
Theorem C09_array_row_ints : forall rows M k ks j ro w, Forall2 Rv rows M ->
  match arrF_zget rows (ZRow k), np_azget M ro (ZRow k) with
  | GRow i, DNew (DV r' ro') => Rv (nth i rows []) r' /\ ro' = ro /\ (i < length rows)%nat
  | GErr e, DErr e' => e = e'
  | _, _ => False
  end /\
  (Forall (fun c => length c = w) rows -> (0 <= j < Z.of_nat w)%Z ->
   match arrF_zget rows (ZElem k j), np_azget M ro (ZElem k j) with
   | GScalF q, DScal q' => q == q'
   | GErr e, DErr e' => e = e'
   | _, _ => False
   end /\
   match arrF_zget rows (ZCol ks j), np_azget M ro (ZCol ks j) with
   | GDenseF l, DDense l' => Forall2 Qeq l l'
   | GErr e, DErr e' => e = e'
   | _, _ => False
   end).
Proof.
  intros rows M k ks j ro w H. split; [now apply arr_zget_row_refines|]. intros Hw Hj.
  split; [eapply arr_zget_elem_refines; eauto | eapply arr_zget_col_refines; eauto].
Qed.
Print Assumptions C09_array_row_ints.
Example C09_ex_array_row_ints :
  let rows := [of_dense [1; 0; 2]; of_dense [0; 0; 3]] in
  Forall2 Rv rows [[1; 0; 2]; [0; 0; 3]] /\ Forall (fun c => length c = 3%nat) rows /\ (0 <= 2 < Z.of_nat 3)%Z /\
  arrF_zget rows (ZElem (-1) 2) = GScalF 3 /\ arrF_zget rows (ZRow (-2)) = GRow 0 /\ arrF_zget rows (ZRow (-3)) = GErr EIndex.
Proof.
  cbn zeta. split; [constructor; [apply Rv_of_dense|constructor; [apply Rv_of_dense|constructor]]|]. split; [repeat constructor|].
  split; [cbn; lia|]. repeat split; vm_compute; reflexivity.
Qed.

(* ---------- a[:, n] with an ndarray n (int array or mask): with pending_fixes/C09_9 (the class of n is tested before the
   comparison with open_slice) it is NumPy's block for every such n; the unrepaired source raises ValueError as soon as n has
   two elements (legacy flag of arrF_get_open_nd, chosen by the harness after probing the tree) ---------- *)
Theorem C09_open_nd_refines : forall rows M n w, Forall2 Rv rows M -> Forall (fun c => length c = w) rows -> valid_index w n ->
  match n with IList _ | IMask _ => True | _ => False end ->
  exists B B', arrF_get_open_nd false rows n = GDense2F B /\ np_get_block M IOpen n = Ok B' /\ Forall2 (Forall2 Qeq) B B' /\
               length B = length rows.
Proof. exact open_nd_refines. Qed.
Print Assumptions C09_open_nd_refines.
Theorem C09_legacy_open_nd_refuted : ~ open_nd_legacy_statement.
Proof. exact open_nd_legacy_refuted. Qed.
Print Assumptions C09_legacy_open_nd_refuted.
Example C09_ex_open_nd : valid_index 2 (IList [0; 1]%nat) /\ arrF_get_open_nd false [of_dense [1; 2]] (IList [1; 0]%nat) = GDense2F [[2; 1]] /\
  arrF_get_open_nd true [of_dense [1; 2]] (IList [0; 1]%nat) = GErr EValue.
Proof. split; [repeat constructor|]. split; vm_compute; reflexivity. Qed.
