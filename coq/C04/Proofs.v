(* C04 — lemmas *)
From V Require Import Common.NumFacts C03.Model C03.Proofs C04.KBase C04.Model C04.Gen_kernels.
Open Scope Q_scope.

Ltac brk := match goal with
  | |- context [if ?x then _ else _] => destruct x eqn:?
  end.
Ltac red1 := cbn [ms mset tick mk fst snd om sT sP with_T with_P with_flows write2 all_vap all_liq set_flows split_V
                  set_other catch_noeq liq vap oth].

(* ------------------------------------------------------------------ the thermal condition *)
Lemma evals_v_ms' orc c isT a pts : forall m vl, ms (fst (evals_v orc c isT a pts m vl)) = ms m.
Proof. exact (evals_v_ms c orc isT a pts). Qed.

Lemma herr_eval_TP orc c T P m :
  sT (ms (fst (herr_eval orc c T P m))) = sT (ms m) /\ sP (ms (fst (herr_eval orc c T P m))) = sP (ms m).
Proof. unfold herr_eval, solve_v, call_xH. red1. auto. Qed.

Lemma evals_h_TP orc c isT X pts : forall m,
  sT (ms (evals_h orc c isT X pts m)) = sT (ms m) /\ sP (ms (evals_h orc c isT X pts m)) = sP (ms m).
Proof.
  induction pts as [|x t IH]; intros m; simpl; auto.
  destruct isT.
  - pose proof (herr_eval_TP orc c X x m) as (A & B). destruct (herr_eval orc c X x m) as [m' h]. cbn [fst] in *.
    destruct (IH m') as (C & D). split; congruence.
  - pose proof (herr_eval_TP orc c x X m) as (A & B). destruct (herr_eval orc c x X m) as [m' h]. cbn [fst] in *.
    destruct (IH m') as (C & D). split; congruence.
Qed.

Lemma correct_P orc c T P H m : sP (ms (correct orc c T P H m)) = sP (ms m).
Proof.
  unfold correct, call_Hp, call_xH, call_solveT. red1.
  repeat brk; red1; reflexivity.
Qed.

Lemma ph_chemical_P orc c m P H : sP (ms (ph_chemical orc c m P H)) = sP (ms m).
Proof. unfold ph_chemical, call_xH, call_solveT. red1. repeat brk; red1; reflexivity. Qed.

Lemma tp_chemical_TP orc c s T P : sT (tp_chemical orc c s T P) = sT s /\ sP (tp_chemical orc c s T P) = sP s.
Proof. unfold tp_chemical. repeat brk; red1; auto. Qed.

Lemma th_chemical_T orc c m T H m' : th_chemical orc c m T H = VOk m' -> sT (ms m') = T.
Proof.
  unfold th_chemical, call_xH. red1. repeat brk; red1; intros E; inversion E; subst; red1; reflexivity.
Qed.

Lemma lever_TP c x y m m' : lever c x y m = VOk m' -> sT (ms m') = sT (ms m) /\ sP (ms m') = sP (ms m).
Proof.
  unfold lever. repeat brk; intros E; inversion E; subst; red1; auto.
Qed.

(* set_TV / set_PV, several chemicals: the specified member is kept *)
Lemma set_XV_multi_spec orc c isT V m m' : set_XV_multi orc c isT V m = VOk m' ->
  if isT then sT (ms m') = sT (ms m) else sP (ms m') = sP (ms m).
Proof.
  unfold set_XV_multi, call_dew, call_bubble, call_dew_n, call_bubble_n, solve_v. destruct isT; cbv zeta; red1.
  all: destruct (o_bubble orc (mk m) _) as [Xb yb].
  all: repeat brk; red1.
  all: try (destruct (o_dew orc _ _) as [Xd xd]; red1).
  all: repeat brk; red1.
  all: try (destruct (o_iq orc _) as [pts X]; red1;
            match goal with |- context [evals_v ?o ?c0 ?b0 ?a0 ?p0 ?m0 ?v0] =>
              pose proof (evals_v_ms' o c0 b0 a0 p0 m0 v0) as E1;
              destruct (evals_v o c0 b0 a0 p0 m0 v0) as [m1 v1] end; cbn [fst] in E1).
  all: intros E; inversion E; subst; red1; try rewrite E1; red1; reflexivity.
Qed.

Section SpecTP.
Variable cf : cfg.
Variable orc : oracle.

Lemma set_TP_spec T P m m' : catch_noeq (set_TP cf orc T P m) (fun s => with_P (with_T s T) P) = VOk m' ->
  sT (ms m') = T /\ sP (ms m') = P.
Proof.
  unfold set_TP. destruct (setup cf (ms m)) as [s c|s|e s]; red1.
  - unfold call_dew, call_bubble, call_dew_n, call_bubble_n, solve_v. repeat brk; red1.
    all: try (intros E; inversion E; subst; red1; auto; fail).
    + intros E; inversion E; subst; red1. destruct (tp_chemical_TP orc c (with_P (with_T s T) P) T P) as (A & B).
      rewrite A, B. red1. auto.
    + destruct (o_dew orc (mk m) _) as [Pd xd]; red1. repeat brk; red1.
      all: try (intros E; inversion E; subst; red1; auto; fail).
      destruct (o_bubble orc _ _) as [Pb yb]; red1. repeat brk; red1.
      all: intros E; inversion E; subst; red1; auto.
  - intros E; inversion E; subst; red1; auto.
  - destruct e; intros E; inversion E; subst; red1; auto.
Qed.

Lemma set_TV_spec T V m m' : catch_noeq (set_TV cf orc T V m) (fun s => with_T s T) = VOk m' -> sT (ms m') = T.
Proof.
  unfold set_TV. destruct (setup cf (ms m)) as [s c|s|e s]; red1.
  - repeat brk; red1.
    + intros E; inversion E.
    + intros E; inversion E; subst. unfold tv_chemical. red1. reflexivity.
    + destruct (set_XV_multi orc c true V (mset m (with_T s T))) as [m1|e m1] eqn:EX.
      * apply set_XV_multi_spec in EX. red1. intros E; inversion E; subst. rewrite EX. reflexivity.
      * destruct e; red1; intros E; inversion E; subst; red1; reflexivity.
  - intros E; inversion E; subst; red1; auto.
  - destruct e; intros E; inversion E; subst; red1; auto.
Qed.

Lemma set_PV_spec P V m m' : catch_noeq (set_PV cf orc P V m) (fun s => with_P s P) = VOk m' -> sP (ms m') = P.
Proof.
  unfold set_PV. destruct (setup cf (ms m)) as [s c|s|e s]; red1.
  - repeat brk; red1.
    + intros E; inversion E.
    + intros E; inversion E; subst. unfold pv_chemical. red1. reflexivity.
    + destruct (set_XV_multi orc c false V (mset m (with_P s P))) as [m1|e m1] eqn:EX.
      * apply set_XV_multi_spec in EX. red1. intros E; inversion E; subst. rewrite EX. reflexivity.
      * destruct e; red1; intros E; inversion E; subst; red1; reflexivity.
  - intros E; inversion E; subst; red1; auto.
  - destruct e; intros E; inversion E; subst; red1; auto.
Qed.

Lemma set_TH_spec T H m m' : set_TH cf orc T H m = VOk m' -> sT (ms m') = T.
Proof.
  unfold set_TH. destruct (setup cf (ms m)) as [s c|s|e s]; red1; try (intros E; inversion E; fail).
  unfold call_dew, call_bubble, call_dew_n, call_bubble_n, call_xH.
  repeat brk; red1; try (intros E; inversion E; fail).
  all: try (apply th_chemical_T; fail).
  all: destruct (o_dew orc (mk m) _) as [Pd xd]; red1; repeat brk; red1; try (intros E; inversion E; fail).
  all: destruct (o_bubble orc _ _) as [Pb yb]; red1; repeat brk; red1; try (intros E; inversion E; fail).
  all: destruct (o_iq orc _) as [pts Px]; red1; intros E; inversion E; subst; red1; reflexivity.
Qed.

Ltac red0 := cbn [ms mset tick mk fst snd om].
Lemma set_PH_spec ent P H m m' : set_PH cf orc ent P H m = VOk m' -> sP (ms m') = P.
Proof.
  unfold set_PH. destruct (setup cf (ms m)) as [s c|s|e s]; red0; try (intros E; inversion E; fail).
  unfold call_dew, call_bubble, call_dew_n, call_bubble_n, call_xH, call_solveT.
  repeat brk; red0; try (intros E; inversion E; subst; red0; try rewrite ph_chemical_P; reflexivity).
  all: destruct (o_bubble orc (mk m) _) as [Tb yb]; red0; repeat brk; red0;
       try (intros E; inversion E; subst; red0; reflexivity).
  all: destruct (o_dew orc _ _) as [Td xd]; red0; repeat brk; red0;
       try (intros E; inversion E; subst; red0; reflexivity).
  all: repeat match goal with
       | |- context [herr_eval ?o ?c0 ?T0 ?P0 ?m0] =>
         let A := fresh "A" in
         pose proof (herr_eval_TP o c0 T0 P0 m0) as (_ & A);
         destruct (herr_eval o c0 T0 P0 m0) as [? ?]; cbn [fst snd] in *
       end.
  all: repeat brk; red0.
  all: try (destruct (o_iq orc _) as [pts Tx]; red0).
  all: intros E; inversion E; subst; rewrite correct_P.
  all: try match goal with |- context [evals_h ?o ?c0 ?b ?X ?p ?m0] =>
         destruct (evals_h_TP o c0 b X p m0) as (_ & EH); rewrite EH end; red0.
  all: repeat match goal with A : sP (ms _) = _ |- _ => rewrite A; clear A end.
  all: red0; reflexivity.
Qed.

Lemma set_xy_spec bubble specT sv comp m m' : set_xy cf orc bubble specT sv comp m = VOk m' ->
  if specT then sT (ms m') = sv else sP (ms m') = sv.
Proof.
  unfold set_xy. destruct (setup cf (ms m)) as [s c|s|e s]; try (intros E; inversion E; fail).
  destruct (negb (cN c =? 2)); [intros E; inversion E|].
  unfold call_bubble, call_dew, call_bubble_n, call_dew_n. destruct bubble; red1.
  - destruct (o_bubble orc (mk m) _) as [a y]; red1. intros E. apply lever_TP in E. cbn [ms mset tick mk fst snd om sT sP with_T with_P catch_noeq] in E.
    destruct E as (A & B). destruct specT; cbn [ms mset tick mk fst snd om sT sP with_T with_P catch_noeq] in A; cbn [ms mset tick mk fst snd om sT sP with_T with_P catch_noeq] in B; auto.
  - destruct (o_dew orc (mk m) _) as [a y]; red1. intros E. apply lever_TP in E. cbn [ms mset tick mk fst snd om sT sP with_T with_P catch_noeq] in E.
    destruct E as (A & B). destruct specT; cbn [ms mset tick mk fst snd om sT sP with_T with_P catch_noeq] in A; cbn [ms mset tick mk fst snd om sT sP with_T with_P catch_noeq] in B; auto.
Qed.

Lemma vle_spec_TP_lemma sp st st' : vle cf orc sp st = VOk st' ->
  (forall T, spec_T sp = Some T -> sT st' = T) /\ (forall P, spec_P sp = Some P -> sP st' = P).
Proof.
  intros H. destruct (vle_ok_call _ _ _ _ _ H) as (m & E & <-). clear H.
  destruct sp as [T P|T V|T H|T Sv|T x|T y|P V|P H|P Sv|P x|P y]; cbn [vle_call spec_T spec_P] in *.
  - apply set_TP_spec in E. destruct E. split; intros ? Q; inversion Q; subst; auto.
  - apply set_TV_spec in E. split; intros ? Q; inversion Q; subst; auto.
  - apply set_TH_spec in E. split; intros ? Q; inversion Q; subst; auto.
  - apply set_TH_spec in E. split; intros ? Q; inversion Q; subst; auto.
  - apply set_xy_spec in E. split; intros ? Q; inversion Q; subst; auto.
  - apply set_xy_spec in E. split; intros ? Q; inversion Q; subst; auto.
  - apply set_PV_spec in E. split; intros ? Q; inversion Q; subst; auto.
  - assert (A : sP (ms m) = P).
    { destruct (set_PH cf orc false P H (mkm st 0)) as [m1|e m1] eqn:S; cbn [catch_noeq] in E.
      + inversion E; subst. eapply set_PH_spec; eauto.
      + destruct e; inversion E; subst; red1; reflexivity. }
    split; intros ? Q; inversion Q; subst; auto.
  - assert (A : sP (ms m) = P).
    { destruct (set_PH cf orc true P Sv (mkm st 0)) as [m1|e m1] eqn:S.
      + inversion E; subst. eapply set_PH_spec; eauto.
      + destruct (set_PH cf orc true P Sv m1) as [m2|e2 m2] eqn:S2; cbn [catch_noeq] in E.
        * inversion E; subst. eapply set_PH_spec; eauto.
        * destruct e2; inversion E; subst; red1; reflexivity. }
    split; intros ? Q; inversion Q; subst; auto.
  - apply set_xy_spec in E. split; intros ? Q; inversion Q; subst; auto.
  - apply set_xy_spec in E. split; intros ? Q; inversion Q; subst; auto.
Qed.
End SpecTP.

(* ------------------------------------------------------------------ Rachford-Rice *)
Lemma rr2_solves_lemma z1 z2 K1 K2 V : rr2 z1 z2 K1 K2 = Ok V ->
  ~ 1 + V * (K1 - 1) == 0 -> ~ 1 + V * (K2 - 1) == 0 ->
  rr [z1; z2] [K1; K2] V == 0.
Proof.
  unfold rr2. destruct (qzerob (rr2_den z1 z2 K1 K2)) eqn:E; [discriminate|].
  apply qzerob_false in E. intros H D1 D2. injection H as HV.
  assert (HV' : V * rr2_den z1 z2 K1 K2 == rr2_num z1 z2 K1 K2) by (rewrite <- HV; field; exact E).
  assert (Hn : z1 * (K1 - 1) * (1 + V * (K2 - 1)) + z2 * (K2 - 1) * (1 + V * (K1 - 1))
               == V * rr2_den z1 z2 K1 K2 - rr2_num z1 z2 K1 K2) by (unfold rr2_den, rr2_num; ring).
  rewrite HV' in Hn.
  unfold rr, qsum. cbn [map2 fold_right]. unfold rr_term.
  assert (G : z1 * (K1 - 1) / (1 + V * (K1 - 1)) + (z2 * (K2 - 1) / (1 + V * (K2 - 1)) + 0)
              == (z1 * (K1 - 1) * (1 + V * (K2 - 1)) + z2 * (K2 - 1) * (1 + V * (K1 - 1)))
                 / ((1 + V * (K1 - 1)) * (1 + V * (K2 - 1)))) by (field; split; assumption).
  assert (F0 : (z1 * (K1 - 1) * (1 + V * (K2 - 1)) + z2 * (K2 - 1) * (1 + V * (K1 - 1)))
                 / ((1 + V * (K1 - 1)) * (1 + V * (K2 - 1))) == 0)
    by (rewrite Hn; field; split; assumption).
  exact (Qeq_trans _ _ _ G F0).
Qed.

Lemma rr_den_pos V K : 0 <= V -> V <= 1 -> 0 < K -> 0 < 1 + V * (K - 1).
Proof.
  intros HV HV1 HK.
  assert (A : 0 <= V * K) by (apply Qmult_le_0_compat; lra).
  assert (B : 1 + V * (K - 1) == (1 - V) + V * K) by ring.
  destruct (Qlt_le_dec V 1) as [L|L]; [lra|].
  assert (C : V * K == K) by (assert (V == 1) as -> by lra; ring).
  lra.
Qed.

Lemma rr_term_mono V W z K : 0 <= V -> V < W -> W <= 1 -> 0 <= z -> 0 < K ->
  rr_term W z K <= rr_term V z K /\ (0 < z -> ~ K == 1 -> rr_term W z K < rr_term V z K).
Proof.
  intros HV HVW HW Hz HK.
  assert (DV : 0 < 1 + V * (K - 1)) by (apply rr_den_pos; lra).
  assert (DW : 0 < 1 + W * (K - 1)) by (apply rr_den_pos; lra).
  assert (DD : 0 < (1 + V * (K - 1)) * (1 + W * (K - 1))) by (apply Qmult_lt_0_compat; assumption).
  assert (E : rr_term V z K - rr_term W z K ==
              z * ((K - 1) * (K - 1)) * (W - V) / ((1 + V * (K - 1)) * (1 + W * (K - 1))))
    by (unfold rr_term; field; split; lra).
  assert (SQ : 0 <= (K - 1) * (K - 1)).
  { destruct (Qlt_le_dec K 1) as [L|L].
    - assert (R : (K - 1) * (K - 1) == (1 - K) * (1 - K)) by ring. rewrite R. apply Qmult_le_0_compat; lra.
    - apply Qmult_le_0_compat; lra. }
  split.
  - assert (0 <= z * ((K - 1) * (K - 1)) * (W - V) / ((1 + V * (K - 1)) * (1 + W * (K - 1)))).
    { apply Qle_shift_div_l; [exact DD|]. rewrite Qmult_0_l.
      apply Qmult_le_0_compat; [apply Qmult_le_0_compat; assumption|lra]. }
    lra.
  - intros Hz' HK1.
    assert (SQ' : 0 < (K - 1) * (K - 1)).
    { destruct (Qlt_le_dec K 1) as [L|L].
      - assert (R : (K - 1) * (K - 1) == (1 - K) * (1 - K)) by ring. rewrite R. apply Qmult_lt_0_compat; lra.
      - assert (1 < K) by (destruct (Qeq_dec K 1); [contradiction|lra]). apply Qmult_lt_0_compat; lra. }
    assert (0 < z * ((K - 1) * (K - 1)) * (W - V) / ((1 + V * (K - 1)) * (1 + W * (K - 1)))).
    { apply Qlt_shift_div_l; [exact DD|]. rewrite Qmult_0_l.
      apply Qmult_lt_0_compat; [apply Qmult_lt_0_compat; assumption|lra]. }
    lra.
Qed.

Lemma rr_monotone_lemma zs : forall Ks V W, 0 <= V -> V < W -> W <= 1 ->
  (forall i, 0 <= nthq zs i) -> (forall i, (i < length Ks)%nat -> 0 < nthq Ks i) ->
  rr zs Ks W <= rr zs Ks V /\
  ((exists i, (i < length zs)%nat /\ (i < length Ks)%nat /\ 0 < nthq zs i /\ ~ nthq Ks i == 1) ->
   rr zs Ks W < rr zs Ks V).
Proof.
  induction zs as [|z zs IH]; intros Ks V W HV HVW HW Hz HK.
  - unfold rr, qsum; simpl. split; [lra|]. intros (i & L & _). simpl in L. lia.
  - destruct Ks as [|K Ks].
    + unfold rr, qsum; simpl. split; [lra|]. intros (i & _ & L & _). simpl in L. lia.
    + unfold rr, qsum in *. cbn [map2 fold_right].
      assert (Hz0 : 0 <= z) by (apply (Hz 0%nat)).
      assert (HK0 : 0 < K) by (apply (HK 0%nat); simpl; lia).
      destruct (rr_term_mono V W z K HV HVW HW Hz0 HK0) as (T1 & T2).
      destruct (IH Ks V W HV HVW HW (fun i => Hz (S i)) (fun i L => HK (S i) ltac:(simpl; lia))) as (I1 & I2).
      split; [lra|].
      intros (i & L1 & L2 & P1 & P2). destruct i as [|i].
      * unfold nthq in P1, P2; simpl in P1, P2. specialize (T2 P1 P2). lra.
      * assert (rr_lt : fold_right Qplus 0 (map2 (rr_term W) zs Ks) < fold_right Qplus 0 (map2 (rr_term V) zs Ks)).
        { apply I2. exists i. simpl in L1, L2. repeat split; try lia; assumption. }
        lra.
Qed.

(* hence at most one root in [0, 1] *)
Lemma rr_unique_lemma zs Ks V W : 0 <= V <= 1 -> 0 <= W <= 1 ->
  (forall i, 0 <= nthq zs i) -> (forall i, (i < length Ks)%nat -> 0 < nthq Ks i) ->
  (exists i, (i < length zs)%nat /\ (i < length Ks)%nat /\ 0 < nthq zs i /\ ~ nthq Ks i == 1) ->
  rr zs Ks V == 0 -> rr zs Ks W == 0 -> V == W.
Proof.
  intros HV HW Hz HK Hex RV RW.
  destruct (Qlt_le_dec V W) as [L|L].
  - destruct (rr_monotone_lemma zs Ks V W ltac:(lra) L ltac:(lra) Hz HK) as (_ & S). specialize (S Hex). lra.
  - destruct (Qlt_le_dec W V) as [L'|L']; [|lra].
    destruct (rr_monotone_lemma zs Ks W V ltac:(lra) L' ltac:(lra) Hz HK) as (_ & S). specialize (S Hex). lra.
Qed.

(* ------------------------------------------------------------------ T,P: phase-boundary decision *)
Lemma nzb_false_iff x : nzb x = false <-> x == 0.
Proof. unfold nzb. rewrite negb_false_iff. apply qzerob_true. Qed.

Lemma TP_boundary_lemma cf orc T P st s c : setup cf st = SOk s c -> (2 <= cN c)%nat ->
  let s0 := with_P (with_T s T) P in
  let Pd := fst (o_dew orc 0 T) in
  let Pb := fst (o_bubble orc 1 T) in
  (P <= Pd /\ Fheavy c == 0 -> vle cf orc (SpTP T P) st = VOk (all_vap c s0)) /\
  (~ (P <= Pd /\ Fheavy c == 0) -> Pb <= P /\ Flight c == 0 -> vle cf orc (SpTP T P) st = VOk (all_liq c s0)) /\
  (~ (P <= Pd /\ Fheavy c == 0) -> ~ (Pb <= P /\ Flight c == 0) ->
   forall st', vle cf orc (SpTP T P) st = VOk st' -> st' = set_flows c (clipv (o_v orc 2 T P) (molv c)) s0).
Proof.
  intros E HN s0 Pd Pb.
  assert (N0 : Nat.eqb (cN c) 0 = false) by (apply Nat.eqb_neq; lia).
  assert (N1 : Nat.eqb (cN c) 1 = false) by (apply Nat.eqb_neq; lia).
  unfold vle, vle_call, set_TP. cbn [ms mk]. rewrite E. cbn [ms mset mk]. rewrite N0, N1.
  unfold call_dew, call_bubble, call_dew_n, call_bubble_n, solve_v. cbn [ms mset mk tick fst snd].
  subst Pd Pb. destruct (o_dew orc 0 T) as [Pd xd]. destruct (o_bubble orc 1 T) as [Pb yb]. cbn [fst snd ms mset mk tick].
  fold s0.
  destruct (qleb P Pd && negb (nzb (Fheavy c))) eqn:C1.
  - apply andb_prop in C1. destruct C1 as (A & B). apply qleb_true in A. apply negb_true_iff in B. apply nzb_false_iff in B.
    cbn [catch_noeq ms]. repeat split; auto; intros; tauto.
  - assert (NC1 : ~ (P <= Pd /\ Fheavy c == 0)).
    { intros (A & B). apply qleb_true in A. apply nzb_false_iff in B. rewrite A, B in C1. discriminate. }
    destruct (qleb Pb P && negb (nzb (Flight c))) eqn:C2.
    + apply andb_prop in C2. destruct C2 as (A & B). apply qleb_true in A. apply negb_true_iff in B. apply nzb_false_iff in B.
      cbn [catch_noeq ms]. repeat split; auto; intros; tauto.
    + assert (NC2 : ~ (Pb <= P /\ Flight c == 0)).
      { intros (A & B). apply qleb_true in A. apply nzb_false_iff in B. rewrite A, B in C2. discriminate. }
      repeat split; try tauto. intros _ _ st'.
      destruct (refresh_K_raises c _ _ _); cbn [catch_noeq ms mset]; intros H; inversion H. reflexivity.
Qed.

(* ------------------------------------------------------------------ P,V / T,V: what the bracketing branch writes *)
(* one evaluation of _V_err_at_P (T,V: at the specified T and the pressure x) / _V_err_at_T (P,V) *)
Definition xv_eval (orc : oracle) (c : ctx) (isT : bool) (a : Q) (t : nat) (x : Q) : vec :=
  clipv (if isT then o_v orc t a x else o_v orc t x a) (molv c).
Definition xv_a (isT : bool) (m : mach) : Q := if isT then sT (ms m) else sP (ms m).
(* the (shifted) bubble / dew bounds of the bracket *)
Definition xv_Xb (orc : oracle) (c : ctx) (a : Q) (k : nat) : Q :=
  let X := fst (o_bubble orc k a) in if nzb (Flight c) then c_01 * o_lim_light orc + c_09 * X else X.
Definition xv_Xd (orc : oracle) (c : ctx) (a : Q) (k : nat) : Q :=
  let X := fst (o_dew orc (S k) a) in if nzb (Fheavy c) then c_01 * o_lim_heavy orc + c_09 * X else X.

Lemma evals_v_last orc c isT a pts : forall m vl,
  mk (fst (evals_v orc c isT a pts m vl)) = (mk m + length pts)%nat /\
  snd (evals_v orc c isT a pts m vl) =
    match pts with [] => vl | _ :: _ => xv_eval orc c isT a (mk m + length pts - 1)%nat (last pts 0) end.
Proof.
  induction pts as [|x t IH]; intros m vl; cbn [evals_v length fst snd].
  - split; [lia|reflexivity].
  - assert (S1 : (if isT then solve_v orc c a x m else solve_v orc c x a m) = (tick m, xv_eval orc c isT a (mk m) x))
      by (unfold xv_eval, solve_v; destruct isT; reflexivity).
    rewrite S1. destruct (IH (tick m) (xv_eval orc c isT a (mk m) x)) as (A & B).
    rewrite A, B. cbn [tick mk]. split; [lia|].
    destruct t as [|y t]; [cbn [length last]; f_equal; lia|].
    cbn [length]. replace (last (x :: y :: t) 0) with (last (y :: t) 0) by reflexivity. f_equal. lia.
Qed.

(* the vapour flows of the last _solve_v call before set_flows in the bracketing branch:
   the last evaluation flexsolve made (at its last evaluation point), or the dew-side evaluation if it made none *)
Definition xv_last (orc : oracle) (c : ctx) (isT : bool) (a : Q) (k : nat) : vec :=
  match fst (o_iq orc (k + 4)%nat) with
  | [] => xv_eval orc c isT a (k + 3)%nat (xv_Xd orc c a k)
  | pts => xv_eval orc c isT a (k + 4 + length pts)%nat (last pts 0)
  end.

Lemma PV_flows_lemma orc c isT V0 m m' :
  let V := adj_V c V0 in
  let k := mk m in
  let a := xv_a isT m in
  let Vb := qsum (xv_eval orc c isT a (k + 2)%nat (xv_Xb orc c a k)) / Fvle c in
  let Vd := qsum (xv_eval orc c isT a (k + 3)%nat (xv_Xd orc c a k)) / Fvle c in
  ~ V == 1 -> ~ V == 0 -> Vb <= V -> V <= Vd ->
  set_XV_multi orc c isT V0 m = VOk m' ->
  ms m' = set_flows c (xv_last orc c isT a k) (set_other isT (ms m) (snd (o_iq orc (k + 4)%nat))) /\
  mk m' = (k + 6 + length (fst (o_iq orc (k + 4)%nat)))%nat.
Proof.
  intros V k a Vb Vd H1 H0 HB HD. subst k.
  unfold set_XV_multi. fold V. fold (xv_a isT m). fold a.
  assert (E1 : qeqb V 1 = false) by (destruct (qeqb V 1) eqn:E; auto; apply qeqb_true in E; contradiction).
  assert (E0 : qeqb V 0 = false) by (destruct (qeqb V 0) eqn:E; auto; apply qeqb_true in E; contradiction).
  cbv zeta. rewrite E1, E0. cbn [andb].
  unfold call_bubble, call_dew, call_bubble_n, call_dew_n. cbn [ms mset mk tick fst snd].
  unfold Vb, Vd, xv_last, xv_Xb, xv_Xd in *.
  destruct (o_bubble orc (mk m) a) as [Xb yb]. destruct (o_dew orc (S (mk m)) a) as [Xd xd]. cbn [fst snd] in *.
  destruct (refresh_K_raises c V _ _); [intros E; inversion E|].
  set (Xb' := if nzb (Flight c) then c_01 * o_lim_light orc + c_09 * Xb else Xb) in *.
  set (Xd' := if nzb (Fheavy c) then c_01 * o_lim_heavy orc + c_09 * Xd else Xd) in *.
  assert (S1 : forall x mm, (if isT then solve_v orc c a x mm else solve_v orc c x a mm) = (tick mm, xv_eval orc c isT a (mk mm) x))
    by (intros; unfold xv_eval, solve_v; destruct isT; reflexivity).
  rewrite S1. cbn [tick mk].
  replace (S (S (mk m))) with (mk m + 2)%nat by lia.
  assert (C1 : qltb V (qsum (xv_eval orc c isT a (mk m + 2) Xb') / Fvle c) = false) by (apply qltb_false; exact HB). rewrite C1.
  rewrite S1. cbn [tick mk]. replace (S (S (S (S (mk m))))) with (mk m + 4)%nat by lia.
  replace (S (S (S (mk m)))) with (mk m + 3)%nat by lia.
  assert (C2 : qltb (qsum (xv_eval orc c isT a (mk m + 3) Xd') / Fvle c) V = false) by (apply qltb_false; exact HD). rewrite C2.
  destruct (o_iq orc (mk m + 4)%nat) as [pts X] eqn:EQ. cbn [fst snd].
  match goal with |- context [evals_v orc c isT a pts ?m0 ?v0] =>
    destruct (evals_v_last orc c isT a pts m0 v0) as (A & B);
    pose proof (evals_v_ms' orc c isT a pts m0 v0) as C;
    destruct (evals_v orc c isT a pts m0 v0) as [m1 v1] end.
  cbn [fst snd mk tick ms mset] in A, B, C.
  intros E; inversion E; subst m'; clear E. cbn [ms mset tick mk].
  rewrite C. cbn [ms mset]. split.
  - f_equal. rewrite B. destruct pts as [|p pts]; [reflexivity|]. cbn [length]. f_equal. lia.
  - rewrite A. lia.
Qed.

(* ------------------------------------------------------------------ P,H: the correction reproduces H when H is linear in the flows *)
Lemma clamp_mid x : qeqb (clamp_f x) 0 = false -> qeqb (clamp_f x) 1 = false -> clamp_f x = x.
Proof.
  unfold clamp_f. destruct (qltb x 0); [intros A; discriminate|].
  destruct (qltb 0 x); [|intros A; discriminate].
  destruct (qltb 1 x); [intros _ A; discriminate|reflexivity].
Qed.

Lemma veq_scatter_add (c : ctx) (a b : vec) (f : Q) :
  NoDup (idx c) -> (forall i, In i (idx c) -> (i < length a)%nat) -> length a = length b ->
  veq (scatter (idx c) (vadd (gather (idx c) a) (vscale f (gather (idx c) (only_idx c b)))) a)
      (vadd a (vscale f (only_idx c b))) /\
  veq (scatter (idx c) (vsub (gather (idx c) a) (vscale f (gather (idx c) (only_idx c b)))) a)
      (vsub a (vscale f (only_idx c b))).
Proof.
  intros ND RG L.
  assert (Lo : length (only_idx c b) = length b) by (unfold only_idx; rewrite map_length, seq_length; reflexivity).
  assert (Lg : length (vscale f (gather (idx c) (only_idx c b))) = length (gather (idx c) a))
    by (rewrite vscale_length, !gather_length; reflexivity).
  assert (Ls : length a = length (vscale f (only_idx c b))) by (rewrite vscale_length; congruence).
  assert (PT : forall k, (k < length a)%nat ->
     match pos k (idx c) with Some p => nthq (gather (idx c) a) p = nthq a k /\
        nthq (gather (idx c) (only_idx c b)) p = nthq (only_idx c b) k
     | None => nthq (only_idx c b) k = 0 end).
  { intros k Hk. destruct (pos k (idx c)) as [p|] eqn:E.
    - apply pos_some in E. destruct E as (Hp & Hn). rewrite !nthq_gather by exact Hp. rewrite Hn. auto.
    - unfold only_idx. rewrite nthq_map_seq by lia. rewrite E. reflexivity. }
  split; split.
  - rewrite scatter_length. unfold vadd. rewrite map2_length; auto.
  - intros k. destruct (Nat.lt_ge_cases k (length a)) as [Hk|Hk].
    + rewrite nthq_scatter by exact Hk. rewrite (nthq_vadd a) by exact Ls. rewrite nthq_vscale.
      specialize (PT k Hk). destruct (pos k (idx c)) as [p|].
      * destruct PT as (A & B). rewrite nthq_vadd by (symmetry; exact Lg). rewrite nthq_vscale, A, B. reflexivity.
      * rewrite PT. lra.
    + rewrite !nthq_over; [reflexivity| |]. unfold vadd; rewrite map2_length; auto. rewrite scatter_length; exact Hk.
  - rewrite scatter_length. unfold vsub. rewrite map2_length; auto.
  - intros k. destruct (Nat.lt_ge_cases k (length a)) as [Hk|Hk].
    + rewrite nthq_scatter by exact Hk. rewrite (nthq_vsub a) by exact Ls. rewrite nthq_vscale.
      specialize (PT k Hk). destruct (pos k (idx c)) as [p|].
      * destruct PT as (A & B). rewrite nthq_vsub by (symmetry; exact Lg). rewrite nthq_vscale, A, B. reflexivity.
      * rewrite PT. lra.
    + rewrite !nthq_over; [reflexivity| |]. unfold vsub; rewrite map2_length; auto. rewrite scatter_length; exact Hk.
Qed.

Section PHLinear.
Variable orc : oracle.
Variable c : ctx.
Variables T P : Q.
Variables HL HG : vec -> Q.      (* enthalpy of a liquid / gas flow vector at (T, P) *)
Variable HR : list vec -> Q.     (* contribution of the other phases *)
Hypothesis HL_ext : forall a b, veq a b -> HL a == HL b.
Hypothesis HG_ext : forall a b, veq a b -> HG a == HG b.
Hypothesis HL_add : forall a b f, length a = length b -> HL (vadd a (vscale f b)) == HL a + f * HL b.
Hypothesis HL_sub : forall a b f, length a = length b -> HL (vsub a (vscale f b)) == HL a - f * HL b.
Hypothesis HG_add : forall a b f, length a = length b -> HG (vadd a (vscale f b)) == HG a + f * HG b.
Hypothesis HG_sub : forall a b f, length a = length b -> HG (vsub a (vscale f b)) == HG a - f * HG b.
Hypothesis xH_lin : forall k s, o_xH orc k s T P == HL (liq s) + HG (vap s) + HR (oth s).
Hypothesis Hp_l : forall k mol, o_Hp orc k false mol T P == HL mol.
Hypothesis Hp_g : forall k mol, o_Hp orc k true mol T P == HG mol.

Definition H_of (s : vst) : Q := HL (liq s) + HG (vap s) + HR (oth s).

Lemma correct_exact_lemma H m :
  wf (ms m) -> NoDup (idx c) -> (forall i, In i (idx c) -> (i < length (liq (ms m)))%nat) ->
  let m' := correct orc c T P H m in
  (H_of (ms m') == H /\ sT (ms m') = T) \/
  (exists k s, ms m' = with_T s (o_solveT orc k s H T P)).
Proof.
  intros W ND RG. unfold correct, call_Hp, call_xH, call_solveT. cbn [ms mset tick mk fst snd].
  set (s := with_T (ms m) T).
  assert (Ws : length (liq s) = length (vap s)) by exact W.
  assert (RGv : forall i, In i (idx c) -> (i < length (vap s))%nat) by (intros i Hi; rewrite <- Ws; apply RG; exact Hi).
  destruct (qltb H (o_xH orc (S (S (mk m))) s T P)) eqn:C.
  - (* condense *)
    match goal with |- context [qzerob ?hc] => set (Hc := hc) end.
    destruct (qzerob Hc) eqn:Z; cbn [fst snd ms mset tick mk].
    { right. eexists. eexists. reflexivity. }
    apply qzerob_false in Z.
    match goal with |- context [clamp_f ?x0] => set (x := x0); set (f := clamp_f x) end.
    destruct (qltb 0 f) eqn:F0; cbn [fst snd ms mset tick mk].
    2:{ pose proof (clamp_f_01 x) as B. fold f in B. apply qltb_false in F0.
        assert (E0 : qeqb f 0 = true) by (apply qeqb_true; lra). rewrite E0. cbn [orb].
        right. eexists. eexists. reflexivity. }
    destruct (qeqb f 0 || qeqb f 1) eqn:F1; cbn [fst snd ms mset tick mk].
    { right. eexists. eexists. reflexivity. }
    left. apply orb_false_iff in F1. destruct F1 as (F1 & F2).
    assert (Ef : f = x) by (apply clamp_mid; assumption).
    split; [|reflexivity].
    unfold H_of, write2. cbn [liq vap oth with_flows].
    destruct (veq_scatter_add c (liq s) (vap s) f ND RG Ws) as (VA & _).
    destruct (veq_scatter_add c (vap s) (vap s) f ND RGv eq_refl) as (_ & VS).
    rewrite (HL_ext _ _ VA), (HG_ext _ _ VS).
    assert (Lo : length (only_idx c (vap s)) = length (vap s)) by (unfold only_idx; rewrite map_length, seq_length; reflexivity).
    rewrite HL_add by congruence. rewrite HG_sub by congruence.
    assert (FX : f * Hc == H - o_xH orc (S (S (mk m))) s T P) by (rewrite Ef; unfold x; field; exact Z).
    unfold Hc in FX. rewrite Hp_l, Hp_g in FX. rewrite xH_lin in FX. lra.
  - (* vaporise *)
    match goal with |- context [qzerob ?hc] => set (Hc := hc) end.
    destruct (qzerob Hc) eqn:Z; cbn [fst snd ms mset tick mk].
    { right. eexists. eexists. reflexivity. }
    apply qzerob_false in Z.
    match goal with |- context [clamp_f ?x0] => set (x := x0); set (f := clamp_f x) end.
    destruct (qltb 0 f) eqn:F0; cbn [fst snd ms mset tick mk].
    2:{ pose proof (clamp_f_01 x) as B. fold f in B. apply qltb_false in F0.
        assert (E0 : qeqb f 0 = true) by (apply qeqb_true; lra). rewrite E0. cbn [orb].
        right. eexists. eexists. reflexivity. }
    destruct (qeqb f 0 || qeqb f 1) eqn:F1; cbn [fst snd ms mset tick mk].
    { right. eexists. eexists. reflexivity. }
    left. apply orb_false_iff in F1. destruct F1 as (F1 & F2).
    assert (Ef : f = x) by (apply clamp_mid; assumption).
    split; [|reflexivity].
    unfold H_of, write2. cbn [liq vap oth with_flows].
    destruct (veq_scatter_add c (liq s) (liq s) f ND RG eq_refl) as (_ & VS).
    destruct (veq_scatter_add c (vap s) (liq s) f ND RGv (eq_sym Ws)) as (VA & _).
    rewrite (HL_ext _ _ VS), (HG_ext _ _ VA).
    assert (Lo : length (only_idx c (liq s)) = length (liq s)) by (unfold only_idx; rewrite map_length, seq_length; reflexivity).
    rewrite HL_sub by congruence. rewrite HG_add by congruence.
    assert (FX : f * Hc == H - o_xH orc (S (S (mk m))) s T P) by (rewrite Ef; unfold x; field; exact Z).
    unfold Hc in FX. rewrite Hp_l, Hp_g in FX. rewrite xH_lin in FX. lra.
Qed.
End PHLinear.

(* set_PH / set_PS with several chemicals end either in xsolve_T_at_HP/SP on the final flows or in [correct] *)
Ltac red0 := cbn [ms mset tick mk fst snd om].
Ltac rauto := repeat first [ assumption | apply r_T | apply r_P | apply reach_all_vap | apply reach_all_liq
                           | apply reach_solve_flows | apply r_refl ].
Lemma set_PH_shape cf orc ent P H m m' s1 c :
  wf (ms m) -> setup cf (ms m) = SOk s1 c -> (2 <= cN c)%nat ->
  set_PH cf orc ent P H m = VOk m' ->
  (exists k s Tg, ms m' = with_T s (o_solveT orc k s H Tg P)) \/
  (exists T m0, m' = correct orc c T P H m0 /\ reach False c s1 (ms m0)).
Proof.
  intros W E HN.
  destruct (setup_ok cf _ s1 c W E) as (_ & WC & _). pose proof WC as (L & _).
  assert (N0 : Nat.eqb (cN c) 0 = false) by (apply Nat.eqb_neq; lia).
  assert (N1 : Nat.eqb (cN c) 1 = false) by (apply Nat.eqb_neq; lia).
  unfold set_PH. rewrite E. red0. rewrite N0, N1.
  unfold call_dew, call_bubble, call_dew_n, call_bubble_n, call_xH, call_solveT. red0.
  destruct (o_bubble orc (mk m) _) as [Tb yb]; red0.
  repeat brk; red0; try (intros Q; inversion Q; subst; red0; left; eexists; eexists; eexists; reflexivity).
  all: destruct (o_dew orc _ _) as [Td xd]; red0.
  all: repeat brk; red0; try (intros Q; inversion Q; subst; red0; left; eexists; eexists; eexists; reflexivity).
  all: repeat match goal with
       | |- context [herr_eval ?o ?c0 ?T0 ?P0 ?m0] =>
         let m' := fresh "m'" in let h := fresh "h" in let EV := fresh "EV" in
         pose proof (herr_eval_reach False c0 o s1 L T0 P0 m0);
         destruct (herr_eval o c0 T0 P0 m0) as [m' h] eqn:EV; cbn [fst snd] in *
       end.
  all: repeat brk; red0.
  all: try (destruct (o_iq orc _) as [pts Tx]; red0).
  all: intros Q; inversion Q; subst; right; eexists; eexists; (split; [reflexivity|]).
  all: try (apply evals_h_reach; auto; red0).
  all: repeat match goal with
       | HH : reach _ _ _ _ -> reach _ _ _ (ms ?x) |- reach _ _ _ (ms ?x) => apply HH
       | |- reach _ _ _ (ms (fst (herr_eval _ _ _ _ _))) => apply herr_eval_reach; auto
       end.
  all: red0; rauto.
Qed.

Section PHTop.
Variable orc : oracle.
Variable P : Q.
Variables HL HG : Q -> vec -> Q.      (* T |-> enthalpy of a liquid / gas flow vector at (T, P) *)
Variable HR : Q -> list vec -> Q.
Hypothesis HL_ext : forall T a b, veq a b -> HL T a == HL T b.
Hypothesis HG_ext : forall T a b, veq a b -> HG T a == HG T b.
Hypothesis HL_add : forall T a b f, length a = length b -> HL T (vadd a (vscale f b)) == HL T a + f * HL T b.
Hypothesis HL_sub : forall T a b f, length a = length b -> HL T (vsub a (vscale f b)) == HL T a - f * HL T b.
Hypothesis HG_add : forall T a b f, length a = length b -> HG T (vadd a (vscale f b)) == HG T a + f * HG T b.
Hypothesis HG_sub : forall T a b f, length a = length b -> HG T (vsub a (vscale f b)) == HG T a - f * HG T b.
Hypothesis xH_lin : forall T k s, o_xH orc k s T P == HL T (liq s) + HG T (vap s) + HR T (oth s).
Hypothesis Hp_l : forall T k mol, o_Hp orc k false mol T P == HL T mol.
Hypothesis Hp_g : forall T k mol, o_Hp orc k true mol T P == HG T mol.

Lemma PH_exact_linear_lemma cf ent H st s1 c m' :
  wf st -> setup cf st = SOk s1 c -> (2 <= cN c)%nat ->
  set_PH cf orc ent P H (mkm st 0) = VOk m' ->
  (HL (sT (ms m')) (liq (ms m')) + HG (sT (ms m')) (vap (ms m')) + HR (sT (ms m')) (oth (ms m')) == H) \/
  (exists k s Tg, ms m' = with_T s (o_solveT orc k s H Tg P)).
Proof.
  intros W E HN Q.
  destruct (set_PH_shape cf orc ent P H (mkm st 0) m' s1 c W E HN Q) as [S|(T & m0 & -> & R)]; [right; exact S|].
  destruct (setup_ok cf _ s1 c W E) as (_ & WC & _).
  pose proof (reach_good False c s1 _ WC R) as (G1 & G2 & _).
  destruct WC as (W1 & W2 & W3 & W4 & W5).
  assert (Wm : wf (ms m0)) by (unfold wf in *; congruence).
  assert (RG : forall i, In i (idx c) -> (i < length (liq (ms m0)))%nat) by (intros i Hi; rewrite G1; apply W3; exact Hi).
  destruct (correct_exact_lemma orc c T P (HL T) (HG T) (HR T) (HL_ext T) (HG_ext T) (HL_add T) (HL_sub T)
              (HG_add T) (HG_sub T) (xH_lin T) (Hp_l T) (Hp_g T) H m0 Wm W2 RG) as [(A & B)|(k & s & S)].
  - left. rewrite B. exact A.
  - right. exists k, s, T. exact S.
Qed.
End PHTop.

(* an instance of the linearity hypotheses (for the non-vacuity example) *)
Lemma qsum_veq a : forall b, veq a b -> qsum a == qsum b.
Proof.
  induction a as [|x a IH]; intros [|y b] (L & H); simpl in *; try discriminate; [reflexivity|].
  assert (x == y) by (apply (H 0%nat)).
  assert (qsum a == qsum b) by (apply IH; split; [lia|intros i; apply (H (S i))]). lra.
Qed.
Lemma qsum_add a : forall b f, length a = length b -> qsum (vadd a (vscale f b)) == qsum a + f * qsum b.
Proof.
  induction a as [|x a IH]; intros [|y b] f L; simpl in *; try discriminate; [lra|].
  rewrite IH by lia. lra.
Qed.
Lemma qsum_sub a : forall b f, length a = length b -> qsum (vsub a (vscale f b)) == qsum a - f * qsum b.
Proof.
  induction a as [|x a IH]; intros [|y b] f L; simpl in *; try discriminate; [lra|].
  rewrite IH by lia. lra.
Qed.

(* ------------------------------------------------------------------ the kernels generated from the source are the model *)
Lemma generated_kernels_agree :
  g_compute_phase_fraction_2N = rr2v /\ g_xy = xyn /\ g_xVlogK_iter_2n = iter2n /\ g_xVlogK_iter = itern.
Proof. repeat split; reflexivity. Qed.

(* ------------------------------------------------------------------ exact fixed points of the iteration maps *)
Definition wn_eq (a b : wn) : Prop := veq (nx a) (nx b) /\ nV a == nV b /\ veq (nl a) (nl b).

Lemma clipK_ge k : c_1e16 <= clipK k.
Proof. unfold clipK. destruct (qltb k c_1e16) eqn:E; [lra|apply qltb_false in E; exact E]. Qed.

Lemma nthq_map_lt (f : Q -> Q) l i : (i < length l)%nat -> nthq (map f l) i = f (nthq l i).
Proof.
  unfold nthq. revert i; induction l as [|x l IH]; intros [|i] H; simpl in *; try lia; auto. apply IH. lia.
Qed.

Lemma guard_v_ok {A} d (k : res A) r : guard_v d k = Ok r -> existsb qzerob d = false /\ k = Ok r.
Proof. unfold guard_v. destruct (existsb qzerob d); [discriminate|auto]. Qed.
Lemma guard_s_ok {A} d (k : res A) r : guard_s d k = Ok r -> ~ d == 0 /\ k = Ok r.
Proof. unfold guard_s. destruct (qzerob d) eqn:E; [discriminate|]. apply qzerob_false in E. auto. Qed.

Lemma existsb_zero_false d i : existsb qzerob d = false -> (i < length d)%nat -> ~ nthq d i == 0.
Proof.
  intros H Hi Z.
  assert (F : existsb qzerob d = true) by (apply existsb_exists; exists (nthq d i); split; [apply nth_In; exact Hi|apply qzerob_true; exact Z]).
  congruence.
Qed.

Lemma new_Ks_ge fg fp pcf x y T P i : (i < length (new_Ks fg fp pcf x y T P))%nat ->
  c_1e16 <= nthq (new_Ks fg fp pcf x y T P) i.
Proof.
  unfold new_Ks, mask_lt. intros Hi. rewrite map_length in Hi. rewrite nthq_map_lt by exact Hi.
  apply (clipK_ge (nthq (map2 Qdiv (vmul pcf (fg x T)) (fp y T P)) i)).
Qed.

(* the part common to both maps: at a fixed point  exp(lnK) = K_new  componentwise *)
Lemma fix_K E L (Ks : vec) (lw : vec) :
  (forall a b, a == b -> E a == E b) -> (forall k, c_1e16 <= k -> E (L k) == k) ->
  (forall i, (i < length Ks)%nat -> c_1e16 <= nthq Ks i) ->
  veq (map L Ks) lw -> veq (map E lw) Ks.
Proof.
  intros EP EL GE (L3 & P3). rewrite map_length in L3. split; [rewrite map_length; congruence|].
  intros i. destruct (Nat.lt_ge_cases i (length Ks)) as [Hi|Hi].
  - rewrite nthq_map_lt by lia. specialize (P3 i). rewrite nthq_map_lt in P3 by exact Hi.
    apply (Qeq_trans _ (E (L (nthq Ks i)))); [symmetry; apply EP; exact P3|apply EL; apply GE; exact Hi].
  - rewrite !nthq_over; [reflexivity|exact Hi|rewrite map_length; lia].
Qed.

Lemma fix_iso_n_lemma E L fg fp rrsolve w pcf T P z zl zh w' :
  (forall a b, a == b -> E a == E b) -> (forall k, c_1e16 <= k -> E (L k) == k) ->
  itern E L fg fp rrsolve w pcf T P z zl zh = Ok w' -> wn_eq w' w ->
  exists x y Ks V,
    xyn (nx w) (map E (nl w)) = Ok (x, y) /\
    Ks = new_Ks fg fp pcf x y T P /\
    veq (map E (nl w)) Ks /\
    V = rrsolve z Ks (clamp01 (nV w)) zl zh /\ nV w == V /\
    veq (nx w) (map2 Qdiv z (rr_den V Ks)) /\
    (forall i, (i < length Ks)%nat -> ~ nthq (rr_den V Ks) i == 0).
Proof.
  intros EP EL H (Q1 & Q2 & Q3). unfold itern in H. cbv zeta in H.
  destruct (xyn (nx w) (map E (nl w))) as [[x y]|e] eqn:EX; [|discriminate]. cbn [bind fst snd] in H.
  apply guard_v_ok in H. destruct H as (_ & H).
  apply guard_v_ok in H. destruct H as (Z & H).
  inversion H; subst w'; clear H. cbn [nx nV nl] in *.
  set (Ks := new_Ks fg fp pcf x y T P) in *.
  set (V := rrsolve z Ks (clamp01 (nV w)) zl zh) in *.
  exists x, y, Ks, V. repeat split; auto.
  - destruct (fix_K E L Ks (nl w) EP EL (new_Ks_ge fg fp pcf x y T P) Q3) as (A & _). exact A.
  - destruct (fix_K E L Ks (nl w) EP EL (new_Ks_ge fg fp pcf x y T P) Q3) as (_ & B). exact B.
  - symmetry. exact Q2.
  - destruct Q1 as (A & _). symmetry. exact A.
  - intros i. destruct Q1 as (_ & B). symmetry. apply B.
  - intros i Hi. apply existsb_zero_false; [exact Z|]. unfold rr_den. rewrite !map_length. exact Hi.
Qed.

Lemma fix_iso_2n_lemma E L fg fp w pcf T P z w' :
  (forall a b, a == b -> E a == E b) -> (forall k, c_1e16 <= k -> E (L k) == k) ->
  iter2n E L fg fp w pcf T P z = Ok w' -> wn_eq w' w ->
  exists x y Ks V,
    xyn (nx w) (map E (nl w)) = Ok (x, y) /\
    Ks = new_Ks fg fp pcf x y T P /\
    veq (map E (nl w)) Ks /\
    rr2v z Ks = Ok V /\ nV w == V /\ rr z Ks V == 0 /\
    veq (nx w) (map2 Qdiv z (rr_den V Ks)) /\
    (qsum z == 1 -> qsum (nx w) == 1).
Proof.
  intros EP EL H (Q1 & Q2 & Q3). unfold iter2n in H. cbv zeta in H.
  destruct (xyn (nx w) (map E (nl w))) as [[x y]|e] eqn:EX; [|discriminate]. cbn [bind fst snd] in H.
  apply guard_v_ok in H. destruct H as (_ & H).
  set (Ks := new_Ks fg fp pcf x y T P) in *.
  destruct (rr2v z Ks) as [V|e] eqn:ER; [|discriminate]. cbn [bind] in H.
  apply guard_v_ok in H. destruct H as (Z & H).
  inversion H; subst w'; clear H. cbn [nx nV nl] in *.
  exists x, y, Ks, V.
  pose proof (fix_K E L Ks (nl w) EP EL (new_Ks_ge fg fp pcf x y T P) Q3) as FK.
  (* z and Ks have two entries *)
  unfold rr2v, unpack2 in ER.
  destruct z as [|z1 [|z2 [|? ?]]]; try discriminate.
  destruct Ks as [|K1 [|K2 [|? ?]]] eqn:EK; try discriminate.
  assert (D1 : ~ 1 + V * (K1 - 1) == 0) by (apply (existsb_zero_false _ 0%nat Z); simpl; lia).
  assert (D2 : ~ 1 + V * (K2 - 1) == 0) by (apply (existsb_zero_false _ 1%nat Z); simpl; lia).
  assert (R : rr [z1; z2] [K1; K2] V == 0) by (apply rr2_solves_lemma; assumption).
  split; [reflexivity|]. split; [symmetry; exact EK|]. split; [exact FK|]. split; [exact ER|].
  split; [symmetry; exact Q2|]. split; [exact R|].
  split; [destruct Q1 as (A & B); split; [symmetry; exact A|intros i; symmetry; apply B]|].
  intros S. unfold qsum in S. cbn [fold_right] in S.
  rewrite <- (qsum_veq _ _ Q1). unfold rr_den. cbn [map map2 qsum fold_right].
  unfold rr, qsum in R. cbn [map2 fold_right] in R. unfold rr_term in R.
  assert (A : z1 / (1 + V * (K1 - 1)) == z1 - V * (z1 * (K1 - 1) / (1 + V * (K1 - 1)))) by (field; exact D1).
  assert (B : z2 / (1 + V * (K2 - 1)) == z2 - V * (z2 * (K2 - 1) / (1 + V * (K2 - 1)))) by (field; exact D2).
  unfold qsum. cbn [fold_right]. rewrite A, B.
  assert (C : V * (z1 * (K1 - 1) / (1 + V * (K1 - 1))) + V * (z2 * (K2 - 1) / (1 + V * (K2 - 1))) ==
              V * (z1 * (K1 - 1) / (1 + V * (K1 - 1)) + (z2 * (K2 - 1) / (1 + V * (K2 - 1)) + 0))) by ring.
  rewrite R in C. lra.
Qed.

(* ------------------------------------------------------------------ the memoised equilibrium objects of VLE._setup *)
Lemma list_eqb_nat_eq a : forall b, list_eqb Nat.eqb a b = true -> a = b.
Proof.
  induction a as [|x a IH]; intros [|y b] H; simpl in H; try discriminate; auto.
  apply andb_prop in H. destruct H as (A & B). apply Nat.eqb_eq in A. f_equal; auto.
Qed.
Lemma key_eqb_eq (a b : C08.Model.key) : C08.Model.key_eqb a b = true -> a = b.
Proof.
  destruct a as [[[ca ga] pa] fa], b as [[[cb gb] pb] fb]. unfold C08.Model.key_eqb. intros H.
  apply andb_prop in H. destruct H as (H & F). apply andb_prop in H. destruct H as (H & P).
  apply andb_prop in H. destruct H as (C & G).
  apply list_eqb_nat_eq in C. apply Nat.eqb_eq in G. apply Nat.eqb_eq in P. apply Nat.eqb_eq in F. subst. reflexivity.
Qed.

Section CacheCoherent.
Context {A : Type} (build : C08.Model.key -> res A).
Definition cache_ok (c : C08.Model.cache A) : Prop :=
  forall k v, C08.Model.cache_find c k = Some v -> build k = Ok (snd v).

Lemma cache_new_ok st k : cache_ok (fst st) -> cache_ok (fst (snd (C08.Model.cache_new build st k))).
Proof.
  intros OK. unfold C08.Model.cache_new.
  destruct (C08.Model.cache_find (fst st) k) as [v|] eqn:E; [exact OK|].
  destruct (build k) as [a|e] eqn:B; [|exact OK].
  cbn [fst snd]. intros k' v' H. cbn [C08.Model.cache_find] in H.
  destruct (C08.Model.key_eqb k' k) eqn:K.
  - apply key_eqb_eq in K. subst k'. inversion H; subst. exact B.
  - apply OK. exact H.
Qed.

Lemma cache_run_ok ks : forall st, cache_ok (fst st) -> cache_ok (fst (snd (C08.Model.cache_run build st ks))).
Proof.
  induction ks as [|k t IH]; intros st OK; cbn [C08.Model.cache_run]; [exact OK|].
  cbn [snd]. apply IH. apply cache_new_ok. exact OK.
Qed.

Lemma cache_new_coherent ks k i a :
  fst (C08.Model.cache_new build (snd (C08.Model.cache_run build ([], 0%nat) ks)) k) = Ok (i, a) -> build k = Ok a.
Proof.
  pose proof (cache_run_ok ks ([], 0%nat)) as OK.
  assert (O0 : cache_ok (fst (([] : C08.Model.cache A), 0%nat))) by (intros k' v' H; discriminate).
  specialize (OK O0). unfold C08.Model.cache_new.
  destruct (C08.Model.cache_find _ k) as [v|] eqn:E.
  - cbn [fst]. intros H. inversion H; subst. apply OK in E. exact E.
  - destruct (build k) as [a'|e] eqn:B; cbn [fst]; intros H; inversion H; subst. reflexivity.
Qed.
End CacheCoherent.

Lemma setup_gamma_lemma ks cs g p f i a :
  fst (C08.Model.cache_new eq_build (snd (C08.Model.cache_run eq_build ([], 0%nat) ks)) (cs, g, p, f)) = Ok (i, a) ->
  a = (g, p, f).
Proof. intros H. apply cache_new_coherent in H. cbn [eq_build] in H. inversion H. reflexivity. Qed.

(* ------------------------------------------------------------------ homogeneity: the pieces that make the flash scale *)
Lemma qltb_scale k a b : 0 < k -> qltb (k * a) (k * b) = qltb a b.
Proof.
  intros K. destruct (qltb a b) eqn:E.
  - apply qltb_true in E. apply qltb_true. nra.
  - apply qltb_false in E. apply qltb_false. nra.
Qed.

Lemma clip1_scale k v m : 0 < k -> clip1 (k * v) (k * m) == k * clip1 v m.
Proof.
  intros K. unfold clip1. rewrite qltb_scale by exact K.
  destruct (qltb m v).
  - assert (E : qltb (k * m) 0 = qltb m 0).
    { destruct (qltb m 0) eqn:E.
      - apply qltb_true in E. apply qltb_true. nra.
      - apply qltb_false in E. apply qltb_false. nra. }
    rewrite E. destruct (qltb m 0); ring.
  - assert (E : qltb (k * v) 0 = qltb v 0).
    { destruct (qltb v 0) eqn:E.
      - apply qltb_true in E. apply qltb_true. nra.
      - apply qltb_false in E. apply qltb_false. nra. }
    rewrite E. destruct (qltb v 0); ring.
Qed.

Lemma rr2_scale k z1 z2 K1 K2 V : ~ k == 0 -> rr2 z1 z2 K1 K2 = Ok V ->
  exists V', rr2 (k * z1) (k * z2) K1 K2 = Ok V' /\ V' == V.
Proof.
  intros K H. unfold rr2 in *.
  destruct (qzerob (rr2_den z1 z2 K1 K2)) eqn:E; [discriminate|]. apply qzerob_false in E.
  injection H as HV.
  assert (D : rr2_den (k * z1) (k * z2) K1 K2 == k * rr2_den z1 z2 K1 K2) by (unfold rr2_den; ring).
  assert (N : rr2_num (k * z1) (k * z2) K1 K2 == k * rr2_num z1 z2 K1 K2) by (unfold rr2_num; ring).
  assert (ND : ~ rr2_den (k * z1) (k * z2) K1 K2 == 0).
  { rewrite D. intros Z. apply Qmult_integral in Z. tauto. }
  assert (E' : qzerob (rr2_den (k * z1) (k * z2) K1 K2) = false) by (apply qzerob_false; exact ND).
  rewrite E'. eexists. split; [reflexivity|].
  rewrite <- HV. rewrite D, N. field. split; assumption.
Qed.

Lemma rr_scale k zs : forall Ks V, rr (vscale k zs) Ks V == k * rr zs Ks V.
Proof.
  unfold rr, qsum. induction zs as [|z zs IH]; intros [|K Ks] V; cbn [vscale map map2 fold_right]; try ring.
  rewrite IH. unfold rr_term. unfold Qdiv. ring.
Qed.

(* ------------------------------------------------------------------ preconditions made explicit *)
(* P,H on a stream without any volatile chemical: _setup raises NoEquilibrium, __call__ stores P and returns; no oracle
   is consulted, T and the flows (up to the relocation of phase-locked chemicals) stay: the specified H is NOT applied *)
Lemma PH_no_volatile_lemma cf orc P H st s : setup cf st = SNoEq s ->
  vle cf orc (SpPH P H) st = VOk (with_P s P) /\ sT (with_P s P) = sT st.
Proof.
  intros E. unfold vle, vle_call, set_PH. cbn [ms]. rewrite E. cbn [catch_noeq ms mset]. split; [reflexivity|].
  destruct (setup_noeq cf st s E) as [->| ->]; reflexivity.
Qed.

(* P,V / T,V: when the bracketing solver returns its LAST evaluation point (flexsolve away from a "lucky guess" on a bound),
   the flows written are those evaluated AT the returned T (P) *)
Lemma PV_flows_at_returned_point_lemma orc c isT V0 m m' pts :
  let V := adj_V c V0 in
  let k := mk m in
  let a := xv_a isT m in
  let Vb := qsum (xv_eval orc c isT a (k + 2)%nat (xv_Xb orc c a k)) / Fvle c in
  let Vd := qsum (xv_eval orc c isT a (k + 3)%nat (xv_Xd orc c a k)) / Fvle c in
  ~ V == 1 -> ~ V == 0 -> Vb <= V -> V <= Vd ->
  fst (o_iq orc (k + 4)%nat) = pts -> pts <> [] -> snd (o_iq orc (k + 4)%nat) = last pts 0 ->
  set_XV_multi orc c isT V0 m = VOk m' ->
  ms m' = set_flows c (xv_eval orc c isT a (k + 4 + length pts)%nat (last pts 0)) (set_other isT (ms m) (last pts 0)).
Proof.
  intros V k a Vb Vd H1 H0 HB HD EP NE EX H. subst k.
  destruct (PV_flows_lemma orc c isT V0 m m' H1 H0 HB HD H) as (A & _).
  rewrite A. fold a. rewrite EX. unfold xv_last. rewrite EP.
  destruct pts as [|p t]; [contradiction|]. reflexivity.
Qed.

(* ------------------------------------------------------------------ P,H with ONE volatile chemical (N = 1): the lever rule *)
Section PHChemical.
Variable orc : oracle.
Variable c : ctx.
Variable P : Q.
Variables HL HG : vec -> Q.      (* enthalpy of a liquid / gas flow vector at (Tsat(P), P) *)
Variable HR : list vec -> Q.
Hypothesis HL_ext : forall a b, veq a b -> HL a == HL b.
Hypothesis HG_ext : forall a b, veq a b -> HG a == HG b.
Hypothesis HL_sub : forall a b f, length a = length b -> HL (vsub a (vscale f b)) == HL a - f * HL b.
Hypothesis HG_add : forall a b f, length a = length b -> HG (vadd a (vscale f b)) == HG a + f * HG b.
Hypothesis xH_lin : forall k s, o_xH orc k s (o_Tsat orc P) P == HL (liq s) + HG (vap s) + HR (oth s).

Lemma split_states s V : wf s -> length (molv c) = length (idx c) -> NoDup (idx c) ->
  (forall i, In i (idx c) -> (i < length (liq s))%nat) ->
  let s2 := all_liq c (all_vap c s) in
  let G := only_idx c (liq s2) in
  veq (liq (split_V c V s2)) (vsub (liq s2) (vscale V G)) /\
  veq (vap (split_V c V s2)) (vadd (vap s2) (vscale V G)) /\
  veq (liq (all_vap c s)) (vsub (liq s2) (vscale 1 G)) /\
  veq (vap (all_vap c s)) (vadd (vap s2) (vscale 1 G)) /\
  length G = length (liq s2) /\ length (liq s2) = length (vap s2) /\ oth (split_V c V s2) = oth s2 /\ oth (all_vap c s) = oth s2.
Proof.
  intros W LM ND RG s2 G. unfold wf in W.
  assert (L1 : length (liq (all_vap c s)) = length (liq s)) by (unfold all_vap, write2; cbn [liq with_flows]; apply scatter_length).
  assert (V1 : length (vap (all_vap c s)) = length (vap s)) by (unfold all_vap, write2; cbn [vap with_flows]; apply scatter_length).
  assert (L2 : length (liq s2) = length (liq s)) by (unfold s2, all_liq, write2; cbn [liq with_flows]; rewrite scatter_length; exact L1).
  assert (V2 : length (vap s2) = length (vap s)) by (unfold s2, all_liq, write2; cbn [vap with_flows]; rewrite scatter_length; exact V1).
  assert (LG : length G = length (liq s2)) by (unfold G, only_idx; rewrite map_length, seq_length; reflexivity).
  (* pointwise description of the three states *)
  assert (PT : forall k, (k < length (liq s))%nat ->
     match pos k (idx c) with
     | Some p => nthq (liq s2) k = nthq (molv c) p /\ nthq (vap s2) k = 0 /\ nthq G k = nthq (molv c) p /\
                 nthq (liq (all_vap c s)) k = 0 /\ nthq (vap (all_vap c s)) k = nthq (molv c) p /\
                 nthq (liq (split_V c V s2)) k == nthq (molv c) p - V * nthq (molv c) p /\
                 nthq (vap (split_V c V s2)) k == V * nthq (molv c) p
     | None => nthq (liq s2) k = nthq (liq s) k /\ nthq (vap s2) k = nthq (vap s) k /\ nthq G k = 0 /\
               nthq (liq (all_vap c s)) k = nthq (liq s) k /\ nthq (vap (all_vap c s)) k = nthq (vap s) k /\
               nthq (liq (split_V c V s2)) k = nthq (liq s) k /\ nthq (vap (split_V c V s2)) k = nthq (vap s) k
     end).
  { intros k Hk.
    assert (A1 : nthq (liq (all_vap c s)) k = match pos k (idx c) with Some p => nthq (zeros c) p | None => nthq (liq s) k end)
      by (unfold all_vap, write2; cbn [liq with_flows]; apply nthq_scatter; exact Hk).
    assert (A2 : nthq (vap (all_vap c s)) k = match pos k (idx c) with Some p => nthq (molv c) p | None => nthq (vap s) k end)
      by (unfold all_vap, write2; cbn [vap with_flows]; apply nthq_scatter; lia).
    assert (B1 : nthq (liq s2) k = match pos k (idx c) with Some p => nthq (molv c) p | None => nthq (liq (all_vap c s)) k end)
      by (unfold s2, all_liq, write2; cbn [liq with_flows]; apply nthq_scatter; lia).
    assert (B2 : nthq (vap s2) k = match pos k (idx c) with Some p => nthq (zeros c) p | None => nthq (vap (all_vap c s)) k end)
      by (unfold s2, all_liq, write2; cbn [vap with_flows]; apply nthq_scatter; lia).
    assert (C1 : nthq (liq (split_V c V s2)) k = match pos k (idx c) with
                  | Some p => nthq (vsub (molv c) (fit (length (molv c)) (vscale V (molv c)))) p | None => nthq (liq s2) k end)
      by (unfold split_V, set_flows, write2; cbn [liq with_flows]; apply nthq_scatter; lia).
    assert (C2 : nthq (vap (split_V c V s2)) k = match pos k (idx c) with
                  | Some p => nthq (fit (length (molv c)) (vscale V (molv c))) p | None => nthq (vap s2) k end)
      by (unfold split_V, set_flows, write2; cbn [vap with_flows]; apply nthq_scatter; lia).
    assert (D : nthq G k = match pos k (idx c) with Some _ => nthq (liq s2) k | None => 0 end)
      by (unfold G, only_idx; rewrite nthq_map_seq by lia; reflexivity).
    destruct (pos k (idx c)) as [p|] eqn:E.
    - apply pos_some in E. destruct E as (Hp & _). unfold zeros in *. rewrite nthq_vzero in *.
      rewrite C1, C2, D, B1. repeat split; auto.
      + rewrite nthq_vsub by (rewrite fit_length; reflexivity). rewrite nthq_fit by lia. rewrite nthq_vscale. reflexivity.
      + rewrite nthq_fit by lia. apply nthq_vscale.
    - rewrite C1, C2, B1, B2, A1, A2. repeat split; auto. }
  assert (OV : forall k, (length (liq s) <= k)%nat -> forall v, length v = length (liq s) -> nthq v k = 0)
    by (intros k Hk v Lv; apply nthq_over; lia).
  assert (LS1 : length (liq (split_V c V s2)) = length (liq s))
    by (unfold split_V, set_flows, write2; cbn [liq with_flows]; rewrite scatter_length; exact L2).
  assert (VS1 : length (vap (split_V c V s2)) = length (vap s))
    by (unfold split_V, set_flows, write2; cbn [vap with_flows]; rewrite scatter_length; exact V2).
  assert (LSG : length (vscale V G) = length (liq s2)) by (rewrite vscale_length; exact LG).
  assert (LSG1 : length (vscale 1 G) = length (liq s2)) by (rewrite vscale_length; exact LG).
  repeat split; try congruence.
  - rewrite LS1. unfold vsub. rewrite map2_length by congruence. congruence.
  - intros k. destruct (Nat.lt_ge_cases k (length (liq s))) as [Hk|Hk].
    + rewrite nthq_vsub by congruence. rewrite nthq_vscale. specialize (PT k Hk).
      destruct (pos k (idx c)); destruct PT as (A & B & D & E & F & X & Y); rewrite ?X, A, D; lra.
    + rewrite !OV; try reflexivity; try lia; try congruence. unfold vsub. rewrite map2_length by congruence. congruence.
  - rewrite VS1. unfold vadd. rewrite map2_length by congruence. congruence.
  - intros k. destruct (Nat.lt_ge_cases k (length (liq s))) as [Hk|Hk].
    + rewrite nthq_vadd by congruence. rewrite nthq_vscale. specialize (PT k Hk).
      destruct (pos k (idx c)); destruct PT as (A & B & D & E & F & X & Y); rewrite ?Y, B, D; lra.
    + rewrite !OV; try reflexivity; try lia; try congruence. unfold vadd. rewrite map2_length by congruence. congruence.
  - rewrite L1. unfold vsub. rewrite map2_length by congruence. congruence.
  - intros k. destruct (Nat.lt_ge_cases k (length (liq s))) as [Hk|Hk].
    + rewrite nthq_vsub by congruence. rewrite nthq_vscale. specialize (PT k Hk).
      destruct (pos k (idx c)); destruct PT as (A & B & D & E & F & X & Y); rewrite E, A, D; lra.
    + rewrite !OV; try reflexivity; try lia; try congruence. unfold vsub. rewrite map2_length by congruence. congruence.
  - rewrite V1. unfold vadd. rewrite map2_length by congruence. congruence.
  - intros k. destruct (Nat.lt_ge_cases k (length (liq s))) as [Hk|Hk].
    + rewrite nthq_vadd by congruence. rewrite nthq_vscale. specialize (PT k Hk).
      destruct (pos k (idx c)); destruct PT as (A & B & D & E & F & X & Y); rewrite F, B, D; lra.
    + rewrite !OV; try reflexivity; try lia; try congruence. unfold vadd. rewrite map2_length by congruence. congruence.
Qed.

Lemma ph_chemical_exact_lemma H m :
  wf (ms m) -> length (molv c) = length (idx c) -> NoDup (idx c) ->
  (forall i, In i (idx c) -> (i < length (liq (ms m)))%nat) ->
  let m' := ph_chemical orc c m P H in
  (HL (liq (ms m')) + HG (vap (ms m')) + HR (oth (ms m')) == H /\ sT (ms m') = o_Tsat orc P) \/
  (exists k s, ms m' = with_T s (o_solveT orc k s H (o_Tsat orc P) P)).
Proof.
  intros W LM ND RG. unfold ph_chemical, call_xH, call_solveT. cbn [ms mset tick mk fst snd].
  set (T := o_Tsat orc P). set (s := with_T (ms m) T).
  destruct (qleb (o_xH orc (mk m) (all_vap c s) T P) H) eqn:C1; [right; eexists; eexists; reflexivity|].
  destruct (qleb H (o_xH orc (S (mk m)) (all_liq c (all_vap c s)) T P)) eqn:C2; [right; eexists; eexists; reflexivity|].
  left. apply qleb_false in C1. apply qleb_false in C2. cbn [ms mset].
  set (V := (H - o_xH orc (S (mk m)) (all_liq c (all_vap c s)) T P) /
            (o_xH orc (mk m) (all_vap c s) T P - o_xH orc (S (mk m)) (all_liq c (all_vap c s)) T P)).
  destruct (split_states s V W LM ND RG) as (A1 & A2 & A3 & A4 & LG & LV & O1 & O2).
  set (s2 := all_liq c (all_vap c s)) in *. set (G := only_idx c (liq s2)) in *.
  split; [|reflexivity].
  rewrite (HL_ext _ _ A1), (HG_ext _ _ A2), O1.
  rewrite HL_sub by congruence. rewrite HG_add by congruence.
  unfold T in C1, C2. rewrite xH_lin in C1, C2. fold s2 in C2.
  rewrite (HL_ext _ _ A3), (HG_ext _ _ A4), O2 in C1. rewrite HL_sub in C1 by congruence. rewrite HG_add in C1 by congruence.
  assert (EV : V * ((HL (liq s2) - 1 * HL G + (HG (vap s2) + 1 * HG G) + HR (oth s2)) - (HL (liq s2) + HG (vap s2) + HR (oth s2)))
               == H - (HL (liq s2) + HG (vap s2) + HR (oth s2))).
  { unfold V, T. rewrite !xH_lin. fold s2.
    rewrite (HL_ext _ _ A3), (HG_ext _ _ A4), O2. rewrite HL_sub by congruence. rewrite HG_add by congruence. field. lra. }
  lra.
Qed.
End PHChemical.

(* ---------- vle_domain and the temperature clamp of BubblePoint.solve_Py ---------- *)

Lemma lmaxq_ge : forall l a, In a l -> a <= lmaxq l.
Proof.
  induction l as [|x t IH]; intros a Ha; [destruct Ha|].
  destruct t as [|y t'].
  - destruct Ha as [<-|[]]. cbn. apply Qle_refl.
  - change (lmaxq (x :: y :: t')) with (Qmax x (lmaxq (y :: t'))).
    destruct Ha as [<-|Ha].
    + apply Q.le_max_l.
    + eapply Qle_trans; [apply IH; exact Ha|apply Q.le_max_r].
Qed.
Lemma lminq_le : forall l a, In a l -> lminq l <= a.
Proof.
  induction l as [|x t IH]; intros a Ha; [destruct Ha|].
  destruct t as [|y t'].
  - destruct Ha as [<-|[]]. cbn. apply Qle_refl.
  - change (lminq (x :: y :: t')) with (Qmin x (lminq (y :: t'))).
    destruct Ha as [<-|Ha].
    + apply Q.le_min_l.
    + eapply Qle_trans; [apply Q.le_min_r|apply IH; exact Ha].
Qed.

Lemma qltb_false_le : forall a b, a <= b -> qltb b a = false.
Proof. intros a b H. unfold qltb. apply Bool.negb_false_iff. apply Qle_bool_iff. exact H. Qed.

(* the domain reaches every chemical's own Psat range (cut at the global limits) *)
Lemma domain_covers_lemma : forall tmins tmaxs a b,
  In a tmins -> In b tmaxs ->
  fst (vle_domain tmins tmaxs) <= Qmax a Tmin_limit + (1#100) /\
  Qmin b Tmax_limit - (1#100) <= snd (vle_domain tmins tmaxs).
Proof.
  intros tmins tmaxs a b Ha Hb. unfold vle_domain. cbn [fst snd]. split.
  - apply Qplus_le_l. apply Q.max_le_compat_r. apply lminq_le; exact Ha.
  - unfold Qminus. apply Qplus_le_l. apply Q.min_le_compat_r. apply lmaxq_ge; exact Hb.
Qed.

Lemma bubble_T_not_clamped_lemma : forall tmins tmaxs a b T,
  In a tmins -> In b tmaxs ->
  Qmax a Tmin_limit + (1#100) <= T -> T <= Qmin b Tmax_limit - (1#100) ->
  clampT (fst (vle_domain tmins tmaxs)) (snd (vle_domain tmins tmaxs)) T = T.
Proof.
  intros tmins tmaxs a b T Ha Hb H1 H2.
  destruct (domain_covers_lemma tmins tmaxs a b Ha Hb) as [D1 D2].
  unfold clampT.
  rewrite (qltb_false_le T (snd (vle_domain tmins tmaxs))) by (eapply Qle_trans; [exact H2|exact D2]).
  rewrite (qltb_false_le (fst (vle_domain tmins tmaxs)) T) by (eapply Qle_trans; [exact D1|exact H1]).
  reflexivity.
Qed.
