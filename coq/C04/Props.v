(* C04 — property theorems only (the wrapper model is coq/C03/Model.v, the kernels coq/C04/Model.v). *)
From V Require Import Common.NumFacts C03.Model C03.Proofs C04.KBase C04.Model C04.Gen_kernels C04.Proofs C04.Homog C04.Flx C04.FlxProofs.
From V Require C04.Setup C04.SetupProofs.
Open Scope Q_scope.

(* T / P equal the specified ones in every branch that returns normally, for every oracle.
   (Model of the code after pending_fixes/C04_1..3; on the unchanged tree the single-chemical T,V
   and T,H / T,S branches and the x / y specifications violate it: WITNESSES in props/C04.py) *)
Theorem C04_vle_spec_TP : forall cf orc sp st st', vle cf orc sp st = VOk st' ->
  (forall T, spec_T sp = Some T -> sT st' = T) /\ (forall P, spec_P sp = Some P -> sP st' = P).
Proof. exact vle_spec_TP_lemma. Qed.
Print Assumptions C04_vle_spec_TP.

(* the closed form compute_phase_fraction_2N solves the Rachford-Rice equation *)
Theorem C04_rr2_solves : forall z1 z2 K1 K2 V, rr2 z1 z2 K1 K2 = Ok V ->
  ~ 1 + V * (K1 - 1) == 0 -> ~ 1 + V * (K2 - 1) == 0 -> rr [z1; z2] [K1; K2] V == 0.
Proof. exact rr2_solves_lemma. Qed.
Print Assumptions C04_rr2_solves.

(* the Rachford-Rice function is decreasing in V on [0,1], strictly when some present chemical has K <> 1 *)
Theorem C04_rr_monotone : forall zs Ks V W, 0 <= V -> V < W -> W <= 1 ->
  (forall i, 0 <= nthq zs i) -> (forall i, (i < length Ks)%nat -> 0 < nthq Ks i) ->
  rr zs Ks W <= rr zs Ks V /\
  ((exists i, (i < length zs)%nat /\ (i < length Ks)%nat /\ 0 < nthq zs i /\ ~ nthq Ks i == 1) ->
   rr zs Ks W < rr zs Ks V).
Proof. exact rr_monotone_lemma. Qed.
Print Assumptions C04_rr_monotone.

(* ... so a solver output with zero residual is THE Raoult / Rachford-Rice vapour fraction *)
Theorem C04_rr_unique : forall zs Ks V W, 0 <= V <= 1 -> 0 <= W <= 1 ->
  (forall i, 0 <= nthq zs i) -> (forall i, (i < length Ks)%nat -> 0 < nthq Ks i) ->
  (exists i, (i < length zs)%nat /\ (i < length Ks)%nat /\ 0 < nthq zs i /\ ~ nthq Ks i == 1) ->
  rr zs Ks V == 0 -> rr zs Ks W == 0 -> V == W.
Proof. exact rr_unique_lemma. Qed.
Print Assumptions C04_rr_unique.

(* T,P flash, several chemicals: all vapour at / below the dew pressure unless a non-volatile solute is present,
   else all liquid at / above the bubble pressure unless a non-condensable gas is present, else the two-phase
   split written is the clipped result of the one fixed-point solve *)
Theorem C04_TP_boundary : forall cf orc T P st s c, setup cf st = SOk s c -> (2 <= cN c)%nat ->
  let s0 := with_P (with_T s T) P in
  let Pd := fst (o_dew orc 0 T) in
  let Pb := fst (o_bubble orc 1 T) in
  (P <= Pd /\ Fheavy c == 0 -> vle cf orc (SpTP T P) st = VOk (all_vap c s0)) /\
  (~ (P <= Pd /\ Fheavy c == 0) -> Pb <= P /\ Flight c == 0 -> vle cf orc (SpTP T P) st = VOk (all_liq c s0)) /\
  (~ (P <= Pd /\ Fheavy c == 0) -> ~ (Pb <= P /\ Flight c == 0) ->
   forall st', vle cf orc (SpTP T P) st = VOk st' -> st' = set_flows c (clipv (o_v orc 2 T P) (molv c)) s0).
Proof. exact TP_boundary_lemma. Qed.
Print Assumptions C04_TP_boundary.

(* P,V / T,V in the bracketing branch (V_bubble <= V <= V_dew): the flows written are those of the LAST _solve_v
   evaluation and the solved T (P) is what flexsolve returned.  That last evaluation is flexsolve's last one,
   or -- when flexsolve returns without evaluating ("lucky guess" on a bound) -- the dew-side evaluation, whose
   vapour fraction is V_dew, not V.  "V met within solver resolution" is the contract of IQ_interpolation. *)
Theorem C04_PV_flows_from_last_eval : forall orc c isT V0 m m',
  let V := adj_V c V0 in
  let k := mk m in
  let a := xv_a isT m in
  let Vb := qsum (xv_eval orc c isT a (k + 2)%nat (xv_Xb orc c a k)) / Fvle c in
  let Vd := qsum (xv_eval orc c isT a (k + 3)%nat (xv_Xd orc c a k)) / Fvle c in
  ~ V == 1 -> ~ V == 0 -> Vb <= V -> V <= Vd ->
  set_XV_multi orc c isT V0 m = VOk m' ->
  ms m' = set_flows c (xv_last orc c isT a k) (set_other isT (ms m) (snd (o_iq orc (k + 4)%nat))) /\
  mk m' = (k + 6 + length (fst (o_iq orc (k + 4)%nat)))%nat.
Proof. exact PV_flows_lemma. Qed.
Print Assumptions C04_PV_flows_from_last_eval.

(* ... hence, when flexsolve returns the last point it evaluated, the flows written are those evaluated AT the returned
   T (P).  PRECONDITION that excludes the "lucky guess": [pts <> []] and the returned value is the last evaluation point.
   flexsolve returns a bound without evaluating only when |V_bubble - V| < V_tol = 1e-6 (or |V_dew - V| < 1e-6; on the dew
   side the flows are consistent anyway).  Inside the quantifier of the property (V in (0.02, 0.98), every mole fraction
   >= 0.02, one homologous family) V_bubble is the vapour fraction the solver finds AT the bubble point (~ 0), so
   V - V_bubble >= 0.02 - solver error >> 1e-6: the excluded case lies outside the quantifier (it needs V < ~1e-6). *)
Theorem C04_PV_flows_at_returned_point : forall orc c isT V0 m m' pts,
  let V := adj_V c V0 in
  let k := mk m in
  let a := xv_a isT m in
  let Vb := qsum (xv_eval orc c isT a (k + 2)%nat (xv_Xb orc c a k)) / Fvle c in
  let Vd := qsum (xv_eval orc c isT a (k + 3)%nat (xv_Xd orc c a k)) / Fvle c in
  ~ V == 1 -> ~ V == 0 -> Vb <= V -> V <= Vd ->
  fst (o_iq orc (k + 4)%nat) = pts -> pts <> [] -> snd (o_iq orc (k + 4)%nat) = last pts 0 ->
  set_XV_multi orc c isT V0 m = VOk m' ->
  ms m' = set_flows c (xv_eval orc c isT a (k + 4 + length pts)%nat (last pts 0)) (set_other isT (ms m) (last pts 0)).
Proof. exact PV_flows_at_returned_point_lemma. Qed.
Print Assumptions C04_PV_flows_at_returned_point.
(* the excluded case: the solver returns the bubble bound without evaluating ([pts = []]); the flows written are those of
   the dew-side evaluation (all vapour here) although V = 1/2 was specified and T is the bubble temperature *)
Definition cf2v := mkcfg [KVle; KVle] [0; 0] [18; 46].
Definition orc_lucky := mkorc 0 (fun _ => 0) (fun _ => 0) 0 0 (fun _ _ => (300, [1#2; 1#2])) (fun _ _ => (400, [1#2; 1#2]))
  (fun t _ _ => match t with 2%nat => [0; 0] | _ => [1; 1] end) (fun _ => ([], 300))
  (fun _ _ _ _ => 0) (fun _ _ _ _ _ => 0) (fun _ _ _ _ _ => 0).
Example C04_PV_lucky_guess_excluded :
  vle cf2v orc_lucky (SpPV 101325 (1#2)) (mkst [1; 1] [0; 0] [] 298 101325)
  = VOk (mkst [1 - 1; 1 - 1] [1; 1] [] 300 101325).
Proof. vm_compute. reflexivity. Qed.

(* the vaporise / condense correction: with H linear in the flows (HL, HG additive and homogeneous) either the
   written flows reproduce the specified H exactly at the bracketed T (0 < f < 1), or T is what
   xsolve_T_at_HP returned for the final flows and the specified H (f in {0, 1}: the solve contract).
   The same statement with xS / S is the entropy clause; real entropies have a mixing term and are not linear. *)
Theorem C04_PH_correction_exact : forall orc c T P HL HG HR,
  (forall a b, veq a b -> HL a == HL b) -> (forall a b, veq a b -> HG a == HG b) ->
  (forall a b f, length a = length b -> HL (vadd a (vscale f b)) == HL a + f * HL b) ->
  (forall a b f, length a = length b -> HL (vsub a (vscale f b)) == HL a - f * HL b) ->
  (forall a b f, length a = length b -> HG (vadd a (vscale f b)) == HG a + f * HG b) ->
  (forall a b f, length a = length b -> HG (vsub a (vscale f b)) == HG a - f * HG b) ->
  (forall k s, o_xH orc k s T P == HL (liq s) + HG (vap s) + HR (oth s)) ->
  (forall k mol, o_Hp orc k false mol T P == HL mol) -> (forall k mol, o_Hp orc k true mol T P == HG mol) ->
  forall H m, wf (ms m) -> NoDup (idx c) -> (forall i, In i (idx c) -> (i < length (liq (ms m)))%nat) ->
  let m' := correct orc c T P H m in
  (HL (liq (ms m')) + HG (vap (ms m')) + HR (oth (ms m')) == H /\ sT (ms m') = T) \/
  (exists k s, ms m' = with_T s (o_solveT orc k s H T P)).
Proof. exact correct_exact_lemma. Qed.
Print Assumptions C04_PH_correction_exact.

(* ... and for the whole of set_PH (ent = false) / set_PS (ent = true) with several chemicals *)
Theorem C04_PH_exact_linear : forall orc P HL HG HR,
  (forall T a b, veq a b -> HL T a == HL T b) -> (forall T a b, veq a b -> HG T a == HG T b) ->
  (forall T a b f, length a = length b -> HL T (vadd a (vscale f b)) == HL T a + f * HL T b) ->
  (forall T a b f, length a = length b -> HL T (vsub a (vscale f b)) == HL T a - f * HL T b) ->
  (forall T a b f, length a = length b -> HG T (vadd a (vscale f b)) == HG T a + f * HG T b) ->
  (forall T a b f, length a = length b -> HG T (vsub a (vscale f b)) == HG T a - f * HG T b) ->
  (forall T k s, o_xH orc k s T P == HL T (liq s) + HG T (vap s) + HR T (oth s)) ->
  (forall T k mol, o_Hp orc k false mol T P == HL T mol) -> (forall T k mol, o_Hp orc k true mol T P == HG T mol) ->
  forall cf ent H st s1 c m', wf st -> setup cf st = SOk s1 c -> (2 <= cN c)%nat ->
  set_PH cf orc ent P H (mkm st 0) = VOk m' ->
  (HL (sT (ms m')) (liq (ms m')) + HG (sT (ms m')) (vap (ms m')) + HR (sT (ms m')) (oth (ms m')) == H) \/
  (exists k s Tg, ms m' = with_T s (o_solveT orc k s H Tg P)).
Proof. exact PH_exact_linear_lemma. Qed.
Print Assumptions C04_PH_exact_linear.

(* ... and with ONE volatile chemical (N = 1, _set_PH_chemical / _set_PS_chemical): between the saturated-liquid and the
   saturated-vapour enthalpy the lever rule reproduces the specified H exactly at Tsat(P); outside, T is what
   xsolve_T_at_HP returned for the single-phase flows (the solve contract) *)
Theorem C04_PH_chemical_exact : forall orc c P HL HG HR,
  (forall a b, veq a b -> HL a == HL b) -> (forall a b, veq a b -> HG a == HG b) ->
  (forall a b f, length a = length b -> HL (vsub a (vscale f b)) == HL a - f * HL b) ->
  (forall a b f, length a = length b -> HG (vadd a (vscale f b)) == HG a + f * HG b) ->
  (forall k s, o_xH orc k s (o_Tsat orc P) P == HL (liq s) + HG (vap s) + HR (oth s)) ->
  forall H m, wf (ms m) -> length (molv c) = length (idx c) -> NoDup (idx c) ->
  (forall i, In i (idx c) -> (i < length (liq (ms m)))%nat) ->
  let m' := ph_chemical orc c m P H in
  (HL (liq (ms m')) + HG (vap (ms m')) + HR (oth (ms m')) == H /\ sT (ms m') = o_Tsat orc P) \/
  (exists k s, ms m' = with_T s (o_solveT orc k s H (o_Tsat orc P) P)).
Proof. exact ph_chemical_exact_lemma. Qed.
Print Assumptions C04_PH_chemical_exact.

(* PRECONDITION of the enthalpy clause made explicit: [setup cf st = SOk _ _] -- at least one volatile chemical is present
   (the quantifier of the property: "compositions of 1-5 volatile chemicals with or without ... gas and ... solute").
   Without any volatile chemical _setup raises NoEquilibrium, VLE.__call__ stores P and returns: no oracle is consulted,
   T stays and the specified H is not applied.  (The [N == 0] branches of set_PH / set_PS are unreachable.) *)
Theorem C04_PH_no_volatile : forall cf orc P H st s, setup cf st = SNoEq s ->
  vle cf orc (SpPH P H) st = VOk (with_P s P) /\ sT (with_P s P) = sT st.
Proof. exact PH_no_volatile_lemma. Qed.
Print Assumptions C04_PH_no_volatile.
Example C04_PH_no_volatile_excluded :     (* only a liquid-locked and a gas-locked chemical: H = 12345 is ignored *)
  vle (mkcfg [KHeavy; KLight] [0; 0] [180; 28]) orc_lucky (SpPH 101325 12345) (mkst [1; 1#2] [1#4; 2] [] 298 200000)
  = VOk (mkst [1 + (1#4); 0] [0; (1#2) + 2] [] 298 101325).
Proof. vm_compute. reflexivity. Qed.

(* the linearity hypotheses are satisfiable: h_l = 1, h_g = 3 per mole *)
Example C04_PH_linear_nonvacuous :
  let HL := fun (_ : Q) (a : vec) => qsum a in
  let HG := fun (_ : Q) (a : vec) => 3 * qsum a in
  (forall T a b, veq a b -> HL T a == HL T b) /\ (forall T a b, veq a b -> HG T a == HG T b) /\
  (forall T a b f, length a = length b -> HL T (vadd a (vscale f b)) == HL T a + f * HL T b) /\
  (forall T a b f, length a = length b -> HL T (vsub a (vscale f b)) == HL T a - f * HL T b) /\
  (forall T a b f, length a = length b -> HG T (vadd a (vscale f b)) == HG T a + f * HG T b) /\
  (forall T a b f, length a = length b -> HG T (vsub a (vscale f b)) == HG T a - f * HG T b).
Proof.
  cbv zeta. repeat split; intros.
  - apply qsum_veq; assumption.
  - rewrite (qsum_veq a b); [reflexivity|assumption].
  - apply qsum_add; assumption.
  - apply qsum_sub; assumption.
  - rewrite qsum_add by assumption. ring.
  - rewrite qsum_sub by assumption. ring.
Qed.

(* the kernels as translated from the current source of /repo by tr/C04_kernels.py (regenerated on every run) are the
   functions the theorems below are about *)
Theorem C04_generated_kernels_agree :
  g_compute_phase_fraction_2N = rr2v /\ g_xy = xyn /\ g_xVlogK_iter_2n = iter2n /\ g_xVlogK_iter = itern.
Proof. exact generated_kernels_agree. Qed.
Print Assumptions C04_generated_kernels_agree.

(* an exact fixed point of xVlogK_iter_2n (exp, log as any functions with exp (log k) = k for k >= 1e-16):
   K = clip(pcf Psat / P * gamma(x^) / phi(y^)) at the normalised x^ and y^ = normalise(K x^) (iso-fugacity),
   V is the closed-form Rachford-Rice root for these K (so the Rachford-Rice equation holds),
   x_i = z_i / (1 + V (K_i - 1)), and x sums to 1 when z does *)
Theorem C04_fix_iso_2n : forall E L fg fp w pcf T P z w',
  (forall a b, a == b -> E a == E b) -> (forall k, c_1e16 <= k -> E (L k) == k) ->
  iter2n E L fg fp w pcf T P z = Ok w' -> wn_eq w' w ->
  exists x y Ks V,
    xyn (nx w) (map E (nl w)) = Ok (x, y) /\
    Ks = new_Ks fg fp pcf x y T P /\
    veq (map E (nl w)) Ks /\
    rr2v z Ks = Ok V /\ nV w == V /\ rr z Ks V == 0 /\
    veq (nx w) (map2 Qdiv z (rr_den V Ks)) /\
    (qsum z == 1 -> qsum (nx w) == 1).
Proof. exact fix_iso_2n_lemma. Qed.
Print Assumptions C04_fix_iso_2n.

(* the same for xVlogK_iter (n components, non-partitioning fractions): iso-fugacity and the x relation hold at an exact
   fixed point; V is whatever solve_phase_fraction_Rashford_Rice returned for these K (its residual is the solver's contract) *)
Theorem C04_fix_iso_n : forall E L fg fp rrsolve w pcf T P z zl zh w',
  (forall a b, a == b -> E a == E b) -> (forall k, c_1e16 <= k -> E (L k) == k) ->
  itern E L fg fp rrsolve w pcf T P z zl zh = Ok w' -> wn_eq w' w ->
  exists x y Ks V,
    xyn (nx w) (map E (nl w)) = Ok (x, y) /\
    Ks = new_Ks fg fp pcf x y T P /\
    veq (map E (nl w)) Ks /\
    V = rrsolve z Ks (clamp01 (nV w)) zl zh /\ nV w == V /\
    veq (nx w) (map2 Qdiv z (rr_den V Ks)) /\
    (forall i, (i < length Ks)%nat -> ~ nthq (rr_den V Ks) i == 0).
Proof. exact fix_iso_n_lemma. Qed.
Print Assumptions C04_fix_iso_n.

(* an exact fixed point exists: K = (2, 1/2), z = (1/2, 1/2) gives V = 1/2, x = (1/3, 2/3) *)
Example C04_fix_iso_nonvacuous :
  let w := mkwn [1#3; 2#3] (1#2) [2; 1#2] in
  exists w', iter2n (fun l => l) (fun k => k) (fun _ _ => [2; 1#2]) (fun _ _ _ => [1; 1]) w [1; 1] 350 101325 [1#2; 1#2] = Ok w'
             /\ wn_eq w' w.
Proof.
  cbv zeta. eexists. split; [vm_compute; reflexivity|].
  unfold wn_eq, veq. cbn [nx nV nl length]. repeat split; try reflexivity.
  all: intros i; do 3 (destruct i as [|i]; [vm_compute; reflexivity|]); vm_compute; destruct i; reflexivity.
Qed.

(* Scaling the feed scales the products: for k > 0 and solver oracles that depend on the normalised composition only
   ([orc_scaled]: same bubble / dew / bracketing answers and property constants, raw vapour flows, enthalpies and
   entropies multiplied by k, xsolve_T_at_HP/SP invariant when H is multiplied by k), the flash of the feed multiplied
   by k -- with a specified H or S multiplied by k -- is the flash of the feed, multiplied by k: same branch, same raise,
   flows scaled pointwise, T and P equal (as rationals after a final xsolve_T).  Every specification pair, every branch:
   clips, lever rule, boundary branches, bracketing loops, the vaporise / condense correction, the retry of set_PS. *)
Theorem C04_vle_homogeneous : forall k, 0 < k -> forall orc orc', orc_scaled k orc orc' -> forall cf sp st,
  match vle cf orc sp st, vle cf orc' (scale_spec k sp) (scale_st k st) with
  | VOk a, VOk b =>
      Forall2 (fun x y => y == k * x) (liq a) (liq b) /\ Forall2 (fun x y => y == k * x) (vap a) (vap b) /\
      Forall2 (Forall2 (fun x y => y == k * x)) (oth a) (oth b) /\ sT b == sT a /\ sP b == sP a
  | VErr e _, VErr e' _ => e = e'
  | _, _ => False
  end.
Proof. exact vle_homogeneous_lemma. Qed.
Print Assumptions C04_vle_homogeneous.

(* the kernel-level facts behind it (kept from the earlier partial result) *)
Theorem C04_vle_homogeneous_kernels :
  (forall k v m, 0 < k -> clip1 (k * v) (k * m) == k * clip1 v m) /\
  (forall k z1 z2 K1 K2 V, ~ k == 0 -> rr2 z1 z2 K1 K2 = Ok V ->
     exists V', rr2 (k * z1) (k * z2) K1 K2 = Ok V' /\ V' == V) /\
  (forall k zs Ks V, rr (vscale k zs) Ks V == k * rr zs Ks V).
Proof. split; [exact clip1_scale|split; [exact rr2_scale|exact rr_scale]]. Qed.
Print Assumptions C04_vle_homogeneous_kernels.

(* the oracle relation is satisfiable, and an instance: the flash of section "non-vacuity" below with everything doubled *)
Definition orc_h := mkorc 0 (fun _ => 0) (fun _ => 0) 0 0 (fun _ _ => (200000, [1#2; 1#2])) (fun _ _ => (50000, [1#2; 1#2]))
  (fun _ _ _ => [-1; 9]) (fun _ => ([], 0)) (fun _ _ _ _ => 0) (fun _ _ _ _ _ => 0) (fun _ _ _ _ _ => 0).
Definition orc_h2 := mkorc 0 (fun _ => 0) (fun _ => 0) 0 0 (fun _ _ => (200000, [1#2; 1#2])) (fun _ _ => (50000, [1#2; 1#2]))
  (fun _ _ _ => [-2; 18]) (fun _ => ([], 0)) (fun _ _ _ _ => 0) (fun _ _ _ _ _ => 0) (fun _ _ _ _ _ => 0).
Example C04_vle_homogeneous_nonvacuous :
  orc_scaled 2 orc_h orc_h2 /\
  vle (mkcfg [KVle; KVle; KLight; KHeavy] [0; 0; 0; 2] [18; 46; 28; 58]) orc_h2 (SpTP 350 101325)
      (scale_st 2 (mkst [4; 2; 1; 0] [0; 2; 0; 3] [[1; 1; 1; 1]] 300 101325))
  = VOk (mkst [2 * 4 + 2 * 0 - 0; 2 * 2 + 2 * 2 - (2 * 2 + 2 * 2); 0; 2 * 0 + 2 * 3]
              [0; 2 * 2 + 2 * 2; 2 * 1 + 2 * 0; 0] [[2 * 1; 2 * 1; 2 * 1; 2 * 1]] 350 101325).
Proof.
  split.
  - unfold orc_scaled, orc_h, orc_h2. cbn. repeat split; intros; try reflexivity.
    all: try (unfold qr; ring).
    all: repeat constructor; unfold qr; reflexivity.
  - vm_compute. reflexivity.
Qed.

(* The temperature domain stored on the bubble / dew point objects (equilibrium/domain.py: vle_domain) reaches the upper Psat limit
   of EVERY chemical of the mixture (cut at 1000 K, minus 0.01 K) and the lower limit of every chemical (cut at 50 K, plus 0.01 K):
   it ends at the LAST critical temperature, not at the first. *)
Theorem C04_domain_covers : forall tmins tmaxs a b,
  In a tmins -> In b tmaxs ->
  fst (vle_domain tmins tmaxs) <= Qmax a Tmin_limit + (1#100) /\
  Qmin b Tmax_limit - (1#100) <= snd (vle_domain tmins tmaxs).
Proof. exact domain_covers_lemma. Qed.
Print Assumptions C04_domain_covers.

(* Hence BubblePoint.solve_Py (if T > Tmax: T = Tmax elif T < Tmin: T = Tmin) evaluates the bubble pressure -- the one
   set_thermal_condition compares P with (C04_TP_boundary) -- at the SPECIFIED temperature whenever that temperature lies inside the
   Psat range of at least one chemical present, e.g. above the critical temperature of the most volatile one. *)
Theorem C04_bubble_T_not_clamped : forall tmins tmaxs a b T,
  In a tmins -> In b tmaxs ->
  Qmax a Tmin_limit + (1#100) <= T -> T <= Qmin b Tmax_limit - (1#100) ->
  clampT (fst (vle_domain tmins tmaxs)) (snd (vle_domain tmins tmaxs)) T = T.
Proof. exact bubble_T_not_clamped_lemma. Qed.
Print Assumptions C04_bubble_T_not_clamped.

Example C04_domain_nonvacuous :
  vle_domain [135; 178; 216] [425; 507; 569] = (135 + (1#100), 569 - (1#100)) /\
  clampT (fst (vle_domain [135; 178; 216] [425; 507; 569])) (snd (vle_domain [135; 178; 216] [425; 507; 569])) 440 = 440.
Proof. split; vm_compute; reflexivity. Qed.

(* non-vacuity *)
Example C04_rr2_nonvacuous :
  rr2 (1#2) (1#2) 2 (1#2) = Ok ((- (2 * (1#2) + (1#2) * (1#2)) + ((1#2) + (1#2))) / rr2_den (1#2) (1#2) 2 (1#2))
  /\ rr [1#2; 1#2] [2; 1#2] (1#2) == 0.
Proof. split; vm_compute; reflexivity. Qed.
Definition cf4 := mkcfg [KVle; KVle; KLight; KHeavy] [0; 0; 0; 2] [18; 46; 28; 58].
Definition orc_tp := mkorc 0 (fun _ => 0) (fun _ => 0) 0 0 (fun _ _ => (200000, [1#2; 1#2])) (fun _ _ => (50000, [1#2; 1#2]))
  (fun _ _ _ => [-1; 9]) (fun _ => ([], 0)) (fun _ _ _ _ => 0) (fun _ _ _ _ _ => 0) (fun _ _ _ _ _ => 0).
Definition st4 := mkst [4; 2; 1; 0] [0; 2; 0; 3] [[1; 1; 1; 1]] 300 101325.
Example C04_spec_nonvacuous :
  vle cf4 orc_tp (SpTP 350 101325) st4 = VOk (mkst [4; 0; 0; 3] [0; 4; 1; 0] [[1; 1; 1; 1]] 350 101325).
Proof. vm_compute. reflexivity. Qed.


(* ================= the bracketing solver behind every V / H / S specification =================
   flexsolve.IQ_interpolation as modelled in coq/C04/Flx.v (tied to the installed flexsolve by correspondence on
   cubic residuals, evaluation counts included).  [rnd] is the rounding of each newly computed abscissa; the only
   thing assumed of it is that a value between two numbers stays between them. *)

(* "V / H / S is met within the solver's stated resolution": a normal return after the tolerance test is either a point
   whose residual is below ytol, or an END of a bracket narrower than xtol over which the residual changes sign,
   inside the bracket the caller supplied - for EVERY residual function f. *)
Theorem C04_iq_within_resolution : forall rnd f, rnd_keeps_between rnd ->
  forall c maxiter x0 x1 oy0 oy1 ox r n,
  checkroot c = false -> given_ok f oy0 x0 -> given_ok f oy1 x1 -> f x0 * f x1 <= 0 ->
  iq_interpolation rnd f c maxiter x0 x1 oy0 oy1 ox = Ok (r, Tol, n) ->
  Qabs (f r) < ytol c \/
  exists a b, f a < 0 /\ 0 < f b /\ (r = a \/ r = b) /\ Qabs (b - a) < xtol c /\ btw x0 x1 a /\ btw x0 x1 b.
Proof. exact iq_resolution_lemma. Qed.
Print Assumptions C04_iq_within_resolution.

(* with checkroot both tolerances are met *)
Theorem C04_iq_checked_root : forall rnd f, rnd_keeps_between rnd ->
  forall c maxiter x0 x1 oy0 oy1 ox r n,
  checkroot c = true -> given_ok f oy0 x0 -> given_ok f oy1 x1 -> f x0 * f x1 <= 0 ->
  iq_interpolation rnd f c maxiter x0 x1 oy0 oy1 ox = Ok (r, Tol, n) ->
  Qabs (f r) < ytol c /\
  exists a b, f a < 0 /\ 0 < f b /\ (r = a \/ r = b) /\ Qabs (b - a) < xtol c /\ btw x0 x1 a /\ btw x0 x1 b.
Proof. exact iq_checked_root_lemma. Qed.
Print Assumptions C04_iq_checked_root.

(* every other way of returning: the result never leaves the caller's bracket; a lucky guess has a small or zero
   residual; an exact return is a root; running out of iterations (only possible with checkiter off, as vle.py calls it)
   still leaves the result inside a sign-change bracket *)
Theorem C04_iq_other_returns : forall rnd f, rnd_keeps_between rnd ->
  forall c maxiter x0 x1 oy0 oy1 ox r w n,
  given_ok f oy0 x0 -> given_ok f oy1 x1 -> f x0 * f x1 <= 0 ->
  iq_interpolation rnd f c maxiter x0 x1 oy0 oy1 ox = Ok (r, w, n) ->
  btw x0 x1 r /\
  (w = Lucky -> Qabs (f r) < ytol c \/ f r == 0) /\
  (w = Exact -> f r == 0) /\
  (w = IterOut -> checkiter c = false /\ exists a b, f a < 0 /\ 0 < f b /\ btw a b r /\ btw x0 x1 a /\ btw x0 x1 b).
Proof. exact iq_other_returns_lemma. Qed.
Print Assumptions C04_iq_other_returns.

(* called the way vle.py calls it (checkroot, checkiter, checkbounds off) the solver never raises, whatever the
   residual, the bracket (even without a sign change, even of zero width), the guess and the tolerances *)
Theorem C04_iq_total : forall rnd f, rnd_keeps_between rnd ->
  forall c maxiter x0 x1 oy0 oy1 ox,
  checkroot c = false -> checkiter c = false -> checkbounds c = false ->
  exists r, iq_interpolation rnd f c maxiter x0 x1 oy0 oy1 ox = Ok r.
Proof. exact iq_total. Qed.
Print Assumptions C04_iq_total.

(* the V specification (set_TV / set_PV reach the solver only when V(X_bubble) <= V <= V(X_dew), and pass those two
   residuals): the returned temperature (pressure) has |V(X) - V| < V_tol, or is an end of an interval narrower than
   T_tol (P_tol) inside [X_bubble, X_dew] across which the equilibrium vapour fraction passes the specification *)
Theorem C04_V_spec_within_resolution : forall rnd (Vf : Q -> Q), rnd_keeps_between rnd ->
  forall c maxiter Tb Td V guess r n,
  checkroot c = false -> Vf Tb <= V -> V <= Vf Td ->
  iq_interpolation rnd (fun T => Vf T - V) c maxiter Tb Td (Some (Vf Tb - V)) (Some (Vf Td - V)) guess = Ok (r, Tol, n) ->
  Qabs (Vf r - V) < ytol c \/
  exists a b, Vf a < V /\ V < Vf b /\ (r = a \/ r = b) /\ Qabs (b - a) < xtol c /\ btw Tb Td a /\ btw Tb Td b.
Proof. exact iq_V_lemma. Qed.
Print Assumptions C04_V_spec_within_resolution.

(* the six call sites of vle.py (arguments tied to the source by the iqsite correspondence cases, which compare the
   arguments of every real call with [site_cfg] and [c_maxiter]): all three optional checks are off, so the solver never
   raises there, and a return by the tolerance test is within V_tol = H_hat_tol = S_hat_tol = 1e-6 of the specification
   or within T_tol = 5e-8 K (P_tol = 1 Pa) of a sign change of the residual the solver was shown *)
Theorem C04_call_sites : forall s rnd f, rnd_keeps_between rnd ->
  forall x0 x1 y0 y1 guess,
  (exists r, iq_interpolation rnd f (site_cfg s) c_maxiter x0 x1 (Some y0) (Some y1) guess = Ok r) /\
  forall r n, y0 == f x0 -> y1 == f x1 -> y0 * y1 <= 0 ->
    iq_interpolation rnd f (site_cfg s) c_maxiter x0 x1 (Some y0) (Some y1) guess = Ok (r, Tol, n) ->
    Qabs (f r) < c_V_tol \/
    exists a b, f a < 0 /\ 0 < f b /\ (r = a \/ r = b) /\
                Qabs (b - a) < (match s with SiteTV | SiteTH | SiteTS => c_P_tol | _ => c_T_tol end) /\ btw x0 x1 a /\ btw x0 x1 b.
Proof. exact call_sites_lemma. Qed.
Print Assumptions C04_call_sites.

(* non-vacuity: exact arithmetic (fractions kept in lowest terms) is an admissible [rnd]; a run on x^2 - 2 over [0, 2]
   with vle.py's flags returns by the tolerance test after 7 evaluations, and a run with maxiter = 2 runs out of iterations *)
Example C04_iq_premises_hold :
  rnd_keeps_between Qred /\
  (exists r n, iq_interpolation Qred (cubic (-2) 0 1 0) (mkiqcfg (1 # 100) (1 # 1000) false false false)
                 20 0 2 None None None = Ok (r, Tol, n) /\ (4 <= n)%nat) /\
  (exists r n, iq_interpolation Qred (cubic (-2) 0 1 0) (mkiqcfg (1 # 1000000) (1 # 1000000) false false false)
                 2 0 2 (Some (-2)) (Some 2) (Some (3 # 2)) = Ok (r, IterOut, n)) /\
  cubic (-2) 0 1 0 0 * cubic (-2) 0 1 0 2 <= 0.
Proof.
  split; [exact qred_keeps_between|]. split; [|split].
  - eexists; eexists; split; [vm_compute; reflexivity|lia].
  - eexists; eexists; vm_compute; reflexivity.
  - vm_compute; discriminate.
Qed.

(* ---------- VLE._setup, the BubblePoint / DewPoint constructor caches and the K-value base of _solve_v, over histories ----------
   For EVERY history of flashes on any number of VLE objects (streams) of any property packages -- packages may list the same
   chemical objects in different orders, the material of a stream may change between calls -- every flash whose material has at
   least two chemicals in equilibrium works with a BubblePoint AND a DewPoint instance that store exactly the chemicals of the
   current material in the order of the stream's own package (so the composition vector VLE hands them is read in the right
   order), and every K-value base pcf * Psat / P given to the fixed-point solver is built from the vapour pressures of those
   chemicals at the temperature of that very call. *)
Import C04.Setup C04.SetupProofs.
Theorem C04_setup_objects_follow_package_order : forall psat pcf pkgs ops,
  Forall2 (good psat pcf pkgs) ops (fst (frun psat pcf pkgs (pst0 pkgs) ops)).
Proof. exact history_good. Qed.
Print Assumptions C04_setup_objects_follow_package_order.

(* ... hence the same call gives the same K bases, index and equilibrium-object contents after any history as in a fresh process *)
Theorem C04_kbase_history_independent : forall psat pcf pkgs h o p ob1 ob2,
  nth_error pkgs (fo_obj o) = Some p -> fo_nz o <> [] -> (2 <= length (vle_indices (fst p) (fo_nz o)))%nat ->
  (forall T P, In (T, P) (fo_TP o) -> ~ P == 0) ->
  last (fst (frun psat pcf pkgs (pst0 pkgs) (h ++ [o]))) None = Some ob1 ->
  fst (frun psat pcf pkgs (pst0 pkgs) [o]) = [Some ob2] ->
  ob_kb ob1 = ob_kb ob2 /\ ob_index ob1 = ob_index ob2 /\
  (exists i i', ob_bp ob1 = Some (i, mkkey p (ob_index ob1)) /\ ob_bp ob2 = Some (i', mkkey p (ob_index ob1))) /\
  (exists j j', ob_dp ob1 = Some (j, mkkey p (ob_index ob1)) /\ ob_dp ob2 = Some (j', mkkey p (ob_index ob1))).
Proof. exact kbase_fresh_agrees. Qed.
Print Assumptions C04_kbase_history_independent.

(* non-vacuity: two packages over the chemical objects 0..3 in opposite orders (chemical 3 does not take part in VLE);
   stream 0 is flashed as {0,1}, then re-fed as {1,2} (a different set of the same size) at the same temperature, then the
   second package flashes {0,1,2}: the premises of [good] hold at each step, the second package gets its own instances with
   the chemicals in ITS order, and the K base of the re-fed stream is that of chemicals 1, 2 *)
Example C04_setup_history_example :
  let pa : pkg := ([(0, true); (1, true); (2, true); (3, false)]%nat, (1, 1, 1)%nat) in
  let pb : pkg := ([(3, false); (2, true); (1, true); (0, true)]%nat, (1, 1, 1)%nat) in
  let psat := fun (c : nat) (T : Q) => inject_Z (Z.of_nat (S c)) * T in
  let ops := [mkfop 0 [0; 1]%nat false false [(350, 2)]; mkfop 0 [1; 2]%nat false false [(350, 2)];
              mkfop 1 [0; 1; 2]%nat false true [(350, 2)]; mkfop 1 [0; 1; 2]%nat false true [(360, 2)]] in
  map (fun o => match o with Some b => (ob_index b, option_map snd (ob_dp b), ob_kb b) | None => ([], None, []) end)
      (fst (frun psat pcf_mock [pa; pb] (pst0 [pa; pb]) ops)) =
  [([0; 1]%nat, Some ([0; 1]%nat, 1%nat, 1%nat, 1%nat), [Ok [1 * (1 * 350) / 2; 1 * (2 * 350) / 2]]);
   ([1; 2]%nat, Some ([1; 2]%nat, 1%nat, 1%nat, 1%nat), [Ok [1 * (2 * 350) / 2; 1 * (3 * 350) / 2]]);
   ([1; 2]%nat, Some ([2; 1]%nat, 1%nat, 1%nat, 1%nat), [Ok [1 * (3 * 350) / 2; 1 * (2 * 350) / 2]]);
   ([1; 2]%nat, Some ([2; 1]%nat, 1%nat, 1%nat, 1%nat), [Ok [1 * (3 * 360) / 2; 1 * (2 * 360) / 2]])].
Proof. vm_compute. reflexivity. Qed.
