(* C04 — property theorems only (the wrapper model is coq/C03/Model.v, the kernels coq/C04/Model.v). *)
From V Require Import Common.NumFacts C03.Model C03.Proofs C04.Model C04.Proofs.
Open Scope Q_scope.

(* T / P equal the specified ones in every branch that returns normally, for every oracle.
   (Model of the code after pending_fixes/C04_1..3; on the unchanged tree the single-chemical T,V
   and T,H / T,S branches and the x / y specifications violate it: WITNESSES in props/C04.py) *)
Theorem C04_vle_spec_TP : forall cf orc sp st st', vle cf orc sp st = VOk st' ->
  (forall T, spec_T sp = Some T -> sT st' = T) /\ (forall P, spec_P sp = Some P -> sP st' = P).
Proof. exact vle_spec_TP_lemma. Qed.
Print Assumptions C04_vle_spec_TP.

(* the closed form compute_phase_fraction_2N solves the Rachford-Rice equation *)
Theorem C04_rr2_solves : forall z1 z2 K1 K2 V, rr2 z1 z2 K1 K2 = Ok V ->
  ~ 1 + V * (K1 - 1) == 0 -> ~ 1 + V * (K2 - 1) == 0 -> rr [z1; z2] [K1; K2] V == 0.
Proof. exact rr2_solves_lemma. Qed.
Print Assumptions C04_rr2_solves.

(* the Rachford-Rice function is decreasing in V on [0,1], strictly when some present chemical has K <> 1 *)
Theorem C04_rr_monotone : forall zs Ks V W, 0 <= V -> V < W -> W <= 1 ->
  (forall i, 0 <= nthq zs i) -> (forall i, (i < length Ks)%nat -> 0 < nthq Ks i) ->
  rr zs Ks W <= rr zs Ks V /\
  ((exists i, (i < length zs)%nat /\ (i < length Ks)%nat /\ 0 < nthq zs i /\ ~ nthq Ks i == 1) ->
   rr zs Ks W < rr zs Ks V).
Proof. exact rr_monotone_lemma. Qed.
Print Assumptions C04_rr_monotone.

(* ... so a solver output with zero residual is THE Raoult / Rachford-Rice vapour fraction *)
Theorem C04_rr_unique : forall zs Ks V W, 0 <= V <= 1 -> 0 <= W <= 1 ->
  (forall i, 0 <= nthq zs i) -> (forall i, (i < length Ks)%nat -> 0 < nthq Ks i) ->
  (exists i, (i < length zs)%nat /\ (i < length Ks)%nat /\ 0 < nthq zs i /\ ~ nthq Ks i == 1) ->
  rr zs Ks V == 0 -> rr zs Ks W == 0 -> V == W.
Proof. exact rr_unique_lemma. Qed.
Print Assumptions C04_rr_unique.

(* non-vacuity *)
Example C04_rr2_nonvacuous :
  rr2 (1#2) (1#2) 2 (1#2) = Ok ((- (2 * (1#2) + (1#2) * (1#2)) + ((1#2) + (1#2))) / rr2_den (1#2) (1#2) 2 (1#2))
  /\ rr [1#2; 1#2] [2; 1#2] (1#2) == 0.
Proof. split; vm_compute; reflexivity. Qed.
Definition cf4 := mkcfg [KVle; KVle; KLight; KHeavy] [0; 0; 0; 2] [18; 46; 28; 58].
Definition orc_tp := mkorc 0 (fun _ => 0) (fun _ => 0) 0 0 (fun _ => (200000, [1#2; 1#2])) (fun _ => (50000, [1#2; 1#2]))
  (fun _ => [-1; 9]) (fun _ => ([], 0)) (fun _ _ _ _ => 0) (fun _ _ _ _ _ => 0) (fun _ _ _ _ _ => 0).
Definition st4 := mkst [4; 2; 1; 0] [0; 2; 0; 3] [[1; 1; 1; 1]] 300 101325.
Example C04_spec_nonvacuous :
  vle cf4 orc_tp (SpTP 350 101325) st4 = VOk (mkst [4; 0; 0; 3] [0; 4; 1; 0] [[1; 1; 1; 1]] 350 101325).
Proof. vm_compute. reflexivity. Qed.
