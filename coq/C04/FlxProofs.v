(* C04 — lemmas about the model of flexsolve.IQ_interpolation (coq/C04/Flx.v):
   the bracket invariant, "within the stated resolution", totality. *)
From V Require Import Common.NumFacts C04.Flx.
Open Scope Q_scope.

Lemma qltb_true a b : qltb a b = true <-> a < b.
Proof.
  unfold qltb. rewrite negb_true_iff. split; intro H.
  - apply Qnot_le_lt. intro L. apply Qle_bool_iff in L. congruence.
  - destruct (Qle_bool b a) eqn:E; [|reflexivity]. apply Qle_bool_iff in E. exfalso. apply (Qlt_not_le _ _ H E).
Qed.
Lemma qltb_false a b : qltb a b = false <-> b <= a.
Proof.
  unfold qltb. rewrite negb_false_iff. apply Qle_bool_iff.
Qed.
Lemma qleb_true a b : qleb a b = true <-> a <= b.
Proof. unfold qleb. apply Qle_bool_iff. Qed.

(* q lies between a and b, in either orientation (closed) *)
Definition btw (a b q : Q) : Prop := (a <= q /\ q <= b) \/ (b <= q /\ q <= a).

Lemma btw_trans lo hi a b q : btw lo hi a -> btw lo hi b -> btw a b q -> btw lo hi q.
Proof. unfold btw. intros [A|A] [B|B] [C|C]; lra. Qed.
Lemma btw_l a b : btw a b a.
Proof. unfold btw. destruct (Qlt_le_dec a b); [left|right]; lra. Qed.
Lemma btw_r a b : btw a b b.
Proof. unfold btw. destruct (Qlt_le_dec a b); [left|right]; lra. Qed.
Lemma btw_sym a b q : btw a b q -> btw b a q.
Proof. unfold btw. tauto. Qed.

Lemma nwb_false x x0 x1 : nwb x x0 x1 = false -> (x0 < x /\ x < x1) \/ (x1 < x /\ x < x0).
Proof.
  unfold nwb. rewrite negb_false_iff, orb_true_iff, !andb_true_iff, !qltb_true. tauto.
Qed.

Section Facts.
Variable rnd : Q -> Q.
Variable f : Q -> Q.
Hypothesis rnd_btw : forall a b q, btw a b q -> btw a b (rnd q).

Lemma bisect_btw x0 x1 : btw x0 x1 (bisect rnd x0 x1).
Proof.
  unfold bisect. apply rnd_btw. unfold btw.
  destruct (Qlt_le_dec x0 x1); [left|right]; split; apply Qle_shift_div_l || apply Qle_shift_div_r; lra.
Qed.

Lemma third_btw x x0 x1 : (x0 < x /\ x < x1) \/ (x1 < x /\ x < x0) -> btw x0 x1 ((x + x0 + x1) / 3).
Proof.
  unfold btw. intros [[A B]|[A B]]; [left|right]; split; apply Qle_shift_div_l || apply Qle_shift_div_r; lra.
Qed.

(* false_position_iter on a bracket with dx = x1 - x0 never raises and lands between the ends *)
Lemma fp_iter_ok x0 x1 y0 y1 df xl :
  exists x, fp_iter rnd x0 x1 (x1 - x0) y0 y1 df xl = Ok x /\ btw x0 x1 x.
Proof.
  unfold fp_iter.
  destruct (qzerob (y1 - y0)); [eexists; split; [reflexivity|apply bisect_btw]|].
  destruct (nwb _ x0 x1) eqn:N; [eexists; split; [reflexivity|apply bisect_btw]|].
  apply nwb_false in N. unfold stuck.
  destruct (qzerob (x1 - x0)) eqn:Z.
  - apply qzerob_true in Z. exfalso. destruct N as [[A B]|[A B]]; lra.
  - cbn [bind]. destruct (qltb _ (1 # 10)).
    + eexists; split; [reflexivity|]. apply rnd_btw. apply third_btw. exact N.
    + eexists; split; [reflexivity|]. unfold btw. destruct N as [[A B]|[A B]]; [left|right]; lra.
Qed.

Lemma iq_iter_ok y0 y1 y2 x0 x1 x2 df0 xl :
  exists x, iq_iter rnd y0 y1 y2 x0 x1 x2 (x1 - x0) df0 xl = Ok x /\ btw x0 x1 x.
Proof.
  unfold iq_iter. cbv zeta.
  destruct (_ && _ && _).
  - destruct (nwb _ x0 x1) eqn:N; eexists; (split; [reflexivity|]).
    + apply bisect_btw.
    + apply nwb_false in N. unfold btw. destruct N as [[A B]|[A B]]; [left|right]; lra.
  - apply fp_iter_ok.
Qed.

(* a sign-change bracket: a on the negative side *)
Definition sc (a b : Q) : Prop := f a < 0 /\ 0 < f b.

Definition post (c : iqcfg) (lo hi x : Q) (w : why) : Prop :=
  match w with
  | Lucky => Qabs (f x) < ytol c \/ f x == 0
  | Exact => f x == 0
  | Tol =>
      let A := Qabs (f x) < ytol c in
      let B := exists a b, sc a b /\ (x = a \/ x = b) /\ Qabs (b - a) < xtol c /\ btw lo hi a /\ btw lo hi b in
      if checkroot c then A /\ B else A \/ B
  | IterOut => exists a b, sc a b /\ btw a b x /\ btw lo hi a /\ btw lo hi b
  end.

Lemma stop_cases c dx err : stop c dx err = true ->
  if checkroot c then err < ytol c /\ Qabs dx < xtol c else Qabs dx < xtol c \/ err < ytol c.
Proof.
  unfold stop. destruct (checkroot c).
  - rewrite andb_true_iff, !qltb_true. tauto.
  - rewrite orb_true_iff, !qltb_true. tauto.
Qed.

Lemma Qabs_pos_lt y t : 0 < y -> y < t -> Qabs y < t.
Proof. intros P L. apply Qabs_Qlt_condition. lra. Qed.
Lemma Qabs_neg_lt y t : y < 0 -> - y < t -> Qabs y < t.
Proof. intros P L. apply Qabs_Qlt_condition. lra. Qed.

Lemma loop_spec c : forall fuel x y x0 y0 x1 y1 df0 calls r w n lo hi,
  y = f x -> y0 == f x0 -> y1 == f x1 -> y0 < 0 -> 0 < y1 -> btw x0 x1 x -> btw lo hi x0 -> btw lo hi x1 ->
  iq_loop rnd f c fuel x y x0 y0 x1 y1 df0 calls = Ok (r, w, n) -> post c lo hi r w /\ btw lo hi r.
Proof.
  induction fuel as [|k IH]; intros x y x0 y0 x1 y1 df0 calls r w n lo hi Ey E0 E1 N0 P1 Bx B0 B1 H; cbn [iq_loop] in H.
  - destruct (checkiter c); [discriminate|]. inversion H; subst r w n. split.
    + cbn [post]. exists x0, x1. unfold sc. repeat split; try assumption; lra.
    + apply (btw_trans lo hi x0 x1); assumption.
  - assert (Bxl : btw lo hi x) by (apply (btw_trans lo hi x0 x1); assumption).
    destruct (qltb 0 y) eqn:Py.
    + apply qltb_true in Py.
      destruct (stop c (x - x0) y) eqn:S.
      * inversion H; subst r w n. split; [|exact Bxl]. cbn [post]. apply stop_cases in S.
        assert (SC : sc x0 x) by (unfold sc; rewrite <- Ey; split; lra).
        destruct (checkroot c).
        -- destruct S as [Sy Sx]. split; [rewrite <- Ey; apply Qabs_pos_lt; assumption|].
           exists x0, x. repeat split; try assumption; try apply SC. right; reflexivity.
        -- destruct S as [Sx|Sy]; [right|left; rewrite <- Ey; apply Qabs_pos_lt; assumption].
           exists x0, x. repeat split; try assumption; try apply SC. right; reflexivity.
      * destruct (iq_iter_ok y0 y y1 x0 x x1 df0 x) as (xn & En & Bn). rewrite En in H. cbn [bind] in H.
        eapply (IH xn (f xn) x0 y0 x y); try eassumption; try reflexivity. rewrite Ey; reflexivity.
    + apply qltb_false in Py. destruct (qltb y 0) eqn:Ny.
      * apply qltb_true in Ny.
        destruct (stop c (x1 - x) (- y)) eqn:S.
        -- inversion H; subst r w n. split; [|exact Bxl]. cbn [post]. apply stop_cases in S.
           assert (SC : sc x x1) by (unfold sc; rewrite <- Ey; split; lra).
           destruct (checkroot c).
           ++ destruct S as [Sy Sx]. split; [rewrite <- Ey; apply Qabs_neg_lt; assumption|].
              exists x, x1. repeat split; try assumption; try apply SC. left; reflexivity.
           ++ destruct S as [Sx|Sy]; [right|left; rewrite <- Ey; apply Qabs_neg_lt; assumption].
              exists x, x1. repeat split; try assumption; try apply SC. left; reflexivity.
        -- destruct (iq_iter_ok y y1 y0 x x1 x0 (- y) x) as (xn & En & Bn). rewrite En in H. cbn [bind] in H.
           eapply (IH xn (f xn) x y x1 y1); try eassumption; try reflexivity. rewrite Ey; reflexivity.
      * apply qltb_false in Ny. inversion H; subst r w n. split; [|exact Bxl]. cbn [post]. rewrite <- Ey. lra.
Qed.

(* without the optional checks the loop always returns *)
Lemma loop_total c : checkiter c = false -> forall fuel x y x0 y0 x1 y1 df0 calls,
  exists r, iq_loop rnd f c fuel x y x0 y0 x1 y1 df0 calls = Ok r.
Proof.
  intros CI. induction fuel as [|k IH]; intros; cbn [iq_loop].
  - rewrite CI. eexists; reflexivity.
  - destruct (qltb 0 y).
    + destruct (stop _ _ _); [eexists; reflexivity|].
      destruct (iq_iter_ok y0 y y1 x0 x x1 df0 x) as (xn & En & _). rewrite En. cbn [bind]. apply IH.
    + destruct (qltb y 0); [|eexists; reflexivity].
      destruct (stop _ _ _); [eexists; reflexivity|].
      destruct (iq_iter_ok y y1 y0 x x1 x0 (- y) x) as (xn & En & _). rewrite En. cbn [bind]. apply IH.
Qed.

Lemma lucky_post c v x : lucky c v = true -> v == f x -> Qabs (f x) < ytol c \/ f x == 0.
Proof.
  unfold lucky. rewrite orb_true_iff, andb_true_iff, qltb_true, qzerob_true. intros [[_ H]|H] E.
  - left. rewrite <- E. exact H.
  - right. rewrite <- E. exact H.
Qed.
Lemma lucky_false_nz c v : lucky c v = false -> ~ v == 0.
Proof.
  unfold lucky. rewrite orb_false_iff. intros [_ H]. apply qzerob_false. exact H.
Qed.

Lemma sign_split a b : a * b <= 0 -> ~ a == 0 -> ~ b == 0 -> (a < 0 /\ 0 < b) \/ (b < 0 /\ 0 < a).
Proof.
  intros M A B.
  destruct (Q_dec a 0) as [[La|Ga]|Ea]; [| |contradiction];
  destruct (Q_dec b 0) as [[Lb|Gb]|Eb]; try contradiction.
  - exfalso. assert (0 < a * b) by nra. lra.
  - left; split; assumption.
  - right; split; assumption.
  - exfalso. assert (0 < a * b) by nra. lra.
Qed.


Definition given_ok (oy : option Q) (x : Q) : Prop := forall v, oy = Some v -> v == f x.

(* the part of IQ_interpolation after the ends have been oriented (a0 on the negative side) *)
Definition iq_tail (c : iqcfg) (maxiter : nat) (gx : bool) (x a0 b0 a1 b1 : Q) (n2 : nat) : iqres :=
  let df0 := - b0 in
  let dx := a1 - a0 in
  if gx then
    do xg <- fp_iter rnd a0 a1 dx b0 b1 df0 a0;
    let yg := f xg in
    if lucky c yg then Ok (xg, Lucky, S n2) else
    if checkbounds c && qltb 0 (b0 * b1) then Err EValue else
    iq_loop rnd f c maxiter xg yg a0 b0 a1 b1 df0 (S n2)
  else
    if checkbounds c && qltb 0 (b0 * b1) then Err EValue else
    iq_loop rnd f c maxiter x (f x) a0 b0 a1 b1 df0 n2.

Lemma iq_tail_spec c maxiter gx x a0 b0 a1 b1 n2 lo hi r w n :
  b0 == f a0 -> b1 == f a1 -> b0 < 0 -> 0 < b1 -> btw lo hi a0 -> btw lo hi a1 -> (gx = false -> btw a0 a1 x) ->
  iq_tail c maxiter gx x a0 b0 a1 b1 n2 = Ok (r, w, n) -> post c lo hi r w /\ btw lo hi r.
Proof.
  intros E0 E1 N P B0 B1 Bx H. unfold iq_tail in H. cbv zeta in H. destruct gx.
  - destruct (fp_iter_ok a0 a1 b0 b1 (- b0) a0) as (xg & Eg & Bg). rewrite Eg in H. cbn [bind] in H.
    destruct (lucky c (f xg)) eqn:L.
    + inversion H; subst r w n. split; [cbn [post]; eapply lucky_post; [exact L|reflexivity]|].
      apply (btw_trans lo hi a0 a1); assumption.
    + destruct (checkbounds c && qltb 0 (b0 * b1)); [discriminate|].
      eapply loop_spec; try exact H; try assumption; reflexivity.
  - destruct (checkbounds c && qltb 0 (b0 * b1)); [discriminate|].
    eapply loop_spec; try exact H; try assumption; try reflexivity. apply Bx; reflexivity.
Qed.

Lemma iq_tail_total c maxiter gx x a0 b0 a1 b1 n2 :
  checkiter c = false -> checkbounds c = false -> exists r, iq_tail c maxiter gx x a0 b0 a1 b1 n2 = Ok r.
Proof.
  intros CI CB. unfold iq_tail. cbv zeta. rewrite CB. cbn [andb]. destruct gx.
  - destruct (fp_iter_ok a0 a1 b0 b1 (- b0) a0) as (xg & Eg & _). rewrite Eg. cbn [bind].
    destruct (lucky c (f xg)); [eexists; reflexivity|]. apply loop_total; assumption.
  - apply loop_total; assumption.
Qed.

Lemma iq_unfold c maxiter x0 x1 oy0 oy1 ox :
  iq_interpolation rnd f c maxiter x0 x1 oy0 oy1 ox =
  if checkroot c && (qleb (xtol c) 0 || qleb (ytol c) 0) then Err EValue else
  let guess_x := match ox with None => true | Some x => nwb x x0 x1 end in
  let x := match ox with None => big32 | Some x => x end in
  let n0 := if guess_x then O else 1%nat in
  if negb guess_x && lucky c (f x) then Ok (x, Lucky, n0) else
  let y0 := match oy0 with Some v => v | None => f x0 end in
  let n1 := match oy0 with Some _ => n0 | None => S n0 end in
  if lucky c y0 then Ok (x0, Lucky, n1) else
  let y1 := match oy1 with Some v => v | None => f x1 end in
  let n2 := match oy1 with Some _ => n1 | None => S n1 end in
  if lucky c y1 then Ok (x1, Lucky, n2) else
  if qltb y1 0 then iq_tail c maxiter guess_x x x1 y1 x0 y0 n2
  else iq_tail c maxiter guess_x x x0 y0 x1 y1 n2.
Proof.
  unfold iq_interpolation, iq_tail. cbv zeta.
  destruct (checkroot c && _); [reflexivity|].
  destruct (negb _ && _); [reflexivity|].
  destruct (lucky c (match oy0 with Some v => v | None => f x0 end)); [reflexivity|].
  destruct (lucky c (match oy1 with Some v => v | None => f x1 end)); [reflexivity|].
  destruct (qltb (match oy1 with Some v => v | None => f x1 end) 0); reflexivity.
Qed.

(* THE specification: whatever f is, when the ends supplied carry f's values and f changes sign over them *)
Theorem iq_spec c maxiter x0 x1 oy0 oy1 ox r w n :
  given_ok oy0 x0 -> given_ok oy1 x1 -> f x0 * f x1 <= 0 ->
  iq_interpolation rnd f c maxiter x0 x1 oy0 oy1 ox = Ok (r, w, n) ->
  post c x0 x1 r w /\ btw x0 x1 r.
Proof.
  intros G0 G1 SG H. rewrite iq_unfold in H. cbv zeta in H.
  destruct (checkroot c && _); [discriminate|].
  set (gx := match ox with None => true | Some x => nwb x x0 x1 end) in *.
  set (xx := match ox with None => big32 | Some x => x end) in *.
  assert (Bxx : gx = false -> (x0 < xx /\ xx < x1) \/ (x1 < xx /\ xx < x0)).
  { subst gx xx. destruct ox; [|discriminate]. apply nwb_false. }
  destruct (negb gx && lucky c (f xx)) eqn:L0.
  { inversion H; subst r w n. apply andb_true_iff in L0 as [Gx Lk]. apply negb_true_iff in Gx.
    split; [cbn [post]; eapply lucky_post; [exact Lk|reflexivity]|].
    unfold btw. destruct (Bxx Gx) as [[A B]|[A B]]; [left|right]; lra. }
  set (y0 := match oy0 with Some v => v | None => f x0 end) in *.
  assert (E0 : y0 == f x0) by (subst y0; destruct oy0; [apply G0; reflexivity|reflexivity]).
  destruct (lucky c y0) eqn:L1.
  { inversion H; subst r w n. split; [cbn [post]; eapply lucky_post; eassumption|apply btw_l]. }
  set (y1 := match oy1 with Some v => v | None => f x1 end) in *.
  assert (E1 : y1 == f x1) by (subst y1; destruct oy1; [apply G1; reflexivity|reflexivity]).
  destruct (lucky c y1) eqn:L2.
  { inversion H; subst r w n. split; [cbn [post]; eapply lucky_post; eassumption|apply btw_r]. }
  apply lucky_false_nz in L1. apply lucky_false_nz in L2.
  assert (SS : y0 * y1 <= 0) by (rewrite E0, E1; exact SG).
  assert (Bx' : forall a b, (a = x0 /\ b = x1) \/ (a = x1 /\ b = x0) -> gx = false -> btw a b xx).
  { intros a b AB Gx. unfold btw. destruct (Bxx Gx) as [[A B]|[A B]]; destruct AB as [[-> ->]|[-> ->]]; [left|right|right|left]; lra. }
  destruct (sign_split _ _ SS L1 L2) as [[N P]|[N P]].
  - assert (S : qltb y1 0 = false) by (apply qltb_false; lra). rewrite S in H.
    eapply iq_tail_spec; try exact H; try assumption; try apply btw_l; try apply btw_r. apply Bx'; left; split; reflexivity.
  - assert (S : qltb y1 0 = true) by (apply qltb_true; lra). rewrite S in H.
    eapply (iq_tail_spec c maxiter gx xx x1 y1 x0 y0); try exact H; try assumption; try apply btw_l; try apply btw_r.
    apply Bx'; right; split; reflexivity.
Qed.

(* with the optional checks off - the way every call site in vle.py calls it - IQ_interpolation always returns *)
Theorem iq_total c maxiter x0 x1 oy0 oy1 ox :
  checkroot c = false -> checkiter c = false -> checkbounds c = false ->
  exists r, iq_interpolation rnd f c maxiter x0 x1 oy0 oy1 ox = Ok r.
Proof.
  intros CR CI CB. rewrite iq_unfold. cbv zeta. rewrite CR. cbn [andb].
  destruct (negb _ && _); [eexists; reflexivity|].
  destruct (lucky c _); [eexists; reflexivity|].
  destruct (lucky c _); [eexists; reflexivity|].
  destruct (qltb _ 0); apply iq_tail_total; assumption.
Qed.

End Facts.

(* ---------- the forms quoted in Props.v ---------- *)
Definition rnd_keeps_between (rnd : Q -> Q) : Prop := forall a b q, btw a b q -> btw a b (rnd q).

Lemma iq_resolution_lemma rnd f : rnd_keeps_between rnd ->
  forall c maxiter x0 x1 oy0 oy1 ox r n,
  checkroot c = false -> given_ok f oy0 x0 -> given_ok f oy1 x1 -> f x0 * f x1 <= 0 ->
  iq_interpolation rnd f c maxiter x0 x1 oy0 oy1 ox = Ok (r, Tol, n) ->
  Qabs (f r) < ytol c \/
  exists a b, f a < 0 /\ 0 < f b /\ (r = a \/ r = b) /\ Qabs (b - a) < xtol c /\ btw x0 x1 a /\ btw x0 x1 b.
Proof.
  intros R c maxiter x0 x1 oy0 oy1 ox r n CR G0 G1 SG H.
  destruct (iq_spec rnd f R c maxiter x0 x1 oy0 oy1 ox r Tol n G0 G1 SG H) as [P _].
  cbn [post] in P. rewrite CR in P. destruct P as [A|(a & b & [Sa Sb] & E & W & Ba & Bb)]; [left; exact A|right].
  exists a, b. repeat split; assumption.
Qed.

Lemma iq_checked_root_lemma rnd f : rnd_keeps_between rnd ->
  forall c maxiter x0 x1 oy0 oy1 ox r n,
  checkroot c = true -> given_ok f oy0 x0 -> given_ok f oy1 x1 -> f x0 * f x1 <= 0 ->
  iq_interpolation rnd f c maxiter x0 x1 oy0 oy1 ox = Ok (r, Tol, n) ->
  Qabs (f r) < ytol c /\
  exists a b, f a < 0 /\ 0 < f b /\ (r = a \/ r = b) /\ Qabs (b - a) < xtol c /\ btw x0 x1 a /\ btw x0 x1 b.
Proof.
  intros R c maxiter x0 x1 oy0 oy1 ox r n CR G0 G1 SG H.
  destruct (iq_spec rnd f R c maxiter x0 x1 oy0 oy1 ox r Tol n G0 G1 SG H) as [P _].
  cbn [post] in P. rewrite CR in P. destruct P as [A (a & b & [Sa Sb] & E & W & Ba & Bb)]. split; [exact A|].
  exists a, b. repeat split; assumption.
Qed.

Lemma iq_other_returns_lemma rnd f : rnd_keeps_between rnd ->
  forall c maxiter x0 x1 oy0 oy1 ox r w n,
  given_ok f oy0 x0 -> given_ok f oy1 x1 -> f x0 * f x1 <= 0 ->
  iq_interpolation rnd f c maxiter x0 x1 oy0 oy1 ox = Ok (r, w, n) ->
  btw x0 x1 r /\
  (w = Lucky -> Qabs (f r) < ytol c \/ f r == 0) /\
  (w = Exact -> f r == 0) /\
  (w = IterOut -> checkiter c = false /\ exists a b, f a < 0 /\ 0 < f b /\ btw a b r /\ btw x0 x1 a /\ btw x0 x1 b).
Proof.
  intros R c maxiter x0 x1 oy0 oy1 ox r w n G0 G1 SG H.
  destruct (iq_spec rnd f R c maxiter x0 x1 oy0 oy1 ox r w n G0 G1 SG H) as [P B].
  split; [exact B|]. split; [|split]; intros ->; cbn [post] in P; try exact P.
  split.
  - destruct (checkiter c) eqn:CI; [|reflexivity]. exfalso.
    (* with checkiter on, running out of iterations raises: IterOut is never returned *)
    clear P B. rewrite iq_unfold in H. cbv zeta in H.
    destruct (checkroot c && _); [discriminate|].
    destruct (negb _ && _); [discriminate|].
    destruct (lucky c _); [discriminate|]. destruct (lucky c _); [discriminate|].
    assert (L : forall fuel x y a0 b0 a1 b1 d k r' n', iq_loop rnd f c fuel x y a0 b0 a1 b1 d k <> Ok (r', IterOut, n')).
    { induction fuel as [|k IH]; intros x y a0 b0 a1 b1 d k' r' n'; cbn [iq_loop].
      - rewrite CI. discriminate.
      - destruct (qltb 0 y).
        + destruct (stop _ _ _); [discriminate|]. destruct (iq_iter _ _ _ _ _ _ _ _ _ _); cbn [bind]; [apply IH|discriminate].
        + destruct (qltb y 0); [|discriminate]. destruct (stop _ _ _); [discriminate|].
          destruct (iq_iter _ _ _ _ _ _ _ _ _ _); cbn [bind]; [apply IH|discriminate]. }
    assert (T : forall gx x a0 b0 a1 b1 k r' n', iq_tail rnd f c maxiter gx x a0 b0 a1 b1 k <> Ok (r', IterOut, n')).
    { intros gx x a0 b0 a1 b1 k r' n'. unfold iq_tail. cbv zeta. destruct gx.
      - destruct (fp_iter _ _ _ _ _ _ _ _); cbn [bind]; [|discriminate].
        destruct (lucky c _); [discriminate|]. destruct (checkbounds c && _); [discriminate|]. apply L.
      - destruct (checkbounds c && _); [discriminate|]. apply L. }
    destruct (qltb _ 0); eapply T; exact H.
  - destruct P as (a & b & [Sa Sb] & Bx & Ba & Bb). exists a, b. repeat split; assumption.
Qed.

(* the V specification of vle.py: residual T |-> V(T) - V between the bubble and the dew point, reached only when
   V(T_bubble) <= V <= V(T_dew) *)
Lemma iq_V_lemma rnd (Vf : Q -> Q) : rnd_keeps_between rnd ->
  forall c maxiter Tb Td V guess r n,
  checkroot c = false -> Vf Tb <= V -> V <= Vf Td ->
  iq_interpolation rnd (fun T => Vf T - V) c maxiter Tb Td (Some (Vf Tb - V)) (Some (Vf Td - V)) guess = Ok (r, Tol, n) ->
  Qabs (Vf r - V) < ytol c \/
  exists a b, Vf a < V /\ V < Vf b /\ (r = a \/ r = b) /\ Qabs (b - a) < xtol c /\ btw Tb Td a /\ btw Tb Td b.
Proof.
  intros R c maxiter Tb Td V guess r n CR L U H.
  destruct (iq_resolution_lemma rnd (fun T => Vf T - V) R c maxiter Tb Td (Some (Vf Tb - V)) (Some (Vf Td - V)) guess r n CR) as [A|(a & b & Sa & Sb & E & W & Ba & Bb)];
    try exact H.
  - intros v E; inversion E; reflexivity.
  - intros v E; inversion E; reflexivity.
  - cbv beta. nra.
  - left; exact A.
  - right. exists a, b. cbv beta in Sa, Sb. repeat split; try assumption; lra.
Qed.

Lemma id_keeps_between : rnd_keeps_between (fun q => q).
Proof. intros a b q H; exact H. Qed.

Lemma qred_keeps_between : rnd_keeps_between Qred.
Proof.
  intros a b q H. unfold btw in *. rewrite (Qred_correct q). exact H.
Qed.

Lemma call_sites_lemma : forall s rnd f, rnd_keeps_between rnd ->
  forall x0 x1 y0 y1 guess,
  (exists r, iq_interpolation rnd f (site_cfg s) c_maxiter x0 x1 (Some y0) (Some y1) guess = Ok r) /\
  forall r n, y0 == f x0 -> y1 == f x1 -> y0 * y1 <= 0 ->
    iq_interpolation rnd f (site_cfg s) c_maxiter x0 x1 (Some y0) (Some y1) guess = Ok (r, Tol, n) ->
    Qabs (f r) < c_V_tol \/
    exists a b, f a < 0 /\ 0 < f b /\ (r = a \/ r = b) /\
                Qabs (b - a) < (match s with SiteTV | SiteTH | SiteTS => c_P_tol | _ => c_T_tol end) /\ btw x0 x1 a /\ btw x0 x1 b.
Proof.
  intros s rnd f R x0 x1 y0 y1 guess. split.
  - apply iq_total; [exact R| | |]; destruct s; reflexivity.
  - intros r n E0 E1 SG H.
    assert (SG' : f x0 * f x1 <= 0) by (rewrite <- E0, <- E1; exact SG).
    destruct (iq_resolution_lemma rnd f R (site_cfg s) c_maxiter x0 x1 (Some y0) (Some y1) guess r n) as [A|B]; try assumption.
    + destruct s; reflexivity.
    + intros v Ev; inversion Ev; subst; assumption.
    + intros v Ev; inversion Ev; subst; assumption.
    + left. destruct s; exact A.
    + right. destruct s; exact B.
Qed.
